import Vore.Model.Token
/-!
# Vore.Model.LexTypes — the lexer's states and the shapes of its extracted tables

`St` is `TokenState` of `getNextToken` (libvore/ast/lexer.go), same order, plus nothing else.
`FinalAct` is what one `case` of the final `switch current_state` does.  Both are used by the
GENERATED file `Vore/ExtractedLex.lean` (written by `harness/cmd/extractlex` from /repo's current
source on every check) and by the hand-written model `Vore/Model/Lexer.lean`.
Core Lean only.
-/
namespace Vore.Lex

/-- `TokenState` (local type of `getNextToken`), in declaration order -/
inductive St where
  | start | whitespace | stringDouble | stringSingle | stringEnd | stringDEscape | stringSEscape
  | number | equal1 | dequal | excl | nequal | colon | coloneq | identifier | comma
  | openparen | closeparen | opencurly | closecurly
  | comment | commentStart | blockComment | blockCommentStartEnd | blockCommentEndEnd | blockCommentFinal
  | dash | operator | operatorStart | regexp | regexpUnending | error | end_
deriving Repr, DecidableEq, Inhabited

/-- the messages of `NewLexError` in `getNextToken` -/
inductive ErrKind where
  | unknownToken | unendingString | unendingBlockComment | unendingRegexp
deriving Repr, DecidableEq, Inhabited

/-- `LexError.Message()` -/
def ErrKind.message : ErrKind → String
  | .unknownToken => "Unknown token"
  | .unendingString => "Unending string"
  | .unendingBlockComment => "Unending block comment"
  | .unendingRegexp => "Unending regexp"

/-- one `case` of the final `switch current_state`:
`tok k` — `token.TokenType = k` (k ≠ ERROR);
`err e` — `token.TokenType = ERROR` with the `unending…` flag that selects the message;
`keywords` — IDENTIFIER unless the lower-cased lexeme is in the keyword `switch`;
`operators` — ERROR unless the lexeme is in the operator `switch`. -/
inductive FinalAct where
  | tok (k : Tok)
  | err (e : ErrKind)
  | keywords
  | operators
deriving Repr, DecidableEq, Inhabited

end Vore.Lex
