import Vore.Model.LexTypes
/-!
# Vore.Model.LexStep — one iteration of the lexer's loop (libvore/ast/lexer.go `getNextToken`)

The `if … else if …` chain as a function of (state, character), plus the two facts about it that the
termination proof of the model needs.  Independent of the extracted tables (so its checks are not
redone when the tables change).
-/
namespace Vore.Lex
open Vore

/-! ## characters: `unicode.IsSpace`, `IsDigit`, `IsLetter`

On ASCII bytes these are the ASCII ranges.  The bytes `0x81`, `0x82`, `0x83` stand for "some non-ASCII letter / digit /
space" and `0x80` (like every other byte ≥ 0x84) for "some other non-ASCII rune": a source that is not ASCII is lexed
through its class-preserving image `Vore.Unicode.abstractSource` (Vore/Model/Unicode.lean), in which every rune is one
byte. -/

/-- `unicode.IsSpace`: `\t \n \v \f \r`, blank, and the class byte of non-ASCII spaces -/
def isSpace (c : UInt8) : Prop := (9 ≤ c ∧ c ≤ 13) ∨ c = 32 ∨ c = 0x83
instance (c : UInt8) : Decidable (isSpace c) := by unfold isSpace; infer_instance

/-- `unicode.IsDigit`: ASCII digits and the class byte of non-ASCII decimal digits -/
def isDigit (c : UInt8) : Prop := (48 ≤ c ∧ c ≤ 57) ∨ c = 0x82
instance (c : UInt8) : Decidable (isDigit c) := by unfold isDigit; infer_instance

/-- `unicode.IsLetter`: ASCII letters and the class byte of non-ASCII letters -/
def isLetter (c : UInt8) : Prop := (65 ≤ c ∧ c ≤ 90) ∨ (97 ≤ c ∧ c ≤ 122) ∨ c = 0x81
instance (c : UInt8) : Decidable (isLetter c) := by unfold isLetter; infer_instance

/-! ## one iteration of the loop -/

/-- what one branch of the `if … else if …` chain does with the character `ch` just read -/
inductive Act where
  | next (s : St) (w : Bool)      -- stay in the loop in state `s`; `w`: `buf.WriteRune(ch)`
  | brk (s : St) (w : Bool)       -- `current_state = s; break`
  | unreadBrk (s : St)            -- `s.unread_last(); current_state = s; break`
  | escape (s : St)               -- `buf.WriteRune(s.readEscape(ch)); current_state = s`
  | regexp                        -- the `@` branch
deriving Repr, DecidableEq, Inhabited

/-- the chain of `getNextToken`'s loop for `ch ≠ 0`, branch by branch in source order.
(The second `else if current_state == SCOMMENTSTART` near the end of the Go chain is dead code —
an earlier branch has the same condition — and is omitted.) -/
def step (s : St) (ch : UInt8) : Act :=
  if s = .comment then (if ch = 10 then .unreadBrk .comment else .next .comment true)
  else if s = .blockComment then (if ch = 41 then .next .blockCommentStartEnd true else .next .blockComment true)
  else if s = .blockCommentStartEnd ∧ ch = 45 then .next .blockCommentEndEnd true
  else if (s = .blockCommentStartEnd ∨ s = .blockCommentEndEnd) ∧ ch = 41 then .next .blockCommentStartEnd true
  else if s = .blockCommentEndEnd ∧ ch = 45 then .brk .blockCommentFinal true
  else if s = .blockCommentEndEnd ∨ s = .blockCommentStartEnd then .next .blockComment true
  else if s = .stringDEscape then .escape .stringDouble
  else if s = .stringSEscape then .escape .stringSingle
  else if ch = 92 ∧ s = .stringDouble then .next .stringDEscape false
  else if s = .stringDouble then (if ch = 34 then .brk .stringEnd false else .next .stringDouble true)
  else if ch = 92 ∧ s = .stringSingle then .next .stringSEscape false
  else if s = .stringSingle then (if ch = 39 then .brk .stringEnd false else .next .stringSingle true)
  else if ch = 40 ∧ s = .commentStart then .next .blockComment true
  else if s = .commentStart then (if ch = 10 then .unreadBrk .comment else .next .comment true)
  else if ch = 40 ∧ s = .start then .brk .openparen true
  else if ch = 41 ∧ s = .start then .brk .closeparen true
  else if ch = 123 ∧ s = .start then .brk .opencurly true
  else if ch = 125 ∧ s = .start then .brk .closecurly true
  else if ch = 44 ∧ s = .start then .brk .comma true
  else if ch = 33 ∧ s = .start then .next .excl true
  else if ch = 61 ∧ s = .excl then .brk .nequal true
  else if ch = 61 ∧ s = .start then .next .equal1 true
  else if ch = 61 ∧ s = .equal1 then .brk .dequal true
  else if ch = 61 ∧ s = .colon then .brk .coloneq true
  else if ch = 61 ∧ s = .operatorStart then .brk .operator true
  else if ch = 58 ∧ s = .start then .next .colon true
  else if ch = 45 ∧ (s = .start ∨ s = .dash ∨ s = .commentStart) then
    .next (if s = .start then .dash else if s = .dash then .commentStart else .comment) true
  else if s = .start ∧ (ch = 43 ∨ ch = 37 ∨ ch = 42 ∨ ch = 47) then .brk .operator true
  else if s = .start ∧ (ch = 62 ∨ ch = 60) then .next .operatorStart true
  else if isSpace ch then
    (if s = .start ∨ s = .whitespace then .next .whitespace true else .unreadBrk s)
  else if isDigit ch ∧ (s = .number ∨ s = .start) then .next .number true
  else if isLetter ch ∧ s = .start then .next .identifier true
  else if (isDigit ch ∨ isLetter ch) ∧ s = .identifier then .next .identifier true
  else if ch = 34 ∧ s = .start then .next .stringDouble false
  else if ch = 39 ∧ s = .start then .next .stringSingle false
  else if s = .start ∧ ch = 64 then .regexp
  else if s ≠ .start ∨ isDigit ch ∨ isLetter ch ∨ isSpace ch ∨ ch = 40 ∨ ch = 41 ∨ ch = 123 ∨ ch = 125
      ∨ ch = 44 ∨ ch = 58 ∨ ch = 61 ∨ ch = 34 ∨ ch = 39 ∨ ch = 45 ∨ ch = 43 ∨ ch = 60 ∨ ch = 62
      ∨ ch = 42 ∨ ch = 47 ∨ ch = 37 ∨ ch = 64 then .unreadBrk s
  else .brk .error true

/-! ## facts about the chain (checked by evaluating it on all 33 × 256 arguments) -/

theorem all_u8 (P : UInt8 → Prop) (h : ∀ n : Fin 256, P (UInt8.ofNat n.val)) : ∀ c : UInt8, P c := by
  intro c
  have := h ⟨c.toNat, c.toNat_lt⟩
  simpa using this

def St.all : List St := [.start, .whitespace, .stringDouble, .stringSingle, .stringEnd, .stringDEscape,
    .stringSEscape, .number, .equal1, .dequal, .excl, .nequal, .colon, .coloneq, .identifier, .comma, .openparen,
    .closeparen, .opencurly, .closecurly, .comment, .commentStart, .blockComment, .blockCommentStartEnd,
    .blockCommentEndEnd, .blockCommentFinal, .dash, .operator, .operatorStart, .regexp, .regexpUnending, .error,
    .end_]

theorem St.mem_all (s : St) : s ∈ St.all := by cases s <;> decide

/-- no branch of the chain goes (back) to SSTART, and SSTART never un-reads -/
def stepOk (s : St) (c : UInt8) : Bool :=
  match step s c with
  | .next s' _ => s' != .start
  | .brk s' _ => s' != .start
  | .unreadBrk s' => s != .start && s' != .start
  | .escape s' => s' != .start
  | .regexp => true

set_option maxRecDepth 1000000 in
theorem stepOk_aux : ∀ s ∈ St.all, ∀ n : Fin 256, stepOk s (UInt8.ofNat n.val) = true := by decide

theorem stepOk_all (s : St) (c : UInt8) : stepOk s c = true :=
  all_u8 (fun c => stepOk s c = true) (stepOk_aux s s.mem_all) c

theorem step_start_not_unread (c : UInt8) (s' : St) : step .start c ≠ .unreadBrk s' := by
  intro h
  have := stepOk_all .start c
  simp [stepOk, h] at this

end Vore.Lex
