import Vore.Model.Process
/-!
# Vore.Model.Check — semantic checker for process code (libvore/bytecode/semanticcheck.go)
-/
namespace Vore

inductive Ctx where
  | predicate | transformation
deriving Repr, DecidableEq, Inhabited

def Op.isCmp : Op → Bool
  | .dequal | .nequal | .less | .greater | .lesseq | .greatereq => true
  | _ => false

def Op.isArith : Op → Bool
  | .plus | .minus | .mult | .div | .mod => true
  | _ => false

/-- the else-if chain of `checkBinaryExpr`, in source order -/
def binType (l r : PT) (op : Op) : Option PT :=
  if l = .string ∧ op = .plus then some .string
  else if l = .string ∧ op.isCmp then some .boolean
  else if l = .boolean ∧ (op = .and ∨ op = .or ∨ op.isCmp) then some .boolean
  else if l = .number ∧ op.isCmp then some .boolean
  else if l = .number ∧ op.isArith then some .number
  else if l = .string ∧ r = .number ∧ op.isArith then some .number
  else none

/-- `checkUnaryExpr` -/
def unType (t : PT) (op : Op) : Option PT :=
  if t = .boolean ∧ op = .not then some .boolean
  else if t = .string ∧ (op = .head ∨ op = .tail) then some .string
  else none

abbrev TEnv := List (String × PT)

def TEnv.get (Γ : TEnv) (k : String) : PT := ((Γ.find? (·.1 == k)).map (·.2)).getD .string

def TEnv.put (Γ : TEnv) (k : String) (t : PT) : TEnv := (k, t) :: Γ.filter (fun kv => !(kv.1 == k))

/-- `checkExpression`: `none` = PTERROR -/
def typeOf (Γ : TEnv) : PExpr → Option PT
  | .str _ => some .string
  | .num _ => some .number
  | .bool _ => some .boolean
  | .var x => some (Γ.get x)
  | .un op e => (typeOf Γ e).bind (fun t => unType t op)
  | .bin op l r =>
    match typeOf Γ l, typeOf Γ r with
    | some tl, some tr => binType tl tr op
    | _, _ => none

/-- `checkReturn`: may a value of type `t` be returned in context `ctx`? -/
def retOK (ctx : Ctx) (t : PT) : Bool :=
  match ctx with
  | .predicate => t == .boolean
  | .transformation => t == .string || t == .number

structure TInfo where
  env : TEnv
  inLoop : Bool
deriving Repr, Inhabited

/-- `checkStatement`: `none` = rejected.  `checkLoop` restores the enclosing `inLoop`
(after the `fix:` commit; the pinned commit reset it to false). -/
def checkStmt (ctx : Ctx) : Stmt → TInfo → Option TInfo
  | .skip, i => some i
  | .seq a b, i => (checkStmt ctx a i).bind (checkStmt ctx b)
  | .set x e, i => (typeOf i.env e).map (fun t => { i with env := i.env.put x t })
  | .ret e, i =>
    match typeOf i.env e with
    | none => none
    | some t => if retOK ctx t then some i else none
  | .ite c t f, i =>
    match typeOf i.env c with
    | some .boolean => (checkStmt ctx t i).bind (checkStmt ctx f)
    | _ => none
  | .debug e, i => (typeOf i.env e).map (fun _ => i)
  | .loop body, i => (checkStmt ctx body { i with inLoop := true }).map (fun j => { j with inLoop := i.inLoop })
  | .cont, i => if i.inLoop then some i else none
  | .brk, i => if i.inLoop then some i else none

def initTEnv : TEnv := [("match", .string), ("matchLength", .number)]

def checkBody (ctx : Ctx) (body : Stmt) : Bool :=
  (checkStmt ctx body { env := initTEnv, inLoop := false }).isSome

end Vore
