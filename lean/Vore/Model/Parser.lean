import Vore.Model.Token
/-!
# Vore.Model.Parser — the recursive-descent parser of libvore/ast/parser.go (FIXED version)

One Lean function per Go `parse_*` function, over `(ts : List Token) (i : Nat)`, returning
`Res α = ok node next | error msg tokenIndex | panic | fuel`.

* every `tokens[i]` is the partial access `tk ts i`; a failed access is the outcome `.panic`
  (so "never panics" is a theorem — `Vore/Props/C08parse.lean` — not an assumption);
* `consumeIgnoreableTokens` is `skip` (partial: running off the end is `.panic`);
* index-driven recursion takes a fuel argument; `parse` instantiates it with `fuelOf ts`
  (linear in `|ts|`); `.fuel` never being returned is the termination half of C08;
* trees are the NORMALISED trees of `Vore.Model.Basic` (expression lists are right-nested
  `Expr.seq … .empty`, `AstPrimary` transparent, `AstSubExpr` = its body, statement lists
  `Stmt.seq … .skip`) — the same normalisation `Vore.Driver.SExp` applies to the Go dump;
* the five Go loops "parse expressions until a closing token" (`parse_find`, `parse_replace`,
  `parse_set_pattern`, `parse_sub_expression`, `parse_subroutine`) are one function `exprList`
  parametrised by the stop predicate; the duplicated `fewest`/`named` tail of `parse_at` and
  `parse_between` is `parseLoopSuffix`;
* the regex sub-parser (`parser_regexp.go`) is the opaque parameter `rx : Bytes → RegexOutcome`;
* the Pratt parser works on the filtered expression-token slice (`List STok`), exactly like Go.

The model is of the code WITH the patches `/verif/fixes/C08-pratt-bounds`, `C08-named-nilerr`,
`C08-setmatches-nil`, `C15-comment-in-process-expr`, `C15-in-list-skip`, `C15-paren-skip`,
`C15-empty-body-skip`.  Quirks kept as they are: `exactly n X named y` never sees `named`
(dead code looking at the wrong index, kept; its nil-error return is the outcome `.panic`
and is proved unreachable); `with` needs at least one item; an unmatched `)` ends a process
expression and the rest of the expression tokens is dropped.
-/
namespace Vore.Parser
open Vore

/-! ## results and token access -/

inductive Res (α : Type) where
  | ok (v : α) (next : Nat)
  | error (msg : String) (at_ : Nat)
  | panic
  | fuel
deriving Repr

inductive RegexOutcome where
  | ok (e : Expr)
  | error
  | panic
deriving Repr

@[inline] def Res.bind {α β : Type} (r : Res α) (k : α → Nat → Res β) : Res β :=
  match r with
  | .ok v n => k v n
  | .error m a => .error m a
  | .panic => .panic
  | .fuel => .fuel

/-- `tokens[i]` -/
def tk (ts : List Token) (i : Nat) : Option Token := ts[i]?

def ignorable (k : Tok) : Bool := k == .ws || k == .comment

/-- `consumeIgnoreableTokens` on the remaining tokens; `none` = ran off the end (index panic) -/
def skipL : List Token → Nat → Option Nat
  | [], _ => none
  | t :: rest, i => if ignorable t.kind then skipL rest (i + 1) else some i

/-- `consumeIgnoreableTokens(tokens, i)` -/
def skip (ts : List Token) (i : Nat) : Option Nat := skipL (ts.drop i) i

@[inline] def withTok {β : Type} (ts : List Token) (i : Nat) (k : Token → Res β) : Res β :=
  match tk ts i with
  | none => .panic
  | some t => k t

/-- `j := consumeIgnoreableTokens(tokens, i); t := tokens[j]` -/
@[inline] def withSkipTok {β : Type} (ts : List Token) (i : Nat) (k : Nat → Token → Res β) : Res β :=
  match skip ts i with
  | none => .panic
  | some j =>
    match tk ts j with
    | none => .panic
    | some t => k j t

/-! ## significant tokens -/

/-- a significant token with everything the parser cannot observe erased: offsets, and the
lexeme of tokens whose kind alone matters (keywords, punctuation) -/
structure STok where
  kind : Tok
  lex : Bytes
deriving Repr, DecidableEq, Inhabited

def carriesLexeme (k : Tok) : Bool :=
  k == .identifier || k == .number || k == .string || k == .regexp

def Token.sig (t : Token) : STok := ⟨t.kind, if carriesLexeme t.kind then t.lexeme else []⟩

/-- remove WS and COMMENT, forget offsets and keyword spelling -/
def strip (ts : List Token) : List STok :=
  (ts.filter (fun t => !ignorable t.kind)).map Token.sig

/-! ## lexeme conversions -/

/-- names are compared as Latin-1 decodings of the lexeme bytes (same as `Driver.unname`) -/
def nameOf (b : Bytes) : String := String.ofList (b.map (fun x => Char.ofNat x.toNat))

def digitVal (b : UInt8) : Option Nat := if 48 ≤ b ∧ b ≤ 57 then some (b.toNat - 48) else none

def digitsVal : List UInt8 → Nat → Option Nat
  | [], acc => some acc
  | b :: rest, acc =>
    match digitVal b with
    | none => none
    | some d => digitsVal rest (acc * 10 + d)

/-- `strconv.Atoi` : optional sign, at least one digit, value in the int64 range -/
def atoi (b : Bytes) : Option Int :=
  let (neg, ds) : Bool × Bytes :=
    match b with
    | 45 :: r => (true, r)
    | 43 :: r => (false, r)
    | _ => (false, b)
  if ds.isEmpty then none else
  match digitsVal ds 0 with
  | none => none
  | some n =>
    if neg then (if n ≤ 9223372036854775808 then some (-(n : Int)) else none)
    else (if n ≤ 9223372036854775807 then some (n : Int) else none)

/-! ## token classes -/

def isCmdStart (k : Tok) : Bool := k == .find || k == .replace || k == .set || k == .eof
def stopFind (k : Tok) : Bool := isCmdStart k
def stopReplaceBody (k : Tok) : Bool := k == .with_ || isCmdStart k
def stopPattern (k : Tok) : Bool := isCmdStart k || k == .begin_
def stopParen (k : Tok) : Bool := k == .closeparen || isCmdStart k
def stopCurly (k : Tok) : Bool := k == .closecurly || isCmdStart k

def isListableClass (k : Tok) : Bool :=
  k == .any || k == .whitespace || k == .digit || k == .upper || k == .lower || k == .letter

def isClassStart (k : Tok) : Bool :=
  isListableClass k || k == .line || k == .file || k == .word || k == .whole

def isPrimaryStart (k : Tok) : Bool :=
  k == .string || k == .identifier || k == .openparen || isClassStart k || k == .caseless

def simpleClass (k : Tok) : Option Class :=
  match k with
  | .any => some .any | .whitespace => some .whitespace | .digit => some .digit
  | .upper => some .upper | .lower => some .lower | .letter => some .letter
  | _ => none

/-- second word of `line|file|word start|end` and `whole line|file|word` -/
def compoundClass (first second : Tok) : Option Class :=
  match first, second with
  | .line, .start => some .lineStart | .line, .end_ => some .lineEnd
  | .file, .start => some .fileStart | .file, .end_ => some .fileEnd
  | .word, .start => some .wordStart | .word, .end_ => some .wordEnd
  | .whole, .line => some .wholeLine | .whole, .file => some .wholeFile | .whole, .word => some .wholeWord
  | _, _ => none

def isProcessExprEnd (k : Tok) : Bool :=
  k == .eof || k == .set || k == .then_ || k == .if_ || k == .else_ || k == .end_ || k == .debug ||
  k == .return_ || k == .loop || k == .break_ || k == .continue_

def isPrefixOp (k : Tok) : Bool := k == .not || k == .head || k == .tail

def prefixPrecedence (k : Tok) : Nat := if k == .not then 11 else 12

def isBinaryOp (k : Tok) : Bool :=
  k == .and || k == .or || k == .plus || k == .minus || k == .mod || k == .mult || k == .div ||
  k == .less || k == .greater || k == .lesseq || k == .greatereq || k == .dequal || k == .nequal

def infixPrecedence (k : Tok) : Nat × Nat :=
  if k == .and || k == .or then (1, 2)
  else if k == .dequal || k == .nequal then (3, 4)
  else if k == .less || k == .greater || k == .lesseq || k == .greatereq then (5, 6)
  else if k == .plus || k == .minus then (7, 8)
  else (9, 10)

def opOfTok (k : Tok) : Op :=
  match k with
  | .plus => .plus | .minus => .minus | .mult => .mult | .div => .div | .mod => .mod
  | .less => .less | .greater => .greater | .lesseq => .lesseq | .greatereq => .greatereq
  | .dequal => .dequal | .nequal => .nequal | .and => .and | .or => .or
  | .not => .not | .head => .head | .tail => .tail
  | k => .other k.name

/-! ## Pratt parser (`parse_expr_pratt`) over the filtered expression tokens -/

inductive PRes where
  | ok (e : PExpr) (next : Nat)
  | error
  | panic
  | fuel
deriving Repr

mutual
/-- `parse_expr_pratt(tokens, index, minPrecedence)` up to the operand; `prattLoop` is its `for` loop -/
def prattExpr (l : List STok) : Nat → Nat → Nat → PRes
  | 0, _, _ => .fuel
  | f + 1, idx, minP =>
    if l.length ≤ idx then .error else
    match l[idx]? with
    | none => .panic
    | some t =>
      if t.kind = .string then prattLoop l f (.str t.lex) (idx + 1) minP
      else if t.kind = .true_ then prattLoop l f (.bool true) (idx + 1) minP
      else if t.kind = .false_ then prattLoop l f (.bool false) (idx + 1) minP
      else if t.kind = .number then prattLoop l f (.num ((atoi t.lex).getD 0)) (idx + 1) minP
      else if t.kind = .identifier then prattLoop l f (.var (nameOf t.lex)) (idx + 1) minP
      else if t.kind = .openparen then
        match prattExpr l f (idx + 1) 0 with
        | .ok sub nx =>
          if l.length ≤ nx then .error else
          match l[nx]? with
          | none => .panic
          | some t2 => if t2.kind = .closeparen then prattLoop l f sub (nx + 1) minP else .error
        | r => r
      else if isPrefixOp t.kind then
        match prattExpr l f (idx + 1) (prefixPrecedence t.kind) with
        | .ok rhs nx => prattLoop l f (.un (opOfTok t.kind) rhs) nx minP
        | r => r
      else .error
def prattLoop (l : List STok) : Nat → PExpr → Nat → Nat → PRes
  | 0, _, _, _ => .fuel
  | f + 1, lhs, ti, minP =>
    if l.length ≤ ti then .ok lhs ti else
    match l[ti]? with
    | none => .panic
    | some t =>
      if t.kind = .closeparen then .ok lhs ti
      else if !isBinaryOp t.kind then .error
      else if (infixPrecedence t.kind).1 < minP then .ok lhs ti
      else
        match prattExpr l f (ti + 1) (infixPrecedence t.kind).2 with
        | .ok rhs nx => prattLoop l f (.bin (opOfTok t.kind) lhs rhs) nx minP
        | r => r
end

/-- `parse_expr_pratt(exprTokens, 0, 0)`; the returned index is ignored by the caller -/
def pratt (l : List STok) : PRes := prattExpr l (2 * l.length + 4) 0 0

/-- `getProcessExpressionTokens` on the remaining tokens: (filtered tokens, index of the end token) -/
def collectL : List Token → Nat → List STok × Nat
  | [], i => ([], i)
  | t :: rest, i =>
    if isProcessExprEnd t.kind then ([], i)
    else if ignorable t.kind then collectL rest (i + 1)
    else ((Token.sig t) :: (collectL rest (i + 1)).1, (collectL rest (i + 1)).2)

def getProcessExpressionTokens (ts : List Token) (i : Nat) : List STok × Nat := collectL (ts.drop i) i

/-- `parse_process_expression` -/
def parseProcessExpression (ts : List Token) (i : Nat) : Res PExpr :=
  let toks := (getProcessExpressionTokens ts i).1
  let nx := (getProcessExpressionTokens ts i).2
  if toks.isEmpty then withTok ts nx fun _ => .error "Unexpected token. Expected an expression." nx
  else
    match pratt toks with
    | .ok e _ => .ok e nx
    | .error => .error "process expression" i
    | .panic => .panic
    | .fuel => .fuel

/-! ## leaves: amounts, classes, strings, lists -/

def numErr : String := "Error converting to int value"
def expNum : String := "Unexpected token. Expected a number"

/-- `NUMBER` token → value, shared shape `if NUMBER { Atoi … } else error` -/
@[inline] def withNumber {β : Type} (t : Token) (j : Nat) (k : Int → Res β) : Res β :=
  if t.kind = .number then
    match atoi t.lexeme with
    | none => .error numErr j
    | some v => k v
  else .error expNum j

/-- `parse_amount` -/
def parseAmount (ts : List Token) (i : Nat) : Res Amount :=
  withSkipTok ts i fun n t =>
    if t.kind = .all then .ok ⟨true, 0, 0, 0⟩ (n + 1)
    else if t.kind = .skip then
      withSkipTok ts (n + 1) fun n1 t1 =>
        withNumber t1 n1 fun sv =>
          withSkipTok ts (n1 + 1) fun n2 t2 =>
            if t2.kind = .take then
              withSkipTok ts (n2 + 1) fun n3 t3 =>
                withNumber t3 n3 fun tv => .ok ⟨false, sv.toNat, tv.toNat, 0⟩ (n3 + 1)
            else .ok ⟨true, sv.toNat, 0, 0⟩ n2
    else if t.kind = .take ∨ t.kind = .top then
      withSkipTok ts (n + 1) fun n1 t1 =>
        withNumber t1 n1 fun tv => .ok ⟨false, 0, tv.toNat, 0⟩ (n1 + 1)
    else if t.kind = .last then
      withSkipTok ts (n + 1) fun n1 t1 =>
        withNumber t1 n1 fun lv => .ok ⟨true, 0, 0, lv.toNat⟩ (n1 + 1)
    else .error "Unexpected token. Expected 'all', 'skip', or 'take'" n

/-- `parse_character_class(tokens, i, not)` -/
def parseCharacterClass (ts : List Token) (i : Nat) (neg : Bool) : Res Atom :=
  withTok ts i fun t =>
    match simpleClass t.kind with
    | some c => .ok (.cls neg c) (i + 1)
    | none =>
      if t.kind = .line ∨ t.kind = .file ∨ t.kind = .word ∨ t.kind = .whole then
        withSkipTok ts (i + 1) fun n t2 =>
          match compoundClass t.kind t2.kind with
          | some c => .ok (.cls neg c) (n + 1)
          | none => .error "Unexpected token. Expected 'start' or 'end' / 'file', 'line', or 'word'" n
      else .error "Unexpected token. Expected a character class" i

/-- `parse_caseless`: the value of the `AstString{Caseless: true}` it builds -/
def parseCaseless (ts : List Token) (i : Nat) : Res Bytes :=
  withSkipTok ts (i + 1) fun n t =>
    if t.kind = .string then .ok t.lexeme (n + 1)
    else .error "Unexpected token. Expected <string> after the 'caseless' keyword." n

/-- `parse_listable` (with `parse_string` inlined) -/
def parseListable (ts : List Token) (i : Nat) : Res Atom :=
  withTok ts i fun t =>
    if t.kind = .string then
      withSkipTok ts (i + 1) fun c t2 =>
        if t2.kind = .to then
          withSkipTok ts (c + 1) fun c2 t3 =>
            if t3.kind = .string then .ok (.range t.lexeme t3.lexeme) (c2 + 1)
            else .error "Unexpected token. Expected a string" c2
        else .ok (.str false false t.lexeme) c
    else if t.kind = .caseless then (parseCaseless ts i).bind fun s k => .ok (.str false true s) k
    else if isListableClass t.kind then parseCharacterClass ts i false
    else .error "Unexpected token. Expected listable literal" i

/-- the `for current_token.TokenType == COMMA` loop of `parse_in` -/
def inRest (ts : List Token) : Nat → Nat → Res (List Atom)
  | 0, _ => .fuel
  | n + 1, nx =>
    withSkipTok ts nx fun c t =>
      if t.kind = .comma then
        withSkipTok ts (c + 1) fun c1 _ =>
          (parseListable ts c1).bind fun a nx' =>
            (inRest ts n nx').bind fun as k => .ok (a :: as) k
      else .ok [] c

/-- `parse_in(tokens, i, not)`; `F` is the fuel of its comma loop -/
def parseIn (ts : List Token) (F : Nat) (i : Nat) (neg : Bool) : Res Expr :=
  withSkipTok ts (i + 1) fun n _ =>
    (parseListable ts n).bind fun a nx =>
      (inRest ts F nx).bind fun as k => .ok (.inl neg (a :: as)) k

/-- `parse_not_literal` -/
def parseNotLiteral (ts : List Token) (i : Nat) : Res Expr :=
  withSkipTok ts (i + 1) fun n t =>
    if t.kind = .string then .ok (.atom (.str true false t.lexeme)) (n + 1)
    else if isClassStart t.kind then (parseCharacterClass ts n true).bind fun a k => .ok (.atom a) k
    else .error "Unexpected token. Expected 'in', <string>, <character class>" n

/-- `parse_atom` (items of `with`) -/
def parseAtom (ts : List Token) (i : Nat) : Res RAtom :=
  withTok ts i fun t =>
    if t.kind = .string then .ok (.str t.lexeme) (i + 1)
    else if t.kind = .caseless then
      (parseCaseless ts i).bind fun s k => .ok (.str s) k
    else if t.kind = .identifier then .ok (.var (nameOf t.lexeme)) (i + 1)
    else .error "Unexpected token. Expected 'caseless', '<string>', or '<identifier>'." i

/-- `parse_regexp`: the sub-parser is the parameter `rx` -/
def parseRegexp (rx : Bytes → RegexOutcome) (ts : List Token) (i : Nat) : Res Expr :=
  withTok ts i fun t =>
    match rx t.lexeme with
    | .ok e => .ok e (i + 1)
    | .error => .error "regexp" i
    | .panic => .panic

/-- the `fewest` / `named` tail shared (as duplicated code) by `parse_at` and `parse_between` -/
def parseLoopSuffix (ts : List Token) (nx : Nat) : Res (Bool × String) :=
  withSkipTok ts nx fun c t =>
    withSkipTok ts (if t.kind = .fewest then c + 1 else c) fun c2 t2 =>
      if t2.kind = .named then
        withSkipTok ts (c2 + 1) fun c3 t3 =>
          if t3.kind = .identifier ∨ t3.kind = .string then
            .ok (decide (t.kind = .fewest), nameOf t3.lexeme) (c3 + 1)
          else .error "Expected identifier following keyword 'named'" c3
      else .ok (decide (t.kind = .fewest), "") c2

/-! ## search expressions (mutual recursion, fuel) -/

def expExpr : String :=
  "Unexpected token. Expected 'at', 'between', 'exactly', 'maybe', 'in', '<string>', '<identifier>', or a character class "

mutual
/-- `parse_expression` -/
def parseExpression (rx : Bytes → RegexOutcome) (ts : List Token) : Nat → Nat → Res Expr
  | 0, _ => .fuel
  | f + 1, i =>
    withTok ts i fun t =>
      if t.kind = .at then parseAt rx ts f i
      else if t.kind = .between then parseBetween rx ts f i
      else if t.kind = .exactly then parseExactly rx ts f i
      else if t.kind = .maybe then parseMaybe rx ts f i
      else if t.kind = .in_ then parseIn ts f i false
      else if t.kind = .opencurly then parseSubroutine rx ts f i
      else if t.kind = .not then parseNotExpression rx ts f i
      else if t.kind = .regexp then parseRegexp rx ts i
      else if isPrimaryStart t.kind then parsePrimaryOrDec rx ts f i
      else .error expExpr i

/-- `parse_at` -/
def parseAt (rx : Bytes → RegexOutcome) (ts : List Token) : Nat → Nat → Res Expr
  | 0, _ => .fuel
  | f + 1, i =>
    withSkipTok ts (i + 1) fun c t =>
      if t.kind = .least ∨ t.kind = .most then
        withSkipTok ts (c + 1) fun c2 t2 =>
          withNumber t2 c2 fun v =>
            withSkipTok ts (c2 + 1) fun c3 _ =>
              (parseExpression rx ts f c3).bind fun e nx =>
                (parseLoopSuffix ts nx).bind fun fn k =>
                  if t.kind = .least then .ok (.loop v.toNat (-1) fn.1 fn.2 e) k
                  else .ok (.loop 0 v fn.1 fn.2 e) k
      else .error "Unexpected token. Expected 'least' or 'most'." c

/-- `parse_between` -/
def parseBetween (rx : Bytes → RegexOutcome) (ts : List Token) : Nat → Nat → Res Expr
  | 0, _ => .fuel
  | f + 1, i =>
    withSkipTok ts (i + 1) fun c t =>
      withNumber t c fun lo =>
        withSkipTok ts (c + 1) fun c2 t2 =>
          if t2.kind = .and then
            withSkipTok ts (c2 + 1) fun c3 t3 =>
              withNumber t3 c3 fun hi =>
                withSkipTok ts (c3 + 1) fun c4 _ =>
                  (parseExpression rx ts f c4).bind fun e nx =>
                    (parseLoopSuffix ts nx).bind fun fn k => .ok (.loop lo.toNat hi fn.1 fn.2 e) k
          else .error "Unexpected token. Expected 'and'." c2

/-- `parse_exactly`: the `named` lookup uses the index of the body's first token (Go quirk), so it
never fires; its `return nil, idx, nil` is the outcome `.panic` here and is proved unreachable -/
def parseExactly (rx : Bytes → RegexOutcome) (ts : List Token) : Nat → Nat → Res Expr
  | 0, _ => .fuel
  | f + 1, i =>
    withSkipTok ts (i + 1) fun c t =>
      withNumber t c fun v =>
        withSkipTok ts (c + 1) fun c2 _ =>
          (parseExpression rx ts f c2).bind fun e nx =>
            withSkipTok ts c2 fun c3 t3 =>
              if t3.kind = .named then
                withSkipTok ts (c3 + 1) fun _ t4 =>
                  if t4.kind = .identifier ∨ t4.kind = .string then .ok (.loop v.toNat v false (nameOf t4.lexeme) e) nx
                  else .panic
              else .ok (.loop v.toNat v false "" e) nx

/-- `parse_maybe` -/
def parseMaybe (rx : Bytes → RegexOutcome) (ts : List Token) : Nat → Nat → Res Expr
  | 0, _ => .fuel
  | f + 1, i =>
    withSkipTok ts (i + 1) fun n _ =>
      (parseExpression rx ts f n).bind fun e nx =>
        withSkipTok ts nx fun c t =>
          if t.kind = .fewest then .ok (.loop 0 1 true "" e) (c + 1)
          else .ok (.loop 0 1 false "" e) c

/-- `parse_not_expression` -/
def parseNotExpression (rx : Bytes → RegexOutcome) (ts : List Token) : Nat → Nat → Res Expr
  | 0, _ => .fuel
  | f + 1, i =>
    withSkipTok ts (i + 1) fun n t =>
      if t.kind = .in_ then parseIn ts f n true
      else parsePrimaryOrDec rx ts f i

/-- `parse_literal` -/
def parseLiteral (rx : Bytes → RegexOutcome) (ts : List Token) : Nat → Nat → Res Expr
  | 0, _ => .fuel
  | f + 1, i =>
    withTok ts i fun t =>
      if t.kind = .string then .ok (.atom (.str false false t.lexeme)) (i + 1)
      else if t.kind = .caseless then (parseCaseless ts i).bind fun s k => .ok (.atom (.str false true s)) k
      else if t.kind = .identifier then .ok (.var (nameOf t.lexeme)) (i + 1)
      else if t.kind = .openparen then parseSubExpression rx ts f i
      else if t.kind = .not then parseNotLiteral ts i
      else if isClassStart t.kind then (parseCharacterClass ts i false).bind fun a k => .ok (.atom a) k
      else .error "Unexpected token. Expected '(', '<string>', '<identifier>', or a character class." i

/-- `parse_primary_or_dec` -/
def parsePrimaryOrDec (rx : Bytes → RegexOutcome) (ts : List Token) : Nat → Nat → Res Expr
  | 0, _ => .fuel
  | f + 1, i =>
    (parseLiteral rx ts f i).bind fun lit nx =>
      withSkipTok ts nx fun c t =>
        if t.kind = .equal then
          withSkipTok ts (c + 1) fun c2 t2 =>
            if t2.kind = .identifier then .ok (.dec (nameOf t2.lexeme) lit) (c2 + 1)
            else .error "Unexpected token. Expected identifier." c2
        else if t.kind = .or then
          withSkipTok ts (c + 1) fun c2 _ =>
            (parsePrimaryOrOr rx ts f c2).bind fun r k => .ok (.branch lit r) k
        else .ok lit nx

/-- `parse_primary_or_or` -/
def parsePrimaryOrOr (rx : Bytes → RegexOutcome) (ts : List Token) : Nat → Nat → Res Expr
  | 0, _ => .fuel
  | f + 1, i =>
    (parseLiteral rx ts f i).bind fun lit nx =>
      withSkipTok ts nx fun c t =>
        if t.kind = .or then
          withSkipTok ts (c + 1) fun c2 _ =>
            (parsePrimaryOrOr rx ts f c2).bind fun r k => .ok (.branch lit r) k
        else .ok lit nx

/-- the loop `for tok ∉ stop { skip; parse_expression; skip }` of `parse_find`, `parse_replace`,
`parse_set_pattern`, `parse_sub_expression`, `parse_subroutine`: returns the body and the
index of the stop token -/
def exprList (rx : Bytes → RegexOutcome) (ts : List Token) (stop : Tok → Bool) : Nat → Nat → Res Expr
  | 0, _ => .fuel
  | f + 1, cur =>
    withSkipTok ts cur fun w t =>
      if stop t.kind then .ok .empty w
      else
        (parseExpression rx ts f w).bind fun e nx =>
          (exprList rx ts stop f nx).bind fun es k => .ok (.seq e es) k

/-- `parse_sub_expression` -/
def parseSubExpression (rx : Bytes → RegexOutcome) (ts : List Token) : Nat → Nat → Res Expr
  | 0, _ => .fuel
  | f + 1, i =>
    (exprList rx ts stopParen f (i + 1)).bind fun body c =>
      withTok ts c fun t =>
        if t.kind = .closeparen then .ok body (c + 1)
        else .error "Unexpected token. Expected ')'" c

/-- `parse_subroutine` -/
def parseSubroutine (rx : Bytes → RegexOutcome) (ts : List Token) : Nat → Nat → Res Expr
  | 0, _ => .fuel
  | f + 1, i =>
    (exprList rx ts stopCurly f (i + 1)).bind fun body c =>
      withTok ts c fun t =>
        if t.kind = .closecurly then
          withSkipTok ts (c + 1) fun c2 t2 =>
            if t2.kind = .equal then
              withSkipTok ts (c2 + 1) fun c3 t3 =>
                if t3.kind = .identifier then .ok (.sub (nameOf t3.lexeme) body) (c3 + 1)
                else .error "Unexpected token. Expected identifier." c3
            else .error "Unexpected token. Expected '='" c2
        else .error "Unexpected token. Expected '}'" c
end

/-! ## process statements (mutual recursion, fuel) -/

/-- `parse_process_set` -/
def parseProcessSet (ts : List Token) (i : Nat) : Res Stmt :=
  withSkipTok ts (i + 1) fun c t =>
    if t.kind = .identifier then
      withSkipTok ts (c + 1) fun c2 t2 =>
        if t2.kind = .to then
          withSkipTok ts (c2 + 1) fun c3 _ =>
            (parseProcessExpression ts c3).bind fun e k => .ok (.set (nameOf t.lexeme) e) k
        else .error "Unexpected token. Expected 'to'" c2
    else .error "Unexpected token. Expected identifier" c

/-- `parse_process_return` -/
def parseProcessReturn (ts : List Token) (i : Nat) : Res Stmt :=
  withSkipTok ts (i + 1) fun c _ => (parseProcessExpression ts c).bind fun e k => .ok (.ret e) k

/-- `parse_process_debug` -/
def parseProcessDebug (ts : List Token) (i : Nat) : Res Stmt :=
  withSkipTok ts (i + 1) fun c _ => (parseProcessExpression ts c).bind fun e k => .ok (.debug e) k

def expEnd : String := "Unexpected token. Expected 'end'."

mutual
/-- `parse_process_statements`: returns the statements and the index of the token that ended
them (`end`, `else`, or the final EOF when the loop bound `i < len-1` stops it) -/
def parseStatements (ts : List Token) : Nat → Nat → Res Stmt
  | 0, _ => .fuel
  | f + 1, i =>
    if i + 1 < ts.length then
      withSkipTok ts i fun w _ =>
        (parseStatement ts f w).bind fun os nx =>
          match os with
          | none => .ok .skip nx
          | some s => (parseStatements ts f nx).bind fun rest k => .ok (.seq s rest) k
    else .ok .skip i

/-- `parse_process_statement`; `none` = the Go `nil` statement (at `end` / `else`) -/
def parseStatement (ts : List Token) : Nat → Nat → Res (Option Stmt)
  | 0, _ => .fuel
  | f + 1, i =>
    withTok ts i fun t =>
      if t.kind = .set then (parseProcessSet ts i).bind fun s k => .ok (some s) k
      else if t.kind = .if_ then (parseProcessIf ts f i).bind fun s k => .ok (some s) k
      else if t.kind = .return_ then (parseProcessReturn ts i).bind fun s k => .ok (some s) k
      else if t.kind = .debug then (parseProcessDebug ts i).bind fun s k => .ok (some s) k
      else if t.kind = .loop then (parseProcessLoop ts f i).bind fun s k => .ok (some s) k
      else if t.kind = .break_ then .ok (some .brk) (i + 1)
      else if t.kind = .continue_ then .ok (some .cont) (i + 1)
      else if t.kind = .end_ then .ok none i
      else if t.kind = .else_ then .ok none i
      else .error "Unexpected token. Expected 'set', 'if', 'return', 'debug', 'loop', 'else', or 'end'." i

/-- `parse_process_if` -/
def parseProcessIf (ts : List Token) : Nat → Nat → Res Stmt
  | 0, _ => .fuel
  | f + 1, i =>
    withSkipTok ts (i + 1) fun c _ =>
      (parseProcessExpression ts c).bind fun e nx =>
        withSkipTok ts nx fun c2 t2 =>
          if t2.kind = .then_ then
            withSkipTok ts (c2 + 1) fun c3 _ =>
              (parseStatements ts f c3).bind fun tb fi =>
                withTok ts fi fun t3 =>
                  if t3.kind = .else_ then
                    (parseStatements ts f (fi + 1)).bind fun fb fi2 =>
                      withSkipTok ts fi2 fun c4 t4 =>
                        if t4.kind = .end_ then .ok (.ite e tb fb) (c4 + 1) else .error expEnd c4
                  else
                    withSkipTok ts fi fun c4 t4 =>
                      if t4.kind = .end_ then .ok (.ite e tb .skip) (c4 + 1) else .error expEnd c4
          else .error "Unexpected token. Expected 'then'." c2

/-- `parse_process_loop` -/
def parseProcessLoop (ts : List Token) : Nat → Nat → Res Stmt
  | 0, _ => .fuel
  | f + 1, i =>
    withSkipTok ts (i + 1) fun c _ =>
      (parseStatements ts f c).bind fun b nx =>
        withSkipTok ts nx fun c2 t2 =>
          if t2.kind = .end_ then .ok (.loop b) (c2 + 1) else .error expEnd c2
end

/-! ## commands -/

/-- the `with` loop of `parse_replace` (a do-while: at least one item) -/
def atomList (ts : List Token) : Nat → Nat → Res (List RAtom)
  | 0, _ => .fuel
  | n + 1, cur =>
    withSkipTok ts cur fun w _ =>
      (parseAtom ts w).bind fun a nx =>
        withSkipTok ts nx fun c t =>
          if isCmdStart t.kind then .ok [a] c
          else (atomList ts n c).bind fun as k => .ok (a :: as) k

/-- `parse_find`; `F` is the fuel handed to the expression parser -/
def parseFind (rx : Bytes → RegexOutcome) (ts : List Token) (F : Nat) (i : Nat) : Res Cmd :=
  (parseAmount ts (i + 1)).bind fun amt n =>
    (exprList rx ts stopFind F n).bind fun body c => .ok (.find amt body) c

/-- `parse_replace` -/
def parseReplace (rx : Bytes → RegexOutcome) (ts : List Token) (F : Nat) (i : Nat) : Res Cmd :=
  (parseAmount ts (i + 1)).bind fun amt n =>
    (exprList rx ts stopReplaceBody F n).bind fun body c =>
      withTok ts c fun t =>
        if t.kind = .with_ then
          (atomList ts F (c + 1)).bind fun res k => .ok (.replace amt body res) k
        else .error "Unexpected token. Expected 'with'." c

/-- `parse_set_transform` -/
def parseSetTransform (ts : List Token) (F : Nat) (i : Nat) : Res Stmt :=
  withSkipTok ts (i + 1) fun c t =>
    (parseStatements ts F (if t.kind = .begin_ then c + 1 else c)).bind fun stmts nx =>
      withTok ts nx fun t2 =>
        if t2.kind = .end_ then .ok stmts (nx + 1) else .error expEnd nx

/-- `parse_set_pattern` -/
def parseSetPattern (rx : Bytes → RegexOutcome) (ts : List Token) (F : Nat) (i : Nat) : Res (Expr × Stmt) :=
  (exprList rx ts stopPattern F (i + 1)).bind fun body c =>
    withSkipTok ts c fun c1 t =>
      if t.kind = .begin_ then
        (parseStatements ts F (c1 + 1)).bind fun stmts nx =>
          withTok ts nx fun t2 =>
            if t2.kind = .end_ then .ok (body, stmts) (nx + 1) else .error expEnd nx
      else .ok (body, .skip) c1

mutual
/-- `parse_command`; `none` = Go's `nil` command at EOF -/
def parseCommand (rx : Bytes → RegexOutcome) (ts : List Token) (F : Nat) : Nat → Nat → Res (Option Cmd)
  | 0, _ => .fuel
  | f + 1, i =>
    withTok ts i fun t =>
      if t.kind = .find then (parseFind rx ts F i).bind fun c k => .ok (some c) k
      else if t.kind = .replace then (parseReplace rx ts F i).bind fun c k => .ok (some c) k
      else if t.kind = .set then (parseSet rx ts F f i).bind fun c k => .ok (some c) k
      else if t.kind = .eof then .ok none i
      else .error "Unexpected token. Expected 'find', 'replace', or 'set'." i

/-- `parse_set` -/
def parseSet (rx : Bytes → RegexOutcome) (ts : List Token) (F : Nat) : Nat → Nat → Res Cmd
  | 0, _ => .fuel
  | f + 1, i =>
    withSkipTok ts (i + 1) fun c t =>
      if t.kind = .identifier then
        withSkipTok ts (c + 1) fun c2 t2 =>
          if t2.kind = .to then
            withSkipTok ts (c2 + 1) fun c3 t3 =>
              if t3.kind = .pattern then
                (parseSetPattern rx ts F c3).bind fun bp k => .ok (.setPattern (nameOf t.lexeme) bp.1 bp.2) k
              else if t3.kind = .matches then
                (parseSetMatches rx ts F f c3).bind fun cmd k => .ok (.setMatches (nameOf t.lexeme) cmd) k
              else if t3.kind = .transform then
                (parseSetTransform ts F c3).bind fun s k => .ok (.setTransform (nameOf t.lexeme) s) k
              else .error "Unexpected token. Expected 'pattern', 'transform', or 'matches'" c3
          else .error "Unexpected token. Expected 'to'" c2
      else .error "Unexpected token. Expected identifier" c

/-- `parse_set_matches` (fixed: a missing command is a ParseError, not a nil body) -/
def parseSetMatches (rx : Bytes → RegexOutcome) (ts : List Token) (F : Nat) : Nat → Nat → Res Cmd
  | 0, _ => .fuel
  | f + 1, i =>
    withSkipTok ts (i + 1) fun c _ =>
      (parseCommand rx ts F f c).bind fun oc nx =>
        match oc with
        | none => .error "Unexpected token. Expected 'find', 'replace', or 'set'." nx
        | some cmd => .ok cmd nx
end

/-- the `for token_index < len(tokens)-1` loop of `parse` -/
def parseCmds (rx : Bytes → RegexOutcome) (ts : List Token) (F : Nat) : Nat → Nat → Res (List Cmd)
  | 0, _ => .fuel
  | n + 1, i =>
    if i + 1 < ts.length then
      withSkipTok ts i fun w _ =>
        (parseCommand rx ts F F w).bind fun oc nx =>
          (parseCmds rx ts F n nx).bind fun cs k => .ok (oc.toList ++ cs) k
    else .ok [] i

/-- the explicit linear fuel bound -/
def fuelOf (ts : List Token) : Nat := 8 * ts.length + 16

/-- `ast.parse(tokens)` -/
def parse (rx : Bytes → RegexOutcome) (ts : List Token) : Res (List Cmd) :=
  parseCmds rx ts (fuelOf ts) (fuelOf ts) 0

/-- front end after the lexer: tokens → commands -/
def compileFront (rx : Bytes → RegexOutcome) (ts : List Token) : Res (List Cmd) := parse rx ts

end Vore.Parser
