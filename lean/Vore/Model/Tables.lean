import Vore.Model.Check
/-!
# Vore.Model.Tables — the shape of the facts regenerated from the Go source, and their
interpreters

`/verif/harness/cmd/extract` reads /repo's current source with `go/ast` and writes
`Vore/Extracted.lean`, which contains only *data* of the types defined here:

* `TypingTable` — the `else if` chain of `checkBinaryExpr` and of `checkUnaryExpr`
  (decision lists in source order) and the return rules of `checkReturn`
  (libvore/bytecode/semanticcheck.go);
* `EvalTable` — the dispatch of `executeBinaryExpr` (per dynamic type of the left operand
  an `else if` chain over the operator, each cell = two coercion methods, a Go operator
  token and a result wrapper) and of `executeUnaryExpression` (libvore/engine/execute.go);
* `PrecTable` — `isPrefixOp`, `prefixPrecedence`, `isBinaryOp`, `infixPrecedence`,
  `isProcessExprEnd` (libvore/ast/parser.go).

The interpreters (`typeFromTable`, `unTypeFromTable`, `retFromTable`, `evalFromTable`,
`unFromTable`, `PrecTable.*`) are structurally recursive, so `decide` / `rfl` can run them.
The theorems that tie them to the hand-written model (`binType = typeFromTable goTyping`,
`evalBin = evalFromTable goEval`, …) live in `Vore/Lemmas/TablesTie.lean`; a one-token edit
of the Go tables changes `Extracted.lean` and breaks one of them.  Core Lean only.
-/
namespace Vore.Tables
open Vore

/-! ## typing tables -/

/-- one `else if` of `checkBinaryExpr`:
`lhsinfo.currentType == L && rhsinfo.currentType == R && (s.Op == o₁ || …)` ⇒ result type;
`none` = the conjunct is absent (any type). -/
structure BinRule where
  lhs : Option PT
  rhs : Option PT
  ops : List Op
  res : PT
deriving Repr, DecidableEq, Inhabited

/-- one `else if` of `checkUnaryExpr` -/
structure UnRule where
  arg : Option PT
  ops : List Op
  res : PT
deriving Repr, DecidableEq, Inhabited

/-- one arm of `checkReturn`: `context == ctx && currentType != t₁ && …` ⇒ error, i.e. in
context `ctx` the returned type must be one of `allowed`. -/
structure RetRule where
  ctx : Ctx
  allowed : List PT
deriving Repr, DecidableEq, Inhabited

structure TypingTable where
  bin : List BinRule
  un : List UnRule
  ret : List RetRule
deriving Repr, Inhabited

def optMatches (o : Option PT) (t : PT) : Bool :=
  match o with
  | none => true
  | some u => u == t

def binRules : List BinRule → PT → PT → Op → Option PT
  | [], _, _, _ => none
  | ru :: rest, l, r, op =>
    if optMatches ru.lhs l && optMatches ru.rhs r && ru.ops.contains op then some ru.res
    else binRules rest l r op

def unRules : List UnRule → PT → Op → Option PT
  | [], _, _ => none
  | ru :: rest, t, op =>
    if optMatches ru.arg t && ru.ops.contains op then some ru.res else unRules rest t op

/-- the `if … else if …` chain of `checkReturn`: the first arm whose condition holds makes
the return an error; if none holds the return is accepted -/
def retRules : List RetRule → Ctx → PT → Bool
  | [], _, _ => true
  | ru :: rest, ctx, t =>
    if ru.ctx == ctx && !(ru.allowed.contains t) then false else retRules rest ctx t

/-- `checkBinaryExpr` read off the regenerated table (`none` = "Operator not defined for type.") -/
def typeFromTable (tb : TypingTable) (l r : PT) (op : Op) : Option PT := binRules tb.bin l r op

/-- `checkUnaryExpr` read off the regenerated table -/
def unTypeFromTable (tb : TypingTable) (t : PT) (op : Op) : Option PT := unRules tb.un t op

/-- `checkReturn` read off the regenerated table -/
def retFromTable (tb : TypingTable) (ctx : Ctx) (t : PT) : Bool := retRules tb.ret ctx t

/-! ## evaluation tables -/

/-- how an operand is turned into a Go value before the Go operator is applied -/
inductive Coerce where
  | getString                 -- `x.getString()`
  | getNumber                 -- `x.getNumber()`
  | getBoolean                -- `x.getBoolean()`
  | boolNumber                -- `ProcessValueBoolean{x.getBoolean()}.getNumber()`
deriving Repr, DecidableEq, Inhabited

/-- Go binary operator tokens that occur in `executeBinaryExpr` -/
inductive GoTok where
  | add | sub | mul | quo | rem | eql | neq | lss | gtr | leq | geq | land | lor
deriving Repr, DecidableEq, Inhabited

/-- `ProcessValueString{…}` / `ProcessValueNumber{…}` / `ProcessValueBoolean{…}` -/
inductive Wrap where
  | string | number | boolean
deriving Repr, DecidableEq, Inhabited

/-- one `else if` of an inner chain of `executeBinaryExpr`, inside
`if lhs_state.currentValue.getType() == lhs`:
`[rhs_state.currentValue.getType() == rhsIs &&] s.Op == op` ⇒
`final := lc(lhs) tok rc(rhs); final_state.currentValue = wrap{final}` -/
structure EvalCell where
  lhs : PT
  rhsIs : Option PT
  op : Op
  lc : Coerce
  rc : Coerce
  tok : GoTok
  wrap : Wrap
deriving Repr, DecidableEq, Inhabited

/-- body of one arm of `executeUnaryExpression` -/
inductive UnShape where
  /-- `cur = wrap{!c(cur)}` -/
  | notOf (c : Coerce) (wrap : Wrap)
  /-- `if len(c(cur)) <= k { cur = ProcessValueString{""} } else { cur = ProcessValueString{c(cur)[lo:hi]} }`
  (`hi = none`: open slice `[lo:]`) -/
  | slice (c : Coerce) (k : Int) (lo : Nat) (hi : Option Nat)
deriving Repr, DecidableEq, Inhabited

structure UnCell where
  op : Op
  shape : UnShape
deriving Repr, DecidableEq, Inhabited

structure EvalTable where
  cells : List EvalCell
  /-- the `else { panic(msg) }` that closes the inner chain of each left-operand type -/
  elsePanic : List (PT × String)
  unary : List UnCell
deriving Repr, Inhabited

/-- a Go value of one of the three primitive types -/
inductive GoVal where
  | s (v : Bytes)
  | n (v : Int)
  | b (v : Bool)
deriving Repr, DecidableEq, Inhabited

def Coerce.apply : Coerce → PVal → GoVal
  | .getString, v => .s v.getString
  | .getNumber, v => .n v.getNumber
  | .getBoolean, v => .b v.getBoolean
  | .boolNumber, v => .n (PVal.bool v.getBoolean).getNumber

/-- outcome of applying a Go operator: a value, a run-time panic, or an expression the Go
compiler would reject (mismatched operand types) -/
inductive GoRes where
  | val (v : GoVal)
  | panic (tag : String)
  | illTyped
deriving Repr, DecidableEq, Inhabited

def divZeroTag : String := "integer divide by zero"

/-- Go's binary operators on strings, ints and bools (`+` concatenates strings; `/` and `%`
truncate towards zero and panic on a zero divisor; comparison of strings is bytewise) -/
def GoTok.apply : GoTok → GoVal → GoVal → GoRes
  | .add, .s a, .s b => .val (.s (a ++ b))
  | .add, .n a, .n b => .val (.n (a + b))
  | .sub, .n a, .n b => .val (.n (a - b))
  | .mul, .n a, .n b => .val (.n (a * b))
  | .quo, .n a, .n b => if b = 0 then .panic divZeroTag else .val (.n (Int.tdiv a b))
  | .rem, .n a, .n b => if b = 0 then .panic divZeroTag else .val (.n (Int.tmod a b))
  | .eql, .s a, .s b => .val (.b (a == b))
  | .eql, .n a, .n b => .val (.b (a == b))
  | .eql, .b a, .b b => .val (.b (a == b))
  | .neq, .s a, .s b => .val (.b (a != b))
  | .neq, .n a, .n b => .val (.b (a != b))
  | .neq, .b a, .b b => .val (.b (a != b))
  | .lss, .s a, .s b => .val (.b (bytesLt a b))
  | .lss, .n a, .n b => .val (.b (a < b))
  | .gtr, .s a, .s b => .val (.b (bytesLt b a))
  | .gtr, .n a, .n b => .val (.b (a > b))
  | .leq, .s a, .s b => .val (.b (bytesLe a b))
  | .leq, .n a, .n b => .val (.b (a ≤ b))
  | .geq, .s a, .s b => .val (.b (bytesLe b a))
  | .geq, .n a, .n b => .val (.b (a ≥ b))
  | .land, .b a, .b b => .val (.b (a && b))
  | .lor, .b a, .b b => .val (.b (a || b))
  | _, _, _ => .illTyped

def Wrap.apply : Wrap → GoVal → Option PVal
  | .string, .s v => some (.str v)
  | .number, .n v => some (.num v)
  | .boolean, .b v => some (.bool v)
  | _, _ => none

def illTypedTag : String := "GO TYPE ERROR (extracted cell does not type-check)"

def EvalCell.run (c : EvalCell) (l r : PVal) : EvalRes :=
  match c.tok.apply (c.lc.apply l) (c.rc.apply r) with
  | .val g =>
    match c.wrap.apply g with
    | some v => .val v
    | none => .panic illTypedTag
  | .panic t => .panic t
  | .illTyped => .panic illTypedTag

/-- the tag of the model for the `else { panic("SHOULDN'T GET HERE (…) :(") }` arms -/
def undefinedTag : PT → String
  | .string => "SHOULDN'T GET HERE (string)"
  | .boolean => "SHOULDN'T GET HERE (bool)"
  | .number => "SHOULDN'T GET HERE (number)"

def evalCells : List EvalCell → Op → PVal → PVal → EvalRes
  | [], _, l, _ => .panic (undefinedTag l.type)
  | c :: cs, op, l, r =>
    if c.lhs == l.type && optMatches c.rhsIs r.type && c.op == op then c.run l r
    else evalCells cs op l r

/-- `executeBinaryExpr` (once both operands are values) read off the regenerated table -/
def evalFromTable (tb : EvalTable) (op : Op) (l r : PVal) : EvalRes := evalCells tb.cells op l r

def sliceTag : String := "slice bounds out of range"

def UnShape.run : UnShape → PVal → EvalRes
  | .notOf c w, v =>
    match c.apply v with
    | .b x => (match w.apply (.b (!x)) with | some r => .val r | none => .panic illTypedTag)
    | _ => .panic illTypedTag
  | .slice c k lo hi, v =>
    match c.apply v with
    | .s x =>
      if (x.length : Int) ≤ k then .val (.str [])
      else
        let h := hi.getD x.length
        if lo ≤ h ∧ h ≤ x.length then .val (.str ((x.take h).drop lo)) else .panic sliceTag
    | _ => .panic illTypedTag

def unCells : List UnCell → Op → PVal → EvalRes
  | [], _, v => .val v
  | c :: cs, op, v => if c.op == op then c.shape.run v else unCells cs op v

/-- `executeUnaryExpression` read off the regenerated table (an operator with no arm leaves
the value unchanged, as the Go `if` chain has no `else`) -/
def unFromTable (tb : EvalTable) (op : Op) (v : PVal) : EvalRes := unCells tb.unary op v

/-- `executeExpression` with the binary and unary cases read off the regenerated table -/
def evalExprWith (tb : EvalTable) (ρ : PEnv) : PExpr → EvalRes
  | .str s => .val (.str s)
  | .num n => .val (.num n)
  | .bool b => .val (.bool b)
  | .var x => .val ((ρ.get x).getD (.str []))
  | .un op e =>
    match evalExprWith tb ρ e with
    | .val v => unFromTable tb op v
    | .panic t => .panic t
  | .bin op l r =>
    match evalExprWith tb ρ l with
    | .panic t => .panic t
    | .val lv =>
      match evalExprWith tb ρ r with
      | .panic t => .panic t
      | .val rv => evalFromTable tb op lv rv

/-- every left-operand type has an inner chain closed by a panic whose message starts with
the undefined-operation marker -/
def elsePanicsOK (tb : EvalTable) : Bool :=
  [PT.string, PT.boolean, PT.number].all fun t =>
    match tb.elsePanic.find? (·.1 == t) with
    | some (_, msg) => (undefinedTag t).toList.isPrefixOf msg.toList
    | none => false

/-! ## precedence tables -/

structure PrecTable where
  isPrefixOp : List Op
  /-- `if tokenType == a || … { return p }` arms in source order, and the final `return d` -/
  prefixPrec : List (List Op × Int)
  prefixDefault : Int
  isBinaryOp : List Op
  infixPrec : List (List Op × Int × Int)
  infixDefault : Int × Int
  /-- token type names of `isProcessExprEnd` -/
  exprEnd : List String
deriving Repr, Inhabited

def lookupPrec {α : Type} : List (List Op × α) → α → Op → α
  | [], d, _ => d
  | (os, p) :: rest, d, o => if os.contains o then p else lookupPrec rest d o

def PrecTable.prefixOp (t : PrecTable) (o : Op) : Bool := t.isPrefixOp.contains o
def PrecTable.binaryOp (t : PrecTable) (o : Op) : Bool := t.isBinaryOp.contains o
def PrecTable.prefixPrecedence (t : PrecTable) (o : Op) : Int := lookupPrec t.prefixPrec t.prefixDefault o
def PrecTable.infixPrecedence (t : PrecTable) (o : Op) : Int × Int := lookupPrec t.infixPrec t.infixDefault o

end Vore.Tables
