import Vore.Model.LexStep
import Vore.ExtractedLex
/-!
# Vore.Model.Lexer — the lexer (libvore/ast/lexer.go), after the `fix:` commits
`C16-hexescape`, `C08-unending-regexp`, `C08-lexer-final-states`, `C15-empty-line-comment`,
`C15-block-comment-close` (see /verif/fixes).

One Lean function per Go function: `Reader.read`/`unreadLast` (`read`, `unread_last`/`unread(1)`,
the position stack and bufio's single-rune push-back), `getEscapedRune`, `isHex`, `hexToAscii`,
`readEscape`, `step` (the `if … else if …` chain in the loop of `getNextToken`, same order),
`regexpBody` (the inner loop of the `@/…/` branch), `loop` (the `for` loop), `finalAct` (the final
`switch current_state`), `getNextToken`, `getTokens`.  No fuel anywhere: `loop` and `getTokens` are
defined by well-founded recursion on the unread input, and the termination proofs Lean demands
(every iteration of the loop reads a byte; every token other than EOF consumes a byte) are the
"never loops forever" half of C08 for the lexer.

**Domain.**  The Go lexer reads *runes* (`bufio.Reader.ReadRune`; invalid UTF-8 becomes U+FFFD),
counts offsets in runes and classifies them with `unicode.IsSpace/IsDigit/IsLetter`.  The model reads
*bytes*: on ASCII sources rune = byte and rune offset = byte offset; a source that is not ASCII is lexed
through its class image `Vore.Unicode.abstractSource` (one byte per rune: ASCII itself, `0x81/0x82/0x83` for a
non-ASCII letter / digit / space, `0x80` for anything else), see `Vore/Model/Unicode.lean` and
`lexSource` in `Vore/Model/LexSource.lean`.  Lines and columns of tokens are not modelled (no property
here observes them); offsets are.

Quirks that are modelled as they are (none is forbidden by C08/C15/C16):
* a NUL byte behaves like end of input, except that the EOF token then spans one byte;
* `read()` at end of input returns 0 *without* pushing a position, but the `unread_last()` that
  follows pops one: the last token of a source that ends inside a look-ahead state (identifier,
  number, `-`, `=`, …) has an end offset one too small (the repo's lexer tests expect exactly this);
* `\xHH` with HH ≥ 0x80 writes the *rune* U+00HH, i.e. two UTF-8 bytes.

Decisions that are finite tables come from `Vore.ExtractedLex` (regenerated from the Go source on
every check): keywords, operators, escapes, hex ranges, the final switch.
-/
namespace Vore.Lex
open Vore Vore.ExtractedLex

/-! ## characters: `isSpace`, `isDigit`, `isLetter` are in `Vore.Model.LexStep` -/

/-- `IsHex`, from the extracted ranges -/
def isHex (c : UInt8) : Bool := goHexRanges.any (fun p => p.1 ≤ c && c ≤ p.2)

/-- `getEscapedRune`: the extracted `if ch == … return …` chain, then `return ch` -/
def getEscapedRune (c : UInt8) : UInt8 := (goEscapes.lookup c).getD c

/-- value of one hexadecimal digit as `strconv.ParseInt(_, 16, 64)` reads it -/
def hexDigitVal (c : UInt8) : Option UInt8 :=
  if 48 ≤ c ∧ c ≤ 57 then some (c - 48)
  else if 97 ≤ c ∧ c ≤ 102 then some (c - 87)
  else if 65 ≤ c ∧ c ≤ 70 then some (c - 55)
  else none

/-- `HexToAscii`; `none` = `panic("COULDN'T CONVERT")` -/
def hexToAscii (a b : UInt8) : Option UInt8 :=
  match hexDigitVal a, hexDigitVal b with
  | some x, some y => some (x * 16 + y)
  | _, _ => none

/-- `bytes.Buffer.WriteRune` of a rune below U+0100 -/
def writeRune (v : UInt8) : Bytes :=
  if v < 128 then [v] else [(192 : UInt8) ||| (v >>> 6), (128 : UInt8) ||| (v &&& 63)]

/-! ## the reader: `bufio.Reader` + position stack -/

/-- `rest`: what `ReadRune` has not delivered yet; `pos`: the offset on top of the position stack
(every `read` that succeeds pushes `offset+1`, every `unread` pops, so `offset = size − 1`);
`last`: the rune `UnreadRune` would push back (`none` after a failed `ReadRune`, an `UnreadRune`
or a `Peek`: bufio can take back one rune only). -/
structure Reader where
  rest : Bytes
  pos : Nat
  last : Option UInt8
deriving Repr, DecidableEq, Inhabited

/-- `initLexer` -/
def initLexer (src : Bytes) : Reader := ⟨src, 0, none⟩

/-- `read()`: 0 at end of input (no position pushed) -/
def Reader.read (r : Reader) : UInt8 × Reader :=
  match r.rest with
  | [] => (0, { r with last := none })
  | c :: cs => (c, ⟨cs, r.pos + 1, some c⟩)

/-- `unread_last()` = `unread(1)`; `none` = `panic("You can't pop that much!!!")`.
The position is popped whether or not bufio could take the rune back. -/
def Reader.unreadLast (r : Reader) : Option Reader :=
  if r.pos = 0 then none else
  some ⟨match r.last with | some c => c :: r.rest | none => r.rest, r.pos - 1, none⟩

/-- `s.r.Peek(2)` -/
def Reader.peek2 (r : Reader) : Bytes × Reader := (r.rest.take 2, { r with last := none })

/-- `readEscape(ch)` (added by the C16 fix); `none` = the panic of `HexToAscii` -/
def readEscape (ch : UInt8) (r : Reader) : Option (UInt8 × Reader) :=
  if ch = 120 then
    let (digits, r0) := r.peek2
    match digits with
    | [a, b] =>
      if isHex a ∧ isHex b then
        let (n1, r1) := r0.read
        let (n2, r2) := r1.read
        (hexToAscii n1 n2).map (fun v => (v, r2))
      else some (getEscapedRune ch, r0)
    | _ => some (getEscapedRune ch, r0)
  else some (getEscapedRune ch, r)

/-- result of the loop: final state, buffer, reader — or a Go panic -/
inductive LoopRes where
  | done (s : St) (buf : Bytes) (r : Reader)
  | panic (msg : String)
deriving Repr, DecidableEq, Inhabited

def popPanic : String := "You can't pop that much!!!"
def convPanic : String := "COULDN'T CONVERT"
def finalPanic : String := "Unknown final state"

/-- `s.unread_last(); break` -/
def unreadBreak (s : St) (buf : Bytes) (r : Reader) : LoopRes :=
  match r.unreadLast with
  | none => .panic popPanic
  | some r' => .done s buf r'

/-- the inner loop of the `@/…/` branch, starting with the `read()` that delivers `curr_ch`:
stops at `/` (REGEXP) or at 0 (end of input or a NUL byte: unending, after the C08 fix) -/
def regexpBody (buf : Bytes) (pos : Nat) : Bytes → LoopRes
  | [] => .done .regexpUnending buf ⟨[], pos, none⟩
  | c :: cs =>
    if c = 47 then .done .regexp buf ⟨cs, pos + 1, some c⟩
    else if c = 0 then .done .regexpUnending buf ⟨cs, pos + 1, some c⟩
    else regexpBody (buf ++ [c]) (pos + 1) cs

/-- the `@` branch: `next_ch := s.read()`; not `/` → un-read it, SERROR; else the body loop -/
def regexpBranch (buf : Bytes) (r : Reader) : LoopRes :=
  let (next, r1) := r.read
  if next ≠ 47 then unreadBreak .error buf r1
  else regexpBody buf r1.pos r1.rest

theorem read_rest_lt (r : Reader) (h : r.read.1 ≠ 0) : r.read.2.rest.length < r.rest.length := by
  unfold Reader.read at *
  cases hr : r.rest with
  | nil => simp [hr] at h
  | cons c cs => simp

theorem readEscape_rest_le (ch : UInt8) (r : Reader) (v : UInt8) (r' : Reader)
    (h : readEscape ch r = some (v, r')) : r'.rest.length ≤ r.rest.length := by
  obtain ⟨rest, pos, last⟩ := r
  unfold readEscape at h
  split at h
  · match rest with
    | [] => simp [Reader.peek2] at h; simp [← h.2]
    | [x] => simp [Reader.peek2] at h; simp [← h.2]
    | x :: y :: zs =>
      simp only [Reader.peek2, List.take_succ_cons, List.take_zero, Reader.read] at h
      split at h
      · simp only [Option.map_eq_some_iff, Prod.mk.injEq] at h
        obtain ⟨_, _, _, h2⟩ := h
        simp only [← h2, List.length_cons]; omega
      · simp at h; simp [← h.2]
  · simp at h; simp [← h.2]

/-- the `for` loop of `getNextToken`, entered in state `s` with buffer `buf` -/
def loop (s : St) (buf : Bytes) (r : Reader) : LoopRes :=
  if _h0 : r.read.1 = 0 then
    if s = .start then .done .end_ buf r.read.2
    else unreadBreak s buf r.read.2
  else
    match step s r.read.1 with
    | .next s' w => loop s' (if w then buf ++ [r.read.1] else buf) r.read.2
    | .brk s' w => .done s' (if w then buf ++ [r.read.1] else buf) r.read.2
    | .unreadBrk s' => unreadBreak s' buf r.read.2
    | .escape s' =>
      match he : readEscape r.read.1 r.read.2 with
      | none => .panic convPanic
      | some (v, r') => loop s' (buf ++ writeRune v) r'
    | .regexp => regexpBranch buf r.read.2
termination_by r.rest.length
decreasing_by
  · exact read_rest_lt r _h0
  · exact Nat.lt_of_le_of_lt (readEscape_rest_le _ _ _ _ he) (read_rest_lt r _h0)

/-! ## the final switch -/

/-- the keyword `switch`: on `strings.ToLower(lexeme)` (if the extracted code still lower-cases) -/
def kwKey (lexeme : Bytes) : Bytes := if goKeywordsLower then lexeme.map asciiLower else lexeme

def kwLookup (lexeme : Bytes) : Tok := (goKeywords.lookup (kwKey lexeme)).getD .identifier

inductive Final where
  | tok (k : Tok)
  | err (e : ErrKind)
  | panic
deriving Repr, DecidableEq, Inhabited

/-- the final `switch current_state` (from the extracted table; a state without a `case` reaches
`default: panic("Unknown final state")`) -/
def finalAct (s : St) (buf : Bytes) : Final :=
  match goFinal.lookup s with
  | none => .panic
  | some (.tok k) => .tok k
  | some (.err e) => .err e
  | some .keywords => .tok (kwLookup buf)
  | some .operators =>
    match goOperators.lookup buf with
    | some k => .tok k
    | none => .err .unknownToken

/-! ## tokens -/

inductive TokRes where
  | tok (t : Token) (r : Reader)
  | err (e : ErrKind) (startOff endOff : Nat)
  | panic (msg : String)
deriving Repr, DecidableEq, Inhabited

/-- `getNextToken` -/
def getNextToken (r : Reader) : TokRes :=
  match loop .start [] r with
  | .panic m => .panic m
  | .done s buf r' =>
    match finalAct s buf with
    | .panic => .panic finalPanic
    | .tok k => .tok ⟨k, buf, r.pos, r'.pos⟩ r'
    | .err e => .err e r.pos r'.pos

/-- what `getTokens` returns (or a Go panic) -/
inductive LexOutcome where
  | tokens (ts : List Token)
  | lexError (e : ErrKind) (startOff endOff : Nat)
  | panic (msg : String)
deriving Repr, DecidableEq, Inhabited

def LexOutcome.cons (t : Token) : LexOutcome → LexOutcome
  | .tokens ts => .tokens (t :: ts)
  | o => o


/-! ## progress: every token other than EOF consumes input (termination of `getTokens`) -/

theorem unread_read_rest (r r' : Reader) (h : r.read.2.unreadLast = some r') : r'.rest = r.rest := by
  obtain ⟨rest, pos, last⟩ := r
  cases rest with
  | nil =>
    simp only [Reader.read, Reader.unreadLast] at h
    by_cases hp : pos = 0
    · simp [hp] at h
    · simp [hp] at h; simp [← h]
  | cons c cs =>
    simp only [Reader.read, Reader.unreadLast] at h
    simp at h; simp [← h]

theorem unreadBreak_rest (s : St) (buf : Bytes) (r : Reader) (s' : St) (buf' : Bytes) (r' : Reader)
    (h : unreadBreak s buf r.read.2 = .done s' buf' r') : r'.rest = r.rest := by
  unfold unreadBreak at h
  split at h
  · simp at h
  · rename_i r2 hr
    simp at h
    rw [← h.2.2]; exact unread_read_rest r r2 hr

theorem regexpBody_rest_le (buf : Bytes) (pos : Nat) (rest : Bytes) (s' : St) (buf' : Bytes) (r' : Reader)
    (h : regexpBody buf pos rest = .done s' buf' r') : r'.rest.length ≤ rest.length := by
  induction rest generalizing buf pos with
  | nil => simp [regexpBody] at h; simp [← h.2.2]
  | cons c cs ih =>
    simp only [regexpBody] at h
    split at h
    · simp at h; simp [← h.2.2]
    · split at h
      · simp at h; simp [← h.2.2]
      · have := ih _ _ h; simp; omega

theorem read_rest_le (r : Reader) : r.read.2.rest.length ≤ r.rest.length := by
  obtain ⟨rest, pos, last⟩ := r
  cases rest <;> simp [Reader.read]

theorem regexpBranch_rest_le (buf : Bytes) (r : Reader) (s' : St) (buf' : Bytes) (r' : Reader)
    (h : regexpBranch buf r.read.2 = .done s' buf' r') : r'.rest.length ≤ r.read.2.rest.length := by
  unfold regexpBranch at h
  simp only at h
  split at h
  · rw [unreadBreak_rest _ _ _ _ _ _ h]; exact Nat.le_refl _
  · have := regexpBody_rest_le _ _ _ _ _ _ h
    exact Nat.le_trans this (read_rest_le _)

theorem loop_rest_le (s : St) (buf : Bytes) (r : Reader) (s' : St) (buf' : Bytes) (r' : Reader)
    (h : loop s buf r = .done s' buf' r') : r'.rest.length ≤ r.rest.length := by
  fun_induction loop s buf r generalizing s' buf' r' with
  | case1 buf r h0 =>
    simp at h; rw [← h.2.2]; exact read_rest_le r
  | case2 s buf r h0 hs =>
    rw [unreadBreak_rest _ _ _ _ _ _ h]; exact Nat.le_refl _
  | case3 s buf r h0 a w hstep ih =>
    exact Nat.le_trans (ih _ _ _ h) (read_rest_le r)
  | case4 s buf r h0 a w hstep =>
    simp at h; rw [← h.2.2]; exact read_rest_le r
  | case5 s buf r h0 a hstep =>
    rw [unreadBreak_rest _ _ _ _ _ _ h]; exact Nat.le_refl _
  | case6 => simp at h
  | case7 s buf r h0 a hstep v r2 he ih =>
    exact Nat.le_trans (ih _ _ _ h) (Nat.le_trans (readEscape_rest_le _ _ _ _ he) (read_rest_le r))
  | case8 s buf r h0 hstep =>
    exact Nat.le_trans (regexpBranch_rest_le _ _ _ _ _ h) (read_rest_le r)


/-- a loop entered in SSTART that does not end in SEND has consumed at least one byte -/
theorem loop_start_lt (buf : Bytes) (r : Reader) (s' : St) (buf' : Bytes) (r' : Reader)
    (h : loop .start buf r = .done s' buf' r') (hs : s' ≠ .end_) : r'.rest.length < r.rest.length := by
  unfold loop at h
  split at h
  · simp at h; exact absurd h.1.symm hs
  · rename_i h0
    split at h
    · exact Nat.lt_of_le_of_lt (loop_rest_le _ _ _ _ _ _ h) (read_rest_lt r h0)
    · simp at h; rw [← h.2.2]; exact read_rest_lt r h0
    · rename_i a hstep; exact absurd hstep (step_start_not_unread _ _)
    · split at h
      · simp at h
      · rename_i he
        exact Nat.lt_of_le_of_lt (Nat.le_trans (loop_rest_le _ _ _ _ _ _ h) (readEscape_rest_le _ _ _ _ he))
          (read_rest_lt r h0)
    · exact Nat.lt_of_le_of_lt (regexpBranch_rest_le _ _ _ _ _ h) (read_rest_lt r h0)

/-- (over the regenerated table) the final switch maps SEND to the EOF token — what makes
`getTokens` stop -/
theorem goFinal_end : goFinal.lookup .end_ = some (.tok .eof) := by decide

theorem getNextToken_progress (r : Reader) (t : Token) (r' : Reader)
    (h : getNextToken r = .tok t r') (hk : t.kind ≠ .eof) : r'.rest.length < r.rest.length := by
  unfold getNextToken at h
  split at h
  · simp at h
  · rename_i s buf r2 hl
    split at h
    · simp at h
    · rename_i k hf
      simp at h
      obtain ⟨ht, hr⟩ := h
      rw [← hr]
      apply loop_start_lt _ _ _ _ _ hl
      intro hs
      rw [hs] at hf
      have : k = .eof := by
        have h2 : finalAct .end_ buf = .tok .eof := by
          unfold finalAct; rw [goFinal_end]
        rw [h2] at hf; simp at hf; exact hf.symm
      rw [← ht] at hk; exact hk this
    · simp at h

/-- `getTokens`: tokens up to and including the first EOF token, or the first error.
Terminates because every token other than EOF consumes input (`getNextToken_progress`). -/
def getTokens (r : Reader) : LexOutcome :=
  match h : getNextToken r with
  | .panic m => .panic m
  | .err e a b => .lexError e a b
  | .tok t r' =>
    if hk : t.kind = .eof then .tokens [t]
    else (getTokens r').cons t
termination_by r.rest.length
decreasing_by exact getNextToken_progress r t r' h hk

/-- the lexer on a source: `initLexer(strings.NewReader(src)).getTokens()` -/
def lex (src : Bytes) : LexOutcome := getTokens (initLexer src)

end Vore.Lex
