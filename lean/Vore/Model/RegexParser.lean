import Vore.Model.Basic
/-!
# Vore.Model.RegexParser — the regex-literal sub-parser of libvore/ast/parser_regexp.go

One Lean function per Go `parse_regexp_*` function, over the bytes of the REGEXP token's lexeme
(the text between `@/` and the next `/`, as the lexer delivers it).

* **Index ↔ suffix.**  The Go code walks an index `i` forward through the string `regexp` and only
  ever (a) reads `regexp[i]`, `regexp[i+1]`, `regexp[i+2]`, (b) compares `i` with `len(regexp)` and
  (c) hands `i+k` on.  The model carries the unread suffix `rest = regexp[i:]` instead of `i`:
  `regexp[i]` is the partial access `rest.head?`, `regexp[i+1]` the head of the tail,
  `i >= len(regexp)` is `rest = []`.  **Every such access is explicit**, and an access past the end
  is the outcome `.panic "index"` (Go: `index out of range`), never a default value.  The explicit
  `panic("…unimplemented")` calls of the Go code are `.panic` too.
* **Two layers.**  `parseRaw` is the Go code below `parse_regexp`'s `recover`; `parse` is
  `parse_regexp` itself: the deferred `recover` (fix a691275, `/verif/fixes/C08-regexp-recover`)
  turns every panic of the sub-parser into a ParseError at the literal boundary, so the outcomes of
  a regex literal are `ok tree` or `error`.  (`Vore/Props/C14.lean`, `C14_total`: `parse` answers
  `ok`/`error` on every byte string — it never needs more fuel than it is given.)
* **Recursion.**  `disj → pattern → literal → groups → disj` is mutual recursion on a fuel argument
  that every call decrements; `parseRaw` supplies `4·|pattern| + 8`, and `.fuel` never being
  returned (`parseRaw_ne_fuel`) is the termination of the Go code.  The loops over digits and
  identifier characters are structural recursion on the suffix, the loop over bracket-class items
  is well-founded recursion on its length.
* **Trees** are the normalised trees of `Vore.Model.Basic` (same normalisation as
  `Vore.Driver.SExp`): an expression list is right-nested `seq … empty`, `AstPrimary` is transparent,
  `AstSubExpr` is its body.
* **Group counter.**  Go numbers unnamed groups with the package variable `capture_group_number`
  (reset by `parse()` once per program, under `parseMutex`).  Here it is a counter threaded through
  the functions; `parse` starts it at 0 (first literal of a program), `parseFrom n` at `n`.
  The model is of the code WITH `/verif/fixes/C14-group-numbering.diff`: a group takes its number
  when its `(` is read (numbering by opening parenthesis, like every conventional engine); the
  unpatched code numbered a group when its `)` was read, so `((a)b)` had the inner group as `_1`.
* Bytes `≥ 0x80`: Go indexes the string bytewise and converts one *byte* to a string with
  `string(c)`, i.e. to the UTF-8 encoding of the code point `c` (two bytes); `runeBytes` does the same.
  `unicode.IsLetter/IsDigit(rune(c))` see the byte as a Latin-1 code point (`isIdentB`).
-/
namespace Vore.RegexParser
open Vore

/-- outcome of a sub-parser function -/
inductive PR (α : Type) where
  | ok (v : α)
  | error (msg : String)
  | panic (what : String)
  | fuel
deriving Repr, Inhabited

@[inline] def PR.bind {α β : Type} (r : PR α) (k : α → PR β) : PR β :=
  match r with
  | .ok v => k v
  | .error m => .error m
  | .panic w => .panic w
  | .fuel => .fuel

/-- `string(c)` for a byte `c`: the UTF-8 encoding of the code point `c` -/
def runeBytes (c : UInt8) : Bytes :=
  if c < 128 then [c] else [(0xC0 : UInt8) ||| (c >>> 6), (0x80 : UInt8) ||| (c &&& 0x3F)]

/-- a Go string built from `string(byte)` pieces, as a name: the Latin-1 decoding of the bytes -/
def latin1 (b : Bytes) : String := String.ofList (b.map (fun x => Char.ofNat x.toNat))

def isDigitB (c : UInt8) : Bool := 48 ≤ c && c ≤ 57

/-- `unicode.IsDigit(rune(c)) || unicode.IsLetter(rune(c))` for a byte read as a Latin-1 code point -/
def isIdentB (c : UInt8) : Bool :=
  isDigitB c || (65 ≤ c && c ≤ 90) || (97 ≤ c && c ≤ 122) || c == 0xAA || c == 0xB5 || c == 0xBA ||
  (0xC0 ≤ c && c ≤ 0xD6) || (0xD8 ≤ c && c ≤ 0xF6) || 0xF8 ≤ c

/-- `fmt.Sprintf("_%c", c)` / `fmt.Sprintf("_%c%c", c, d)` for ASCII digits: `_` and the digits -/
def refName (ds : Bytes) : String := String.ofList ('_' :: ds.map (fun x => Char.ofNat x.toNat))

def decimalAux : Nat → Nat → Bytes
  | 0, _ => []
  | f + 1, n => if n < 10 then [UInt8.ofNat (48 + n % 10)] else decimalAux f (n / 10) ++ [UInt8.ofNat (48 + n % 10)]

/-- the decimal digits of `n` (`%d`) -/
def decimal (n : Nat) : Bytes := decimalAux (n + 1) n

/-- `fmt.Sprintf("_%d", n)`: `_` and the decimal digits of `n` -/
def groupName (n : Nat) : String := refName (decimal n)

/-- the longest prefix of digits, and what follows it -/
def spanDigits : Bytes → Bytes × Bytes
  | [] => ([], [])
  | c :: t => if isDigitB c then ((c :: (spanDigits t).1), (spanDigits t).2) else ([], c :: t)

/-- the longest prefix of identifier characters, and what follows it -/
def spanIdent : Bytes → Bytes × Bytes
  | [] => ([], [])
  | c :: t => if isIdentB c then ((c :: (spanIdent t).1), (spanIdent t).2) else ([], c :: t)

def digitsVal (ds : Bytes) : Nat := ds.foldl (fun a c => a * 10 + (c.toNat - 48)) 0

/-- largest Go `int` -/
def maxInt : Nat := 9223372036854775807

/-- `parse_regexp_number`: `c := regexp[index]`; collect digits re-reading `regexp[idx]` after each
(so a number that ends the pattern indexes past the end); no digit is a ParseError; `strconv.Atoi`
fails on overflow. -/
def number (rest : Bytes) : PR (Nat × Bytes) :=
  match rest with
  | [] => .panic "index"
  | _ :: _ =>
    if (spanDigits rest).1 = [] then .error "Unexpected Token. Expected number"
    else if (spanDigits rest).2 = [] then .panic "index"
    else if digitsVal (spanDigits rest).1 > maxInt then .error "Error converting string to number"
    else .ok (digitsVal (spanDigits rest).1, (spanDigits rest).2)

/-- the `exp.Fewest = end_idx < len(regexp) && regexp[end_idx] == '?'` tail of `parse_regexp_quantifier` -/
def lazyTail (mn : Nat) (mx : Int) (r : Bytes) : PR (Option (Nat × Int × Bool) × Bytes) :=
  match r with
  | [] => .ok (some (mn, mx, false), [])
  | c :: t => if c = 63 then .ok (some (mn, mx, true), t) else .ok (some (mn, mx, false), c :: t)

/-- `parse_regexp_quantifier` (with fix 0780d6b: `{n` followed by neither `,` nor `}` is a ParseError).
`none` = no quantifier here. -/
def quantifier (rest : Bytes) : PR (Option (Nat × Int × Bool) × Bytes) :=
  match rest with
  | [] => .ok (none, [])
  | op :: t =>
    if op = 42 then lazyTail 0 (-1) t                       -- `*`
    else if op = 43 then lazyTail 1 (-1) t                  -- `+`
    else if op = 63 then lazyTail 0 1 t                     -- `?`
    else if op = 123 then                                   -- `{`
      (number t).bind fun (frm, r) =>
        match r with
        | [] => .panic "index"                              -- `regexp[idx]`
        | cb :: r1 =>
          if cb = 44 then                                   -- `,`
            match r1 with
            | [] => .panic "index"                          -- `regexp[idx+1]`
            | x :: r2 =>
              if x = 125 then lazyTail frm (-1) r2          -- `{m,}`
              else
                (number r1).bind fun (to, r3) =>
                  match r3 with
                  | [] => .panic "index"
                  | br :: r4 =>
                    if br = 125 then lazyTail frm (to : Int) r4
                    else .error "Unexpected character. Expected '}'"
          else if cb = 125 then lazyTail frm (frm : Int) r1   -- `{m}`
          else .error "Unexpected character. Expected ',' or '}'"
    else .ok (none, op :: t)

/-- `\b`: `AstSubExpr{[AstBranch{word start, word end}]}` -/
def wordBoundary : Expr := .seq (.branch (.atom (.cls false .wordStart)) (.atom (.cls false .wordEnd))) .empty
/-- `\B`: `AstSubExpr{[AstList{not in: word start, word end}]}` -/
def notWordBoundary : Expr := .seq (.inl true [.cls false .wordStart, .cls false .wordEnd]) .empty

/-- the identifier of `\k<name>` / `(?<name>`: `rest` starts at the first identifier character.
`current := regexp[i]` before the loop and after every character: running off the end is an index
panic; what stops the loop must be `>`. -/
def identThenGt (rest : Bytes) (errmsg : String) : PR (Bytes × Bytes) :=
  match (spanIdent rest).2 with
  | [] => .panic "index"
  | c :: t => if c = 62 then .ok ((spanIdent rest).1, t) else .error errmsg

/-- `parse_regexp_escape_characters`: `rest` is what follows the backslash -/
def escape (rest : Bytes) : PR (Expr × Bytes) :=
  match rest with
  | [] => .panic "index"
  | c :: t =>
    if 49 ≤ c ∧ c ≤ 57 then
      match t with
      | [] => .ok (.var (refName [c]), [])
      | d :: t' => if isDigitB d then .ok (.var (refName [c, d]), t') else .ok (.var (refName [c]), d :: t')
    else if c = 100 then .ok (.atom (.cls false .digit), t)          -- `\d`
    else if c = 68 then .ok (.atom (.cls true .digit), t)            -- `\D`
    else if c = 115 then .ok (.atom (.cls false .whitespace), t)     -- `\s`
    else if c = 83 then .ok (.atom (.cls true .whitespace), t)       -- `\S`
    else if c = 119 then .ok (.atom (.cls false .letter), t)         -- `\w` (FIXME in the Go code: letters only)
    else if c = 87 then .ok (.atom (.cls true .letter), t)           -- `\W`
    else if c = 98 then .ok (wordBoundary, t)                        -- `\b`
    else if c = 66 then .ok (notWordBoundary, t)                     -- `\B`
    else if c = 107 then                                             -- `\k<name>`
      match t with
      | [] => .panic "index"
      | d :: t' =>
        if d = 60 then
          (identThenGt t' "Unexpected charactrer in named capture group identifier.").bind fun (id, r) =>
            .ok (.var (latin1 id), r)
        else .error "Expected a < character for named group reference"
    else .ok (.atom (.str false false (runeBytes c)), t)

/-- the item loop of `parse_regexp_character_class` together with `parse_regexp_class_ranges`,
`parse_regexp_class_atom_escape` and `parse_regexp_class_atom_string`: items up to the closing `]`. -/
def classItems : Bytes → PR (List Atom × Bytes)
  | [] => .error "Unexpected end of regexp"                      -- `next_index >= len(regexp)` after the loop
  | c :: t =>
    if c = 93 then .ok ([], t)                                     -- `]`
    else if c = 92 then                                            -- `\`: parse_regexp_class_atom_escape
      (match t with
       | [] => .error "Unexpected end of regexp"
       | _ :: _ => .panic "PARSE ESCAPE CHARACTER")
    else
      match t with
      | [] => .error "Unexpected end of regexp"                    -- the item is returned, then the loop ends
      | d :: t' =>
        if d = 45 then                                             -- `-`
          match t' with
          | [] => .panic "index"                                   -- `regexp[next_index+1]`
          | e :: t'' =>
            if e = 93 then                                         -- `c-]`: `c`, then `-` is the next item
              (classItems (d :: e :: t'')).bind fun (items, r) => .ok (.str false false (runeBytes c) :: items, r)
            else
              (classItems t'').bind fun (items, r) => .ok (.range (runeBytes c) (runeBytes e) :: items, r)
        else
          (classItems (d :: t')).bind fun (items, r) => .ok (.str false false (runeBytes c) :: items, r)
termination_by rest => rest.length

/-- `parse_regexp_character_class`: `rest` is what follows `[` -/
def charClass (rest : Bytes) : PR (Expr × Bytes) :=
  match rest with
  | [] => .error "Unexpected end of regexp"
  | c :: t =>
    let neg := c == 94
    let body := if c = 94 then t else c :: t
    match body with
    | [] => .error "Unexpected end of regexp"
    | _ :: _ =>
      (classItems body).bind fun (items, r) =>
        .ok (.inl neg (if items = [] then [.cls true .any] else items), r)

/-- `exp.Body = …; return exp` / `return start` -/
def wrapQuant (q : Option (Nat × Int × Bool)) (start : Expr) : Expr :=
  match q with
  | none => start
  | some (mn, mx, fewest) => .loop mn mx fewest "" start

/-- the common tail of the quantifiable branches of `parse_regexp_literal` -/
def finishAtom (start : Expr) (r : Bytes) (n : Nat) : PR (Expr × Bytes × Nat) :=
  (quantifier r).bind fun (q, r') => .ok (wrapQuant q start, r', n)

/-- the end of a group: `regexp[next_index] != ')'` -/
def closeParen (r : Bytes) : PR Bytes :=
  match r with
  | [] => .panic "index"
  | x :: r' => if x = 41 then .ok r' else .error "Expected end parenthesis"

mutual
/-- `parse_regexp_disjunction`: patterns until the end of the pattern or a `)` -/
def disj : Nat → Bytes → Nat → PR (Expr × Bytes × Nat)
  | 0, _, _ => .fuel
  | f + 1, rest, n =>
    match rest with
    | [] => .ok (.empty, [], n)
    | c :: t =>
      if c = 41 then .ok (.empty, c :: t, n)
      else
        (pattern f (c :: t) n).bind fun (e, r, n1) =>
          (disj f r n1).bind fun (es, r', n2) => .ok (.seq e es, r', n2)

/-- `parse_regexp_pattern`: a literal, then `| pattern` if a bar follows -/
def pattern : Nat → Bytes → Nat → PR (Expr × Bytes × Nat)
  | 0, _, _ => .fuel
  | f + 1, rest, n =>
    (literal f rest n).bind fun (start, r, n1) =>
      match r with
      | [] => .ok (start, [], n1)
      | c :: t =>
        if c = 124 then
          (pattern f t n1).bind fun (e, r', n2) => .ok (.branch (.seq start .empty) e, r', n2)
        else .ok (start, c :: t, n1)

/-- `parse_regexp_literal` -/
def literal : Nat → Bytes → Nat → PR (Expr × Bytes × Nat)
  | 0, _, _ => .fuel
  | f + 1, rest, n =>
    match rest with
    | [] => .panic "index"
    | c :: t =>
      if c = 94 then .ok (.atom (.cls false .lineStart), t, n)          -- `^`
      else if c = 36 then .ok (.atom (.cls false .lineEnd), t, n)       -- `$`
      else if c = 92 then                                                -- `\`
        (escape t).bind fun (start, r) => finishAtom start r n
      else if c = 40 then                                                -- `(`
        (groups f t n).bind fun (start, r, n1) => finishAtom start r n1
      else if c = 91 then                                                -- `[`
        (charClass t).bind fun (start, r) => finishAtom start r n
      else if c = 46 then finishAtom (.atom (.str true false [10])) t n  -- `.` = not "\n"
      else finishAtom (.atom (.str false false (runeBytes c))) t n

/-- `parse_regexp_groups`: `rest` is what follows `(` -/
def groups : Nat → Bytes → Nat → PR (Expr × Bytes × Nat)
  | 0, _, _ => .fuel
  | f + 1, rest, n =>
    match rest with
    | [] => .panic "index"
    | c :: t =>
      if c = 63 then                                                     -- `(?`
        match t with
        | [] => .panic "index"
        | marker :: t2 =>
          if marker = 58 then                                            -- `(?:`
            (disj f t2 n).bind fun (sub, r, n1) =>
              (closeParen r).bind fun r' => .ok (sub, r', n1)
          else if marker = 61 then .panic "Positive lookahead unimplemented"
          else if marker = 33 then .panic "Negative lookahead unimplemented"
          else if marker = 60 then                                       -- `(?<`
            match t2 with
            | [] => .panic "index"
            | a :: _ =>
              if a = 61 then .panic "Positive lookbehind unimplemented"
              else if a = 33 then .panic "Negative lookahead unimplemented"
              else
                (identThenGt t2 "Unexpected character in named capture group identifier.").bind fun (id, r0) =>
                  (disj f r0 n).bind fun (body, r, n1) =>
                    (closeParen r).bind fun r' => .ok (.seq (.dec (latin1 id) body) .empty, r', n1)
          else .error "Invalid marker for group"
      else
        (disj f (c :: t) (n + 1)).bind fun (sub, r, n1) =>
          (closeParen r).bind fun r' => .ok (.seq (.dec (groupName (n + 1)) sub) .empty, r', n1)
end

def fuelFor (p : Bytes) : Nat := 4 * p.length + 8

/-- the sub-parser below `parse_regexp`'s `recover`, group counter starting at `n0`.
The index returned by `parse_regexp_disjunction` is dropped (`results, _, err := …`), so an
unbalanced `)` silently ends the pattern. -/
def parseRaw (n0 : Nat) (p : Bytes) : PR (Expr × Bytes × Nat) := disj (fuelFor p) p n0

/-- `parse_regexp` with its deferred `recover`: a panic of the sub-parser is a ParseError.
Result: the normalised tree and the group counter after the literal. -/
def parseFrom (n0 : Nat) (p : Bytes) : PR (Expr × Nat) :=
  match parseRaw n0 p with
  | .ok (e, _, n) => .ok (e, n)
  | .error m => .error m
  | .panic w => .error ("Malformed regular expression: " ++ w)
  | .fuel => .fuel

/-- the tree of the first regex literal of a program -/
def parse (p : Bytes) : PR Expr :=
  match parseFrom 0 p with
  | .ok (e, _) => .ok e
  | .error m => .error m
  | .panic w => .panic w
  | .fuel => .fuel

end Vore.RegexParser
