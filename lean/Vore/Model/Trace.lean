import Vore.Model.VM
/-!
# Vore.Model.Trace — the VM model with an observer (correspondence level L5)

`runT` / `scanT` / `findMatchesT` are `run` / `scan` / `findMatches` threading a 64-bit fingerprint of the
sequence of observations `(pc, file offset, backtrack depth, loop depth, call depth)` — exactly what the
hook `engine.VerifStepHook` reports once per executed instruction of the real VM loop.  The theorems
below say the observer changes nothing: the result component is the proved function.  The compiled driver
prints the fingerprint, the Go harness computes the same fold over the real engine's steps, and the check
compares them: the model is then tied to the code *step by step*, not only through its final answers.
-/
namespace Vore

/-- step count and rolling fingerprint of the observations so far -/
structure Tr where
  n : Nat := 0
  h : UInt64 := 1469598103934665603
deriving Inhabited, Repr

def Tr.mix (t : Tr) (x : Nat) : Tr := { t with h := (t.h ^^^ x.toUInt64) * 1099511628211 }

/-- one observation: what `verifStep` passes to the hook -/
def Tr.obs (t : Tr) (s : VMState) : Tr :=
  let t := ((((t.mix s.core.pc).mix s.core.pos).mix s.bt.length).mix s.core.loops.length).mix s.core.calls.length
  { t with n := t.n + 1 }

def runT (pf : Nat) (prog : List Instr) (text : Bytes) : Nat → VMState → Tr → Option Outcome × Tr
  | 0, _, t => (none, t)
  | n + 1, s, t =>
    if s.core.pc ≥ prog.length then (some (.success s.core), t) else
    match step pf prog text s with
    | .done o => (some o, t.obs s)
    | .cont s' => runT pf prog text n s' (t.obs s)

theorem runT_fst (pf : Nat) (prog : List Instr) (text : Bytes) :
    ∀ n s t, (runT pf prog text n s t).1 = run pf prog text n s := by
  intro n
  induction n with
  | zero => intro s t; rfl
  | succ n ih =>
    intro s t
    simp only [runT, run]
    split
    · rfl
    · cases hs : step pf prog text s with
      | done o => rfl
      | cont s' => exact ih _ _

def scanT (pf vf : Nat) (prog : List Instr) (amt : Amount) (text : Bytes) :
    Nat → (acc : List Match) → (matchNumber pos line col : Nat) → Tr → Option (Res (List Match)) × Tr
  | 0, _, _, _, _, _, t => (none, t)
  | f + 1, acc, mn, pos, line, col, t =>
    if !(amt.all || mn < amt.skip + amt.take) then (some (.ok acc), t) else
    let r := runT pf prog text vf (initState pos line col) t
    match classify r.1 with
    | .diverge => (none, r.2)
    | .panic tag => (some (.panic tag), r.2)
    | .pfuel => (some .pfuel, r.2)
    | .hit c =>
      let acc' := if mn ≥ amt.skip then limitLast amt.last (acc ++ [makeMatch (mn + 1) pos line col c]) else acc
      if c.pos ≥ text.length then (some (.ok acc'), r.2)
      else scanT pf vf prog amt text f acc' (mn + 1) c.pos c.line c.col r.2
    | .miss =>
      match readAt text pos 1 with
      | [b] =>
        if pos + 1 ≥ text.length then (some (.ok acc), r.2)
        else scanT pf vf prog amt text f acc mn (pos + 1)
          (if b = nl then (line + 1, 1) else (line, col + 1)).1 (if b = nl then (line + 1, 1) else (line, col + 1)).2 r.2
      | _ => (some (.panic "WOW THAT IS NOT GOOD :("), r.2)

theorem scanT_fst (pf vf : Nat) (prog : List Instr) (amt : Amount) (text : Bytes) :
    ∀ f acc mn pos line col t, (scanT pf vf prog amt text f acc mn pos line col t).1 =
      scan pf vf prog amt text f acc mn pos line col := by
  intro f
  induction f with
  | zero => intro acc mn pos line col t; rfl
  | succ f ih =>
    intro acc mn pos line col t
    simp only [scanT, scan, runT_fst]
    split
    · rfl
    · cases hc : classify (run pf prog text vf (initState pos line col)) with
      | diverge => rfl
      | panic tag => rfl
      | pfuel => rfl
      | hit c =>
        simp only
        split
        · rfl
        · exact ih _ _ _ _ _ _
      | miss =>
        simp only
        cases hr : readAt text pos 1 with
        | nil => rfl
        | cons b rest =>
          cases rest with
          | nil =>
            simp only
            split
            · rfl
            · exact ih _ _ _ _ _ _
          | cons b2 rest2 => rfl

def findMatchesT (pf vf : Nat) (prog : List Instr) (amt : Amount) (text : Bytes) (t0 : Tr) :
    Option (Res (List Match)) × Tr :=
  if text.length = 0 then (some (.ok []), t0) else
  if prog.length = 0 then (some (.ok []), t0) else
  scanT pf vf prog amt text (text.length + 1) [] 0 0 1 1 t0

/-- the observer changes nothing: the traced run returns what `findMatches` returns -/
theorem findMatchesT_fst (pf vf : Nat) (prog : List Instr) (amt : Amount) (text : Bytes) (t0 : Tr) :
    (findMatchesT pf vf prog amt text t0).1 = findMatches pf vf prog amt text := by
  unfold findMatchesT findMatches
  split
  · rfl
  · split
    · rfl
    · exact scanT_fst _ _ _ _ _ _ _ _ _ _ _ _

end Vore
