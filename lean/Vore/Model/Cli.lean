import Vore.CliExtracted
/-!
# Vore.Model.Cli — the decision sequence of the command line tool (/repo/main.go)

`Cli.run` transcribes `main()` statement by statement over the finite space the property
quantifies over: which flags are given, what kind of program, which kind of `-files` pattern,
whether the library found anything, whether the named JSON files already exist.  It only
*decides*: what is printed, in which order, with which exit status, and what happens to which
file.  The library calls (`Compile`, `ParsePath(..).GetFileList`, `RunFiles`, `Json`,
`FormattedJson`, `Print`) are abstract items; `Cli.runData` puts the library's result into them.

Facts read off main.go by `harness/cmd/cliextract` on every check (`Vore/CliExtracted.lean`):
the `-replace-mode` table and its default, the `os.OpenFile` flags of `OpenFile`, whether
`Truncate` precedes the writes.  `flag`, `log.Fatal`, `os.Exit`, the file system: trusted,
exercised by the exhaustive run (`vharness` op `cli`).  Core Lean only.
-/
namespace Vore.Cli
open Vore.CliExtracted

/-- `engine.ReplaceMode` -/
inductive Mode where
  | overwrite | new | nothing
deriving DecidableEq, Repr, Inhabited

/-- the `-replace-mode` argument -/
inductive ModeArg where
  | absent | new | nothing | overwrite | bogus
  /-- the flag given with an empty value (`-replace-mode ""`, `-replace-mode=`) -/
  | empty
  /-- a documented name in lower case (`new`) -/
  | lower
  /-- the name of an engine mode that is not a mode of the tool (`CONFIRM`) -/
  | confirm
deriving DecidableEq, Repr, Inhabited

/-- the `-files` argument: not given; a plain name; a pattern matching several files; a
pattern with wildcards in a directory and the file name; a pattern matching nothing -/
inductive FileSet where
  | absent | one | several | glob | noneMatching
deriving DecidableEq, Repr, Inhabited

inductive ProgKind where
  | find | replace | failing
deriving DecidableEq, Repr, Inhabited

inductive Fmt where
  | compact | formatted
deriving DecidableEq, Repr, Inhabited

structure Flags where
  com : Bool
  src : Bool
  files : FileSet
  json : Bool
  fjson : Bool
  jsonFile : Bool
  fjsonFile : Bool
  mode : ModeArg
  noOutput : Bool
deriving DecidableEq, Repr, Inhabited

/-- what the decision sequence can see of its inputs -/
structure Scenario where
  prog : ProgKind
  hits : Bool      -- `len(results) != 0`
  pre : Bool       -- the files named by -json-file / -formatted-json-file exist already
deriving DecidableEq, Repr, Inhabited

inductive Msg where
  | noFilesArg      -- "Please supply some files to search O.O"
  | bothSrcCom      -- "Cannot use both a source file and a command at the same time."
  | neitherSrcCom   -- "Must supply either a source file or a command."
  | bothJson        -- "Can't output both json and formatted json to stdout."
  | noFilesFound    -- "No files to search :("
  | noMatches       -- "There were no matches :("
deriving DecidableEq, Repr, Inhabited

/-- one piece of standard output (shape only) -/
inductive OutItem where
  | msg (m : Msg)
  | count            -- "There were %d matches :)"
  | doc (f : Fmt)    -- `fmt.Println(results.Json())` / `FormattedJson()`
  | printed          -- `results.Print()`
  | junk             -- anything else (never produced by the model; observations only)
deriving DecidableEq, Repr, Inhabited

inductive Stderr where
  | none
  | usage        -- `flag.PrintDefaults()`
  | fatal        -- `log.Fatal(err)`: timestamp and message
  | flagError    -- `flag.Parse` rejecting a value: message and usage
  | panic        -- a Go panic trace
  | other
deriving DecidableEq, Repr, Inhabited

inductive Exit where
  | ok           -- 0
  | one          -- `os.Exit(1)`, `log.Fatal`
  | two          -- `flag.ExitOnError`
  | panic        -- 2 with a panic trace
  | other
deriving DecidableEq, Repr, Inhabited

/-- a file named by -json-file / -formatted-json-file, after the run relative to before -/
inductive FileState where
  | notNamed            -- the flag was not given
  | untouched           -- as before (missing if it was missing)
  | holds (f : Fmt)     -- holds exactly the document in that layout
  | garbled             -- anything else (created empty, document over old content, …)
deriving DecidableEq, Repr, Inhabited

/-- the searched files and everything else in the directory -/
inductive SearchFs where
  | untouched
  | library (m : Mode)  -- whatever `RunFiles(files, m, false)` does (C06)
deriving DecidableEq, Repr, Inhabited

structure Outcome where
  exit : Exit
  stdout : List OutItem
  stderr : Stderr
  jsonFile : FileState
  fjsonFile : FileState
  searched : SearchFs
deriving DecidableEq, Repr, Inhabited

/-! ## facts about main.go (regenerated) -/

/-- the constants of `engine/replacemode.go` by name -/
def modeOfName : String → Option Mode
  | "OVERWRITE" => some .overwrite
  | "NEW" => some .new
  | "NOTHING" => some .nothing
  | _ => none

/-- the text given to `-replace-mode` in the exhaustive run -/
def ModeArg.value : ModeArg → String
  | .absent => ""
  | .new => "NEW"
  | .nothing => "NOTHING"
  | .overwrite => "OVERWRITE"
  | .bogus => "bogus"
  | .empty => ""
  | .lower => "new"
  | .confirm => "CONFIRM"

def lookupStr (k : String) : List (String × String) → Option String
  | [] => none
  | (a, b) :: rest => if a == k then some b else lookupStr k rest

/-- `replaceModeArg` after `flag.Parse()`; `none` = `replaceMode` returned an error.
Flag absent: the initial value of the variable. -/
def parseModeWith (dflt : String) (cases : List (String × String)) : ModeArg → Option Mode
  | .absent => modeOfName dflt
  | a => match lookupStr a.value cases with
    | some n => modeOfName n
    | none => none

structure Env where
  mAbsent : Option Mode
  mNew : Option Mode
  mNothing : Option Mode
  mOverwrite : Option Mode
  mBogus : Option Mode
  mEmpty : Option Mode
  mLower : Option Mode
  mConfirm : Option Mode
  creates : Bool      -- O_CREATE
  writable : Bool     -- O_RDWR or O_WRONLY
  truncOpen : Bool    -- O_TRUNC
  truncCall : Bool    -- `Truncate(f)` before the write
deriving DecidableEq, Repr, Inhabited

def Env.parse (e : Env) : ModeArg → Option Mode
  | .absent => e.mAbsent
  | .new => e.mNew
  | .nothing => e.mNothing
  | .overwrite => e.mOverwrite
  | .bogus => e.mBogus
  | .empty => e.mEmpty
  | .lower => e.mLower
  | .confirm => e.mConfirm

/-- main.go as it is now -/
def goEnv : Env :=
  let p := parseModeWith goModeDefault goModeCases
  { mAbsent := p .absent, mNew := p .new, mNothing := p .nothing, mOverwrite := p .overwrite, mBogus := p .bogus,
    mEmpty := p .empty, mLower := p .lower, mConfirm := p .confirm,
    creates := goOpenFlags.contains "O_CREATE",
    writable := goOpenFlags.contains "O_RDWR" || goOpenFlags.contains "O_WRONLY",
    truncOpen := goOpenFlags.contains "O_TRUNC",
    truncCall := goTruncateCalled }

/-! ## `OpenFile`; `Truncate`; `f.WriteString(doc)` -/

/-- result of the three statements on one named file: the file afterwards, and whether a
panic ended the program.  A read-only descriptor makes `Truncate` fail (`panic(terr)`) and
the write fail silently; a missing file without `O_CREATE` makes `OpenFile` panic; without
any truncation the document lands on top of the old, longer content. -/
def writeDoc (e : Env) (pre : Bool) (f : Fmt) : FileState × Bool :=
  bif !pre && !e.creates then (.untouched, true) else
  let emptyOr : FileState := bif pre then (bif e.truncOpen && e.writable then .garbled else .untouched) else .garbled
  bif e.truncCall && !e.writable then (emptyOr, true) else
  bif !e.writable then (emptyOr, false) else
  bif e.truncOpen || e.truncCall || !pre then (.holds f, false) else (.garbled, false)

/-! ## `main()` -/

def FileSet.isAbsent : FileSet → Bool
  | .absent => true
  | _ => false

def FileSet.isNoneMatching : FileSet → Bool
  | .noneMatching => true
  | _ => false

def ProgKind.isFailing : ProgKind → Bool
  | .failing => true
  | _ => false

def named (given : Bool) : FileState := bif given then .untouched else .notNamed

/-- an exit before anything was searched or written -/
def early (fl : Flags) (exit : Exit) (stdout : List OutItem) (stderr : Stderr) : Outcome :=
  { exit := exit, stdout := stdout, stderr := stderr, jsonFile := named fl.jsonFile, fjsonFile := named fl.fjsonFile,
    searched := .untouched }

/-- `fmt.Println(msg); flag.PrintDefaults(); os.Exit(1)` -/
def usageExit (fl : Flags) (m : Msg) : Outcome := early fl .one [.msg m] .usage

/-- the tail of `main()`: `len(results) != 0`, results to the named files and to standard output -/
def report (e : Env) (fl : Flags) (sc : Scenario) (ran : SearchFs) : Outcome :=
  let out1 : List OutItem := bif !fl.json && !fl.fjson then [.count] else []
  -- if len(json_file) != 0 { f := OpenFile(json_file); Truncate(f); f.WriteString(results.Json()) }
  match (bif fl.jsonFile then writeDoc e sc.pre .compact else (.notNamed, false)) with
  | (jf, true) =>
    { exit := .panic, stdout := out1, stderr := .panic, jsonFile := jf, fjsonFile := named fl.fjsonFile, searched := ran }
  | (jf, false) =>
  -- if len(fjson_file) != 0 { … f.WriteString(results.FormattedJson()) }
  match (bif fl.fjsonFile then writeDoc e sc.pre .formatted else (.notNamed, false)) with
  | (fjf, true) =>
    { exit := .panic, stdout := out1, stderr := .panic, jsonFile := jf, fjsonFile := fjf, searched := ran }
  | (fjf, false) =>
  -- if out_json { Println(results.Json()) } else if out_fjson { Println(results.FormattedJson()) } else { results.Print() }
  let out2 : List OutItem := bif fl.json then [.doc .compact] else bif fl.fjson then [.doc .formatted] else [.printed]
  { exit := .ok, stdout := out1 ++ out2, stderr := .none, jsonFile := jf, fjsonFile := fjf, searched := ran }

/-- from the compilation on: `Compile`/`CompileFile`, the file list, `RunFiles`, `-no-output` -/
def compileAndRun (e : Env) (fl : Flags) (sc : Scenario) (mode : Mode) : Outcome :=
  -- if compError != nil { log.Fatal(compError) }
  bif sc.prog.isFailing then early fl .one [] .fatal else
  -- search_files := ParsePath(glob).GetFileList(cwd); "No files to search :("; return
  bif fl.files.isNoneMatching then early fl .ok [.msg .noFilesFound] .none else
  -- results := vore.RunFiles(search_files, replaceModeArg, process_filenames)
  let ran := SearchFs.library mode
  let quiet (stdout : List OutItem) : Outcome :=
    { exit := .ok, stdout := stdout, stderr := .none, jsonFile := named fl.jsonFile, fjsonFile := named fl.fjsonFile,
      searched := ran }
  bif fl.noOutput then quiet [] else            -- skip all output
  bif !sc.hits then quiet [.msg .noMatches] else
  report e fl sc ran

/-- the flag validation of `main()`, in source order -/
def validate (e : Env) (fl : Flags) (sc : Scenario) (mode : Mode) : Outcome :=
  bif fl.files.isAbsent then usageExit fl .noFilesArg else        -- len(search_files_glob) == 0 && !debug
  bif fl.src && fl.com then usageExit fl .bothSrcCom else
  bif !fl.src && !fl.com then usageExit fl .neitherSrcCom else
  bif fl.json && fl.fjson then usageExit fl .bothJson else
  compileAndRun e fl sc mode

/-- `main()` -/
def run (e : Env) (fl : Flags) (sc : Scenario) : Outcome :=
  -- flag.Parse() with flag.Func("replace-mode", …, replaceMode): an error ends the program with status 2
  match e.parse fl.mode with
  | none => early fl .two [] .flagError
  | some mode => validate e fl sc mode

/-! ## the same with the library's data in it -/

/-- standard output with the library's result `R` in it -/
inductive OutData (R : Type) where
  | msg (m : Msg)
  | count (n : Nat)
  | doc (f : Fmt) (r : R)      -- exactly one rendering of `r` and a newline
  | printed (r : R)
  | junk

def OutItem.fill {R : Type} (r : R) (n : Nat) : OutItem → OutData R
  | .msg m => .msg m
  | .count => .count n
  | .doc f => .doc f r
  | .printed => .printed r
  | .junk => .junk

/-- content of a named JSON file afterwards -/
inductive FileData (R : Type) where
  | notNamed
  | untouched
  | holds (f : Fmt) (r : R)
  | garbled

def FileState.fill {R : Type} (r : R) : FileState → FileData R
  | .notNamed => .notNamed
  | .untouched => .untouched
  | .holds f => .holds f r
  | .garbled => .garbled

structure OutcomeData (R : Type) where
  exit : Exit
  stdout : List (OutData R)
  stderr : Stderr
  jsonFile : FileData R
  fjsonFile : FileData R
  searched : SearchFs

/-- `main()` on concrete inputs: `results` is what `vore.RunFiles` returns (a list of
matches of any type `α`); the decision sequence only looks at `len(results)`. -/
def runData {α : Type} (e : Env) (fl : Flags) (prog : ProgKind) (pre : Bool) (results : List α) :
    OutcomeData (List α) :=
  let o := run e fl { prog := prog, hits := results.length != 0, pre := pre }
  { exit := o.exit, stdout := o.stdout.map (OutItem.fill results results.length), stderr := o.stderr,
    jsonFile := o.jsonFile.fill results, fjsonFile := o.fjsonFile.fill results, searched := o.searched }

end Vore.Cli
