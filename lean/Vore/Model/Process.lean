import Vore.Model.Basic
/-!
# Vore.Model.Process — the process-language evaluator (libvore/engine/execute.go)

Function for function: `getString/getNumber/getBoolean`, `executeBinaryExpr`,
`executeUnaryExpression`, `executeStatement`.  Go panics are outcomes.
-/
namespace Vore

inductive PVal where
  | str (s : Bytes)
  | num (n : Int)
  | bool (b : Bool)
deriving Repr, DecidableEq, Inhabited

inductive PT where
  | string | number | boolean
deriving Repr, DecidableEq, Inhabited

def PVal.type : PVal → PT
  | .str _ => .string
  | .num _ => .number
  | .bool _ => .boolean

/-! ### strconv.Itoa / strconv.Atoi on byte strings (modelled, see trusted base) -/

def natDigits (n : Nat) : Bytes := (Nat.toDigits 10 n).map (fun c => c.toNat.toUInt8)

def itoa (n : Int) : Bytes :=
  if n < 0 then 45 :: natDigits n.natAbs else natDigits n.natAbs

def parseDigits : Bytes → Nat → Option Nat
  | [], acc => some acc
  | b :: bs, acc => if 48 ≤ b && b ≤ 57 then parseDigits bs (acc * 10 + (b.toNat - 48)) else none

def int64Max : Int := 9223372036854775807
def int64Min : Int := -9223372036854775808

/-- `strconv.Atoi`: optional sign, at least one decimal digit, value within int64. -/
def atoi (s : Bytes) : Option Int :=
  let (negv, ds) : Bool × Bytes := match s with
    | 43 :: r => (false, r)
    | 45 :: r => (true, r)
    | r => (false, r)
  if ds.isEmpty then none else
  match parseDigits ds 0 with
  | none => none
  | some n =>
    let v : Int := if negv then - (n : Int) else (n : Int)
    if v < int64Min || v > int64Max then none else some v

def trueB : Bytes := "true".toUTF8.toList
def falseB : Bytes := "false".toUTF8.toList

def PVal.getString : PVal → Bytes
  | .str s => s
  | .num n => itoa n
  | .bool b => if b then trueB else falseB

def PVal.getNumber : PVal → Int
  | .str s => (atoi s).getD 0
  | .num n => n
  | .bool b => if b then 1 else 0

def PVal.getBoolean : PVal → Bool
  | .str s => s.length != 0
  | .num n => n != 0
  | .bool b => b

abbrev PEnv := List (String × PVal)

def PEnv.get (ρ : PEnv) (k : String) : Option PVal := (ρ.find? (·.1 == k)).map (·.2)

def PEnv.put (ρ : PEnv) (k : String) (v : PVal) : PEnv :=
  if ρ.any (·.1 == k) then ρ.map (fun kv => if kv.1 == k then (k, v) else kv) else ρ ++ [(k, v)]

/-- result of evaluating an expression: a value or a Go panic -/
inductive EvalRes where
  | val (v : PVal)
  | panic (tag : String)
deriving Repr, DecidableEq, Inhabited

/-- `executeBinaryExpr` once both operands are values.  The dispatch is on the dynamic
type of the left operand, exactly as in execute.go:215-324.  Boolean `< > <= >=` coerce the
right operand to a boolean first (`ProcessValueBoolean{rhs.getBoolean()}.getNumber()`, after
`fix: bool < > <= >= coerce the right operand to a boolean`; before it they used
`rhs.getNumber()`, so `false < 'abc'` was false). -/
def evalBin (op : Op) (l r : PVal) : EvalRes :=
  match l.type with
  | .string =>
    match op with
    | .plus => .val (.str (l.getString ++ r.getString))
    | .dequal => .val (.bool (l.getString == r.getString))
    | .nequal => .val (.bool (l.getString != r.getString))
    | .less => .val (.bool (bytesLt l.getString r.getString))
    | .greater => .val (.bool (bytesLt r.getString l.getString))
    | .lesseq => .val (.bool (bytesLe l.getString r.getString))
    | .greatereq => .val (.bool (bytesLe r.getString l.getString))
    | .minus => if r.type = .number then .val (.num (l.getNumber - r.getNumber)) else .panic "SHOULDN'T GET HERE (string)"
    | .mult => if r.type = .number then .val (.num (l.getNumber * r.getNumber)) else .panic "SHOULDN'T GET HERE (string)"
    | .div => if r.type = .number then
        (if r.getNumber = 0 then .panic "integer divide by zero" else .val (.num (Int.tdiv l.getNumber r.getNumber)))
        else .panic "SHOULDN'T GET HERE (string)"
    | .mod => if r.type = .number then
        (if r.getNumber = 0 then .panic "integer divide by zero" else .val (.num (Int.tmod l.getNumber r.getNumber)))
        else .panic "SHOULDN'T GET HERE (string)"
    | _ => .panic "SHOULDN'T GET HERE (string)"
  | .boolean =>
    match op with
    | .and => .val (.bool (l.getBoolean && r.getBoolean))
    | .or => .val (.bool (l.getBoolean || r.getBoolean))
    | .dequal => .val (.bool (l.getBoolean == r.getBoolean))
    | .nequal => .val (.bool (l.getBoolean != r.getBoolean))
    | .less => .val (.bool (l.getNumber < (PVal.bool r.getBoolean).getNumber))
    | .greater => .val (.bool (l.getNumber > (PVal.bool r.getBoolean).getNumber))
    | .lesseq => .val (.bool (l.getNumber ≤ (PVal.bool r.getBoolean).getNumber))
    | .greatereq => .val (.bool (l.getNumber ≥ (PVal.bool r.getBoolean).getNumber))
    | _ => .panic "SHOULDN'T GET HERE (bool)"
  | .number =>
    match op with
    | .dequal => .val (.bool (l.getNumber == r.getNumber))
    | .nequal => .val (.bool (l.getNumber != r.getNumber))
    | .less => .val (.bool (l.getNumber < r.getNumber))
    | .greater => .val (.bool (l.getNumber > r.getNumber))
    | .lesseq => .val (.bool (l.getNumber ≤ r.getNumber))
    | .greatereq => .val (.bool (l.getNumber ≥ r.getNumber))
    | .plus => .val (.num (l.getNumber + r.getNumber))
    | .minus => .val (.num (l.getNumber - r.getNumber))
    | .mult => .val (.num (l.getNumber * r.getNumber))
    | .div => if r.getNumber = 0 then .panic "integer divide by zero" else .val (.num (Int.tdiv l.getNumber r.getNumber))
    | .mod => if r.getNumber = 0 then .panic "integer divide by zero" else .val (.num (Int.tmod l.getNumber r.getNumber))
    | _ => .panic "SHOULDN'T GET HERE (number)"

/-- `executeUnaryExpression`; an operator other than not/head/tail leaves the value. -/
def evalUn (op : Op) (v : PVal) : PVal :=
  match op with
  | .not => .bool (!v.getBoolean)
  | .head => .str (v.getString.take 1)
  | .tail => .str (v.getString.drop 1)
  | _ => v

def evalExpr (ρ : PEnv) : PExpr → EvalRes
  | .str s => .val (.str s)
  | .num n => .val (.num n)
  | .bool b => .val (.bool b)
  | .var x => .val ((ρ.get x).getD (.str []))
  | .un op e =>
    match evalExpr ρ e with
    | .val v => .val (evalUn op v)
    | .panic t => .panic t
  | .bin op l r =>
    match evalExpr ρ l with
    | .panic t => .panic t
    | .val lv =>
      match evalExpr ρ r with
      | .panic t => .panic t
      | .val rv => evalBin op lv rv

inductive PStatus where
  | next | breakLoop | continueLoop | returning
deriving Repr, DecidableEq, Inhabited

structure PState where
  cur : PVal
  env : PEnv
  status : PStatus
deriving Repr, Inhabited

inductive ExecRes where
  | ok (s : PState)
  | panic (tag : String)
  | fuel
deriving Repr, Inhabited

/-- `executeStatement` and the statement-list loops of `executeIf`/`executeLoop`.
`seq a b` is "run `a`; stop unless status is NEXT; run `b`".  `loop` needs fuel. -/
def execStmt : Nat → Stmt → PState → ExecRes
  | _, .skip, s => .ok s
  | f, .seq a b, s =>
    match execStmt f a s with
    | .ok s' => if s'.status = .next then execStmt f b s' else .ok s'
    | r => r
  | _, .set x e, s =>
    match evalExpr s.env e with
    | .val v => .ok { s with cur := v, env := s.env.put x v }
    | .panic t => .panic t
  | _, .ret e, s =>
    match evalExpr s.env e with
    | .val v => .ok { s with cur := v, status := .returning }
    | .panic t => .panic t
  | f, .ite c t e, s =>
    match evalExpr s.env c with
    | .val v => if v.getBoolean then execStmt f t { s with cur := v } else execStmt f e { s with cur := v }
    | .panic t => .panic t
  | _, .debug e, s =>
    match evalExpr s.env e with
    | .val v => .ok { s with cur := v }
    | .panic t => .panic t
  | 0, .loop _, _ => .fuel
  | f + 1, .loop body, s =>
    match execStmt f body s with
    | .ok s' =>
      match s'.status with
      | .returning => .ok s'
      | .breakLoop => .ok { s' with status := .next }
      | .continueLoop => execStmt f (.loop body) { s' with status := .next }
      | .next => execStmt f (.loop body) s'
    | r => r
  | _, .cont, s => .ok { s with status := .continueLoop }
  | _, .brk, s => .ok { s with status := .breakLoop }
termination_by f s _ => (f, sizeOf s)

/-- the top-level loop of `matchEndSubroutine` / `executeReplaceProcess`: only RETURNING
stops the walk over the statement list. -/
def execTop (f : Nat) : Stmt → PState → ExecRes
  | .seq a b, s =>
    match execStmt f a s with
    | .ok s' => if s'.status = .returning then .ok s' else execTop f b s'
    | r => r
  | .skip, s => .ok s
  | a, s => execStmt f a s

/-- run a predicate / transform body: final value defaults to `true` -/
def runProcess (f : Nat) (body : Stmt) (env : PEnv) : Except String (Option PVal) :=
  match execTop f body { cur := .str [], env := env, status := .next } with
  | .ok s => .ok (some (if s.status = .returning then s.cur else .bool true))
  | .panic t => .error t
  | .fuel => .ok none

end Vore
