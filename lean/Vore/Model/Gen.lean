import Vore.Model.Basic
/-!
# Vore.Model.Gen — bytecode and code generator (libvore/bytecode/bytecode.go, generate.go)

Same sixteen instructions, same absolute-pc offset arithmetic, same `adjust`.
Loop ids come from a counter in `GenState` instead of `rand.Int63()`.
-/
namespace Vore

inductive Instr where
  | lit (neg caseless : Bool) (s : Bytes)                 -- MatchLiteral
  | cls (neg : Bool) (c : Class)                          -- MatchCharClass
  | mvar (name : String)                                  -- MatchVariable
  | rng (neg : Bool) (lo hi : Bytes)                      -- MatchRange
  | call (name : String) (toPC : Nat)                     -- CallSubroutine
  | branch (targets : List Nat)                           -- Branch
  | startNotIn (next : Nat)                               -- StartNotIn
  | failNotIn                                             -- FailNotIn
  | endNotIn (maxSize : Int)                              -- EndNotIn
  | startLoop (id : Nat) (min : Nat) (max : Int) (fewest : Bool) (exit : Nat) (name : String)
  | stopLoop (id : Nat) (start : Nat)
  | startVar (name : String)
  | endVar (name : String)
  | startSub (id : Nat) (name : String) (endOff : Nat)
  | endSub (name : String) (validate : Stmt)
  | jump (pc : Nat)
deriving Repr, DecidableEq, Inhabited

/-- the `adjust` methods of bytecode.go (after the `fix:` commits: `Branch.adjust` is
functional and `StartSubroutine.adjust` moves `Id` together with `EndOffset`). -/
def Instr.adjust (k : Nat) : Instr → Instr
  | .call n pc => .call n (pc + k)
  | .branch ts => .branch (ts.map (· + k))
  | .startNotIn n => .startNotIn (n + k)
  | .startLoop id mn mx fw ex nm => .startLoop id mn mx fw (ex + k) nm
  | .stopLoop id st => .stopLoop id (st + k)
  | .startSub id nm e => .startSub (id + k) nm (e + k)
  | .jump pc => .jump (pc + k)
  | i => i

structure GenState where
  /-- `state.variables`: `none` = capture (`-1` in Go), `some pc` = subroutine at pc -/
  variables : List (String × Option Nat) := []
  /-- `state.globalSubroutines` -/
  globals : List (String × (List Instr × Stmt)) := []
  /-- `state.globalTransformations` -/
  transforms : List (String × Stmt) := []
  nextId : Nat := 0
deriving Repr, Inhabited

def lookup {α} (l : List (String × α)) (k : String) : Option α := (l.find? (·.1 == k)).map (·.2)

def insertKV {α} (l : List (String × α)) (k : String) (v : α) : List (String × α) :=
  (k, v) :: l.filter (fun kv => !(kv.1 == k))

abbrev GenM := Except String

def genAtom : Atom → Instr
  | .str neg cl s => .lit neg cl s
  | .cls neg c => .cls neg c
  | .range lo hi => .rng false lo hi

/-- items of `generate_not_not`: every item is one instruction followed by a jump to `end` -/
def genInItems (items : List Atom) (endPc : Nat) : List Instr :=
  items.flatMap (fun a => [genAtom a, .jump endPc])

/-- `generate_not`: per item `StartNotIn (pc+3)`, item, `FailNotIn` -/
def genNotInItems : List Atom → Nat → List Instr
  | [], _ => []
  | a :: rest, pc => [.startNotIn (pc + 3), genAtom a, .failNotIn] ++ genNotInItems rest (pc + 3)

/-- `n` copies of a generator run at consecutive offsets (the unrolled minimum of
`generateLoop`). -/
def genRepeat (g : Nat → GenState → GenM (List Instr × GenState)) :
    Nat → Nat → GenState → GenM (List Instr × GenState)
  | 0, _, st => .ok ([], st)
  | n + 1, off, st => do
    let (c, st1) ← g off st
    let (cs, st2) ← genRepeat g n (off + c.length) st1
    pure (c ++ cs, st2)

/-- `forgetCaptures` in `generateLoop` (fix 60824b3): before each copy of a loop body is generated, the
captures (`-1` targets) that were not in scope when the loop was entered are dropped, so that every
unrolled copy may declare the body's captures again -/
def forgetCaptures (outer : List (String × Option Nat)) (st : GenState) : GenState :=
  { st with variables := st.variables.filter (fun kv => kv.2.isSome || (lookup outer kv.1).isSome) }

/-- `generateSearchInstruction` and its callees. -/
def gen : Expr → Nat → GenState → GenM (List Instr × GenState)
  | .empty, _, st => .ok ([], st)
  | .seq a b, off, st => do
    let (ca, st1) ← gen a off st
    let (cb, st2) ← gen b (off + ca.length) st1
    pure (ca ++ cb, st2)
  | .atom a, _, st => .ok ([genAtom a], st)
  | .var name, off, st =>
    -- generateVariable
    match lookup st.variables name with
    | some none => .ok ([.mvar name], st)
    | some (some pc) => .ok ([.call name pc], st)
    | none =>
      match lookup st.globals name with
      | none => .error s!"identifier '{name}' is not defined"
      | some (code, validate) =>
        let body := code.map (Instr.adjust (off + 1))
        .ok ([.startSub off name (off + 1 + code.length)] ++ body ++ [.endSub name validate],
             { st with variables := insertKV st.variables name (some off) })
  | .loop mn mx fewest name body, off, st => do
    -- generateLoop
    let unroll := decide (mn > 0) && name == ""
    let (pre, st1) ← if unroll then genRepeat (fun o s => gen body o (forgetCaptures st.variables s)) mn off st
                     else pure ([], st)
    let cur := off + pre.length
    if (mn : Int) == mx && name == "" then pure (pre, st1) else
    let (cb, st2) ← gen body (cur + 1) (forgetCaptures st.variables st1)
    let newMin := if unroll then 0 else mn
    let newMax := if mx > 0 && name == "" then mx - mn else mx
    let id := st2.nextId
    pure (pre ++ [.startLoop id newMin newMax fewest (cur + cb.length + 1) name] ++ cb ++ [.stopLoop id cur],
          { st2 with nextId := id + 1 })
  | .branch l r, off, st => do
    -- generateBranch
    let (cl, st1) ← gen l (off + 1) st
    let (cr, st2) ← gen r (off + 2 + cl.length) st1
    let e := off + cl.length + cr.length + 3
    pure ([.branch [off + 1, off + cl.length + 2]] ++ cl ++ [.jump e] ++ cr ++ [.jump e], st2)
  | .dec name body, off, st => do
    -- generateVarDec: the clash test comes after the body has been generated
    let (cb, st1) ← gen body (off + 1) st
    if (lookup st1.variables name).isSome then .error s!"name clash '{name}'" else
    pure ([.startVar name] ++ cb ++ [.endVar name], { st1 with variables := insertKV st1.variables name none })
  | .sub name body, off, st => do
    -- generateSubroutine
    if (lookup st.variables name).isSome then .error s!"name clash '{name}'" else
    let st0 := { st with variables := insertKV st.variables name (some off) }
    let (cb, st1) ← gen body (off + 1) st0
    pure ([.startSub off name (off + 1 + cb.length)] ++ cb ++ [.endSub name .skip], st1)
  | .inl false items, off, st =>
    -- generate_not_not
    let endPc := off + 1 + 2 * items.length
    .ok ([.branch ((List.range items.length).map (fun i => off + 1 + 2 * i))] ++ genInItems items endPc, st)
  | .inl true items, off, st =>
    -- generate_not
    .ok (genNotInItems items off ++ [.endNotIn (listMaxSize items)], st)

/-! ### commands -/

inductive RInstr where
  | str (s : Bytes)
  | var (name : String)
  | proc (body : Stmt)
deriving Repr, Inhabited

inductive BCmd where
  | find (amt : Amount) (code : List Instr)
  | replace (amt : Amount) (code : List Instr) (replacer : List RInstr)
  | setPattern (name : String) (code : List Instr) (pred : Stmt)
  | setTransform (name : String) (body : Stmt)
  | setMatches (name : String) (cmd : BCmd)
deriving Repr, Inhabited

def genReplacer (st : GenState) : RAtom → RInstr
  | .str s => .str s
  | .var name =>
    match lookup st.transforms name with
    | some t => .proc t
    | none => .var name

end Vore
