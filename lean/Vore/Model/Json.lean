import Vore.Model.VM
/-!
# Vore.Model.Json — the JSON tree the repo's marshalling code builds
(libvore/engine/matches.go, values.go, libvore/ds/range.go, optional.go)

`encoding/json` is *not* modelled: what is modelled is the value the repo hands to it.
`Match.MarshalJSON` fills a `map[string]any`, `Range.MarshalJSON` a `map[string]int`,
`ValueHashMap.MarshalJSON` passes its `map[string]Value`, `ValueString.MarshalJSON` its string.
A Go map is written here as an association list that is only ever extended with `put`
(replace or append), so its keys are distinct; `encoding/json` prints the keys of a map
sorted, which is the business of the renderer (`Vore.Driver.canon` sorts), not of the tree.

Mutual inductives instead of `List Json` inside `Json` (nested inductives break `induction`).
-/
namespace Vore

mutual
inductive Json where
  | null
  | num (n : Int)
  | str (s : Bytes)
  | arr (items : JList)
  | obj (fields : JFields)
inductive JList where
  | nil
  | cons (x : Json) (rest : JList)
inductive JFields where
  | nil
  | cons (k : String) (v : Json) (rest : JFields)
end

instance : Inhabited Json := ⟨.null⟩
instance : Inhabited JList := ⟨.nil⟩
instance : Inhabited JFields := ⟨.nil⟩

/-- `m[k]` -/
def JFields.get : JFields → String → Option Json
  | .nil, _ => none
  | .cons k v rest, x => if k == x then some v else rest.get x

/-- `m[k] = v` on a Go map: replace the binding or add a new one -/
def JFields.put : JFields → String → Json → JFields
  | .nil, x, v => .cons x v .nil
  | .cons k w rest, x, v => if k == x then .cons k v rest else .cons k w (rest.put x v)

def JFields.keys : JFields → List String
  | .nil => []
  | .cons k _ rest => k :: rest.keys

def JList.ofList : List Json → JList
  | [] => .nil
  | x :: xs => .cons x (JList.ofList xs)

def JList.toList : JList → List Json
  | .nil => []
  | .cons x rest => x :: rest.toList

/-- a match together with the file name the engine stores in it (`Match.Filename`;
`"text"` for `Run`, the path for `RunFiles`) -/
structure FileMatch where
  filename : Bytes
  m : Match
deriving Inhabited

namespace Json

/-- `ds.Range.MarshalJSON`: `result["start"] = r.Start; result["end"] = r.End` -/
def ofRange (s e : Nat) : Json :=
  .obj ((JFields.nil.put "start" (.num s)).put "end" (.num e))

mutual
/-- `ValueString.MarshalJSON` (the string) / `ValueHashMap.MarshalJSON` (the map, recursively) -/
def ofVal : Val → Json
  | .str s => .str s
  | .map m => .obj (ofVMap m)
/-- `json.Marshal(v.Value)` of a `map[string]Value`: one member per binding -/
def ofVMap : VMap → JFields
  | .nil => .nil
  | .cons k v rest => .cons k (ofVal v) (ofVMap rest)
end

/-- the `map[string]any` of `Match.MarshalJSON`, assignment by assignment;
`replacement` only `if m.Replacement.HasValue()` -/
def matchFields (fm : FileMatch) : JFields :=
  let r := JFields.nil
  let r := r.put "filename" (.str fm.filename)
  let r := r.put "matchNumber" (.num fm.m.number)
  let r := r.put "offset" (ofRange fm.m.startPos fm.m.endPos)
  let r := r.put "line" (ofRange fm.m.startLine fm.m.endLine)
  let r := r.put "column" (ofRange fm.m.startCol fm.m.endCol)
  let r := r.put "value" (.str fm.m.value)
  let r := match fm.m.replacement with
    | some x => r.put "replacement" (.str x)
    | none => r
  r.put "variables" (.obj (ofVMap fm.m.vars))

/-- `Match.MarshalJSON` -/
def ofMatch (fm : FileMatch) : Json := .obj (matchFields fm)

/-- what `Matches.Json()` and `Matches.FormattedJson()` both hand to `encoding/json`:
the slice, one object per match (an empty `Matches{}` is the empty array, not `null`) -/
def ofMatches (ms : List FileMatch) : Json := .arr (JList.ofList (ms.map ofMatch))

/-! ## decoding (what a consumer of the document reads back) -/

def decodeNat : Json → Option Nat
  | .num n => if 0 ≤ n then some n.toNat else none
  | _ => none

def decodeStr : Json → Option Bytes
  | .str s => some s
  | _ => none

/-- an object with exactly the members `start` and `end` -/
def decodeRange : Json → Option (Nat × Nat)
  | .obj f =>
    match f.get "start", f.get "end" with
    | some s, some e =>
      match decodeNat s, decodeNat e with
      | some s', some e' => if f.keys.length = 2 then some (s', e') else none
      | _, _ => none
    | _, _ => none
  | _ => none

mutual
def decodeVal : Json → Option Val
  | .str s => some (.str s)
  | .obj f =>
    match decodeVMap f with
    | some m => some (.map m)
    | none => none
  | _ => none
def decodeVMap : JFields → Option VMap
  | .nil => some .nil
  | .cons k v rest =>
    match decodeVal v, decodeVMap rest with
    | some v', some r => some (.cons k v' r)
    | _, _ => none
end

def decodeVars : Json → Option VMap
  | .obj f => decodeVMap f
  | _ => none

/-- the member names a match object may have -/
def matchKeys : List String :=
  ["filename", "matchNumber", "offset", "line", "column", "value", "replacement", "variables"]

/-- an optional member: absent, or present and a string -/
def decodeOptStr : Option Json → Option (Option Bytes)
  | none => some none
  | some (.str s) => some (some s)
  | some _ => none

/-- one object per match: every member is required except `replacement`; no other member -/
def decodeMatch : Json → Option FileMatch
  | .obj f =>
    match f.get "filename" >>= decodeStr, f.get "matchNumber" >>= decodeNat,
          f.get "offset" >>= decodeRange, f.get "line" >>= decodeRange, f.get "column" >>= decodeRange,
          f.get "value" >>= decodeStr, decodeOptStr (f.get "replacement"),
          f.get "variables" >>= decodeVars with
    | some fname, some nr, some off, some ln, some col, some val, some repl, some vars =>
      if f.keys.all (fun k => matchKeys.contains k) then
        some { filename := fname,
               m := { number := nr, startPos := off.1, endPos := off.2, startLine := ln.1, endLine := ln.2,
                      startCol := col.1, endCol := col.2, value := val, vars := vars, replacement := repl } }
      else none
    | _, _, _, _, _, _, _, _ => none
  | _ => none

def decodeList : JList → Option (List FileMatch)
  | .nil => some []
  | .cons x rest =>
    match decodeMatch x, decodeList rest with
    | some m, some ms => some (m :: ms)
    | _, _ => none

def decodeMatches : Json → Option (List FileMatch)
  | .arr items => decodeList items
  | _ => none

/-- member lookup on a tree (`none` if it is not an object or has no such member) -/
def member? : Json → String → Option Json
  | .obj f, k => f.get k
  | _, _ => none

end Json

/-! ## well-formedness: every object is a finite map (no member name twice) -/

mutual
def Val.WF : Val → Prop
  | .str _ => True
  | .map m => m.WF
def VMap.WF : VMap → Prop
  | .nil => True
  | .cons k v rest => rest.get k = none ∧ v.WF ∧ rest.WF
end

mutual
def Json.WF : Json → Prop
  | .null => True
  | .num _ => True
  | .str _ => True
  | .arr items => items.WF
  | .obj f => f.WF
def JList.WF : JList → Prop
  | .nil => True
  | .cons x rest => x.WF ∧ rest.WF
def JFields.WF : JFields → Prop
  | .nil => True
  | .cons k v rest => rest.get k = none ∧ v.WF ∧ rest.WF
end

/-! ## the string coercion `encoding/json` applies (trusted, exercised by the correspondence)

`encoding/json` writes a Go string as a JSON string after replacing every byte that is not
part of a valid UTF-8 sequence by U+FFFD (`utf8.DecodeRuneInString` returning
`(RuneError, 1)`).  This is a property of `encoding/json`, not of the repo; it is written
down only so that the correspondence can compare texts with invalid bytes after the
substitution.  It is the identity on valid UTF-8 (proved for ASCII in `Lemmas/Json.lean`). -/

def isCont (b : UInt8) : Bool := 0x80 ≤ b && b ≤ 0xBF

/-- number of continuation bytes of a valid sequence starting with `b` followed by `rest`
(`unicode/utf8`'s `first`/`acceptRanges` tables); `none` = `b` is an invalid byte here -/
def utf8Cont (b : UInt8) (rest : Bytes) : Option Nat :=
  let second (lo hi : UInt8) : Bool := match rest with | c :: _ => lo ≤ c && c ≤ hi | [] => false
  let cont (i : Nat) : Bool := match rest[i]? with | some c => isCont c | none => false
  if 0xC2 ≤ b && b ≤ 0xDF then (if second 0x80 0xBF then some 1 else none)
  else if b == 0xE0 then (if second 0xA0 0xBF && cont 1 then some 2 else none)
  else if (0xE1 ≤ b && b ≤ 0xEC) || b == 0xEE || b == 0xEF then (if second 0x80 0xBF && cont 1 then some 2 else none)
  else if b == 0xED then (if second 0x80 0x9F && cont 1 then some 2 else none)
  else if b == 0xF0 then (if second 0x90 0xBF && cont 1 && cont 2 then some 3 else none)
  else if 0xF1 ≤ b && b ≤ 0xF3 then (if second 0x80 0xBF && cont 1 && cont 2 then some 3 else none)
  else if b == 0xF4 then (if second 0x80 0x8F && cont 1 && cont 2 then some 3 else none)
  else none

/-- `skip` = continuation bytes of an already validated sequence still to copy -/
def utf8FixAux : Nat → Bytes → Bytes
  | _, [] => []
  | k + 1, b :: rest => b :: utf8FixAux k rest
  | 0, b :: rest =>
    if b < 0x80 then b :: utf8FixAux 0 rest
    else match utf8Cont b rest with
      | some n => b :: utf8FixAux n rest
      | none => 0xEF :: 0xBF :: 0xBD :: utf8FixAux 0 rest

/-- a Go string as `encoding/json` writes it and a JSON reader gets it back -/
def utf8Fix (s : Bytes) : Bytes := utf8FixAux 0 s

mutual
/-- the tree a reader of the rendered document sees: every string after `utf8Fix` -/
def Json.coerce : Json → Json
  | .null => .null
  | .num n => .num n
  | .str s => .str (utf8Fix s)
  | .arr items => .arr items.coerce
  | .obj f => .obj f.coerce
def JList.coerce : JList → JList
  | .nil => .nil
  | .cons x rest => .cons x.coerce rest.coerce
def JFields.coerce : JFields → JFields
  | .nil => .nil
  | .cons k v rest => .cons k v.coerce rest.coerce
end

mutual
def Val.coerce : Val → Val
  | .str s => .str (utf8Fix s)
  | .map m => .map m.coerce
def VMap.coerce : VMap → VMap
  | .nil => .nil
  | .cons k v rest => .cons k v.coerce rest.coerce
end

/-- the in-memory match with every string as a reader of the document gets it
(the identity when all strings are valid UTF-8) -/
def FileMatch.coerce (fm : FileMatch) : FileMatch :=
  { filename := utf8Fix fm.filename,
    m := { fm.m with value := utf8Fix fm.m.value, replacement := fm.m.replacement.map utf8Fix,
                     vars := fm.m.vars.coerce } }

/-! ## the two renderings

`Matches.Json()` is `json.Marshal(m)`, `Matches.FormattedJson()` is
`json.MarshalIndent(m, "", "\t")`: two printers of `encoding/json` applied to the *same*
value.  The printers and the reader are parameters; what is assumed of them (`Codec.Faithful`)
is the contract of `encoding/json` and is only exercised, never proved. -/

structure Codec (D : Type) where
  compact : Json → D          -- json.Marshal
  indented : Json → D         -- json.MarshalIndent(·, "", "\t")
  parse : D → Option Json     -- json.Unmarshal into `any`

/-- reading back either printing gives the tree, strings coerced to valid UTF-8 -/
def Codec.Faithful {D : Type} (c : Codec D) : Prop :=
  ∀ j, c.parse (c.compact j) = some j.coerce ∧ c.parse (c.indented j) = some j.coerce

/-- `Matches.Json()` (after the `fix:` commit: `json.Marshal(m)`) -/
def matchesJson {D : Type} (c : Codec D) (ms : List FileMatch) : D := c.compact (Json.ofMatches ms)

/-- `Matches.FormattedJson()` -/
def matchesFormattedJson {D : Type} (c : Codec D) (ms : List FileMatch) : D := c.indented (Json.ofMatches ms)

end Vore
