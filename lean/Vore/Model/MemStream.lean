import Vore.Model.Engine
/-!
# Vore.Model.MemStream — the in-memory output stream (libvore/files/memorystream.go, writer.go)

`searchReplace` writes its output through `files.Writer.WriteAt(offset, data)` = `Seek(offset, SeekStart)` then
`Write(data)`.  For `Run` and for `RunFiles` in mode NOTHING the destination is a `MemoryStream`: a byte slice with
the usual Go length/capacity arithmetic.  `Vore.writeAt` (Model/Engine.lean) is the *abstract* write the splice
theorems of C06 are about; this file is the code as written, with every partial slice operation an explicit panic:

* `arr` is the backing array of `ms.contents` (its length is `cap(ms.contents)`), `len` is `len(ms.contents)`;
* `make([]byte, len, 2*(pos+len(buf)))` allocates a zeroed array and `copy` moves the old contents in;
* `ms.contents[:minCap]` panics unless `minCap ≤ cap`;  `ms.contents[ms.pos:]` panics unless `pos ≤ len`;
* `copy(dst, src)` copies `min(len dst, len src)` bytes.

`Lemmas/MemStream.lean` proves that no history of `WriteAt` calls with non-negative offsets panics and that the
contents are always the abstract `writeAt` fold (the gap a seek beyond the end leaves reads as zero bytes because
the part of the backing array beyond `len` is always zero).
-/
namespace Vore.MS
open Vore

structure MemStream where
  arr : Bytes
  len : Nat
  pos : Nat
deriving Repr, DecidableEq, Inhabited

/-- `NewMemoryStream()` -/
def new : MemStream := ⟨[], 0, 0⟩

/-- `len(ms.contents)` bytes: what has been written -/
def MemStream.contents (s : MemStream) : Bytes := s.arr.take s.len

inductive Res where
  | ok (s : MemStream)
  | panic (msg : String)
deriving Repr, DecidableEq, Inhabited

/-- `(*MemoryStream).Write(buf)` -/
def write (s : MemStream) (buf : Bytes) : Res :=
  let minCap := s.pos + buf.length
  -- if minCap > cap(ms.contents) { buf2 := make([]byte, len(ms.contents), 2*(ms.pos+len(buf))); copy(buf2, ms.contents) }
  let arr1 := if minCap > s.arr.length then s.arr.take s.len ++ List.replicate (2 * minCap - s.len) 0 else s.arr
  -- if minCap > len(ms.contents) { ms.contents = ms.contents[:minCap] }
  if minCap > s.len ∧ minCap > arr1.length then .panic "slice bounds out of range [:minCap] with capacity" else
  let len1 := if minCap > s.len then minCap else s.len
  -- copy(ms.contents[ms.pos:], buf)
  if s.pos > len1 then .panic "slice bounds out of range [pos:len]" else
  let n := min (len1 - s.pos) buf.length
  .ok ⟨arr1.take s.pos ++ buf.take n ++ arr1.drop (s.pos + n), len1, s.pos + buf.length⟩

/-- the position `Seek(offset, whence)` asks for (`io.SeekStart`, `SeekCurrent`, `SeekEnd`; anything else leaves 0) -/
def seekPos (s : MemStream) (offset : Int) (whence : Nat) : Int :=
  match whence with
  | 0 => offset
  | 1 => (s.pos : Int) + offset
  | 2 => (s.len : Int) + offset
  | _ => 0

/-- `(*MemoryStream).Seek(offset, whence)`: `none` = the error "negative result pos" (position unchanged) -/
def seek (s : MemStream) (offset : Int) (whence : Nat) : Option MemStream :=
  if seekPos s offset whence < 0 then none else some { s with pos := (seekPos s offset whence).toNat }

/-- `(*Writer).WriteAt(offset, data)` on a memory stream: a failed `Seek` is `panic(serr)` -/
def writerWriteAt (s : MemStream) (offset : Int) (data : Bytes) : Res :=
  match seek s offset 0 with
  | none => .panic "negative result pos"
  | some s1 => write s1 data

/-- one call of a history: `w off data` = `WriteAt`, `s off whence` = a bare `Seek`, `p data` = a bare `Write` -/
inductive Op where
  | writeAt (off : Int) (data : Bytes)
  | seek (off : Int) (whence : Nat)
  | write (data : Bytes)
deriving Repr, DecidableEq, Inhabited

/-- a history from a state; a failed bare `Seek` returns its error and changes nothing -/
def runOps : MemStream → List Op → Res
  | s, [] => .ok s
  | s, .writeAt off data :: rest =>
    match writerWriteAt s off data with
    | .ok s' => runOps s' rest
    | .panic m => .panic m
  | s, .seek off wh :: rest => runOps ((seek s off wh).getD s) rest
  | s, .write data :: rest =>
    match write s data with
    | .ok s' => runOps s' rest
    | .panic m => .panic m

end Vore.MS
