/-!
# Vore.Model.Basic — data shared by every model file

Plain data: bytes are `List UInt8`, offsets are `Nat`, numbers of the process language
are `Int` (Go `int` is 64-bit; no property is about overflow).  Core Lean only.
-/
namespace Vore

abbrev Bytes := List UInt8

/-- `ast.AstCharacterClassType` (libvore/ast/ast.go), same order. -/
inductive Class where
  | any | whitespace | digit | upper | lower | letter
  | lineStart | fileStart | wordStart | lineEnd | fileEnd | wordEnd
  | wholeLine | wholeFile | wholeWord
deriving Repr, DecidableEq, Inhabited

/-- `AstCharacterClass.GetMaxSize` -/
def Class.maxSize : Class → Int
  | .any | .whitespace | .digit | .upper | .lower | .letter => 1
  | .lineStart | .fileStart | .wordStart | .lineEnd | .fileEnd | .wordEnd => 0
  | .wholeLine | .wholeFile | .wholeWord => -1

/-- leaves of the search language: `AstString`, `AstCharacterClass`, `AstRange` -/
inductive Atom where
  | str (neg caseless : Bool) (s : Bytes)
  | cls (neg : Bool) (c : Class)
  | range (lo hi : Bytes)
deriving Repr, DecidableEq, Inhabited

def Atom.maxSize : Atom → Int
  | .str _ _ s => s.length
  | .cls _ c => c.maxSize
  | .range _ hi => hi.length

/-- operators of the process language (token types of ast/lexer.go that can occur in
`AstProcessBinaryExpression.Op` / `AstProcessUnaryExpression.Op`) -/
inductive Op where
  | plus | minus | mult | div | mod
  | less | greater | lesseq | greatereq | dequal | nequal
  | and | or | not | head | tail
  | other (name : String)
deriving Repr, DecidableEq, Inhabited

inductive PExpr where
  | un (op : Op) (e : PExpr)
  | bin (op : Op) (l r : PExpr)
  | str (s : Bytes)
  | num (n : Int)
  | bool (b : Bool)
  | var (name : String)
deriving Repr, DecidableEq, Inhabited

/-- Process statements.  A Go statement list `[s₁,…,sₙ]` is `seq s₁ (seq s₂ … skip)`. -/
inductive Stmt where
  | skip
  | seq (a b : Stmt)
  | set (name : String) (e : PExpr)
  | ret (e : PExpr)
  | ite (c : PExpr) (t f : Stmt)
  | debug (e : PExpr)
  | loop (body : Stmt)
  | cont
  | brk
deriving Repr, DecidableEq, Inhabited

/-- Search expressions.  Go's expression lists (command bodies, `AstSubExpr.Body`,
`AstSub.Body`) are right-nested `seq … empty`; `AstPrimary` is transparent. -/
inductive Expr where
  | empty
  | seq (a b : Expr)
  | atom (a : Atom)
  | var (name : String)
  | loop (min : Nat) (max : Int) (fewest : Bool) (name : String) (body : Expr)
  | branch (l r : Expr)
  | dec (name : String) (body : Expr)
  | sub (name : String) (body : Expr)
  | inl (neg : Bool) (items : List Atom)
deriving Repr, Inhabited

structure Amount where
  all : Bool
  skip : Nat
  take : Nat
  last : Nat
deriving Repr, DecidableEq, Inhabited

/-- `with` items of a replace command -/
inductive RAtom where
  | str (s : Bytes)
  | var (name : String)
deriving Repr, DecidableEq, Inhabited

inductive Cmd where
  | find (amt : Amount) (body : Expr)
  | replace (amt : Amount) (body : Expr) (result : List RAtom)
  | setPattern (name : String) (body : Expr) (pred : Stmt)
  | setTransform (name : String) (body : Stmt)
  | setMatches (name : String) (cmd : Cmd)
deriving Repr, Inhabited

/-- `AstList.GetMaxSize` -/
def listMaxSize (items : List Atom) : Int :=
  items.foldl (fun m a => if a.maxSize > m then a.maxSize else m) (-1)

/-! ## byte helpers -/

def nl : UInt8 := 10
def cr : UInt8 := 13

/-- lexicographic `≤` on byte strings (Go string comparison) -/
def bytesLe : Bytes → Bytes → Bool
  | [], _ => true
  | _ :: _, [] => false
  | a :: as, b :: bs => if a < b then true else if b < a then false else bytesLe as bs

def bytesLt (a b : Bytes) : Bool := bytesLe a b && !(a == b)

def asciiLower (b : UInt8) : UInt8 := if 65 ≤ b && b ≤ 90 then b + 32 else b

/-- `strings.EqualFold` restricted to ASCII operands -/
def equalFoldAscii (a b : Bytes) : Bool := a.map asciiLower == b.map asciiLower

/-- `engine.IsLetter` on a one-byte string (false on the empty string) -/
def isWordByte (b : UInt8) : Bool :=
  (97 ≤ b && b ≤ 122) || (65 ≤ b && b ≤ 90) || (48 ≤ b && b ≤ 57) || b == 95

end Vore
