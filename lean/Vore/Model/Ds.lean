import Vore.Model.VM
/-!
# Vore.Model.Ds — the containers of libvore/ds as written (queue.go, stack.go)

The engine keeps its backtrack, loop, variable and call stacks in `ds.Stack` and the reported matches of a command
in a `ds.Queue`; the VM model (Model/VM.lean) uses plain lists and `limitLast` for them.  This file is the code as
written — a slice `store` with Go's slicing operations — one Lean function per Go method, with the outcomes a caller
can observe (`nil` pointers are `none`).  `Lemmas/Ds.lean` proves that the list reading of the VM model is a
refinement: a stack is its store read from the top, `Push`/`Limit` after every push keeps exactly the last `n`
elements pushed (`limitLast`), `Copy` yields an equal and independent store, no method panics for any history.

`Limit(amount int)` compares `s.Size() > uint64(amount)`: a negative `amount` converts to a huge unsigned number and
nothing is dropped (`limitU`).
-/
namespace Vore.Ds

/-! ## Queue (queue.go) -/

structure Queue (α : Type) where
  store : List α
deriving Repr, DecidableEq, Inhabited

/-- `NewQueue()` -/
def Queue.new {α : Type} : Queue α := ⟨[]⟩
/-- `IsEmpty()` -/
def Queue.isEmpty {α : Type} (q : Queue α) : Bool := q.store.length == 0
/-- `Size()` -/
def Queue.size {α : Type} (q : Queue α) : Nat := q.store.length
/-- `Contents()` -/
def Queue.contents {α : Type} (q : Queue α) : List α := q.store
/-- `Peek()`: `nil` on an empty queue -/
def Queue.peek {α : Type} (q : Queue α) : Option α := if q.isEmpty then none else q.store.head?
/-- `Push(value)`: `append(s.store, value)` -/
def Queue.push {α : Type} (q : Queue α) (v : α) : Queue α := ⟨q.store ++ [v]⟩
/-- `PushFront(value)`: `append([]T{value}, s.store...)` -/
def Queue.pushFront {α : Type} (q : Queue α) (v : α) : Queue α := ⟨[v] ++ q.store⟩
/-- `Pop()`: `nil` on an empty queue, else `s.store[0]` and `s.store = s.store[1:len(s.store)]` -/
def Queue.pop {α : Type} (q : Queue α) : Option α × Queue α :=
  if q.isEmpty then (none, q) else (q.store.head?, ⟨q.store.drop 1⟩)

/-- `uint64(amount)` for a Go `int` (64 bit) -/
def toU64 (amount : Int) : Nat := if amount < 0 then (amount + 18446744073709551616).toNat else amount.toNat

/-- the loop `for s.Size() > uint64(amount) { s.Pop() }`; `fuel` bounds the iterations (the size suffices) -/
def Queue.limitLoop {α : Type} : Nat → Nat → Queue α → Queue α
  | 0, _, q => q
  | fuel + 1, bound, q => if q.size > bound then Queue.limitLoop fuel bound q.pop.2 else q

/-- `Limit(amount)` -/
def Queue.limit {α : Type} (q : Queue α) (amount : Int) : Queue α := Queue.limitLoop q.size (toU64 amount) q

/-! ## Stack (stack.go) -/

structure Stack (α : Type) where
  store : List α            -- bottom first, as in the Go slice
deriving Repr, DecidableEq, Inhabited

def Stack.new {α : Type} : Stack α := ⟨[]⟩
def Stack.isEmpty {α : Type} (s : Stack α) : Bool := s.store.length == 0
def Stack.size {α : Type} (s : Stack α) : Nat := s.store.length
/-- `Push(value)` -/
def Stack.push {α : Type} (s : Stack α) (v : α) : Stack α := ⟨s.store ++ [v]⟩
/-- `Peek()`: `&s.store[len-1]`, `nil` when empty -/
def Stack.peek {α : Type} (s : Stack α) : Option α := if s.isEmpty then none else s.store.getLast?
/-- `Pop()`: `s.store[len-1]`, then `s.store = s.store[:len-1]` -/
def Stack.pop {α : Type} (s : Stack α) : Option α × Stack α :=
  if s.isEmpty then (none, s) else (s.store.getLast?, ⟨s.store.take (s.store.length - 1)⟩)
/-- `Index(i)`: `nil` when empty or out of range -/
def Stack.index {α : Type} (s : Stack α) (i : Int) : Option α :=
  if s.isEmpty || i < 0 || i ≥ s.store.length then none else s.store[i.toNat]?
/-- `Copy()`: a new stack, every value pushed in order -/
def Stack.copy {α : Type} (s : Stack α) : Stack α := s.store.foldl Stack.push Stack.new

/-! ## histories (the correspondence drives the real containers and these through the same operations) -/

inductive QOp where
  | push (v : Nat) | pushFront (v : Nat) | pop | peek | limit (n : Int) | size | contents
deriving Repr, DecidableEq, Inhabited

def showOpt : Option Nat → String
  | none => "nil"
  | some v => toString v

def showList (l : List Nat) : String := "[" ++ ",".intercalate (l.map toString) ++ "]"

/-- one operation: new queue and what the caller sees -/
def qStep (q : Queue Nat) : QOp → Queue Nat × String
  | .push v => (q.push v, "ok")
  | .pushFront v => (q.pushFront v, "ok")
  | .pop => (q.pop.2, showOpt q.pop.1)
  | .peek => (q, showOpt q.peek)
  | .limit n => (q.limit n, "ok")
  | .size => (q, toString q.size)
  | .contents => (q, showList q.contents)

def qRun : Queue Nat → List QOp → List String
  | _, [] => []
  | q, op :: rest => (qStep q op).2 :: qRun (qStep q op).1 rest

inductive SOp where
  | push (v : Nat) | pop | peek | index (i : Int) | size | copyThenPush (v : Nat)
deriving Repr, DecidableEq, Inhabited

/-- `copyThenPush v`: take a `Copy()`, push `v` on the COPY, then push `v + 1000` on the ORIGINAL, report both stores
(neither push may show in the other stack), and pop the original again -/
def sStep (s : Stack Nat) : SOp → Stack Nat × String
  | .push v => (s.push v, "ok")
  | .pop => (s.pop.2, showOpt s.pop.1)
  | .peek => (s, showOpt s.peek)
  | .index i => (s, showOpt (s.index i))
  | .size => (s, toString s.size)
  | .copyThenPush v => (s, showList (s.push (v + 1000)).store ++ showList (s.copy.push v).store)

def sRun : Stack Nat → List SOp → List String
  | _, [] => []
  | s, op :: rest => (sStep s op).2 :: sRun (sStep s op).1 rest

end Vore.Ds
