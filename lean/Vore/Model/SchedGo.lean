import Vore.ExtractedGlobals
import Vore.Model.Sched
/-!
# Vore.Model.SchedGo — the interleaving model instantiated with the extracted Go facts (C19)

`Vore/ExtractedGlobals.lean` is regenerated from /repo on every check.  Here it is
*interpreted*:

* which package-level variables are written by code reachable from `Compile`/`Run`
  (`sharedWrittenIdx`) — these are the `global i` locations of the model;
* how each of them is protected (`classify`): `locked m` if every function that touches the
  variable is either a function that holds the package mutex `m` for its whole body
  (`M.Lock(); defer M.Unlock()` as its first statements) or is reachable from the entry points
  only through such a function, and every holder assigns the variable before anything else can
  look at it; `free` otherwise (nothing is assumed about a `free` variable);
* which atomic actions a call may therefore perform on shared locations (`GoCalls`).

All decision procedures are plain structural recursion over lists and `Nat` bit sets, so that
the kernel can evaluate them (`decide`).  Core Lean only.
-/
namespace Vore.Sched
open Vore.ExtractedGlobals

/-- the extracted facts the classification depends on -/
structure Facts where
  calls : List (List Nat)        -- over-approximated call graph, by function id
  entries : List Nat             -- Compile, CompileFile, Run, RunFiles
  globals : List GoGlobal
  holders : List (Nat × Nat)     -- (function, mutex variable): holds it for its whole body
  initFirst : List (Nat × Nat)   -- (holder, variable): assigns it right after locking
  goStmts : List Nat             -- functions containing a `go` statement

def goFacts : Facts :=
  { calls := goCalls, entries := goEntries, globals := goGlobals, holders := goLockHolders,
    initFirst := goInitFirst, goStmts := goGoStmts }

def bitsOf (l : List Nat) : Nat := l.foldl (fun b j => b ||| (1 <<< j)) 0

/-- one sweep over all edges: successors of every marked function that is not in `stop` -/
def relax (calls : List (List Nat)) (stop bits : Nat) : Nat :=
  ((List.range calls.length).zip calls).foldl
    (fun b p => if b.testBit p.1 && !stop.testBit p.1 then p.2.foldl (fun b' j => b' ||| (1 <<< j)) b else b) bits

/-- sweep until nothing changes (every sweep but the last marks a new function); the flag
says whether a fixed point was actually reached -/
def sweeps (calls : List (List Nat)) (stop : Nat) : Nat → Nat → Nat × Bool
  | 0, b => (b, false)
  | n + 1, b =>
    let b' := relax calls stop b
    if b' == b then (b, true) else sweeps calls stop n b'

/-- Is function `f` reachable from an entry point along calls that do not pass *through* a
function of `stop` (functions of `stop` are reached but not expanded)?  Fails safe: if no
fixed point was reached (fuel too small), the answer is `true`. -/
def Facts.reaches (F : Facts) (stop : Nat) (f : Nat) : Bool :=
  match sweeps F.calls stop (F.calls.length + 1) (bitsOf F.entries) with
  | (b, true) => b.testBit f
  | (_, false) => true

/-- reachable from `Compile` / `Run` at all -/
def Facts.reachable (F : Facts) (f : Nat) : Bool := F.reaches 0 f

/-- functions that assign, increment or take the address of the variable -/
def writersOf (g : GoGlobal) : List Nat := g.assignedBy ++ g.incrementedBy ++ g.addrTakenBy

/-- every function that touches the variable -/
def accessorsOf (g : GoGlobal) : List Nat := g.assignedBy ++ g.incrementedBy ++ g.addrTakenBy ++ g.readBy

/-- positions in `F.globals` of the variables a `Compile`/`Run` call can write -/
def Facts.sharedWrittenIdx (F : Facts) : List Nat :=
  (List.range F.globals.length).filter fun i =>
    match F.globals[i]? with
    | some g => !g.isMutex && (writersOf g).any F.reachable
    | none => false

/-- how a written package-level variable is protected -/
inductive GClass where
  | free                 -- nothing known: any thread may do anything to it at any time
  | locked (m : Mutex)   -- touched only inside critical sections of `m` that initialise it first
deriving DecidableEq, Repr

/-- the model mutex standing for the package-level mutex at position `k` (0 is `randMutex`) -/
def mutexOfGlobal (k : Nat) : Mutex := k + 1

/-- does the mutex at position `k` protect the variable `g` at position `i`? -/
def Facts.lockOK (F : Facts) (k i : Nat) (g : GoGlobal) : Bool :=
  let holders := (F.holders.filter fun h => h.2 == k).map (·.1)
  (match F.globals[k]? with | some m => m.isMutex | none => false) &&
  g.addrTakenBy.isEmpty && !holders.isEmpty &&
  (accessorsOf g).all (fun f => holders.contains f || !F.reaches (bitsOf holders) f) &&
  holders.all (fun h => F.initFirst.contains (h, i))

def Facts.classify (F : Facts) (i : Nat) (g : GoGlobal) : GClass :=
  match (List.range F.globals.length).find? (fun k => F.lockOK k i g) with
  | some k => .locked (mutexOfGlobal k)
  | none => .free

/-- protection class of the `j`-th shared written variable (`global j` in the model) -/
def Facts.classes (F : Facts) : List GClass :=
  F.sharedWrittenIdx.map fun i =>
    match F.globals[i]? with
    | some g => F.classify i g
    | none => .free

/-- a call is one thread: no reachable function starts a goroutine -/
def Facts.spawners (F : Facts) : List Nat := F.goStmts.filter F.reachable

def goClasses : List GClass := goFacts.classes

/-- What one action of a Go call may be, given the protection classes of the written
package-level variables.  Everything a call allocates itself is `priv t _`; the program of a
shared `*Vore` is only read; the random source is updated blindly under the library's mutex;
a `locked m` variable is touched only while holding `m` and read only after the call's own
write in that critical section; on a `free` variable *anything* may happen. -/
def ActionAllowed (cls : List GClass) (as : List Action) (t : Tid) (pc : Nat) : Action → Prop
  | .read (.global i) _ =>
    match cls[i]? with
    | some .free => True
    | some (.locked m) => heldAt as m pc = true ∧ freshAt as (.global i) m pc = true
    | none => False
  | .write (.global i) _ =>
    match cls[i]? with
    | some .free => True
    | some (.locked m) => heldAt as m pc = true
    | none => False
  | .rmw (.global i) _ =>
    match cls[i]? with
    | some .free => True
    | some (.locked m) => heldAt as m pc = true
    | none => False
  | .read (.priv o _) _ => o = t
  | .write (.priv o _) _ => o = t
  | .rmw (.priv o _) _ => o = t
  | .read (.code _) _ => True
  | .write (.code _) _ => False
  | .rmw (.code _) _ => False
  | .rmw .randSrc _ => heldAt as randMutex pc = true
  | .read .randSrc _ => False
  | .write .randSrc _ => False
  | .lock _ => True
  | .unlock m => heldAt as m pc = true
  | .loc _ => True

/-- a family of concurrent `Compile`/`Run` calls -/
def GoCalls (cls : List GClass) (P : Tid → List Action) : Prop :=
  ∀ (t : Tid) (pc : Nat) (a : Action), (P t)[pc]? = some a → ActionAllowed cls (P t) t pc a

end Vore.Sched
