import Vore.Model.Tables
/-!
# Vore.Model.Pratt — the Pratt parser of process expressions (libvore/ast/parser.go)

`getProcessExpressionTokens` (collect the tokens of one expression, dropping `WS`, up to the
first token for which `isProcessExprEnd` holds), `parse_expr_pratt` and
`parse_process_expression`, transcribed with the precedence tables as a parameter (the
property theorems instantiate it with the regenerated `Vore.Extracted.goPrec`).

The Go function works on `(tokens, index)`; here the state is the list of remaining tokens
(`tokens[index:]`), so an index is `len(tokens) - remaining.length`.  Recursion is on a fuel
argument (every call consumes one unit; `length + 1` units suffice for every rendering, see
`Vore/Lemmas/Pratt.lean`).  This is the code after `fix: … parse_expr_pratt checks its index`:
running off the end of the tokens and a missing `)` are `ParseError`s (outcome `err`; before
the fix the first was an index-out-of-range panic and the second returned a nil expression
without an error), an expression without tokens is a `ParseError`, and comments are dropped
like white space.

A `NUMBER` token carries the value `strconv.Atoi` gives its lexeme (0 on overflow).
Core Lean only.
-/
namespace Vore.Pratt
open Vore Vore.Tables

/-- tokens that can occur in the filtered token list of an expression; `op` covers every
other token type (operators and, as `.other NAME`, any keyword) -/
inductive PTok where
  | str (s : Bytes)        -- STRING
  | num (n : Int)          -- NUMBER
  | tru                    -- TRUE
  | fls                    -- FALSE
  | ident (x : String)     -- IDENTIFIER
  | lparen                 -- OPENPAREN
  | rparen                 -- CLOSEPAREN
  | op (o : Op)
deriving Repr, DecidableEq, Inhabited

def opGoName : Op → String
  | .plus => "PLUS" | .minus => "MINUS" | .mult => "MULT" | .div => "DIV" | .mod => "MOD"
  | .less => "LESS" | .greater => "GREATER" | .lesseq => "LESSEQ" | .greatereq => "GREATEREQ"
  | .dequal => "DEQUAL" | .nequal => "NEQUAL" | .and => "AND" | .or => "OR" | .not => "NOT"
  | .head => "HEAD" | .tail => "TAIL" | .other n => n

/-- the Go `TokenType` name of a token -/
def PTok.goName : PTok → String
  | .str _ => "STRING" | .num _ => "NUMBER" | .tru => "TRUE" | .fls => "FALSE"
  | .ident _ => "IDENTIFIER" | .lparen => "OPENPAREN" | .rparen => "CLOSEPAREN"
  | .op o => opGoName o

def isExprEnd (pt : PrecTable) (t : PTok) : Bool := pt.exprEnd.contains t.goName

/-- `getProcessExpressionTokens`: (tokens of the expression, remaining tokens) -/
def exprTokens (pt : PrecTable) : List PTok → List PTok × List PTok
  | [] => ([], [])
  | t :: rest =>
    if isExprEnd pt t then ([], t :: rest)
    else if t.goName == "WS" || t.goName == "COMMENT" then exprTokens pt rest
    else ((exprTokens pt rest).1.cons t, (exprTokens pt rest).2)

inductive PRes where
  /-- `return lhs, token_index, nil` -/
  | ok (e : PExpr) (rest : List PTok)
  /-- a `ParseError`; `rest` = the tokens from the failing index on (empty: at the end) -/
  | err (rest : List PTok)
  | fuel
deriving Repr, DecidableEq, Inhabited

mutual
/-- `parse_expr_pratt(tokens, index, minPrecedence)` with `toks = tokens[index:]` -/
def pratt (pt : PrecTable) : Nat → List PTok → Int → PRes
  | 0, _, _ => .fuel
  | _ + 1, [], _ => .err []
  | f + 1, t :: rest, m =>
    match t with
    | .str s => prattLoop pt f (.str s) rest m
    | .tru => prattLoop pt f (.bool true) rest m
    | .fls => prattLoop pt f (.bool false) rest m
    | .num n => prattLoop pt f (.num n) rest m
    | .ident x => prattLoop pt f (.var x) rest m
    | .lparen =>
      match pratt pt f rest 0 with
      | .ok e rest' =>
        match rest' with
        | .rparen :: rest'' => prattLoop pt f e rest'' m
        | _ => .err rest'
      | r => r
    | .op o =>
      if pt.prefixOp o then
        match pratt pt f rest (pt.prefixPrecedence o) with
        | .ok e rest' => prattLoop pt f (.un o e) rest' m
        | r => r
      else .err (t :: rest)
    | .rparen => .err (t :: rest)
/-- the `for token_index < len(tokens)` loop of `parse_expr_pratt` with the current `lhs` -/
def prattLoop (pt : PrecTable) : Nat → PExpr → List PTok → Int → PRes
  | 0, _, _, _ => .fuel
  | _ + 1, lhs, [], _ => .ok lhs []
  | f + 1, lhs, t :: rest, m =>
    match t with
    | .rparen => .ok lhs (t :: rest)
    | .op o =>
      if pt.binaryOp o then
        if (pt.infixPrecedence o).1 < m then .ok lhs (t :: rest)
        else
          match pratt pt f rest (pt.infixPrecedence o).2 with
          | .ok rhs rest' => prattLoop pt f (.bin o lhs rhs) rest' m
          | r => r
      else .err (t :: rest)
    | _ => .err (t :: rest)
end

/-- `parse_expr_pratt(exprTokens, 0, 0)` with enough fuel -/
def parseTokens (pt : PrecTable) (toks : List PTok) : PRes := pratt pt (toks.length + 1) toks 0

/-- `parse_process_expression`: the expression (or failure) and the tokens after it.  Tokens
of the expression that the Pratt parser leaves unconsumed (after an unmatched `)`) are
ignored, as in the Go code. -/
def parseProcessExpression (pt : PrecTable) (toks : List PTok) : PRes :=
  if (exprTokens pt toks).1.isEmpty then .err (exprTokens pt toks).2 else
  match parseTokens pt (exprTokens pt toks).1 with
  | .ok e _ => .ok e (exprTokens pt toks).2
  | r => r

end Vore.Pratt
