import Vore.Model.LexStep
import Vore.UnicodeTables
/-!
# Vore.Model.Unicode — how the lexer sees a source that is not ASCII

The Go lexer reads *runes* (`bufio.Reader.ReadRune`: UTF-8 decoding, every byte that does not start a
well-formed encoding becomes U+FFFD and is consumed alone), counts token offsets in runes, and looks at a
rune only through

* comparisons with ASCII characters (`ch == '('`, `ch == 'x'`, …),
* `unicode.IsSpace`, `unicode.IsDigit`, `unicode.IsLetter`,
* `strings.ToLower` of a finished identifier, compared with the (ASCII) keyword list.

So its control flow — token kinds, token boundaries, offsets, errors, panics, termination — depends on a
non-ASCII rune only through its *class*.  `alpha` maps a rune to a byte with the same class: ASCII to
itself; the two non-ASCII runes that `unicode.ToLower` sends into ASCII (U+0130 → `i`, U+212A → `k`: they can
spell a keyword) to the upper-case ASCII letter with the same lower case; any other letter to `0x81`, digit
to `0x82`, space to `0x83`, everything else (U+FFFD included) to `0x80`.  The byte model
`Vore.Lex.lex` classifies `0x81/0x82/0x83` as letter/digit/space (`Model/LexStep.lean`), so

    lexSource src  =  lex (abstractSource src)        where  abstractSource = map alpha ∘ decodeRunes

is the model of the lexer on *every* byte string; on ASCII sources `abstractSource` is the identity
(`abstractSource_ascii`), so nothing changes there.  Token lexemes of the abstract run are the images of the
real lexemes under `alpha`; the correspondence check compares kinds and (rune) offsets on non-ASCII sources and
everything on ASCII ones.

The class tables are `Vore.UnicodeTables` (generated from the Go toolchain's `unicode` package).
-/
namespace Vore.Unicode
open Vore

def inRanges (rs : List (Nat × Nat)) (r : Nat) : Bool := rs.any (fun p => p.1 ≤ r && r ≤ p.2)

def isCont (b : UInt8) : Bool := 0x80 ≤ b && b ≤ 0xBF

def runeError : Nat := 0xFFFD

/-- `utf8.DecodeRune` on a non-empty slice whose first byte is `b0`: (rune, bytes consumed).
Anything that is not a well-formed, shortest-form encoding of a scalar value is `(U+FFFD, 1)`. -/
def decodeOne (b0 : UInt8) (rest : Bytes) : Nat × Nat :=
  if b0 < 0x80 then (b0.toNat, 1)
  else if 0xC2 ≤ b0 && b0 ≤ 0xDF then
    match rest with
    | b1 :: _ => if isCont b1 then ((b0.toNat - 0xC0) * 64 + (b1.toNat - 0x80), 2) else (runeError, 1)
    | _ => (runeError, 1)
  else if 0xE0 ≤ b0 && b0 ≤ 0xEF then
    match rest with
    | b1 :: b2 :: _ =>
      let lo : UInt8 := if b0 == 0xE0 then 0xA0 else 0x80
      let hi : UInt8 := if b0 == 0xED then 0x9F else 0xBF
      if lo ≤ b1 && b1 ≤ hi && isCont b2 then
        ((b0.toNat - 0xE0) * 4096 + (b1.toNat - 0x80) * 64 + (b2.toNat - 0x80), 3)
      else (runeError, 1)
    | _ => (runeError, 1)
  else if 0xF0 ≤ b0 && b0 ≤ 0xF4 then
    match rest with
    | b1 :: b2 :: b3 :: _ =>
      let lo : UInt8 := if b0 == 0xF0 then 0x90 else 0x80
      let hi : UInt8 := if b0 == 0xF4 then 0x8F else 0xBF
      if lo ≤ b1 && b1 ≤ hi && isCont b2 && isCont b3 then
        ((b0.toNat - 0xF0) * 262144 + (b1.toNat - 0x80) * 4096 + (b2.toNat - 0x80) * 64 + (b3.toNat - 0x80), 4)
      else (runeError, 1)
    | _ => (runeError, 1)
  else (runeError, 1)

/-- the runes `ReadRune` delivers for a source, in order (`fuel` ≥ number of bytes) -/
def decodeAux : Nat → Bytes → List Nat
  | 0, _ => []
  | _, [] => []
  | f + 1, b0 :: rest =>
    let (r, n) := decodeOne b0 rest
    r :: decodeAux f (rest.drop (n - 1))

def decodeRunes (src : Bytes) : List Nat := decodeAux src.length src

/-- the class-preserving image of a rune (see the header) -/
def alpha (r : Nat) : UInt8 :=
  if r < 128 then r.toUInt8
  else match lowerToAscii.lookup r with
    | some l => (l - 32).toUInt8
    | none =>
      if inRanges letterRanges r then 0x81
      else if inRanges digitRanges r then 0x82
      else if inRanges spaceRanges r then 0x83
      else 0x80

def abstractSource (src : Bytes) : Bytes := (decodeRunes src).map alpha

/-! ## on ASCII sources nothing changes -/

theorem decodeAux_ascii : ∀ (f : Nat) (src : Bytes), src.length ≤ f → (∀ b ∈ src, b < 128) →
    (decodeAux f src).map alpha = src := by
  intro f
  induction f with
  | zero =>
    intro src hl _
    have : src = [] := List.eq_nil_of_length_eq_zero (Nat.le_zero.mp hl)
    subst this; rfl
  | succ f ih =>
    intro src hl h
    cases src with
    | nil => rfl
    | cons b rest =>
      have hb : b < 128 := h b (by simp)
      have hb' : b < 0x80 := hb
      have hrest : ∀ c ∈ rest, c < 128 := fun c hc => h c (by simp [hc])
      have hlen : rest.length ≤ f := by simp at hl; omega
      simp only [decodeAux, decodeOne, hb', if_true, Nat.sub_self, List.drop_zero, List.map_cons]
      rw [ih rest hlen hrest]
      congr 1
      have hn : b.toNat < 128 := by
        have := UInt8.lt_iff_toNat_lt.mp hb
        simpa using this
      simp only [alpha, hn, if_true]
      exact UInt8.toNat_inj.mp (by simp)

/-- on an ASCII source the abstract source is the source -/
theorem abstractSource_ascii (src : Bytes) (h : ∀ b ∈ src, b < 128) : abstractSource src = src :=
  decodeAux_ascii src.length src (Nat.le_refl _) h

/-- every byte produces at most one rune -/
theorem decodeAux_length : ∀ (f : Nat) (src : Bytes), (decodeAux f src).length ≤ src.length := by
  intro f
  induction f with
  | zero => intro src; simp [decodeAux]
  | succ f ih =>
    intro src
    cases src with
    | nil => simp [decodeAux]
    | cons b rest =>
      simp only [decodeAux, List.length_cons]
      have := ih (rest.drop ((decodeOne b rest).2 - 1))
      have hd : (rest.drop ((decodeOne b rest).2 - 1)).length ≤ rest.length := by simp
      omega

theorem abstractSource_length (src : Bytes) : (abstractSource src).length ≤ src.length := by
  unfold abstractSource decodeRunes
  simpa using decodeAux_length src.length src

end Vore.Unicode
