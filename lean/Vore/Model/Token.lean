import Vore.Model.Basic
/-!
# Vore.Model.Token — token kinds (libvore/ast/lexer.go `TokenType`, same order) and tokens
-/
namespace Vore

inductive Tok where
  | error | eof | ws | comment
  | identifier | number | string | regexp
  | equal | coloneq | comma | openparen | closeparen | opencurly | closecurly
  | plus | minus | mult | div | less | greater | lesseq | greatereq | dequal | nequal | mod
  | find | replace | with_ | set | to | pattern | matches | transform
  | all | skip | take | top | last
  | any | whitespace | digit | upper | lower | letter | whole | line | file | word | start | end_ | begin_
  | caseless | not | at | least | most | between | and | exactly | maybe | fewest | named | in_ | or
  | if_ | then_ | else_ | debug | return_ | head | tail | loop | break_ | continue_ | true_ | false_
deriving Repr, DecidableEq, Inhabited

/-- a token: kind, lexeme (for strings: the decoded bytes), byte offsets of its source span -/
structure Token where
  kind : Tok
  lexeme : Bytes
  startOff : Nat := 0
  endOff : Nat := 0
deriving Repr, DecidableEq, Inhabited

/-- `TokenType.PP()` names, used by the dumps exchanged with the Go side -/
def Tok.name : Tok → String
  | .error => "ERROR" | .eof => "EOF" | .ws => "WS" | .comment => "COMMENT"
  | .identifier => "IDENTIFIER" | .number => "NUMBER" | .string => "STRING" | .regexp => "REGEXP"
  | .equal => "EQUAL" | .coloneq => "COLONEQ" | .comma => "COMMA" | .openparen => "OPENPAREN"
  | .closeparen => "CLOSEPAREN" | .opencurly => "OPENCURLY" | .closecurly => "CLOSECURLY"
  | .plus => "PLUS" | .minus => "MINUS" | .mult => "MULT" | .div => "DIV" | .less => "LESS"
  | .greater => "GREATER" | .lesseq => "LESSEQ" | .greatereq => "GREATEREQ" | .dequal => "DEQUAL"
  | .nequal => "NEQUAL" | .mod => "MOD"
  | .find => "FIND" | .replace => "REPLACE" | .with_ => "WITH" | .set => "SET" | .to => "TO"
  | .pattern => "PATTERN" | .matches => "MATCHES" | .transform => "TRANSFORM"
  | .all => "ALL" | .skip => "SKIP" | .take => "TAKE" | .top => "TOP" | .last => "LAST"
  | .any => "ANY" | .whitespace => "WHITESPACE" | .digit => "DIGIT" | .upper => "UPPER" | .lower => "LOWER"
  | .letter => "LETTER" | .whole => "WHOLE" | .line => "LINE" | .file => "FILE" | .word => "WORD"
  | .start => "START" | .end_ => "END" | .begin_ => "BEGIN"
  | .caseless => "CASELESS" | .not => "NOT" | .at => "AT" | .least => "LEAST" | .most => "MOST"
  | .between => "BETWEEN" | .and => "AND" | .exactly => "EXACTLY" | .maybe => "MAYBE" | .fewest => "FEWEST"
  | .named => "NAMED" | .in_ => "IN" | .or => "OR"
  | .if_ => "IF" | .then_ => "THEN" | .else_ => "ELSE" | .debug => "DEBUG" | .return_ => "RETURN"
  | .head => "HEAD" | .tail => "TAIL" | .loop => "LOOP" | .break_ => "BREAK" | .continue_ => "CONTINUE"
  | .true_ => "TRUE" | .false_ => "FALSE"

end Vore
