import Vore.Model.Lexer
import Vore.Model.Unicode
/-!
# Vore.Model.LexSource — the lexer on an arbitrary source (bytes, not necessarily ASCII)

`lexSource src = lex (abstractSource src)`: decode the runes `ReadRune` delivers, replace every non-ASCII rune by
the byte of its class (Vore/Model/Unicode.lean), run the byte model.  Offsets are rune offsets, as in the Go
lexer; lexemes are the class images of the real lexemes.  On ASCII sources this is `lex src`.
-/
namespace Vore.Lex
open Vore Vore.Unicode

def lexSource (src : Bytes) : LexOutcome := lex (abstractSource src)

theorem lexSource_ascii (src : Bytes) (h : ∀ b ∈ src, b < 128) : lexSource src = lex src := by
  unfold lexSource; rw [abstractSource_ascii src h]

end Vore.Lex
