import Vore.Model.Basic
/-!
# Vore.Model.Files — the readers (libvore/files/bufferedfile.go, reader.go, interfaces.go)

One Lean function per Go function, same arithmetic, same quirks:

* `BufferedFile`  — the sliding read window over an `*os.File` (`NewBufferedFile`, `Seek`, `Read`)
* `StringRSC`     — `StringReadSeekCloser`, i.e. `strings.Reader` (`Seek`, `Read`)
* `Reader α`      — `files.Reader` over either backend (`Seek`, `Read`, `ReadAt`, with the bounds
                     check, the `length == 0 -> ""` case, and the stale `offset` field: `Read` does
                     not advance `Reader.offset`, only the backend's cursor moves)

The file behind the `*os.File` is the immutable byte list `file`.  The two OS primitives are pure
functions of it — this is the stated assumption of C07 (DESIGN §8):

* `osReadAt file n off` = `os.File.ReadAt(buf, off)` with `len(buf) = n` on a regular file: the
  bytes `file[off, off+n)` that exist, `io.EOF` iff fewer than `n`; an error for `off < 0`.
* `osReadFirst file n`  = the first `os.File.Read(buf)` on a freshly opened regular file: the first
  `min n size` bytes; `(0, io.EOF)` iff the file is empty.

The model is of the code **after** the three `fix:` patches `fixes/C07-*.diff`
(`NewBufferedFile` accepts `io.EOF`; `Read` reports end of file; `Seek` rejects every negative
offset).  The buffer is a fixed array that `ReadAt` overwrites only partially when it comes up
short (`overwrite`): stale bytes stay in the model exactly as they stay in Go.

The buffer size is a parameter `B` (Go: the constant 4096, written once as `bufferSize` and twice
as the literal `4096` in `Seek`'s `fileBound`; they are the same number and the model uses the
field for all three).  Offsets are `Int` (Go `int64`/`int`); `Reader` methods take `Int`
arguments like the Go `int` parameters.  Use after `Close` is not modelled.  Core Lean only.
-/
namespace Vore.Files

/-- the `error` values that can come out of the two backends -/
inductive IOErr where
  | eof            -- io.EOF
  | seekEndTodo    -- "TODO seek from end of file not implemented"
  | negativeSeek   -- "seeking to negative file offset" / "strings.Reader.Seek: negative position"
  | negativeReadAt -- os.File.ReadAt: "negative offset"
deriving Repr, DecidableEq, Inhabited

/-- `io.SeekStart`, `io.SeekCurrent`, `io.SeekEnd` -/
inductive Whence where
  | start | current | end_
deriving Repr, DecidableEq, Inhabited

/-! ## the operating system, as a pure function of the file contents (assumption) -/

/-- `os.File.ReadAt(buf, off)`, `len(buf) = n`: bytes read and whether `io.EOF` came with them -/
def osReadAt (file : Bytes) (n : Nat) (off : Int) : Except IOErr (Bytes × Bool) :=
  if off < 0 then .error .negativeReadAt else
  let got := (file.drop off.toNat).take n
  .ok (got, decide (got.length < n))

/-- the first `os.File.Read(buf)` after `os.Open`, `len(buf) = n` -/
def osReadFirst (file : Bytes) (n : Nat) : Bytes × Bool :=
  let got := file.take n
  (got, decide (got.length = 0 ∧ 0 < n))

/-- a read of `got` into the front of the fixed array `buf`; the rest of `buf` keeps its bytes -/
def overwrite (buf got : Bytes) : Bytes := got ++ buf.drop got.length

/-! ## BufferedFile -/

structure BufferedFile where
  file : Bytes            -- contents behind `file *os.File`
  fileSize : Int
  buffer : Bytes
  bufferSize : Int
  minOffset : Int
  maxOffset : Int
  currentOffset : Int
deriving Repr, Inhabited

/-- `NewBufferedFile(file, fileSize)` with buffer size `B`.  The first `file.Read` may report
`io.EOF` (empty file): accepted (`fixes/C07-emptyfile.diff`); any other error panics in Go and
cannot come out of `osReadFirst`. -/
def NewBufferedFileB (B : Nat) (file : Bytes) (fileSize : Int) : BufferedFile :=
  let buffer := List.replicate B (0 : UInt8)
  let (got, _eof) := osReadFirst file B
  { file := file, fileSize := fileSize, buffer := overwrite buffer got, bufferSize := B,
    minOffset := 0, maxOffset := got.length, currentOffset := 0 }

/-- Go's `NewBufferedFile`: `bufferSize := int64(4096)` -/
def NewBufferedFile (file : Bytes) (fileSize : Int) : BufferedFile := NewBufferedFileB 4096 file fileSize

/-- the re-centring arithmetic of `Seek` (bufferedfile.go:87-101), literally:
```go
newStart := newOffset - (v.bufferSize / 2)
if newStart < 0 { newStart = 0 }
fileBound := v.fileSize - 4096
if fileBound < 0 { fileBound = v.fileSize }
if newStart >= fileBound { newStart = v.fileSize - 4096; if newStart < 0 { newStart = 0 } }
``` -/
def BufferedFile.newStart (v : BufferedFile) (newOffset : Int) : Int :=
  let newStart := newOffset - v.bufferSize / 2
  let newStart := if newStart < 0 then 0 else newStart
  let fileBound := v.fileSize - v.bufferSize
  let fileBound := if fileBound < 0 then v.fileSize else fileBound
  if newStart ≥ fileBound then
    let newStart := v.fileSize - v.bufferSize
    if newStart < 0 then 0 else newStart
  else newStart

/-- `(*BufferedFile).Seek(offset, whence)`: new state and `(int64, error)`.  On an error the
state is unchanged (Go returns before any assignment). -/
def BufferedFile.Seek (v : BufferedFile) (offset : Int) (whence : Whence) : BufferedFile × Except IOErr Int :=
  match whence with
  | .end_ => (v, .error .seekEndTodo)
  | w =>
    let newOffset := if w = .start then offset else v.currentOffset + offset
    if newOffset < 0 then (v, .error .negativeSeek)          -- `== -1` before fixes/C07-negseek.diff
    else if newOffset < v.minOffset ∨ newOffset ≥ v.maxOffset then
      let newStart := v.newStart newOffset
      match osReadAt v.file v.buffer.length newStart with
      | .error e => (v, .error e)                              -- `err != nil && err != io.EOF`
      | .ok (got, _eof) =>
        ({ v with buffer := overwrite v.buffer got, minOffset := newStart,
                  maxOffset := newStart + got.length, currentOffset := newOffset }, .ok newOffset)
    else ({ v with currentOffset := newOffset }, .ok newOffset)

/-- result of a backend `Read(p)`: the state, the bytes copied into `p[0:n]`, the error;
or a Go run-time panic (index out of range, with the index); or `spin`: the loop did not finish
within the fuel -/
inductive ReadRes (α : Type) where
  | ret (v : α) (out : Bytes) (err : Option IOErr)
  | panic (index : Int)
  | spin
deriving Repr, Inhabited

/-- the inner loop of `Read`:
`for v.currentOffset < v.maxOffset && outputOffset < outputSize { p[outputOffset] = v.buffer[v.currentOffset-v.minOffset]; … }`
with `k = outputSize - outputOffset`; returns the bytes copied; `.error i` = index out of range -/
def BufferedFile.copyLoop : Nat → BufferedFile → Except Int (BufferedFile × Bytes)
  | 0, v => .ok (v, [])
  | k + 1, v =>
    if v.currentOffset < v.maxOffset then
      let idx := v.currentOffset - v.minOffset
      if idx < 0 then .error idx else
      match v.buffer[idx.toNat]? with
      | none => .error idx
      | some b =>
        match copyLoop k { v with currentOffset := v.currentOffset + 1 } with
        | .ok (v', bs) => .ok (v', b :: bs)
        | .error e => .error e
    else .ok (v, [])

/-- the outer `for { … }` of `Read` with `n = len(p)`; `out` = what has been copied so far
(`outputOffset = out.length`); one unit of fuel per iteration -/
def BufferedFile.readLoop (n : Nat) : Nat → BufferedFile → Bytes → ReadRes BufferedFile
  | 0, _, _ => .spin
  | fuel + 1, v, out =>
    match v.copyLoop (n - out.length) with
    | .error i => .panic i
    | .ok (v, bs) =>
      let out := out ++ bs
      if out.length = n then .ret v out none
      else if v.currentOffset ≥ v.fileSize then                 -- fixes/C07-readeof.diff
        if out.length = 0 then .ret v out (some .eof) else .ret v out none
      else
        match v.Seek 0 .current with                            -- re-centre the window
        | (v, .error e) => .ret v out (some e)
        | (v, .ok _) => readLoop n fuel v out

/-- `Read` with an explicit iteration budget -/
def BufferedFile.ReadFuel (fuel : Nat) (v : BufferedFile) (n : Nat) : ReadRes BufferedFile :=
  v.readLoop n fuel []

/-- `(*BufferedFile).Read(p)`, `n = len(p)`.  `n + 1` iterations always suffice
(`Vore.Files.read_terminates`): every iteration after the first copies at least one byte. -/
def BufferedFile.Read (v : BufferedFile) (n : Nat) : ReadRes BufferedFile := v.ReadFuel (n + 1) n

/-! ## StringReadSeekCloser = strings.Reader -/

structure StringRSC where
  s : Bytes
  i : Int
deriving Repr, Inhabited

/-- `strings.Reader.Read` -/
def StringRSC.Read (r : StringRSC) (n : Nat) : ReadRes StringRSC :=
  if r.i ≥ r.s.length then .ret r [] (some .eof) else
  let got := (r.s.drop r.i.toNat).take n
  .ret { r with i := r.i + got.length } got none

/-- `strings.Reader.Seek` -/
def StringRSC.Seek (r : StringRSC) (offset : Int) (whence : Whence) : StringRSC × Except IOErr Int :=
  let abs := match whence with
    | .start => offset
    | .current => r.i + offset
    | .end_ => r.s.length + offset
  if abs < 0 then (r, .error .negativeSeek) else ({ r with i := abs }, .ok abs)

/-- `ReadSeekCloser` (interfaces.go), without `Close` -/
class ReadSeeker (α : Type) where
  seek : α → Int → Whence → α × Except IOErr Int
  read : α → Nat → ReadRes α

instance : ReadSeeker BufferedFile := ⟨BufferedFile.Seek, BufferedFile.Read⟩
instance : ReadSeeker StringRSC := ⟨StringRSC.Seek, StringRSC.Read⟩

/-! ## files.Reader -/

structure Reader (α : Type) where
  contents : α
  offset : Int
  size : Int
deriving Repr, Inhabited

/-- values a `Reader` method can panic with -/
inductive RPanic where
  | err (e : IOErr)        -- `panic(err)`
  | index (i : Int)        -- run-time: index out of range
  | makeslice              -- run-time: `make([]byte, length)` with a negative length
deriving Repr, DecidableEq, Inhabited

/-- result of a `Reader` method: new state and returned string (`[]` for `Seek`) -/
inductive RRes (α : Type) where
  | ok (r : Reader α) (s : Bytes)
  | panic (p : RPanic)
  | spin
deriving Repr, Inhabited

/-- `ReaderFromFile(filename)` for a file with contents `file` (open and stat succeed) -/
def ReaderFromFileB (B : Nat) (file : Bytes) : Reader BufferedFile :=
  { contents := NewBufferedFileB B file file.length, offset := 0, size := file.length }

def ReaderFromFile (file : Bytes) : Reader BufferedFile := ReaderFromFileB 4096 file

/-- `ReaderFromString(contents)` -/
def ReaderFromString (s : Bytes) : Reader StringRSC :=
  { contents := { s := s, i := 0 }, offset := 0, size := s.length }

variable {α : Type} [ReadSeeker α]

/-- `(*Reader).Seek(offset)`: sets `offset` first, panics on a backend error -/
def Reader.Seek (r : Reader α) (offset : Int) : RRes α :=
  match ReadSeeker.seek r.contents offset .start with
  | (_, .error e) => .panic (.err e)
  | (c, .ok _) => .ok { r with contents := c, offset := offset } []

/-- the part of `Read`/`ReadAt` after the bounds check and the `make` -/
def Reader.readContents (r : Reader α) (length : Int) : RRes α :=
  match ReadSeeker.read r.contents length.toNat with
  | .panic i => .panic (.index i)
  | .spin => .spin
  | .ret c out err =>
    match err with
    | some e => .panic (.err e)
    | none =>
      if out.length ≠ length.toNat then .ok { r with contents := c } []
      else .ok { r with contents := c } out

/-- `(*Reader).Read(length)`.  The bounds check uses `r.offset`, which only `Seek` sets. -/
def Reader.Read (r : Reader α) (length : Int) : RRes α :=
  if length = 0 ∨ r.offset + length - 1 ≥ r.size then .ok r []
  else if length < 0 then .panic .makeslice
  else r.readContents length

/-- `(*Reader).ReadAt(length, offset)` -/
def Reader.ReadAt (r : Reader α) (length offset : Int) : RRes α :=
  if length = 0 ∨ offset + length - 1 ≥ r.size then .ok r []
  else if length < 0 then .panic .makeslice
  else match r.Seek offset with
    | .ok r _ => r.readContents length
    | other => other

/-! ## histories -/

/-- one call on a `Reader` -/
inductive ROp where
  | seek (off : Int)
  | read (len : Int)
  | readAt (len off : Int)
deriving Repr, DecidableEq, Inhabited

def Reader.step (r : Reader α) : ROp → RRes α
  | .seek off => r.Seek off
  | .read len => r.Read len
  | .readAt len off => r.ReadAt len off

/-- what a caller observes of one call -/
inductive Obs where
  | str (s : Bytes)
  | panic (p : RPanic)
  | spin
deriving Repr, DecidableEq, Inhabited

/-- run a history; it ends at the first panic (or non-terminating call).  Returns what every
call returned and the final reader if all calls returned. -/
def runOps : Reader α → List ROp → List Obs × Option (Reader α)
  | r, [] => ([], some r)
  | r, op :: rest =>
    match r.step op with
    | .ok r' s => let (os, fin) := runOps r' rest; (.str s :: os, fin)
    | .panic p => ([.panic p], none)
    | .spin => ([.spin], none)

end Vore.Files
