import Vore.Model.Gen
import Vore.Model.Process
/-!
# Vore.Model.VM — the backtracking matching VM (libvore/engine/searchengine.go, search.go)

One Lean function per Go primitive (`CONSUME`, `MATCH`, `MATCHRANGE`, … `INITLOOPSTACK`,
`INSERTVARIABLE`, `CHECKPOINT`, `BACKTRACK`) and per `match*` instruction function.
The backtrack stack is a list of saved cores: each saved Go state's own `backtrack` field is
exactly the stack below it (CHECKPOINT copies the stack before pushing; BACKTRACK installs
the popped state's stack), so a list with "pop = continue with the tail" is the same object.
Everything `Copy()` copies (after the `fix:` commit: including the environment and the
named-loop variable maps) lives in `Core`; nothing is shared between snapshots.
-/
namespace Vore

/-! ## values stored with a match (engine/values.go) -/
mutual
inductive Val where
  | str (s : Bytes)
  | map (m : VMap)
inductive VMap where
  | nil
  | cons (k : String) (v : Val) (rest : VMap)
end

instance : Inhabited Val := ⟨.str []⟩
instance : Inhabited VMap := ⟨.nil⟩

def VMap.get : VMap → String → Option Val
  | .nil, _ => none
  | .cons k v rest, x => if k == x then some v else rest.get x

/-- `ValueHashMap.Add`: replace the binding or add a new one -/
def VMap.put : VMap → String → Val → VMap
  | .nil, x, v => .cons x v .nil
  | .cons k w rest, x, v => if k == x then .cons k v rest else .cons k w (rest.put x v)

/-! ## reading the text (files/reader.go `Read`/`ReadAt` contract) -/

/-- `Reader.ReadAt(n, off)` / `Seek(off); Read(n)`: the `n` bytes at `off`, or the empty
string when they are not all there (and for `n = 0`, after the `fix:` commit). -/
def readAt (text : Bytes) (off n : Nat) : Bytes :=
  if n = 0 ∨ off + n > text.length then [] else (text.drop off).take n

/-! ## state -/

structure LoopSt where
  id : Nat
  callLevel : Nat
  iter : Nat
  name : String
  startLen : Nat          -- loopMatchIndexStart
  vars : VMap
deriving Inhabited

structure CallSt where
  id : Nat
  ret : Nat
deriving Repr, DecidableEq, Inhabited

/-- what `SearchEngineState.Copy()` copies -/
structure Core where
  pc : Nat
  pos : Nat               -- currentFileOffset
  line : Nat
  col : Nat
  cur : Bytes             -- currentMatch
  loops : List LoopSt     -- head = top of loopStack
  vars : List (String × Nat)   -- variableStack
  calls : List CallSt
  env : VMap
deriving Inhabited

structure VMState where
  core : Core
  bt : List Core
deriving Inhabited

inductive Outcome where
  | success (c : Core)
  | fail
  | panic (tag : String)
  | pfuel                 -- a predicate ran out of fuel (process code with an unbounded loop)
deriving Inhabited

inductive Step where
  | cont (s : VMState)
  | done (o : Outcome)
deriving Inhabited

/-! ## primitives -/

def VMState.next (s : VMState) : Step := .cont { s with core := { s.core with pc := s.core.pc + 1 } }

/-- `BACKTRACK` -/
def VMState.backtrack (s : VMState) : Step :=
  match s.bt with
  | [] => .done .fail
  | c :: rest => .cont ⟨c, rest⟩

/-- line/column bookkeeping of `CONSUME`, byte by byte -/
def advance (line col : Nat) : Bytes → Nat × Nat
  | [] => (line, col)
  | b :: bs => if b = nl then advance (line + 1) 1 bs else advance line (col + 1) bs

/-- `CONSUME(amount)` -/
def Core.consume (text : Bytes) (c : Core) (n : Nat) : Core :=
  let v := readAt text c.pos n
  let (l, k) := advance c.line c.col v
  { c with cur := c.cur ++ v, pos := c.pos + v.length, line := l, col := k }

def VMState.consumeNext (text : Bytes) (s : VMState) (n : Nat) : Step :=
  .cont { s with core := { (s.core.consume text n) with pc := s.core.pc + 1 } }

/-- the `if cond {if not BACKTRACK else NEXT} else {if not NEXT else BACKTRACK}` shape -/
def VMState.anchor (s : VMState) (cond neg : Bool) : Step :=
  if cond != neg then s.next else s.backtrack

def isWordStr : Bytes → Bool
  | [b] => isWordByte b
  | _ => false

def inRange (lo hi v : Bytes) : Bool := bytesLe lo v && bytesLe v hi

/-- `MATCH(value, not, caseless)` -/
def VMState.matchLit (text : Bytes) (s : VMState) (value : Bytes) (neg caseless : Bool) : Step :=
  let comp := readAt text s.core.pos value.length
  if comp.length = 0 then s.backtrack else
  let eq := if caseless then equalFoldAscii value comp else value == comp
  if eq != neg then s.consumeNext text value.length else s.backtrack

/-- `MATCHRANGE(from, to, not)`: try lengths `len(to)` down to `len(from)` -/
def matchRangeLoop (text : Bytes) (s : VMState) (lo hi : Bytes) (neg : Bool) : Nat → Step
  | 0 => s.backtrack
  | k + 1 =>
    let i := lo.length + k
    let v := readAt text s.core.pos i
    -- fewer than `i` bytes are left: `not` must not succeed on nothing (fix f73d71e)
    if v == [] then matchRangeLoop text s lo hi neg k else
    if (inRange lo hi v && !neg) || (!(inRange lo hi v) && neg) then s.consumeNext text i
    else matchRangeLoop text s lo hi neg k

def VMState.matchRange (text : Bytes) (s : VMState) (lo hi : Bytes) (neg : Bool) : Step :=
  matchRangeLoop text s lo hi neg (hi.length + 1 - lo.length)

def isLineBreakAt (text : Bytes) (pos : Nat) : Bool :=
  readAt text pos 1 == [nl] || readAt text pos 2 == [cr, nl] || pos == text.length

/-- bytes consumed by the loop of `MATCHWHOLELINE` after its first `CONSUME(1)` -/
def wholeLineMore (text : Bytes) : Nat → Nat → Nat
  | 0, _ => 0
  | f + 1, pos => if isLineBreakAt text pos then 0 else 1 + wholeLineMore text f (pos + 1)

def wholeWordStop (text : Bytes) (pos : Nat) : Bool :=
  pos == text.length || (!isWordStr (readAt text pos 1) && isWordStr (readAt text (pos - 1) 1))

def wholeWordMore (text : Bytes) : Nat → Nat → Nat
  | 0, _ => 0
  | f + 1, pos => if wholeWordStop text pos then 0 else 1 + wholeWordMore text f (pos + 1)

/-- `matchCharClass` -/
def VMState.matchClass (text : Bytes) (s : VMState) (c : Class) (neg : Bool) : Step :=
  let pos := s.core.pos
  let size := text.length
  match c with
  | .any =>
    if neg then s.backtrack else
    if readAt text pos 1 == [] then s.backtrack else s.consumeNext text 1
  | .whitespace =>
    let v := readAt text pos 1
    if v == [] then s.backtrack else
    if v == [32] || v == [9] || v == [10] || v == [13] then
      (if neg then s.backtrack else s.consumeNext text 1)
    else (if neg then s.consumeNext text 1 else s.backtrack)
  | .digit => s.matchRange text [48] [57] neg
  | .upper => s.matchRange text [65] [90] neg
  | .lower => s.matchRange text [97] [122] neg
  | .letter =>
    let v := readAt text pos 1
    if v == [] then s.backtrack else
    if inRange [97] [122] v || inRange [65] [90] v then
      (if neg then s.backtrack else s.consumeNext text 1)
    else (if neg then s.consumeNext text 1 else s.backtrack)
  | .fileStart => s.anchor (pos == 0) neg
  | .fileEnd => s.anchor (pos == size) neg
  | .lineStart => if pos == 0 then s.anchor true neg else s.anchor (readAt text (pos - 1) 1 == [nl]) neg
  | .lineEnd => s.anchor (isLineBreakAt text pos) neg
  | .wordStart =>
    if pos == size then s.anchor true neg else
    let current := readAt text pos 1
    if pos == 0 then s.anchor (isWordStr current) neg else
    s.anchor (isWordStr current && !isWordStr (readAt text (pos - 1) 1)) neg
  | .wordEnd =>
    if pos == 0 then s.anchor true neg else
    let current := readAt text pos 1
    if pos == size then s.anchor (!isWordStr current) neg else
    s.anchor (!isWordStr current && isWordStr (readAt text (pos - 1) 1)) neg
  | .wholeFile =>
    if pos != 0 then (if neg then s.next else s.backtrack) else
    if neg then s.backtrack else s.consumeNext text size
  | .wholeLine =>
    if (pos != 0 && readAt text (pos - 1) 1 != [nl]) || pos == size then
      (if neg then s.next else s.backtrack)
    else if neg then s.backtrack
    else s.consumeNext text (1 + wholeLineMore text (size - pos) (pos + 1))
  | .wholeWord =>
    if (pos != 0 && (!isWordStr (readAt text pos 1) || isWordStr (readAt text (pos - 1) 1))) || pos == size then
      (if neg then s.next else s.backtrack)
    else if neg then s.backtrack
    else s.consumeNext text (1 + wholeWordMore text (size - pos) (pos + 1))

/-- `INSERTVARIABLE`: bind in the innermost *named* loop's current-iteration map, else in
the environment. -/
def insertInLoops : List LoopSt → String → Val → Option (List LoopSt)
  | [], _, _ => none
  | l :: rest, x, v =>
    if l.name != "" then
      let idx := toString l.iter
      let m := match l.vars.get idx with
        | some (.map m) => m.put x v
        | some (.str s) => (VMap.cons "value" (.str s) .nil).put x v   -- `ValueString.Hashmap()`
        | none => VMap.cons x v .nil
      some ({ l with vars := l.vars.put idx (.map m) } :: rest)
    else (insertInLoops rest x v).map (l :: ·)

def Core.insertVar (c : Core) (x : String) (v : Val) : Core :=
  match insertInLoops c.loops x v with
  | some ls => { c with loops := ls }
  | none => { c with env := c.env.put x v }

/-- `POPLOOPSTACK` (caller guarantees the stack is non-empty) -/
def Core.popLoop (c : Core) (top : LoopSt) (rest : List LoopSt) : Core :=
  let c1 := { c with loops := rest }
  if top.name != "" then c1.insertVar top.name (.map top.vars) else c1

/-- `matchStartLoop` -/
def VMState.startLoop (s : VMState) (id mn : Nat) (mx : Int) (fewest : Bool) (exit : Nat) (name : String) : Step :=
  let c := s.core
  -- INITLOOPSTACK / CHECKZEROMATCHLOOP / INCLOOPSTACK
  let entered : Option (LoopSt × List LoopSt) :=
    match c.loops with
    | top :: rest =>
      if top.id != id || top.callLevel != c.calls.length then
        some ({ id := id, callLevel := c.calls.length, iter := 0, name := name, startLen := c.cur.length,
                vars := .cons "0" (.map .nil) .nil }, c.loops)
      else if top.startLen == c.cur.length then none
      else some ({ top with iter := top.iter + 1, startLen := c.cur.length,
                            vars := top.vars.put (toString (top.iter + 1)) (.map .nil) }, rest)
    | [] =>
      some ({ id := id, callLevel := c.calls.length, iter := 0, name := name, startLen := c.cur.length,
              vars := .cons "0" (.map .nil) .nil }, [])
  match entered with
  | none => s.backtrack
  | some (top, rest) =>
    let c := { c with loops := top :: rest }
    let k := top.iter
    if k < mn then .cont { s with core := { c with pc := c.pc + 1 } }
    else if mx == -1 || (k : Int) ≤ mx then
      if fewest then
        -- NEXT; CHECKPOINT; POPLOOPSTACK; JUMP(exit+1)
        let body := { c with pc := c.pc + 1 }
        .cont ⟨{ (body.popLoop top rest) with pc := exit + 1 }, body :: s.bt⟩
      else
        -- POPLOOPSTACK; JUMP(exit+1); CHECKPOINT; PUSHLOOPSTACK; JUMP(pc+1)
        let popped := c.popLoop top rest
        let ex := { popped with pc := exit + 1 }
        .cont ⟨{ popped with loops := top :: popped.loops, pc := c.pc + 1 }, ex :: s.bt⟩
    else (VMState.mk c s.bt).backtrack

/-- `matchBranch`: checkpoints for the later targets (last pushed first), jump to the first -/
def VMState.branch (s : VMState) (targets : List Nat) : Step :=
  match targets with
  | [] => .done (.panic "slice bounds out of range (empty Branch)")
  | t :: ts => .cont ⟨{ s.core with pc := t }, ts.map (fun p => { s.core with pc := p }) ++ s.bt⟩

/-- one VM instruction (`matchInstruction`).  `pf` is the fuel given to predicates. -/
def step (pf : Nat) (prog : List Instr) (text : Bytes) (s : VMState) : Step :=
  match prog[s.core.pc]? with
  | none => .done (.panic "index out of range (pc)")
  | some i =>
    let c := s.core
    match i with
    | .lit neg cl v => s.matchLit text v neg cl
    | .cls neg k => s.matchClass text k neg
    | .mvar x =>
      match c.env.get x with
      | none => s.backtrack
      | some (.map _) => s.backtrack
      | some (.str v) => if v.isEmpty then s.next else s.matchLit text v false false
    | .rng neg lo hi => s.matchRange text lo hi neg
    | .call _ toPC => .cont { s with core := { c with calls := ⟨toPC, c.pc + 1⟩ :: c.calls, pc := toPC } }
    | .branch ts => s.branch ts
    | .startNotIn nxt => .cont ⟨{ c with pc := c.pc + 1 }, { c with pc := nxt } :: s.bt⟩
    | .failNotIn =>
      match s.bt with
      | _ :: c2 :: rest => .cont ⟨c2, rest⟩
      | _ => .done .fail
    | .endNotIn mx =>
      let c' := c.consume text mx.toNat
      if c'.pos == c.pos then (VMState.mk c' s.bt).backtrack else .cont { s with core := { c' with pc := c.pc + 1 } }
    | .startLoop id mn mx fw ex nm => s.startLoop id mn mx fw ex nm
    | .stopLoop _ st => .cont { s with core := { c with pc := st } }
    | .startVar x => .cont { s with core := { c with vars := (x, c.cur.length) :: c.vars, pc := c.pc + 1 } }
    | .endVar x =>
      match c.vars with
      | [] => .done (.panic "nil pointer dereference (variable stack empty)")
      | (y, off) :: rest =>
        if y != x then .done (.panic "UHOH BAD INSTRUCTIONS") else
        let c1 := { c with vars := rest }
        .cont { s with core := { (c1.insertVar x (.str (c.cur.drop off))) with pc := c.pc + 1 } }
    | .startSub id _ endOff =>
      -- VALIDATECALL(id, endOff+1); NEXT
      let calls := match c.calls with
        | top :: _ => if top.id != id then ⟨id, endOff + 1⟩ :: c.calls else c.calls
        | [] => [⟨id, endOff + 1⟩]
      .cont { s with core := { c with calls := calls, pc := c.pc + 1 } }
    | .endSub _ validate =>
      match c.calls with
      | [] => .done (.panic "nil pointer dereference (call stack empty)")
      | top :: rest =>
        let ret : Step := .cont { s with core := { c with calls := rest, pc := top.ret } }
        if validate == .skip then ret else
        match runProcess pf validate [("match", .str c.cur), ("matchLength", .num c.cur.length)] with
        | .error t => .done (.panic t)
        | .ok none => .done .pfuel
        | .ok (some v) => if v.getBoolean then ret else s.backtrack
    | .jump pc => .cont { s with core := { c with pc := pc } }

/-- the inner loop of `findMatches`: run until success, failure or panic; `none` = out of fuel -/
def run (pf : Nat) (prog : List Instr) (text : Bytes) : Nat → VMState → Option Outcome
  | 0, _ => none
  | n + 1, s =>
    if s.core.pc ≥ prog.length then some (.success s.core) else
    match step pf prog text s with
    | .done o => some o
    | .cont s' => run pf prog text n s'

/-! ## matches and the scan loop -/

structure Match where
  number : Nat
  startPos : Nat
  endPos : Nat
  startLine : Nat
  endLine : Nat
  startCol : Nat
  endCol : Nat
  value : Bytes
  vars : VMap
  replacement : Option Bytes := none
deriving Inhabited

/-- `CreateState` -/
def initState (pos line col : Nat) : VMState :=
  ⟨{ pc := 0, pos := pos, line := line, col := col, cur := [], loops := [], vars := [], calls := [], env := .nil }, []⟩

inductive Res (α : Type) where
  | ok (a : α)
  | panic (tag : String)
  | pfuel
deriving Inhabited

/-- `MakeMatch` -/
def makeMatch (number pos line col : Nat) (c : Core) : Match :=
  { number := number, startPos := pos, endPos := c.pos, startLine := line, endLine := c.line,
    startCol := col, endCol := c.col, value := c.cur, vars := c.env }

/-- `Queue.Limit(last)` after a push -/
def limitLast (last : Nat) (ms : List Match) : List Match :=
  if last != 0 then ms.drop (ms.length - last) else ms

/-- how one attempt ended, as the scan loop sees it -/
inductive Attempt where
  | diverge                 -- VM fuel exhausted (model only)
  | panic (tag : String)
  | pfuel
  | hit (c : Core)          -- SUCCESS with a non-empty match
  | miss                    -- FAILED, or SUCCESS with an empty match
deriving Inhabited

def classify : Option Outcome → Attempt
  | none => .diverge
  | some (.panic t) => .panic t
  | some .pfuel => .pfuel
  | some (.success c) => if c.cur.length != 0 then .hit c else .miss
  | some .fail => .miss

/-- the outer loop of `findMatches` (after the `fix:` commit for skipped matches).
`f` bounds the outer iterations (≤ |text| suffice), `vf` is the fuel of each attempt. -/
def scan (pf vf : Nat) (prog : List Instr) (amt : Amount) (text : Bytes) :
    Nat → (acc : List Match) → (matchNumber pos line col : Nat) → Option (Res (List Match))
  | 0, _, _, _, _, _ => none
  | f + 1, acc, mn, pos, line, col =>
    if !(amt.all || mn < amt.skip + amt.take) then some (.ok acc) else
    match classify (run pf prog text vf (initState pos line col)) with
    | .diverge => none
    | .panic t => some (.panic t)
    | .pfuel => some .pfuel
    | .hit c =>
      let acc' := if mn ≥ amt.skip then limitLast amt.last (acc ++ [makeMatch (mn + 1) pos line col c]) else acc
      if c.pos ≥ text.length then some (.ok acc') else scan pf vf prog amt text f acc' (mn + 1) c.pos c.line c.col
    | .miss =>
      match readAt text pos 1 with
      | [b] =>
        let (line', col') := if b = nl then (line + 1, 1) else (line, col + 1)
        if pos + 1 ≥ text.length then some (.ok acc) else scan pf vf prog amt text f acc mn (pos + 1) line' col'
      | _ => some (.panic "WOW THAT IS NOT GOOD :(")

/-- `findMatches` -/
def findMatches (pf vf : Nat) (prog : List Instr) (amt : Amount) (text : Bytes) : Option (Res (List Match)) :=
  if text.length = 0 then some (.ok []) else
  if prog.length = 0 then some (.ok []) else
  scan pf vf prog amt text (text.length + 1) [] 0 0 1 1

end Vore
