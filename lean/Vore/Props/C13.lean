import Vore.Model.Engine
import Vore.Lemmas.SimR
import Vore.Lemmas.ResolveWF
import Vore.Lemmas.Flatten
import Vore.Lemmas.Expand
/-!
# C13 — Definitions are transparent; commands, runs and compilations are independent

Proved here: the parts of the property that are statements about the model as written —
concatenation of command results and what relocation does to every
instruction kind.  The transparency theorem (body in place = `{B} = s` + calls = `set s to pattern B`)
needs the subroutine-aware simulation and is stated in DESIGN.md as outstanding (stage 2 of C01).
-/
namespace Vore

/-- the result of a multi-command program is the concatenation of the results of its commands -/
theorem C13_concat (pf vf : Nat) (fn text : Bytes) (c : BCmd) (cs : List BCmd) (a b : List Match)
    (ha : runCmd pf vf fn text c = some (.ok a)) (hb : runProgram pf vf fn text cs = some (.ok b)) :
    runProgram pf vf fn text (c :: cs) = some (.ok (a ++ b)) := by
  simp [runProgram, ha, hb]

/-- relocation leaves leaf instructions alone and moves every pc-carrying field by exactly `k`,
including the subroutine id together with the call target compared against it -/
theorem C13_relocate_atoms (k : Nat) :
    (∀ n c s, Instr.adjust k (.lit n c s) = .lit n c s) ∧
    (∀ n c, Instr.adjust k (.cls n c) = .cls n c) ∧
    (∀ n lo hi, Instr.adjust k (.rng n lo hi) = .rng n lo hi) ∧
    (∀ x, Instr.adjust k (.mvar x) = .mvar x) ∧
    (∀ x pc, Instr.adjust k (.call x pc) = .call x (pc + k)) ∧
    (∀ id x e, Instr.adjust k (.startSub id x e) = .startSub (id + k) x (e + k)) ∧
    (∀ ts, Instr.adjust k (.branch ts) = .branch (ts.map (· + k))) ∧
    (∀ pc, Instr.adjust k (.jump pc) = .jump (pc + k)) ∧
    (∀ id mn mx fw ex nm, Instr.adjust k (.startLoop id mn mx fw ex nm) = .startLoop id mn mx fw (ex + k) nm) ∧
    (∀ id st, Instr.adjust k (.stopLoop id st) = .stopLoop id (st + k)) ∧
    (∀ n, Instr.adjust k (.startNotIn n) = .startNotIn (n + k)) := by
  refine ⟨?_, ?_, ?_, ?_, ?_, ?_, ?_, ?_, ?_, ?_, ?_⟩ <;> intros <;> rfl

open Vore.Spec in
/-- an inline subroutine `{B} = s` matches exactly what `B` matches where it stands: same successes in
the same order, same continuations -/
theorem C13_sub_transparent (text : Bytes) (lf pf : Nat) (ρ : Procs) (callK : RExpr → Data → SK → FK → Option SRes)
    (id : Nat) (x : String) (body : RExpr) (d : Data) (ks : SK) (fk : FK) :
    mrWith text lf pf ρ callK (.sub id x body .skip) d ks fk = mrWith text lf pf ρ callK body d ks fk := by
  have : withPred pf .skip ks = ks := by
    funext d' fk'; simp [withPred, predHolds]
  simp only [mrWith, this]

open Vore.Spec in
/-- a call `s` matches exactly what the body of `s` matches at the point of reference (one level of
call-depth fuel is spent) -/
theorem C13_call_transparent (text : Bytes) (lf pf : Nat) (ρ : Procs) (cf : Nat) (x y : String) (id : Nat)
    (body : RExpr) (hρ : ρ.find id = some (y, body, .skip)) (d : Data) (ks : SK) (fk : FK) :
    mrN text lf pf ρ (cf + 1) (.call x id) d ks fk = mrN text lf pf ρ cf body d ks fk := by
  have : withPred pf .skip ks = ks := by
    funext d' fk'; simp [withPred, predHolds]
  simp only [mrN, mrWith, hρ, this]

open Vore.Spec in
/-- a global pattern with a predicate: its body in place, then the predicate on everything matched so far -/
theorem C13_global_transparent (text : Bytes) (lf pf : Nat) (ρ : Procs) (callK : RExpr → Data → SK → FK → Option SRes)
    (id : Nat) (x : String) (body : RExpr) (pred : Stmt) (d : Data) (ks : SK) (fk : FK) :
    mrWith text lf pf ρ callK (.sub id x body pred) d ks fk =
      mrWith text lf pf ρ callK body d (fun d' fk' =>
        match predHolds pf pred d' with
        | some true => ks d' fk'
        | some false => fk' ()
        | none => none) fk := rfl

open Vore.Spec in
/-- two spellings with the same specification have the same VM results (from C01 stage 2): what
remains of "naming is transparent" is a statement about the specification alone -/
theorem C13_vm_follows_spec (r1 r2 : RExpr) (h1 : UniqueSubs r1) (h2 : UniqueSubs r2) (w1 : WfR r1) (w2 : WfR r2)
    (n1 : lenR r1 ≠ 0) (n2 : lenR r2 ≠ 0) (text : Bytes) (pf cf nid1 nid2 : Nat) (A : List Match)
    (s1 : findAllR text pf cf r1 = some A) (s2 : findAllR text pf cf r2 = some A) :
    ∃ vf0, ∀ vf, vf0 ≤ vf → ∀ amt,
      findMatches pf vf (genBody r1 nid1).1 amt text = findMatches pf vf (genBody r2 nid2).1 amt text := by
  obtain ⟨v1, hv1⟩ := findMatches_genBody pf text cf r1 nid1 h1 w1 n1 A s1
  obtain ⟨v2, hv2⟩ := findMatches_genBody pf text cf r2 nid2 h2 w2 n2 A s2
  exact ⟨max v1 v2, fun vf hle amt => by
    rw [hv1 vf (Nat.le_trans (Nat.le_max_left _ _) hle) amt, hv2 vf (Nat.le_trans (Nat.le_max_right _ _) hle) amt]⟩

open Vore.Spec in
/-- **definitions are transparent in every context**: matching with subroutine calls nested at most `cf`
deep is — as a function of the position, the bindings and both continuations, i.e. wherever the
expression stands — the call-free matching of the expression in which every call is replaced by the
body of its target (and its predicate, if any) and every `{B} = s` by `B`, `cf` levels deep -/
theorem C13_transparent_in_context (text : Bytes) (lf pf : Nat) (ρ : Procs) (cf : Nat) (e : RExpr) :
    mrN text lf pf ρ cf e = mrWith text lf pf ρ noCall (flattenN ρ cf e) :=
  mrN_flatten text lf pf ρ cf e

open Vore.Spec in
/-- spellings with the same flattening report the same matches on every text — specification level -/
theorem C13_same_flattening_same_matches (text : Bytes) (pf cf : Nat) (r1 r2 : RExpr)
    (h : flattenN (procsOf r1) cf r1 = flattenN (procsOf r2) cf r2) :
    findAllR text pf cf r1 = findAllR text pf cf r2 :=
  findAllR_of_flatten_eq text pf cf r1 r2 h

open Vore.Spec in
/-- … and so does the VM on their generated code, under every amount clause: for two command bodies
(each with its own global patterns in scope) whose resolved forms flatten to the same expression, whenever
the specification answers -/
theorem C13_spellings_same_vm_results (G1 G2 : GEnv) (e1 e2 : Expr) (r1 r2 : RExpr)
    (hr1 : resolveBody G1 e1 = some r1) (hr2 : resolveBody G2 e2 = some r2)
    (hG1 : WfG G1) (hG2 : WfG G2) (he1 : WfE e1) (he2 : WfE e2) (n1 : lenR r1 ≠ 0) (n2 : lenR r2 ≠ 0)
    (text : Bytes) (pf cf nid1 nid2 : Nat)
    (h : flattenN (procsOf r1) cf r1 = flattenN (procsOf r2) cf r2)
    (A : List Match) (hA : findAllR text pf cf r1 = some A) :
    ∃ vf0, ∀ vf, vf0 ≤ vf → ∀ amt,
      findMatches pf vf (genBody r1 nid1).1 amt text = findMatches pf vf (genBody r2 nid2).1 amt text := by
  have hA2 : findAllR text pf cf r2 = some A := by rw [← findAllR_of_flatten_eq text pf cf r1 r2 h]; exact hA
  exact C13_vm_follows_spec r1 r2 (resolveBody_unique G1 e1 r1 hr1) (resolveBody_unique G2 e2 r2 hr2)
    (resolveBody_wf G1 e1 r1 hG1 he1 hr1) (resolveBody_wf G2 e2 r2 hG2 he2 hr2) n1 n2 text pf cf nid1 nid2 A hA hA2

open Vore.Spec in
/-- **a program with definitions means what its expansion means**: when writing every definition out in place
(`flattenN`, deep enough) leaves no call and no predicate, the matches of the body with its inline subroutines and
global patterns are exactly the matches of the resulting call-free pattern — whose specification is the
declarative list reading of `Spec.outs` (C01_spec_is_first_of_all_matches) -/
theorem C13_meaning_is_expansion (text : Bytes) (pf cf : Nat) (r : RExpr)
    (h : expandable (flattenN (procsOf r) cf r) = true) :
    CallFree (toExpr (flattenN (procsOf r) cf r)) ∧
    findAllR text pf cf r = findAll text (toExpr (flattenN (procsOf r) cf r)) :=
  ⟨callFree_toExpr _ h, findAllR_eq_findAll_expansion text pf cf r h⟩

section examples
open Vore.Spec

/-- `B` = `('a' or 'b') digit`, context `'x' _ '-' _` -/
private def bodyB : Expr :=
  .seq (.branch (.atom (.str false false [97])) (.atom (.str false false [98]))) (.seq (.atom (.cls false .digit)) .empty)
private def inPlace : Expr :=
  .seq (.atom (.str false false [120])) (.seq bodyB (.seq (.atom (.str false false [45])) (.seq bodyB .empty)))
private def withSub : Expr :=
  .seq (.atom (.str false false [120])) (.seq (.sub "s" bodyB) (.seq (.atom (.str false false [45])) (.seq (.var "s") .empty)))
private def withGlobal : Expr :=
  .seq (.atom (.str false false [120])) (.seq (.var "s") (.seq (.atom (.str false false [45])) (.seq (.var "s") .empty)))

/-- non-vacuity: the three spellings of the property (`B` in place, `{B} = s … s`, `set s to pattern B … s`)
resolve, and flatten to the same expression -/
example : ∃ r1 r2 r3, resolveBody [] inPlace = some r1 ∧ resolveBody [] withSub = some r2 ∧
    resolveBody [("s", bodyB, .skip)] withGlobal = some r3 ∧
    flattenN (procsOf r1) 1 r1 = flattenN (procsOf r2) 1 r2 ∧
    flattenN (procsOf r2) 1 r2 = flattenN (procsOf r3) 1 r3 :=
  ⟨_, _, _, rfl, rfl, rfl, rfl, rfl⟩

/-- non-vacuity: the `{B} = s … s` spelling expands to the in-place pattern `'x' B '-' B` -/
example : ∃ r, resolveBody [] withSub = some r ∧ expandable (flattenN (procsOf r) 1 r) = true ∧
    toExpr (flattenN (procsOf r) 1 r) = inPlace :=
  ⟨_, rfl, rfl, rfl⟩

end examples

#print axioms C13_sub_transparent
#print axioms C13_call_transparent
#print axioms C13_global_transparent
#print axioms C13_vm_follows_spec
#print axioms C13_transparent_in_context
#print axioms C13_same_flattening_same_matches
#print axioms C13_spellings_same_vm_results
#print axioms C13_meaning_is_expansion
#print axioms C13_concat
#print axioms C13_relocate_atoms

end Vore
