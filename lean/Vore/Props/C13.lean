import Vore.Model.Engine
import Vore.Lemmas.SimR
/-!
# C13 — Definitions are transparent; commands, runs and compilations are independent

Proved here: the parts of the property that are statements about the model as written —
concatenation of command results and what relocation does to every
instruction kind.  The transparency theorem (body in place = `{B} = s` + calls = `set s to pattern B`)
needs the subroutine-aware simulation and is stated in DESIGN.md as outstanding (stage 2 of C01).
-/
namespace Vore

/-- the result of a multi-command program is the concatenation of the results of its commands -/
theorem C13_concat (pf vf : Nat) (fn text : Bytes) (c : BCmd) (cs : List BCmd) (a b : List Match)
    (ha : runCmd pf vf fn text c = some (.ok a)) (hb : runProgram pf vf fn text cs = some (.ok b)) :
    runProgram pf vf fn text (c :: cs) = some (.ok (a ++ b)) := by
  simp [runProgram, ha, hb]

/-- relocation leaves leaf instructions alone and moves every pc-carrying field by exactly `k`,
including the subroutine id together with the call target compared against it -/
theorem C13_relocate_atoms (k : Nat) :
    (∀ n c s, Instr.adjust k (.lit n c s) = .lit n c s) ∧
    (∀ n c, Instr.adjust k (.cls n c) = .cls n c) ∧
    (∀ n lo hi, Instr.adjust k (.rng n lo hi) = .rng n lo hi) ∧
    (∀ x, Instr.adjust k (.mvar x) = .mvar x) ∧
    (∀ x pc, Instr.adjust k (.call x pc) = .call x (pc + k)) ∧
    (∀ id x e, Instr.adjust k (.startSub id x e) = .startSub (id + k) x (e + k)) ∧
    (∀ ts, Instr.adjust k (.branch ts) = .branch (ts.map (· + k))) ∧
    (∀ pc, Instr.adjust k (.jump pc) = .jump (pc + k)) ∧
    (∀ id mn mx fw ex nm, Instr.adjust k (.startLoop id mn mx fw ex nm) = .startLoop id mn mx fw (ex + k) nm) ∧
    (∀ id st, Instr.adjust k (.stopLoop id st) = .stopLoop id (st + k)) ∧
    (∀ n, Instr.adjust k (.startNotIn n) = .startNotIn (n + k)) := by
  refine ⟨?_, ?_, ?_, ?_, ?_, ?_, ?_, ?_, ?_, ?_, ?_⟩ <;> intros <;> rfl

open Vore.Spec in
/-- an inline subroutine `{B} = s` matches exactly what `B` matches where it stands: same successes in
the same order, same continuations -/
theorem C13_sub_transparent (text : Bytes) (lf pf : Nat) (ρ : Procs) (callK : RExpr → Data → SK → FK → Option SRes)
    (id : Nat) (x : String) (body : RExpr) (d : Data) (ks : SK) (fk : FK) :
    mrWith text lf pf ρ callK (.sub id x body .skip) d ks fk = mrWith text lf pf ρ callK body d ks fk := by
  have : withPred pf .skip ks = ks := by
    funext d' fk'; simp [withPred, predHolds]
  simp only [mrWith, this]

open Vore.Spec in
/-- a call `s` matches exactly what the body of `s` matches at the point of reference (one level of
call-depth fuel is spent) -/
theorem C13_call_transparent (text : Bytes) (lf pf : Nat) (ρ : Procs) (cf : Nat) (x y : String) (id : Nat)
    (body : RExpr) (hρ : ρ.find id = some (y, body, .skip)) (d : Data) (ks : SK) (fk : FK) :
    mrN text lf pf ρ (cf + 1) (.call x id) d ks fk = mrN text lf pf ρ cf body d ks fk := by
  have : withPred pf .skip ks = ks := by
    funext d' fk'; simp [withPred, predHolds]
  simp only [mrN, mrWith, hρ, this]

open Vore.Spec in
/-- a global pattern with a predicate: its body in place, then the predicate on everything matched so far -/
theorem C13_global_transparent (text : Bytes) (lf pf : Nat) (ρ : Procs) (callK : RExpr → Data → SK → FK → Option SRes)
    (id : Nat) (x : String) (body : RExpr) (pred : Stmt) (d : Data) (ks : SK) (fk : FK) :
    mrWith text lf pf ρ callK (.sub id x body pred) d ks fk =
      mrWith text lf pf ρ callK body d (fun d' fk' =>
        match predHolds pf pred d' with
        | some true => ks d' fk'
        | some false => fk' ()
        | none => none) fk := rfl

open Vore.Spec in
/-- two spellings with the same specification have the same VM results (from C01 stage 2): what
remains of "naming is transparent" is a statement about the specification alone -/
theorem C13_vm_follows_spec (r1 r2 : RExpr) (h1 : UniqueSubs r1) (h2 : UniqueSubs r2) (w1 : WfR r1) (w2 : WfR r2)
    (n1 : lenR r1 ≠ 0) (n2 : lenR r2 ≠ 0) (text : Bytes) (pf cf nid1 nid2 : Nat) (A : List Match)
    (s1 : findAllR text pf cf r1 = some A) (s2 : findAllR text pf cf r2 = some A) :
    ∃ vf0, ∀ vf, vf0 ≤ vf → ∀ amt,
      findMatches pf vf (genBody r1 nid1).1 amt text = findMatches pf vf (genBody r2 nid2).1 amt text := by
  obtain ⟨v1, hv1⟩ := findMatches_genBody pf text cf r1 nid1 h1 w1 n1 A s1
  obtain ⟨v2, hv2⟩ := findMatches_genBody pf text cf r2 nid2 h2 w2 n2 A s2
  exact ⟨max v1 v2, fun vf hle amt => by
    rw [hv1 vf (Nat.le_trans (Nat.le_max_left _ _) hle) amt, hv2 vf (Nat.le_trans (Nat.le_max_right _ _) hle) amt]⟩

#print axioms C13_sub_transparent
#print axioms C13_call_transparent
#print axioms C13_global_transparent
#print axioms C13_vm_follows_spec
#print axioms C13_concat
#print axioms C13_relocate_atoms

end Vore
