import Vore.Model.Engine
/-!
# C13 — Definitions are transparent; commands, runs and compilations are independent

Proved here: the parts of the property that are statements about the model as written —
concatenation of command results and what relocation does to every
instruction kind.  The transparency theorem (body in place = `{B} = s` + calls = `set s to pattern B`)
needs the subroutine-aware simulation and is stated in DESIGN.md as outstanding (stage 2 of C01).
-/
namespace Vore

/-- the result of a multi-command program is the concatenation of the results of its commands -/
theorem C13_concat (pf vf : Nat) (fn text : Bytes) (c : BCmd) (cs : List BCmd) (a b : List Match)
    (ha : runCmd pf vf fn text c = some (.ok a)) (hb : runProgram pf vf fn text cs = some (.ok b)) :
    runProgram pf vf fn text (c :: cs) = some (.ok (a ++ b)) := by
  simp [runProgram, ha, hb]

/-- relocation leaves leaf instructions alone and moves every pc-carrying field by exactly `k`,
including the subroutine id together with the call target compared against it -/
theorem C13_relocate_atoms (k : Nat) :
    (∀ n c s, Instr.adjust k (.lit n c s) = .lit n c s) ∧
    (∀ n c, Instr.adjust k (.cls n c) = .cls n c) ∧
    (∀ n lo hi, Instr.adjust k (.rng n lo hi) = .rng n lo hi) ∧
    (∀ x, Instr.adjust k (.mvar x) = .mvar x) ∧
    (∀ x pc, Instr.adjust k (.call x pc) = .call x (pc + k)) ∧
    (∀ id x e, Instr.adjust k (.startSub id x e) = .startSub (id + k) x (e + k)) ∧
    (∀ ts, Instr.adjust k (.branch ts) = .branch (ts.map (· + k))) ∧
    (∀ pc, Instr.adjust k (.jump pc) = .jump (pc + k)) ∧
    (∀ id mn mx fw ex nm, Instr.adjust k (.startLoop id mn mx fw ex nm) = .startLoop id mn mx fw (ex + k) nm) ∧
    (∀ id st, Instr.adjust k (.stopLoop id st) = .stopLoop id (st + k)) ∧
    (∀ n, Instr.adjust k (.startNotIn n) = .startNotIn (n + k)) := by
  refine ⟨?_, ?_, ?_, ?_, ?_, ?_, ?_, ?_, ?_, ?_, ?_⟩ <;> intros <;> rfl

#print axioms C13_concat
#print axioms C13_relocate_atoms

end Vore
