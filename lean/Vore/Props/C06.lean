import Vore.Lemmas.ReplaceSpec
import Vore.Props.C03
import Vore.Lemmas.MemStream
/-!
# C06 — Replace output is the exact splice; each mode touches only the file it may

`Spec.splice text ms 0` is the input with every matched span substituted by its replacement and
every other byte kept in order.  No side hypothesis on the matches: they are ordered and in range
by C03.  The file system is abstract (`FileSys`): POSIX semantics of O_TRUNC / seek+write are assumed and
exercised by the correspondence run on a real scratch directory.
-/
namespace Vore
open Vore.Spec

/-- what a replace command writes is the splice, whatever the relative lengths -/
theorem C06_splice (pf vf : Nat) (fn text : Bytes) (amt : Amount) (code : List Instr) (rep : List RInstr)
    (ms : List Match) (h : runCmd pf vf fn text (.replace amt code rep) = some (.ok ms)) :
    writtenText text ms = splice text ms 0 :=
  writtenText_eq_splice text ms (C03_command pf vf fn text _ ms h)

/-- **the in-memory output stream** (`files/memorystream.go`, `files/writer.go`, the destination of `Run` and of mode
NOTHING): the `WriteAt` calls `searchReplace` makes for ANY text and match list never hit one of the two slice panics of
`MemoryStream.Write` (the growth rule `2*(pos+len(buf))` always leaves room for the reslice), and the bytes the stream
holds afterwards are exactly the written text of `C06_splice` — the length/capacity arithmetic refines the abstract write. -/
theorem C06_memory_stream (text : Bytes) (ms : List Match) :
    ∃ s', MS.runOps MS.new ((MS.writerCalls text ms).map (fun w => MS.Op.writeAt (w.1 : Int) w.2)) = .ok s' ∧
      s'.contents = writtenText text ms ∧ s'.len ≤ s'.arr.length := by
  obtain ⟨s', h1, h2, h3⟩ := MS.memory_writer_refines text ms
  exact ⟨s', h1, h3, h2.1⟩

/-- … and for a replace command that ran: the stream holds the splice -/
theorem C06_memory_stream_splice (pf vf : Nat) (fn text : Bytes) (amt : Amount) (code : List Instr) (rep : List RInstr)
    (ms : List Match) (h : runCmd pf vf fn text (.replace amt code rep) = some (.ok ms)) :
    ∃ s', MS.runOps MS.new ((MS.writerCalls text ms).map (fun w => MS.Op.writeAt (w.1 : Int) w.2)) = .ok s' ∧
      s'.contents = splice text ms 0 := by
  obtain ⟨s', h1, h2, _⟩ := C06_memory_stream text ms
  exact ⟨s', h1, by rw [h2]; exact C06_splice pf vf fn text amt code rep ms h⟩

/-- no history of `Write`, `Seek` (any whence, failing ones included) and `WriteAt` with non-negative offsets panics -/
theorem C06_memory_stream_total (ops : List MS.Op)
    (hops : ∀ op ∈ ops, match op with | .writeAt off _ => 0 ≤ off | _ => True) :
    ∃ s', MS.runOps MS.new ops = .ok s' :=
  let ⟨s', h, _⟩ := MS.runOps_never_panics ops MS.new MS.inv_new hops
  ⟨s', h⟩

/-- non-vacuity: a write, a seek beyond the end, a write there (the gap reads as zero bytes), an overwrite in the middle -/
example : MS.runOps MS.new [.write [1, 2], .seek 2 2, .write [9], .writeAt 1 [7, 7]] =
    .ok ⟨[1, 7, 7, 0, 9, 0, 0, 0, 0, 0], 5, 3⟩ := by decide

/-- a negative `WriteAt` offset is the one panic there is (`panic(serr)` in `Writer.WriteAt`) -/
example : MS.runOps MS.new [.writeAt (-1) [1]] = .panic "negative result pos" := by decide

/-- NOTHING changes no file -/
theorem C06_mode_nothing (pf vf : Nat) (fs fs' : FileSys) (fn text : Bytes) (c : BCmd) (ms : List Match)
    (h : searchFile pf vf .nothing fs fn text c = some (.ok (ms, fs'))) : fs' = fs := by
  unfold searchFile at h
  split at h <;> (split at h <;> simp at h <;> try exact h.2.symm)

/-- NEW (re)creates only `<file>.vored`, with exactly the splice; every other path, including
the searched file, is untouched -/
theorem C06_mode_new (pf vf : Nat) (fs fs' : FileSys) (fn text : Bytes) (amt : Amount) (code : List Instr)
    (rep : List RInstr) (ms : List Match)
    (h : searchFile pf vf .new fs fn text (.replace amt code rep) = some (.ok (ms, fs'))) :
    fs'.get (fn ++ voredSuffix) = some (splice text ms 0) ∧ ∀ q, q ≠ fn ++ voredSuffix → fs'.get q = fs.get q := by
  unfold searchFile at h
  simp only at h
  split at h <;> simp at h
  next ms' hrun =>
    obtain ⟨rfl, rfl⟩ := h
    rw [← C06_splice pf vf fn text amt code rep ms' hrun]
    exact ⟨FileSys.get_put_same _ _ _, fun q hq => FileSys.get_put_other _ _ _ _ hq⟩

/-- OVERWRITE leaves exactly the splice in the searched file and touches nothing else -/
theorem C06_mode_overwrite (pf vf : Nat) (fs fs' : FileSys) (fn text : Bytes) (amt : Amount) (code : List Instr)
    (rep : List RInstr) (ms : List Match)
    (h : searchFile pf vf .overwrite fs fn text (.replace amt code rep) = some (.ok (ms, fs'))) :
    fs'.get fn = some (splice text ms 0) ∧ ∀ q, q ≠ fn → fs'.get q = fs.get q := by
  unfold searchFile at h
  simp only at h
  split at h <;> simp at h
  next ms' hrun =>
    obtain ⟨rfl, rfl⟩ := h
    rw [← C06_splice pf vf fn text amt code rep ms' hrun]
    exact ⟨FileSys.get_put_same _ _ _, fun q hq => FileSys.get_put_other _ _ _ _ hq⟩

/-- find commands never modify any file, in any mode -/
theorem C06_find_pure (pf vf : Nat) (mode : Mode) (fs fs' : FileSys) (fn text : Bytes) (amt : Amount)
    (code : List Instr) (ms : List Match)
    (h : searchFile pf vf mode fs fn text (.find amt code) = some (.ok (ms, fs'))) : fs' = fs := by
  unfold searchFile at h
  simp only at h
  split at h <;> simp at h
  exact h.2.symm

/-- non-vacuity: shorter, longer and empty replacements -/
example : splice [97, 98, 99, 100] [{ makeMatch 1 1 1 2 { (default : Core) with pos := 2, cur := [98] } with replacement := some [120, 121] }, makeMatch 2 2 1 3 { (default : Core) with pos := 3, cur := [99] }] 0 = [97, 120, 121, 100] := by rfl

/-! ## whole runs: any program over any list of files (`RunFiles`) -/

/-- what one command on one file may change, by mode -/
theorem searchFile_frame (pf vf : Nat) (mode : Mode) (fs fs' : FileSys) (fn text : Bytes) (c : BCmd) (ms : List Match)
    (h : searchFile pf vf mode fs fn text c = some (.ok (ms, fs'))) :
    (mode = .nothing → fs' = fs) ∧ (mode = .new → ∀ q, q ≠ fn ++ voredSuffix → fs'.get q = fs.get q) ∧
    (mode = .overwrite → ∀ q, q ≠ fn → fs'.get q = fs.get q) := by
  unfold searchFile at h
  split at h
  · split at h
    · cases mode <;> simp at h
      · obtain ⟨_, rfl⟩ := h
        exact ⟨by simp, by simp, fun _ q hq => FileSys.get_put_other _ _ _ _ hq⟩
      · obtain ⟨_, rfl⟩ := h
        exact ⟨by simp, fun _ q hq => FileSys.get_put_other _ _ _ _ hq, by simp⟩
      · obtain ⟨_, rfl⟩ := h
        exact ⟨fun _ => rfl, by simp, by simp⟩
    all_goals simp at h
  · split at h <;> simp at h
    obtain ⟨_, rfl⟩ := h
    exact ⟨fun _ => rfl, fun _ _ _ => rfl, fun _ _ _ => rfl⟩

theorem runFilesCmd_frame (pf vf : Nat) (mode : Mode) (c : BCmd) :
    ∀ (files : List Bytes) (fs fs' : FileSys) (ms : List Match),
      runFilesCmd pf vf mode c files fs = some (.ok (ms, fs')) →
      (mode = .nothing → fs' = fs) ∧
      (mode = .new → ∀ q, (∀ f ∈ files, q ≠ f ++ voredSuffix) → fs'.get q = fs.get q) ∧
      (mode = .overwrite → ∀ q, q ∉ files → fs'.get q = fs.get q) := by
  intro files
  induction files with
  | nil =>
    intro fs fs' ms h
    simp only [runFilesCmd, Option.some.injEq, Res.ok.injEq, Prod.mk.injEq] at h
    obtain ⟨_, rfl⟩ := h
    exact ⟨fun _ => rfl, fun _ _ _ => rfl, fun _ _ _ => rfl⟩
  | cons f rest ih =>
    intro fs fs' ms h
    simp only [runFilesCmd] at h
    split at h
    · simp at h
    · next text _ =>
      split at h
      · next ms1 fs1 h1 =>
        split at h <;> simp at h
        next more fs2 h2 =>
          obtain ⟨_, rfl⟩ := h
          have a := searchFile_frame pf vf mode fs fs1 f text c ms1 h1
          have b := ih fs1 fs2 more h2
          refine ⟨fun hm => by rw [b.1 hm, a.1 hm], fun hm q hq => ?_, fun hm q hq => ?_⟩
          · rw [b.2.1 hm q (fun g hg => hq g (List.mem_cons_of_mem _ hg)),
              a.2.1 hm q (hq f (List.mem_cons_self))]
          · rw [b.2.2 hm q (fun hg => hq (List.mem_cons_of_mem _ hg)),
              a.2.2 hm q (fun he => hq (he ▸ List.mem_cons_self))]
      all_goals simp at h

/-- a whole run of any program over any list of files (a path may be listed twice): NOTHING changes no
file; NEW changes nothing except paths `<f>.vored` for listed `f` — in particular a searched file is left
byte-identical unless it is itself the `.vored` of another listed file; OVERWRITE changes nothing except
the listed files -/
theorem C06_run_frame (pf vf : Nat) (mode : Mode) (files : List Bytes) :
    ∀ (cmds : List BCmd) (fs fs' : FileSys) (ms : List Match),
      runFilesL pf vf mode files cmds fs = some (.ok (ms, fs')) →
      (mode = .nothing → fs' = fs) ∧
      (mode = .new → ∀ q, (∀ f ∈ files, q ≠ f ++ voredSuffix) → fs'.get q = fs.get q) ∧
      (mode = .overwrite → ∀ q, q ∉ files → fs'.get q = fs.get q) := by
  intro cmds
  induction cmds with
  | nil =>
    intro fs fs' ms h
    simp only [runFilesL, Option.some.injEq, Res.ok.injEq, Prod.mk.injEq] at h
    obtain ⟨_, rfl⟩ := h
    exact ⟨fun _ => rfl, fun _ _ _ => rfl, fun _ _ _ => rfl⟩
  | cons c cs ih =>
    intro fs fs' ms h
    simp only [runFilesL] at h
    split at h
    · next ms1 fs1 h1 =>
      split at h <;> simp at h
      next more fs2 h2 =>
        obtain ⟨_, rfl⟩ := h
        have a := runFilesCmd_frame pf vf mode c files fs fs1 ms1 h1
        have b := ih fs1 fs2 more h2
        exact ⟨fun hm => by rw [b.1 hm, a.1 hm], fun hm q hq => by rw [b.2.1 hm q hq, a.2.1 hm q hq],
          fun hm q hq => by rw [b.2.2 hm q hq, a.2.2 hm q hq]⟩
    all_goals simp at h

/-- a whole run over a DIRECTORY (every command lists it again, `runFilesDir`): NOTHING changes no file; NEW leaves
every path that is not of the form `<something>.vored` byte-identical — whatever the commands created meanwhile -/
theorem C06_run_dir_frame (pf vf : Nat) (mode : Mode) :
    ∀ (cmds : List BCmd) (fs fs' : FileSys) (ms : List Match),
      runFilesDir pf vf mode cmds fs = some (.ok (ms, fs')) →
      (mode = .nothing → fs' = fs) ∧
      (mode = .new → ∀ q, (∀ f, q ≠ f ++ voredSuffix) → fs'.get q = fs.get q) := by
  intro cmds
  induction cmds with
  | nil =>
    intro fs fs' ms h
    simp only [runFilesDir, Option.some.injEq, Res.ok.injEq, Prod.mk.injEq] at h
    obtain ⟨_, rfl⟩ := h
    exact ⟨fun _ => rfl, fun _ _ _ => rfl⟩
  | cons c cs ih =>
    intro fs fs' ms h
    simp only [runFilesDir] at h
    split at h
    · next ms1 fs1 h1 =>
      split at h <;> simp at h
      next more fs2 h2 =>
        obtain ⟨_, rfl⟩ := h
        have a := runFilesCmd_frame pf vf mode c (listDir fs) fs fs1 ms1 h1
        have b := ih fs1 fs2 more h2
        exact ⟨fun hm => by rw [b.1 hm, a.1 hm],
          fun hm q hq => by rw [b.2 hm q hq, a.2.1 hm q (fun f _ => hq f)]⟩
    all_goals simp at h

/-- the one-file run the correspondence drives is the list run on `[f]` -/
theorem C06_run_single (pf vf : Nat) (mode : Mode) (f : Bytes) :
    ∀ (cmds : List BCmd) (fs : FileSys), runFilesL pf vf mode [f] cmds fs = runFiles pf vf mode f cmds fs := by
  intro cmds
  induction cmds with
  | nil => intro fs; rfl
  | cons c cs ih =>
    intro fs
    simp only [runFilesL, runFiles, runFilesCmd]
    cases hg : fs.get f with
    | none => rfl
    | some text =>
      simp only
      cases hs : searchFile pf vf mode fs f text c with
      | none => rfl
      | some r =>
        cases r with
        | ok p =>
          obtain ⟨ms, fs1⟩ := p
          simp only [List.append_nil]
          rw [ih fs1]
        | panic t => rfl
        | pfuel => rfl

#print axioms C06_splice
#print axioms C06_memory_stream
#print axioms C06_memory_stream_splice
#print axioms C06_memory_stream_total
#print axioms C06_mode_nothing
#print axioms C06_mode_new
#print axioms C06_mode_overwrite
#print axioms C06_find_pure

#print axioms C06_run_frame
#print axioms C06_run_dir_frame
#print axioms C06_run_single

end Vore
