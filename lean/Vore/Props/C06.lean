import Vore.Lemmas.ReplaceSpec
import Vore.Props.C03
/-!
# C06 — Replace output is the exact splice; each mode touches only the file it may

`Spec.splice text ms 0` is the input with every matched span substituted by its replacement and
every other byte kept in order.  No side hypothesis on the matches: they are ordered and in range
by C03.  The file system is abstract (`FileSys`): POSIX semantics of O_TRUNC / seek+write are assumed and
exercised by the correspondence run on a real scratch directory.
-/
namespace Vore
open Vore.Spec

/-- what a replace command writes is the splice, whatever the relative lengths -/
theorem C06_splice (pf vf : Nat) (fn text : Bytes) (amt : Amount) (code : List Instr) (rep : List RInstr)
    (ms : List Match) (h : runCmd pf vf fn text (.replace amt code rep) = some (.ok ms)) :
    writtenText text ms = splice text ms 0 :=
  writtenText_eq_splice text ms (C03_command pf vf fn text _ ms h)

/-- NOTHING changes no file -/
theorem C06_mode_nothing (pf vf : Nat) (fs fs' : FileSys) (fn text : Bytes) (c : BCmd) (ms : List Match)
    (h : searchFile pf vf .nothing fs fn text c = some (.ok (ms, fs'))) : fs' = fs := by
  unfold searchFile at h
  split at h <;> (split at h <;> simp at h <;> try exact h.2.symm)

/-- NEW (re)creates only `<file>.vored`, with exactly the splice; every other path, including
the searched file, is untouched -/
theorem C06_mode_new (pf vf : Nat) (fs fs' : FileSys) (fn text : Bytes) (amt : Amount) (code : List Instr)
    (rep : List RInstr) (ms : List Match)
    (h : searchFile pf vf .new fs fn text (.replace amt code rep) = some (.ok (ms, fs'))) :
    fs'.get (fn ++ voredSuffix) = some (splice text ms 0) ∧ ∀ q, q ≠ fn ++ voredSuffix → fs'.get q = fs.get q := by
  unfold searchFile at h
  simp only at h
  split at h <;> simp at h
  next ms' hrun =>
    obtain ⟨rfl, rfl⟩ := h
    rw [← C06_splice pf vf fn text amt code rep ms' hrun]
    exact ⟨FileSys.get_put_same _ _ _, fun q hq => FileSys.get_put_other _ _ _ _ hq⟩

/-- OVERWRITE leaves exactly the splice in the searched file and touches nothing else -/
theorem C06_mode_overwrite (pf vf : Nat) (fs fs' : FileSys) (fn text : Bytes) (amt : Amount) (code : List Instr)
    (rep : List RInstr) (ms : List Match)
    (h : searchFile pf vf .overwrite fs fn text (.replace amt code rep) = some (.ok (ms, fs'))) :
    fs'.get fn = some (splice text ms 0) ∧ ∀ q, q ≠ fn → fs'.get q = fs.get q := by
  unfold searchFile at h
  simp only at h
  split at h <;> simp at h
  next ms' hrun =>
    obtain ⟨rfl, rfl⟩ := h
    rw [← C06_splice pf vf fn text amt code rep ms' hrun]
    exact ⟨FileSys.get_put_same _ _ _, fun q hq => FileSys.get_put_other _ _ _ _ hq⟩

/-- find commands never modify any file, in any mode -/
theorem C06_find_pure (pf vf : Nat) (mode : Mode) (fs fs' : FileSys) (fn text : Bytes) (amt : Amount)
    (code : List Instr) (ms : List Match)
    (h : searchFile pf vf mode fs fn text (.find amt code) = some (.ok (ms, fs'))) : fs' = fs := by
  unfold searchFile at h
  simp only at h
  split at h <;> simp at h
  exact h.2.symm

/-- non-vacuity: shorter, longer and empty replacements -/
example : splice [97, 98, 99, 100] [{ makeMatch 1 1 1 2 { (default : Core) with pos := 2, cur := [98] } with replacement := some [120, 121] }, makeMatch 2 2 1 3 { (default : Core) with pos := 3, cur := [99] }] 0 = [97, 120, 121, 100] := by rfl

#print axioms C06_splice
#print axioms C06_mode_nothing
#print axioms C06_mode_new
#print axioms C06_mode_overwrite
#print axioms C06_find_pure

end Vore
