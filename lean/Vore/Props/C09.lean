import Vore.Props.C01
import Vore.Props.C10
import Vore.Lemmas.ReplaceSound
import Vore.Props.C03
/-!
# C09 — Running an accepted program never crashes, whatever the input

In the model every Go panic site is an outcome (`Outcome.panic`, `Res.panic`): an instruction fetch
past the end, `ENDVAR`/`RETURN`/`POPLOOPSTACK` on an empty stack, the name check of `ENDVAR`, an
empty `Branch`, the scan's one-byte read, a divide by zero or an undefined operator in process code.
"Never crashes" is therefore the theorem that these outcomes are unreachable.

Proved: for every find command of the call-free fragment, on every input (including the empty
input, end of input inside any construct, empty captures) `findMatches` returns `.ok`, never
`.panic` (`C09_no_panic_callfree`); the empty input and the empty body return `[]` for every program
whatsoever (`C09_empty_input`, `C09_empty_body`).
PARTIAL: subroutine calls and process code (transforms, predicates) are not under a theorem here —
see C12 for type soundness of accepted process code; divide by zero in process code is a recorded
finding.  The correspondence run drives the whole pipeline, files included.
-/
namespace Vore
open Vore.Spec

theorem C09_no_panic_callfree (text : Bytes) (e : Expr) (hcf : CallFree e) (nid : Nat) (hne : codeLen e ≠ 0)
    (pf : Nat) (amt : Amount) :
    ∃ vf0, ∀ vf, vf0 ≤ vf → ∀ t, findMatches pf vf (genCF e 0 nid).1 amt text ≠ some (.panic t) := by
  obtain ⟨A, _, h⟩ := C01_refines_partial text e hcf nid hne
  obtain ⟨vf0, hv⟩ := h pf
  refine ⟨vf0, fun vf hle t => ?_⟩
  rw [hv vf hle amt]
  simp

/-- with subroutines, recursion and global patterns (stage 2): whenever the specification answers, the VM
returns `.ok`; in particular for every program without unguarded recursion whose predicates evaluate
(C10_terminates_guarded_source) there is no panic on any input, under any amount clause -/
theorem C09_no_panic_guarded (G : GEnv) (e : Expr) (r : RExpr) (hr : resolveBody G e = some r)
    (hGw : WfG G) (he : WfE e) (hne : lenR r ≠ 0)
    (pf : Nat) (rk : Nat → Nat) (R : Nat)
    (hG : GuardedP pf (procsOf r) rk R) (hpe : predsOK pf r) (hok : okCalls (procsOf r) rk false R r = true)
    (text : Bytes) (nid : Nat) (amt : Amount) :
    ∃ vf0, ∀ vf, vf0 ≤ vf → ∀ t, findMatches pf vf (genBody r nid).1 amt text ≠ some (.panic t) := by
  obtain ⟨A, vf0, hv⟩ := C10_terminates_guarded_source G e r hr hGw he hne pf rk R hG hpe hok text nid
  refine ⟨vf0, fun vf hle t => ?_⟩
  rw [hv vf hle amt]
  simp

/-- a replacer without transform items never fails: literal strings contribute themselves, names a string
value or nothing — whatever the match and its variables -/
def noProc : List RInstr → Bool
  | [] => true
  | .proc _ :: _ => false
  | _ :: rest => noProc rest

theorem runReplacer_noProc (pf : Nat) (vars : VMap) (m : Match) :
    ∀ (rep : List RInstr) (acc : Option Bytes), noProc rep = true → ∃ r, runReplacer pf vars m rep acc = .ok r := by
  intro rep
  induction rep with
  | nil => intro acc _; exact ⟨acc, rfl⟩
  | cons i rest ih =>
    intro acc h
    cases i with
    | str s => simp only [noProc] at h; simp only [runReplacer, replItem]; exact ih _ h
    | var x =>
      simp only [noProc] at h
      simp only [runReplacer, replItem]
      cases vars.get x with
      | none => exact ih _ h
      | some v =>
        cases v with
        | str s => exact ih _ h
        | map mp => exact ih _ h
    | proc b => simp [noProc] at h

/-- **replace commands**: if the `with` list names no transform, producing the replacements cannot panic,
for any list of matches: together with `C09_no_panic_callfree` / `C09_no_panic_guarded` a replace command fails
only where its search fails; process code (transforms) is C12's subject -/
theorem C09_replacements_never_panic (pf : Nat) (fn : Bytes) (rep : List RInstr) (h : noProc rep = true) (total : Nat) :
    ∀ ms : List Match, ∃ out, replaceAll pf fn rep total ms = .ok out := by
  intro ms
  induction ms with
  | nil => exact ⟨[], rfl⟩
  | cons m rest ih =>
    obtain ⟨r, hr⟩ := runReplacer_noProc pf (replacerVars m total fn) m rep none h
    obtain ⟨out, ho⟩ := ih
    exact ⟨{ m with replacement := r } :: out, by simp only [replaceAll, hr, ho]⟩

/-- every transform of the replacer is accepted by the checker and keeps each variable at one type -/
def procsSound : List RInstr → Prop
  | [] => True
  | .proc body :: rest =>
    (Spec.Typing.SingleTyped Spec.Typing.initEnv body ∧ checkBody .transformation body = true) ∧ procsSound rest
  | _ :: rest => procsSound rest

theorem runReplacer_panic_only_div_zero (pf : Nat) (vars : VMap) (m : Match) :
    ∀ (rep : List RInstr) (acc : Option Bytes) (t : String), procsSound rep →
      runReplacer pf vars m rep acc = .panic t → t = "integer divide by zero" := by
  intro rep
  induction rep with
  | nil => intro acc t _ h; simp [runReplacer] at h
  | cons i rest ih =>
    intro acc t hs h
    cases i with
    | str s => simp only [runReplacer, replItem] at h; exact ih _ t hs h
    | var x =>
      simp only [runReplacer, replItem] at h
      cases hv : vars.get x with
      | none => rw [hv] at h; exact ih _ t hs h
      | some v =>
        rw [hv] at h
        cases v with
        | str s => exact ih _ t hs h
        | map mp => exact ih _ t hs h
    | proc body =>
      simp only [runReplacer] at h
      cases hi : replItem pf vars m (.proc body) with
      | ok r =>
        rw [hi] at h
        cases r with
        | none => exact ih _ t hs.2 h
        | some s => exact ih _ t hs.2 h
      | panic t' =>
        rw [hi] at h
        simp only [Res.panic.injEq] at h
        subst h
        exact replItem_proc_sound pf vars m body hs.1.1 hs.1.2 t' hi
      | pfuel => rw [hi] at h; simp at h

/-- **replace commands with transforms**: when every transform named in the `with` list is accepted by the
checker and keeps each variable at one type (C12's hypothesis), producing the replacements can panic in one way
only — Go's integer division by zero, the recorded finding — whatever the matches and their variables -/
theorem C09_replacements_panic_only_div_zero (pf : Nat) (fn : Bytes) (rep : List RInstr) (hs : procsSound rep)
    (total : Nat) : ∀ (ms : List Match) (t : String), replaceAll pf fn rep total ms = .panic t →
      t = "integer divide by zero" := by
  intro ms
  induction ms with
  | nil => intro t h; simp [replaceAll] at h
  | cons m rest ih =>
    intro t h
    simp only [replaceAll] at h
    cases hr : runReplacer pf (replacerVars m total fn) m rep none with
    | ok r =>
      rw [hr] at h
      cases hrest : replaceAll pf fn rep total rest with
      | ok out => rw [hrest] at h; simp at h
      | panic t' => rw [hrest] at h; simp only [Res.panic.injEq] at h; subst h; exact ih t' hrest
      | pfuel => rw [hrest] at h; simp at h
    | panic t' =>
      rw [hr] at h
      simp only [Res.panic.injEq] at h
      subst h
      exact runReplacer_panic_only_div_zero pf _ m rep none t' hs hr
    | pfuel => rw [hr] at h; simp at h

/-- a whole call-free replace command without transforms returns `.ok` on every input -/
theorem C09_replace_command_no_panic (text : Bytes) (e : Expr) (hcf : CallFree e) (nid : Nat) (hne : codeLen e ≠ 0)
    (pf : Nat) (amt : Amount) (rep : List RInstr) (h : noProc rep = true) (fn : Bytes) :
    ∃ vf0, ∀ vf, vf0 ≤ vf → ∃ out, runCmd pf vf fn text (.replace amt (genCF e 0 nid).1 rep) = some (.ok out) := by
  obtain ⟨A, _, hA⟩ := C01_refines_partial text e hcf nid hne
  obtain ⟨vf0, hv⟩ := hA pf
  refine ⟨vf0, fun vf hle => ?_⟩
  obtain ⟨out, ho⟩ := C09_replacements_never_panic pf fn rep h (window amt A).length (window amt A)
  exact ⟨out, by simp only [runCmd, hv vf hle amt, ho]⟩

/-- the empty input: no match, no crash, for any instruction list -/
theorem C09_empty_input (pf vf : Nat) (prog : List Instr) (amt : Amount) :
    findMatches pf vf prog amt [] = some (.ok []) := by
  simp [findMatches]

/-- the empty body (`find all ()`): no match, no crash, on any input -/
theorem C09_empty_body (pf vf : Nat) (amt : Amount) (text : Bytes) :
    findMatches pf vf [] amt text = some (.ok []) := by
  unfold findMatches
  split <;> simp

/-- a back-reference to an empty capture at end of input succeeds without reading -/
theorem C09_empty_backref_at_eof (text : Bytes) (x : String) (d : Data) (h : d.env.get x = some (.str [])) :
    backrefD text x d = some d := by
  simp [backrefD, h]

#print axioms C09_no_panic_callfree
#print axioms C09_no_panic_guarded
#print axioms C09_replacements_never_panic
#print axioms C09_replace_command_no_panic
#print axioms C09_replacements_panic_only_div_zero
#print axioms C09_empty_input
#print axioms C09_empty_body
#print axioms C09_empty_backref_at_eof

end Vore
