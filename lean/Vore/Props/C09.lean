import Vore.Props.C01
import Vore.Props.C10
import Vore.Props.C03
/-!
# C09 — Running an accepted program never crashes, whatever the input

In the model every Go panic site is an outcome (`Outcome.panic`, `Res.panic`): an instruction fetch
past the end, `ENDVAR`/`RETURN`/`POPLOOPSTACK` on an empty stack, the name check of `ENDVAR`, an
empty `Branch`, the scan's one-byte read, a divide by zero or an undefined operator in process code.
"Never crashes" is therefore the theorem that these outcomes are unreachable.

Proved: for every find command of the call-free fragment, on every input (including the empty
input, end of input inside any construct, empty captures) `findMatches` returns `.ok`, never
`.panic` (`C09_no_panic_callfree`); the empty input and the empty body return `[]` for every program
whatsoever (`C09_empty_input`, `C09_empty_body`).
PARTIAL: subroutine calls and process code (transforms, predicates) are not under a theorem here —
see C12 for type soundness of accepted process code; divide by zero in process code is a recorded
finding.  The correspondence run drives the whole pipeline, files included.
-/
namespace Vore
open Vore.Spec

theorem C09_no_panic_callfree (text : Bytes) (e : Expr) (hcf : CallFree e) (nid : Nat) (hne : codeLen e ≠ 0)
    (pf : Nat) (amt : Amount) :
    ∃ vf0, ∀ vf, vf0 ≤ vf → ∀ t, findMatches pf vf (genCF e 0 nid).1 amt text ≠ some (.panic t) := by
  obtain ⟨A, _, h⟩ := C01_refines_partial text e hcf nid hne
  obtain ⟨vf0, hv⟩ := h pf
  refine ⟨vf0, fun vf hle t => ?_⟩
  rw [hv vf hle amt]
  simp

/-- with subroutines, recursion and global patterns (stage 2): whenever the specification answers, the VM
returns `.ok`; in particular for every program without unguarded recursion whose predicates evaluate
(C10_terminates_guarded_source) there is no panic on any input, under any amount clause -/
theorem C09_no_panic_guarded (G : GEnv) (e : Expr) (r : RExpr) (hr : resolveBody G e = some r)
    (hGw : WfG G) (he : WfE e) (hne : lenR r ≠ 0)
    (pf : Nat) (rk : Nat → Nat) (R : Nat)
    (hG : GuardedP pf (procsOf r) rk R) (hpe : predsOK pf r) (hok : okCalls (procsOf r) rk false R r = true)
    (text : Bytes) (nid : Nat) (amt : Amount) :
    ∃ vf0, ∀ vf, vf0 ≤ vf → ∀ t, findMatches pf vf (genBody r nid).1 amt text ≠ some (.panic t) := by
  obtain ⟨A, vf0, hv⟩ := C10_terminates_guarded_source G e r hr hGw he hne pf rk R hG hpe hok text nid
  refine ⟨vf0, fun vf hle t => ?_⟩
  rw [hv vf hle amt]
  simp

/-- the empty input: no match, no crash, for any instruction list -/
theorem C09_empty_input (pf vf : Nat) (prog : List Instr) (amt : Amount) :
    findMatches pf vf prog amt [] = some (.ok []) := by
  simp [findMatches]

/-- the empty body (`find all ()`): no match, no crash, on any input -/
theorem C09_empty_body (pf vf : Nat) (amt : Amount) (text : Bytes) :
    findMatches pf vf [] amt text = some (.ok []) := by
  unfold findMatches
  split <;> simp

/-- a back-reference to an empty capture at end of input succeeds without reading -/
theorem C09_empty_backref_at_eof (text : Bytes) (x : String) (d : Data) (h : d.env.get x = some (.str [])) :
    backrefD text x d = some d := by
  simp [backrefD, h]

#print axioms C09_no_panic_callfree
#print axioms C09_no_panic_guarded
#print axioms C09_empty_input
#print axioms C09_empty_body
#print axioms C09_empty_backref_at_eof

end Vore
