import Vore.Lemmas.Soundness
/-!
# C12 — Compile rejects exactly the ill-typed process code

* `Vore/Spec/Typing.lean` states the documented typing rules (operator table of
  `Spec/DocOps.lean`, `if` conditions boolean, return type by context, `break`/`continue`
  inside `loop`, variables typed by their last assignment, unknown names strings).
* `checkBody` (`Vore/Model/Check.lean`) is the model of `checkStatement` & co.; its expression
  rules are tied to /repo's current source by the regenerated `goTyping`
  (`C12_checker_is_table`, `C12_table_is_documented`: finite case analysis, re-checked
  whenever `Vore/Extracted.lean` changes).
* `C12_iff`: for every statement tree and both contexts the checker accepts exactly the
  well-typed bodies (structural induction).
* `C12_sound`: accepted code in which every variable keeps one type (`SingleTyped`) never
  reaches the evaluator's undefined-operation panic, for every fuel and every run-time
  environment that agrees with the checker's assumptions; the only panic left is the integer
  division by zero, which typing does not exclude (property C09).
-/
namespace Vore
open Vore.Tables Vore.Extracted Vore.Spec Vore.Spec.Typing

/-- the model's expression and return rules are the regenerated Go tables -/
theorem C12_checker_is_table :
    (∀ l r op, binType l r op = typeFromTable goTyping l r op)
    ∧ (∀ t op, unType t op = unTypeFromTable goTyping t op)
    ∧ (∀ ctx t, retOK ctx t = retFromTable goTyping ctx t) :=
  ⟨binType_eq_table, unType_eq_table, retOK_eq_table⟩

/-- the regenerated Go tables are the documented table: every operator/operand-type
combination, and the return rule of each context -/
theorem C12_table_is_documented :
    (∀ l r op, typeFromTable goTyping l r op = DocOps.binType l r op)
    ∧ (∀ t op, unTypeFromTable goTyping t op = DocOps.unType t op)
    ∧ (∀ ctx t, retFromTable goTyping ctx t = true ↔ returnAllowed ctx t) :=
  ⟨goTyping_bin_documented, goTyping_un_documented, goTyping_ret_documented⟩

/-- accepted ⇔ well typed, for all statement trees, in both contexts -/
theorem C12_iff (ctx : Ctx) (body : Stmt) :
    checkBody ctx body = true ↔ Spec.Typing.wellTyped ctx body :=
  checkBody_iff_wellTyped ctx body

/-- the same for expressions, in any type environment -/
theorem C12_expr_iff (Γ : TEnv) (e : PExpr) (t : PT) :
    typeOf Γ e = some t ↔ Spec.Typing.HasType Γ.get e t :=
  typeOf_iff Γ e t

/-- soundness: accepted single-typed code never evaluates an undefined operation.  The only
panic the evaluator can raise is Go's integer division by zero. -/
theorem C12_sound (ctx : Ctx) (body : Stmt)
    (hsingle : SingleTyped initEnv body) (haccept : checkBody ctx body = true) :
    ∀ (fuel : Nat) (ρ : PEnv) (cur : PVal) (status : PStatus), Agrees ρ initEnv →
      ∀ tag, execTop fuel body { cur := cur, env := ρ, status := status } = .panic tag →
        tag = "integer divide by zero" := by
  intro fuel ρ cur status hρ tag hrun
  obtain ⟨Γ', w⟩ := (C12_iff ctx body).mp haccept
  have hΓ : Γ' = initEnv := wt_single_env ctx w hsingle
  subst hΓ
  have := execTop_sound ctx fuel body false _ w hsingle { cur := cur, env := ρ, status := status } hρ
  rw [hrun] at this
  exact this

/-- … in particular none of the three `SHOULDN'T GET HERE (…)` panics of `executeBinaryExpr` -/
theorem C12_sound_undefined (ctx : Ctx) (body : Stmt)
    (hsingle : SingleTyped initEnv body) (haccept : checkBody ctx body = true)
    (fuel : Nat) (ρ : PEnv) (cur : PVal) (status : PStatus) (hρ : Agrees ρ initEnv) (t : PT) :
    execTop fuel body { cur := cur, env := ρ, status := status } ≠ .panic (undefinedTag t) := by
  intro h
  have := C12_sound ctx body hsingle haccept fuel ρ cur status hρ _ h
  cases t <;> simp [undefinedTag] at this

/-- … and `runProcess` (what the VM and the replacer call) never reports one -/
theorem C12_sound_runProcess (ctx : Ctx) (body : Stmt)
    (hsingle : SingleTyped initEnv body) (haccept : checkBody ctx body = true)
    (fuel : Nat) (ρ : PEnv) (hρ : Agrees ρ initEnv) (tag : String)
    (h : runProcess fuel body ρ = .error tag) : tag = "integer divide by zero" := by
  unfold runProcess at h
  cases hr : execTop fuel body { cur := .str [], env := ρ, status := .next } with
  | ok s => rw [hr] at h; simp at h
  | fuel => rw [hr] at h; simp at h
  | panic t =>
    rw [hr] at h
    simp only [Except.error.injEq] at h
    subst h
    exact C12_sound ctx body hsingle haccept fuel ρ (.str []) .next hρ t hr

/-- a run-time environment agrees with the checker's assumptions when `matchLength` is a
number and no variable is a boolean (captures and `match` are strings, `matchNumber` and
`matchLength` numbers: the environments `matchEndSubroutine` and `executeReplaceProcess`
build) -/
theorem C12_agrees_of_no_bool (ρ : PEnv) (hlen : (lookup ρ "matchLength").type = .number)
    (hnb : ∀ x, (lookup ρ x).type ≠ .boolean) : Agrees ρ initEnv := by
  intro x
  unfold initEnv
  by_cases hx : x = "matchLength"
  · subst hx; simp only [if_true]; exact Or.inl hlen
  · simp only [hx, if_false]
    have := hnb x
    cases h : (lookup ρ x).type with
    | string => exact Or.inl rfl
    | number => exact Or.inr ⟨rfl, rfl⟩
    | boolean => exact absurd h this

/-! ## non-vacuity -/

/-- a transform that the checker accepts, in which every variable keeps one type:
`set acc to acc + match  if matchLength > 1 then loop break end end  return matchNumber + 1 * 2` -/
def exampleBody : Stmt :=
  .seq (.set "acc" (.bin .plus (.var "acc") (.var "match")))
    (.seq (.ite (.bin .greater (.var "matchLength") (.num 1)) (.seq (.loop (.seq .brk .skip)) .skip) .skip)
      (.seq (.ret (.bin .plus (.var "matchNumber") (.bin .mult (.num 1) (.num 2)))) .skip))

/-- the environment of `executeReplaceProcess` for a match `ab`, number 3, one capture -/
def exampleEnv : PEnv :=
  [("v", .str [97]), ("match", .str [97, 98]), ("matchLength", .num 2), ("matchNumber", .num 3)]

theorem exampleBody_accepted : checkBody .transformation exampleBody = true := by decide

theorem exampleBody_single : SingleTyped initEnv exampleBody := by
  refine ⟨?_, by simp [SingleTyped]⟩
  exact .bin (.var "acc") (.var "match") (by simp [initEnv]; rfl)

theorem exampleEnv_agrees : Agrees exampleEnv initEnv := by
  apply C12_agrees_of_no_bool
  · rfl
  · intro x
    unfold lookup PEnv.get exampleEnv
    by_cases h1 : x = "v"
    · subst h1; simp [List.find?, PVal.type]
    · by_cases h2 : x = "match"
      · subst h2; simp [List.find?, PVal.type]
      · by_cases h3 : x = "matchLength"
        · subst h3; simp [List.find?, PVal.type]
        · by_cases h4 : x = "matchNumber"
          · subst h4; simp [List.find?, PVal.type]
          · have e1 : ("v" == x) = false := by simp [Ne.symm h1]
            have e2 : ("match" == x) = false := by simp [Ne.symm h2]
            have e3 : ("matchLength" == x) = false := by simp [Ne.symm h3]
            have e4 : ("matchNumber" == x) = false := by simp [Ne.symm h4]
            simp [List.find?, e1, e2, e3, e4, PVal.type]

/-- the hypotheses of `C12_sound` are satisfiable, and the run returns a value -/
example : SingleTyped initEnv exampleBody ∧ checkBody .transformation exampleBody = true
    ∧ Agrees exampleEnv initEnv
    ∧ runProcess 10 exampleBody exampleEnv = .ok (some (.num 5)) :=
  ⟨exampleBody_single, exampleBody_accepted, exampleEnv_agrees, by
    simp [runProcess, execTop, execStmt, evalExpr, exampleBody, exampleEnv, PEnv.get, PEnv.put, List.find?]
    rfl⟩

/-- `C12_iff`, both directions inhabited: an accepted and a rejected body -/
example : Spec.Typing.wellTyped .transformation exampleBody :=
  (C12_iff _ _).mp exampleBody_accepted
example : ¬ Spec.Typing.wellTyped .predicate (.seq (.ret (.bin .plus (.bool true) (.bool true))) .skip) :=
  fun h => by have := (C12_iff _ _).mpr h; revert this; decide
example : ¬ Spec.Typing.wellTyped .predicate (.seq .brk .skip) :=
  fun h => by have := (C12_iff _ _).mpr h; revert this; decide

/-- division by zero is NOT excluded by typing: accepted, single-typed, and it panics -/
example : checkBody .transformation (.seq (.ret (.bin .div (.num 1) (.num 0))) .skip) = true
    ∧ runProcess 1 (.seq (.ret (.bin .div (.num 1) (.num 0))) .skip) [] = .error "integer divide by zero" :=
  ⟨by decide, by simp [runProcess, execTop, execStmt, evalExpr]; rfl⟩

/-- outside `SingleTyped` the conclusion fails: `x` is a string when the branch is not taken -/
example : checkBody .predicate
      (.seq (.ite (.bin .dequal (.var "match") (.str [97])) (.seq (.set "x" (.bool true)) .skip) .skip)
        (.seq (.ret (.bin .and (.var "x") (.bool true))) .skip)) = true
    ∧ runProcess 5
      (.seq (.ite (.bin .dequal (.var "match") (.str [97])) (.seq (.set "x" (.bool true)) .skip) .skip)
        (.seq (.ret (.bin .and (.var "x") (.bool true))) .skip))
      [("match", .str [98]), ("matchLength", .num 1)] = .error "SHOULDN'T GET HERE (string)" :=
  ⟨by decide, by simp [runProcess, execTop, execStmt, evalExpr, PEnv.get, List.find?]; rfl⟩

end Vore

#print axioms Vore.C12_checker_is_table
#print axioms Vore.C12_table_is_documented
#print axioms Vore.C12_iff
#print axioms Vore.C12_expr_iff
#print axioms Vore.C12_sound
#print axioms Vore.C12_sound_undefined
#print axioms Vore.C12_sound_runProcess
#print axioms Vore.C12_agrees_of_no_bool
