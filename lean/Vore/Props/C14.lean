import Vore.Lemmas.RegexParse
import Vore.Lemmas.RegexTotal
import Vore.Lemmas.RegexSem
import Vore.Props.C01
/-!
# C14 — A regex literal finds what that regular expression finds

`Re` (Vore/Spec/Regex.lean) is the supported subset: literal characters, `.`, bracket classes with
ranges and negation, `\d \D \s \S`, groups plain / non-capturing / named, quantifiers
`* + ? {m} {m,} {m,n}` and their lazy forms, alternation of single (possibly quantified) atoms or
groups, `^ $` as line anchors, numbered and named back-references.  `Re.show` is its conventional
concrete syntax, `Re.toExpr` the vore tree the documented Regex-to-Vore table assigns to it,
`Regex.findAll` what a conventional leftmost-first backtracking engine finds, scanning as the
property says (non-empty matches, position by position).

* `C14_parse` — for **every** regex of the subset the model of `parser_regexp.go` reads the printed
  regex back as exactly the documented tree (induction on the regex; all fuel and all contexts
  handled in `Lemmas/RegexParse.lean`).  In particular the sub-parser accepts every regex of the subset.
* `C14_total` — on **every** byte string the regex parser answers `ok` or `error`: below the
  `recover` of `parse_regexp` it never runs out of fuel (`parseRaw_ne_fuel`: the recursion always
  continues on a strictly shorter suffix — termination of the Go code), and the `recover` turns
  every index-out-of-range / explicit panic into a ParseError.  This is the regex half of C08.
* `C14_sem` — for every regex of the subset whose repeated bodies cannot match the empty
  string and every text without `\r` and `\f`: the backtracking specification of the translated
  tree (`Spec.findAll`, the one C01 proves the VM implements) reports the same non-empty spans in
  the same order with the same group texts as the conventional semantics.  Induction on the regex
  relating `Spec.m` to `Regex.m` (`Lemmas/RegexSem.lean`); vore's loop rule (optional iterations
  must consume, mandatory copies unrolled, the head visited once more at `max`) meets the textbook
  rule exactly under `NonNullableBodies`.
  `\D` is included: before fix f73d71e `not digit` succeeded without consuming at the end of the text
  (`@/a\D/` matched `a` in `"a"`) and the statement was false for it; with the fix, and the shared atom
  `Spec.rangeLoopD` changed with it, `digitD_one` (Lemmas/RegexSem.lean) holds for both polarities and
  `C14_sem` is the full statement `C14_sem_statement`.
* `C14_callfree`, `C14_vm_partial`, `C14_find_command_partial` — the translated tree is call-free, so
  `C01_refines_partial` applies: the VM on the generated code of `find all @/re/` returns the matches
  of the conventional semantics, under every amount clause, and terminates.
-/
namespace Vore
open Vore.Regex Vore.RegexParser Vore.Spec Vore.Rx

/-! ## the parser -/

/-- the regex parser reads a printed regex of the subset back as its documented translation; the
group counter may start anywhere (second literal of a program) -/
theorem C14_parse_from (r : Re) (n0 n' : Nat) (hseq : r.isSeq = true) (hsup : r.sup = true)
    (hnum : r.numFrom n0 = some n') : RegexParser.parseFrom n0 r.show = .ok (r.toExpr, n') := by
  have h := (parse_all r hsup).2.2.2 hseq n0 n' (fuelFor r.show) [] hnum rfl (by unfold fuelFor; omega)
  simp only [List.append_nil] at h
  simp [parseFrom, parseRaw, h]

/-- **C14_parse**: `RegexParser.parse (Re.show r) = ok (Re.toExpr r)` for every regex of the subset -/
theorem C14_parse (r : Re) (h : Supported r) : RegexParser.parse r.show = .ok r.toExpr := by
  obtain ⟨hseq, hsup, hnum⟩ := h
  obtain ⟨n', hn'⟩ := Option.isSome_iff_exists.mp hnum
  simp [RegexParser.parse, C14_parse_from r 0 n' hseq hsup hn']

/-- **C14_total** (regex half of C08): on any byte string, with any starting group number, the regex
parser returns a tree or a ParseError — it never runs out of fuel and, above the `recover`, never panics -/
theorem C14_total (p : Bytes) (n0 : Nat) :
    (∃ e n, RegexParser.parseFrom n0 p = .ok (e, n)) ∨ (∃ msg, RegexParser.parseFrom n0 p = .error msg) := by
  have hnf := parseRaw_ne_fuel n0 p
  unfold parseFrom
  cases h : parseRaw n0 p with
  | ok v => obtain ⟨e, _, n⟩ := v; exact Or.inl ⟨e, n, rfl⟩
  | error m => exact Or.inr ⟨m, rfl⟩
  | panic w => exact Or.inr ⟨_, rfl⟩
  | fuel => exact absurd h hnf

theorem C14_total_first (p : Bytes) :
    (∃ e, RegexParser.parse p = .ok e) ∨ (∃ msg, RegexParser.parse p = .error msg) := by
  unfold RegexParser.parse
  rcases C14_total p 0 with ⟨e, n, h⟩ | ⟨m, h⟩
  · exact Or.inl ⟨e, by rw [h]⟩
  · exact Or.inr ⟨m, by rw [h]⟩

/-! ## the meaning -/

theorem semOK_of : ∀ r : Re, r.sup = true → r.nnb = true → r.semOK = true := by
  intro r
  induction r with
  | seq a b iha ihb =>
    intro hs hn
    simp only [Re.sup, Bool.and_eq_true] at hs
    simp only [Re.nnb, Bool.and_eq_true] at hn
    simp [Re.semOK, iha hs.1.1.2 hn.1, ihb hs.1.2 hn.2]
  | alt a b iha ihb =>
    intro hs hn
    simp only [Re.sup, Bool.and_eq_true] at hs
    simp only [Re.nnb, Bool.and_eq_true] at hn
    simp [Re.semOK, iha hs.1.2 hn.1, ihb hs.2 hn.2]
  | cls neg items =>
    intro hs _
    simp only [Re.sup, Bool.and_eq_true] at hs
    simp [Re.semOK, hs.1]
  | group n r ih =>
    intro hs hn
    simp only [Re.sup, Bool.and_eq_true] at hs
    exact ih hs.2 hn
  | ncgroup r ih =>
    intro hs hn
    simp only [Re.sup, Bool.and_eq_true] at hs
    exact ih hs.2 hn
  | named nm r ih =>
    intro hs hn
    simp only [Re.sup, Bool.and_eq_true] at hs
    exact ih hs.2 hn
  | rep r q lz ih =>
    intro hs hn
    simp only [Re.sup, Bool.and_eq_true] at hs
    simp only [Re.nnb, Bool.and_eq_true] at hn
    have hq : q.wf = true := by
      cases q <;> simp_all [Quant.wf, Quant.ok]
    simp [Re.semOK, ih hs.1.2 hn.1, hq, hn.2]
  | _ => intro _ _; rfl

/-- **C14_sem**, the statement -/
def C14_sem_statement : Prop :=
  ∀ (r : Re) (text : Bytes), Supported r → NonNullableBodies r → TextOK text →
    (Spec.findAll text r.toExpr).map (List.map spanOfMatch) = Regex.findAll r text

/-- **C14_sem**: same non-empty spans, in the same order, groups bound to the same text —
for every regex of the subset whose repeated bodies cannot match the empty string and
every text without `\r` and `\f` -/
theorem C14_sem (r : Re) (text : Bytes) (hs : Supported r) (hn : NonNullableBodies r)
    (ht : TextOK text) :
    (Spec.findAll text r.toExpr).map (List.map spanOfMatch) = Regex.findAll r text :=
  findAll_sim ht r (semOK_of r hs.2.1 hn)

/-- **C14_callfree**: the translation of a regex of the subset is call-free -/
theorem C14_callfree : ∀ r : Re, r.sup = true → CallFree r.toExpr := by
  intro r
  induction r with
  | seq a b iha ihb =>
    intro h; simp only [Re.sup, Bool.and_eq_true] at h
    exact ⟨iha h.1.1.2, ihb h.1.2⟩
  | alt a b iha ihb =>
    intro h; simp only [Re.sup, Bool.and_eq_true] at h
    exact ⟨⟨iha h.1.2, trivial⟩, ihb h.2⟩
  | cls neg items =>
    intro h
    simp only [Re.sup, Bool.and_eq_true, Bool.not_eq_true', List.isEmpty_eq_false_iff] at h
    simp only [Re.toExpr, CallFree]
    exact Or.inr (by simpa using h.1)
  | group n r ih => intro h; simp only [Re.sup, Bool.and_eq_true] at h; exact ⟨ih h.2, trivial⟩
  | ncgroup r ih => intro h; simp only [Re.sup, Bool.and_eq_true] at h; exact ih h.2
  | named nm r ih => intro h; simp only [Re.sup, Bool.and_eq_true] at h; exact ⟨ih h.2, trivial⟩
  | rep r q lz ih => intro h; simp only [Re.sup, Bool.and_eq_true] at h; exact ⟨rfl, ih h.1.2⟩
  | _ => intro _; simp [Re.toExpr, CallFree]

/-- the conventional semantics never diverges on the property's domain -/
theorem C14_regex_total (r : Re) (text : Bytes) (hs : Supported r) (hn : NonNullableBodies r)
    (ht : TextOK text) : Regex.findAll r text ≠ none := by
  rw [← C14_sem r text hs hn ht]
  have := findAll_total text r.toExpr (C14_callfree r hs.2.1)
  cases h : Spec.findAll text r.toExpr with
  | none => exact absurd h this
  | some A => simp

/-! ## composed with C01: the VM -/

/-- **C14_vm**: the VM on the code generated for the translated tree returns, under every amount
clause, the window of a match list whose spans and groups are those of the conventional semantics -/
theorem C14_vm_partial (r : Re) (text : Bytes) (hs : Supported r) (hn : NonNullableBodies r)
    (ht : TextOK text) (nid : Nat) (hne : codeLen r.toExpr ≠ 0) :
    ∃ A, Regex.findAll r text = some (A.map spanOfMatch) ∧
      ∀ pf, ∃ vf0, ∀ vf, vf0 ≤ vf → ∀ amt,
        findMatches pf vf (genCF r.toExpr 0 nid).1 amt text = some (.ok (window amt A)) := by
  obtain ⟨A, hA, hrest⟩ := C01_refines_partial text r.toExpr (C14_callfree r hs.2.1) nid hne
  have := C14_sem r text hs hn ht
  rw [hA] at this
  exact ⟨A, this.symm, hrest⟩

/-- the body of `find all @/re/` is the one-element list `[the literal]` -/
theorem attempt_seq_empty (text : Bytes) (lf : Nat) (e : Expr) (pos line col : Nat) :
    Spec.attempt text lf (.seq e .empty) pos line col = Spec.attempt text lf e pos line col := by
  simp only [Spec.attempt, Spec.m]

theorem findAll_seq_empty (text : Bytes) (e : Expr) : Spec.findAll text (.seq e .empty) = Spec.findAll text e := by
  have h : Spec.attempt text (text.length + 2) (.seq e .empty) = Spec.attempt text (text.length + 2) e := by
    funext pos line col; exact attempt_seq_empty text _ e pos line col
  simp only [Spec.findAll, Spec.scanAll, h]

/-- the compiled command `find <amount> @/re/`, run by `runCmd` -/
theorem C14_find_command_partial (r : Re) (text fn : Bytes) (amt : Amount) (hs : Supported r)
    (hn : NonNullableBodies r) (ht : TextOK text) (hne : codeLen r.toExpr ≠ 0)
    (st st' : GenState) (hg : st.globals = []) (c : BCmd)
    (h : genCmd (.find amt (.seq r.toExpr .empty)) st = .ok (c, st')) :
    ∃ A, Regex.findAll r text = some (A.map spanOfMatch) ∧
      ∀ pf, ∃ vf0, ∀ vf, vf0 ≤ vf → runCmd pf vf fn text c = some (.ok (window amt A)) := by
  have hcf : CallFree (.seq r.toExpr .empty) := ⟨C14_callfree r hs.2.1, trivial⟩
  have hcl : codeLen (.seq r.toExpr .empty) ≠ 0 := by simp [codeLen, hne]
  obtain ⟨A, hA, hrest⟩ := C01_find_command text fn amt _ hcf hcl st st' hg c h
  rw [findAll_seq_empty] at hA
  have := C14_sem r text hs hn ht
  rw [hA] at this
  exact ⟨A, this.symm, hrest⟩

/-! ## non-vacuity -/


/-- `(a|[b-d]+)*?x\1` — a quantified group containing an alternation with a quantified arm, lazy, a back-reference -/
def exampleRe : Re :=
  .seq (.rep (.group 1 (.seq (.alt (.chr 97) (.rep (.cls false [.range 98 100]) .plus false)) .empty)) .star true)
    (.seq (.chr 120) (.seq (.backref 1) .empty))

example : Supported exampleRe ∧ NonNullableBodies exampleRe ∧ codeLen exampleRe.toExpr ≠ 0 := by
  decide

/-- its text: `(a|[b-d]+)*?x\1` -/
example : exampleRe.show = [40, 97, 124, 91, 98, 45, 100, 93, 43, 41, 42, 63, 120, 92, 49] := by decide

example : RegexParser.parse [40, 97, 124, 91, 98, 45, 100, 93, 43, 41, 42, 63, 120, 92, 49] = .ok exampleRe.toExpr :=
  C14_parse exampleRe (by decide)

/-- `(?<n>\s{2,3}|^)$\k<n>.` -/
def exampleRe2 : Re :=
  .seq (.named [110] (.seq (.alt (.rep (.space false) (.between 2 3) false) .bol) .empty))
    (.seq .eol (.seq (.backrefNamed [110]) (.seq .dot .empty)))

example : Supported exampleRe2 ∧ NonNullableBodies exampleRe2 := by decide

/-- `"ab x\n  bcdxbcd"` -/
example : TextOK [97, 98, 32, 120, 10, 32, 32, 98, 99, 100, 120, 98, 99, 100] := by unfold TextOK; decide

/-- both outcomes of `C14_total` occur -/
example : ∃ e, RegexParser.parse [97, 123, 50, 44, 125] = .ok e :=   -- `a{2,}`
  ⟨_, C14_parse (.seq (.rep (.chr 97) (.atLeast 2) false) .empty) (by decide)⟩
/-- `a{`: the quantifier parser indexes past the end of the pattern … -/
example : RegexParser.parseRaw 0 [97, 123] = .panic "index" := by
  simp [parseRaw, fuelFor, disj, pattern, literal, finishAtom, quantifier, number, PR.bind]
/-- … and `parse_regexp`'s `recover` makes that a ParseError -/
example : ∃ msg, RegexParser.parse [97, 123] = .error msg :=
  ⟨"Malformed regular expression: " ++ "index", by
    simp [RegexParser.parse, parseFrom, parseRaw, fuelFor, disj, pattern, literal, finishAtom, quantifier, number, PR.bind]⟩

#print axioms C14_parse
#print axioms C14_parse_from
#print axioms C14_total
#print axioms C14_total_first
#print axioms C14_sem
#print axioms C14_callfree
#print axioms C14_regex_total
#print axioms C14_vm_partial
#print axioms C14_find_command_partial

end Vore
