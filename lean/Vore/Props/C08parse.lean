import Vore.Lemmas.ParserFinal
/-!
# C08 (parser part) — the parser is total

Property C08: "Compile returns … either a program and no error, or no program and an error …;
it never panics, never loops forever and never returns a program that contains holes".

Model: `Vore.Parser.parse rx ts` (`Vore/Model/Parser.lean`), the Go functions of
`libvore/ast/parser.go` over `(tokens, index)` with every `tokens[i]` a partial access whose failure
is the outcome `.panic`, and index-driven recursion on a fuel that `parse` instantiates with
`fuelOf ts = 8·|ts| + 16`.  `.fuel` never being returned is the termination claim.

Hypotheses: `EndsEof ts` — the token list is `pre ++ [eof]` with no EOF inside `pre`, which is what
`getTokens` returns (the lexer builder proves it for the lexer model); and the regex sub-parser (the
opaque parameter `rx`) does not panic.

"No holes": the result type `List Cmd` (`Vore/Model/Basic.lean`) has no nil constructor — the places
where the Go code returned a nil node without an error (`parse_at` "named" without a name, the
Pratt parser after an unclosed `(`, `set x to matches` at end of input) are `.error` in the model of
the fixed code, so a successful result is a complete tree by construction.
-/
namespace Vore.Parser
open Vore Vore.Grammar

variable {rx : Bytes → RegexOutcome} {ts : List Token}

/-- **C08, parser.** On every token list the lexer can return, the parser returns a complete tree
(and an index inside the list) or a parse error — never a panic, never out of fuel. -/
theorem C08_parser_total (hrx : ∀ b, rx b ≠ .panic) (h : EndsEof ts) :
    (∃ cmds k, parse rx ts = .ok cmds k ∧ k < ts.length) ∨ (∃ msg idx, parse rx ts = .error msg idx) := by
  have := sim_good (parse_agree hrx h)
  cases hp : parse rx ts with
  | ok cs k => rw [hp] at this; exact Or.inl ⟨cs, k, rfl, this.2⟩
  | error m a => exact Or.inr ⟨m, a, rfl⟩
  | panic => rw [hp] at this; exact absurd this (by simp [Good])
  | fuel => rw [hp] at this; exact absurd this (by simp [Good])

theorem C08_parser_never_panics (hrx : ∀ b, rx b ≠ .panic) (h : EndsEof ts) :
    parse rx ts ≠ .panic ∧ parse rx ts ≠ .fuel ∧ compileFront rx ts ≠ .panic ∧ compileFront rx ts ≠ .fuel := by
  rcases C08_parser_total hrx h with ⟨cs, k, hp, _⟩ | ⟨m, a, hp⟩ <;> simp [compileFront, hp]

/-! ### per region: every function, started at a significant token inside the list with the fuel
`parse` hands out, neither panics nor runs out of fuel, strictly advances on success and never
steps past the final EOF -/

/-- amounts (`parse_amount`) -/
theorem C08_amount (h : EndsEof ts) {i : Nat} (hi : i < ts.length) : Good ts i (parseAmount ts i) :=
  sim_good (parseAmount_sim h hi)

/-- search expressions (`parse_expression` and the eleven functions it is mutually recursive with) -/
theorem C08_expression (hrx : ∀ b, rx b ≠ .panic) (h : EndsEof ts) {i : Nat} {t : Token}
    (htk : tk ts i = some t) (hs : ignorable t.kind = false) :
    Good ts (i + 1) (parseExpression rx ts (fuelOf ts) i) :=
  sim_good ((expr_sim hrx h (fuelOf ts)).expr i t htk hs (by have := lt_of_tk htk; unfold fuelOf; omega))

/-- expression lists (bodies of `find`, `replace`, `set … to pattern`, `( … )`, `{ … }`) -/
theorem C08_exprList (hrx : ∀ b, rx b ≠ .panic) (h : EndsEof ts) (stop : Tok → Bool) {i : Nat}
    (hi : i < ts.length) : Good ts i (exprList rx ts stop (fuelOf ts) i) :=
  sim_good ((expr_sim hrx h (fuelOf ts)).list stop i hi (by unfold fuelOf; omega))

/-- the Pratt parser (`parse_expr_pratt`), on EVERY token list -/
theorem C08_pratt (l : List STok) : pratt l ≠ .panic ∧ pratt l ≠ .fuel := pratt_total l

/-- process expressions (`parse_process_expression`, `getProcessExpressionTokens`) -/
theorem C08_processExpression (h : EndsEof ts) {i : Nat} (hi : i < ts.length) :
    Good ts i (parseProcessExpression ts i) :=
  sim_good (parseProcessExpression_sim h hi)

/-- process statements (`parse_process_statements`, `_statement`, `_if`, `_loop`, `_set`, `_return`, `_debug`) -/
theorem C08_statements (h : EndsEof ts) {i : Nat} (hi : i < ts.length) :
    parseStatements ts (fuelOf ts) i ≠ .panic ∧ parseStatements ts (fuelOf ts) i ≠ .fuel ∧
    ∀ s k, parseStatements ts (fuelOf ts) i = .ok s k → k < ts.length := by
  have := (stmt_sim h (fuelOf ts)).stmts i hi (by unfold fuelOf; omega)
  cases hp : parseStatements ts (fuelOf ts) i with
  | ok s k =>
    rw [hp] at this
    refine ⟨by simp, by simp, ?_⟩
    intro s' k' he; cases he
    cases hg : pStatements (fuelOf ts) (strip (ts.drop i)) with
    | ok v r => rw [hg] at this; exact this.2.2.2.1
    | err => rw [hg] at this; obtain ⟨t, h1, _⟩ := this; exact lt_of_tk h1
    | fuel => rw [hg] at this; simp [SimSt] at this
  | error m a => simp
  | panic => rw [hp] at this; cases hg : pStatements (fuelOf ts) (strip (ts.drop i)) <;> simp [SimSt] at this
  | fuel => rw [hp] at this; cases hg : pStatements (fuelOf ts) (strip (ts.drop i)) <;> simp [SimSt] at this

/-- commands (`parse_command`, `parse_find`, `parse_replace`, `parse_set*`) -/
theorem C08_command (hrx : ∀ b, rx b ≠ .panic) (h : EndsEof ts) {i : Nat} {t : Token}
    (htk : tk ts i = some t) (hs : ignorable t.kind = false) :
    parseCommand rx ts (fuelOf ts) (fuelOf ts) i ≠ .panic ∧ parseCommand rx ts (fuelOf ts) (fuelOf ts) i ≠ .fuel ∧
    ∀ c k, parseCommand rx ts (fuelOf ts) (fuelOf ts) i = .ok (some c) k → i < k ∧ k < ts.length := by
  have hi := lt_of_tk htk
  have := (cmd_sim hrx h (F := fuelOf ts) (by unfold fuelOf; omega) (fuelOf ts)).cmd i t htk hs
    (by unfold fuelOf; omega)
  generalize parseCommand rx ts (fuelOf ts) (fuelOf ts) i = r at this ⊢
  generalize pCommand rx (fuelOf ts) (fuelOf ts) (strip (ts.drop i)) = g at this
  cases r with
  | ok oc k =>
    refine ⟨by simp, by simp, ?_⟩
    intro c k' he; cases he
    cases g with
    | ok oc' r' => cases oc' <;> simp_all [SimC]
    | err => simp [SimC] at this
    | fuel => simp [SimC] at this
  | error m a => simp
  | panic => cases g <;> simp [SimC] at this
  | fuel => cases g <;> simp [SimC] at this

/-! ### non-vacuity: the hypotheses are satisfiable and the parser accepts / rejects concrete inputs -/

def exTok (k : Tok) (lex : Bytes := []) : Token := { kind := k, lexeme := lex }

/-- `find all 'a'` -/
def exTokens : List Token :=
  [exTok .find, exTok .ws, exTok .all, exTok .ws, exTok .string [97], exTok .eof]

example : EndsEof exTokens :=
  ⟨[exTok .find, exTok .ws, exTok .all, exTok .ws, exTok .string [97]], exTok .eof, rfl, rfl, by decide⟩

example : ∀ b, (fun _ : Bytes => RegexOutcome.error) b ≠ .panic := by intro b; simp

/-- evaluated by the kernel (`decide +kernel`: plain kernel reduction, no extra axiom) -/
theorem C08_example_accepts :
    (match parse (fun _ => .error) exTokens with | .ok [Cmd.find _ _] 5 => true | _ => false) = true := by
  decide +kernel

/-- `find all at` then end of input: an error, not a panic -/
theorem C08_example_rejects :
    (match parse (fun _ => .error) [exTok .find, exTok .ws, exTok .all, exTok .ws, exTok .at, exTok .eof] with
      | .error _ 5 => true | _ => false) = true := by decide +kernel

end Vore.Parser

#print axioms Vore.Parser.C08_parser_total
#print axioms Vore.Parser.C08_parser_never_panics
#print axioms Vore.Parser.C08_amount
#print axioms Vore.Parser.C08_expression
#print axioms Vore.Parser.C08_exprList
#print axioms Vore.Parser.C08_pratt
#print axioms Vore.Parser.C08_processExpression
#print axioms Vore.Parser.C08_statements
#print axioms Vore.Parser.C08_command
#print axioms Vore.Parser.C08_example_accepts
#print axioms Vore.Parser.C08_example_rejects
