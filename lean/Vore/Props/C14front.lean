import Vore.Props.C14
import Vore.Props.C08parse
/-!
# C14 / C08 — the regex sub-parser plugged into the parser model

`Vore.Parser.parse rx ts` (Vore/Model/Parser.lean) takes the regex sub-parser as the parameter
`rx : Bytes → RegexOutcome`, and `C08_parser_total` assumes `∀ b, rx b ≠ .panic`.
`RegexParser.parseFrom n0` (Vore/Model/RegexParser.lean) discharges that assumption for every
starting value `n0` of the group counter (`C14_total`), which closes the regex half of C08:
the front end of the model — parser with the modelled regex sub-parser — answers with a complete
tree or a ParseError on every token list the lexer can return.

(`rx` is a function of the lexeme alone, so the instance below numbers the groups of every literal
from the same `n0`; group numbers across several literals of one program are compared on the real
code by the correspondence runs of C08 and C14, not here.  Totality does not depend on the counter.)
-/
namespace Vore
open Vore.RegexParser

/-- the modelled regex sub-parser as the parameter `rx` of the parser model -/
def rxOfModel (n0 : Nat) (p : Bytes) : Parser.RegexOutcome :=
  match RegexParser.parseFrom n0 p with
  | .ok (e, _) => .ok e
  | .error _ => .error
  | .panic _ => .panic
  | .fuel => .panic

theorem C14_rx_never_panics (n0 : Nat) : ∀ b, rxOfModel n0 b ≠ .panic := by
  intro b
  unfold rxOfModel
  rcases C14_total b n0 with ⟨e, n, h⟩ | ⟨m, h⟩ <;> simp [h]

/-- **C08, front end of the model complete**: parser + regex sub-parser are total -/
theorem C14_front_total (n0 : Nat) {ts : List Token} (h : Parser.EndsEof ts) :
    (∃ cmds k, Parser.parse (rxOfModel n0) ts = .ok cmds k ∧ k < ts.length) ∨
    (∃ msg idx, Parser.parse (rxOfModel n0) ts = .error msg idx) :=
  Parser.C08_parser_total (C14_rx_never_panics n0) h

#print axioms C14_rx_never_panics
#print axioms C14_front_total

end Vore
