import Vore.Lemmas.ReplaceSpec
/-!
# C05 — A replacement is the concatenation of its `with` items for that match

`Spec.replacement` (Vore/Spec/Replace.lean) is written against one match record and the `with`
list: strings contribute themselves; a name defined as a transform contributes the transform's
result run on *that* match; any other name contributes a built-in or a string capture of *that*
match, or nothing; the replacement is absent iff nothing contributed.
-/
namespace Vore
open Vore.Spec

/-- every match of a replace command carries exactly `Spec.replacement` of itself -/
theorem C05_replacement (pf : Nat) (st : GenState) (fn : Bytes) (items : List RAtom) (total : Nat) :
    ∀ (ms out : List Match), replaceAll pf fn (items.map (genReplacer st)) total ms = .ok out →
      ListRel (fun m o => ∃ r, replacement pf st.transforms m total fn items none = .ok r ∧
        o = { m with replacement := r }) ms out := by
  intro ms
  induction ms with
  | nil => intro out h; rw [replaceAll] at h; cases h; exact .nil
  | cons m rest ih =>
    intro out h
    rw [replaceAll, runReplacer_eq] at h
    split at h
    · next r hr =>
      split at h
      · next rest' hrest =>
        simp only [Res.ok.injEq] at h; subst h
        exact .cons ⟨r, hr, rfl⟩ (ih rest' hrest)
      · cases h
      · cases h
    · cases h
    · cases h

/-- matches, offsets and variables are those of the find command with the same body and amount -/
theorem C05_same_matches (pf vf : Nat) (fn : Bytes) (code : List Instr) (rep : List RInstr) (amt : Amount)
    (text : Bytes) (A R : List Match)
    (hfind : runCmd pf vf fn text (.find amt code) = some (.ok A))
    (hrep : runCmd pf vf fn text (.replace amt code rep) = some (.ok R)) :
    R.map eraseRepl = A.map eraseRepl := by
  simp only [runCmd] at hfind hrep
  rw [hfind] at hrep
  simp only [Option.some.injEq] at hrep
  exact replaceAll_fields pf fn rep _ _ R hrep

/-- what a name contributes: a built-in shadows a capture; a capture must be a string of this match -/
theorem C05_name_lookup (m : Match) (total : Nat) (fn : Bytes) (x : String) :
    (match (replacerVars m total fn).get x with | some (.str s) => some s | _ => none) = nameText m total fn x :=
  replacerVars_get m total fn x

/-- non-vacuity: `replace all 'a' = x with 'k' x matchNumber` on "a" -/
example : replacement 10 [] (makeMatch 1 0 1 1 { (default : Core) with pos := 1, line := 1, col := 2, cur := [97], env := .cons "x" (.str [97]) .nil }) 1 [116] [.str [107], .var "x", .var "matchNumber", .var "nope"] none = .ok (some [107, 97, 49]) := by rfl

#print axioms C05_replacement
#print axioms C05_same_matches
#print axioms C05_name_lookup

end Vore
