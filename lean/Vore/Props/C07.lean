import Vore.Spec.Files
import Vore.Lemmas.Files
/-!
# C07 — Searching a file gives the same result as searching its bytes in memory

Property theorems only.  Model: `Vore/Model/Files.lean` (`BufferedFile`, `StringRSC`, `Reader`),
of the code after `fixes/C07-emptyfile.diff`, `C07-readeof.diff`, `C07-negseek.diff`.
Lemmas: `Vore/Lemmas/Files.lean` (window invariant `Inv`; `Seek`, the copy loop and the refill
loop under it; simulation `Sim` of the in-memory reader).

All theorems are for **every** file content (the empty file included), **every** buffer size
`B ≥ 1` (Go: 4096), **every** history of `Seek`/`Read`/`ReadAt` calls with arbitrary `Int`
arguments (negative offsets and lengths, reads past the end, `Read` after `Read` with the stale
`Reader.offset` — nothing is excluded), no bound on sizes or on the number of calls.

Assumption (DESIGN §8, stated in Model/Files.lean): `os.File.ReadAt` / the first `os.File.Read`
are the pure functions `osReadAt` / `osReadFirst` of the file contents (regular file, not
modified while open).  The VM model (Model/VM.lean) reads its input only through `Vore.readAt`;
`C07_reader_law` is that contract for the file reader, so every theorem about
`findMatches`/`searchReplace` over `text` is a theorem about `RunFiles` on a file holding `text`.
-/
namespace Vore
open Vore.Files

/-- **The reader contract holds in every reachable state of the file reader.**
`Reader.ReadAt(n, off)` and `Reader.Seek(off); Reader.Read(n)` over a `BufferedFile` return
exactly `readAt file off n` — the `n` bytes of the file at `off`, or `""` when they are not all
there or `n = 0` — whatever calls were made before (window anywhere, cursor anywhere). -/
theorem C07_reader_law (B : Nat) (hB : 1 ≤ B) (file : Bytes) (r : Reader BufferedFile)
    (hr : Reachable B file r) : ReaderLawAt file r := by
  obtain ⟨ops, hops⟩ := hr
  have hinv : RInv B file r := runOps_inv ops _ r (readerFromFile_inv B hB file) hops
  intro n off
  constructor
  · obtain ⟨r', h, _⟩ := readAt_file hinv n off
    exact ⟨r', by simpa [Vore.readAt] using h⟩
  · obtain ⟨r₁, r₂, h1, h2, _, _⟩ := seekRead_file hinv n off
    exact ⟨r₁, r₂, h1, by simpa [Vore.readAt] using h2⟩

/-- non-vacuity: a reachable state whose window has been re-centred (it starts at 5, the cursor
is at 9, the buffer holds stale bytes behind the 4 valid ones) -/
example : ∃ r, Reachable 4 [10, 11, 12, 13, 14, 15, 16, 17, 18, 19] r ∧
    r.contents.minOffset = 5 ∧ r.contents.maxOffset = 9 ∧ r.contents.currentOffset = 9 ∧
    r.contents.buffer = [15, 16, 17, 18] :=
  ⟨_, ⟨[.seek 7, .read 2], rfl⟩, by decide⟩

/-- non-vacuity: and the law's conclusion there is not the trivial one -/
example : Vore.readAt [10, 11, 12, 13, 14, 15, 16, 17, 18, 19] 1 3 = [11, 12, 13] := by decide

/-- **Refinement: a file and a string holding the same bytes are indistinguishable through
`files.Reader`.**  Every history gives the same sequence of observations (returned strings,
panics) on `ReaderFromFile` as on `ReaderFromString` — including the histories that end in a
panic (a negative seek, a read at the end of the input behind a stale bounds check). -/
theorem C07_same_results (B : Nat) (hB : 1 ≤ B) (file : Bytes) : SameObservations B file :=
  fun ops => (runOps_rel ops _ _ (sim_init B hB file)).1

/-- the same for the buffer size of the Go code -/
theorem C07_same_results_4096 (file : Bytes) (ops : List ROp) :
    (runOps (ReaderFromFile file) ops).1 = (runOps (ReaderFromString file) ops).1 :=
  C07_same_results 4096 (by decide) file ops

/-- non-vacuity: a history over a 10-byte file with a 4-byte buffer that reads forward across
three windows, one byte back, far back, up to the end, past the end, and at a negative offset;
the observations are the expected ones (and equal on both sides by the theorem). -/
example :
    (runOps (ReaderFromFileB 4 [10, 11, 12, 13, 14, 15, 16, 17, 18, 19])
      [.readAt 9 0, .seek 8, .read 1, .seek 7, .read 1, .readAt 2 0, .readAt 3 7, .readAt 3 8,
       .read 0, .seek 0, .read 10, .read 1]).1 =
    [.str [10, 11, 12, 13, 14, 15, 16, 17, 18], .str [], .str [18], .str [], .str [17],
     .str [10, 11], .str [17, 18, 19], .str [], .str [], .str [],
     .str [10, 11, 12, 13, 14, 15, 16, 17, 18, 19], .panic (.err .eof)] := by decide

example : (runOps (ReaderFromFileB 4 [1, 2, 3]) [.seek (-2)]).1 = [.panic (.err .negativeSeek)] := by
  decide

/-- non-vacuity: the empty file opens and reads as the empty string -/
example : (runOps (ReaderFromFileB 4 []) [.readAt 1 0, .seek 0, .read 1, .read 0]).1 =
    [.str [], .str [], .str [], .str []] := by decide

/-- **`Read`'s refill loop terminates** in every reachable state, for every request size:
`n + 1` iterations of the outer loop are enough, more fuel changes nothing, the result is
never `spin`. -/
theorem C07_read_terminates (B : Nat) (hB : 1 ≤ B) (file : Bytes) (r : Reader BufferedFile)
    (hr : Reachable B file r) (n fuel : Nat) (hf : n + 1 ≤ fuel) :
    r.contents.ReadFuel fuel n = r.contents.Read n ∧ r.contents.Read n ≠ .spin := by
  obtain ⟨ops, hops⟩ := hr
  exact read_terminates (runOps_inv ops _ r (readerFromFile_inv B hB file) hops).2 n fuel hf

/-- non-vacuity: a read that needs four refills (12 bytes through a 4-byte window; a refill
puts the cursor in the middle of the new window, so each one yields 2 bytes) -/
example : ∃ v out, (NewBufferedFileB 4 [1, 2, 3, 4, 5, 6, 7, 8, 9, 10, 11, 12, 13] 13).Read 12 =
    .ret v out none ∧ out = [1, 2, 3, 4, 5, 6, 7, 8, 9, 10, 11, 12] ∧ v.minOffset = 8 :=
  ⟨_, _, rfl, by decide, by decide⟩

/-- **No history makes the file reader spin or index outside its buffer.** -/
theorem C07_no_spin_no_index_panic (B : Nat) (hB : 1 ≤ B) (file : Bytes) (ops : List ROp) :
    Obs.spin ∉ (runOps (ReaderFromFileB B file) ops).1 ∧
    ∀ i, Obs.panic (.index i) ∉ (runOps (ReaderFromFileB B file) ops).1 := by
  rw [C07_same_results B hB file ops]
  exact runOps_string_clean ops _

#print axioms C07_reader_law
#print axioms C07_same_results
#print axioms C07_same_results_4096
#print axioms C07_read_terminates
#print axioms C07_no_spin_no_index_panic

end Vore
