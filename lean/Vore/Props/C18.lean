import Vore.Lemmas.Cli
/-!
# C18 — The CLI delivers the library's results under every documented flag combination

Property theorems only.  `Cli.run` (Vore/Model/Cli.lean) transcribes `main()`'s decision
sequence; `Cli.spec` (Vore/Spec/CliDoc.lean) is the documented behaviour.  The flag space is
finite, so the central theorem is checked on the WHOLE space — 3 200 flag vectors ×
12 scenarios, `decide +kernel` on the Boolean enumeration `allRuns` (kernel reduction only) —
and then lifted to every acceptable reading of main.go and to arbitrary library results
(`runData`).  The reading of main.go comes from `Vore/CliExtracted.lean`, regenerated from the
current source on every check: `C18_main_go_facts` fails when the `-replace-mode` table, its
default, its usage text, or the `OpenFile` flags stop being the documented ones.

Trusted, only exercised by the exhaustive run of the built binary: `flag` parsing
(`flag.Func` error ⇒ exit 2), `log.Fatal` ⇒ exit 1, `os.Exit`, `os.OpenFile`/`Truncate`/
`WriteString`, and that the library calls return (C09) what C17 says.
-/
namespace Vore.Cli
open Vore.CliExtracted

/-- main.go, as extracted now, is one of the documented readings: `-replace-mode` maps
NEW/NOTHING/OVERWRITE to the engine's modes, rejects anything else, defaults to NEW (and
says so in its usage text); `OpenFile` creates the file and opens it for writing, and the old
content is discarded (`O_TRUNC` or `Truncate`). -/
theorem C18_main_go_facts : goEnv ∈ docEnvs ∧ goModeUsageDefault = "NEW" := by decide

/-- The whole property on the whole space (for the reading with both truncations). -/
theorem C18_spec_enumerated : allRuns (fun fl sc => spec fl sc (run (docEnv true true) fl sc).view) = true := by
  decide +kernel

/-- … hence for every acceptable reading of main.go, every flag vector and every scenario. -/
theorem C18_spec_all (e : Env) (he : e ∈ docEnvs) (fl : Flags) (sc : Scenario) :
    spec fl sc (run e fl sc).view = true := by
  obtain ⟨a, b, rfl, hab⟩ := mem_docEnvs e he
  rw [run_docEnv a b hab]
  exact (allRuns_iff _).mp C18_spec_enumerated fl sc

/-- … in particular for main.go as it is. -/
theorem C18_spec (fl : Flags) (sc : Scenario) : spec fl sc (run goEnv fl sc).view = true :=
  C18_spec_all goEnv C18_main_go_facts.1 fl sc

/-- Valid invocation ⇒ exit 0. -/
theorem C18_valid_exit0 (fl : Flags) (sc : Scenario) (hd : documented fl = true) (hp : sc.prog ≠ .failing) :
    (run goEnv fl sc).exit = .ok := by
  have h := C18_spec fl sc
  have hp' : sc.prog.isFailing = false := by cases hq : sc.prog <;> simp_all [ProgKind.isFailing]
  generalize run goEnv fl sc = o at h ⊢
  obtain ⟨exit, stdout, stderr, jf, fjf, searched⟩ := o
  simp [spec, Outcome.view, hd, hp'] at h
  cases exit <;> simp_all [Exit.isOk]

/-- Invalid combination / unknown mode / compile error ⇒ exit ≠ 0, a message (a message line
on standard output or something on standard error), no file modified. -/
theorem C18_invalid (fl : Flags) (sc : Scenario) (h : documented fl = false ∨ sc.prog = .failing) :
    (run goEnv fl sc).exit ≠ .ok ∧
    ((run goEnv fl sc).stdout.any isMsg = true ∨ (run goEnv fl sc).stderr ≠ .none) ∧
    (run goEnv fl sc).jsonFile.unmodified = true ∧ (run goEnv fl sc).fjsonFile.unmodified = true ∧
    (run goEnv fl sc).searched = .untouched := by
  have hs := C18_spec fl sc
  have hc : (documented fl && !sc.prog.isFailing) = false := by
    cases h with
    | inl h => simp [h]
    | inr h => simp [h, ProgKind.isFailing]
  generalize run goEnv fl sc = o at hs ⊢
  obtain ⟨exit, stdout, stderr, jf, fjf, searched⟩ := o
  simp [spec, Outcome.view, hc] at hs
  obtain ⟨⟨⟨⟨h1, h2⟩, h3⟩, h4⟩, h5⟩ := hs
  refine ⟨?_, ?_, h3, h4, ?_⟩
  · cases exit <;> simp_all [Exit.isOk]
  · cases h2 with
    | inl h2 => left; simpa using h2
    | inr h2 => right; cases stderr <;> simp_all [Stderr.isNone]
  · cases searched <;> simp_all [SearchFs.isUntouched]

/-- Replace commands honour the mode: the mode handed to `RunFiles` is the documented
meaning of the flag, NEW when the flag is absent. -/
theorem C18_mode (fl : Flags) (sc : Scenario) (hd : documented fl = true) (hp : sc.prog ≠ .failing)
    (hf : fl.files ≠ .noneMatching) :
    ∃ m, docMode fl.mode = some m ∧ (run goEnv fl sc).searched = .library m ∧
      (fl.mode = .absent → m = .new) := by
  have h := C18_spec fl sc
  have hp' : sc.prog.isFailing = false := by cases hq : sc.prog <;> simp_all [ProgKind.isFailing]
  have hf' : fl.files.isNoneMatching = false := by cases hq : fl.files <;> simp_all [FileSet.isNoneMatching]
  generalize run goEnv fl sc = o at h ⊢
  obtain ⟨exit, stdout, stderr, jf, fjf, searched⟩ := o
  simp [spec, Outcome.view, hd, hp', hf'] at h
  cases hm : docMode fl.mode with
  | none => simp [hm] at h
  | some m =>
    simp [hm] at h
    refine ⟨m, rfl, ?_, ?_⟩
    · have hr := h.2.1
      cases searched with
      | untouched => simp [SearchFs.ranAs] at hr
      | library m' => cases m' <;> cases m <;> simp_all [SearchFs.ranAs]
    · intro ha; rw [ha] at hm; simp [docMode] at hm; exact hm.symm

/-- The data level: with at least one match, `-json` / `-formatted-json` put exactly one JSON
document — the library's result, nothing before or after it — on standard output, and each
named JSON file holds exactly that document, for results of any type and size, whether or
not the files existed before. -/
theorem C18_json_is_library_result {α : Type} (fl : Flags) (prog : ProgKind) (pre : Bool) (results : List α)
    (hd : documented fl = true) (hp : prog ≠ .failing) (hf : fl.files ≠ .noneMatching)
    (hn : fl.noOutput = false) (hr : results ≠ []) :
    (runData goEnv fl prog pre results).exit = .ok ∧
    (fl.json = true → (runData goEnv fl prog pre results).stdout = [OutData.doc .compact results]) ∧
    (fl.fjson = true → (runData goEnv fl prog pre results).stdout = [OutData.doc .formatted results]) ∧
    (fl.jsonFile = true → (runData goEnv fl prog pre results).jsonFile = FileData.holds .compact results) ∧
    (fl.fjsonFile = true → (runData goEnv fl prog pre results).fjsonFile = FileData.holds .formatted results) := by
  have hlen : (results.length != 0) = true := by
    cases results with
    | nil => exact absurd rfl hr
    | cons a as => simp
  have h := C18_spec fl { prog := prog, hits := true, pre := pre }
  have hp' : prog.isFailing = false := by cases prog <;> simp_all [ProgKind.isFailing]
  have hf' : fl.files.isNoneMatching = false := by cases hq : fl.files <;> simp_all [FileSet.isNoneMatching]
  simp only [runData, hlen]
  generalize run goEnv fl { prog := prog, hits := true, pre := pre } = o at h ⊢
  obtain ⟨exit, stdout, stderr, jf, fjf, searched⟩ := o
  simp [spec, Outcome.view, hd, hp', hf', hn] at h
  obtain ⟨h1, _, ⟨⟨h3, h4⟩, h5⟩, h6⟩ := h
  refine ⟨?_, ?_, ?_, ?_, ?_⟩
  · cases exit <;> simp_all [Exit.isOk]
  · intro hj; simp [hj] at h3
    match stdout, h3 with
    | [.doc .compact], _ => simp [OutItem.fill]
  · intro hj; simp [hj] at h4
    match stdout, h4 with
    | [.doc .formatted], _ => simp [OutItem.fill]
  · intro hj; simp [hj] at h5
    match jf, h5 with
    | .holds .compact, _ => simp [FileState.fill]
  · intro hj; simp [hj] at h6
    match fjf, h6 with
    | .holds .formatted, _ => simp [FileState.fill]

/-- The "There were N matches" line is not printed under `-json` / `-formatted-json`. -/
theorem C18_no_count_line_under_json (fl : Flags) (sc : Scenario) (hd : documented fl = true)
    (hp : sc.prog ≠ .failing) (hf : fl.files ≠ .noneMatching) (hn : fl.noOutput = false) (hh : sc.hits = true)
    (hj : fl.json = true ∨ fl.fjson = true) : OutItem.count ∉ (run goEnv fl sc).stdout := by
  have h := C18_spec fl sc
  have hp' : sc.prog.isFailing = false := by cases hq : sc.prog <;> simp_all [ProgKind.isFailing]
  have hf' : fl.files.isNoneMatching = false := by cases hq : fl.files <;> simp_all [FileSet.isNoneMatching]
  generalize run goEnv fl sc = o at h ⊢
  obtain ⟨exit, stdout, stderr, jf, fjf, searched⟩ := o
  simp [spec, Outcome.view, hd, hp', hf', hn, hh] at h
  obtain ⟨_, _, ⟨⟨h3, h4⟩, _⟩, _⟩ := h
  cases hj with
  | inl hj =>
    simp [hj] at h3
    match stdout, h3 with
    | [.doc .compact], _ => simp
  | inr hj =>
    simp [hj] at h4
    match stdout, h4 with
    | [.doc .formatted], _ => simp

/-! ## non-vacuity -/

/-- `vore -com … -files a.txt -json -json-file out.json` on a find program with matches -/
def C18_sampleFlags : Flags :=
  { com := true, src := false, files := .one, json := true, fjson := false, jsonFile := true, fjsonFile := false,
    mode := .absent, noOutput := false }

example : documented C18_sampleFlags = true ∧ (⟨.find, true, false⟩ : Scenario).prog ≠ .failing := by decide
example : documented { C18_sampleFlags with fjson := true } = false := by decide
example : run goEnv C18_sampleFlags ⟨.find, true, true⟩ =
    { exit := .ok, stdout := [.doc .compact], stderr := .none, jsonFile := .holds .compact, fjsonFile := .notNamed,
      searched := .library .new } := by decide
example : docEnvs ≠ [] := by decide
example : C18_sampleFlags.files ≠ .noneMatching ∧ C18_sampleFlags.noOutput = false ∧ [1] ≠ ([] : List Nat) := by decide
/-- the pinned commit's `OpenFile` (`os.O_CREATE` only: read-only) is *not* a documented reading:
the model then predicts the panic that was observed -/
example : (run { docEnv false true with writable := false } C18_sampleFlags ⟨.find, true, false⟩).exit = .panic := by
  decide

end Vore.Cli

#print axioms Vore.Cli.C18_main_go_facts
#print axioms Vore.Cli.C18_spec_enumerated
#print axioms Vore.Cli.C18_spec_all
#print axioms Vore.Cli.C18_spec
#print axioms Vore.Cli.C18_valid_exit0
#print axioms Vore.Cli.C18_invalid
#print axioms Vore.Cli.C18_mode
#print axioms Vore.Cli.C18_json_is_library_result
#print axioms Vore.Cli.C18_no_count_line_under_json
