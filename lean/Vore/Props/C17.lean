import Vore.Lemmas.JsonWF
/-!
# C17 — JSON output is valid and carries the match data unchanged

Property theorems only.  They are about the JSON *tree* the repo's marshalling code builds
(`Json.ofMatches`, transcribed from `Match.MarshalJSON`, `Range.MarshalJSON`,
`ValueString/ValueHashMap.MarshalJSON`): for **every** list of matches (any length, find or
replace, variables nested to any depth) a reader of that tree gets back exactly the in-memory
matches.  `encoding/json` (escaping, indentation, key order, U+FFFD for invalid UTF-8) is a
parameter (`Codec`) whose contract (`Codec.Faithful`) is assumed here and exercised by the
correspondence run; it is **not** proved.  The compact and the formatted rendering are two
printers applied to the same tree.
-/
namespace Vore
open Json

/-- Decoding the tree of any result list gives back the list: one object per match, every
member (filename, matchNumber, offset, line, column, value, replacement, variables — nested
maps to any depth) equal to the in-memory match.  No hypothesis. -/
theorem C17_tree (ms : List FileMatch) : decodeMatches (ofMatches ms) = some ms := by
  simp [ofMatches, decodeMatches, Json.decodeList_ofList]

/-- The `replacement` member is present iff the match has a replacement (replace commands),
and then it is that string. -/
theorem C17_replacement_key (fm : FileMatch) :
    ((ofMatch fm).member? "replacement").isSome = fm.m.replacement.isSome ∧
    (ofMatch fm).member? "replacement" = fm.m.replacement.map Json.str := by
  rw [Json.replacement_member]; cases fm.m.replacement <;> simp

/-- A match object has exactly the documented members, in the order of the assignments in
`Match.MarshalJSON` (`encoding/json` prints a map's keys sorted; the tree does not care). -/
theorem C17_members (fm : FileMatch) :
    (matchFields fm).keys =
      if fm.m.replacement.isSome then
        ["filename", "matchNumber", "offset", "line", "column", "value", "replacement", "variables"]
      else ["filename", "matchNumber", "offset", "line", "column", "value", "variables"] := by
  rw [Json.matchFields_eq]; cases fm.m.replacement <;> simp [JFields.keys]

/-- Every object of the tree is a finite map (no member name twice) as long as the variable
maps are (`VMap.WF`) — which the engine guarantees because it only ever extends them with
`ValueHashMap.Add` (`VMap.put`, see `C17_put_wf`). -/
theorem C17_wellformed (ms : List FileMatch) (h : ∀ fm ∈ ms, fm.m.vars.WF) : (ofMatches ms).WF := by
  simp [ofMatches, Json.WF, Json.wf_ofList ms h]

/-- `ValueHashMap.Add` keeps a variable map a finite map; the empty map is one. -/
theorem C17_put_wf (f : VMap) (k : String) (v : Val) (hf : f.WF) (hv : v.WF) :
    (f.put k v).WF ∧ VMap.nil.WF :=
  ⟨VMap.wf_put f k v hf hv, VMap.wf_nil⟩

/-- … and the engine does guarantee it: for every instruction list, text, file name and
fuel, the variables of every match `runProgram` (`engine.Run`) returns are finite maps at
every depth (invariant of every VM instruction and of every saved state, `Lemmas/JsonWF.lean`),
so every object of the rendered tree has pairwise distinct member names. -/
theorem C17_engine_results_wellformed (pf vf : Nat) (fn text : Bytes) (cs : List BCmd) (ms : List Match)
    (h : runProgram pf vf fn text cs = some (.ok ms)) :
    (ofMatches (ms.map (fun m => (⟨fn, m⟩ : FileMatch)))).WF := by
  apply C17_wellformed
  intro fm hfm
  simp only [List.mem_map] at hfm
  obtain ⟨m, hm, rfl⟩ := hfm
  exact runProgram_wf pf vf fn text cs ms h m hm

/-- The two renderings are printings of one tree: whatever faithful printer/reader pair
`encoding/json` is, reading `Matches.Json()` and reading `Matches.FormattedJson()` give the
same document, and that document decodes to the in-memory matches (strings as
`encoding/json` coerces them: invalid UTF-8 bytes become U+FFFD). -/
theorem C17_documents {D : Type} (c : Codec D) (hc : c.Faithful) (ms : List FileMatch) :
    c.parse (matchesJson c ms) = c.parse (matchesFormattedJson c ms) ∧
    (c.parse (matchesJson c ms)).bind decodeMatches = some (ms.map FileMatch.coerce) := by
  have h := hc (ofMatches ms)
  simp only [matchesJson, matchesFormattedJson, h.1, h.2, true_and]
  simp [Json.coerce_ofMatches, C17_tree]

/-- … and when every string of the matches is unchanged by the coercion (valid UTF-8; in
particular ASCII, `utf8Fix_ascii`) the decoded document is exactly the in-memory list. -/
theorem C17_documents_exact {D : Type} (c : Codec D) (hc : c.Faithful) (ms : List FileMatch)
    (hv : ∀ fm ∈ ms, fm.coerce = fm) :
    (c.parse (matchesJson c ms)).bind decodeMatches = some ms ∧
    (c.parse (matchesFormattedJson c ms)).bind decodeMatches = some ms := by
  have e : ms.map FileMatch.coerce = ms := by
    induction ms with
    | nil => rfl
    | cons m ms ih =>
      simp [hv m (by simp)]
      exact ih (fun fm hm => hv fm (by simp [hm]))
  have h := C17_documents c hc ms
  rw [← h.1, h.2, e]; exact ⟨rfl, rfl⟩

/-! ## non-vacuity -/

/-- a find match with a nested (named-loop) variable map and a replace match -/
def C17_sample : List FileMatch :=
  [ ⟨[116], { number := 1, startPos := 0, endPos := 2, startLine := 1, endLine := 1, startCol := 1, endCol := 3,
              value := [97, 97],
              vars := .cons "lp" (.map (.cons "0" (.map (.cons "x" (.str [97]) .nil))
                                         (.cons "1" (.map (.cons "x" (.str [97]) .nil)) .nil))) .nil }⟩,
    ⟨[116], { number := 2, startPos := 3, endPos := 4, startLine := 2, endLine := 2, startCol := 1, endCol := 2,
              value := [34], vars := .nil, replacement := some [92] }⟩ ]

example : ∀ fm ∈ C17_sample, fm.m.vars.WF := by
  simp [C17_sample, VMap.WF, Val.WF, VMap.get]

example : ∀ fm ∈ C17_sample, fm.coerce = fm := by
  simp [C17_sample, FileMatch.coerce, VMap.coerce, Val.coerce, utf8Fix, utf8FixAux]

/-- a faithful codec exists (the document is the tree itself plus the layout flag) -/
def C17_trivialCodec : Codec (Json × Bool) :=
  { compact := fun j => (j, false), indented := fun j => (j, true), parse := fun d => some d.1.coerce }

example : C17_trivialCodec.Faithful := fun _ => ⟨rfl, rfl⟩

/-- `find all 'a' = x` on the text `a`: the hypothesis of `C17_engine_results_wellformed` is satisfiable -/
example : ∃ ms, runProgram 10 100 [116] [97]
    [.find ⟨true, 0, 0, 0⟩ [.startVar "x", .lit false false [97], .endVar "x"]] = some (.ok ms) ∧ ms.length = 1 := by
  refine ⟨_, rfl, rfl⟩

example : (VMap.nil.put "a" (.str [1])).WF ∧ (Val.str [1]).WF := by
  simp [VMap.put, VMap.WF, Val.WF, VMap.get]

end Vore

#print axioms Vore.C17_tree
#print axioms Vore.C17_replacement_key
#print axioms Vore.C17_members
#print axioms Vore.C17_wellformed
#print axioms Vore.C17_put_wf
#print axioms Vore.C17_engine_results_wellformed
#print axioms Vore.C17_documents
#print axioms Vore.C17_documents_exact
