import Vore.Lemmas.LexItems
import Vore.Model.LexSource
/-!
# C15 (lexer half) — whitespace, comments and keyword case never change the token stream

*Inserting whitespace, line comments or block comments between any two tokens of a program, or
changing the letter case of its keywords, yields a program that is accepted exactly when the original
is and that parses to the same syntax tree …; whitespace is needed only to separate adjacent words.*

The lexer's part of that: the *significant* token sequence (kinds and lexemes, WS and COMMENT
stripped) — which is all the parser looks at — is unchanged.

Specification: `Vore/Spec/LexItems.lean`.  A source is a list of lexical items (`Item`); `WellSep`
says that every item is well formed and does not run into its right neighbour — the *only* places
where a separator is needed (`Item.sep`): a word before a letter or digit, a number before a digit,
a blank run before a blank, `=` `<` `>` before `=`, `-` before `-`, and a line comment before
anything but a newline.  Everything else may touch.

* `C15_lex_items`: on a well-separated item list the lexer returns exactly the items' tokens + EOF
  (for all lists, by induction; each item by its own lemma for an arbitrary right context).
* `C15_lexer_gap`: inserting a gap (any list of blank runs, line comments, block comments) at an item
  boundary leaves the significant tokens unchanged, provided the gap is itself well separated from
  what follows and the item before it does not run into it — the "two neighbours do not fuse"
  hypothesis, spelled out.
* `C15_layout`: any two well-separated sources with the same significant items have the same
  significant tokens (covers a blank inserted next to an existing blank: the two fuse into one run).
* `C15_case`: changing the letter case of words (keywords, identifiers) keeps every token kind.

All three are over the keyword/operator/final-switch tables regenerated from lexer.go.
Domain: ASCII sources without NUL (part of `Item.ok`).
-/
namespace Vore.Lex
open Vore Vore.ExtractedLex

/-- **The lexer implements the lexical grammar**: a well-separated list of items lexes to exactly
the items' tokens (kind and lexeme, in order) followed by EOF. -/
theorem C15_lex_items (items : List Item) (h : WellSep [] items) :
    ∃ ts, lex (renderItems items) = .tokens ts ∧ ts.map Token.kl = items.map Item.kl ++ [(.eof, [])] :=
  getTokens_items items 0 none h

/-- kinds and lexemes that survive stripping -/
def sigKl (x : Tok × Bytes) : Bool := x.1 != .ws && x.1 != .comment

theorem significant_tokens (ts : List Token) :
    significant (.tokens ts) = some ((ts.map Token.kl).filter sigKl) := by
  simp only [significant, List.filter_map]
  rfl

theorem insignificant_kl (g : Item) (h : g.insignificant = true) : sigKl g.kl = false := by
  cases g <;> simp [Item.insignificant] at h <;> simp [sigKl, Item.kl, Item.kind]

/-- the significant tokens of a well-separated item list are those of its significant items -/
theorem significant_items (items : List Item) (h : WellSep [] items) :
    significant (lex (renderItems items)) = some ((items.map Item.kl).filter sigKl ++ [(.eof, [])]) := by
  obtain ⟨ts, hts, hkl⟩ := C15_lex_items items h
  rw [hts, significant_tokens, hkl, List.filter_append]
  rfl

/-- **C15, gap insertion (lexer).**  `items1 ++ items2` is a program; `gap` is any sequence of blank
runs, line comments and block comments.  If the gap is well formed and separated from what follows
it (`hgap`: e.g. a line comment is followed by a newline, a blank run is not followed by another
blank), and the item before the gap does not run into it (`hleft`: e.g. the item before a comment is
not `-`), then the program with the gap has the same significant tokens. -/
theorem C15_lexer_gap (items1 gap items2 : List Item)
    (hins : ∀ g ∈ gap, g.insignificant = true)
    (h0 : WellSep [] (items1 ++ items2))
    (hgap : WellSep (renderItems items2) gap)
    (hleft : WellSep (renderItems gap ++ renderItems items2) items1) :
    significant (lex (renderItems (items1 ++ gap ++ items2))) =
      significant (lex (renderItems (items1 ++ items2))) := by
  have h2 : WellSep [] items2 := ((wellSep_append [] items1 items2).mp h0).2
  have h1 : WellSep [] (items1 ++ gap ++ items2) := by
    rw [List.append_assoc, wellSep_append, wellSep_append]
    simp only [List.append_nil, renderItems_append]
    exact ⟨hleft, hgap, h2⟩
  rw [significant_items _ h1, significant_items _ h0]
  simp only [List.map_append, List.filter_append]
  have hg : (gap.map Item.kl).filter sigKl = [] := by
    rw [List.filter_eq_nil_iff]
    intro x hx
    obtain ⟨g, hg, rfl⟩ := List.mem_map.mp hx
    simp [insignificant_kl g (hins g hg)]
  rw [hg]; simp

/-- no keyword is spelled like a blank or a comment (over the regenerated table) -/
theorem goKeywords_significant : ∀ p ∈ goKeywords, p.2 ≠ .ws ∧ p.2 ≠ .comment := by decide

theorem kwLookup_significant (w : Bytes) : kwLookup w ≠ .ws ∧ kwLookup w ≠ .comment := by
  unfold kwLookup
  cases h : goKeywords.lookup (kwKey w) with
  | none => simp
  | some v =>
    obtain ⟨p, hp, hv⟩ := lookup_mem _ _ _ h
    simp only [Option.getD_some]; rw [← hv]; exact goKeywords_significant p hp

section
set_option maxRecDepth 100000
theorem punctKind_sig : ∀ c : UInt8, (punctKind c).getD .error ≠ .ws ∧ (punctKind c).getD .error ≠ .comment := by
  apply all_u8; decide
theorem op2Kind_sig : ∀ c : UInt8, (op2Kind c).getD .error ≠ .ws ∧ (op2Kind c).getD .error ≠ .comment := by
  apply all_u8; decide
theorem op1Kind_sig : ∀ c : UInt8, (op1Kind c).getD .error ≠ .ws ∧ (op1Kind c).getD .error ≠ .comment := by
  apply all_u8; decide
end

/-- an item's token survives stripping iff the item is not a blank run or a comment -/
theorem sigKl_item (it : Item) : sigKl it.kl = !it.insignificant := by
  cases it with
  | word w => have := kwLookup_significant w; simp [sigKl, Item.kl, Item.kind, Item.insignificant, this.1, this.2]
  | punct c => have := punctKind_sig c; simp [sigKl, Item.kl, Item.kind, Item.insignificant, this.1, this.2]
  | op2 c => have := op2Kind_sig c; simp [sigKl, Item.kl, Item.kind, Item.insignificant, this.1, this.2]
  | op1 c => have := op1Kind_sig c; simp [sigKl, Item.kl, Item.kind, Item.insignificant, this.1, this.2]
  | _ => simp [sigKl, Item.kl, Item.kind, Item.insignificant]

/-- **C15, layout independence (lexer), general form.**  Two well-separated sources with the same
significant items — however blanks, line comments and block comments are distributed between them —
have the same significant tokens. -/
theorem C15_layout (a b : List Item) (ha : WellSep [] a) (hb : WellSep [] b)
    (h : a.filter (fun it => !it.insignificant) = b.filter (fun it => !it.insignificant)) :
    significant (lex (renderItems a)) = significant (lex (renderItems b)) := by
  rw [significant_items _ ha, significant_items _ hb]
  have key : ∀ l : List Item, (l.map Item.kl).filter sigKl = (l.filter (fun it => !it.insignificant)).map Item.kl := by
    intro l
    rw [List.filter_map]
    congr 1
    apply List.filter_congr
    intro x _
    simp [Function.comp, sigKl_item]
  rw [key a, key b, h]

/-- the items before the gap see only its first character: if the item in front of the gap does not
run into the gap, `hleft` of `C15_lexer_gap` follows from the well-separatedness of the original -/
theorem sep_head (it : Item) (a b : Bytes) (h : a.head? = b.head?) : it.sep a ↔ it.sep b := by
  cases it <;> simp [Item.sep, h]

section
set_option maxRecDepth 100000
theorem letter_facts : ∀ c : UInt8, isLetter c →
    isAlnumB c = true ∧ isDigitB c = false ∧ isSpaceB c = false ∧ c ≠ 45 ∧ c ≠ 61 ∧ c ≠ 10 := by
  apply all_u8; decide
theorem lower_letter_eq : ∀ c : UInt8, isLetterB c = isLetterB (asciiLower c) := by apply all_u8; decide
theorem lower_alnum_eq : ∀ c : UInt8, isAlnumB c = isAlnumB (asciiLower c) := by apply all_u8; decide
end

/-! ## keyword case -/

/-- the same item, or the same word in another letter case -/
def CaseVar (it it' : Item) : Prop :=
  it = it' ∨ ∃ w w', it = .word w ∧ it' = .word w' ∧ w.map asciiLower = w'.map asciiLower

/-- the keyword decision sees only the lower-cased word -/
theorem kwLookup_case (w w' : Bytes) (h : w.map asciiLower = w'.map asciiLower) : kwLookup w = kwLookup w' := by
  simp [kwLookup, kwKey, goKeywordsLower_true, h]

theorem caseVar_kind (it it' : Item) (h : CaseVar it it') : it.kind = it'.kind := by
  rcases h with rfl | ⟨w, w', rfl, rfl, hw⟩
  · rfl
  · exact kwLookup_case w w' hw

theorem caseVar_ok (it it' : Item) (h : CaseVar it it') (hok : it.ok) : it'.ok := by
  rcases h with rfl | ⟨w, w', rfl, rfl, hw⟩
  · exact hok
  · obtain ⟨l, ws, rfl, hl, hws⟩ := hok
    cases w' with
    | nil => simp at hw
    | cons l' ws' =>
      simp only [List.map_cons, List.cons.injEq] at hw
      refine ⟨l', ws', rfl, ?_, ?_⟩
      · rw [lower_letter_eq, ← hw.1, ← lower_letter_eq]; exact hl
      · intro c hc
        -- c is at some index of ws'; the character at the same index of ws has the same lower case
        obtain ⟨i, hi, rfl⟩ := List.getElem_of_mem hc
        have hlen : ws.length = ws'.length := by simpa using congrArg List.length hw.2
        have hi' : i < ws.length := by omega
        have : asciiLower ws[i] = asciiLower ws'[i] := by
          have := congrArg (fun l => l[i]?) hw.2
          simpa [hi, hi'] using this
        rw [lower_alnum_eq, ← this, ← lower_alnum_eq]
        exact hws _ (List.getElem_mem hi')

/-- item lists related item by item -/
inductive CaseVars : List Item → List Item → Prop where
  | nil : CaseVars [] []
  | cons {it it' : Item} {its its' : List Item} : CaseVar it it' → CaseVars its its' → CaseVars (it :: its) (it' :: its')

theorem caseVars_kinds (items items' : List Item) (h : CaseVars items items') :
    items.map Item.kind = items'.map Item.kind := by
  induction h with
  | nil => rfl
  | cons hc _ ih => simp only [List.map_cons, caseVar_kind _ _ hc, ih]

/-- the first characters of two texts are equal, or both are letters -/
def HeadRel (a b : Bytes) : Prop :=
  a.head? = b.head? ∨ ∃ c c', a.head? = some c ∧ b.head? = some c' ∧ isLetter c ∧ isLetter c'

theorem sep_headRel (it : Item) (a b : Bytes) (h : HeadRel a b) (hs : it.sep a) : it.sep b := by
  rcases h with h | ⟨c, c', ha, hb, hc, hc'⟩
  · exact (sep_head it a b h).mp hs
  · obtain ⟨f1, f2, f3, f4, f5, f6⟩ := letter_facts c hc
    obtain ⟨g1, g2, g3, g4, g5, g6⟩ := letter_facts c' hc'
    cases it with
    | word w => have := hs c ha; rw [f1] at this; simp at this
    | number d => intro x hx; rw [hb] at hx; cases hx; exact g2
    | blank w => intro x hx; rw [hb] at hx; cases hx; exact g3
    | op1 o =>
      intro x hx; rw [hb] at hx; cases hx
      by_cases ho : o = 45 <;> simp [ho, g4, g5]
    | lineComment t => have := hs c ha; exact absurd this f6
    | _ => trivial

theorem item_render_ne_nil (it : Item) (h : it.ok) : it.render ≠ [] := by
  cases it with
  | word w => obtain ⟨l, ws, rfl, _⟩ := h; simp [Item.render]
  | number d => exact h.1
  | blank w => exact h.1
  | str q sps => simp [Item.render, literal]
  | regexp b => simp [Item.render]
  | punct c => simp [Item.render]
  | op2 c => simp [Item.render]
  | op1 c => simp [Item.render]
  | lineComment t => simp [Item.render]
  | blockComment b => simp [Item.render]

theorem caseVar_headRel (it it' : Item) (h : CaseVar it it') (hok : it.ok) (x y : Bytes) :
    HeadRel (it.render ++ x) (it'.render ++ y) := by
  rcases h with rfl | ⟨w, w', rfl, rfl, hw⟩
  · left
    have := item_render_ne_nil it hok
    cases hr : it.render with
    | nil => exact absurd hr this
    | cons c cs => simp
  · obtain ⟨l, ws, rfl, hl, _⟩ := hok
    obtain ⟨l', ws', hw', hl', _⟩ : (Item.word w').ok :=
      caseVar_ok _ _ (Or.inr ⟨_, _, rfl, rfl, hw⟩) ⟨l, ws, rfl, hl, by assumption⟩
    subst hw'
    right
    exact ⟨l, l', by simp [Item.render], by simp [Item.render], (isLetterB_iff l).mp hl, (isLetterB_iff l').mp hl'⟩

/-- re-casing words keeps a program well separated -/
theorem wellSep_caseVar (tail : Bytes) (items items' : List Item) (h : CaseVars items items')
    (hw : WellSep tail items) : WellSep tail items' ∧ HeadRel (renderItems items ++ tail) (renderItems items' ++ tail) := by
  induction h with
  | nil => exact ⟨trivial, Or.inl rfl⟩
  | @cons it it' its its' hc _ ih =>
    obtain ⟨hok, hsep, hrest⟩ := hw
    obtain ⟨hw', hrel⟩ := ih hrest
    refine ⟨⟨caseVar_ok it it' hc hok, ?_, hw'⟩, ?_⟩
    · have hk : ∀ a b, HeadRel a b → it.sep a → it'.sep b := by
        intro a b hab hs
        have := sep_headRel it a b hab hs
        rcases hc with rfl | ⟨w, w', rfl, rfl, _⟩
        · exact this
        · exact this
      exact hk _ _ hrel hsep
    · simp only [renderItems_cons, List.append_assoc]
      exact caseVar_headRel it it' hc hok _ _

/-- **C15, keyword case (lexer).**  Changing the letter case of any words of a well-separated program
(keywords included: `find` / `FIND` / `Find`) gives a program that lexes to tokens of the same
kinds, position by position — the keyword decision is made on the lower-cased lexeme. -/
theorem C15_case (items items' : List Item) (h : CaseVars items items') (hw : WellSep [] items) :
    ∃ ts ts', lex (renderItems items) = .tokens ts ∧ lex (renderItems items') = .tokens ts' ∧
      ts.map (·.kind) = ts'.map (·.kind) := by
  have hw' := (wellSep_caseVar [] items items' h hw).1
  obtain ⟨ts, hts, hkl⟩ := C15_lex_items items hw
  obtain ⟨ts', hts', hkl'⟩ := C15_lex_items items' hw'
  refine ⟨ts, ts', hts, hts', ?_⟩
  have e1 : ts.map (·.kind) = (ts.map Token.kl).map Prod.fst := by simp [Token.kl]
  have e2 : ts'.map (·.kind) = (ts'.map Token.kl).map Prod.fst := by simp [Token.kl]
  rw [e1, e2, hkl, hkl']
  simp only [List.map_append, List.map_map]
  congr 1
  have := caseVars_kinds items items' h
  simpa [Function.comp_def, Item.kl] using this

/-! ## non-vacuity -/

theorem word_ok (l : UInt8) (ws : Bytes) (hl : isLetterB l = true) (hws : ∀ c ∈ ws, isAlnumB c = true) :
    (Item.word (l :: ws)).ok := ⟨l, ws, rfl, hl, hws⟩


/-! ## every source, not only ASCII ones

The lexer on an arbitrary byte string is `lexSource src = lex (abstractSource src)` (Model/LexSource.lean): the runes
`ReadRune` delivers, each non-ASCII rune replaced by the byte of its class (Unicode white space ↦ a blank byte, letters,
digits, the two runes that lower-case into ASCII, everything else).  The layout theorems therefore hold for every
source whose class image is a rendering of well-separated items — in particular for sources that use U+00A0, U+2003,
U+3000 … between tokens, which the Go lexer accepts as white space. -/

/-- **C15, layout independence (lexer), all sources.**  Two byte strings — any encoding, any Unicode white space —
whose class images are well-separated item lists with the same significant items have the same significant tokens. -/
theorem C15_layout_all_sources (s1 s2 : Bytes) (a b : List Item)
    (h1 : Unicode.abstractSource s1 = renderItems a) (h2 : Unicode.abstractSource s2 = renderItems b)
    (ha : WellSep [] a) (hb : WellSep [] b)
    (h : a.filter (fun it => !it.insignificant) = b.filter (fun it => !it.insignificant)) :
    significant (lexSource s1) = significant (lexSource s2) := by
  unfold lexSource
  rw [h1, h2]
  exact C15_layout a b ha hb h

/-- **C15, gap insertion (lexer), all sources** -/
theorem C15_lexer_gap_all_sources (s1 s2 : Bytes) (items1 gap items2 : List Item)
    (h1 : Unicode.abstractSource s1 = renderItems (items1 ++ gap ++ items2))
    (h2 : Unicode.abstractSource s2 = renderItems (items1 ++ items2))
    (hins : ∀ g ∈ gap, g.insignificant = true)
    (h0 : WellSep [] (items1 ++ items2))
    (hgap : WellSep (renderItems items2) gap)
    (hleft : WellSep (renderItems gap ++ renderItems items2) items1) :
    significant (lexSource s1) = significant (lexSource s2) := by
  unfold lexSource
  rw [h1, h2]
  exact C15_lexer_gap items1 gap items2 hins h0 hgap hleft

/-- `a(` ++ gap ++ `b` with gap = blank, block comment, line comment, newline:
`a( --(c)----x⏎b` has the significant tokens of `a(b` -/
example :
    significant (lex (renderItems ([.word [97], .punct 40] ++
        [.blank [32], .blockComment [99], .lineComment [120], .blank [10]] ++ [.word [98]]))) =
    significant (lex (renderItems ([.word [97], .punct 40] ++ [.word [98]]))) := by
  apply C15_lexer_gap
  · decide
  · exact ⟨word_ok 97 [] (by decide) (by simp), by simp [Item.sep, renderItems, Item.render]; decide,
      by simp [Item.ok]; decide, trivial, word_ok 98 [] (by decide) (by simp), by simp [Item.sep, renderItems], trivial⟩
  · refine ⟨⟨by decide, by simp; decide⟩, ?_, ⟨by simp, by decide⟩, trivial, ⟨by simp, by simp⟩, ?_, ⟨by decide, by simp; decide⟩, ?_, trivial⟩
    · simp [Item.sep, renderItems, Item.render]; decide
    · simp [Item.sep, renderItems, Item.render]
    · simp [Item.sep, renderItems, Item.render]; decide
  · exact ⟨word_ok 97 [] (by decide) (by simp), by simp [Item.sep, renderItems, Item.render]; decide,
      by simp [Item.ok]; decide, trivial, trivial⟩

section
set_option maxRecDepth 100000

/-- non-vacuity of the all-sources form: `a` U+00A0 `b` (bytes 61 C2 A0 62; a no-break space is white space to the Go
lexer) has the significant tokens of `a b` -/
example : significant (lexSource [97, 0xC2, 0xA0, 98]) = significant (lexSource [97, 32, 98]) := by
  apply C15_layout_all_sources _ _ [.word [97], .blank [0x83], .word [98]] [.word [97], .blank [32], .word [98]]
  · decide
  · decide
  · refine ⟨word_ok 97 [] (by decide) (by simp), ?_, ?_, ?_, word_ok 98 [] (by decide) (by simp), ?_, trivial⟩ <;>
      simp [Item.sep, Item.ok, renderItems, Item.render] <;> decide
  · refine ⟨word_ok 97 [] (by decide) (by simp), ?_, ?_, ?_, word_ok 98 [] (by decide) (by simp), ?_, trivial⟩ <;>
      simp [Item.sep, Item.ok, renderItems, Item.render] <;> decide
  · rfl
end

/-- `find` / `FIND`: the same kind -/
example : kwLookup [70, 73, 78, 68] = .find ∧ kwLookup [102, 105, 110, 100] = .find := by decide

example : CaseVars [.word [102, 105, 110, 100], .blank [32], .word [120]] [.word [70, 73, 78, 68], .blank [32], .word [88]] :=
  .cons (Or.inr ⟨_, _, rfl, rfl, by decide⟩) (.cons (Or.inl rfl) (.cons (Or.inr ⟨_, _, rfl, rfl, by decide⟩) .nil))

end Vore.Lex

#print axioms Vore.Lex.C15_lex_items
#print axioms Vore.Lex.C15_lexer_gap
#print axioms Vore.Lex.C15_case
#print axioms Vore.Lex.C15_layout
#print axioms Vore.Lex.C15_layout_all_sources
#print axioms Vore.Lex.C15_lexer_gap_all_sources
#print axioms Vore.Lex.wellSep_caseVar
