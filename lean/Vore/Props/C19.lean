import Vore.Lemmas.SchedGo
import Vore.Model.VM
/-!
# C19 — Compile and Run are safe to call from many goroutines   (PARTIAL)

Property text: *any number of goroutines may compile sources and run compiled programs (the
same or different ones) at the same time: every call returns what it returns when executed
alone, and no memory is accessed by two goroutines without synchronisation.*

What is proved here, and what is not.  A data race is a notion of the Go memory model and
depends on the scheduler; no theorem about a Lean model exhibits or excludes one in the real
runtime.  What *is* logic is that calls interfere only through shared mutable locations.
The theorems below are about the interleaving model `Vore/Model/Sched.lean` — threads of
atomic actions, arbitrary schedules — and about the shared-state facts re-extracted from the
Go source on every check (`Vore/ExtractedGlobals.lean`):

* `C19_noninterference` — for ANY family of threads and EVERY schedule: if every written
  shared location is confined to one thread or protected by a mutex (every access holds it,
  and a value read from the location reaches a result only if the reader wrote the location
  earlier in the same critical section), then every thread's result is its sequential result
  and the trace has no two conflicting accesses unordered by happens-before (program order +
  unlock→lock).  No bound on threads or length.
* `parser_state_confined` — every package-level variable of libvore written by a function
  reachable from `Compile`/`Run` (after the `fix:` commit: the regex group counter
  `capture_group_number`) is touched only by functions that hold the package mutex for their
  whole body or are reachable only through such a function, and every holder resets it
  before anything reads it (by `decide` on the extracted data; removing the
  `parseMutex.Lock(); defer parseMutex.Unlock()` prologue of `parse`, or adding a second
  written package-level variable, makes this theorem fail).
* `calls_are_single_threads` — no function reachable from `Compile`/`Run` starts a goroutine.
* `bytecode_readonly_at_run` — no engine function assigns through a value of a bytecode/ast
  type (extracted), and in the model a call never writes a `code` location.
* `C19_compile_run` — the instance: concurrent `Compile`/`Run` calls whose shared accesses are
  the ones the extracted facts leave possible do not interfere.
* `C19_shared_counter_interferes` — the theorem can fail: with one unprotected package-level
  counter (the code before the fix) a concrete two-thread schedule gives a thread a result that
  differs from its sequential result, and its trace has a data race.

Outside the theorem (named in the evidence): the Go memory model and scheduler, the race
detector's completeness, the runtime and `math/rand`'s internal locking, and the fidelity of
the extractor and of `GoCalls` as a description of what the Go code touches.  These are
exercised — not proved — by `harness/cmd/racedrive` (goroutines × {Compile with/without
regex groups, Run shared/private} under `go build -race`, every result compared with its
sequential value).
-/
namespace Vore.Props.C19
open Vore.Sched Vore.ExtractedGlobals

/-- **C19 (model).**  `P t` is the code of thread `t` (any number of threads, any length),
`acc0 t` its arguments, `store0` the initial shared store, `s` ANY schedule.  If threads only
unlock what they hold and every shared location that is written at all is confined to one
thread or protected by one mutex (`LockProtected`: every access holds it, and reads are either
blind or preceded by the reader's own write in the same critical section), then

1. every thread's accumulator is what its own first `pc` actions compute alone,
2. in particular a thread that has finished holds its sequential result, and
3. no two conflicting accesses of the trace are unordered by happens-before. -/
theorem C19_noninterference (P : Tid → List Action) (acc0 : Tid → Sched.Val) (store0 : Loc → Sched.Val)
    (hlocks : WellLocked P)
    (hdisc : ∀ g, Written P g → Confined P g ∨ LockProtected P g)
    (s : List Tid) :
    (∀ t, (exec P (init acc0 store0) s).acc t
        = (seqAt (P t) ⟨acc0 t, store0⟩ ((exec P (init acc0 store0) s).pc t)).acc) ∧
    (∀ t, (exec P (init acc0 store0) s).pc t = (P t).length →
        (exec P (init acc0 store0) s).acc t = (seqRun (P t) ⟨acc0 t, store0⟩).acc) ∧
    RaceFree (exec P (init acc0 store0) s).trace := by
  have hres := resInv_exec P acc0 store0 hlocks hdisc s
  refine ⟨hres.acc, ?_, (raceInv_exec P acc0 store0 hlocks hdisc s).rf⟩
  intro t hfin
  rw [hres.acc t, hfin, seqAt_length]

/-! ### non-vacuity of `C19_noninterference`

Three threads: two draw from a lock-protected source and work on their own memory, one only
reads shared read-only code.  The hypotheses hold, and a schedule runs all of them to the end
with a genuinely interleaved trace. -/

def demoThread (t : Tid) : List Action :=
  [.lock randMutex, .rmw .randSrc (· + 1), .unlock randMutex,
   .read (.code 0) (fun a v => a + v), .write (.priv t 0) (fun a => a * 2),
   .read (.priv t 0) (fun _ v => v + 1)]

def demoP : Tid → List Action := fun t => if t < 3 then demoThread t else []

/-- entries 2 and 6 name a thread that is blocked on the held mutex (no-ops) -/
def demoSchedule : List Tid := [0, 1, 0, 0, 1, 2, 1, 1, 2, 2, 2, 0, 1, 2, 0, 1, 2, 0, 1, 2]

theorem demo_goCalls (cls : List GClass) : GoCalls cls demoP := by
  intro t pc a h
  unfold demoP at h ⊢
  by_cases ht : t < 3
  · simp only [ht, if_true, demoThread] at h ⊢
    match pc, h with
    | 0, h => simp at h; subst h; trivial
    | 1, h => simp at h; subst h; simp [ActionAllowed, heldAt, Action.heldAfter]
    | 2, h => simp at h; subst h; simp [ActionAllowed, heldAt, Action.heldAfter]
    | 3, h => simp at h; subst h; trivial
    | 4, h => simp at h; subst h; simp [ActionAllowed]
    | 5, h => simp at h; subst h; simp [ActionAllowed]
    | n + 6, h => simp at h
  · simp [ht] at h

/-- the schedule finishes all three threads (so conclusion 2 is not vacuous) and the lock was
really contended for: thread 1 acquires it after thread 0 released it -/
example :
    (∀ t, t < 3 → (exec demoP (init (fun t => t) (fun _ => 5)) demoSchedule).pc t = (demoP t).length) ∧
    (exec demoP (init (fun t => t) (fun _ => 5)) demoSchedule).acc 1 = 13 ∧
    (exec demoP (init (fun t => t) (fun _ => 5)) demoSchedule).store .randSrc = 8 ∧
    races (exec demoP (init (fun t => t) (fun _ => 5)) demoSchedule).trace = [] := by
  refine ⟨?_, by decide, by decide, by decide⟩
  intro t ht
  match t, ht with
  | 0, _ => decide
  | 1, _ => decide
  | 2, _ => decide

/-! ## the access discipline follows from the extracted facts

`goCalls_discipline` (Vore/Lemmas/SchedGo.lean): calls that touch no `free` package-level variable
satisfy the hypotheses of `C19_noninterference` — call-private memory is confined, the program is
read-only, the random source is lock protected (blind), a `locked m` variable is lock protected by `m`. -/

/-- **Obligation (regenerated facts): the parser's state is confined or lock protected.**
Every package-level variable of the libvore packages that a function reachable from `Compile`,
`CompileFile`, `Run` or `RunFiles` assigns, increments or takes the address of is `locked`:
all functions touching it hold one package mutex for their whole body (`M.Lock(); defer
M.Unlock()` first) or are reachable from the entry points only through such a function, its
address is never taken, and every holder assigns it before anything else can read it.
Checked by evaluation on `Vore/ExtractedGlobals.lean`, which is regenerated from /repo before
every build.  At the pinned commit `ast.capture_group_number` is written by `parse` and
`parse_regexp_groups` with no mutex: `goClasses = [free]` and this fails. -/
theorem parser_state_confined : ∀ c ∈ goClasses, c ≠ GClass.free := by decide +kernel

/-- **Obligation (regenerated facts).**  A call is a single thread of control: no function
reachable from the entry points contains a `go` statement. -/
theorem calls_are_single_threads : goFacts.spawners = [] := by decide +kernel

/-! ### the decision procedure behind `parser_state_confined` discriminates

Small fact bases (function 0 = `Compile` calls 1 = `parse`, which calls 2 = `parse_regexp_groups`;
variable 0 is a mutex, variable 1 the counter written by 1 and 2 and read by 2). -/

def toyGlobals : List GoGlobal :=
  [{ pkg := "ast", name := "parseMutex", typ := "sync.Mutex", scalar := false, isMutex := true, initialised := false,
     file := "", line := 0, assignedBy := [], incrementedBy := [], addrTakenBy := [], readBy := [1] },
   { pkg := "ast", name := "capture_group_number", typ := "int", scalar := true, isMutex := false, initialised := true,
     file := "", line := 0, assignedBy := [1, 2], incrementedBy := [2], addrTakenBy := [], readBy := [2] }]

/-- pinned commit: no holder — the counter is `free` -/
example : ({ calls := [[1], [2], []], entries := [0], globals := toyGlobals, holders := [], initFirst := [],
             goStmts := [] } : Facts).classes = [.free] := by decide +kernel

/-- after the fix: `parse` holds the mutex and resets the counter first — `locked` -/
example : ({ calls := [[1], [2], []], entries := [0], globals := toyGlobals, holders := [(1, 0)],
             initFirst := [(1, 1)], goStmts := [] } : Facts).classes = [.locked 1] := by decide +kernel

/-- a second path to `parse_regexp_groups` that does not go through the holder — `free` -/
example : ({ calls := [[1, 2], [2], []], entries := [0], globals := toyGlobals, holders := [(1, 0)],
             initFirst := [(1, 1)], goStmts := [] } : Facts).classes = [.free] := by decide +kernel

/-- the holder does not reset the counter before use — `free` -/
example : ({ calls := [[1], [2], []], entries := [0], globals := toyGlobals, holders := [(1, 0)],
             initFirst := [], goStmts := [] } : Facts).classes = [.free] := by decide +kernel

/-- a variable written only by an unreachable function is not a shared location at all -/
example : ({ calls := [[], [2], []], entries := [0], globals := toyGlobals, holders := [],
             initFirst := [], goStmts := [] } : Facts).classes = [] := by decide +kernel

/-- a reachable `go` statement is reported -/
example : ({ calls := [[1], [2], []], entries := [0], globals := [], holders := [],
             initFirst := [], goStmts := [2] } : Facts).spawners = [2] := by decide +kernel

/-- on the real call graph the reachability computation is not degenerate: far more functions
than the entry points are reachable, and it reaches a fixed point within its fuel -/
example :
    (sweeps goCalls 0 (goCalls.length + 1) (bitsOf goEntries)).2 = true ∧
    goEntries.length + 100 <
      ((List.range goCalls.length).filter (sweeps goCalls 0 (goCalls.length + 1) (bitsOf goEntries)).1.testBit).length := by
  decide +kernel

/-- **Obligation.**  The compiled program shared by all `Run` calls on one `*Vore` is
read-only at run time:

* extracted: no function of package `engine` assigns through a value whose declared type comes
  from package `bytecode` or `ast` (`goCodeWrites` is empty);
* model: a `Compile`/`Run` call never writes a `code` location.

In the Lean VM model this holds by construction — by typing: the program is an *argument* of
`Vore.step` / `Vore.run` (see the signature check below) and neither `VMState` nor `Outcome`
has a component of type `List Instr`, so a run cannot return, let alone change, its program. -/
theorem bytecode_readonly_at_run :
    goCodeWrites.length = 0 ∧
    ∀ (cls : List GClass) (P : Tid → List Action), GoCalls cls P → ∀ k, ¬ Written P (.code k) := by
  refine ⟨by decide, ?_⟩
  intro cls P h k hw
  obtain ⟨t, pc, a, ha, hg, hwr⟩ := hw
  have := h t pc a ha
  cases a <;> simp [Action.target] at hg <;> subst hg <;> simp [ActionAllowed, Action.isWrite] at this hwr

/-- signature check for the remark above: program in, outcome out -/
example : Nat → List Vore.Instr → Vore.Bytes → Nat → Vore.VMState → Option Vore.Outcome := Vore.run
example : Nat → List Vore.Instr → Vore.Bytes → Vore.VMState → Vore.Step := Vore.step

/-- **C19 for Compile/Run (over the extracted facts).**  Any family of concurrent calls whose
shared accesses are those the current Go source leaves possible (`GoCalls goClasses`: the
written package-level variables are accessed as their extracted protection class says — and by
`parser_state_confined` none of them is unprotected), under every schedule: results equal
sequential results, no unordered conflicting accesses. -/
theorem C19_compile_run (P : Tid → List Action) (acc0 : Tid → Sched.Val) (store0 : Loc → Sched.Val)
    (hgo : GoCalls goClasses P) (s : List Tid) :
    (∀ t, (exec P (init acc0 store0) s).pc t = (P t).length →
        (exec P (init acc0 store0) s).acc t = (seqRun (P t) ⟨acc0 t, store0⟩).acc) ∧
    RaceFree (exec P (init acc0 store0) s).trace := by
  obtain ⟨hwl, hdisc⟩ := goCalls_discipline goClasses parser_state_confined P hgo
  exact (C19_noninterference P acc0 store0 hwl hdisc s).2

/-- non-vacuity of `C19_compile_run`: the demo threads are such calls -/
example : GoCalls goClasses demoP := demo_goCalls goClasses

/-! ### the fixed parser: the counter under the package mutex

`parse` after the fix: lock, reset the counter, (read, increment, read back) per group,
unlock.  Two such calls plus a `Run`-like reader, `global 0` being `locked 1`. -/

def parseLocked : List Action :=
  [.lock 1,
   .write (.global 0) (fun _ => 0),          -- capture_group_number = 0
   .read (.global 0) (fun _ v => v),         -- tmp := capture_group_number
   .write (.global 0) (fun a => a + 1),      -- capture_group_number = tmp + 1
   .read (.global 0) (fun _ v => v),         -- name the group "_<capture_group_number>"
   .unlock 1]

def lockedP : Tid → List Action := fun t => if t < 2 then parseLocked else []

theorem locked_goCalls : GoCalls [.locked 1] lockedP := by
  intro t pc a h
  unfold lockedP at h ⊢
  by_cases ht : t < 2
  · simp only [ht, if_true, parseLocked] at h ⊢
    match pc, h with
    | 0, h => simp at h; subst h; trivial
    | 1, h => simp at h; subst h; simp [ActionAllowed, heldAt, Action.heldAfter]
    | 2, h => simp at h; subst h; simp [ActionAllowed, heldAt, freshAt, Action.heldAfter, Action.freshAfter]
    | 3, h => simp at h; subst h; simp [ActionAllowed, heldAt, Action.heldAfter]
    | 4, h => simp at h; subst h; simp [ActionAllowed, heldAt, freshAt, Action.heldAfter, Action.freshAfter]
    | 5, h => simp at h; subst h; simp [ActionAllowed, heldAt, Action.heldAfter]
    | n + 6, h => simp at h
  · simp [ht] at h

/-- the hypotheses of `C19_noninterference` hold for the locked parser (so they are
satisfiable with a location that is written, read into results and shared), and in a schedule
where thread 1 keeps trying while thread 0 is inside, both name their group `_1` -/
example :
    (WellLocked lockedP ∧ ∀ g, Written lockedP g → Confined lockedP g ∨ LockProtected lockedP g) ∧
    (exec lockedP (init (fun _ => 0) (fun _ => 7)) [0, 1, 0, 1, 0, 0, 1, 0, 0, 1, 1, 1, 1, 1, 1]).acc 0 = 1 ∧
    (exec lockedP (init (fun _ => 0) (fun _ => 7)) [0, 1, 0, 1, 0, 0, 1, 0, 0, 1, 1, 1, 1, 1, 1]).acc 1 = 1 ∧
    (exec lockedP (init (fun _ => 0) (fun _ => 7)) [0, 1, 0, 1, 0, 0, 1, 0, 0, 1, 1, 1, 1, 1, 1]).pc 1 = 6 ∧
    races (exec lockedP (init (fun _ => 0) (fun _ => 7)) [0, 1, 0, 1, 0, 0, 1, 0, 0, 1, 1, 1, 1, 1, 1]).trace = [] :=
  ⟨goCalls_discipline [.locked 1] (by decide) lockedP locked_goCalls, by decide, by decide, by decide, by decide⟩

/-! ## the theorem can fail: one unprotected package-level counter

`ast.parse` before the fix: `capture_group_number = 0`, then for each regex group
`capture_group_number += 1` (a read and a write) and the group is named after the value read
back.  `global 0` is that counter. -/

/-- parse of a source with one regex group; the result (`acc`) is the group's number -/
def parseOneGroup : List Action :=
  [.write (.global 0) (fun _ => 0),          -- capture_group_number = 0
   .read (.global 0) (fun _ v => v),         -- tmp := capture_group_number
   .write (.global 0) (fun a => a + 1),      -- capture_group_number = tmp + 1
   .read (.global 0) (fun _ v => v)]         -- name the group "_<capture_group_number>"

def counterP : Tid → List Action := fun t => if t < 2 then parseOneGroup else []

/-- thread 0 resets; thread 1 resets, reads and increments; thread 0 reads the counter thread 1
has already incremented, increments it again and names its group; thread 1 names its group -/
def counterSchedule : List Tid := [0, 1, 1, 1, 0, 0, 0, 1]

/-- these two threads are `GoCalls [free]` — with one unprotected written package-level
variable the model allows them — and they do not satisfy the discipline -/
theorem counter_goCalls : GoCalls [.free] counterP := by
  intro t pc a h
  unfold counterP at h
  by_cases ht : t < 2
  · simp only [ht, if_true, parseOneGroup] at h
    match pc, h with
    | 0, h => simp at h; subst h; simp [ActionAllowed]
    | 1, h => simp at h; subst h; simp [ActionAllowed]
    | 2, h => simp at h; subst h; simp [ActionAllowed]
    | 3, h => simp at h; subst h; simp [ActionAllowed]
    | n + 4, h => simp at h
  · simp [ht] at h

/-- **The negation for the unfixed code.**  Both threads finish; alone each would name its
group `_1`; in this schedule thread 0 names it `_2` (thread 1's increment landed between thread
0's reset and thread 0's own increment), and the trace contains two
conflicting accesses not ordered by happens-before. -/
theorem C19_shared_counter_interferes :
    let σ := exec counterP (init (fun _ => 0) (fun _ => 0)) counterSchedule
    (∀ t, t < 2 → σ.pc t = (counterP t).length) ∧
    (seqRun (counterP 0) ⟨0, fun _ => 0⟩).acc = 1 ∧
    σ.acc 0 ≠ (seqRun (counterP 0) ⟨0, fun _ => 0⟩).acc ∧
    ¬ RaceFree σ.trace := by
  refine ⟨?_, by decide, by decide, ?_⟩
  · intro t ht
    match t, ht with
    | 0, _ => decide
    | 1, _ => decide
  · intro hrf
    -- positions 0 (thread 0 resets the counter) and 1 (thread 1 resets it)
    have hb := hrf 0 1 ⟨0, .wr (.global 0)⟩ ⟨1, .wr (.global 0)⟩ (by decide) (by decide) (by decide)
      ⟨by decide, .global 0, rfl, rfl, Or.inl rfl⟩
    have hall : ((exec counterP (init (fun _ => 0) (fun _ => 0)) counterSchedule).trace.all
        fun e => match e.kind with | .rel _ => false | _ => true) = true := by decide
    have hns : ∀ (i : Nat) (e : Event),
        (exec counterP (init (fun _ => 0) (fun _ => 0)) counterSchedule).trace[i]? = some e →
        ∀ m, e.kind ≠ .rel m := by
      intro i e hi m hk
      have := List.all_eq_true.1 hall e (List.mem_of_getElem? hi)
      simp [hk] at this
    obtain ⟨e, e', h0, h1, hte⟩ := HB_same_thread hns hb
    have e0 : (exec counterP (init (fun _ => 0) (fun _ => 0)) counterSchedule).trace[0]? = some ⟨0, .wr (.global 0)⟩ := by decide
    have e1 : (exec counterP (init (fun _ => 0) (fun _ => 0)) counterSchedule).trace[1]? = some ⟨1, .wr (.global 0)⟩ := by decide
    rw [e0] at h0; rw [e1] at h1
    injection h0 with h0; injection h1 with h1
    subst h0; subst h1
    exact absurd hte (by decide)

/-- the executable race check agrees on the witness (and names the unordered pairs) -/
example : (races (exec counterP (init (fun _ => 0) (fun _ => 0)) counterSchedule).trace).length ≠ 0 := by decide

end Vore.Props.C19

#print axioms Vore.Props.C19.C19_noninterference
#print axioms Vore.Props.C19.parser_state_confined
#print axioms Vore.Props.C19.calls_are_single_threads
#print axioms Vore.Props.C19.bytecode_readonly_at_run
#print axioms Vore.Props.C19.C19_compile_run
#print axioms Vore.Props.C19.C19_shared_counter_interferes
