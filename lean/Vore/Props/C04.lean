import Vore.Lemmas.Window
import Vore.Lemmas.Replace
import Vore.Lemmas.Ds
import Vore.Lemmas.ScanQueue
/-!
# C04 — all/skip/take/top/last select windows of one and the same match sequence

`A` is the result of `find all B`; the theorems say what every other clause returns, for every
instruction list `B` (any body), every input and every fuel.  Matches are unchanged (same
records, including `number`).  The hypothesis is that `find all B` itself returns (it could
diverge or panic on a program outside C09/C10's domain; a shorter window may still return then).
-/
namespace Vore
open Vore.Spec

/-- the window an arbitrary amount tuple selects is the one its clause describes -/
theorem C04_clause_window (cl : Clause) (hlast : ∀ n, cl = .last n → 1 ≤ n) (A : List Match) :
    window cl.amount A = select cl A := by
  cases cl with
  | all => simp [window, Clause.amount, select, limitLast]
  | top n => simp [window, Clause.amount, select, limitLast]
  | take n => simp [window, Clause.amount, select, limitLast]
  | skip s => simp [window, Clause.amount, select, limitLast]
  | skipTake s t =>
    simp only [window, Clause.amount, select, limitLast_zero, Bool.false_eq_true, if_false]
    rw [List.drop_take]
    congr 1
    omega
  | last n =>
    have := hlast n rfl
    have hn : (n != 0) = true := by simp; omega
    simp [window, Clause.amount, select, limitLast, hn]

/-- find: every clause returns the property's selection of the `find all` sequence -/
theorem C04_window (pf vf : Nat) (body : List Instr) (text : Bytes) (cl : Clause)
    (hlast : ∀ n, cl = .last n → 1 ≤ n) (A : List Match)
    (hall : findMatches pf vf body Clause.all.amount text = some (.ok A)) :
    findMatches pf vf body cl.amount text = some (.ok (select cl A)) := by
  rw [← C04_clause_window cl hlast A]
  exact findMatches_window pf vf body cl.amount text A hall

/-- any (all, skip, take, last) tuple, clause or not -/
theorem C04_window_amount (pf vf : Nat) (body : List Instr) (text : Bytes) (a : Amount) (A : List Match)
    (hall : findMatches pf vf body ⟨true, 0, 0, 0⟩ text = some (.ok A)) :
    findMatches pf vf body a text = some (.ok (window a A)) :=
  findMatches_window pf vf body a text A hall

/-- replace commands select the same located matches (replacements aside) -/
theorem C04_window_replace (pf vf : Nat) (fn : Bytes) (body : List Instr) (rep : List RInstr) (text : Bytes)
    (cl : Clause) (hlast : ∀ n, cl = .last n → 1 ≤ n) (A R : List Match)
    (hall : findMatches pf vf body Clause.all.amount text = some (.ok A))
    (hrep : runCmd pf vf fn text (.replace cl.amount body rep) = some (.ok R)) :
    R.map eraseRepl = (select cl A).map eraseRepl := by
  have hw := C04_window pf vf body text cl hlast A hall
  simp only [runCmd, hw, Option.some.injEq] at hrep
  exact replaceAll_fields pf fn rep _ _ R hrep

/-- non-vacuity: overlapping occurrences, `skip 1 take 1 'aa'` on `aaaa` -/
example : findMatches 10 100 [.lit false false [97, 97]] (Clause.skipTake 1 1).amount [97, 97, 97, 97] =
    (findMatches 10 100 [.lit false false [97, 97]] Clause.all.amount [97, 97, 97, 97]).map
      (fun r => match r with | .ok A => .ok ((A.drop 1).take 1) | x => x) := by rfl


/-! ## `last n` through the queue as written (libvore/ds/queue.go)

The scan model keeps the `last n` window with `limitLast`; the engine keeps it in a `ds.Queue`
(`matches.Push(m); if last != 0 { matches.Limit(last) }`, `Limit` = `for Size() > uint64(n) { Pop() }`).
`Model/Ds.lean` is that code as written; these theorems tie it to the list reading. -/

/-- one step of the engine's window = one step of the model's -/
theorem C04_queue_step (q : Ds.Queue Match) (m : Match) (last : Nat) :
    (if last != 0 then ((q.push m).limit (last : Int)).store else (q.push m).store) = limitLast last (q.store ++ [m]) :=
  Ds.push_limit_is_limitLast q m last

/-- **every history**: after pushing any sequence of matches with `Limit(n)` after each push (n ≥ 1) the queue holds
exactly the final `n` of them, unchanged and in order — `Spec.select (.last n)` of the sequence -/
theorem C04_queue_last_n (n : Nat) (hn : 1 ≤ n) (ms : List Match) :
    (ms.foldl (fun q m => (q.push m).limit (n : Int)) (Ds.Queue.new : Ds.Queue Match)).contents = ms.drop (ms.length - n) :=
  Ds.push_limit_history n hn ms

/-- `Limit` never removes more than asked, whatever the amount (a negative one converts to a huge unsigned bound) -/
theorem C04_queue_limit (q : Ds.Queue Match) (amount : Int) :
    (q.limit amount).store = q.store.drop (q.store.length - Ds.toU64 amount) :=
  Ds.limit_store q amount

/-- **the scan loop over the real queue**: `findMatches` written with `ds.Queue` exactly as search.go uses it
(`Push`, `Limit(last)` when `last != 0`, `Contents()` — `Vore.findMatchesQ`, Lemmas/ScanQueue.lean) is the same
function as the `findMatches` all theorems of C01, C03, C04 are about, for every program, amount tuple, text and fuel -/
theorem C04_scan_uses_queue_as_written (pf vf : Nat) (prog : List Instr) (amt : Amount) (text : Bytes) :
    findMatchesQ pf vf prog amt text = findMatches pf vf prog amt text :=
  findMatchesQ_eq pf vf prog amt text

/-- … so the window theorem holds for the loop with the container code as written -/
theorem C04_window_queue (pf vf : Nat) (body : List Instr) (text : Bytes) (cl : Clause) (hlast : ∀ n, cl = .last n → 1 ≤ n)
    (A : List Match) (hall : findMatchesQ pf vf body Clause.all.amount text = some (.ok A)) :
    findMatchesQ pf vf body cl.amount text = some (.ok (select cl A)) := by
  rw [C04_scan_uses_queue_as_written] at hall ⊢
  exact C04_window pf vf body text cl hlast A hall

/-- the queue as written is first-in first-out: any sequence of `Push` followed by as many `Pop` returns the pushed
values in order and leaves it empty; further `Pop`s return nil -/
theorem C04_queue_fifo (xs : List Match) (k : Nat) :
    Ds.Queue.popN (xs.length + k) (xs.foldl Ds.Queue.push (Ds.Queue.new : Ds.Queue Match)) =
      (xs.map some ++ List.replicate k none, ⟨[]⟩) :=
  Ds.fifo xs k

/-- non-vacuity: 1 2 3 4 through `Limit(2)` after every push leaves 3 4 -/
example : ([1, 2, 3, 4].foldl (fun q m => (q.push m).limit 2) (Ds.Queue.new : Ds.Queue Nat)).contents = [3, 4] := by decide

#print axioms C04_clause_window
#print axioms C04_window
#print axioms C04_window_amount
#print axioms C04_window_replace
#print axioms C04_queue_step
#print axioms C04_queue_last_n
#print axioms C04_queue_limit
#print axioms C04_queue_fifo
#print axioms C04_scan_uses_queue_as_written
#print axioms C04_window_queue

end Vore
