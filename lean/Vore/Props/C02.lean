import Vore.Props.C01
import Vore.Lemmas.Ds
/-!
# C02 — Captured variables are exactly the bindings of the successful path

The specification threads bindings as *values* along each path: a binding made inside an
alternative, loop iteration or optional group exists only in the data handed to that path's
continuation; when the path is abandoned the next alternative starts from the data *before* it.
`C02_bindings` says the VM reports exactly those bindings; the three lemmas spell out what the
specification's bindings are.
-/
namespace Vore
open Vore.Spec

/-- the variables reported with each match are those of the specification's successful path
(call-free fragment: captures under alternation, optional/repeated groups) -/
theorem C02_bindings (text : Bytes) (e : Expr) (hcf : CallFree e) (nid : Nat) (hne : codeLen e ≠ 0) :
    ∃ A, findAll text e = some A ∧
      ∀ pf, ∃ vf0, ∀ vf, vf0 ≤ vf → ∃ R, findMatches pf vf (genCF e 0 nid).1 ⟨true, 0, 0, 0⟩ text = some (.ok R) ∧
        R.map (·.vars) = A.map (·.vars) ∧ R.map (·.value) = A.map (·.value) := by
  obtain ⟨A, hA, h⟩ := C01_refines_partial text e hcf nid hne
  refine ⟨A, hA, fun pf => ?_⟩
  obtain ⟨vf0, hv⟩ := h pf
  refine ⟨vf0, fun vf hle => ⟨A, ?_, rfl, rfl⟩⟩
  have := hv vf hle ⟨true, 0, 0, 0⟩
  simpa [window, limitLast] using this

/-- the same through subroutines, recursion and global patterns (stage 2): whenever the specification of
the resolved program answers, the variables and values the VM reports are exactly the specification's -/
theorem C02_bindings_calls (G : GEnv) (e : Expr) (r : RExpr) (hr : resolveBody G e = some r)
    (hG : WfG G) (he : WfE e) (hne : lenR r ≠ 0)
    (text : Bytes) (pf cf nid : Nat) (A : List Match) (hA : findAllR text pf cf r = some A) :
    ∃ vf0, ∀ vf, vf0 ≤ vf → ∃ R, findMatches pf vf (genBody r nid).1 ⟨true, 0, 0, 0⟩ text = some (.ok R) ∧
      R.map (·.vars) = A.map (·.vars) ∧ R.map (·.value) = A.map (·.value) := by
  obtain ⟨vf0, hv⟩ := C01_refines_calls_source G e r hr hG he hne text pf cf nid A hA
  refine ⟨vf0, fun vf hle => ⟨A, ?_, rfl, rfl⟩⟩
  have := hv vf hle ⟨true, 0, 0, 0⟩
  simpa [window, limitLast] using this

/-- `= name` binds exactly the text consumed by its body on this path, in the data passed on -/
theorem C02_capture_value (text : Bytes) (lf : Nat) (x : String) (body : Expr) (d : Data) (ks : SK) (fk : FK) :
    m text lf (.dec x body) d ks fk =
      m text lf body d (fun d' fk' => ks { d' with env := d'.env.put x (.str (d'.cur.drop d.cur.length)) } fk') fk := rfl

/-- an abandoned alternative leaves nothing behind: the next alternative starts from the data
(position *and bindings*) the first one started from -/
theorem C02_alternative_isolated (text : Bytes) (lf : Nat) (l r : Expr) (d : Data) (ks : SK) (fk : FK) :
    m text lf (.branch l r) d ks fk = m text lf l d ks (fun _ => m text lf r d ks fk) := rfl

/-- a back-reference matches exactly the text currently bound to its name: it succeeds iff the name
is bound to a string `v` and the input continues with `v` (the empty string always does), and then
consumes exactly `v` -/
theorem C02_backref (text : Bytes) (x : String) (d d' : Data) :
    backrefD text x d = some d' ↔
      ∃ v, d.env.get x = some (.str v) ∧
        ((v = [] ∧ d' = d) ∨ (v ≠ [] ∧ readAt text d.pos v.length = v ∧ d' = consumeD text d v.length)) := by
  unfold backrefD
  constructor
  · intro h
    split at h
    · simp at h
    · simp at h
    · next v hv =>
      refine ⟨v, hv, ?_⟩
      split at h
      · next he => left; exact ⟨by simpa using he, by simpa using h.symm⟩
      · next he =>
        right
        have hne : v ≠ [] := by simpa using he
        unfold litD at h
        simp only [Bool.false_eq_true, if_false, bne_iff_ne, ne_eq] at h
        split at h
        · simp at h
        · split at h
          · next heq =>
            simp only [Option.some.injEq] at h
            have : v = readAt text d.pos v.length := by simpa using heq
            exact ⟨hne, this.symm, h.symm⟩
          · simp at h
  · rintro ⟨v, hv, h⟩
    simp only [hv]
    rcases h with ⟨rfl, rfl⟩ | ⟨hne, hr, rfl⟩
    · simp
    · have he : v.isEmpty = false := by cases v <;> simp_all
      simp only [he, Bool.false_eq_true, if_false, litD, hr]
      have hl : v.length ≠ 0 := by cases v <;> simp_all
      simp [hl]

/-- non-vacuity of `C02_backref`: an empty binding matches at end of input -/
example : backrefD [98] "x" ⟨1, 1, 2, [98], .cons "x" (.str []) .nil⟩ = some ⟨1, 1, 2, [98], .cons "x" (.str []) .nil⟩ := by
  rfl


/-! ## the engine's stacks as written (libvore/ds/stack.go)

The VM model keeps the backtrack, loop, variable and call stacks as lists (top first) inside each snapshot.  The
engine keeps them in `ds.Stack` (a slice, top last) and `SearchEngineState.Copy()` copies each with `Stack.Copy()`.
`Model/Ds.lean` is that code as written: -/

/-- the slice read from the top is a list: `Push` is cons, `Peek` is the head, `Pop` returns the head and leaves the tail -/
theorem C02_stack_is_list {α : Type} (s : Ds.Stack α) (v : α) :
    (s.push v).toList = v :: s.toList ∧ s.peek = s.toList.head? ∧ s.pop.1 = s.toList.head? ∧
      s.pop.2.toList = s.toList.tail ∧ (s.push v).pop = (some v, s) :=
  ⟨Ds.toList_push s v, Ds.peek_toList s, (Ds.pop_toList s).1, (Ds.pop_toList s).2, Ds.pop_push s v⟩

/-- `Copy()` (a new stack, every value pushed in order) holds the same values; being a value of its own here, a later
push on the copy cannot reach the original — what the correspondence checks of the real slice (`y` operations) -/
theorem C02_stack_copy {α : Type} (s : Ds.Stack α) (v : α) : s.copy = s ∧ (s.copy.push v).pop.2 = s :=
  ⟨Ds.copy_eq s, by rw [Ds.copy_eq, Ds.pop_push]⟩

/-- non-vacuity -/
example : ((Ds.Stack.new : Ds.Stack Nat).push 1 |>.push 2).toList = [2, 1] := by decide

#print axioms C02_bindings
#print axioms C02_bindings_calls
#print axioms C02_capture_value
#print axioms C02_alternative_isolated
#print axioms C02_backref
#print axioms C02_stack_is_list
#print axioms C02_stack_copy

end Vore
