import Vore.Lemmas.Replace
/-!
# C03 — Every reported match is a faithful, ordered, located slice of the input

Property theorems only.  `Spec.faithful` (Vore/Spec/Locate.lean) is the executable
predicate that is also run on the *implementation's* matches by the correspondence check.

The theorems hold for **every** instruction list (not only generated code), every amount
clause, every input and every fuel: the invariant is preserved by each VM instruction
(`stepOk_step`), by backtracking into any saved state, and by the scan loop.
The column claim is about byte columns (the Go code counts runes per consumed chunk; the two
agree on ASCII input, which is the property's stated domain for columns).
-/
namespace Vore
open Vore.Spec

/-- what `matchOk` says, unpacked -/
theorem C03_matchOk_meaning (text : Bytes) (m : Match) (h : matchOk text m = true) :
    m.startPos < m.endPos ∧ m.endPos ≤ text.length ∧ m.value = slice text m.startPos m.endPos ∧
    m.startLine = lineOf text m.startPos ∧ m.endLine = lineOf text m.endPos ∧
    m.startCol = colOf text m.startPos ∧ m.endCol = colOf text m.endPos ∧ mapSubB m.value m.vars = true := by
  simp only [matchOk, Bool.and_eq_true, decide_eq_true_eq, beq_iff_eq] at h
  obtain ⟨⟨⟨⟨⟨⟨⟨h1, h2⟩, h3⟩, h4⟩, h5⟩, h6⟩, h7⟩, h8⟩ := h
  exact ⟨h1, h2, h3, h4, h5, h6, h7, h8⟩

/-- find commands -/
theorem C03_faithful (pf vf : Nat) (prog : List Instr) (amt : Amount) (text : Bytes) (ms : List Match)
    (h : findMatches pf vf prog amt text = some (.ok ms)) : faithful text ms = true :=
  findMatches_faithful pf vf prog amt text ms h

/-- find and replace commands: the result of one command is faithful; a replace command reports
the same located matches as its search, plus replacements -/
theorem C03_command (pf vf : Nat) (filename text : Bytes) (c : BCmd) (ms : List Match)
    (h : runCmd pf vf filename text c = some (.ok ms)) : faithful text ms = true := by
  cases c with
  | find amt code => exact C03_faithful pf vf code amt text ms h
  | replace amt code rep =>
    simp only [runCmd] at h
    split at h
    · next found hf =>
      simp only [Option.some.injEq] at h
      rw [faithful_of_erase_eq text ms found (replaceAll_fields pf filename rep found.length found ms h)]
      exact C03_faithful pf vf code amt text found hf
    · cases h
    · cases h
    · cases h
  | setPattern _ _ _ => simp only [runCmd, Option.some.injEq, Res.ok.injEq] at h; subst h; rfl
  | setTransform _ _ => simp only [runCmd, Option.some.injEq, Res.ok.injEq] at h; subst h; rfl
  | setMatches _ _ => simp only [runCmd, Option.some.injEq, Res.ok.injEq] at h; subst h; rfl

/-- non-vacuity: a concrete run that reports two matches on two lines -/
example : ∃ ms, findMatches 10 100 [.lit false false [97], .cls false .digit] ⟨true, 0, 0, 0⟩
    [97, 49, 10, 97, 50] = some (.ok ms) ∧ ms.length = 2 := by
  refine ⟨_, rfl, rfl⟩

#print axioms C03_matchOk_meaning
#print axioms C03_faithful
#print axioms C03_command

end Vore
