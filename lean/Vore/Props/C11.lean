import Vore.Lemmas.DocEval
import Vore.Lemmas.Pratt
/-!
# C11 — Process expressions evaluate as the documented operator table says

Evaluation:
* `Vore/Spec/DocOps.lean` is the documented operator table (33 rows) and coercion table,
  transcribed cell by cell, with the documented value `DocOps.eval ρ e` of an expression.
* `evalExpr` (`Vore/Model/Process.lean`) is the model of `executeExpression`; its binary and
  unary cases are tied to /repo's current source by the regenerated `goEval`
  (`C11_evaluator_is_table`: `evalBin = evalFromTable goEval`, `evalUn = unFromTable goEval`,
  hence `evalExpr = evalExprWith goEval`; re-checked whenever `Vore/Extracted.lean` changes).
* `C11_cells`: every documented cell of the regenerated table computes the documented value,
  for ALL operand values (finite case analysis over operator × operand types).
* `C11_eval`: for every well-typed expression and every environment of the assumed types the
  evaluator returns the documented value (structural induction).  A zero divisor is the
  separate documented outcome `divByZero` ↔ Go's "integer divide by zero" panic.

Precedence:
* `Vore/Model/Pratt.lean` transcribes `parse_expr_pratt`; `Vore/Spec/Grammar.lean` is the
  documented stratified grammar (`* / %` > `+ -` > `< > <= >=` > `== !=` > `and or`, left
  associative, prefix operators tightest) with its two printers.
* `C11_prec_tables`: the regenerated `isPrefixOp`/`prefixPrecedence`/`isBinaryOp`/
  `infixPrecedence`/`isProcessExprEnd` implement those strata (`decide`).
* `C11_pratt`: for every expression tree, parsing its fully parenthesised rendering and parsing
  its minimally parenthesised rendering both return the tree (induction on the tree with the
  binding-power invariant), also through `parse_process_expression` in front of any
  expression-ending token (`then`, `end`, `set`, … and end of input).

Integer arithmetic is modelled on `Int`; Go's wrap-around beyond 2^63 is outside the model
(trusted base).
-/
namespace Vore
open Vore.Tables Vore.Extracted Vore.Spec Vore.Spec.Typing Vore.Spec.Grammar Vore.Pratt

/-- the model's evaluator is the regenerated Go dispatch table -/
theorem C11_evaluator_is_table :
    (∀ op l r, evalBin op l r = evalFromTable goEval op l r)
    ∧ (∀ op v, unFromTable goEval op v = .val (evalUn op v))
    ∧ (∀ ρ e, evalExpr ρ e = evalExprWith goEval ρ e)
    ∧ elsePanicsOK goEval = true :=
  ⟨evalBin_eq_table, evalUn_eq_table, evalExpr_eq_table, goEval_else_panics⟩

/-- every documented cell (operator, operand types) of the regenerated table computes the
documented value, whatever the operand values; the result has the documented type -/
theorem C11_cells (op : Op) (l r : PVal) (t : PT) (h : DocOps.binType l.type r.type op = some t) :
    (DocOps.evalBin op l r).toEvalRes = some (evalFromTable goEval op l r)
    ∧ ∀ v, DocOps.evalBin op l r = .val v → v.type = t :=
  goEval_cells_documented op l r t h

/-- the unary cells -/
theorem C11_cells_unary (op : Op) (v : PVal) (t : PT) (h : DocOps.unType v.type op = some t) :
    (DocOps.evalUn op v).toEvalRes = some (unFromTable goEval op v) ∧ (evalUn op v).type = t := by
  obtain ⟨h1, h2⟩ := evalUn_documented op v t h
  rw [h1, evalUn_eq_table]
  exact ⟨rfl, h2⟩

/-- for every well-typed expression and every environment whose variables have the assumed
types, the evaluator computes the documented value -/
theorem C11_eval (Γ : Env) (ρ : PEnv) (e : PExpr) (t : PT)
    (hty : HasType Γ e t) (hρ : Models ρ Γ) :
    (DocOps.eval ρ e).toEvalRes = some (evalExpr ρ e) :=
  (evalExpr_documented hρ hty).1

/-- the same for the table-driven evaluator, plus type preservation -/
theorem C11_eval_table (Γ : Env) (ρ : PEnv) (e : PExpr) (t : PT)
    (hty : HasType Γ e t) (hρ : Models ρ Γ) :
    (DocOps.eval ρ e).toEvalRes = some (evalExprWith goEval ρ e)
    ∧ ∀ v, DocOps.eval ρ e = .val v → v.type = t := by
  rw [← evalExpr_eq_table]
  exact evalExpr_documented hρ hty

/-- the regenerated precedence tables implement the documented strata, and no token of a
rendering ends an expression -/
theorem C11_prec_tables : PrecOK goPrec = true ∧ ExprEndOK goPrec = true := by
  constructor <;> decide

/-- the Pratt parser reads back both renderings of every expression tree -/
theorem C11_pratt (t : PExpr) (hwf : WF t) :
    parseTokens goPrec (renderFull t) = .ok t []
    ∧ parseTokens goPrec (renderMin 1 t) = .ok t [] :=
  ⟨parseTokens_renderFull C11_prec_tables.1 t hwf, parseTokens_renderMin C11_prec_tables.1 t hwf⟩

/-- … and so does `parse_process_expression` when the rendering is followed by a token that
ends an expression (`then`, `end`, `set`, …): it returns the tree and stops in front of it -/
theorem C11_pratt_in_statement (t : PExpr) (hwf : WF t) (e : PTok) (he : isExprEnd goPrec e = true)
    (rest : List PTok) :
    parseProcessExpression goPrec (renderFull t ++ e :: rest) = .ok t (e :: rest)
    ∧ parseProcessExpression goPrec (renderMin 1 t ++ e :: rest) = .ok t (e :: rest) := by
  obtain ⟨h1, h2⟩ := C11_pratt t hwf
  have ne : ∀ toks : List PTok, parseTokens goPrec toks = .ok t [] → toks.isEmpty = false := by
    intro toks h
    cases toks with
    | nil => simp [parseTokens, pratt] at h
    | cons _ _ => rfl
  constructor
  · simp only [parseProcessExpression,
      exprTokens_ok C11_prec_tables.2 e he rest _ (renderFull_ok t hwf), h1, ne _ h1]
    rfl
  · simp only [parseProcessExpression,
      exprTokens_ok C11_prec_tables.2 e he rest _ (renderMin_ok t hwf 1), h2, ne _ h2]
    rfl

/-! ## non-vacuity -/

/-- `'7' * n + (match == 'ab')`-style: a well-typed expression over an environment of the
assumed types; the documented value is a value -/
example : HasType initEnv (.bin .plus (.bin .mult (.str [55]) (.var "matchLength")) (.bool true)) .number :=
  .bin (.bin (.str _) (.var _) (by simp [initEnv]; rfl)) (.bool _) rfl

example : Models [("matchLength", .num 3)] initEnv := by
  intro x
  unfold lookup PEnv.get initEnv
  by_cases h : x = "matchLength"
  · subst h; simp [List.find?, PVal.type]
  · have e : ("matchLength" == x) = false := by simp [Ne.symm h]
    simp [List.find?, e, h, PVal.type]

example : DocOps.eval [("matchLength", .num 3)]
      (.bin .plus (.bin .mult (.str [55]) (.var "matchLength")) (.bool true)) = .val (.num 22) := by
  simp [DocOps.eval, PEnv.get, List.find?]; rfl

/-- a documented cell with a hypothesis that holds: `string - number` -/
example : DocOps.binType (PVal.str [49, 50]).type (PVal.num 5).type .minus = some .number := rfl

/-- a well-formed tree that needs parentheses in both positions:
`(1 + 2) * (3 - (4 - 5)) and not (a or b)` -/
def exampleTree : PExpr :=
  .bin .and
    (.bin .mult (.bin .plus (.num 1) (.num 2)) (.bin .minus (.num 3) (.bin .minus (.num 4) (.num 5))))
    (.un .not (.bin .or (.var "a") (.var "b")))

example : WF exampleTree := by simp [exampleTree, WF, binaryOps, prefixOps]

example : renderMin 1 exampleTree =
    [.lparen, .num 1, .op .plus, .num 2, .rparen, .op .mult, .lparen, .num 3, .op .minus, .lparen, .num 4,
     .op .minus, .num 5, .rparen, .rparen, .op .and, .op .not, .lparen, .ident "a", .op .or, .ident "b", .rparen] := by
  decide

example : isExprEnd goPrec (.op (.other "THEN")) = true := by decide

end Vore

#print axioms Vore.C11_evaluator_is_table
#print axioms Vore.C11_cells
#print axioms Vore.C11_cells_unary
#print axioms Vore.C11_eval
#print axioms Vore.C11_eval_table
#print axioms Vore.C11_prec_tables
#print axioms Vore.C11_pratt
#print axioms Vore.C11_pratt_in_statement
