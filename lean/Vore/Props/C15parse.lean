import Vore.Lemmas.ParserFinal
/-!
# C15 (parser part) — whitespace and comments between tokens, and keyword spelling, never change
what the parser builds

Property C15: "Inserting whitespace, line comments or block comments between any two tokens of a
program, or changing the letter case of its keywords, yields a program that is accepted exactly when
the original is and that parses to the same syntax tree".

At token level: `strip ts` removes the WS and COMMENT tokens and forgets everything the parser
cannot observe (offsets; the lexeme of every token except IDENTIFIER, NUMBER, STRING, REGEXP — so
also the spelling / letter case of keywords).  `Grammar.parse` (`Vore/Spec/ParserGrammar.lean`) is a
second, index-free parser written directly over the stripped list; it never skips anything.

`C15_parser`: the real parser's model, which has to remember to call `consumeIgnoreableTokens` at
every one of its ~80 token accesses, computes exactly `Grammar.parse (strip ts)`.  The proof goes
function by function (`Lemmas/ParserLeaves`, `ParserPratt`, `ParserExpr`, `ParserStmt`, `ParserCmd`)
from the two facts about `consumeIgnoreableTokens` (`skip_spec`); a call site that forgot to skip
makes its case unprovable — this is how the seven patched sites were found.

Errors: the relation identifies all parse errors (message and position are not part of C15:
`parse_process_statements` for example reports a different message at end of input depending on
trailing blanks).
-/
namespace Vore.Parser
open Vore Vore.Grammar

variable {rx : Bytes → RegexOutcome} {ts ts' : List Token}

/-- `parse ts ≈ Grammar.parse (strip ts)` : same tree, or both a syntax error -/
theorem C15_parser (hrx : ∀ b, rx b ≠ .panic) (h : EndsEof ts) :
    Agree (parse rx ts) (Grammar.parse rx (strip ts)) :=
  sim_agree (parse_agree hrx h)

/-- **C15, parser.** Two token lists with the same significant tokens (same kinds, same lexemes of
identifiers / numbers / strings / regex literals; any layout, any comments, any keyword spelling)
are accepted together and give the same tree. -/
theorem C15_parser_layout (hrx : ∀ b, rx b ≠ .panic) (h : EndsEof ts) (h' : EndsEof ts')
    (hs : strip ts = strip ts') : Same (parse rx ts) (parse rx ts') := by
  have a := C15_parser hrx h
  have b := C15_parser hrx h'
  rw [hs] at a
  exact same_of_agree a b

/-! ### per region (each function at a significant token, with the fuel `parse` hands out) -/

theorem C15_amount (h : EndsEof ts) {i : Nat} (hi : i < ts.length) :
    Agree (parseAmount ts i) (pAmount (strip (ts.drop i))) := sim_agree (parseAmount_sim h hi)

theorem C15_expression (hrx : ∀ b, rx b ≠ .panic) (h : EndsEof ts) {i : Nat} {t : Token}
    (htk : tk ts i = some t) (hs : ignorable t.kind = false) :
    Agree (parseExpression rx ts (fuelOf ts) i) (pExpression rx (fuelOf ts) (strip (ts.drop i))) :=
  sim_agree ((expr_sim hrx h (fuelOf ts)).expr i t htk hs (by have := lt_of_tk htk; unfold fuelOf; omega))

theorem C15_processExpression (h : EndsEof ts) {i : Nat} (hi : i < ts.length) :
    Agree (parseProcessExpression ts i) (pProcessExpression (strip (ts.drop i))) :=
  sim_agree (parseProcessExpression_sim h hi)

/-- statements: same tree and same rest; or both errors; or the model stops at the final EOF where
the grammar reports an error (every caller then reports one too, see `simSt_bind`) -/
theorem C15_statements (h : EndsEof ts) {i : Nat} (hi : i < ts.length) :
    SimSt ts i (parseStatements ts (fuelOf ts) i) (pStatements (fuelOf ts) (strip (ts.drop i))) :=
  (stmt_sim h (fuelOf ts)).stmts i hi (by unfold fuelOf; omega)

theorem C15_command (hrx : ∀ b, rx b ≠ .panic) (h : EndsEof ts) {i : Nat} {t : Token}
    (htk : tk ts i = some t) (hs : ignorable t.kind = false) :
    SimC ts i (parseCommand rx ts (fuelOf ts) (fuelOf ts) i)
      (pCommand rx (fuelOf ts) (fuelOf ts) (strip (ts.drop i))) := by
  have hi := lt_of_tk htk
  exact (cmd_sim hrx h (F := fuelOf ts) (by unfold fuelOf; omega) (fuelOf ts)).cmd i t htk hs
    (by unfold fuelOf; omega)

/-! ### non-vacuity -/

def lyTok (k : Tok) (lex : Bytes := []) : Token := { kind := k, lexeme := lex }

/-- `find all 'a'`  and  `FIND --c\n  all\t'a' ` -/
def layoutA : List Token := [lyTok .find [102, 105, 110, 100], lyTok .ws [32], lyTok .all, lyTok .ws [32], lyTok .string [97], lyTok .eof]
def layoutB : List Token :=
  [lyTok .find [70, 73, 78, 68], lyTok .ws [32], lyTok .comment [45, 45, 99], lyTok .ws [10, 32, 32], lyTok .all, lyTok .ws [9],
   lyTok .string [97], lyTok .ws [32], lyTok .eof]

theorem C15_example_hyp : EndsEof layoutA ∧ EndsEof layoutB ∧ strip layoutA = strip layoutB :=
  ⟨⟨layoutA.dropLast, lyTok .eof, rfl, rfl, by decide⟩, ⟨layoutB.dropLast, lyTok .eof, rfl, rfl, by decide⟩, by decide +kernel⟩

theorem C15_example_same : Same (parse (fun _ => .error) layoutA) (parse (fun _ => .error) layoutB) :=
  C15_parser_layout (by intro b; simp) C15_example_hyp.1 C15_example_hyp.2.1 C15_example_hyp.2.2

/-- the grammar really parses: it builds the `find` command from the stripped tokens -/
theorem C15_example_grammar :
    (match Grammar.parse (fun _ => .error) (strip layoutB) with
      | .ok [Cmd.find ⟨true, 0, 0, 0⟩ (.seq (.atom (.str false false [97])) .empty)] _ => true
      | _ => false) = true := by decide +kernel

end Vore.Parser

#print axioms Vore.Parser.C15_parser
#print axioms Vore.Parser.C15_parser_layout
#print axioms Vore.Parser.C15_amount
#print axioms Vore.Parser.C15_expression
#print axioms Vore.Parser.C15_processExpression
#print axioms Vore.Parser.C15_statements
#print axioms Vore.Parser.C15_command
#print axioms Vore.Parser.C15_example_hyp
#print axioms Vore.Parser.C15_example_same
#print axioms Vore.Parser.C15_example_grammar
