import Vore.Lemmas.PathList
/-!
# C20 — A -files pattern selects exactly the files it describes

Model: `Vore/Model/Path.lean` (`pathMatches` as fixed by `fixes/C20-glob.diff`, `ParsePath`,
`GetFileList`, and the directory-tree model of `os.ReadDir`).  Specification:
`Vore/Spec/Glob.lean`.  All theorems are for every name, pattern, directory string and tree;
proofs in `Vore/Lemmas/Glob.lean` and `Vore/Lemmas/PathList.lean`.
-/
namespace Vore.Props.C20
open Vore Vore.Path
open Vore.Spec.Glob (NoStarOnlyDir NoDotSegments relSegments startDir render selected)

/-- The segment matcher decides the glob relation (as the recursive decision procedure). -/
theorem C20_segment (name pat : Bytes) : Path.pathMatches name pat = Spec.Glob.matches pat name :=
  Lemmas.Glob.pathMatches_eq name pat

/-- … and so the relation as the property words it: every byte for itself, `*` for any run. -/
theorem C20_segment_relation (name pat : Bytes) :
    Path.pathMatches name pat = true ↔ Spec.Glob.Matches pat name := by
  rw [C20_segment]; exact Lemmas.Glob.matches_iff pat name

/-- `ParsePath(pattern).GetFileList(dir)` returns — as a list, in directory order — the
regular files below the starting directory whose path matches the pattern segment by
segment.  `start` is the (well-formed) tree at the starting directory: `dir` for a relative
pattern, `/` for an absolute one.  `NoDotSegments` is in the statement because the property
excludes such patterns (under the literal segment-by-segment reading a `.` segment selects
nothing, which is also what the code does; the property does not want that claimed as
intended, see the FIXME in path.go); the proof does not need it. -/
theorem C20_list (fs : FS) (pattern dir : Bytes) (start : Dir) (anc : List Dir)
    (hne : pattern ≠ [])
    (hp : NoStarOnlyDir pattern ∧ NoDotSegments pattern)
    (hstart : fs.resolve (startDir pattern dir) = some (start :: anc)) (hwf : start.wf = true) :
    Path.fileList fs.readDir pattern dir = .ok (selected start pattern dir) :=
  Lemmas.PathList.fileList_spec fs pattern dir start anc hne hp.1 hstart hwf

/-- The same as a statement about *which* files: there is a duplicate-free list of relative
paths, containing exactly the paths that name a regular file of the tree (never a
directory) and match the pattern, such that the result is that list written out, again
without duplicates. -/
theorem C20_list_exact (fs : FS) (pattern dir : Bytes) (start : Dir) (anc : List Dir)
    (hne : pattern ≠ [])
    (hp : NoStarOnlyDir pattern ∧ NoDotSegments pattern)
    (hstart : fs.resolve (startDir pattern dir) = some (start :: anc)) (hwf : start.wf = true) :
    ∃ paths : List (List Bytes),
      Path.fileList fs.readDir pattern dir = .ok (paths.map (render (startDir pattern dir))) ∧
      (∀ x, x ∈ paths ↔
        (start.isRegularFile x = true ∧ Spec.Glob.pathMatches (relSegments pattern) x = true)) ∧
      paths.Nodup ∧ (paths.map (render (startDir pattern dir))).Nodup := by
  refine ⟨start.regularFiles.filter (Spec.Glob.pathMatches (relSegments pattern)),
    C20_list fs pattern dir start anc hne hp hstart hwf, ?_, ?_, ?_⟩
  · intro x
    rw [List.mem_filter, Lemmas.PathList.isRegularFile_iff start hwf x]
  · exact (Lemmas.PathList.regularFiles_nodup start hwf).filter _
  · exact Lemmas.PathList.rendered_nodup start hwf _ _

/-- The form of DESIGN §6: equal up to permutation to the filtered enumeration. -/
theorem C20_list_perm (fs : FS) (pattern dir : Bytes) (start : Dir) (anc : List Dir)
    (hne : pattern ≠ [])
    (hp : NoStarOnlyDir pattern ∧ NoDotSegments pattern)
    (hstart : fs.resolve (startDir pattern dir) = some (start :: anc)) (hwf : start.wf = true) :
    ∃ out, Path.fileList fs.readDir pattern dir = .ok out ∧ out.Perm (selected start pattern dir) ∧ out.Nodup :=
  ⟨_, C20_list fs pattern dir start anc hne hp hstart hwf, List.Perm.refl _,
    Lemmas.PathList.rendered_nodup start hwf _ _⟩

/-! ## non-vacuity: the hypotheses hold of an ordinary tree and pattern, and files are selected -/

/-- `d/` holding `a.txt`, `a.txt.txt`, `sub/` (holding `c.txt`) and, beside `d`, the file `e.txt` -/
def exTree : Dir :=
  .sub [100] (.file [97, 46, 116, 120, 116] (.file [97, 46, 116, 120, 116, 46, 116, 120, 116]
    (.sub [115, 117, 98] (.file [99, 46, 116, 120, 116] .nil) .nil))) (.file [101, 46, 116, 120, 116] .nil)

def exFS : FS := ⟨exTree, [exTree]⟩

/-- `d/*.txt` -/
def exPattern : Bytes := [100, 47, 42, 46, 116, 120, 116]

/-- `/d*/s*/*.txt` -/
def exAbsPattern : Bytes := [47, 100, 42, 47, 115, 42, 47, 42, 46, 116, 120, 116]

example : exPattern ≠ [] ∧ (NoStarOnlyDir exPattern ∧ NoDotSegments exPattern) ∧
    exFS.resolve (startDir exPattern [46]) = some [exTree] ∧ exTree.wf = true := by decide

example : exAbsPattern ≠ [] ∧ (NoStarOnlyDir exAbsPattern ∧ NoDotSegments exAbsPattern) ∧
    exFS.resolve (startDir exAbsPattern [46]) = some [exTree] ∧ exTree.wf = true := by decide

/-- `./d/a.txt` and `./d/a.txt.txt` (the file the unfixed matcher missed); not `sub`, not `e.txt` -/
example : Path.fileList exFS.readDir exPattern [46] =
    .ok [[46, 47, 100, 47, 97, 46, 116, 120, 116], [46, 47, 100, 47, 97, 46, 116, 120, 116, 46, 116, 120, 116]] := by
  decide

example : selected exTree exAbsPattern [46] = [[47, 47, 100, 47, 115, 117, 98, 47, 99, 46, 116, 120, 116]] := by
  decide

example : Spec.Glob.Matches [42, 46, 116, 120, 116] [97, 46, 116, 120, 116, 46, 116, 120, 116] :=
  (C20_segment_relation _ _).mp (by decide)

end Vore.Props.C20

#print axioms Vore.Props.C20.C20_segment
#print axioms Vore.Props.C20.C20_segment_relation
#print axioms Vore.Props.C20.C20_list
#print axioms Vore.Props.C20.C20_list_exact
#print axioms Vore.Props.C20.C20_list_perm
