import Vore.Lemmas.LexTokens
import Vore.Model.LexSource
/-!
# C08 (lexer half) — the lexer is total

*For every byte string given as source, Compile returns … either a program and no error, or no
program and an error whose message can be printed; it never panics, never loops forever …*

Lexer part.  `Vore.Lex.lex` (Vore/Model/Lexer.lean) is defined **without fuel**, by well-founded
recursion on the unread input: Lean accepted `loop` because every iteration reads a byte
(`read_rest_lt`, `readEscape_rest_le`) and `getTokens` because every token other than EOF consumes at
least one byte (`getNextToken_progress`) — that is the "never loops forever" half.  The theorem below
is the "never panics / token list well formed / bounded output" half.  The three Go panics of the
lexer are outcomes of the model (`popPanic`: `unread` on an empty position stack, `convPanic`:
`HexToAscii`, `finalPanic`: `default:` of the final switch) and are proved unreachable, over the final
switch table and the `IsHex` ranges re-extracted from the Go source on every run.

Domain: the byte model `lex` is exact for ASCII sources; a source that is not ASCII is lexed through its class
image (`lexSource`, Vore/Model/LexSource.lean and Unicode.lean: UTF-8 decoding as `ReadRune` does it, then one byte
per rune standing for its `unicode.IsLetter/IsDigit/IsSpace` class), and `C08_lexer_total_all_sources` is the
statement for every byte string.
-/
namespace Vore.Lex
open Vore Vore.ExtractedLex

/-- the text of `LexError.Error()`: kind message plus the token span -/
def errorText (e : ErrKind) (startOff endOff : Nat) : String :=
  s!"LexError: {e.message} ({startOff} - {endOff})"

/-- **C08, lexer.**  For every string over the lexer's alphabet (ASCII and the class bytes of non-ASCII runes:
every byte string) the lexer returns either a token list that ends in
exactly one EOF token (no EOF before the end) with at most one token per source byte plus the EOF,
or a lex error of one of the four printable kinds; it never panics. -/
theorem C08_lexer_total (src : Bytes) :
    (∃ ts, lex src = .tokens ts ∧
        (∃ pre e, ts = pre ++ [e] ∧ e.kind = .eof ∧ ∀ t ∈ pre, t.kind ≠ .eof) ∧
        ts.length ≤ src.length + 1) ∨
    (∃ e a b, lex src = .lexError e a b ∧ errorText e a b ≠ "") := by
  rcases getTokens_ok (initLexer src) with ⟨ts, h1, h2, h3⟩ | ⟨e, a, b, h⟩
  · exact Or.inl ⟨ts, h1, h2, h3⟩
  · refine Or.inr ⟨e, a, b, h, ?_⟩
    cases e <;> simp [errorText, ErrKind.message] <;> decide

/-- **C08, lexer, every byte string.**  `lexSource` decodes the source into the runes `ReadRune` delivers (invalid
UTF-8 included: U+FFFD, one byte at a time) and lexes their class image; for EVERY byte string it returns a token
list ending in exactly one EOF token, with at most one token per source byte plus the EOF, or one of the four
printable lex errors — never a panic; and on ASCII sources it is `lex`. -/
theorem C08_lexer_total_all_sources (src : Bytes) :
    ((∃ ts, lexSource src = .tokens ts ∧
        (∃ pre e, ts = pre ++ [e] ∧ e.kind = .eof ∧ ∀ t ∈ pre, t.kind ≠ .eof) ∧
        ts.length ≤ src.length + 1) ∨
      (∃ e a b, lexSource src = .lexError e a b ∧ errorText e a b ≠ "")) ∧
    ((∀ b ∈ src, b < 128) → lexSource src = lex src) := by
  refine ⟨?_, lexSource_ascii src⟩
  have hlen := Vore.Unicode.abstractSource_length src
  rcases C08_lexer_total (Vore.Unicode.abstractSource src) with ⟨ts, h1, h2, h3⟩ | h
  · exact Or.inl ⟨ts, h1, h2, by omega⟩
  · exact Or.inr h

/-- corollary: no panic -/
theorem C08_lexer_no_panic (src : Bytes) (m : String) : lex src ≠ .panic m := by
  rcases getTokens_ok (initLexer src) with ⟨ts, h1, _, _⟩ | ⟨e, a, b, h⟩
  · unfold lex; rw [h1]; simp
  · unfold lex; rw [h]; simp

/-- **the facts the totality proof reads off the current Go source**: every lexer state other than
SSTART has a `case` in the final switch (so `default: panic("Unknown final state")` is dead), the
model knows all states, and what `IsHex` accepts `HexToAscii` can convert -/
theorem C08_lexer_tables :
    (∀ s : St, goFinal.lookup s = finalSpec s) ∧
    goStates = St.all ∧
    (∀ a b : UInt8, isHex a = true → isHex b = true → (hexToAscii a b).isSome) :=
  ⟨goFinal_spec, goStates_spec, hexToAscii_isSome⟩

/-- every iteration of the loop that continues has consumed a byte; a token other than EOF has
consumed at least one byte (the termination measures, restated) -/
theorem C08_lexer_progress (r : Reader) (t : Token) (r' : Reader)
    (h : getNextToken r = .tok t r') (hk : t.kind ≠ .eof) : r'.rest.length < r.rest.length :=
  getNextToken_progress r t r' h hk

/-! non-vacuity: both disjuncts occur -/
example : ∃ ts, lex [] = .tokens ts := ⟨_, getTokens_nil 0 none⟩

example : lex [39, 92, 120, 52, 49, 39] = .tokens [⟨.string, [65], 0, 6⟩, ⟨.eof, [], 6, 6⟩] := by
  have h : Spells .single [.hex 52 49] [65] := ⟨by simp only [okAll, Sp.ok]; decide, rfl⟩
  simpa [literal, renderAll, Sp.render, Quote.byte] using lex_literal _ _ _ h

/-- `#` is not a token: a printable error, not a panic -/
example : lex [35] = .lexError .unknownToken 0 1 := by
  have h : getNextToken ⟨[35], 0, none⟩ = .err .unknownToken 0 1 := by
    unfold getNextToken
    rw [loop_cons _ _ _ _ _ _ (by decide)]
    have : step .start 35 = .brk .error true := by decide
    simp [this, finalAct_err_of_spec .error _ .unknownToken rfl]
  exact getTokens_err _ _ _ _ h

end Vore.Lex

#print axioms Vore.Lex.C08_lexer_total
#print axioms Vore.Lex.C08_lexer_total_all_sources
#print axioms Vore.Lex.C08_lexer_no_panic
#print axioms Vore.Lex.C08_lexer_tables
#print axioms Vore.Lex.C08_lexer_progress
