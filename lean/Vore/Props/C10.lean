import Vore.Props.C01
import Vore.Lemmas.TotalR
/-!
# C10 — A search without unguarded recursion always terminates

Proved here for every program without subroutines (no recursion at all): loops whose body can
match the empty string, nested unbounded loops, zero-width anchors under `at least 0`, `not in`
at end of input — the search returns for every input, under every amount clause.  The argument is
the one the property names: the specification is total because an optional iteration that consumed
nothing is rejected and consumption is bounded by the text (`Lemmas/SpecTotal.lean`), and the VM
follows the specification step for step (`Lemmas/Sim.lean`), so it stops too.

Stage 2 (`C10_terminates_guarded`, `C10_spec_total_guarded`): programs with inline subroutines, global
patterns and **recursion**.  "Without unguarded recursion" is formalised as `GuardedP`/`okCalls`
(`Lemmas/TotalR.lean`): every call either stands behind something that must consume at least one byte
since the enclosing subroutine body was entered (a literal, a non-negated consuming class, `not in`, a
sequence/alternation of such), or goes to a subroutine of strictly smaller rank (so the unguarded part of
the call graph is acyclic); predicates must evaluate.  The measure is (text left at body entry, rank),
lexicographic; call depth `(|text| + 1) * R` is never exhausted.  `guardedB` is a decidable sufficient
form for predicate-free programs.  PARTIAL: the criterion is conservative (a call guarded only by
another call's or a loop's consumption is not recognised); named loops are outside
`resolveBody`; both are left to the correspondence run, which enumerates nullable nests exhaustively and
checks the real engine against a step budget.
-/
namespace Vore
open Vore.Spec

/-- every call-free search terminates: some fuel makes `findMatches` return, whatever the input,
the amount clause and the predicate fuel -/
theorem C10_terminates_callfree (text : Bytes) (e : Expr) (hcf : CallFree e) (nid : Nat) (hne : codeLen e ≠ 0)
    (pf : Nat) (amt : Amount) :
    ∃ vf0, ∀ vf, vf0 ≤ vf → ∃ ms, findMatches pf vf (genCF e 0 nid).1 amt text = some (.ok ms) := by
  obtain ⟨A, _, h⟩ := C01_refines_partial text e hcf nid hne
  obtain ⟨vf0, hv⟩ := h pf
  exact ⟨vf0, fun vf hle => ⟨_, hv vf hle amt⟩⟩

/-- the specification itself always answers (loop fuel `|text| + 2` is never exhausted) -/
theorem C10_spec_total (text : Bytes) (e : Expr) (hcf : CallFree e) : findAll text e ≠ none :=
  findAll_total text e hcf

/-- more fuel never changes an answer -/
theorem C10_fuel_monotone (pf : Nat) (prog : List Instr) (text : Bytes) (n k : Nat) (s : VMState) (o : Outcome)
    (h : run pf prog text n s = some o) : run pf prog text (n + k) s = some o :=
  run_mono pf prog text n k s o h

/-- the specification answers for every program without unguarded recursion: call depth
`(|text| + 1) * R` suffices, whatever the input -/
theorem C10_spec_total_guarded (r : RExpr) (pf : Nat) (rk : Nat → Nat) (R : Nat)
    (hG : GuardedP pf (procsOf r) rk R) (hpe : predsOK pf r) (hok : okCalls (procsOf r) rk false R r = true)
    (text : Bytes) (cf : Nat) (hcf : (text.length + 1) * R ≤ cf) : findAllR text pf cf r ≠ none :=
  findAllR_total text pf cf r rk R hG hpe hok hcf

/-- a search without unguarded recursion terminates: for every input some fuel makes the VM, running
the generated code of the resolved body, return — and what it returns is the specification's answer
under every amount clause -/
theorem C10_terminates_guarded (G : GEnv) (e : Expr) (r : RExpr) (hr : resolveBody G e = some r)
    (hu : UniqueSubs r) (hwf : WfR r) (hne : lenR r ≠ 0)
    (pf : Nat) (rk : Nat → Nat) (R : Nat)
    (hG : GuardedP pf (procsOf r) rk R) (hpe : predsOK pf r) (hok : okCalls (procsOf r) rk false R r = true)
    (text : Bytes) (nid : Nat) :
    ∃ A vf0, ∀ vf, vf0 ≤ vf → ∀ amt, findMatches pf vf (genBody r nid).1 amt text = some (.ok (window amt A)) := by
  cases hA : findAllR text pf ((text.length + 1) * R) r with
  | none => exact absurd hA (findAllR_total text pf _ r rk R hG hpe hok (Nat.le_refl _))
  | some A =>
    obtain ⟨vf0, hv⟩ := C01_refines_calls G e r hr hu hwf hne text pf _ nid A hA
    exact ⟨A, vf0, hv⟩

/-- the same with hypotheses on the source only (`WfG`, `WfE`: no empty `in` list) -/
theorem C10_terminates_guarded_source (G : GEnv) (e : Expr) (r : RExpr) (hr : resolveBody G e = some r)
    (hGw : WfG G) (he : WfE e) (hne : lenR r ≠ 0)
    (pf : Nat) (rk : Nat → Nat) (R : Nat)
    (hG : GuardedP pf (procsOf r) rk R) (hpe : predsOK pf r) (hok : okCalls (procsOf r) rk false R r = true)
    (text : Bytes) (nid : Nat) :
    ∃ A vf0, ∀ vf, vf0 ≤ vf → ∀ amt, findMatches pf vf (genBody r nid).1 amt text = some (.ok (window amt A)) :=
  C10_terminates_guarded G e r hr (resolveBody_unique G e r hr) (resolveBody_wf G e r hGw he hr) hne pf rk R hG hpe hok text nid

/-- decidable form: predicate-free programs with a rank table -/
theorem C10_terminates_guardedB (G : GEnv) (e : Expr) (r : RExpr) (hr : resolveBody G e = some r)
    (hu : UniqueSubs r) (hwf : WfR r) (hne : lenR r ≠ 0) (ranks : List (Nat × Nat)) (R : Nat)
    (hg : guardedB r ranks R = true) (pf : Nat) (text : Bytes) (nid : Nat) :
    ∃ A vf0, ∀ vf, vf0 ≤ vf → ∀ amt, findMatches pf vf (genBody r nid).1 amt text = some (.ok (window amt A)) := by
  obtain ⟨hG, hpe, hok⟩ := guardedB_sound pf r ranks R hg
  exact C10_terminates_guarded G e r hr hu hwf hne pf _ R hG hpe hok text nid

/-- non-vacuity: the property's own recursive example `set p to pattern {'a' maybe q 'b'} = q 'd'`,
`find all p` is guarded (the call of `q` stands behind `'a'`), with all ranks 0 -/
example : ∃ r, resolveBody [("p", .seq (.sub "q" (.seq (.atom (.str false false [97])) (.seq (.loop 0 1 false "" (.var "q"))
      (.seq (.atom (.str false false [98])) .empty)))) (.seq (.atom (.str false false [100])) .empty), .skip)]
      (.seq (.var "p") .empty) = some r ∧ guardedB r [] 1 = true := by
  refine ⟨_, rfl, by decide⟩

/-- an unguarded recursion is rejected by the criterion: `{maybe q 'a'} = q` -/
example : ∃ r, resolveBody [] (.seq (.sub "q" (.seq (.loop 0 1 false "" (.var "q")) (.seq (.atom (.str false false [97])) .empty))) .empty)
      = some r ∧ ∀ R, guardedB r [] R = false := by
  refine ⟨_, rfl, ?_⟩
  intro R
  simp [guardedB, predFreeB, okCalls, procsOf, rkOf, mc, Procs.find, seqOf]

/-- non-vacuity: nested unbounded loops over a nullable body -/
example : CallFree (.loop 0 (-1) false "" (.loop 0 (-1) false "" (.loop 0 1 false "" (.atom (.cls false .lineStart))))) ∧
    codeLen (.loop 0 (-1) false "" (.loop 0 (-1) false "" (.loop 0 1 false "" (.atom (.cls false .lineStart))))) ≠ 0 := by
  simp [CallFree, codeLen]

#print axioms C10_terminates_callfree
#print axioms C10_spec_total
#print axioms C10_fuel_monotone
#print axioms C10_spec_total_guarded
#print axioms C10_terminates_guarded
#print axioms C10_terminates_guardedB
#print axioms C10_terminates_guarded_source

end Vore
