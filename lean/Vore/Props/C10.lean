import Vore.Props.C01
/-!
# C10 — A search without unguarded recursion always terminates

Proved here for every program without subroutines (no recursion at all): loops whose body can
match the empty string, nested unbounded loops, zero-width anchors under `at least 0`, `not in`
at end of input — the search returns for every input, under every amount clause.  The argument is
the one the property names: the specification is total because an optional iteration that consumed
nothing is rejected and consumption is bounded by the text (`Lemmas/SpecTotal.lean`), and the VM
follows the specification step for step (`Lemmas/Sim.lean`), so it stops too.

PARTIAL: programs with (guarded) recursive subroutines are outside this theorem; the correspondence
run enumerates nullable nests exhaustively and checks the real engine against a step budget.
-/
namespace Vore
open Vore.Spec

/-- every call-free search terminates: some fuel makes `findMatches` return, whatever the input,
the amount clause and the predicate fuel -/
theorem C10_terminates_callfree (text : Bytes) (e : Expr) (hcf : CallFree e) (nid : Nat) (hne : codeLen e ≠ 0)
    (pf : Nat) (amt : Amount) :
    ∃ vf0, ∀ vf, vf0 ≤ vf → ∃ ms, findMatches pf vf (genCF e 0 nid).1 amt text = some (.ok ms) := by
  obtain ⟨A, _, h⟩ := C01_refines_partial text e hcf nid hne
  obtain ⟨vf0, hv⟩ := h pf
  exact ⟨vf0, fun vf hle => ⟨_, hv vf hle amt⟩⟩

/-- the specification itself always answers (loop fuel `|text| + 2` is never exhausted) -/
theorem C10_spec_total (text : Bytes) (e : Expr) (hcf : CallFree e) : findAll text e ≠ none :=
  findAll_total text e hcf

/-- more fuel never changes an answer -/
theorem C10_fuel_monotone (pf : Nat) (prog : List Instr) (text : Bytes) (n k : Nat) (s : VMState) (o : Outcome)
    (h : run pf prog text n s = some o) : run pf prog text (n + k) s = some o :=
  run_mono pf prog text n k s o h

/-- non-vacuity: nested unbounded loops over a nullable body -/
example : CallFree (.loop 0 (-1) false "" (.loop 0 (-1) false "" (.loop 0 1 false "" (.atom (.cls false .lineStart))))) ∧
    codeLen (.loop 0 (-1) false "" (.loop 0 (-1) false "" (.loop 0 1 false "" (.atom (.cls false .lineStart))))) ≠ 0 := by
  simp [CallFree, codeLen]

#print axioms C10_terminates_callfree
#print axioms C10_spec_total
#print axioms C10_fuel_monotone

end Vore
