import Vore.Lemmas.LexTokens
import Vore.Model.VM
/-!
# C16 — String literals denote exactly the bytes their escapes describe

*For every ASCII byte string b, a vore string literal that spells b using either quote style, the
documented escapes (`\n \t \r \a \b \f \v`, `\xHH`, backslash before any other character meaning that
character) or the raw characters, matches the text b and nothing else of that length; an incomplete
`\x` escape keeps all of its following characters.*

Specification: `Vore/Spec/StringLit.lean` (`Sp`, `okAll`, `denoteAll`, `literal`, `Spells`).
Model: `Vore/Model/Lexer.lean` (`lex`), defined from the tables in `Vore/ExtractedLex.lean`, which are
regenerated from libvore/ast/lexer.go on every check; `Vore/Model/VM.lean` (`VMState.matchLit`).
All theorems are for all lengths (induction on the spelling), not enumerations.
Domain: ASCII sources (`Sp.ok` demands every source character `< 128`, not NUL).
-/
namespace Vore.Lex
open Vore Vore.ExtractedLex

/-- **The regenerated tables are the documented ones**: `getEscapedRune` maps exactly the seven
named escape letters (and is the identity elsewhere), `IsHex` accepts exactly `0-9a-fA-F`, and the
lexer never asks bufio to take back more than the one rune it can (`unread(n)` only with `n = 1`). -/
theorem C16_tables :
    (∀ c : UInt8, getEscapedRune c = (docEscape c).getD c) ∧
    (∀ c : UInt8, isHex c = (hexVal c).isSome) ∧
    (∀ n ∈ goUnreads, n = 1) :=
  ⟨getEscapedRune_spec, isHex_spec, goUnreads_single⟩

/-- **A string literal anywhere in a program** (followed by any text `rest`, at any offset) is lexed
as one STRING token spanning exactly the literal, whose lexeme is the byte string the spelling
denotes. -/
theorem C16_literal_in_context (q : Quote) (sps : List Sp) (rest : Bytes) (pos : Nat) (last : Option UInt8)
    (hok : okAll q (q.byte :: rest) sps) :
    getNextToken ⟨q.byte :: (renderAll sps ++ q.byte :: rest), pos, last⟩ =
      .tok ⟨.string, denoteAll sps, pos, pos + (renderAll sps).length + 2⟩
        ⟨rest, pos + (renderAll sps).length + 2, some q.byte⟩ :=
  getNextToken_string q sps rest pos last hok

/-- **C16, lexer half.**  For every byte string `b`, every spelling `sps` of `b` and both quote
styles, the lexer turns the literal into exactly `[STRING b, EOF]`. -/
theorem C16_literal (q : Quote) (sps : List Sp) (b : Bytes) (h : Spells q sps b) :
    lex (literal q sps) =
      .tokens [⟨.string, b, 0, (literal q sps).length⟩,
               ⟨.eof, [], (literal q sps).length, (literal q sps).length⟩] :=
  lex_literal q sps b h

theorem renderAll_append (xs ys : List Sp) : renderAll (xs ++ ys) = renderAll xs ++ renderAll ys := by
  simp [renderAll]

theorem denoteAll_append (xs ys : List Sp) : denoteAll (xs ++ ys) = denoteAll xs ++ denoteAll ys := by
  simp [denoteAll]

theorem okAll_append (q : Quote) (tail : Bytes) (xs ys : List Sp) :
    okAll q tail (xs ++ ys) ↔ okAll q (renderAll ys ++ tail) xs ∧ okAll q tail ys := by
  induction xs with
  | nil => simp [okAll]
  | cons x xs ih =>
    simp only [List.cons_append, okAll, ih, renderAll_append, List.append_assoc]
    constructor
    · rintro ⟨a, b, c⟩; exact ⟨⟨a, b⟩, c⟩
    · rintro ⟨⟨a, b⟩, c⟩; exact ⟨a, b, c⟩

/-- **C16, incomplete `\x`.**  `\x` that is not followed by two hexadecimal digits denotes `x`
followed by exactly what the following characters denote on their own (nothing is dropped): a
literal `q sps1 \x sps2 q` whose text after `\x` does not begin with two hex digits lexes to the
STRING `denote sps1 ++ "x" ++ denote sps2`. -/
theorem C16_badhex (q : Quote) (sps1 sps2 : List Sp)
    (h1 : okAll q (92 :: 120 :: (renderAll sps2 ++ [q.byte])) sps1)
    (h2 : okAll q [q.byte] sps2)
    (hbad : ¬ twoHex (renderAll sps2 ++ [q.byte])) :
    lex (q.byte :: (renderAll sps1 ++ 92 :: 120 :: (renderAll sps2 ++ [q.byte]))) =
      .tokens [⟨.string, denoteAll sps1 ++ 120 :: denoteAll sps2, 0, (renderAll sps1).length + (renderAll sps2).length + 4⟩,
               ⟨.eof, [], (renderAll sps1).length + (renderAll sps2).length + 4,
                 (renderAll sps1).length + (renderAll sps2).length + 4⟩] := by
  have hsp : Spells q (sps1 ++ Sp.esc 120 :: sps2) (denoteAll sps1 ++ 120 :: denoteAll sps2) := by
    constructor
    · rw [okAll_append]
      refine ⟨?_, ?_, h2⟩
      · simpa [renderAll, Sp.render] using h1
      · refine ⟨by decide, by decide, by decide, fun _ => hbad⟩
    · simp [denoteAll, Sp.denote]
  have := C16_literal q _ _ hsp
  have hl : literal q (sps1 ++ Sp.esc 120 :: sps2) =
      q.byte :: (renderAll sps1 ++ 92 :: 120 :: (renderAll sps2 ++ [q.byte])) := by
    simp [literal, renderAll, Sp.render]
  have hn : (literal q (sps1 ++ Sp.esc 120 :: sps2)).length =
      (renderAll sps1).length + (renderAll sps2).length + 4 := by
    rw [hl]; simp; omega
  rw [hn, hl] at this
  exact this

/-! ## every ASCII byte string has a spelling in either quote style (the theorems are not vacuous) -/

def hexChar (d : UInt8) : UInt8 := if d < 10 then 48 + d else 87 + d

/-- the all-`\xHH` spelling -/
def hexSpelling (b : Bytes) : List Sp := b.map (fun v => Sp.hex (hexChar (v / 16)) (hexChar (v % 16)))

theorem hexSp_ok : ∀ v : UInt8, v < 128 →
    ((hexVal (hexChar (v / 16))).isSome ∧ (hexVal (hexChar (v % 16))).isSome ∧
      (hexVal (hexChar (v / 16))).getD 0 * 16 + (hexVal (hexChar (v % 16))).getD 0 < 128) ∧
    (hexVal (hexChar (v / 16))).getD 0 * 16 + (hexVal (hexChar (v % 16))).getD 0 = v := by
  apply all_u8
  set_option maxRecDepth 100000 in decide

/-- every ASCII byte string can be spelled (for instance with `\xHH` throughout) in either quote style -/
theorem C16_spelling_exists (q : Quote) (b : Bytes) (hb : ∀ v ∈ b, v < 128) : ∃ sps, Spells q sps b := by
  refine ⟨hexSpelling b, ?_, ?_⟩
  · induction b with
    | nil => simp [hexSpelling, okAll]
    | cons v vs ih =>
      refine ⟨(hexSp_ok v (hb v (by simp))).1, ?_⟩
      exact ih (fun x hx => hb x (by simp [hx]))
  · induction b with
    | nil => rfl
    | cons v vs ih =>
      simp only [hexSpelling, List.map_cons, denoteAll, Sp.denote] at ih ⊢
      rw [(hexSp_ok v (hb v (by simp))).2, ih (fun x hx => hb x (by simp [hx]))]

/-- hence: for every ASCII byte string and either quote style there is a literal that lexes to it -/
theorem C16_literal_exists (q : Quote) (b : Bytes) (hb : ∀ v ∈ b, v < 128) :
    ∃ src, ∃ n, lex src = .tokens [⟨.string, b, 0, n⟩, ⟨.eof, [], n, n⟩] := by
  obtain ⟨sps, h⟩ := C16_spelling_exists q b hb
  exact ⟨literal q sps, _, C16_literal q sps b h⟩

/-! ## matching half: the literal's instruction matches exactly the bytes `b` -/

/-- **C16, matching half.**  The VM instruction generated for a (non-negated, case-sensitive)
literal `b ≠ ""` succeeds at the current position `p` iff `text[p, p+|b|) = b`; it then consumes
exactly those `|b|` bytes, and otherwise backtracks.  With `C16_literal`: a literal matches the
bytes its spelling denotes and nothing else of that length. -/
theorem C16_lit_match (text : Bytes) (s : VMState) (b : Bytes) (hb : b ≠ []) :
    s.matchLit text b false false =
      (if s.core.pos + b.length ≤ text.length ∧ (text.drop s.core.pos).take b.length = b
       then s.consumeNext text b.length else s.backtrack) ∧
    (s.core.pos + b.length ≤ text.length → (text.drop s.core.pos).take b.length = b →
      (s.core.consume text b.length).pos = s.core.pos + b.length ∧
      (s.core.consume text b.length).cur = s.core.cur ++ b) := by
  have hlen : b.length ≠ 0 := by cases b <;> simp_all
  by_cases hfit : s.core.pos + b.length ≤ text.length
  · have hr : readAt text s.core.pos b.length = (text.drop s.core.pos).take b.length := by
      unfold readAt
      rw [if_neg (by omega)]
    have hl : ((text.drop s.core.pos).take b.length).length = b.length := by
      simp only [List.length_take, List.length_drop]; omega
    constructor
    · simp only [VMState.matchLit, hr, hl, hlen, ↓reduceIte, Bool.false_eq_true, hfit, true_and]
      by_cases heq : (text.drop s.core.pos).take b.length = b
      · simp [heq]
      · have hne : (b == (text.drop s.core.pos).take b.length) = false := by
          simp only [beq_eq_false_iff_ne, ne_eq]; exact fun h => heq h.symm
        simp [heq, hne]
    · intro _ heq
      simp only [Core.consume, hr, heq]
      exact ⟨trivial, trivial⟩
  · have hr : readAt text s.core.pos b.length = [] := by
      unfold readAt
      rw [if_pos (by omega)]
    constructor
    · simp [VMState.matchLit, hr, hfit]
    · intro h; exact absurd h hfit

/-! ## non-vacuity: concrete instances of the hypotheses -/

/-- `'\x41b\n\'\q'` (hex, raw, named, escaped quote, escaped ordinary character) spells `Ab\n'q` -/
example : Spells .single [.hex 52 49, .raw 98, .named 110, .esc 39, .esc 113] [65, 98, 10, 39, 113] := by
  refine ⟨?_, rfl⟩
  simp only [okAll, Sp.ok]
  decide

/-- `"\xZZ"`: `\x` without hex digits keeps both `Z`s (the pinned commit lost one) -/
example : lex [34, 92, 120, 90, 90, 34] = .tokens [⟨.string, [120, 90, 90], 0, 6⟩, ⟨.eof, [], 6, 6⟩] := by
  have := C16_badhex .double [] [.raw 90, .raw 90] (by simp [okAll]) (by simp [okAll, Sp.ok, Quote.byte])
    (by simp [renderAll, Sp.render, twoHex, hexVal])
  simpa [renderAll, Sp.render, denoteAll, Sp.denote, Quote.byte] using this

/-- a raw single quote inside a double-quoted literal, and vice versa -/
example : Spells .double [.raw 39] [39] ∧ Spells .single [.raw 34] [34] := by
  refine ⟨⟨?_, rfl⟩, ⟨?_, rfl⟩⟩ <;> simp [okAll, Sp.ok, Quote.byte]

end Vore.Lex

#print axioms Vore.Lex.C16_tables
#print axioms Vore.Lex.C16_literal_in_context
#print axioms Vore.Lex.C16_literal
#print axioms Vore.Lex.C16_badhex
#print axioms Vore.Lex.C16_spelling_exists
#print axioms Vore.Lex.C16_literal_exists
#print axioms Vore.Lex.C16_lit_match
