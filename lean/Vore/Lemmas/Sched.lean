import Vore.Model.Sched
/-!
# Vore.Lemmas.Sched — invariants of the interleaving model (for `Vore/Props/C19.lean`)

Two inductions over the schedule, both for an arbitrary family of threads:

* `ResInv`  — every thread's accumulator equals that of its own sequential run up to its
              program counter; read-only locations keep their initial value; a location
              confined to thread `o` has the value `o`'s sequential run gives it;
* `RaceInv` — the trace is race free.  The lock argument is the classical one: an earlier
              access under `m` is followed by its owner's unlock of `m`, which precedes the
              *last* lock of `m`, which is by the current holder, which precedes its access.
-/
namespace Vore.Sched

/-! ## small facts -/

@[simp] theorem upd_same {α β} [DecidableEq α] (f : α → β) (x : α) (v : β) : upd f x v x = v := by
  simp [upd]

theorem upd_other {α β} [DecidableEq α] (f : α → β) (x y : α) (v : β) (h : y ≠ x) : upd f x v y = f y := by
  simp [upd, h]

theorem getElem?_snoc {α} (c : List α) (e x : α) (i : Nat) :
    (c ++ [e])[i]? = some x ↔ c[i]? = some x ∨ (i = c.length ∧ x = e) := by
  by_cases h : i < c.length
  · rw [List.getElem?_append_left h]
    constructor
    · intro h'; exact Or.inl h'
    · intro h'
      cases h' with
      | inl h' => exact h'
      | inr h' => omega
  · have hn : c[i]? = none := by simp; omega
    rw [List.getElem?_append_right (by omega), hn]
    by_cases h2 : i = c.length
    · subst h2; simp [eq_comm]
    · have : i - c.length ≠ 0 := by omega
      cases hk : i - c.length with
      | zero => omega
      | succ k => simp [h2]

theorem lt_of_getElem?_some {α} {c : List α} {i : Nat} {x : α} (h : c[i]? = some x) : i < c.length := by
  by_cases h' : i < c.length
  · exact h'
  · have : c[i]? = none := by simp; omega
    rw [this] at h; cases h

namespace Action

theorem storeAfter_other (a : Action) (acc : Val) (st : Loc → Val) (g : Loc)
    (h : a.target ≠ some g) : a.storeAfter acc st g = st g := by
  cases a <;> simp [storeAfter, target] at * <;> (apply upd_other; exact fun h' => h h'.symm)

theorem storeAfter_nowrite (a : Action) (acc : Val) (st : Loc → Val) (g : Loc)
    (h : a.target = some g → a.isWrite = false) : a.storeAfter acc st g = st g := by
  cases a <;> simp [storeAfter, target, isWrite] at * <;> (apply upd_other; exact fun h' => h h'.symm)

theorem storeAfter_congr (a : Action) (acc : Val) (st st' : Loc → Val) (g : Loc)
    (h : st g = st' g) : a.storeAfter acc st g = a.storeAfter acc st' g := by
  cases a with
  | write g' e => simp only [storeAfter, upd]; split <;> simp_all
  | rmw g' f => simp only [storeAfter, upd]; split <;> simp_all
  | _ => simpa [storeAfter] using h

theorem accAfter_congr (a : Action) (acc : Val) (st st' : Loc → Val)
    (h : ∀ g, a.target = some g → a.isWrite = false → st g = st' g) :
    a.accAfter acc st = a.accAfter acc st' := by
  cases a with
  | read g k => simp [accAfter, h g rfl rfl]
  | _ => rfl

theorem ev_loc? (a : Action) : a.ev.loc? = a.target := by
  cases a <;> rfl

theorem ev_wr {a : Action} {g : Loc} (h : a.ev = .wr g) : a.target = some g ∧ a.isWrite = true := by
  cases a <;> simp [ev, target, isWrite] at * <;> exact h

theorem holderAfter_of_target {a : Action} {g : Loc} (h : a.target = some g) (t : Tid)
    (hd : Mutex → Option Tid) : a.holderAfter t hd = hd := by
  cases a <;> simp [target] at h <;> rfl

theorem ev_ne_rel_of_target {a : Action} {g : Loc} (h : a.target = some g) (m : Mutex) : a.ev ≠ .rel m := by
  cases a <;> simp [target] at h <;> simp [ev]

end Action

/-! ## a thread alone -/

theorem seqAt_succ {as : List Action} {n : Nat} {a : Action} (s0 : SeqState) (h : as[n]? = some a) :
    seqAt as s0 (n + 1) = seqStep (seqAt as s0 n) a := by
  simp [seqAt, h]

theorem heldAt_succ {as : List Action} {n : Nat} {a : Action} (m : Mutex) (h : as[n]? = some a) :
    heldAt as m (n + 1) = a.heldAfter m (heldAt as m n) := by
  simp [heldAt, h]

theorem freshAt_succ {as : List Action} {n : Nat} {a : Action} (g : Loc) (m : Mutex) (h : as[n]? = some a) :
    freshAt as g m (n + 1) = a.freshAfter g m (freshAt as g m n) := by
  simp [freshAt, h]

/-- `seqAt` at `n` is the sequential run of the first `n` actions -/
theorem seqAt_eq_take (as : List Action) (s0 : SeqState) (n : Nat) :
    seqAt as s0 n = seqRun (as.take n) s0 := by
  induction n with
  | zero => simp [seqAt, seqRun]
  | succ n ih =>
    rw [List.take_add_one]
    cases h : as[n]? with
    | none => simp [seqAt, h, ih]
    | some a => simp [seqAt, h, ih, seqRun, List.foldl_append]

/-- a finished thread: `seqAt` at the end is the sequential result of the whole call -/
theorem seqAt_length (as : List Action) (s0 : SeqState) : seqAt as s0 as.length = seqRun as s0 := by
  rw [seqAt_eq_take, List.take_length]

/-- a location the thread never writes keeps its initial value in the thread's own run -/
theorem seqAt_store_unwritten (as : List Action) (s0 : SeqState) (g : Loc)
    (h : ∀ (n : Nat) (a : Action), as[n]? = some a → a.target = some g → a.isWrite = false) (n : Nat) :
    (seqAt as s0 n).store g = s0.store g := by
  induction n with
  | zero => rfl
  | succ n ih =>
    cases ha : as[n]? with
    | none => simp [seqAt, ha, ih]
    | some a =>
      rw [seqAt_succ s0 ha]
      simp only [seqStep]
      rw [Action.storeAfter_nowrite _ _ _ _ (h n a ha), ih]

/-! ## step, case by case -/

theorem step_cases (P : Tid → List Action) (σ : State) (t : Tid) :
    step P σ t = σ ∨ ∃ a, (P t)[σ.pc t]? = some a ∧ a.enabled σ.holder = true ∧ step P σ t = fire σ t a := by
  unfold step
  cases h : (P t)[σ.pc t]? with
  | none => exact Or.inl rfl
  | some a =>
    by_cases he : a.enabled σ.holder = true
    · exact Or.inr ⟨a, rfl, he, by simp [he]⟩
    · left; simp [he]

theorem exec_induction (P : Tid → List Action) (Inv : State → Prop)
    (hstep : ∀ σ t a, Inv σ → (P t)[σ.pc t]? = some a → a.enabled σ.holder = true → Inv (fire σ t a))
    (σ : State) (h0 : Inv σ) (s : List Tid) : Inv (exec P σ s) := by
  induction s generalizing σ with
  | nil => exact h0
  | cons t s ih =>
    simp only [exec, List.foldl_cons]
    apply ih
    cases step_cases P σ t with
    | inl h => rw [h]; exact h0
    | inr h =>
      obtain ⟨a, ha, he, hs⟩ := h
      rw [hs]; exact hstep σ t a h0 ha he

theorem snoc_left {α} {c : List α} {i : Nat} {x : α} (e : α) (h : c[i]? = some x) : (c ++ [e])[i]? = some x :=
  (getElem?_snoc _ _ _ _).2 (Or.inl h)

theorem snoc_last {α} (c : List α) (e : α) : (c ++ [e])[c.length]? = some e :=
  (getElem?_snoc _ _ _ _).2 (Or.inr ⟨rfl, rfl⟩)

/-- the holder of `m` after `fire`, when the action is neither `lock m` nor `unlock m` -/
theorem holderAfter_other (a : Action) (t : Tid) (h : Mutex → Option Tid) (m : Mutex)
    (h1 : a.ev ≠ .acq m) (h2 : a.ev ≠ .rel m) : a.holderAfter t h m = h m := by
  cases a with
  | lock m' =>
    have : m ≠ m' := by intro hm; subst hm; exact h1 rfl
    simp [Action.holderAfter, upd_other _ _ _ _ this]
  | unlock m' =>
    have : m ≠ m' := by intro hm; subst hm; exact h2 rfl
    simp [Action.holderAfter, upd_other _ _ _ _ this]
  | _ => rfl


/-- facts about the two mutex actions, from the `held` invariant -/
theorem lock_free {σ : State} {a : Action} (he : a.enabled σ.holder = true) (m : Mutex) (hm : a.ev = .acq m) :
    σ.holder m = none := by
  cases a <;> simp [Action.ev] at hm
  subst hm
  simpa [Action.enabled] using he

theorem held_fire (P : Tid → List Action) (hwl : WellLocked P) (σ : State) (t : Tid) (a : Action)
    (hheld : ∀ (t : Tid) (m : Mutex), heldAt (P t) m (σ.pc t) = true → σ.holder m = some t)
    (ha : (P t)[σ.pc t]? = some a) (he : a.enabled σ.holder = true) :
    ∀ (t' : Tid) (m : Mutex), heldAt (P t') m ((fire σ t a).pc t') = true → (fire σ t a).holder m = some t' := by
  have hunlock : ∀ m, a.ev = .rel m → σ.holder m = some t := by
    intro m hm
    cases a <;> simp [Action.ev] at hm
    subst hm
    exact hheld t _ (hwl t _ _ ha)
  intro t' m h
  simp only [fire] at h ⊢
  by_cases ht : t' = t
  · subst ht
    rw [upd_same, heldAt_succ m ha] at h
    cases a with
    | lock m' =>
      simp only [Action.heldAfter] at h
      simp only [Action.holderAfter]
      by_cases hm : m' = m
      · subst hm; simp
      · simp only [hm, if_false] at h
        rw [upd_other _ _ _ _ (fun x => hm x.symm)]
        exact hheld t' m h
    | unlock m' =>
      simp only [Action.heldAfter] at h
      simp only [Action.holderAfter]
      by_cases hm : m' = m
      · subst hm; simp at h
      · simp only [hm, if_false] at h
        rw [upd_other _ _ _ _ (fun x => hm x.symm)]
        exact hheld t' m h
    | read g k => exact hheld t' m h
    | write g e => exact hheld t' m h
    | rmw g f => exact hheld t' m h
    | loc f => exact hheld t' m h
  · rw [upd_other _ _ _ _ ht] at h
    have hold := hheld t' m h
    rw [holderAfter_other]
    · exact hold
    · intro hacq
      rw [lock_free he m hacq] at hold; cases hold
    · intro hrel
      rw [hunlock m hrel] at hold
      injection hold with hold
      exact ht hold.symm

/-! ## results: every thread computes what it computes alone -/

structure ResInv (P : Tid → List Action) (acc0 : Tid → Val) (store0 : Loc → Val) (σ : State) : Prop where
  acc : ∀ t, σ.acc t = (seqAt (P t) ⟨acc0 t, store0⟩ (σ.pc t)).acc
  ro : ∀ g, ¬ Written P g → σ.store g = store0 g
  conf : ∀ g o, ConfinedTo P g o → σ.store g = (seqAt (P o) ⟨acc0 o, store0⟩ (σ.pc o)).store g
  /-- a thread that holds `m` by its own program is the holder -/
  held : ∀ (t : Tid) (m : Mutex), heldAt (P t) m (σ.pc t) = true → σ.holder m = some t
  /-- inside a critical section, a guarded location the thread has written there has the
  value the thread's own sequential run gives it -/
  crit : ∀ (g : Loc) (m : Mutex) (t : Tid), Guarded P g m → heldAt (P t) m (σ.pc t) = true →
    freshAt (P t) g m (σ.pc t) = true → σ.store g = (seqAt (P t) ⟨acc0 t, store0⟩ (σ.pc t)).store g

theorem resInv_init (P : Tid → List Action) (acc0 : Tid → Val) (store0 : Loc → Val) :
    ResInv P acc0 store0 (init acc0 store0) :=
  ⟨fun _ => rfl, fun _ _ => rfl, fun _ _ _ => rfl, fun t m h => by simp [init, heldAt] at h,
   fun _ _ _ _ _ _ => rfl⟩

theorem resInv_fire (P : Tid → List Action) (acc0 : Tid → Val) (store0 : Loc → Val)
    (hwl : WellLocked P)
    (hdisc : ∀ g, Written P g → Confined P g ∨ LockProtected P g)
    (σ : State) (t : Tid) (a : Action) (inv : ResInv P acc0 store0 σ)
    (ha : (P t)[σ.pc t]? = some a) (he : a.enabled σ.holder = true) : ResInv P acc0 store0 (fire σ t a) := by
  have hseq := seqAt_succ (as := P t) ⟨acc0 t, store0⟩ ha
  -- what `a` reads (without writing) has the value the sequential run sees
  have hread : ∀ g, a.target = some g → a.isWrite = false →
      σ.store g = (seqAt (P t) ⟨acc0 t, store0⟩ (σ.pc t)).store g := by
    intro g hg hw
    by_cases hwr : Written P g
    · cases hdisc g hwr with
      | inl hc =>
        obtain ⟨o, ho⟩ := hc
        have : t = o := ho t _ a ha hg
        subst this
        exact inv.conf g t ho
      | inr hl =>
        obtain ⟨m, hm, hb⟩ := hl
        cases hb with
        | inl hb =>
          have := hb t _ a ha hg
          cases a <;> simp [Action.isRmw, Action.isWrite] at this hw
        | inr hb => exact inv.crit g m t hm (hm t _ a ha hg) (hb t _ a ha hg hw)
    · rw [inv.ro g hwr]
      symm
      apply seqAt_store_unwritten (s0 := ⟨acc0 t, store0⟩)
      intro n b hb hbg
      cases hbw : b.isWrite with
      | false => rfl
      | true => exact absurd ⟨t, n, b, hb, hbg, hbw⟩ hwr
  refine ⟨?_, ?_, ?_, held_fire P hwl σ t a inv.held ha he, ?_⟩
  · intro t'
    by_cases ht : t' = t
    · subst ht
      simp only [fire, upd_same]
      rw [hseq]
      simp only [seqStep]
      rw [← inv.acc t']
      exact Action.accAfter_congr a _ _ _ hread
    · simp only [fire, upd_other _ _ _ _ ht]
      exact inv.acc t'
  · intro g hg
    simp only [fire]
    rw [Action.storeAfter_nowrite, inv.ro g hg]
    intro htg
    cases hw : a.isWrite with
    | false => rfl
    | true => exact absurd ⟨t, _, a, ha, htg, hw⟩ hg
  · intro g o hc
    by_cases ht : o = t
    · subst ht
      simp only [fire, upd_same]
      rw [hseq]
      simp only [seqStep]
      rw [← inv.acc o]
      exact Action.storeAfter_congr a _ _ _ g (inv.conf g o hc)
    · simp only [fire, upd_other _ _ _ _ ht]
      rw [Action.storeAfter_other]
      · exact inv.conf g o hc
      · intro htg
        exact ht (hc t _ a ha htg).symm
  · intro g m t' hgd hheld hfresh
    by_cases ht : t' = t
    · subst ht
      simp only [fire, upd_same] at hheld hfresh ⊢
      rw [hseq]
      simp only [seqStep]
      rw [← inv.acc t']
      rw [heldAt_succ m ha] at hheld
      rw [freshAt_succ g m ha] at hfresh
      by_cases hold : heldAt (P t') m (σ.pc t') = true ∧ freshAt (P t') g m (σ.pc t') = true
      · exact Action.storeAfter_congr a _ _ _ g (inv.crit g m t' hgd hold.1 hold.2)
      · -- then this very action is the write of `g`
        cases a with
        | write g' e =>
          by_cases hg : g' = g
          · subst hg; simp [Action.storeAfter]
          · simp [Action.freshAfter, Action.heldAfter, hg] at hheld hfresh
            exact absurd ⟨hheld, hfresh⟩ hold
        | lock m' =>
          by_cases hm : m' = m
          · subst hm; simp [Action.freshAfter] at hfresh
          · simp [Action.freshAfter, Action.heldAfter, hm] at hheld hfresh
            exact absurd ⟨hheld, hfresh⟩ hold
        | unlock m' =>
          by_cases hm : m' = m
          · subst hm; simp [Action.freshAfter] at hfresh
          · simp [Action.freshAfter, Action.heldAfter, hm] at hheld hfresh
            exact absurd ⟨hheld, hfresh⟩ hold
        | read g' k =>
          simp [Action.freshAfter, Action.heldAfter] at hheld hfresh
          exact absurd ⟨hheld, hfresh⟩ hold
        | rmw g' f =>
          simp [Action.freshAfter, Action.heldAfter] at hheld hfresh
          exact absurd ⟨hheld, hfresh⟩ hold
        | loc f =>
          simp [Action.freshAfter, Action.heldAfter] at hheld hfresh
          exact absurd ⟨hheld, hfresh⟩ hold
    · simp only [fire, upd_other _ _ _ _ ht] at hheld hfresh ⊢
      rw [Action.storeAfter_other]
      · exact inv.crit g m t' hgd hheld hfresh
      · intro htg
        have h1 := inv.held t' m hheld
        have h2 := inv.held t m (hgd t _ a ha htg)
        rw [h1] at h2
        injection h2 with h2
        exact ht h2

theorem resInv_exec (P : Tid → List Action) (acc0 : Tid → Val) (store0 : Loc → Val)
    (hwl : WellLocked P)
    (hdisc : ∀ g, Written P g → Confined P g ∨ LockProtected P g) (s : List Tid) :
    ResInv P acc0 store0 (exec P (init acc0 store0) s) :=
  exec_induction P (ResInv P acc0 store0)
    (fun σ t a inv ha he => resInv_fire P acc0 store0 hwl hdisc σ t a inv ha he) _ (resInv_init P acc0 store0) s

/-! ## happens-before -/

theorem HB.snoc {c : List Event} {i j : Nat} (e : Event) (h : HB c i j) : HB (c ++ [e]) i j := by
  induction h with
  | po hij hi hj ht =>
    exact HB.po hij ((getElem?_snoc _ _ _ _).2 (Or.inl hi)) ((getElem?_snoc _ _ _ _).2 (Or.inl hj)) ht
  | sw hij hi hj =>
    exact HB.sw hij ((getElem?_snoc _ _ _ _).2 (Or.inl hi)) ((getElem?_snoc _ _ _ _).2 (Or.inl hj))
  | trans _ _ ih1 ih2 => exact HB.trans ih1 ih2

structure RaceInv (P : Tid → List Action) (σ : State) : Prop where
  /-- every event is an action of its thread -/
  src : ∀ (i : Nat) (e : Event), σ.trace[i]? = some e → ∃ (n : Nat) (a : Action), (P e.tid)[n]? = some a ∧ a.ev = e.kind
  /-- a thread that holds `m` by its own program is the holder -/
  held : ∀ (t : Tid) (m : Mutex), heldAt (P t) m (σ.pc t) = true → σ.holder m = some t
  /-- the holder of `m` made the last lock of `m`, and no unlock of `m` follows it -/
  lastAcq : ∀ (m : Mutex) (t : Tid), σ.holder m = some t →
    ∃ q, σ.trace[q]? = some ⟨t, .acq m⟩ ∧ ∀ (r : Nat) (e : Event), q < r → σ.trace[r]? = some e → e.kind ≠ .rel m
  /-- an access under `m`: its thread still holds `m`, or has unlocked it since -/
  prot : ∀ (g : Loc) (m : Mutex), Guarded P g m → ∀ (i : Nat) (e : Event), σ.trace[i]? = some e → e.kind.loc? = some g →
    (σ.holder m = some e.tid ∧ ∀ (r : Nat) (e' : Event), i < r → σ.trace[r]? = some e' → e'.kind ≠ .rel m) ∨
    (∃ r, i < r ∧ σ.trace[r]? = some ⟨e.tid, .rel m⟩)
  rf : RaceFree σ.trace

theorem raceInv_init (P : Tid → List Action) (acc0 : Tid → Val) (store0 : Loc → Val) :
    RaceInv P (init acc0 store0) := by
  refine ⟨?_, ?_, ?_, ?_, ?_⟩
  · intro i e h; simp [init] at h
  · intro t m h; simp [init, heldAt] at h
  · intro m t h; simp [init] at h
  · intro g m _ i e h; simp [init] at h
  · intro i j e e' _ h; simp [init] at h

theorem raceInv_fire (P : Tid → List Action)
    (hwl : WellLocked P)
    (hdisc : ∀ g, Written P g → Confined P g ∨ LockProtected P g)
    (σ : State) (t : Tid) (a : Action) (inv : RaceInv P σ)
    (ha : (P t)[σ.pc t]? = some a) (he : a.enabled σ.holder = true) : RaceInv P (fire σ t a) := by
  -- the two facts about mutex actions
  have hlock : ∀ m, a.ev = .acq m → σ.holder m = none := lock_free he
  have hunlock : ∀ m, a.ev = .rel m → σ.holder m = some t := by
    intro m hm
    cases a <;> simp [Action.ev] at hm
    subst hm
    exact inv.held t _ (hwl t _ _ ha)
  refine ⟨?_, ?_, ?_, ?_, ?_⟩
  · -- src
    intro i e h
    simp only [fire] at h
    rcases (getElem?_snoc _ _ _ _).1 h with h | ⟨_, rfl⟩
    · exact inv.src i e h
    · exact ⟨σ.pc t, a, ha, rfl⟩
  · exact held_fire P hwl σ t a inv.held ha he
  · -- lastAcq
    intro m t' hh
    simp only [fire] at hh ⊢
    by_cases hacq : a.ev = .acq m
    · have : a = .lock m := by cases a <;> simp [Action.ev] at hacq; subst hacq; rfl
      subst this
      simp only [Action.holderAfter, upd_same] at hh
      injection hh with hh
      subst hh
      refine ⟨σ.trace.length, snoc_last _ _, ?_⟩
      intro r e hqr hr
      have := lt_of_getElem?_some hr
      simp at this
      omega
    · by_cases hrel : a.ev = .rel m
      · have : a = .unlock m := by cases a <;> simp [Action.ev] at hrel; subst hrel; rfl
        subst this
        simp [Action.holderAfter] at hh
      · rw [holderAfter_other _ _ _ _ hacq hrel] at hh
        obtain ⟨q, hq, hqr⟩ := inv.lastAcq m t' hh
        refine ⟨q, snoc_left _ hq, ?_⟩
        intro r e hqr' hr
        rcases (getElem?_snoc _ _ _ _).1 hr with hr' | ⟨_, rfl⟩
        · exact hqr r e hqr' hr'
        · exact hrel
  · -- prot
    intro g m hm i e hi hg
    simp only [fire] at hi ⊢
    rcases (getElem?_snoc _ _ _ _).1 hi with hi' | ⟨hil, rfl⟩
    · cases inv.prot g m hm i e hi' hg with
      | inr h =>
        obtain ⟨r, hir, hr⟩ := h
        exact Or.inr ⟨r, hir, snoc_left _ hr⟩
      | inl h =>
        obtain ⟨hh, hnr⟩ := h
        by_cases hrel : a.ev = .rel m
        · right
          have hte : e.tid = t := by
            have := hunlock m hrel
            rw [hh] at this
            injection this
          refine ⟨σ.trace.length, lt_of_getElem?_some hi', ?_⟩
          rw [snoc_last, hte, hrel]
        · left
          constructor
          · rw [holderAfter_other _ _ _ _ _ hrel]
            · exact hh
            · intro hacq
              rw [hlock m hacq] at hh; cases hh
          · intro r e' hir hr
            rcases (getElem?_snoc _ _ _ _).1 hr with hr' | ⟨_, rfl⟩
            · exact hnr r e' hir hr'
            · exact hrel
    · left
      have hat : a.target = some g := by rw [← Action.ev_loc?]; exact hg
      have hheld := hm t _ a ha hat
      constructor
      · rw [Action.holderAfter_of_target hat]
        exact inv.held t m hheld
      · intro r e' hir hr
        have := lt_of_getElem?_some hr
        simp at this
        omega
  · -- race freedom
    intro i j e e' hij hi hj hconf
    simp only [fire] at hi hj ⊢
    rcases (getElem?_snoc _ _ _ _).1 hj with hj' | ⟨hjl, rfl⟩
    · have hjlt := lt_of_getElem?_some hj'
      have hi' : σ.trace[i]? = some e := by
        rcases (getElem?_snoc _ _ _ _).1 hi with h | ⟨h, _⟩
        · exact h
        · omega
      exact (inv.rf i j e e' hij hi' hj' hconf).snoc _
    · have hi' : σ.trace[i]? = some e := by
        rcases (getElem?_snoc _ _ _ _).1 hi with h | ⟨h, _⟩
        · exact h
        · omega
      obtain ⟨hne, g, hg, hg', hw⟩ := hconf
      obtain ⟨n, b, hb, hbe⟩ := inv.src i e hi'
      have hbt : b.target = some g := by rw [← Action.ev_loc?, hbe]; exact hg
      have hat : a.target = some g := by rw [← Action.ev_loc?]; exact hg'
      have hwr : Written P g := by
        cases hw with
        | inl h => exact ⟨e.tid, n, b, hb, hbt, (Action.ev_wr (hbe.trans h)).2⟩
        | inr h => exact ⟨t, _, a, ha, hat, (Action.ev_wr h).2⟩
      cases hdisc g hwr with
      | inl hc =>
        obtain ⟨o, ho⟩ := hc
        exact absurd ((ho e.tid n b hb hbt).trans (ho t _ a ha hat).symm) hne
      | inr hl =>
        obtain ⟨m, hm, _⟩ := hl
        have hhold : σ.holder m = some t := inv.held t m (hm t _ a ha hat)
        obtain ⟨q, hq, hqr⟩ := inv.lastAcq m t hhold
        cases inv.prot g m hm i e hi' hg with
        | inl h =>
          have := h.1
          rw [hhold] at this
          injection this with this
          exact absurd this.symm hne
        | inr h =>
          obtain ⟨r, hir, hr⟩ := h
          have hrq : r < q := by
            rcases Nat.lt_trichotomy r q with h | h | h
            · exact h
            · subst h; rw [hq] at hr; simp at hr
            · exact absurd rfl (hqr r _ h hr)
          have hql := lt_of_getElem?_some hq
          subst hjl
          exact HB.trans (HB.po hir (snoc_left _ hi') (snoc_left _ hr) rfl)
            (HB.trans (HB.sw hrq (snoc_left _ hr) (snoc_left _ hq))
              (HB.po hql (snoc_left _ hq) (snoc_last _ _) rfl))

theorem raceInv_exec (P : Tid → List Action) (acc0 : Tid → Val) (store0 : Loc → Val)
    (hwl : WellLocked P)
    (hdisc : ∀ g, Written P g → Confined P g ∨ LockProtected P g) (s : List Tid) :
    RaceInv P (exec P (init acc0 store0) s) :=
  exec_induction P (RaceInv P)
    (fun σ t a inv ha he => raceInv_fire P hwl hdisc σ t a inv ha he) _ (raceInv_init P acc0 store0) s

end Vore.Sched
