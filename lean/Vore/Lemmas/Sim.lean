import Vore.Lemmas.SimLoop
/-!
# Vore.Lemmas.Sim — the VM running generated code realises the backtracking semantics (C01)

`sim`: for every call-free expression `e` placed at absolute offset `off` in any program, from any
stacks `(L, V, C)` (loop ids on `L` not below the ids of `e`), any success continuation realised from
`off + |code e|` with the *same* stacks and any failure continuation realised by the checkpoint
stack: whatever the specification `m e d ks fk` returns, the VM returns.
-/
namespace Vore
open Vore.Spec

section
variable {pf : Nat} {prog : List Instr} {text : Bytes} {lf : Nat}

/-- the simulation statement for one expression -/
def SimFor (pf : Nat) (prog : List Instr) (text : Bytes) (lf : Nat) (e : Expr) : Prop :=
  ∀ off nid, At prog off (genCF e off nid).1 →
    ∀ d L V C bt ks fk r, LsOk L (genCF e off nid).2 →
      KOk pf prog text (off + codeLen e) L V C ks → Rep pf prog text bt fk →
      m text lf e d ks fk = some r → Ev pf prog text ⟨mkCore off d L V C, bt⟩ r

theorem kjump {pcj t : Nat} {L V C ks} (hj : prog[pcj]? = some (.jump t))
    (hks : KOk pf prog text t L V C ks) : KOk pf prog text pcj L V C ks := by
  intro d fk' bt' r hrep hk
  refine ev_step (s' := ⟨mkCore t d L V C, bt'⟩) (lt_of_getElem? hj) ?_ (hks d fk' bt' r hrep hk)
  simp [step, hj, mkCore]

/-- a single leaf-like instruction whose step is `lift _ o` -/
theorem sim_leaf {pc : Nat} {d : Data} {L V C bt} {ks : SK} {fk : FK} {r : SRes} (o : Option Data)
    (hlt : pc < prog.length)
    (hstep : step pf prog text ⟨mkCore pc d L V C, bt⟩ = lift ⟨mkCore pc d L V C, bt⟩ o)
    (hks : KOk pf prog text (pc + 1) L V C ks) (hfk : Rep pf prog text bt fk)
    (hm : (match o with | some d' => ks d' fk | none => fk ()) = some r) :
    Ev pf prog text ⟨mkCore pc d L V C, bt⟩ r := by
  refine ev_lift (o := o) hlt hstep ?_ ?_
  · intro d' ho; subst ho; exact hks d' fk bt r hfk hm
  · intro ho; subst ho; exact hfk r hm

/-! ### `in` lists -/

theorem sim_inAlts (endPc : Nat) {L V C} {ks : SK} (hks : KOk pf prog text endPc L V C ks) (d : Data) :
    ∀ (items : List Atom) (pc : Nat) (bt : List Core) (fk : FK) (r : SRes),
      At prog pc (genInItems items endPc) → Rep pf prog text bt fk →
      inAlts text items d ks fk = some r → items ≠ [] →
      Ev pf prog text ⟨mkCore pc d L V C,
        ((List.range (items.length - 1)).map (fun i => mkCore (pc + 2 + 2 * i) d L V C)) ++ bt⟩ r := by
  intro items
  induction items with
  | nil => intro pc bt fk r _ _ _ hne; exact absurd rfl hne
  | cons a rest ih =>
    intro pc bt fk r hat hfk hm _
    have hat' : At prog pc ([genAtom a, .jump endPc] ++ genInItems rest endPc) := by
      simpa [genInItems] using hat
    have h0 : prog[pc]? = some (genAtom a) := hat'.app_left.head
    have h1 : prog[pc + 1]? = some (.jump endPc) := hat'.app_left.tail.head
    have hrest : At prog (pc + 2) (genInItems rest endPc) := by simpa using hat'.app_right
    simp only [inAlts] at hm
    -- backtracking into the checkpoints of the remaining items realises "try the remaining items"
    have hrest' : ∀ r, inAlts text rest d ks fk = some r →
        EvBt pf prog text (((List.range ((a :: rest).length - 1)).map (fun i => mkCore (pc + 2 + 2 * i) d L V C)) ++ bt) r := by
      intro r' hr'
      cases rest with
      | nil => simp only [List.length_cons, List.length_nil, List.range_zero, List.map_nil, List.nil_append]
               exact hfk r' (by simpa [inAlts] using hr')
      | cons b more =>
        have := ih (pc + 2) bt fk r' hrest hfk hr' (by simp)
        simp only [List.length_cons, Nat.add_sub_cancel] at this ⊢
        rw [List.range_succ_eq_map]
        simp only [List.map_cons, List.map_map, List.cons_append, Nat.mul_zero, Nat.add_zero]
        apply evBt_cons
        have hfun : ((fun i => mkCore (pc + 2 + 2 * i) d L V C) ∘ Nat.succ) =
            (fun i => mkCore (pc + 2 + 2 + 2 * i) d L V C) := by
          funext i; simp only [Function.comp]; congr 1; omega
        rw [hfun]
        exact this
    refine ev_lift (o := atomD text a d) (lt_of_getElem? h0) (step_atom pf prog text _ a (by simpa using h0)) ?_ ?_
    · intro d' ho
      rw [ho] at hm
      exact kjump h1 hks d' _ _ r (fun r' hr' => hrest' r' hr') hm
    · intro ho
      rw [ho] at hm
      exact hrest' r hm

/-! ### `not in` lists -/

theorem consume_mkCore (pc : Nat) (d : Data) (L V C) (n : Nat) :
    (mkCore pc d L V C).consume text n = mkCore pc (consumeD text d n) L V C := by
  simp only [Core.consume, mkCore, consumeD]

theorem ev_failNotIn {pc : Nat} {d : Data} {L V C} {c1 : Core} {bt0 : List Core} {r : SRes}
    (h : prog[pc]? = some .failNotIn) (hbt : EvBt pf prog text bt0 r) :
    Ev pf prog text ⟨mkCore pc d L V C, c1 :: bt0⟩ r := by
  cases bt0 with
  | nil =>
    simp only [EvBt] at hbt; subst hbt
    exact ⟨1, .fail, by simp [run, Nat.not_le.mpr (lt_of_getElem? h), step, h], rfl⟩
  | cons c2 rest =>
    refine ev_step (s' := ⟨c2, rest⟩) (lt_of_getElem? h) ?_ hbt
    simp [step, h]

theorem sim_notIn (mxs : Int) {L V C} {ks : SK} (d : Data) :
    ∀ (items : List Atom) (pc : Nat) (bt : List Core) (fk : FK) (r : SRes),
      At prog pc (genNotInItems items pc ++ [.endNotIn mxs]) →
      KOk pf prog text (pc + 3 * items.length + 1) L V C ks → Rep pf prog text bt fk →
      (if items.any (fun a => (atomD text a d).isSome) then fk ()
       else if (consumeD text d mxs.toNat).pos == d.pos then fk ()
       else ks (consumeD text d mxs.toNat) fk) = some r →
      Ev pf prog text ⟨mkCore pc d L V C, bt⟩ r := by
  intro items
  induction items with
  | nil =>
    intro pc bt fk r hat hks hfk hm
    have h0 : prog[pc]? = some (.endNotIn mxs) := by simpa [genNotInItems] using hat.head
    simp only [List.any_nil, Bool.false_eq_true, if_false] at hm
    by_cases hz : ((consumeD text d mxs.toNat).pos == d.pos) = true
    · simp only [hz, if_true] at hm
      refine ev_backtrack (lt_of_getElem? h0) ?_ (hfk r hm)
      simp only [step, mkCore_pc, h0, consume_mkCore]
      have : ((mkCore pc (consumeD text d mxs.toNat) L V C).pos == (mkCore pc d L V C).pos) = true := hz
      simp only [this, if_true]
      rfl
    · simp only [hz] at hm
      refine ev_step (s' := ⟨mkCore (pc + 1) (consumeD text d mxs.toNat) L V C, bt⟩) (lt_of_getElem? h0) ?_ ?_
      · simp only [step, mkCore_pc, h0, consume_mkCore]
        have : ((mkCore pc (consumeD text d mxs.toNat) L V C).pos == (mkCore pc d L V C).pos) = false := by
          have hz' : ((consumeD text d mxs.toNat).pos == d.pos) = false := by simpa using hz
          exact hz'
        simp only [this, Bool.false_eq_true, if_false]
        rfl
      · have := hks (consumeD text d mxs.toNat) fk bt r hfk hm
        simpa using this
  | cons a rest ih =>
    intro pc bt fk r hat hks hfk hm
    have hat' : At prog pc ([.startNotIn (pc + 3), genAtom a, .failNotIn] ++
        (genNotInItems rest (pc + 3) ++ [.endNotIn mxs])) := by
      simpa [genNotInItems] using hat
    have h0 : prog[pc]? = some (.startNotIn (pc + 3)) := hat'.app_left.head
    have h1 : prog[pc + 1]? = some (genAtom a) := hat'.app_left.tail.head
    have h2 : prog[pc + 2]? = some .failNotIn := hat'.app_left.tail.tail.head
    have hrest : At prog (pc + 3) (genNotInItems rest (pc + 3) ++ [.endNotIn mxs]) := by simpa using hat'.app_right
    refine ev_step (s' := ⟨mkCore (pc + 1) d L V C, mkCore (pc + 3) d L V C :: bt⟩) (lt_of_getElem? h0) ?_ ?_
    · simp [step, h0, mkCore]
    refine ev_lift (o := atomD text a d) (lt_of_getElem? h1) (step_atom pf prog text _ a (by simpa using h1)) ?_ ?_
    · intro d' ho
      have hany : (a :: rest).any (fun a => (atomD text a d).isSome) = true := by simp [ho]
      simp only [hany, if_true] at hm
      exact ev_failNotIn h2 (hfk r hm)
    · intro ho
      have hany : (a :: rest).any (fun a => (atomD text a d).isSome) = rest.any (fun a => (atomD text a d).isSome) := by
        simp [ho]
      rw [hany] at hm
      apply evBt_cons
      refine ih (pc + 3) bt fk r hrest ?_ hfk hm
      have e : pc + 3 + 3 * rest.length + 1 = pc + 3 * (a :: rest).length + 1 := by simp; omega
      rw [e]; exact hks

/-! ### loops -/

theorem sim_repeat (body : Expr) (hb : SimFor pf prog text lf body) :
    ∀ n off nid, At prog off (repCF (genCF body) n off nid).1 →
      ∀ d L V C bt ks fk r, LsOk L (repCF (genCF body) n off nid).2 →
        KOk pf prog text (off + n * codeLen body) L V C ks → Rep pf prog text bt fk →
        repeatM (m text lf body) n d ks fk = some r → Ev pf prog text ⟨mkCore off d L V C, bt⟩ r := by
  intro n
  induction n with
  | zero =>
    intro off nid _ d L V C bt ks fk r _ hks hfk hm
    simp only [Spec.repeatM] at hm
    have := hks d fk bt r hfk hm
    simpa using this
  | succ n ih =>
    intro off nid hat d L V C bt ks fk r hL hks hfk hm
    simp only [repCF] at hat hL
    simp only [Spec.repeatM] at hm
    have hat1 := hat.app_left
    have hat2 := hat.app_right
    rw [genCF_length] at hat2 hL
    refine hb off nid hat1 d L V C bt _ fk r (hL.mono (repCF_nid_mono _ (genCF_nid_mono body) _ _ _)) ?_ hfk hm
    intro d' fk' bt' r' hrep' hk'
    refine ih (off + codeLen body) _ hat2 d' L V C bt' ks fk' r' hL ?_ hrep' hk'
    have e : off + codeLen body + n * codeLen body = off + (n + 1) * codeLen body := by
      rw [Nat.add_mul]; omega
    rw [e]; exact hks

/-- the result of a step, as an evaluation claim -/
def EvStep (pf : Nat) (prog : List Instr) (text : Bytes) : Step → SRes → Prop
  | .cont s, r => Ev pf prog text s r
  | .done o, r => outcomeRes o = some r

theorem ev_of_step {s : VMState} {r : SRes} (hlt : s.core.pc < prog.length)
    (h : EvStep pf prog text (step pf prog text s) r) : Ev pf prog text s r := by
  cases hs : step pf prog text s with
  | cont s' => rw [hs] at h; exact ev_step hlt hs h
  | done o => rw [hs] at h; exact ⟨1, o, by simp [run, Nat.not_le.mpr hlt, hs], h⟩

theorem evStep_backtrack {c : Core} {bt : List Core} {r : SRes} (h : EvBt pf prog text bt r) :
    EvStep pf prog text (VMState.backtrack ⟨c, bt⟩) r := by
  cases bt with
  | nil => simp only [EvBt] at h; subst h; rfl
  | cons c' rest => exact h

section loop
variable (body : Expr) (hb : SimFor pf prog text lf body) (off nid : Nat) (mx : Int) (fewest : Bool)
  (L : List LoopSt) (V : List (String × Nat)) (C : List CallSt) (ks : SK)
include hb

/-- the loop head's decision, for every fuel of the specification's loop -/
theorem sim_loopDecide
    (hstart : prog[off]? = some (.startLoop (genCF body (off + 1) nid).2 0 mx fewest (off + codeLen body + 1) ""))
    (hbody : At prog (off + 1) (genCF body (off + 1) nid).1)
    (hstop : prog[off + codeLen body + 1]? = some (.stopLoop (genCF body (off + 1) nid).2 off))
    (hL : LsOk L ((genCF body (off + 1) nid).2 + 1))
    (hks : KOk pf prog text (off + codeLen body + 2) L V C ks) :
    ∀ fuel k d top bt fk r, top.id = (genCF body (off + 1) nid).2 → top.callLevel = C.length → top.name = "" →
      top.iter = k → top.startLen = d.cur.length → Rep pf prog text bt fk →
      loopV (m text lf body) mx fewest fuel k d ks fk = some r →
      EvStep pf prog text (loopDecide off (off + codeLen body + 1) mx fewest d top L V C bt) r := by
  intro fuel
  induction fuel with
  | zero => intro k d top bt fk r _ _ _ _ _ _ h; simp [loopV] at h
  | succ fuel ih =>
    intro k d top bt fk r hid hcl hname hk hsl hfk h
    simp only [loopV] at h
    unfold loopDecide
    rw [hk]
    -- the continuation after one more iteration of the body
    have hL' : LsOk (top :: L) (genCF body (off + 1) nid).2 := by
      intro l hl
      simp only [List.mem_cons] at hl
      rcases hl with rfl | hl
      · exact ⟨by rw [hid]; exact Nat.le_refl _, hname⟩
      · exact ⟨Nat.le_trans (Nat.le_succ _) (hL l hl).1, (hL l hl).2⟩
    have hagain : KOk pf prog text (off + 1 + codeLen body) (top :: L) V C (fun d' fk' =>
        if d'.cur.length == d.cur.length then fk' () else loopV (m text lf body) mx fewest fuel (k + 1) d' ks fk') := by
      intro d' fk' bt' r' hrep' hk'
      have e : off + 1 + codeLen body = off + codeLen body + 1 := by omega
      rw [e]
      refine ev_step (s' := ⟨mkCore off d' (top :: L) V C, bt'⟩) (lt_of_getElem? hstop) ?_ ?_
      · simp [step, hstop, mkCore]
      refine ev_of_step (lt_of_getElem? hstart) ?_
      simp only [step, mkCore_pc, hstart]
      rw [startLoop_reenter off _ _ mx fewest d' top L V C bt' hid hcl hname]
      by_cases hz : (d'.cur.length == d.cur.length) = true
      · have hz' : (top.startLen == d'.cur.length) = true := by
          rw [hsl]; simp only [beq_iff_eq] at hz ⊢; exact hz.symm
        simp only [hz, if_true] at hk'
        simp only [hz', if_true]
        exact evStep_backtrack (hrep' r' hk')
      · have hz' : (top.startLen == d'.cur.length) = false := by
          rw [hsl]; simp only [beq_iff_eq] at hz; simp only [beq_eq_false_iff_ne]; exact fun h => hz h.symm
        simp only [hz] at hk'
        simp only [hz', Bool.false_eq_true, if_false]
        exact ih (k + 1) d' (nextLoop top d') bt' fk' r' (by simp [nextLoop, hid]) (by simp [nextLoop, hcl])
          (by simp [nextLoop, hname]) (by simp [nextLoop, hk]) (by simp [nextLoop]) hrep' hk'
    by_cases hc : (mx == -1 || decide ((k : Int) ≤ mx)) = true
    · simp only [hc, if_true] at h ⊢
      cases fewest with
      | true =>
        simp only [if_true] at h ⊢
        have e2 : off + codeLen body + 1 + 1 = off + codeLen body + 2 := by omega
        rw [e2]
        refine hks d _ _ r ?_ h
        intro r' hr'
        apply evBt_cons
        exact hb (off + 1) nid hbody d (top :: L) V C bt _ fk r' hL' hagain hfk hr'
      | false =>
        simp only [Bool.false_eq_true, if_false] at h ⊢
        refine hb (off + 1) nid hbody d (top :: L) V C _ _ _ r hL' hagain ?_ h
        intro r' hr'
        apply evBt_cons
        have e2 : off + codeLen body + 1 + 1 = off + codeLen body + 2 := by omega
        rw [e2]
        exact hks d fk bt r' hfk hr'
    · simp only [hc, Bool.false_eq_true, if_false] at h ⊢
      exact evStep_backtrack (hfk r h)

/-- a loop entered for the first time -/
theorem sim_loopFresh
    (hstart : prog[off]? = some (.startLoop (genCF body (off + 1) nid).2 0 mx fewest (off + codeLen body + 1) ""))
    (hbody : At prog (off + 1) (genCF body (off + 1) nid).1)
    (hstop : prog[off + codeLen body + 1]? = some (.stopLoop (genCF body (off + 1) nid).2 off))
    (hL : LsOk L ((genCF body (off + 1) nid).2 + 1))
    (hks : KOk pf prog text (off + codeLen body + 2) L V C ks) :
    KOk pf prog text off L V C (fun d fk => loopV (m text lf body) mx fewest lf 0 d ks fk) := by
  intro d fk bt r hfk h
  refine ev_of_step (lt_of_getElem? hstart) ?_
  simp only [step, mkCore_pc, hstart]
  rw [startLoop_fresh off _ _ mx fewest d L V C bt (fun l hl => by have := (hL l hl).1; omega)]
  exact sim_loopDecide body hb off nid mx fewest L V C ks hstart hbody hstop hL hks lf 0 d _ bt fk r
    rfl rfl rfl rfl rfl hfk h

end loop

/-! ### the induction on the syntax tree -/

theorem sim (e : Expr) (hcf : CallFree e) : SimFor pf prog text lf e := by
  induction e with
  | empty =>
    intro off nid _ d L V C bt ks fk r _ hks hfk hm
    simp only [m] at hm
    have := hks d fk bt r hfk hm
    simpa [codeLen] using this
  | seq a b iha ihb =>
    intro off nid hat d L V C bt ks fk r hL hks hfk hm
    simp only [genCF] at hat hL
    simp only [m] at hm
    have hata := hat.app_left
    have hatb := hat.app_right
    rw [genCF_length] at hatb
    refine iha hcf.1 off nid hata d L V C bt _ fk r (hL.mono (genCF_nid_mono b _ _)) ?_ hfk hm
    intro d' fk' bt' r' hrep' hk'
    refine ihb hcf.2 (off + codeLen a) _ hatb d' L V C bt' ks fk' r' (by rw [genCF_length] at hL; exact hL) ?_ hrep' hk'
    simpa [codeLen, Nat.add_assoc] using hks
  | atom a =>
    intro off nid hat d L V C bt ks fk r _ hks hfk hm
    have h0 : prog[off]? = some (genAtom a) := by simpa [genCF] using hat.head
    simp only [m] at hm
    exact sim_leaf (atomD text a d) (lt_of_getElem? h0) (step_atom pf prog text _ a (by simpa using h0))
      (by simpa [codeLen] using hks) hfk hm
  | var x =>
    intro off nid hat d L V C bt ks fk r _ hks hfk hm
    have h0 : prog[off]? = some (.mvar x) := by simpa [genCF] using hat.head
    simp only [m] at hm
    exact sim_leaf (backrefD text x d) (lt_of_getElem? h0) (step_mvar pf prog text _ x (by simpa using h0))
      (by simpa [codeLen] using hks) hfk hm
  | loop mn mx fewest name body ih =>
    intro off nid hat d L V C bt ks fk r hL hks hfk hm
    have hb : SimFor pf prog text lf body := ih hcf.2
    simp only [m] at hm
    simp only [genCF] at hat hL
    by_cases heq : ((mn : Int) == mx) = true
    · simp only [heq, if_true] at hat hL hm
      refine sim_repeat body hb mn off nid hat d L V C bt _ fk r hL ?_ hfk hm
      simpa [codeLen, heq] using hks
    · simp only [heq, Bool.false_eq_true, if_false] at hat hL hm
      have hpre := hat.app_left.app_left.app_left
      have hst := hat.app_left.app_left.app_right
      have hbody := hat.app_left.app_right
      have hstop := hat.app_right
      simp only [List.length_append, List.length_cons, List.length_nil, repCF_length _ _ (genCF_length body),
        genCF_length] at hst hbody hstop hL
      have hLpre : LsOk L (repCF (genCF body) mn off nid).2 :=
        hL.mono (Nat.le_trans (genCF_nid_mono body _ _) (Nat.le_succ _))
      refine sim_repeat body hb mn off nid hpre d L V C bt _ fk r hLpre ?_ hfk hm
      have e1 : off + mn * codeLen body + (0 + 1) = off + mn * codeLen body + 1 := by omega
      have hstart := hst.head
      have hstopi := hstop.head
      refine sim_loopFresh body hb (off + mn * codeLen body) (repCF (genCF body) mn off nid).2 (loopMax mn mx)
        fewest L V C ks hstart (by rw [← e1]; exact hbody) ?_ hL ?_
      · rw [← hstopi]; congr 1; omega
      · have e2 : off + mn * codeLen body + codeLen body + 2 = off + codeLen (.loop mn mx fewest name body) := by
          simp [codeLen, heq]; omega
        rw [e2]; exact hks
  | branch l r ihl ihr =>
    intro off nid hat d L V C bt ks fk r' hL hks hfk hm
    simp only [genCF] at hat hL
    have h1 : At prog off [Instr.branch [off + 1, off + (genCF l (off + 1) nid).1.length + 2]] :=
      hat.app_left.app_left.app_left.app_left
    have h2 : At prog (off + 1) (genCF l (off + 1) nid).1 := by
      simpa using hat.app_left.app_left.app_left.app_right
    have h3 := hat.app_left.app_left.app_right
    have h4 := hat.app_left.app_right
    have h5 := hat.app_right
    simp only [List.length_append, List.length_cons, List.length_nil, genCF_length] at h1 h3 h4 h5
    have hbr := h1.head
    have hj1 := h3.head
    have hj2 := h5.head
    simp only [m] at hm
    have kj : ∀ pcj, prog[pcj]? = some (.jump (off + codeLen l + codeLen r + 3)) → KOk pf prog text pcj L V C ks := by
      intro pcj hj
      exact kjump hj (by simpa [codeLen, Nat.add_assoc] using hks)
    refine ev_step (s' := ⟨mkCore (off + 1) d L V C, mkCore (off + codeLen l + 2) d L V C :: bt⟩)
      (lt_of_getElem? hbr) ?_ ?_
    · simp [step, hbr, VMState.branch, mkCore]
    refine ihl hcf.1 (off + 1) nid h2 d L V C _ ks _ r' (hL.mono (genCF_nid_mono r _ _)) ?_ ?_ hm
    · apply kj; rw [← hj1]; congr 1; omega
    · intro r'' hm'
      apply evBt_cons
      have hatb : At prog (off + codeLen l + 2) (genCF r (off + codeLen l + 2) (genCF l (off + 1) nid).2).1 := by
        have e2 : off + 2 + codeLen l = off + codeLen l + 2 := by omega
        rw [e2] at h4; exact h4.cast (by omega)
      have hL2 : LsOk L (genCF r (off + codeLen l + 2) (genCF l (off + 1) nid).2).2 := by
        have e2 : off + 2 + codeLen l = off + codeLen l + 2 := by omega
        rw [genCF_length, e2] at hL; exact hL
      refine ihr hcf.2 (off + codeLen l + 2) _ hatb d L V C bt ks fk r'' hL2 ?_ hfk hm'
      apply kj; rw [← hj2]; congr 1; omega
  | dec x body ih =>
    intro off nid hat d L V C bt ks fk r hL hks hfk hm
    simp only [genCF] at hat hL
    have h0 : prog[off]? = some (.startVar x) := hat.app_left.app_left.head
    have hbody : At prog (off + 1) (genCF body (off + 1) nid).1 := by simpa using hat.app_left.app_right
    have hend := hat.app_right
    simp only [List.length_append, List.length_cons, List.length_nil, genCF_length] at hend
    have h2 : prog[off + codeLen body + 1]? = some (.endVar x) := by
      have := hend.head; rw [← this]; congr 1; omega
    simp only [m] at hm
    refine ev_step (s' := ⟨mkCore (off + 1) d L ((x, d.cur.length) :: V) C, bt⟩) (lt_of_getElem? h0) ?_ ?_
    · simp [step, h0, mkCore]
    refine ih hcf (off + 1) nid hbody d L _ C bt _ fk r hL ?_ hfk hm
    intro d' fk' bt' r' hrep' hk'
    have e : off + 1 + codeLen body = off + codeLen body + 1 := by omega
    rw [e]
    refine ev_step (s' := ⟨mkCore (off + codeLen body + 2) (bindD d' x (d'.cur.drop d.cur.length)) L V C, bt'⟩)
      (lt_of_getElem? h2) ?_ ?_
    · have hins : insertInLoops L x (.str (d'.cur.drop d.cur.length)) = none :=
        insertInLoops_unnamed x _ L (fun l hl => (hL l hl).2)
      simp [step, h2, mkCore, Core.insertVar, hins, bindD]
    · have e3 : off + codeLen body + 2 = off + codeLen (.dec x body) := by simp [codeLen]; omega
      rw [e3]
      exact hks (bindD d' x (d'.cur.drop d.cur.length)) fk' bt' r' hrep' hk'
  | sub x body _ => exact absurd hcf (by simp [CallFree])
  | inl neg items =>
    intro off nid hat d L V C bt ks fk r hL hks hfk hm
    cases neg with
    | false =>
      simp only [genCF] at hat
      simp only [m] at hm
      have hne : items ≠ [] := by
        rcases hcf with h | h
        · cases h
        · exact h
      have h0 := hat.app_left.head
      have hitems : At prog (off + 1) (genInItems items (off + 1 + 2 * items.length)) := by
        simpa using hat.app_right
      have hks' : KOk pf prog text (off + 1 + 2 * items.length) L V C ks := by
        have e : off + 1 + 2 * items.length = off + codeLen (.inl false items) := by simp [codeLen]; omega
        rw [e]; exact hks
      have hmain := sim_inAlts (off + 1 + 2 * items.length) hks' d items (off + 1) bt fk r hitems hfk hm hne
      -- the Branch instruction pushes exactly these checkpoints
      cases items with
      | nil => exact absurd rfl hne
      | cons a rest =>
        have hts : (List.range (rest.length + 1)).map (fun i => off + 1 + 2 * i) =
            (off + 1) :: (List.range rest.length).map (fun i => off + 1 + 2 + 2 * i) := by
          simp only [List.range_succ_eq_map, List.map_cons, List.map_map]
          congr 1
          apply List.map_congr_left
          intro i _
          simp only [Function.comp]
          omega
        refine ev_step (lt_of_getElem? h0) ?_ hmain
        simp only [step, mkCore_pc, h0, List.length_cons, hts, VMState.branch, List.map_map, Nat.add_sub_cancel]
        rfl
    | true =>
      simp only [genCF] at hat
      simp only [m] at hm
      refine sim_notIn (listMaxSize items) d items off bt fk r hat ?_ hfk hm
      have e : off + 3 * items.length + 1 = off + codeLen (.inl true items) := by simp [codeLen]; omega
      rw [e]; exact hks

end
end Vore
