import Vore.Lemmas.GenCF
/-!
# Vore.Lemmas.GenLink — on the call-free fragment the monadic generator `gen` emits exactly `genCF`
-/
namespace Vore

/-- the scope holds only captures and there are no global patterns -/
def ScopeOK (st : GenState) : Prop :=
  st.globals = [] ∧ ∀ kv ∈ st.variables, kv.2 = none

theorem ScopeOK.lookup {st : GenState} (h : ScopeOK st) (x : String) (v : Option Nat)
    (hl : lookup st.variables x = some v) : v = none := by
  unfold Vore.lookup at hl
  cases hf : List.find? (fun kv => kv.1 == x) st.variables with
  | none => rw [hf] at hl; simp at hl
  | some kv =>
    rw [hf] at hl
    simp only [Option.map_some, Option.some.injEq] at hl
    rw [← hl]
    exact h.2 kv (List.mem_of_find?_eq_some hf)

theorem ScopeOK.forget {st : GenState} (h : ScopeOK st) (outer : List (String × Option Nat)) :
    ScopeOK (forgetCaptures outer st) :=
  ⟨h.1, fun kv hkv => h.2 kv ((List.mem_filter.mp hkv).1)⟩

theorem lookup_insertKV {α} (l : List (String × α)) (k x : String) (v : α) :
    lookup (insertKV l k v) x = if k == x then some v else lookup l x := by
  unfold lookup insertKV
  simp only [List.find?_cons]
  by_cases hk : (k == x) = true
  · simp [hk]
  · have hk' : (k == x) = false := by simpa using hk
    simp only [hk', Bool.false_eq_true, if_false]
    congr 1
    induction l with
    | nil => rfl
    | cons kv rest ih =>
      simp only [List.filter_cons]
      by_cases h1 : (kv.1 == k) = true
      · have hkv : kv.1 = k := by simpa using h1
        have h2 : (kv.1 == x) = false := by rw [hkv]; exact hk'
        simp [h1, List.find?_cons, h2, ih]
      · have h1' : (kv.1 == k) = false := by simpa using h1
        simp only [h1', Bool.not_false, if_true, List.find?_cons]
        split
        · rfl
        · exact ih

theorem ScopeOK.insert_capture {st : GenState} (h : ScopeOK st) (name : String) :
    ScopeOK { st with variables := insertKV st.variables name none } := by
  refine ⟨h.1, ?_⟩
  intro kv hkv
  simp only [insertKV, List.mem_cons] at hkv
  rcases hkv with rfl | hkv
  · rfl
  · exact h.2 kv ((List.mem_filter.mp hkv).1)

theorem genRepeat_eq (g : Nat → GenState → GenM (List Instr × GenState)) (gc : Nat → Nat → List Instr × Nat)
    (hg : ∀ off st code st', ScopeOK st → g off st = .ok (code, st') →
      code = (gc off st.nextId).1 ∧ st'.nextId = (gc off st.nextId).2 ∧ ScopeOK st') :
    ∀ n off st code st', ScopeOK st → genRepeat g n off st = .ok (code, st') →
      code = (repCF gc n off st.nextId).1 ∧ st'.nextId = (repCF gc n off st.nextId).2 ∧ ScopeOK st' := by
  intro n
  induction n with
  | zero =>
    intro off st code st' hs h
    simp only [genRepeat, Except.ok.injEq, Prod.mk.injEq] at h
    obtain ⟨rfl, rfl⟩ := h
    exact ⟨rfl, rfl, hs⟩
  | succ n ih =>
    intro off st code st' hs h
    simp only [genRepeat, bind, Except.bind] at h
    cases h1 : g off st with
    | error e => simp [h1] at h
    | ok v1 =>
      obtain ⟨c, st1⟩ := v1
      simp only [h1] at h
      cases h2 : genRepeat g n (off + c.length) st1 with
      | error e => simp [h2] at h
      | ok v2 =>
        obtain ⟨cs, st2⟩ := v2
        simp only [h2, pure, Except.pure, Except.ok.injEq, Prod.mk.injEq] at h
        obtain ⟨rfl, rfl⟩ := h
        obtain ⟨hc, hn, hs1⟩ := hg off st c st1 hs h1
        obtain ⟨hcs, hn2, hs2⟩ := ih (off + c.length) st1 cs st2 hs1 h2
        simp only [repCF]
        rw [← hc, ← hn]
        exact ⟨by rw [hcs], hn2, hs2⟩

theorem gen_eq_genCF (e : Expr) (hcf : CallFree e) : ∀ off st code st', ScopeOK st →
    gen e off st = .ok (code, st') →
    code = (genCF e off st.nextId).1 ∧ st'.nextId = (genCF e off st.nextId).2 ∧ ScopeOK st' := by
  induction e with
  | empty =>
    intro off st code st' hs h
    simp only [gen, Except.ok.injEq, Prod.mk.injEq] at h
    obtain ⟨rfl, rfl⟩ := h
    exact ⟨rfl, rfl, hs⟩
  | seq a b iha ihb =>
    intro off st code st' hs h
    simp only [gen, bind, Except.bind] at h
    cases h1 : gen a off st with
    | error e => simp [h1] at h
    | ok v1 =>
      obtain ⟨ca, st1⟩ := v1
      simp only [h1] at h
      cases h2 : gen b (off + ca.length) st1 with
      | error e => simp [h2] at h
      | ok v2 =>
        obtain ⟨cb, st2⟩ := v2
        simp only [h2, pure, Except.pure, Except.ok.injEq, Prod.mk.injEq] at h
        obtain ⟨rfl, rfl⟩ := h
        obtain ⟨hca, hna, hsa⟩ := iha hcf.1 off st ca st1 hs h1
        obtain ⟨hcb, hnb, hsb⟩ := ihb hcf.2 (off + ca.length) st1 cb st2 hsa h2
        simp only [genCF]
        rw [← hca, ← hna]
        exact ⟨by rw [hcb], hnb, hsb⟩
  | atom a =>
    intro off st code st' hs h
    simp only [gen, Except.ok.injEq, Prod.mk.injEq] at h
    obtain ⟨rfl, rfl⟩ := h
    exact ⟨rfl, rfl, hs⟩
  | var x =>
    intro off st code st' hs h
    simp only [gen] at h
    cases hl : lookup st.variables x with
    | some v =>
      have := hs.lookup x v hl
      subst this
      simp only [hl, Except.ok.injEq, Prod.mk.injEq] at h
      obtain ⟨rfl, rfl⟩ := h
      exact ⟨rfl, rfl, hs⟩
    | none =>
      simp only [hl, hs.1] at h
      simp [lookup] at h
  | loop mn mx fewest name body ih =>
    intro off st code st' hs h
    obtain ⟨hname, hcb⟩ := hcf
    subst hname
    have hg := fun off st code st' hs h => ih hcb off st code st' hs h
    have hg' : ∀ off' (s : GenState) code st', ScopeOK s →
        (fun o s => gen body o (forgetCaptures st.variables s)) off' s = .ok (code, st') →
        code = (genCF body off' s.nextId).1 ∧ st'.nextId = (genCF body off' s.nextId).2 ∧ ScopeOK st' :=
      fun off' s code st' hs' h' => ih hcb off' (forgetCaptures st.variables s) code st' (hs'.forget _) h'
    simp only [gen, bind, Except.bind, beq_self_eq_true, Bool.and_true, pure, Except.pure, gt_iff_lt] at h
    -- the two ways the loop code is assembled once the prefix is known to be `repCF`
    have fin_eq : ∀ (pre : List Instr) (st1 : GenState), (mn : Int) = mx →
        pre = (repCF (genCF body) mn off st.nextId).1 → st1.nextId = (repCF (genCF body) mn off st.nextId).2 →
        ScopeOK st1 →
        pre = (genCF (.loop mn mx fewest "" body) off st.nextId).1 ∧
          st1.nextId = (genCF (.loop mn mx fewest "" body) off st.nextId).2 ∧ ScopeOK st1 := by
      intro pre st1 heq hpc hpn hps
      have heq' : ((mn : Int) == mx) = true := by simpa using heq
      simp only [genCF, heq', if_true]
      exact ⟨hpc, hpn, hps⟩
    have fin_ne : ∀ (pre : List Instr) (st1 : GenState) (cb : List Instr) (st2 : GenState), ¬ (mn : Int) = mx →
        pre = (repCF (genCF body) mn off st.nextId).1 → st1.nextId = (repCF (genCF body) mn off st.nextId).2 →
        ScopeOK st1 → gen body (off + pre.length + 1) (forgetCaptures st.variables st1) = .ok (cb, st2) →
        (pre ++ Instr.startLoop st2.nextId 0 (if 0 < mx then mx - ↑mn else mx) fewest
            (off + pre.length + cb.length + 1) "" :: (cb ++ [Instr.stopLoop st2.nextId (off + pre.length)])) =
          (genCF (.loop mn mx fewest "" body) off st.nextId).1 ∧
        st2.nextId + 1 = (genCF (.loop mn mx fewest "" body) off st.nextId).2 ∧ ScopeOK st2 := by
      intro pre st1 cb st2 heq hpc hpn hps hb2
      have heq' : ((mn : Int) == mx) = false := by simpa using heq
      simp only [genCF, heq', Bool.false_eq_true, if_false]
      obtain ⟨hcb', hnb, hsb⟩ := hg _ _ _ _ (hps.forget _) hb2
      have hnid : (forgetCaptures st.variables st1).nextId = st1.nextId := rfl
      rw [hnid] at hcb' hnb
      rw [← hpc, ← hpn, ← hcb', ← hnb]
      exact ⟨by simp [loopMax], rfl, hsb⟩
    by_cases hmn : 0 < mn
    · cases hp : genRepeat (fun o s => gen body o (forgetCaptures st.variables s)) mn off st with
      | error e => simp [hmn, hp] at h
      | ok rp =>
        obtain ⟨pre, st1⟩ := rp
        obtain ⟨hpc, hpn, hps⟩ := genRepeat_eq _ (genCF body) hg' mn off st pre st1 hs hp
        by_cases heq : (mn : Int) = mx
        · have heqb : ((mn : Int) == mx) = true := by simpa using heq
          simp only [hmn, hp, heqb, decide_true, if_true, Except.ok.injEq, Prod.mk.injEq] at h
          obtain ⟨rfl, rfl⟩ := h
          exact fin_eq _ _ heq hpc hpn hps
        · have heqb : ((mn : Int) == mx) = false := by simpa using heq
          cases hb2 : gen body (off + pre.length + 1) (forgetCaptures st.variables st1) with
          | error e => simp [hmn, hp, heqb, hb2] at h
          | ok vb =>
            obtain ⟨cb, st2⟩ := vb
            simp only [hmn, hp, heqb, hb2, decide_true, if_true, Bool.false_eq_true, if_false, Except.ok.injEq,
              Prod.mk.injEq] at h
            obtain ⟨rfl, rfl⟩ := h
            obtain ⟨h1, h2, h3⟩ := fin_ne pre st1 cb st2 heq hpc hpn hps hb2
            refine ⟨?_, h2, ⟨h3.1, h3.2⟩⟩
            rw [← h1]
            simp
    · have hz : mn = 0 := by omega
      subst hz
      by_cases heq : ((0 : Nat) : Int) = mx
      · have heq0 : (0 : Int) = mx := by simpa using heq
        simp [heq0] at h
        obtain ⟨rfl, rfl⟩ := h
        exact fin_eq [] st heq (by simp [repCF]) (by simp [repCF]) hs
      · have heqb : (((0 : Nat) : Int) == mx) = false := by simpa using heq
        have heq0 : ¬ (0 : Int) = mx := by simpa using heq
        cases hb2 : gen body (off + 1) (forgetCaptures st.variables st) with
        | error e => simp [heq0, hb2] at h
        | ok vb =>
          obtain ⟨cb, st2⟩ := vb
          simp [heq0, hb2] at h
          obtain ⟨rfl, rfl⟩ := h
          obtain ⟨h1, h2, h3⟩ := fin_ne [] st cb st2 heq (by simp [repCF]) (by simp [repCF]) hs (by simpa using hb2)
          refine ⟨?_, h2, ⟨h3.1, h3.2⟩⟩
          rw [← h1]
          simp
  | branch l r ihl ihr =>
    intro off st code st' hs h
    simp only [gen, bind, Except.bind] at h
    cases h1 : gen l (off + 1) st with
    | error e => simp [h1] at h
    | ok v1 =>
      obtain ⟨cl, st1⟩ := v1
      simp only [h1] at h
      cases h2 : gen r (off + 2 + cl.length) st1 with
      | error e => simp [h2] at h
      | ok v2 =>
        obtain ⟨cr, st2⟩ := v2
        simp only [h2, pure, Except.pure, Except.ok.injEq, Prod.mk.injEq] at h
        obtain ⟨rfl, rfl⟩ := h
        obtain ⟨hcl, hnl, hsl⟩ := ihl hcf.1 (off + 1) st cl st1 hs h1
        obtain ⟨hcr, hnr, hsr⟩ := ihr hcf.2 (off + 2 + cl.length) st1 cr st2 hsl h2
        simp only [genCF]
        rw [← hcl, ← hnl, ← hcr]
        exact ⟨rfl, hnr, hsr⟩
  | dec x body ih =>
    intro off st code st' hs h
    simp only [gen, bind, Except.bind] at h
    cases h1 : gen body (off + 1) st with
    | error e => simp [h1] at h
    | ok v1 =>
      obtain ⟨cb, st1⟩ := v1
      simp only [h1] at h
      split at h
      · simp at h
      · simp only [pure, Except.pure, Except.ok.injEq, Prod.mk.injEq] at h
        obtain ⟨rfl, rfl⟩ := h
        obtain ⟨hcb, hnb, hsb⟩ := ih hcf (off + 1) st cb st1 hs h1
        simp only [genCF]
        rw [← hcb]
        exact ⟨rfl, hnb, hsb.insert_capture x⟩
  | sub x body _ => exact absurd hcf (by simp [CallFree])
  | inl neg items =>
    intro off st code st' hs h
    cases neg with
    | false =>
      simp only [gen, Except.ok.injEq, Prod.mk.injEq] at h
      obtain ⟨rfl, rfl⟩ := h
      exact ⟨rfl, rfl, hs⟩
    | true =>
      simp only [gen, Except.ok.injEq, Prod.mk.injEq] at h
      obtain ⟨rfl, rfl⟩ := h
      exact ⟨rfl, rfl, hs⟩

end Vore
