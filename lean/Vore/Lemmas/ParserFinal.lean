import Vore.Lemmas.ParserCmd
import Vore.Lemmas.GrammarMono
/-!
# Vore.Lemmas.ParserFinal — from the simulation to the statements of C08 / C15
-/
namespace Vore.Parser
open Vore Vore.Grammar

variable {rx : Bytes → RegexOutcome} {ts : List Token}

/-- a result that is neither a panic nor out of fuel, advances to at least `lo`, stays before the end -/
def Good {α : Type} (ts : List Token) (lo : Nat) : Res α → Prop
  | .ok _ k => lo ≤ k ∧ k < ts.length
  | .error _ _ => True
  | .panic => False
  | .fuel => False

theorem sim_good {α : Type} {lo : Nat} {r : Res α} {g : GR α} (h : Sim ts lo r g) : Good ts lo r := by
  cases r <;> cases g <;> simp_all [Sim, Good]

theorem simSt_good {lo : Nat} {r : Res Stmt} {g : GR Stmt} (h : SimSt ts lo r g)
    (hmono : ∀ v k, r = .ok v k → lo ≤ k) : Good ts lo r := by
  cases r with
  | ok v k =>
    cases g with
    | ok v' r' => exact ⟨h.2.2.1, h.2.2.2.1⟩
    | err => obtain ⟨t, h1, _⟩ := h; exact ⟨hmono v k rfl, lt_of_tk h1⟩
    | fuel => simp [SimSt] at h
  | error m a => trivial
  | panic => cases g <;> simp [SimSt] at h
  | fuel => cases g <;> simp [SimSt] at h

/-- results agree up to positions: same tree, or both a syntax error -/
def Agree {α : Type} : Res α → GR α → Prop
  | .ok v _, .ok v' _ => v = v'
  | .error _ _, .err => True
  | _, _ => False

theorem sim_agree {α : Type} {lo : Nat} {r : Res α} {g : GR α} (h : Sim ts lo r g) : Agree r g := by
  cases r <;> cases g <;> simp_all [Sim, Agree]

/-- two model results agree: same tree, or both a syntax error (messages and positions may differ) -/
def Same {α : Type} : Res α → Res α → Prop
  | .ok v _, .ok v' _ => v = v'
  | .error _ _, .error _ _ => True
  | _, _ => False

theorem same_of_agree {α : Type} {r r' : Res α} {g : GR α} (h : Agree r g) (h' : Agree r' g) : Same r r' := by
  cases r <;> cases r' <;> cases g <;> simp_all [Agree, Same]

/-! ## a token list whose stripped form is a given stripped list -/

def embed (s : STok) : Token := { kind := s.kind, lexeme := s.lex }

theorem sig_embed_sig (t : Token) : Token.sig (embed (Token.sig t)) = Token.sig t := by
  unfold embed Token.sig
  cases hc : carriesLexeme t.kind <;> simp

theorem strip_embed_strip : ∀ (ts : List Token), strip ((strip ts).map embed) = strip ts := by
  intro ts
  induction ts with
  | nil => rfl
  | cons t rest ih =>
    by_cases hi : ignorable t.kind = true
    · have : strip (t :: rest) = strip rest := by simp [strip, List.filter, hi]
      rw [this, ih]
    · have hi' : ignorable t.kind = false := by simpa using hi
      have e1 : strip (t :: rest) = Token.sig t :: strip rest := by simp [strip, List.filter, hi']
      rw [e1]
      have e2 : strip (embed (Token.sig t) :: (strip rest).map embed) =
          Token.sig (embed (Token.sig t)) :: strip ((strip rest).map embed) := by
        have : ignorable (embed (Token.sig t)).kind = false := by simpa [embed] using hi'
        simp [strip, List.filter, this]
      simp only [List.map_cons]
      rw [e2, ih, sig_embed_sig]

theorem strip_append (a b : List Token) : strip (a ++ b) = strip a ++ strip b := by
  simp [strip, List.filter_append]

theorem strip_kind_mem {ts : List Token} {s : STok} (h : s ∈ strip ts) : ∃ t ∈ ts, t.kind = s.kind := by
  unfold strip at h
  obtain ⟨t, ht, rfl⟩ := List.mem_map.mp h
  exact ⟨t, (List.mem_filter.mp ht).1, rfl⟩

theorem endsEof_embed (h : EndsEof ts) : EndsEof ((strip ts).map embed) := by
  obtain ⟨pre, e, rfl, he, hpre⟩ := h
  refine ⟨(strip pre).map embed, embed (Token.sig e), ?_, by simpa [embed] using he, ?_⟩
  · have hi : ignorable e.kind = false := by simp [ignorable, he]
    have : strip [e] = [Token.sig e] := by simp [strip, List.filter, hi]
    rw [strip_append, this]; simp
  · intro t ht
    obtain ⟨s, hs, rfl⟩ := List.mem_map.mp ht
    obtain ⟨t', ht', hk⟩ := strip_kind_mem hs
    simpa [embed, ← hk] using hpre t' ht'

theorem strip_length_le (ts : List Token) : (strip ts).length ≤ ts.length := by
  simp [strip]; exact List.length_filter_le _ _

/-- the grammar-level parser, with its own fuel, terminates on every stripped `EndsEof` list and
agrees with the model -/
theorem parse_agree (hrx : ∀ b, rx b ≠ .panic) (h : EndsEof ts) :
    Sim ts 0 (parse rx ts) (Grammar.parse rx (strip ts)) := by
  have h1 := parse_sim hrx h
  have h2 := parse_sim hrx (endsEof_embed h)
  rw [strip_embed_strip] at h2
  have hfuel : Parser.fuelOf ((strip ts).map embed) = Grammar.fuelOf (strip ts) := by
    simp [Parser.fuelOf, Grammar.fuelOf]
  rw [hfuel] at h2
  have hne : pCmds rx (Grammar.fuelOf (strip ts)) (Grammar.fuelOf (strip ts)) (strip ts) ≠ .fuel := by
    intro hf; rw [hf] at h2; cases hp : parse rx ((strip ts).map embed) <;> simp [hp, Sim] at h2
  have hle : Grammar.fuelOf (strip ts) ≤ Parser.fuelOf ts := by
    have := strip_length_le ts
    simp [Parser.fuelOf, Grammar.fuelOf]; omega
  have := pCmds_det (rx := rx) hle hle hne
  unfold Grammar.parse
  rw [← this]; exact h1

end Vore.Parser
