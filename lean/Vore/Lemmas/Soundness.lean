import Vore.Lemmas.Typing
/-!
# Vore.Lemmas.Soundness — accepted, single-typed code never reaches an undefined operation
-/
namespace Vore
open Vore.Tables Vore.Spec Vore.Spec.Typing

instance (d s : PT) : Decidable (Fits d s) := by unfold Fits; infer_instance

theorem ite_dyn (b : Int) (x : PVal) (R : EvalRes) (ty : Option PT) (tag : String)
    (hR : R = if b = 0 then .panic divZeroTag else .val x) (hty : ty = some x.type) :
    R = .panic divZeroTag ∨ (∃ v, R = .val v ∧ ty = some v.type) ∨ (R = .panic tag ∧ ty = none) := by
  subst hR
  by_cases h : b = 0
  · exact Or.inl (by rw [if_pos h])
  · exact Or.inr (Or.inl ⟨x, by rw [if_neg h], hty⟩)

/-- progress and preservation of `executeBinaryExpr` at the DYNAMIC operand types: it is
defined exactly where the checker's table has an entry for those types -/
theorem evalBin_dyn (op : Op) (l r : PVal) :
    evalBin op l r = .panic divZeroTag
    ∨ (∃ v, evalBin op l r = .val v ∧ binType l.type r.type op = some v.type)
    ∨ (evalBin op l r = .panic (undefinedTag l.type) ∧ binType l.type r.type op = none) := by
  cases l <;> cases r <;> cases op <;>
    first
      | exact Or.inr (Or.inl ⟨_, rfl, rfl⟩)
      | exact Or.inr (Or.inr ⟨rfl, rfl⟩)
      | exact ite_dyn _ _ _ _ _ rfl rfl

/-- the checker's table is monotone under `Fits`: if it accepts static operand types, it
accepts every dynamic types that fit them, with a result type that fits -/
theorem binType_fits (dl dr tl tr : PT) (op : Op) (t : PT) (hl : Fits dl tl) (hr : Fits dr tr)
    (h : binType tl tr op = some t) : ∃ t', binType dl dr op = some t' ∧ Fits t' t := by
  cases dl <;> cases dr <;> cases tl <;> cases tr <;>
    first
      | (exfalso; revert hl; decide)
      | (exfalso; revert hr; decide)
      | (cases op <;>
          first
            | (exfalso; revert h; decide)
            | (exfalso; simp [binType, Op.isCmp, Op.isArith] at h; done)
            | (cases t <;> first | (exfalso; revert h; decide) | exact ⟨_, rfl, by decide⟩))

theorem unType_fits (s : PT) (op : Op) (t : PT) (h : unType s op = some t) (v : PVal) :
    Fits (evalUn op v).type t := by
  cases s <;> cases op <;> first | (exfalso; revert h; decide) | (exfalso; simp [unType] at h; done) | skip
  all_goals (cases t <;> first | (exfalso; revert h; decide) | exact Or.inl rfl)

/-! ## run-time environments -/

theorem PEnv.map_find_ne (ρ : PEnv) (x y : String) (v : PVal) (h : y ≠ x) :
    ((ρ.map (fun kv => if kv.1 == x then (x, v) else kv)).find? (fun kv => kv.1 == y)).map (·.2)
      = (ρ.find? (fun kv => kv.1 == y)).map (·.2) := by
  induction ρ with
  | nil => rfl
  | cons kv rest ih =>
    rw [List.map_cons, List.find?_cons, List.find?_cons]
    by_cases hk : kv.1 = x
    · have h1 : (kv.1 == x) = true := by simp [hk]
      have h2 : (x == y) = false := beq_eq_false_iff_ne.mpr (Ne.symm h)
      have h3 : (kv.1 == y) = false := by rw [hk]; exact h2
      simp only [h1, if_true, h2, h3]
      exact ih
    · have h1 : (kv.1 == x) = false := beq_eq_false_iff_ne.mpr hk
      simp only [h1, Bool.false_eq_true, if_false]
      cases kv.1 == y with
      | true => rfl
      | false => exact ih

theorem PEnv.map_find_eq (ρ : PEnv) (x : String) (v : PVal) (h : ρ.any (fun kv => kv.1 == x) = true) :
    ((ρ.map (fun kv => if kv.1 == x then (x, v) else kv)).find? (fun kv => kv.1 == x)).map (·.2) = some v := by
  induction ρ with
  | nil => simp at h
  | cons kv rest ih =>
    rw [List.map_cons, List.find?_cons]
    by_cases hk : kv.1 = x
    · have h1 : (kv.1 == x) = true := by simp [hk]
      simp [h1]
    · have h1 : (kv.1 == x) = false := beq_eq_false_iff_ne.mpr hk
      simp only [h1, Bool.false_eq_true, if_false]
      rw [List.any_cons, h1, Bool.false_or] at h
      exact ih h

theorem PEnv.get_put (ρ : PEnv) (x : String) (v : PVal) (y : String) :
    (ρ.put x v).get y = if y = x then some v else ρ.get y := by
  unfold PEnv.put PEnv.get
  by_cases ha : ρ.any (fun kv => kv.1 == x) = true
  · rw [if_pos ha]
    by_cases h : y = x
    · subst h; rw [if_pos rfl]; exact PEnv.map_find_eq ρ y v ha
    · rw [if_neg h]; exact PEnv.map_find_ne ρ x y v h
  · rw [if_neg ha]
    rw [List.find?_append]
    by_cases h : y = x
    · subst h
      have hn : ρ.find? (fun kv => kv.1 == y) = none := by
        rw [List.find?_eq_none]
        intro kv hkv hc
        exact ha (List.any_eq_true.mpr ⟨kv, hkv, hc⟩)
      simp [hn]
    · have h2 : (x == y) = false := beq_eq_false_iff_ne.mpr (Ne.symm h)
      simp [List.find?, h2, h]

theorem lookup_put (ρ : PEnv) (x : String) (v : PVal) (y : String) :
    lookup (ρ.put x v) y = if y = x then v else lookup ρ y := by
  unfold lookup
  rw [PEnv.get_put]
  by_cases h : y = x <;> simp [h]

theorem evalExpr_var (ρ : PEnv) (x : String) : evalExpr ρ (.var x) = .val (lookup ρ x) := by
  simp only [evalExpr, lookup]
  cases ρ.get x <;> rfl

/-! ## expressions -/

/-- an accepted expression evaluates to a value whose type fits, or divides by zero -/
theorem evalExpr_sound {Γ : Env} {ρ : PEnv} (hρ : Agrees ρ Γ) {e : PExpr} {t : PT} (h : HasType Γ e t) :
    (∃ v, evalExpr ρ e = .val v ∧ Fits v.type t) ∨ evalExpr ρ e = .panic divZeroTag := by
  induction h with
  | str s => exact Or.inl ⟨_, rfl, Or.inl rfl⟩
  | num n => exact Or.inl ⟨_, rfl, Or.inl rfl⟩
  | bool b => exact Or.inl ⟨_, rfl, Or.inl rfl⟩
  | var x => exact Or.inl ⟨_, evalExpr_var ρ x, hρ x⟩
  | @un op e t t' _ hu ih =>
    rcases ih with ⟨v, hv, _⟩ | hp
    · refine Or.inl ⟨evalUn op v, by simp [evalExpr, hv], ?_⟩
      exact unType_fits t op t' (by rw [unType_documented]; exact hu) v
    · exact Or.inr (by simp [evalExpr, hp])
  | @bin op l r tl tr t _ _ hb ihl ihr =>
    rcases ihl with ⟨lv, hlv, fl⟩ | hp
    · rcases ihr with ⟨rv, hrv, fr⟩ | hp
      · have hb' : binType tl tr op = some t := by rw [binType_documented]; exact hb
        obtain ⟨t', ht', ft'⟩ := binType_fits lv.type rv.type tl tr op t fl fr hb'
        have he : evalExpr ρ (.bin op l r) = evalBin op lv rv := by simp [evalExpr, hlv, hrv]
        rcases evalBin_dyn op lv rv with hd | ⟨v, hv, hty⟩ | ⟨_, hn⟩
        · exact Or.inr (by rw [he, hd])
        · refine Or.inl ⟨v, by rw [he, hv], ?_⟩
          rw [ht'] at hty
          cases hty
          exact ft'
        · rw [ht'] at hn; cases hn
      · exact Or.inr (by simp [evalExpr, hlv, hp])
    · exact Or.inr (by simp [evalExpr, hp])

/-! ## statements -/

theorem hasType_det {Γ : Env} {e : PExpr} {t t' : PT} (h : HasType Γ e t) (h' : HasType Γ e t') : t = t' := by
  induction h generalizing t' with
  | str s => cases h'; rfl
  | num n => cases h'; rfl
  | bool b => cases h'; rfl
  | var x => cases h'; rfl
  | un _ hu ih =>
    cases h' with
    | un h1 hu' => have := ih h1; subst this; rw [hu] at hu'; exact Option.some.inj hu'
  | bin _ _ hb ihl ihr =>
    cases h' with
    | bin h1 h2 hb' =>
      have := ihl h1; subst this
      have := ihr h2; subst this
      rw [hb] at hb'; exact Option.some.inj hb'

theorem Env.update_self (Γ : Env) (x : String) : Γ.update x (Γ x) = Γ := by
  funext y; unfold Env.update; by_cases h : y = x <;> simp [h]

/-- what the soundness theorem says about the outcome of running a statement -/
def GoodRes (Γ : Env) : ExecRes → Prop
  | .ok st => Agrees st.env Γ
  | .panic t => t = divZeroTag
  | .fuel => True

theorem agrees_put {Γ : Env} {ρ : PEnv} (h : Agrees ρ Γ) (x : String) (v : PVal) (hv : Fits v.type (Γ x)) :
    Agrees (ρ.put x v) Γ := by
  intro y
  rw [lookup_put]
  by_cases hy : y = x
  · subst hy; simpa using hv
  · simpa [hy] using h y

/-- one layer of the induction: assuming soundness for every smaller fuel (needed by `loop`),
soundness at fuel `f` for every statement, by induction on the typing derivation -/
theorem execStmt_sound_step (ctx : Ctx) (f : Nat)
    (ihf : ∀ f', f' < f → ∀ (b : Bool) (Γ : Env) (s : Stmt), WT ctx b Γ s Γ → SingleTyped Γ s →
      ∀ st : PState, Agrees st.env Γ → GoodRes Γ (execStmt f' s st))
    {b : Bool} {Γ Γ' : Env} {s : Stmt} (w : WT ctx b Γ s Γ') (hs : SingleTyped Γ s) :
    Γ' = Γ ∧ ∀ st : PState, Agrees st.env Γ → GoodRes Γ (execStmt f s st) := by
  induction w with
  | skip => exact ⟨rfl, fun st h => by simpa [execStmt, GoodRes] using h⟩
  | @seq b Γ Γ₁ Γ₂ s₁ s₂ _ _ ih1 ih2 =>
    obtain ⟨e1, g1⟩ := ih1 hs.1
    subst e1
    obtain ⟨e2, g2⟩ := ih2 hs.2
    subst e2
    refine ⟨rfl, fun st h => ?_⟩
    have := g1 st h
    simp only [execStmt]
    cases hr : execStmt f s₁ st with
    | ok st' =>
      rw [hr] at this
      by_cases hn : st'.status = .next
      · simp only [hn, if_true]; exact g2 st' this
      · simp only [hn, if_false]; exact this
    | panic t => rw [hr] at this; exact this
    | fuel => trivial
  | @set b Γ x e t he =>
    have ht : t = Γ x := hasType_det he hs
    subst ht
    refine ⟨Env.update_self Γ x, fun st h => ?_⟩
    simp only [execStmt]
    rcases evalExpr_sound h he with ⟨v, hv, fv⟩ | hp
    · rw [hv]; exact agrees_put h x v fv
    · rw [hp]; rfl
  | @ret b Γ e t he _ =>
    refine ⟨rfl, fun st h => ?_⟩
    simp only [execStmt]
    rcases evalExpr_sound h he with ⟨v, hv, _⟩ | hp
    · rw [hv]; exact h
    · rw [hp]; rfl
  | @ite b Γ Γ₁ Γ₂ c s₁ s₂ hc _ _ ih1 ih2 =>
    obtain ⟨e1, g1⟩ := ih1 hs.1
    subst e1
    obtain ⟨e2, g2⟩ := ih2 hs.2
    subst e2
    refine ⟨rfl, fun st h => ?_⟩
    simp only [execStmt]
    rcases evalExpr_sound h hc with ⟨v, hv, _⟩ | hp
    · rw [hv]
      by_cases hb : v.getBoolean = true
      · simp only [hb, if_true]; exact g1 _ h
      · simp only [hb]; exact g2 _ h
    · rw [hp]; rfl
  | @debug b Γ e t he =>
    refine ⟨rfl, fun st h => ?_⟩
    simp only [execStmt]
    rcases evalExpr_sound h he with ⟨v, hv, _⟩ | hp
    · rw [hv]; exact h
    · rw [hp]; rfl
  | @loop b Γ Γ₁ body wb ih =>
    obtain ⟨e1, g1⟩ := ih hs
    subst e1
    refine ⟨rfl, fun st h => ?_⟩
    cases f with
    | zero => simp [execStmt, GoodRes]
    | succ f' =>
      have hbody := ihf f' (Nat.lt_succ_self f') true Γ₁ body wb hs st h
      have hloop := fun st' (h' : Agrees st'.env Γ₁) =>
        ihf f' (Nat.lt_succ_self f') b Γ₁ (.loop body) (.loop wb) hs st' h'
      simp only [execStmt]
      cases hr : execStmt f' body st with
      | ok st' =>
        rw [hr] at hbody
        cases hst : st'.status with
        | returning => simpa [hst, GoodRes] using hbody
        | breakLoop => simpa [hst, GoodRes] using hbody
        | continueLoop => simp only [hst]; exact hloop _ hbody
        | next => simp only [hst]; exact hloop _ hbody
      | panic t => rw [hr] at hbody; exact hbody
      | fuel => trivial
  | cont => exact ⟨rfl, fun st h => by simpa [execStmt, GoodRes] using h⟩
  | brk => exact ⟨rfl, fun st h => by simpa [execStmt, GoodRes] using h⟩

theorem execStmt_sound (ctx : Ctx) : ∀ (f : Nat) (b : Bool) (Γ : Env) (s : Stmt), WT ctx b Γ s Γ → SingleTyped Γ s →
    ∀ st : PState, Agrees st.env Γ → GoodRes Γ (execStmt f s st) := by
  intro f
  induction f using Nat.strongRecOn with
  | _ f ih =>
    intro b Γ s w hs
    exact (execStmt_sound_step ctx f ih w hs).2

theorem wt_single_env (ctx : Ctx) {b : Bool} {Γ Γ' : Env} {s : Stmt} (w : WT ctx b Γ s Γ') (hs : SingleTyped Γ s) :
    Γ' = Γ :=
  (execStmt_sound_step ctx 0 (fun _ h => absurd h (Nat.not_lt_zero _)) w hs).1

/-- the top-level walk of `matchEndSubroutine` / `executeReplaceProcess` -/
theorem execTop_sound (ctx : Ctx) (f : Nat) : ∀ (s : Stmt) (b : Bool) (Γ : Env), WT ctx b Γ s Γ → SingleTyped Γ s →
    ∀ st : PState, Agrees st.env Γ → GoodRes Γ (execTop f s st)
  | .seq a c, b, Γ, w, hs, st, h => by
    cases w with
    | seq w1 w2 =>
      have e1 := wt_single_env ctx w1 hs.1
      subst e1
      have g1 := execStmt_sound ctx f b _ a w1 hs.1 st h
      simp only [execTop]
      cases hr : execStmt f a st with
      | ok st' =>
        rw [hr] at g1
        by_cases hn : st'.status = .returning
        · simp only [hn, if_true]; exact g1
        · simp only [hn, if_false]; exact execTop_sound ctx f c b _ w2 hs.2 st' g1
      | panic t => rw [hr] at g1; exact g1
      | fuel => trivial
  | .skip, _, _, _, _, st, h => by simpa [execTop, GoodRes] using h
  | .set x e, b, Γ, w, hs, st, h => by simpa [execTop] using execStmt_sound ctx f b Γ _ w hs st h
  | .ret e, b, Γ, w, hs, st, h => by simpa [execTop] using execStmt_sound ctx f b Γ _ w hs st h
  | .ite c t e, b, Γ, w, hs, st, h => by simpa [execTop] using execStmt_sound ctx f b Γ _ w hs st h
  | .debug e, b, Γ, w, hs, st, h => by simpa [execTop] using execStmt_sound ctx f b Γ _ w hs st h
  | .loop body, b, Γ, w, hs, st, h => by simpa [execTop] using execStmt_sound ctx f b Γ _ w hs st h
  | .cont, b, Γ, w, hs, st, h => by simpa [execTop] using execStmt_sound ctx f b Γ _ w hs st h
  | .brk, b, Γ, w, hs, st, h => by simpa [execTop] using execStmt_sound ctx f b Γ _ w hs st h

theorem singleTypedB_iff (Γ : TEnv) : ∀ s : Stmt, singleTypedB Γ s = true ↔ SingleTyped Γ.get s
  | .skip => by simp [singleTypedB, SingleTyped]
  | .seq a b => by simp [singleTypedB, SingleTyped, singleTypedB_iff Γ a, singleTypedB_iff Γ b]
  | .set x e => by simp [singleTypedB, SingleTyped, typeOf_iff]
  | .ret _ => by simp [singleTypedB, SingleTyped]
  | .ite _ t f => by simp [singleTypedB, SingleTyped, singleTypedB_iff Γ t, singleTypedB_iff Γ f]
  | .debug _ => by simp [singleTypedB, SingleTyped]
  | .loop body => by simp [singleTypedB, SingleTyped, singleTypedB_iff Γ body]
  | .cont => by simp [singleTypedB, SingleTyped]
  | .brk => by simp [singleTypedB, SingleTyped]

end Vore
