import Vore.Lemmas.SimR
/-!
# Vore.Lemmas.ResolveWF — what name resolution guarantees about its output

`Spec.resolveN` hands out subroutine ids from a counter, so the ids of the subroutine nodes of a resolved
body are pairwise distinct (`UniqueSubs`), and it copies `in` lists unchanged, so their non-emptiness
(`WfR`) is a property of the source (`WfE`).  With these two facts the hypotheses of the stage-2
simulation that concern the *resolved* program disappear: they hold for every program the resolver accepts.
-/
namespace Vore
open Vore.Spec

/-- ids of the subroutine nodes, in the order `pcMap` lists them -/
def subIds : RExpr → List Nat
  | .empty => []
  | .seq a b => subIds a ++ subIds b
  | .atom _ => []
  | .backref _ => []
  | .call _ _ => []
  | .star _ _ body => subIds body
  | .branch l r => subIds l ++ subIds r
  | .dec _ body => subIds body
  | .sub id _ body _ => id :: subIds body
  | .inl _ _ => []

theorem pcMap_ids (e : RExpr) : ∀ off, (pcMap e off).map (·.1) = subIds e := by
  induction e with
  | seq a b iha ihb => intro off; simp [pcMap, subIds, iha, ihb]
  | star mx f body ih => intro off; simp [pcMap, subIds, ih]
  | branch l r ihl ihr => intro off; simp [pcMap, subIds, ihl, ihr]
  | dec x body ih => intro off; simp [pcMap, subIds, ih]
  | sub id x body pred ih => intro off; simp [pcMap, subIds, ih]
  | empty => intro off; rfl
  | atom a => intro off; rfl
  | backref x => intro off; rfl
  | call x id => intro off; rfl
  | inl n items => intro off; rfl

/-- the subroutine ids of `r` lie in `[lo, hi)` and are pairwise distinct -/
def IdsIn (lo hi : Nat) (ids : List Nat) : Prop := (∀ id ∈ ids, lo ≤ id ∧ id < hi) ∧ ids.Nodup

theorem IdsIn.nil (lo hi : Nat) : IdsIn lo hi [] := ⟨by simp, List.nodup_nil⟩

theorem IdsIn.append {lo mid hi : Nat} {a b : List Nat} (ha : IdsIn lo mid a) (hb : IdsIn mid hi b)
    (h1 : lo ≤ mid) (h2 : mid ≤ hi) : IdsIn lo hi (a ++ b) := by
  refine ⟨?_, ?_⟩
  · intro id hid
    rcases List.mem_append.mp hid with h | h
    · have := ha.1 id h; omega
    · have := hb.1 id h; omega
  · rw [List.nodup_append]
    refine ⟨ha.2, hb.2, ?_⟩
    intro x hx y hy hxy
    have := ha.1 x hx
    have := hb.1 y hy
    omega

theorem IdsIn.cons {lo hi : Nat} {b : List Nat} (hb : IdsIn (lo + 1) hi b) (h : lo + 1 ≤ hi) : IdsIn lo hi (lo :: b) := by
  refine ⟨?_, ?_⟩
  · intro id hid
    rcases List.mem_cons.mp hid with h' | h'
    · omega
    · have := hb.1 id h'; omega
  · rw [List.nodup_cons]
    refine ⟨?_, hb.2⟩
    intro hm
    have := hb.1 lo hm
    omega

theorem IdsIn.mono {lo hi hi' : Nat} {a : List Nat} (ha : IdsIn lo hi a) (h : hi ≤ hi') : IdsIn lo hi' a :=
  ⟨fun id hid => by have := ha.1 id hid; omega, ha.2⟩

/-- an elaboration step only moves the id counter forward and uses the ids in between, once each -/
def ResolverOK (f : ElabSt → Option (RExpr × ElabSt)) : Prop :=
  ∀ st r st', f st = some (r, st') → st.nextSub ≤ st'.nextSub ∧ IdsIn st.nextSub st'.nextSub (subIds r)

theorem subIds_seqOf : ∀ rs : List RExpr, subIds (seqOf rs) = (rs.map subIds).flatten := by
  intro rs
  induction rs with
  | nil => rfl
  | cons r rest ih => simp [seqOf, subIds, ih]

theorem copiesOf_ok {f : ElabSt → Option (RExpr × ElabSt)} (hf : ResolverOK f) :
    ∀ n st rs st', copiesOf f n st = some (rs, st') →
      st.nextSub ≤ st'.nextSub ∧ IdsIn st.nextSub st'.nextSub (subIds (seqOf rs)) := by
  intro n
  induction n with
  | zero =>
    intro st rs st' h
    simp only [copiesOf, Option.some.injEq, Prod.mk.injEq] at h
    obtain ⟨rfl, rfl⟩ := h
    exact ⟨Nat.le_refl _, IdsIn.nil _ _⟩
  | succ n ih =>
    intro st rs st' h
    simp only [copiesOf, Option.bind_eq_bind, Option.bind_eq_some_iff] at h
    obtain ⟨⟨r, st1⟩, h1, h⟩ := h
    simp only at h
    obtain ⟨⟨rs', st2⟩, h2, h⟩ := h
    simp only [Option.pure_def, Option.some.injEq, Prod.mk.injEq] at h
    obtain ⟨rfl, rfl⟩ := h
    have a := hf st r st1 h1
    have b := ih st1 rs' st2 h2
    refine ⟨by omega, ?_⟩
    simp only [seqOf, subIds]
    exact a.2.append b.2 a.1 b.1

theorem resolveWith_ok (inlineG : GEnv → Expr → ElabSt → Option (RExpr × ElabSt))
    (hin : ∀ G' body, ResolverOK (inlineG G' body)) (G : GEnv) :
    ∀ e, ResolverOK (resolveWith inlineG G e) := by
  intro e
  induction e with
  | empty =>
    intro st r st' h
    simp only [resolveWith, Option.some.injEq, Prod.mk.injEq] at h
    obtain ⟨rfl, rfl⟩ := h
    exact ⟨Nat.le_refl _, IdsIn.nil _ _⟩
  | seq a b iha ihb =>
    intro st r st' h
    simp only [resolveWith, Option.bind_eq_bind, Option.bind_eq_some_iff] at h
    obtain ⟨⟨ra, st1⟩, h1, h⟩ := h
    simp only at h
    obtain ⟨⟨rb, st2⟩, h2, h⟩ := h
    simp only [Option.pure_def, Option.some.injEq, Prod.mk.injEq] at h
    obtain ⟨rfl, rfl⟩ := h
    have x := iha st ra st1 h1
    have y := ihb st1 rb st2 h2
    exact ⟨by omega, by simp only [subIds]; exact x.2.append y.2 x.1 y.1⟩
  | atom a =>
    intro st r st' h
    simp only [resolveWith, Option.some.injEq, Prod.mk.injEq] at h
    obtain ⟨rfl, rfl⟩ := h
    exact ⟨Nat.le_refl _, IdsIn.nil _ _⟩
  | var x =>
    intro st r st' h
    simp only [resolveWith] at h
    split at h
    · simp only [Option.some.injEq, Prod.mk.injEq] at h
      obtain ⟨rfl, rfl⟩ := h
      exact ⟨Nat.le_refl _, IdsIn.nil _ _⟩
    · simp only [Option.some.injEq, Prod.mk.injEq] at h
      obtain ⟨rfl, rfl⟩ := h
      exact ⟨Nat.le_refl _, IdsIn.nil _ _⟩
    · split at h
      · next body pred G' _ =>
        split at h
        · next rb stb hb =>
          simp only [Option.some.injEq, Prod.mk.injEq] at h
          obtain ⟨rfl, rfl⟩ := h
          have z := hin G' body _ rb stb hb
          simp only at z
          exact ⟨by show st.nextSub ≤ stb.nextSub; omega, by simp only [subIds]; exact IdsIn.cons z.2 z.1⟩
        · simp at h
      · simp at h
  | loop mn mx fewest name body ih =>
    intro st r st' h
    simp only [resolveWith] at h
    split at h
    · simp at h
    · simp only [Option.bind_eq_bind, Option.bind_eq_some_iff] at h
      obtain ⟨⟨pre, st1⟩, h1, h⟩ := h
      have ih' : ResolverOK (fun s => resolveWith inlineG G body (forgetVars st.vars s)) :=
        fun s r s' hr => ih (forgetVars st.vars s) r s' hr
      have a := copiesOf_ok ih' mn st pre st1 h1
      simp only at h
      split at h
      · simp only [Option.pure_def, Option.some.injEq, Prod.mk.injEq] at h
        obtain ⟨rfl, rfl⟩ := h
        exact a
      · simp only [Option.bind_eq_some_iff] at h
        obtain ⟨⟨rb, st2⟩, h2, h⟩ := h
        simp only [Option.pure_def, Option.some.injEq, Prod.mk.injEq] at h
        obtain ⟨rfl, rfl⟩ := h
        have b := ih (forgetVars st.vars st1) rb st2 h2
        have hn : (forgetVars st.vars st1).nextSub = st1.nextSub := rfl
        rw [hn] at b
        exact ⟨by omega, by simp only [subIds]; exact a.2.append b.2 a.1 b.1⟩
  | branch l r' ihl ihr =>
    intro st r st' h
    simp only [resolveWith, Option.bind_eq_bind, Option.bind_eq_some_iff] at h
    obtain ⟨⟨rl, st1⟩, h1, h⟩ := h
    simp only at h
    obtain ⟨⟨rr, st2⟩, h2, h⟩ := h
    simp only [Option.pure_def, Option.some.injEq, Prod.mk.injEq] at h
    obtain ⟨rfl, rfl⟩ := h
    have x := ihl st rl st1 h1
    have y := ihr st1 rr st2 h2
    exact ⟨by omega, by simp only [subIds]; exact x.2.append y.2 x.1 y.1⟩
  | dec x body ih =>
    intro st r st' h
    simp only [resolveWith, Option.bind_eq_bind, Option.bind_eq_some_iff] at h
    obtain ⟨⟨rb, st1⟩, h1, h⟩ := h
    simp only at h
    split at h
    · simp at h
    · simp only [Option.pure_def, Option.some.injEq, Prod.mk.injEq] at h
      obtain ⟨rfl, rfl⟩ := h
      have z := ih st rb st1 h1
      exact ⟨z.1, by simpa only [subIds] using z.2⟩
  | sub x body ih =>
    intro st r st' h
    simp only [resolveWith] at h
    split at h
    · simp at h
    · split at h
      · next rb st1 hb =>
        simp only [Option.some.injEq, Prod.mk.injEq] at h
        obtain ⟨rfl, rfl⟩ := h
        have z := ih _ rb st1 hb
        simp only at z
        exact ⟨by omega, by simp only [subIds]; exact IdsIn.cons z.2 z.1⟩
      · simp at h
  | inl neg items =>
    intro st r st' h
    simp only [resolveWith, Option.some.injEq, Prod.mk.injEq] at h
    obtain ⟨rfl, rfl⟩ := h
    exact ⟨Nat.le_refl _, IdsIn.nil _ _⟩

theorem resolveN_ok : ∀ n G e, ResolverOK (resolveN n G e) := by
  intro n
  induction n with
  | zero =>
    intro G e
    exact resolveWith_ok _ (fun _ _ st r st' h => by simp at h) G e
  | succ n ih =>
    intro G e
    exact resolveWith_ok _ (fun G' body => ih G' body) G e

/-- every resolved command body has pairwise distinct subroutine ids -/
theorem resolveBody_unique (G : GEnv) (e : Expr) (r : RExpr) (h : resolveBody G e = some r) : UniqueSubs r := by
  unfold resolveBody at h
  cases hr : resolveN (G.length + 1) G e {} with
  | none => rw [hr] at h; simp at h
  | some p =>
    obtain ⟨r', st'⟩ := p
    rw [hr] at h
    simp only [Option.map_some, Option.some.injEq] at h
    subst h
    have := (resolveN_ok _ G e {} r' st' hr).2.2
    unfold UniqueSubs
    rw [pcMap_ids]
    exact this

/-! ## `in` lists: non-emptiness is a property of the source -/

/-- the source has no empty (positive) `in` list — what the parser guarantees -/
def WfE : Expr → Prop
  | .empty => True
  | .seq a b => WfE a ∧ WfE b
  | .atom _ => True
  | .var _ => True
  | .loop _ _ _ _ body => WfE body
  | .branch l r => WfE l ∧ WfE r
  | .dec _ body => WfE body
  | .sub _ body => WfE body
  | .inl neg items => neg = true ∨ items ≠ []

def WfG (G : GEnv) : Prop := ∀ ent ∈ G, WfE ent.2.1

theorem GEnv.find_wf {G : GEnv} (hG : WfG G) {x : String} {b : Expr} {p : Stmt} {rest : GEnv}
    (h : G.find x = some (b, p, rest)) : WfE b ∧ WfG rest := by
  induction G with
  | nil => simp [GEnv.find] at h
  | cons ent G' ih =>
    obtain ⟨y, b', p'⟩ := ent
    simp only [GEnv.find] at h
    split at h
    · simp only [Option.some.injEq, Prod.mk.injEq] at h
      obtain ⟨rfl, rfl, rfl⟩ := h
      exact ⟨hG _ List.mem_cons_self, fun e he => hG e (List.mem_cons_of_mem _ he)⟩
    · exact ih (fun e he => hG e (List.mem_cons_of_mem _ he)) h

def ResolverWf (f : ElabSt → Option (RExpr × ElabSt)) : Prop := ∀ st r st', f st = some (r, st') → WfR r

theorem wfR_seqOf : ∀ rs : List RExpr, (∀ r ∈ rs, WfR r) → WfR (seqOf rs) := by
  intro rs
  induction rs with
  | nil => intro _; trivial
  | cons r rest ih => intro h; exact ⟨h r List.mem_cons_self, ih (fun x hx => h x (List.mem_cons_of_mem _ hx))⟩

theorem copiesOf_wf {f : ElabSt → Option (RExpr × ElabSt)} (hf : ResolverWf f) :
    ∀ n st rs st', copiesOf f n st = some (rs, st') → ∀ r ∈ rs, WfR r := by
  intro n
  induction n with
  | zero =>
    intro st rs st' h
    simp only [copiesOf, Option.some.injEq, Prod.mk.injEq] at h
    obtain ⟨rfl, rfl⟩ := h
    simp
  | succ n ih =>
    intro st rs st' h
    simp only [copiesOf, Option.bind_eq_bind, Option.bind_eq_some_iff] at h
    obtain ⟨⟨r, st1⟩, h1, h⟩ := h
    simp only at h
    obtain ⟨⟨rs', st2⟩, h2, h⟩ := h
    simp only [Option.pure_def, Option.some.injEq, Prod.mk.injEq] at h
    obtain ⟨rfl, rfl⟩ := h
    intro x hx
    rcases List.mem_cons.mp hx with rfl | hx
    · exact hf st _ st1 h1
    · exact ih st1 rs' st2 h2 x hx

theorem resolveWith_wf (inlineG : GEnv → Expr → ElabSt → Option (RExpr × ElabSt))
    (hin : ∀ G' body, WfG G' → WfE body → ResolverWf (inlineG G' body)) (G : GEnv) (hG : WfG G) :
    ∀ e, WfE e → ResolverWf (resolveWith inlineG G e) := by
  intro e
  induction e with
  | empty =>
    intro _ st r st' h
    simp only [resolveWith, Option.some.injEq, Prod.mk.injEq] at h
    obtain ⟨rfl, rfl⟩ := h; trivial
  | seq a b iha ihb =>
    intro hw st r st' h
    simp only [resolveWith, Option.bind_eq_bind, Option.bind_eq_some_iff] at h
    obtain ⟨⟨ra, st1⟩, h1, h⟩ := h
    simp only at h
    obtain ⟨⟨rb, st2⟩, h2, h⟩ := h
    simp only [Option.pure_def, Option.some.injEq, Prod.mk.injEq] at h
    obtain ⟨rfl, rfl⟩ := h
    exact ⟨iha hw.1 st ra st1 h1, ihb hw.2 st1 rb st2 h2⟩
  | atom a =>
    intro _ st r st' h
    simp only [resolveWith, Option.some.injEq, Prod.mk.injEq] at h
    obtain ⟨rfl, rfl⟩ := h; trivial
  | var x =>
    intro _ st r st' h
    simp only [resolveWith] at h
    split at h
    · simp only [Option.some.injEq, Prod.mk.injEq] at h
      obtain ⟨rfl, rfl⟩ := h; trivial
    · simp only [Option.some.injEq, Prod.mk.injEq] at h
      obtain ⟨rfl, rfl⟩ := h; trivial
    · split at h
      · next body pred G' hf =>
        split at h
        · next rb stb hb =>
          simp only [Option.some.injEq, Prod.mk.injEq] at h
          obtain ⟨rfl, rfl⟩ := h
          have w := GEnv.find_wf hG hf
          exact hin G' body w.2 w.1 _ rb stb hb
        · simp at h
      · simp at h
  | loop mn mx fewest name body ih =>
    intro hw st r st' h
    simp only [resolveWith] at h
    split at h
    · simp at h
    · simp only [Option.bind_eq_bind, Option.bind_eq_some_iff] at h
      obtain ⟨⟨pre, st1⟩, h1, h⟩ := h
      have ih' : ResolverWf (fun s => resolveWith inlineG G body (forgetVars st.vars s)) :=
        fun s r s' hr => ih hw (forgetVars st.vars s) r s' hr
      have a := wfR_seqOf pre (copiesOf_wf ih' mn st pre st1 h1)
      simp only at h
      split at h
      · simp only [Option.pure_def, Option.some.injEq, Prod.mk.injEq] at h
        obtain ⟨rfl, rfl⟩ := h
        exact a
      · simp only [Option.bind_eq_some_iff] at h
        obtain ⟨⟨rb, st2⟩, h2, h⟩ := h
        simp only [Option.pure_def, Option.some.injEq, Prod.mk.injEq] at h
        obtain ⟨rfl, rfl⟩ := h
        exact ⟨a, ih hw _ rb st2 h2⟩
  | branch l r' ihl ihr =>
    intro hw st r st' h
    simp only [resolveWith, Option.bind_eq_bind, Option.bind_eq_some_iff] at h
    obtain ⟨⟨rl, st1⟩, h1, h⟩ := h
    simp only at h
    obtain ⟨⟨rr, st2⟩, h2, h⟩ := h
    simp only [Option.pure_def, Option.some.injEq, Prod.mk.injEq] at h
    obtain ⟨rfl, rfl⟩ := h
    exact ⟨ihl hw.1 st rl st1 h1, ihr hw.2 st1 rr st2 h2⟩
  | dec x body ih =>
    intro hw st r st' h
    simp only [resolveWith, Option.bind_eq_bind, Option.bind_eq_some_iff] at h
    obtain ⟨⟨rb, st1⟩, h1, h⟩ := h
    simp only at h
    split at h
    · simp at h
    · simp only [Option.pure_def, Option.some.injEq, Prod.mk.injEq] at h
      obtain ⟨rfl, rfl⟩ := h
      exact ih hw st rb st1 h1
  | sub x body ih =>
    intro hw st r st' h
    simp only [resolveWith] at h
    split at h
    · simp at h
    · split at h
      · next rb st1 hb =>
        simp only [Option.some.injEq, Prod.mk.injEq] at h
        obtain ⟨rfl, rfl⟩ := h
        exact ih hw _ rb st1 hb
      · simp at h
  | inl neg items =>
    intro hw st r st' h
    simp only [resolveWith, Option.some.injEq, Prod.mk.injEq] at h
    obtain ⟨rfl, rfl⟩ := h
    exact hw

theorem resolveN_wf : ∀ n G e, WfG G → WfE e → ResolverWf (resolveN n G e) := by
  intro n
  induction n with
  | zero =>
    intro G e hG he
    exact resolveWith_wf _ (fun _ _ _ _ st r st' h => by simp at h) G hG e he
  | succ n ih =>
    intro G e hG he
    exact resolveWith_wf _ (fun G' body hG' hb => ih G' body hG' hb) G hG e he

theorem resolveBody_wf (G : GEnv) (e : Expr) (r : RExpr) (hG : WfG G) (he : WfE e)
    (h : resolveBody G e = some r) : WfR r := by
  unfold resolveBody at h
  cases hr : resolveN (G.length + 1) G e {} with
  | none => rw [hr] at h; simp at h
  | some p =>
    obtain ⟨r', st'⟩ := p
    rw [hr] at h
    simp only [Option.map_some, Option.some.injEq] at h
    subst h
    exact resolveN_wf _ G e hG he {} r' st' hr

end Vore
