import Vore.Lemmas.Sim
import Vore.Lemmas.Window
/-!
# Vore.Lemmas.SimTop — from one attempt to the whole scan: `findMatches` on generated code returns
`Spec.findAll` (C01, call-free fragment)
-/
namespace Vore
open Vore.Spec

theorem run_mono (pf : Nat) (prog : List Instr) (text : Bytes) :
    ∀ n k s o, run pf prog text n s = some o → run pf prog text (n + k) s = some o := by
  intro n
  induction n with
  | zero => intro k s o h; simp [run] at h
  | succ n ih =>
    intro k s o h
    have e : n + 1 + k = (n + k) + 1 := by omega
    rw [e]
    rw [run] at h ⊢
    by_cases hge : s.core.pc ≥ prog.length
    · simp only [hge, if_true] at h ⊢; exact h
    · simp only [hge, if_false] at h ⊢
      cases hs : step pf prog text s with
      | done o' => rw [hs] at h; exact h
      | cont s' => rw [hs] at h; exact ih k s' o h

theorem run_mono_le (pf : Nat) (prog : List Instr) (text : Bytes) {n n' : Nat} {s : VMState} {o : Outcome}
    (h : run pf prog text n s = some o) (hle : n ≤ n') : run pf prog text n' s = some o := by
  have := run_mono pf prog text n (n' - n) s o h
  rwa [Nat.add_sub_cancel' hle] at this

/-- one attempt: the VM on the code of `e` returns what the specification's `attempt` returns -/
theorem attempt_sim (pf : Nat) (text : Bytes) (lf : Nat) (e : Expr) (hcf : CallFree e) (nid : Nat) (pos line col : Nat)
    (r : SRes) (h : attempt text lf e pos line col = some r) :
    Ev pf (genCF e 0 nid).1 text (initState pos line col) r := by
  have hat : At (genCF e 0 nid).1 0 (genCF e 0 nid).1 := by intro i _; simp
  have := sim (pf := pf) (prog := (genCF e 0 nid).1) (text := text) (lf := lf) e hcf 0 nid hat
    ⟨pos, line, col, [], .nil⟩ [] [] [] [] (fun d _ => some (.matched d)) (fun _ => some .fail) r
    (by intro l hl; simp at hl) ?_ ?_ h
  · exact this
  · intro d fk' bt' r' _ hk
    simp only [Option.some.injEq] at hk
    subst hk
    refine ⟨1, .success (mkCore (0 + codeLen e) d [] [] []), ?_, rfl⟩
    simp [run, genCF_length]
  · intro r' hk
    simp only [Option.some.injEq] at hk
    subst hk
    rfl

theorem makeMatch_data (n pos line col : Nat) (c : Core) :
    makeMatch n pos line col c = matchOfData n pos line col c.data := rfl

theorem readAt_one (text : Bytes) (pos : Nat) (h : pos < text.length) : ∃ b, readAt text pos 1 = [b] := by
  unfold readAt
  have : ¬ (1 = 0 ∨ pos + 1 > text.length) := by omega
  simp only [this, if_false]
  cases hd : text.drop pos with
  | nil => have := congrArg List.length hd; simp at this; omega
  | cons b rest => exact ⟨b, by simp⟩

/-- the scan loop of the VM model (amount `all`) follows the specification's scan -/
theorem scan_sim_with (pf : Nat) (text : Bytes) (prog : List Instr) (att : Nat → Nat → Nat → Option SRes)
    (hatt : ∀ pos line col r, att pos line col = some r → Ev pf prog text (initState pos line col) r) :
    ∀ f acc pos line col A, pos < text.length → scanAllWith text att f acc pos line col = some A →
      ∃ vf0, ∀ vf, vf0 ≤ vf →
        scan pf vf prog amtAll text f acc acc.length pos line col = some (.ok A) := by
  intro f
  induction f with
  | zero => intro acc pos line col A _ h; simp [scanAllWith] at h
  | succ f ih =>
    intro acc pos line col A hposlt h
    unfold scanAllWith at h
    obtain ⟨b, hb⟩ := readAt_one text pos hposlt
    -- the advance-one-byte continuation, shared by "failed" and "empty match"
    have hstep1 : ∀ (A : List Match), scanAllWith.step1 text att f acc pos line col = some A →
        ∃ vf0, ∀ vf, vf0 ≤ vf →
          (if pos + 1 ≥ text.length then some (Res.ok acc)
           else scan pf vf prog amtAll text f acc acc.length (pos + 1)
             (if b = nl then (line + 1, 1) else (line, col + 1)).1
             (if b = nl then (line + 1, 1) else (line, col + 1)).2) = some (.ok A) := by
      intro A hs
      unfold scanAllWith.step1 at hs
      simp only [hb] at hs
      split at hs
      · next hend =>
        simp only [Option.some.injEq] at hs; subst hs
        exact ⟨0, fun vf _ => by simp [hend]⟩
      · next hend =>
        split at hs
        · next hnl =>
          obtain ⟨vf0, hv⟩ := ih acc (pos + 1) (line + 1) 1 A (by omega) hs
          exact ⟨vf0, fun vf hle => by simp only [hend, if_false, hnl, if_true]; exact hv vf hle⟩
        · next hnl =>
          obtain ⟨vf0, hv⟩ := ih acc (pos + 1) line (col + 1) A (by omega) hs
          exact ⟨vf0, fun vf hle => by simp only [hend, if_false, hnl]; exact hv vf hle⟩
    split at h
    · simp at h
    · next d hatt' =>
      obtain ⟨n, o, hrun, hres⟩ := hatt pos line col _ hatt'
      -- `o` is a success whose data is `d`
      have ho : ∃ c, o = .success c ∧ c.data = d := by
        cases o with
        | success c => simp only [outcomeRes, Option.some.injEq, SRes.matched.injEq] at hres; exact ⟨c, rfl, hres⟩
        | fail => simp [outcomeRes] at hres
        | panic t => simp [outcomeRes] at hres
        | pfuel => simp [outcomeRes] at hres
      obtain ⟨c, rfl, hcd⟩ := ho
      have hcur : c.cur = d.cur := by rw [← hcd]; rfl
      split at h
      · next hne =>
        -- non-empty match: reported
        have hcls : ∀ vf, n ≤ vf → classify (run pf prog text vf (initState pos line col)) = .hit c := by
          intro vf hle
          rw [run_mono_le pf _ text hrun hle]
          simp only [classify, hcur, hne, if_true]
        have hpos : c.pos = d.pos := by rw [← hcd]; rfl
        have hline : c.line = d.line := by rw [← hcd]; rfl
        have hcol : c.col = d.col := by rw [← hcd]; rfl
        simp only at h
        split at h
        · next hend =>
          simp only [Option.some.injEq] at h; subst h
          refine ⟨n, fun vf hle => ?_⟩
          rw [scan]
          simp only [amtAll, Bool.true_or, Bool.not_true, Bool.false_eq_true, if_false, hcls vf hle, Nat.zero_le,
            ge_iff_le, if_true, limitLast_zero, hpos, hend, makeMatch_data, hcd]
        · next hend =>
          obtain ⟨vf0, hv⟩ := ih _ _ _ _ A (by omega) h
          refine ⟨max n vf0, fun vf hle => ?_⟩
          rw [scan]
          simp only [amtAll, Bool.true_or, Bool.not_true, Bool.false_eq_true, if_false,
            hcls vf (Nat.le_trans (Nat.le_max_left _ _) hle), Nat.zero_le, ge_iff_le, if_true, limitLast_zero,
            hpos, hline, hcol, hend, makeMatch_data, hcd]
          have := hv vf (Nat.le_trans (Nat.le_max_right _ _) hle)
          simpa [amtAll] using this
      · next hne =>
        -- empty match: advance one byte
        have hcls : ∀ vf, n ≤ vf → classify (run pf prog text vf (initState pos line col)) = .miss := by
          intro vf hle
          rw [run_mono_le pf _ text hrun hle]
          simp only [classify, hcur]
          simp only [hne]
          rfl
        obtain ⟨vf0, hv⟩ := hstep1 A h
        refine ⟨max n vf0, fun vf hle => ?_⟩
        rw [scan]
        simp only [amtAll, Bool.true_or, Bool.not_true, Bool.false_eq_true, if_false,
          hcls vf (Nat.le_trans (Nat.le_max_left _ _) hle), hb]
        exact hv vf (Nat.le_trans (Nat.le_max_right _ _) hle)
    · next hatt' =>
      obtain ⟨n, o, hrun, hres⟩ := hatt pos line col _ hatt'
      have ho : o = .fail := by
        cases o with
        | success c => simp [outcomeRes] at hres
        | fail => rfl
        | panic t => simp [outcomeRes] at hres
        | pfuel => simp [outcomeRes] at hres
      subst ho
      have hcls : ∀ vf, n ≤ vf → classify (run pf prog text vf (initState pos line col)) = .miss := by
        intro vf hle
        rw [run_mono_le pf _ text hrun hle]
        rfl
      obtain ⟨vf0, hv⟩ := hstep1 A h
      refine ⟨max n vf0, fun vf hle => ?_⟩
      rw [scan]
      simp only [amtAll, Bool.true_or, Bool.not_true, Bool.false_eq_true, if_false,
        hcls vf (Nat.le_trans (Nat.le_max_left _ _) hle), hb]
      exact hv vf (Nat.le_trans (Nat.le_max_right _ _) hle)

theorem scan_sim (pf : Nat) (text : Bytes) (lf : Nat) (e : Expr) (hcf : CallFree e) (nid : Nat) :
    ∀ f acc pos line col A, pos < text.length → scanAll text lf e f acc pos line col = some A →
      ∃ vf0, ∀ vf, vf0 ≤ vf →
        scan pf vf (genCF e 0 nid).1 amtAll text f acc acc.length pos line col = some (.ok A) :=
  scan_sim_with pf text _ _ (fun pos line col r h => attempt_sim pf text lf e hcf nid pos line col r h)

/-- `findMatches` (amount `all`) on the generated code returns `Spec.findAll` -/
theorem findMatches_spec (pf : Nat) (text : Bytes) (e : Expr) (hcf : CallFree e) (nid : Nat) (hne : codeLen e ≠ 0)
    (A : List Match) (h : findAll text e = some A) :
    ∃ vf0, ∀ vf, vf0 ≤ vf → findMatches pf vf (genCF e 0 nid).1 amtAll text = some (.ok A) := by
  unfold findAll at h
  split at h
  · next h0 =>
    simp only [Option.some.injEq] at h; subst h
    exact ⟨0, fun vf _ => by simp [findMatches, h0]⟩
  · next h0 =>
    obtain ⟨vf0, hv⟩ := scan_sim pf text _ e hcf nid _ [] 0 1 1 A (by omega) h
    refine ⟨vf0, fun vf hle => ?_⟩
    have hl : (genCF e 0 nid).1.length ≠ 0 := by rw [genCF_length]; exact hne
    simp only [findMatches, h0, hl, if_false]
    exact hv vf hle

end Vore
