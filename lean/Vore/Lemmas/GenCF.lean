import Vore.Model.Gen
/-!
# Vore.Lemmas.GenCF — the code generator on the call-free fragment, as a pure function

`genCF e off nid` is what `gen e off st` emits when `e` contains no subroutine and no named loop and
the scope holds only captures (`gen_eq_genCF`).  It threads only the loop-id counter.
-/
namespace Vore

/-- no subroutines, no named loops, `in` lists non-empty -/
def CallFree : Expr → Prop
  | .empty => True
  | .seq a b => CallFree a ∧ CallFree b
  | .atom _ => True
  | .var _ => True
  | .loop _ _ _ name body => name = "" ∧ CallFree body
  | .branch l r => CallFree l ∧ CallFree r
  | .dec _ body => CallFree body
  | .sub _ _ => False
  | .inl neg items => neg = true ∨ items ≠ []

def repCF (g : Nat → Nat → List Instr × Nat) : Nat → Nat → Nat → List Instr × Nat
  | 0, _, nid => ([], nid)
  | n + 1, off, nid =>
    let r := g off nid
    let rs := repCF g n (off + r.1.length) r.2
    (r.1 ++ rs.1, rs.2)

def loopMax (mn : Nat) (mx : Int) : Int := if mx > 0 then mx - mn else mx

def genCF : Expr → Nat → Nat → List Instr × Nat
  | .empty, _, nid => ([], nid)
  | .seq a b, off, nid =>
    let ra := genCF a off nid
    let rb := genCF b (off + ra.1.length) ra.2
    (ra.1 ++ rb.1, rb.2)
  | .atom a, _, nid => ([genAtom a], nid)
  | .var x, _, nid => ([.mvar x], nid)
  | .loop mn mx fewest _ body, off, nid =>
    let pre := repCF (genCF body) mn off nid
    let cur := off + pre.1.length
    if (mn : Int) == mx then pre else
    let rb := genCF body (cur + 1) pre.2
    (pre.1 ++ [.startLoop rb.2 0 (loopMax mn mx) fewest (cur + rb.1.length + 1) ""] ++ rb.1 ++ [.stopLoop rb.2 cur], rb.2 + 1)
  | .branch l r, off, nid =>
    let rl := genCF l (off + 1) nid
    let rr := genCF r (off + 2 + rl.1.length) rl.2
    let e := off + rl.1.length + rr.1.length + 3
    ([.branch [off + 1, off + rl.1.length + 2]] ++ rl.1 ++ [.jump e] ++ rr.1 ++ [.jump e], rr.2)
  | .dec x body, off, nid =>
    let rb := genCF body (off + 1) nid
    ([.startVar x] ++ rb.1 ++ [.endVar x], rb.2)
  | .sub _ _, _, nid => ([], nid)
  | .inl false items, off, nid =>
    ([.branch ((List.range items.length).map (fun i => off + 1 + 2 * i))] ++ genInItems items (off + 1 + 2 * items.length), nid)
  | .inl true items, off, nid => (genNotInItems items off ++ [.endNotIn (listMaxSize items)], nid)

def codeLen : Expr → Nat
  | .empty => 0
  | .seq a b => codeLen a + codeLen b
  | .atom _ => 1
  | .var _ => 1
  | .loop mn mx _ _ body => if (mn : Int) == mx then mn * codeLen body else mn * codeLen body + codeLen body + 2
  | .branch l r => codeLen l + codeLen r + 3
  | .dec _ body => codeLen body + 2
  | .sub _ _ => 0
  | .inl false items => 1 + 2 * items.length
  | .inl true items => 3 * items.length + 1

theorem genInItems_length (items : List Atom) (e : Nat) : (genInItems items e).length = 2 * items.length := by
  induction items with
  | nil => rfl
  | cons a rest ih => simp only [genInItems, List.flatMap_cons] at ih ⊢; simp [ih]; omega

theorem genNotInItems_length (items : List Atom) : ∀ pc, (genNotInItems items pc).length = 3 * items.length := by
  induction items with
  | nil => intro pc; rfl
  | cons a rest ih => intro pc; simp [genNotInItems, ih]; omega

theorem repCF_length (g : Nat → Nat → List Instr × Nat) (len : Nat) (hg : ∀ off nid, (g off nid).1.length = len) :
    ∀ n off nid, (repCF g n off nid).1.length = n * len := by
  intro n
  induction n with
  | zero => intro off nid; simp [repCF]
  | succ n ih => intro off nid; simp [repCF, hg, ih]; rw [Nat.add_mul]; omega

theorem genCF_length (e : Expr) : ∀ off nid, (genCF e off nid).1.length = codeLen e := by
  induction e with
  | empty => intro off nid; rfl
  | seq a b iha ihb => intro off nid; simp [genCF, codeLen, iha, ihb]
  | atom a => intro off nid; rfl
  | var x => intro off nid; rfl
  | loop mn mx fw name body ih =>
    intro off nid
    simp only [genCF, codeLen]
    split
    · exact repCF_length _ _ ih _ _ _
    · simp [repCF_length _ _ ih, ih]; omega
  | branch l r ihl ihr => intro off nid; simp [genCF, codeLen, ihl, ihr]; omega
  | dec x body ih => intro off nid; simp [genCF, codeLen, ih]
  | sub x body _ => intro off nid; rfl
  | inl neg items =>
    intro off nid
    cases neg
    · simp [genCF, codeLen, genInItems_length]; omega
    · simp [genCF, codeLen, genNotInItems_length]

theorem repCF_nid_mono (g : Nat → Nat → List Instr × Nat) (hg : ∀ off nid, nid ≤ (g off nid).2) :
    ∀ n off nid, nid ≤ (repCF g n off nid).2 := by
  intro n
  induction n with
  | zero => intro off nid; simp [repCF]
  | succ n ih => intro off nid; simp only [repCF]; exact Nat.le_trans (hg off nid) (ih _ _)

theorem genCF_nid_mono (e : Expr) : ∀ off nid, nid ≤ (genCF e off nid).2 := by
  induction e with
  | empty => intro off nid; exact Nat.le_refl _
  | seq a b iha ihb => intro off nid; exact Nat.le_trans (iha _ _) (ihb _ _)
  | atom a => intro off nid; exact Nat.le_refl _
  | var x => intro off nid; exact Nat.le_refl _
  | loop mn mx fw name body ih =>
    intro off nid
    simp only [genCF]
    split
    · exact repCF_nid_mono _ ih _ _ _
    · exact Nat.le_trans (repCF_nid_mono _ ih _ _ _) (Nat.le_trans (ih _ _) (Nat.le_succ _))
  | branch l r ihl ihr => intro off nid; exact Nat.le_trans (ihl _ _) (ihr _ _)
  | dec x body ih => intro off nid; exact ih _ _
  | sub x body _ => intro off nid; exact Nat.le_refl _
  | inl neg items => intro off nid; cases neg <;> exact Nat.le_refl _

end Vore
