import Vore.Spec.Typing
/-!
# Vore.Lemmas.DocCells — the hand-written evaluator computes the documented value in every
documented cell (operator × operand types), for all operand values

Independent of the regenerated tables (`Vore/Extracted.lean`); `Lemmas/DocEval.lean` combines
it with `evalBin = evalFromTable goEval`.
-/
namespace Vore
open Vore.Spec Vore.Spec.Typing

def divZeroTag' : String := "integer divide by zero"

theorem docRes_ite (b : Int) (x : PVal) (D : DocOps.Res) (R : EvalRes) (t : PT)
    (hD : D = if b = 0 then .divByZero else .val x)
    (hR : R = if b = 0 then .panic divZeroTag' else .val x) (ht : x.type = t) :
    D.toEvalRes = some R ∧ ∀ v, D = .val v → v.type = t := by
  subst hD; subst hR
  by_cases h : b = 0
  · rw [if_pos h, if_pos h]
    exact ⟨rfl, fun v hv => by cases hv⟩
  · rw [if_neg h, if_neg h]
    exact ⟨rfl, fun v hv => by cases hv; exact ht⟩

theorem evalBin_cells_documented (op : Op) (l r : PVal) (t : PT)
    (h : DocOps.binType l.type r.type op = some t) :
    (DocOps.evalBin op l r).toEvalRes = some (evalBin op l r)
    ∧ ∀ v, DocOps.evalBin op l r = .val v → v.type = t := by
  cases l <;> cases r <;> simp only [PVal.type] at h <;> cases op <;>
    first
      | (exfalso; revert h; decide)
      | (exfalso; simp [DocOps.binType, DocOps.findBin, DocOps.table, DocOps.Row.appliesBin] at h; done)
      | (cases t <;>
          first
            | (exfalso; revert h; decide)
            | exact ⟨rfl, fun v hv => by cases hv; rfl⟩
            | exact docRes_ite _ _ _ _ _ rfl rfl rfl)

theorem evalUn_documented (op : Op) (v : PVal) (t : PT) (h : DocOps.unType v.type op = some t) :
    DocOps.evalUn op v = .val (evalUn op v) ∧ (evalUn op v).type = t := by
  cases v <;> simp only [PVal.type] at h <;> cases op <;>
    first
      | (exfalso; revert h; decide)
      | (exfalso; simp [DocOps.unType, DocOps.findUn, DocOps.table, DocOps.Row.appliesUn] at h; done)
      | (cases t <;> first | (exfalso; revert h; decide) | exact ⟨rfl, rfl⟩)

end Vore
