import Vore.Lemmas.Locate
/-!
# Vore.Lemmas.VMInv — the location invariant of the VM (C03), preserved by every instruction

`Inv text p0 c`: the state `c` of an attempt started at `p0` has consumed exactly
`text[p0, c.pos)`, its line/column counters are those of `c.pos`, and every captured string
(in the environment and in the named-loop maps on the loop stack) is a substring of what has
been consumed.  It holds for the running state and for every saved state.
-/
namespace Vore
open Vore.Spec

structure Inv (text : Bytes) (p0 : Nat) (c : Core) : Prop where
  p0_le : p0 ≤ text.length
  pos_eq : c.pos = p0 + c.cur.length
  take_eq : text.take c.pos = text.take p0 ++ c.cur
  pos_le : c.pos ≤ text.length
  line_eq : c.line = lineOf text c.pos
  col_eq : c.col = colOf text c.pos
  env_sub : mapSubB c.cur c.env = true
  loops_sub : ∀ l ∈ c.loops, mapSubB c.cur l.vars = true
  vars_le : ∀ r ∈ c.vars, r.2 ≤ c.cur.length

def AllInv (text : Bytes) (p0 : Nat) (s : VMState) : Prop :=
  Inv text p0 s.core ∧ ∀ c ∈ s.bt, Inv text p0 c

/-- what a primitive must deliver -/
def StepOk (text : Bytes) (p0 : Nat) : Step → Prop
  | .cont s => AllInv text p0 s
  | .done (.success c) => Inv text p0 c
  | .done _ => True

theorem Inv.withPc {text p0 c} (h : Inv text p0 c) (pc : Nat) : Inv text p0 { c with pc := pc } :=
  ⟨h.p0_le, h.pos_eq, h.take_eq, h.pos_le, h.line_eq, h.col_eq, h.env_sub, h.loops_sub, h.vars_le⟩

theorem Inv.congr {text p0 c c'} (h : Inv text p0 c) (hpos : c'.pos = c.pos) (hline : c'.line = c.line)
    (hcol : c'.col = c.col) (hcur : c'.cur = c.cur) (henv : c'.env = c.env)
    (hloops : ∀ l ∈ c'.loops, mapSubB c.cur l.vars = true) (hvars : c'.vars = c.vars) : Inv text p0 c' :=
  ⟨h.p0_le, by rw [hpos, hcur]; exact h.pos_eq, by rw [hpos, hcur]; exact h.take_eq, by rw [hpos]; exact h.pos_le,
   by rw [hline, hpos]; exact h.line_eq, by rw [hcol, hpos]; exact h.col_eq, by rw [hcur, henv]; exact h.env_sub,
   by rw [hcur]; exact hloops, by rw [hvars, hcur]; exact h.vars_le⟩

theorem stepOk_next {text p0 s} (h : AllInv text p0 s) : StepOk text p0 s.next :=
  ⟨h.1.withPc _, h.2⟩

theorem stepOk_backtrack {text p0 s} (h : AllInv text p0 s) : StepOk text p0 s.backtrack := by
  unfold VMState.backtrack
  cases hb : s.bt with
  | nil => simp [StepOk]
  | cons c rest =>
    simp only [StepOk, AllInv]
    have h2 := h.2
    rw [hb] at h2
    exact ⟨h2 c (by simp), fun d hd => h2 d (by simp [hd])⟩

theorem stepOk_anchor {text p0 s} (h : AllInv text p0 s) (cond neg : Bool) :
    StepOk text p0 (s.anchor cond neg) := by
  unfold VMState.anchor; split
  · exact stepOk_next h
  · exact stepOk_backtrack h

theorem Inv.consume {text p0 c} (h : Inv text p0 c) (n : Nat) : Inv text p0 (c.consume text n) := by
  have hs := readAt_spec text c.pos n
  have hadv := advance_spec (readAt text c.pos n) (text.take c.pos)
  rw [← hs.1] at hadv
  unfold Core.consume
  simp only
  rw [h.line_eq, h.col_eq, lineOf_eq, colOf_eq, hadv]
  refine ⟨h.p0_le, ?_, ?_, hs.2 h.pos_le, ?_, ?_, ?_, ?_, ?_⟩
  · simp [h.pos_eq]; omega
  · rw [hs.1, h.take_eq, List.append_assoc]
  · rfl
  · rfl
  · exact mapSubB_append _ _ _ h.env_sub
  · intro l hl; exact mapSubB_append _ _ _ (h.loops_sub l hl)
  · intro r hr; have := h.vars_le r hr; simp; omega

theorem stepOk_consumeNext {text p0 s} (h : AllInv text p0 s) (n : Nat) :
    StepOk text p0 (s.consumeNext text n) :=
  ⟨(h.1.consume n).withPc _, h.2⟩

theorem stepOk_matchLit {text p0 s} (h : AllInv text p0 s) (v : Bytes) (neg cl : Bool) :
    StepOk text p0 (s.matchLit text v neg cl) := by
  unfold VMState.matchLit
  simp only
  (repeat' split) <;>
    first
      | exact stepOk_backtrack h
      | exact stepOk_consumeNext h _

theorem stepOk_matchRangeLoop {text p0 s} (h : AllInv text p0 s) (lo hi : Bytes) (neg : Bool) :
    ∀ k, StepOk text p0 (matchRangeLoop text s lo hi neg k) := by
  intro k
  induction k with
  | zero => exact stepOk_backtrack h
  | succ k ih =>
    unfold matchRangeLoop
    simp only
    split
    · exact ih
    · split
      · exact stepOk_consumeNext h _
      · exact ih

theorem stepOk_matchRange {text p0 s} (h : AllInv text p0 s) (lo hi : Bytes) (neg : Bool) :
    StepOk text p0 (s.matchRange text lo hi neg) :=
  stepOk_matchRangeLoop h lo hi neg _

theorem stepOk_matchClass {text p0 s} (h : AllInv text p0 s) (c : Class) (neg : Bool) :
    StepOk text p0 (s.matchClass text c neg) := by
  unfold VMState.matchClass
  cases c <;> simp only <;>
    (repeat' split) <;>
    first
      | exact stepOk_backtrack h
      | exact stepOk_next h
      | exact stepOk_consumeNext h _
      | exact stepOk_anchor h _ _
      | exact stepOk_matchRange h _ _ _

/-! ### variable insertion -/

theorem insertInLoops_sub (w : Bytes) (x : String) (v : Val) (hv : valSubB w v = true) :
    ∀ (ls ls' : List LoopSt), (∀ l ∈ ls, mapSubB w l.vars = true) →
      insertInLoops ls x v = some ls' → ∀ l ∈ ls', mapSubB w l.vars = true := by
  intro ls
  induction ls with
  | nil => intro ls' _ h; simp [insertInLoops] at h
  | cons l rest ih =>
    intro ls' hall h
    unfold insertInLoops at h
    split at h
    · simp only [Option.some.injEq] at h
      subst h
      intro l' hl'
      simp only [List.mem_cons] at hl'
      rcases hl' with rfl | hl'
      · have hl := hall l (by simp)
        simp only
        apply mapSubB_put _ _ _ _ _ hl
        simp only [valSubB]
        split
        · next m hg =>
          have := mapSubB_get w _ _ hl _ hg
          simp only [valSubB] at this
          exact mapSubB_put _ _ _ hv _ this
        · next sv hg =>
          have := mapSubB_get w _ _ hl _ hg
          simp only [valSubB] at this
          apply mapSubB_put _ _ _ hv
          simp [mapSubB, valSubB, this]
        · simp [mapSubB, hv]
      · exact hall l' (by simp [hl'])
    · cases hr : insertInLoops rest x v with
      | none => simp [hr] at h
      | some r =>
        simp [hr] at h
        subst h
        intro l' hl'
        simp only [List.mem_cons] at hl'
        rcases hl' with rfl | hl'
        · exact hall _ (by simp)
        · exact ih r (fun l hl => hall l (by simp [hl])) hr l' hl'

theorem Inv.insertVar {text p0 c} (h : Inv text p0 c) (x : String) (v : Val) (hv : valSubB c.cur v = true) :
    Inv text p0 (c.insertVar x v) := by
  unfold Core.insertVar
  split
  · next ls hls =>
    exact ⟨h.p0_le, h.pos_eq, h.take_eq, h.pos_le, h.line_eq, h.col_eq, h.env_sub,
      insertInLoops_sub _ x v hv _ _ h.loops_sub hls, h.vars_le⟩
  · exact ⟨h.p0_le, h.pos_eq, h.take_eq, h.pos_le, h.line_eq, h.col_eq,
      mapSubB_put _ _ _ hv _ h.env_sub, h.loops_sub, h.vars_le⟩

theorem Inv.withLoops {text p0 c} (h : Inv text p0 c) (ls : List LoopSt)
    (hls : ∀ l ∈ ls, mapSubB c.cur l.vars = true) : Inv text p0 { c with loops := ls } :=
  ⟨h.p0_le, h.pos_eq, h.take_eq, h.pos_le, h.line_eq, h.col_eq, h.env_sub, hls, h.vars_le⟩

theorem Inv.popLoop {text p0 c} (h : Inv text p0 c) (top : LoopSt) (rest : List LoopSt)
    (htop : mapSubB c.cur top.vars = true) (hrest : ∀ l ∈ rest, mapSubB c.cur l.vars = true) :
    Inv text p0 (c.popLoop top rest) := by
  unfold Core.popLoop
  simp only
  split
  · exact (h.withLoops rest hrest).insertVar _ _ (by simpa [valSubB] using htop)
  · exact h.withLoops rest hrest

theorem stepOk_startLoop {text p0 s} (h : AllInv text p0 s) (id mn : Nat) (mx : Int) (fw : Bool)
    (ex : Nat) (nm : String) : StepOk text p0 (s.startLoop id mn mx fw ex nm) := by
  unfold VMState.startLoop
  simp only
  -- the entered loop state keeps the substring invariant
  have hnew : ∀ (lv : Nat), mapSubB s.core.cur (VMap.cons "0" (.map .nil) .nil) = true := by
    intro _; simp [mapSubB, valSubB]
  split
  · exact stepOk_backtrack h
  · next top rest hent =>
    have hboth : mapSubB s.core.cur top.vars = true ∧ ∀ l ∈ rest, mapSubB s.core.cur l.vars = true := by
      split at hent
      · next t r hl =>
        split at hent
        · simp only [Option.some.injEq, Prod.mk.injEq] at hent
          obtain ⟨rfl, rfl⟩ := hent
          exact ⟨by simp [mapSubB, valSubB], h.1.loops_sub⟩
        · split at hent
          · simp at hent
          · simp only [Option.some.injEq, Prod.mk.injEq] at hent
            obtain ⟨rfl, rfl⟩ := hent
            have hl' := h.1.loops_sub
            rw [hl] at hl'
            refine ⟨?_, fun l hm => hl' l (by simp [hm])⟩
            exact mapSubB_put _ _ _ (by simp [valSubB, mapSubB]) _ (hl' t (by simp))
      · simp only [Option.some.injEq, Prod.mk.injEq] at hent
        obtain ⟨rfl, rfl⟩ := hent
        exact ⟨by simp [mapSubB, valSubB], by simp⟩
    have hall : ∀ l ∈ top :: rest, mapSubB s.core.cur l.vars = true := by
      intro l hl; simp only [List.mem_cons] at hl
      rcases hl with rfl | hl
      · exact hboth.1
      · exact hboth.2 l hl
    have hc : Inv text p0 { s.core with loops := top :: rest } := h.1.withLoops _ hall
    split
    · exact ⟨hc.withPc _, h.2⟩
    · split
      · split
        · -- fewest
          refine ⟨?_, ?_⟩
          · exact ((hc.withPc _).popLoop top rest hboth.1 hboth.2).withPc _
          · intro d hd
            simp only [List.mem_cons] at hd
            rcases hd with rfl | hd
            · exact hc.withPc _
            · exact h.2 d hd
        · -- greedy
          have hp : Inv text p0 (Core.popLoop { s.core with loops := top :: rest } top rest) :=
            hc.popLoop top rest hboth.1 hboth.2
          have hcur : (Core.popLoop { s.core with loops := top :: rest } top rest).cur = s.core.cur := by
            unfold Core.popLoop Core.insertVar; simp only
            split
            · split <;> rfl
            · rfl
          refine ⟨?_, ?_⟩
          · refine hp.congr rfl rfl rfl rfl rfl ?_ rfl
            intro l hl
            simp only [List.mem_cons] at hl
            rw [hcur]
            rcases hl with rfl | hl
            · exact hboth.1
            · have := hp.loops_sub l hl; rwa [hcur] at this
          · intro d hd
            simp only [List.mem_cons] at hd
            rcases hd with rfl | hd
            · exact hp.withPc _
            · exact h.2 d hd
      · exact stepOk_backtrack (s := ⟨{ s.core with loops := top :: rest }, s.bt⟩) ⟨hc, h.2⟩

theorem stepOk_branch {text p0 s} (h : AllInv text p0 s) (ts : List Nat) : StepOk text p0 (s.branch ts) := by
  unfold VMState.branch
  split
  · simp [StepOk]
  · refine ⟨h.1.withPc _, ?_⟩
    intro d hd
    simp only [List.mem_append, List.mem_map] at hd
    rcases hd with ⟨p, _, rfl⟩ | hd
    · exact h.1.withPc _
    · exact h.2 d hd

/-- every instruction preserves the invariant of the running and of all saved states -/
theorem stepOk_step (pf : Nat) (prog : List Instr) {text p0 s} (h : AllInv text p0 s) :
    StepOk text p0 (step pf prog text s) := by
  unfold step
  split
  · simp [StepOk]
  · next i _ =>
    cases i <;> simp only
    case lit => exact stepOk_matchLit h _ _ _
    case cls => exact stepOk_matchClass h _ _
    case mvar =>
      split
      · exact stepOk_backtrack h
      · exact stepOk_backtrack h
      · split
        · exact stepOk_next h
        · exact stepOk_matchLit h _ _ _
    case rng => exact stepOk_matchRange h _ _ _
    case call =>
      exact ⟨⟨h.1.p0_le, h.1.pos_eq, h.1.take_eq, h.1.pos_le, h.1.line_eq, h.1.col_eq, h.1.env_sub, h.1.loops_sub,
        h.1.vars_le⟩, h.2⟩
    case branch => exact stepOk_branch h _
    case startNotIn =>
      refine ⟨h.1.withPc _, ?_⟩
      intro d hd
      simp only [List.mem_cons] at hd
      rcases hd with rfl | hd
      · exact h.1.withPc _
      · exact h.2 d hd
    case failNotIn =>
      split
      · next c1 c2 rest hb =>
        have h2 := h.2
        rw [hb] at h2
        exact ⟨h2 c2 (by simp), fun d hd => h2 d (by simp [hd])⟩
      · simp [StepOk]
    case endNotIn =>
      split
      · exact stepOk_backtrack (s := ⟨s.core.consume text _, s.bt⟩) ⟨h.1.consume _, h.2⟩
      · exact ⟨(h.1.consume _).withPc _, h.2⟩
    case startLoop => exact stepOk_startLoop h _ _ _ _ _ _
    case stopLoop => exact ⟨h.1.withPc _, h.2⟩
    case startVar =>
      refine ⟨⟨h.1.p0_le, h.1.pos_eq, h.1.take_eq, h.1.pos_le, h.1.line_eq, h.1.col_eq, h.1.env_sub, h.1.loops_sub,
        ?_⟩, h.2⟩
      intro r hr
      simp only [List.mem_cons] at hr
      rcases hr with rfl | hr
      · simp
      · exact h.1.vars_le r hr
    case endVar =>
      split
      · simp [StepOk]
      · next y off rest hv =>
        split
        · simp [StepOk]
        · have h1 : Inv text p0 { s.core with vars := rest } :=
            ⟨h.1.p0_le, h.1.pos_eq, h.1.take_eq, h.1.pos_le, h.1.line_eq, h.1.col_eq, h.1.env_sub, h.1.loops_sub,
              fun r hr => h.1.vars_le r (by rw [hv]; simp [hr])⟩
          exact ⟨(h1.insertVar _ _ (by simp only [valSubB]; exact infixB_drop _ _)).withPc _, h.2⟩
    case startSub =>
      exact ⟨⟨h.1.p0_le, h.1.pos_eq, h.1.take_eq, h.1.pos_le, h.1.line_eq, h.1.col_eq, h.1.env_sub, h.1.loops_sub,
        h.1.vars_le⟩, h.2⟩
    case endSub =>
      split
      · simp [StepOk]
      · next top rest hc =>
        have hret : StepOk text p0 (.cont { s with core := { s.core with calls := rest, pc := top.ret } }) :=
          ⟨⟨h.1.p0_le, h.1.pos_eq, h.1.take_eq, h.1.pos_le, h.1.line_eq, h.1.col_eq, h.1.env_sub, h.1.loops_sub,
            h.1.vars_le⟩, h.2⟩
        split
        · exact hret
        · split
          · simp [StepOk]
          · simp [StepOk]
          · split
            · exact hret
            · exact stepOk_backtrack h
    case jump => exact ⟨h.1.withPc _, h.2⟩

/-- a successful attempt ends in a state that satisfies the invariant -/
theorem run_inv (pf : Nat) (prog : List Instr) (text : Bytes) (p0 : Nat) :
    ∀ n s c, AllInv text p0 s → run pf prog text n s = some (.success c) → Inv text p0 c := by
  intro n
  induction n with
  | zero => intro s c _ h; simp [run] at h
  | succ n ih =>
    intro s c hs h
    unfold run at h
    split at h
    · simp only [Option.some.injEq, Outcome.success.injEq] at h; subst h; exact hs.1
    · have hok := stepOk_step pf prog hs
      split at h
      · next o ho =>
        simp only [Option.some.injEq] at h
        subst h
        rw [ho] at hok
        exact hok
      · next s' hs' =>
        rw [hs'] at hok
        exact ih s' c hok h

end Vore
