import Vore.Lemmas.LexTables
/-!
# Vore.Lemmas.LexString — the lexer's string states decode a spelling to the bytes it denotes
-/
namespace Vore.Lex
open Vore Vore.ExtractedLex

/-- SSTRING_SINGLE / SSTRING_DOUBLE -/
def Quote.st : Quote → St
  | .single => .stringSingle
  | .double => .stringDouble

/-- SSTRING_S_ESCAPE / SSTRING_D_ESCAPE -/
def Quote.escSt : Quote → St
  | .single => .stringSEscape
  | .double => .stringDEscape

theorem loop_cons (s : St) (buf : Bytes) (c : UInt8) (cs : Bytes) (pos : Nat) (last : Option UInt8) (hc : c ≠ 0) :
    loop s buf ⟨c :: cs, pos, last⟩ =
      match step s c with
      | .next s' w => loop s' (if w then buf ++ [c] else buf) ⟨cs, pos + 1, some c⟩
      | .brk s' w => .done s' (if w then buf ++ [c] else buf) ⟨cs, pos + 1, some c⟩
      | .unreadBrk s' => unreadBreak s' buf ⟨cs, pos + 1, some c⟩
      | .escape s' =>
        match readEscape c ⟨cs, pos + 1, some c⟩ with
        | none => .panic convPanic
        | some (v, r') => loop s' (buf ++ writeRune v) r'
      | .regexp => regexpBranch buf ⟨cs, pos + 1, some c⟩ := by
  rw [loop]
  simp only [Reader.read, hc, ↓reduceDIte]
  split
  · rename_i h; simp [h]
  · rename_i h; simp [h]
  · rename_i h; simp [h]
  · rename_i h; simp only [h]
    split <;> rename_i he <;> simp [he]
  · rename_i h; simp [h]

theorem step_str_raw (q : Quote) (c : UInt8) (h92 : c ≠ 92) (hq : c ≠ q.byte) : step q.st c = .next q.st true := by
  cases q <;> simp [Quote.byte] at hq <;> simp [step, Quote.st, h92, hq]

theorem step_str_backslash (q : Quote) : step q.st 92 = .next q.escSt false := by
  cases q <;> simp [step, Quote.st, Quote.escSt]

theorem step_str_quote (q : Quote) : step q.st q.byte = .brk .stringEnd false := by
  cases q <;> simp [step, Quote.st, Quote.byte]

theorem step_esc (q : Quote) (c : UInt8) : step q.escSt c = .escape q.st := by
  cases q <;> simp [step, Quote.st, Quote.escSt]

theorem Quote.byte_ne_zero (q : Quote) : q.byte ≠ 0 := by cases q <;> simp [Quote.byte]

theorem writeRune_ascii (v : UInt8) (h : v < 128) : writeRune v = [v] := by simp [writeRune, h]

theorem docEscape_lt (l v : UInt8) (h : docEscape l = some v) : v < 128 := by
  unfold docEscape at h
  repeat' split at h
  all_goals simp at h
  all_goals (rw [← h]; decide)

theorem docEscape_ne_zero (l : UInt8) (h : (docEscape l).isSome) : l ≠ 0 ∧ l ≠ 120 := by
  unfold docEscape at h
  constructor <;> (intro hl; rw [hl] at h; simp at h)

/-- reading an escape that is not a complete `\xHH` -/
theorem readEscape_plain (c : UInt8) (r : Reader) (h : c = 120 → ¬ twoHex r.rest) :
    ∃ l, readEscape c r = some (getEscapedRune c, ⟨r.rest, r.pos, l⟩) := by
  obtain ⟨rest, pos, last⟩ := r
  unfold readEscape
  by_cases hc : c = 120
  · have hh := h hc
    simp only [hc, ↓reduceIte, Reader.peek2]
    match rest with
    | [] => exact ⟨none, by simp⟩
    | [x] => exact ⟨none, by simp⟩
    | x :: y :: zs =>
      simp only [twoHex, ← isHex_spec] at hh
      simp only [List.take_succ_cons, List.take_zero]
      rw [if_neg hh]
      exact ⟨none, rfl⟩
  · simp only [hc, ↓reduceIte]; exact ⟨last, rfl⟩

theorem readEscape_hex (d1 d2 : UInt8) (cs : Bytes) (pos : Nat) (last : Option UInt8)
    (h1 : (hexVal d1).isSome) (h2 : (hexVal d2).isSome) :
    readEscape 120 ⟨d1 :: d2 :: cs, pos, last⟩ =
      some ((hexVal d1).getD 0 * 16 + (hexVal d2).getD 0, ⟨cs, pos + 2, some d2⟩) := by
  unfold readEscape
  have h1' : isHex d1 = true := by rw [isHex_spec]; exact h1
  have h2' : isHex d2 = true := by rw [isHex_spec]; exact h2
  simp [Reader.peek2, Reader.read, h1', h2', hexToAscii_spec d1 d2 h1 h2]

/-- **the string states decode a spelling**: started inside a literal quoted with `q` (after the
opening quote), on a legal spelling followed by the closing quote and anything, the loop ends in
SSTRING_END just behind the closing quote, having appended exactly the denoted bytes. -/
theorem loop_string (q : Quote) (sps : List Sp) (rest : Bytes) :
    ∀ (buf : Bytes) (pos : Nat) (last : Option UInt8), okAll q (q.byte :: rest) sps →
      loop q.st buf ⟨renderAll sps ++ q.byte :: rest, pos, last⟩ =
        .done .stringEnd (buf ++ denoteAll sps) ⟨rest, pos + (renderAll sps).length + 1, some q.byte⟩ := by
  induction sps with
  | nil =>
    intro buf pos last _
    simp only [renderAll, List.flatMap_nil, List.nil_append, denoteAll, List.map_nil, List.append_nil, List.length_nil]
    rw [loop_cons _ _ _ _ _ _ q.byte_ne_zero, step_str_quote]
    simp
  | cons x xs ih =>
    intro buf pos last hok
    obtain ⟨hx, hxs⟩ := hok
    have hrender : renderAll (x :: xs) = x.render ++ renderAll xs := by simp [renderAll]
    have hden : denoteAll (x :: xs) = x.denote :: denoteAll xs := by simp [denoteAll]
    rw [hrender, hden]
    cases x with
    | raw c =>
      obtain ⟨h0, _, h92, hq⟩ := hx
      simp only [Sp.render, List.cons_append, List.nil_append, Sp.denote]
      rw [loop_cons _ _ _ _ _ _ h0, step_str_raw q c h92 hq]
      simp only [↓reduceIte]
      rw [ih _ _ _ hxs]
      simp only [List.length_append, List.length_cons, List.length_nil, List.append_assoc, List.cons_append, List.nil_append, LoopRes.done.injEq, Reader.mk.injEq, true_and, and_true]
      omega
    | named l =>
      simp only [Sp.ok] at hx
      obtain ⟨hl0, hl120⟩ := docEscape_ne_zero l hx
      simp only [Sp.render, List.cons_append, List.nil_append, Sp.denote]
      rw [loop_cons _ _ _ _ _ _ (by decide), step_str_backslash]
      simp only [Bool.false_eq_true, ↓reduceIte]
      rw [loop_cons _ _ _ _ _ _ hl0, step_esc]
      obtain ⟨l', hre⟩ := readEscape_plain l ⟨renderAll xs ++ q.byte :: rest, pos + 1 + 1, some l⟩ (fun h => absurd h hl120)
      simp only [hre]
      have hv : getEscapedRune l < 128 := by
        rw [getEscapedRune_spec]
        cases hd : docEscape l with
        | none => simp [hd] at hx
        | some v => simpa using docEscape_lt l v hd
      rw [writeRune_ascii _ hv, ih _ _ _ hxs, getEscapedRune_spec]
      simp only [List.length_append, List.length_cons, List.length_nil, List.append_assoc, List.cons_append, List.nil_append, LoopRes.done.injEq, Reader.mk.injEq, true_and, and_true]
      omega
    | hex d1 d2 =>
      obtain ⟨h1, h2, hv⟩ := hx
      simp only [Sp.render, List.cons_append, List.nil_append, Sp.denote]
      rw [loop_cons _ _ _ _ _ _ (by decide), step_str_backslash]
      simp only [Bool.false_eq_true, ↓reduceIte]
      rw [loop_cons _ _ _ _ _ _ (by decide), step_esc, readEscape_hex _ _ _ _ _ h1 h2]
      simp only
      rw [writeRune_ascii _ hv, ih _ _ _ hxs]
      simp only [List.length_append, List.length_cons, List.length_nil, List.append_assoc, List.cons_append, List.nil_append, LoopRes.done.injEq, Reader.mk.injEq, true_and, and_true]
      omega
    | esc c =>
      obtain ⟨h0, h128, hdoc, hx120⟩ := hx
      simp only [Sp.render, List.cons_append, List.nil_append, Sp.denote]
      rw [loop_cons _ _ _ _ _ _ (by decide), step_str_backslash]
      simp only [Bool.false_eq_true, ↓reduceIte]
      rw [loop_cons _ _ _ _ _ _ h0, step_esc]
      obtain ⟨l', hre⟩ := readEscape_plain c ⟨renderAll xs ++ q.byte :: rest, pos + 1 + 1, some c⟩ hx120
      simp only [hre]
      have hg : getEscapedRune c = c := by rw [getEscapedRune_spec, hdoc]; rfl
      rw [hg, writeRune_ascii _ h128, ih _ _ _ hxs]
      simp only [List.length_append, List.length_cons, List.length_nil, List.append_assoc, List.cons_append, List.nil_append, LoopRes.done.injEq, Reader.mk.injEq, true_and, and_true]
      omega

end Vore.Lex
