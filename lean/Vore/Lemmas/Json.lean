import Vore.Model.Json
/-!
# Vore.Lemmas.Json — round trip and well-formedness lemmas for the JSON tree (C17)
Core Lean only.
-/
namespace Vore
open Json

/-! ## lookup after assignment -/

theorem JFields.get_put_same (f : JFields) (k : String) (v : Json) : (f.put k v).get k = some v := by
  match f with
  | .nil => simp [JFields.put, JFields.get]
  | .cons k' w rest =>
    by_cases h : k' = k
    · simp [JFields.put, JFields.get, h]
    · simp [JFields.put, JFields.get, h, JFields.get_put_same rest k v]

theorem JFields.get_put_other (f : JFields) (k x : String) (v : Json) (h : k ≠ x) :
    (f.put k v).get x = f.get x := by
  match f with
  | .nil => simp [JFields.put, JFields.get, h]
  | .cons k' w rest =>
    by_cases h' : k' = k
    · subst h'; simp [JFields.put, JFields.get, h]
    · by_cases h'' : k' = x
      · subst h''; simp [JFields.put, JFields.get, Ne.symm h]
      · simp [JFields.put, JFields.get, h', h'', JFields.get_put_other rest k x v h]

theorem JFields.keys_put_of_none (f : JFields) (k : String) (v : Json) (h : f.get k = none) :
    (f.put k v).keys = f.keys ++ [k] := by
  match f with
  | .nil => simp [JFields.put, JFields.keys]
  | .cons k' w rest =>
    by_cases h' : k' = k
    · simp [JFields.get, h'] at h
    · simp [JFields.get, h'] at h
      simp [JFields.put, JFields.keys, h', JFields.keys_put_of_none rest k v h]

theorem VMap.get_put_same (f : VMap) (k : String) (v : Val) : (f.put k v).get k = some v := by
  match f with
  | .nil => simp [VMap.put, VMap.get]
  | .cons k' w rest =>
    by_cases h : k' = k
    · simp [VMap.put, VMap.get, h]
    · simp [VMap.put, VMap.get, h, VMap.get_put_same rest k v]

theorem VMap.get_put_other (f : VMap) (k x : String) (v : Val) (h : k ≠ x) :
    (f.put k v).get x = f.get x := by
  match f with
  | .nil => simp [VMap.put, VMap.get, h]
  | .cons k' w rest =>
    by_cases h' : k' = k
    · subst h'; simp [VMap.put, VMap.get, h]
    · by_cases h'' : k' = x
      · subst h''; simp [VMap.put, VMap.get, Ne.symm h]
      · simp [VMap.put, VMap.get, h', h'', VMap.get_put_other rest k x v h]

/-! ## `put` keeps maps well-formed (distinct member names) -/

theorem VMap.wf_nil : VMap.nil.WF := by simp [VMap.WF]

theorem VMap.wf_put (f : VMap) (k : String) (v : Val) (hf : f.WF) (hv : v.WF) : (f.put k v).WF := by
  match f with
  | .nil => simp [VMap.put, VMap.WF, VMap.get, hv]
  | .cons k' w rest =>
    simp [VMap.WF] at hf
    by_cases h : k' = k
    · simp [VMap.put, h, VMap.WF, hv, hf.2.2]
      rw [← h]; exact hf.1
    · simp [VMap.put, h, VMap.WF, hf.2.1]
      refine ⟨?_, VMap.wf_put rest k v hf.2.2 hv⟩
      rw [VMap.get_put_other rest k k' v (fun e => h e.symm)]
      exact hf.1

theorem JFields.wf_put (f : JFields) (k : String) (v : Json) (hf : f.WF) (hv : v.WF) : (f.put k v).WF := by
  match f with
  | .nil => simp [JFields.put, JFields.WF, JFields.get, hv]
  | .cons k' w rest =>
    simp [JFields.WF] at hf
    by_cases h : k' = k
    · simp [JFields.put, h, JFields.WF, hv, hf.2.2]
      rw [← h]; exact hf.1
    · simp [JFields.put, h, JFields.WF, hf.2.1]
      refine ⟨?_, JFields.wf_put rest k v hf.2.2 hv⟩
      rw [JFields.get_put_other rest k k' v (fun e => h e.symm)]
      exact hf.1

/-! ## variables: tree of a map, and back -/

theorem Json.get_ofVMap_none (m : VMap) (k : String) (h : m.get k = none) : (ofVMap m).get k = none := by
  match m with
  | .nil => simp [ofVMap, JFields.get]
  | .cons k' v rest =>
    by_cases h' : k' = k
    · simp [VMap.get, h'] at h
    · simp [VMap.get, h'] at h
      simp [ofVMap, JFields.get, h', Json.get_ofVMap_none rest k h]

mutual
theorem Json.wf_ofVal : ∀ v : Val, v.WF → (ofVal v).WF
  | .str s, _ => by simp [ofVal, Json.WF]
  | .map m, h => by
    simp [Val.WF] at h
    simp [ofVal, Json.WF, Json.wf_ofVMap m h]
theorem Json.wf_ofVMap : ∀ m : VMap, m.WF → (ofVMap m).WF
  | .nil, _ => by simp [ofVMap, JFields.WF]
  | .cons k v rest, h => by
    simp [VMap.WF] at h
    simp [ofVMap, JFields.WF, Json.get_ofVMap_none rest k h.1, Json.wf_ofVal v h.2.1, Json.wf_ofVMap rest h.2.2]
end

mutual
theorem Json.decodeVal_ofVal : ∀ v : Val, decodeVal (ofVal v) = some v
  | .str s => by simp [ofVal, decodeVal]
  | .map m => by simp [ofVal, decodeVal, Json.decodeVMap_ofVMap m]
theorem Json.decodeVMap_ofVMap : ∀ m : VMap, decodeVMap (ofVMap m) = some m
  | .nil => by simp [ofVMap, decodeVMap]
  | .cons k v rest => by simp [ofVMap, decodeVMap, Json.decodeVal_ofVal v, Json.decodeVMap_ofVMap rest]
end

/-! ## ranges -/

theorem Json.decodeNat_num (n : Nat) : decodeNat (.num (n : Int)) = some n := by
  simp [decodeNat]

theorem Json.decodeRange_ofRange (s e : Nat) : decodeRange (ofRange s e) = some (s, e) := by
  simp [ofRange, decodeRange, JFields.put, JFields.get, JFields.keys, decodeNat]

theorem Json.wf_ofRange (s e : Nat) : (ofRange s e).WF := by
  simp [ofRange, Json.WF, JFields.put, JFields.WF, JFields.get]

/-! ## one match -/

/-- the member list of a match object, spelled out -/
theorem Json.matchFields_eq (fm : FileMatch) :
    matchFields fm =
      match fm.m.replacement with
      | some x =>
        .cons "filename" (.str fm.filename) (.cons "matchNumber" (.num fm.m.number)
          (.cons "offset" (ofRange fm.m.startPos fm.m.endPos) (.cons "line" (ofRange fm.m.startLine fm.m.endLine)
          (.cons "column" (ofRange fm.m.startCol fm.m.endCol) (.cons "value" (.str fm.m.value)
          (.cons "replacement" (.str x) (.cons "variables" (.obj (ofVMap fm.m.vars)) .nil)))))))
      | none =>
        .cons "filename" (.str fm.filename) (.cons "matchNumber" (.num fm.m.number)
          (.cons "offset" (ofRange fm.m.startPos fm.m.endPos) (.cons "line" (ofRange fm.m.startLine fm.m.endLine)
          (.cons "column" (ofRange fm.m.startCol fm.m.endCol) (.cons "value" (.str fm.m.value)
          (.cons "variables" (.obj (ofVMap fm.m.vars)) .nil)))))) := by
  cases h : fm.m.replacement <;> simp [matchFields, h, JFields.put]

theorem Json.decodeMatch_ofMatch (fm : FileMatch) : decodeMatch (ofMatch fm) = some fm := by
  obtain ⟨fname, m⟩ := fm
  obtain ⟨nr, sp, ep, sl, el, sc, ec, val, vars, repl⟩ := m
  cases repl <;>
    simp [ofMatch, Json.matchFields_eq, decodeMatch, JFields.get, JFields.keys, matchKeys, decodeStr,
      Json.decodeNat_num, Json.decodeRange_ofRange, decodeOptStr, decodeVars, Json.decodeVMap_ofVMap]

theorem Json.wf_ofMatch (fm : FileMatch) (h : fm.m.vars.WF) : (ofMatch fm).WF := by
  cases hr : fm.m.replacement <;>
    simp [ofMatch, Json.matchFields_eq, hr, Json.WF, JFields.WF, JFields.get, Json.wf_ofRange,
      Json.wf_ofVMap fm.m.vars h]

theorem Json.replacement_member (fm : FileMatch) :
    (ofMatch fm).member? "replacement" = fm.m.replacement.map Json.str := by
  cases hr : fm.m.replacement <;> simp [ofMatch, member?, Json.matchFields_eq, hr, JFields.get]

/-! ## lists -/

theorem Json.decodeList_ofList (ms : List FileMatch) :
    decodeList (JList.ofList (ms.map ofMatch)) = some ms := by
  induction ms with
  | nil => simp [JList.ofList, decodeList]
  | cons m ms ih => simp [JList.ofList, decodeList, Json.decodeMatch_ofMatch, ih]

theorem Json.wf_ofList (ms : List FileMatch) (h : ∀ fm ∈ ms, fm.m.vars.WF) :
    (JList.ofList (ms.map ofMatch)).WF := by
  induction ms with
  | nil => simp [JList.ofList, JList.WF]
  | cons m ms ih =>
    simp [JList.ofList, JList.WF]
    exact ⟨Json.wf_ofMatch m (h m (by simp)), ih (fun fm hm => h fm (by simp [hm]))⟩

theorem JList.toList_ofList (xs : List Json) : (JList.ofList xs).toList = xs := by
  induction xs with
  | nil => simp [JList.ofList, JList.toList]
  | cons x xs ih => simp [JList.ofList, JList.toList, ih]

/-! ## the string coercion of `encoding/json` is the identity on ASCII -/

theorem utf8FixAux_ascii (s : Bytes) (h : ∀ b ∈ s, b < 0x80) : utf8FixAux 0 s = s := by
  induction s with
  | nil => simp [utf8FixAux]
  | cons b rest ih =>
    have hb : b < 0x80 := h b (by simp)
    simp [utf8FixAux, hb, ih (fun c hc => h c (by simp [hc]))]

theorem utf8Fix_ascii (s : Bytes) (h : ∀ b ∈ s, b < 0x80) : utf8Fix s = s := utf8FixAux_ascii s h

/-! ## the coercion commutes with the construction of the tree -/

mutual
theorem Json.coerce_ofVal : ∀ v : Val, (ofVal v).coerce = ofVal v.coerce
  | .str s => by simp [ofVal, Json.coerce, Val.coerce]
  | .map m => by simp [ofVal, Json.coerce, Val.coerce, Json.coerce_ofVMap m]
theorem Json.coerce_ofVMap : ∀ m : VMap, (ofVMap m).coerce = ofVMap m.coerce
  | .nil => by simp [ofVMap, JFields.coerce, VMap.coerce]
  | .cons k v rest => by
    simp [ofVMap, JFields.coerce, VMap.coerce, Json.coerce_ofVal v, Json.coerce_ofVMap rest]
end

theorem Json.coerce_ofRange (s e : Nat) : (ofRange s e).coerce = ofRange s e := by
  simp [ofRange, JFields.put, Json.coerce, JFields.coerce]

theorem Json.coerce_ofMatch (fm : FileMatch) : (ofMatch fm).coerce = ofMatch fm.coerce := by
  cases hr : fm.m.replacement <;>
    simp [ofMatch, Json.matchFields_eq, hr, FileMatch.coerce, Json.coerce, JFields.coerce,
      Json.coerce_ofRange, Json.coerce_ofVMap]

theorem Json.coerce_ofList (ms : List FileMatch) :
    (JList.ofList (ms.map ofMatch)).coerce = JList.ofList ((ms.map FileMatch.coerce).map ofMatch) := by
  induction ms with
  | nil => simp [JList.ofList, JList.coerce]
  | cons m ms ih => simp [JList.ofList, JList.coerce, Json.coerce_ofMatch, ih]

theorem Json.coerce_ofMatches (ms : List FileMatch) :
    (ofMatches ms).coerce = ofMatches (ms.map FileMatch.coerce) := by
  simp [ofMatches, Json.coerce, Json.coerce_ofList]

end Vore
