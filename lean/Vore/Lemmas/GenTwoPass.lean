import Vore.Lemmas.ResolveWF
import Vore.Lemmas.GenLink
/-!
# Vore.Lemmas.GenTwoPass — the one-pass generator emits the two-pass code (programs without global patterns)

`Vore.gen` transcribes generate.go: one pass that resolves names through `state.variables` (name ↦ capture or
subroutine address) while it emits code.  Stage 2 of C01 is proved for the two-pass reading `genR pcOf ∘
resolve`.  This file proves the two equal whenever no global pattern (`set … to pattern`) is in scope: if
`resolveWith` accepts the expression, `gen` succeeds, with exactly the code `genR` emits for the resolved
expression, the same loop ids and a scope that is the image of the resolver's scope under `id ↦ address`.
(With global patterns `gen` relocates stored code and re-uses its loop ids, so the two differ by a renaming of
loop ids; that case stays tied by the bytecode correspondence L4.)
-/
namespace Vore
open Vore.Spec

/-- the resolver's scope entry seen by the generator: a subroutine id becomes its address -/
def conv (pcOf : Nat → Nat) (kv : String × Option Nat) : String × Option Nat := (kv.1, kv.2.map pcOf)

theorem lookup_conv (pcOf : Nat → Nat) (l : List (String × Option Nat)) (x : String) :
    lookup (l.map (conv pcOf)) x = (lookupVar l x).map (Option.map pcOf) := by
  unfold lookup lookupVar
  induction l with
  | nil => rfl
  | cons kv rest ih =>
    simp only [List.map_cons, List.find?_cons, conv]
    split
    · simp
    · exact ih

theorem filter_absent {α} (l : List (String × α)) (k : String) (h : lookup l k = none) :
    l.filter (fun kv => !(kv.1 == k)) = l := by
  unfold lookup at h
  induction l with
  | nil => rfl
  | cons kv rest ih =>
    simp only [List.find?_cons] at h
    split at h
    · simp at h
    · next hne =>
      simp only [List.filter_cons, hne, Bool.not_false, if_true]
      rw [ih h]

theorem insertKV_absent {α} (l : List (String × α)) (k : String) (v : α) (h : lookup l k = none) :
    insertKV l k v = (k, v) :: l := by
  unfold insertKV
  rw [filter_absent l k h]

theorem forget_conv (pcOf : Nat → Nat) (outer l : List (String × Option Nat)) :
    (l.map (conv pcOf)).filter (fun kv => kv.2.isSome || (lookup (outer.map (conv pcOf)) kv.1).isSome) =
      (l.filter (fun kv => kv.2.isSome || (lookupVar outer kv.1).isSome)).map (conv pcOf) := by
  induction l with
  | nil => rfl
  | cons kv rest ih =>
    simp only [List.map_cons, List.filter_cons, lookup_conv, conv, Option.isSome_map]
    split
    · simp only [List.map_cons, conv]; rw [← ih]; simp only [lookup_conv, conv, Option.isSome_map]
    · rw [← ih]; simp only [lookup_conv, conv, Option.isSome_map]

/-- what the correspondence of one expression says -/
def GenOK (inlineG : GEnv → Expr → ElabSt → Option (RExpr × ElabSt)) (pcOf : Nat → Nat) (e : Expr) : Prop :=
  ∀ (off : Nat) (st : GenState) (est est' : ElabSt) (r : RExpr),
    st.globals = [] → st.variables = est.vars.map (conv pcOf) →
    resolveWith inlineG [] e est = some (r, est') → Consistent pcOf r off →
    ∃ st', gen e off st = .ok ((genR pcOf r off st.nextId).1, st') ∧
      st'.nextId = (genR pcOf r off st.nextId).2 ∧ st'.globals = [] ∧
      st'.variables = est'.vars.map (conv pcOf) ∧ st'.transforms = st.transforms

theorem consistent_seqOf_cons (pcOf : Nat → Nat) (r : RExpr) (rs : List RExpr) (off : Nat) :
    Consistent pcOf (seqOf (r :: rs)) off ↔ Consistent pcOf r off ∧ Consistent pcOf (seqOf rs) (off + lenR r) := by
  simp [seqOf, Consistent]

/-- the unrolled copies -/
theorem genRepeat_of_copies (inlineG : GEnv → Expr → ElabSt → Option (RExpr × ElabSt)) (pcOf : Nat → Nat) (body : Expr)
    (hb : GenOK inlineG pcOf body) (outer : List (String × Option Nat)) :
    ∀ (n off : Nat) (st : GenState) (est est' : ElabSt) (rs : List RExpr),
      st.globals = [] → st.variables = est.vars.map (conv pcOf) →
      copiesOf (fun s => resolveWith inlineG [] body (forgetVars outer s)) n est = some (rs, est') →
      Consistent pcOf (seqOf rs) off →
      ∃ st', genRepeat (fun o s => gen body o (forgetCaptures (outer.map (conv pcOf)) s)) n off st =
          .ok ((genR pcOf (seqOf rs) off st.nextId).1, st') ∧
        st'.nextId = (genR pcOf (seqOf rs) off st.nextId).2 ∧ st'.globals = [] ∧
        st'.variables = est'.vars.map (conv pcOf) ∧ st'.transforms = st.transforms := by
  intro n
  induction n with
  | zero =>
    intro off st est est' rs hg hv hc _
    simp only [copiesOf, Option.some.injEq, Prod.mk.injEq] at hc
    obtain ⟨rfl, rfl⟩ := hc
    exact ⟨st, rfl, rfl, hg, hv, rfl⟩
  | succ n ih =>
    intro off st est est' rs hg hv hc hcons
    simp only [copiesOf, Option.bind_eq_bind, Option.bind_eq_some_iff] at hc
    obtain ⟨⟨r, est1⟩, h1, hc⟩ := hc
    simp only at hc
    obtain ⟨⟨rs', est2⟩, h2, hc⟩ := hc
    simp only [Option.pure_def, Option.some.injEq, Prod.mk.injEq] at hc
    obtain ⟨rfl, rfl⟩ := hc
    rw [consistent_seqOf_cons] at hcons
    have hv1 : (forgetCaptures (outer.map (conv pcOf)) st).variables = (forgetVars outer est).vars.map (conv pcOf) := by
      simp only [forgetCaptures, forgetVars, hv]
      exact forget_conv pcOf outer est.vars
    obtain ⟨st1, hg1, hn1, hgl1, hvv1, ht1⟩ :=
      hb off (forgetCaptures (outer.map (conv pcOf)) st) (forgetVars outer est) est1 r hg hv1 h1 hcons.1
    have hnid : (forgetCaptures (outer.map (conv pcOf)) st).nextId = st.nextId := rfl
    rw [hnid] at hg1 hn1
    have hlen : (genR pcOf r off st.nextId).1.length = lenR r := genR_length pcOf r off st.nextId
    obtain ⟨st2, hg2, hn2, hgl2, hvv2, ht2⟩ := ih (off + lenR r) st1 est1 est2 rs' hgl1 hvv1 h2 hcons.2
    refine ⟨st2, ?_, ?_, hgl2, hvv2, by rw [ht2, ht1]; rfl⟩
    · simp only [genRepeat, bind, Except.bind, hg1, hlen, hg2, pure, Except.pure, seqOf, genR, hn1]
    · simp only [seqOf, genR, hlen, ← hn1, hn2]

theorem gen_of_resolve (inlineG : GEnv → Expr → ElabSt → Option (RExpr × ElabSt)) (pcOf : Nat → Nat) :
    ∀ e, GenOK inlineG pcOf e := by
  intro e
  induction e with
  | empty =>
    intro off st est est' r hg hv hr _
    simp only [resolveWith, Option.some.injEq, Prod.mk.injEq] at hr
    obtain ⟨rfl, rfl⟩ := hr
    exact ⟨st, rfl, rfl, hg, hv, rfl⟩
  | seq a b iha ihb =>
    intro off st est est' r hg hv hr hc
    simp only [resolveWith, Option.bind_eq_bind, Option.bind_eq_some_iff] at hr
    obtain ⟨⟨ra, est1⟩, h1, hr⟩ := hr
    simp only at hr
    obtain ⟨⟨rb, est2⟩, h2, hr⟩ := hr
    simp only [Option.pure_def, Option.some.injEq, Prod.mk.injEq] at hr
    obtain ⟨rfl, rfl⟩ := hr
    obtain ⟨st1, hg1, hn1, hgl1, hv1, ht1⟩ := iha off st est est1 ra hg hv h1 hc.1
    have hlen : (genR pcOf ra off st.nextId).1.length = lenR ra := genR_length pcOf ra off st.nextId
    obtain ⟨st2, hg2, hn2, hgl2, hv2, ht2⟩ := ihb (off + lenR ra) st1 est1 est2 rb hgl1 hv1 h2 hc.2
    refine ⟨st2, ?_, ?_, hgl2, hv2, by rw [ht2, ht1]⟩
    · simp only [gen, bind, Except.bind, hg1, hlen, hg2, pure, Except.pure, genR, hn1]
    · simp only [genR, hlen, ← hn1, hn2]
  | atom a =>
    intro off st est est' r hg hv hr _
    simp only [resolveWith, Option.some.injEq, Prod.mk.injEq] at hr
    obtain ⟨rfl, rfl⟩ := hr
    exact ⟨st, rfl, rfl, hg, hv, rfl⟩
  | var x =>
    intro off st est est' r hg hv hr _
    simp only [resolveWith] at hr
    have hl := lookup_conv pcOf est.vars x
    rw [← hv] at hl
    split at hr
    · next hlv =>
      simp only [Option.some.injEq, Prod.mk.injEq] at hr
      obtain ⟨rfl, rfl⟩ := hr
      rw [hlv] at hl
      refine ⟨st, ?_, rfl, hg, hv, rfl⟩
      simp only [gen, hl, Option.map_some, Option.map_none, genR]
    · next id hlv =>
      simp only [Option.some.injEq, Prod.mk.injEq] at hr
      obtain ⟨rfl, rfl⟩ := hr
      rw [hlv] at hl
      refine ⟨st, ?_, rfl, hg, hv, rfl⟩
      simp only [gen, hl, Option.map_some, genR]
    · simp [GEnv.find] at hr
  | loop mn mx fewest name body ih =>
    intro off st est est' r hg hv hr hc
    simp only [resolveWith] at hr
    split at hr
    · simp at hr
    · next hname =>
      have hname' : name = "" := by simpa using hname
      subst hname'
      simp only [Option.bind_eq_bind, Option.bind_eq_some_iff] at hr
      obtain ⟨⟨pre, est1⟩, h1, hr⟩ := hr
      simp only at hr
      by_cases hmn : mn > 0
      · -- at least one mandatory copy: unrolled
        have hun : (decide (mn > 0) && ("" : String) == "") = true := by simp [hmn]
        have hpre : ∀ (hcp : Consistent pcOf (seqOf pre) off),
            ∃ st1, genRepeat (fun o s => gen body o (forgetCaptures st.variables s)) mn off st =
                .ok ((genR pcOf (seqOf pre) off st.nextId).1, st1) ∧
              st1.nextId = (genR pcOf (seqOf pre) off st.nextId).2 ∧ st1.globals = [] ∧
              st1.variables = est1.vars.map (conv pcOf) ∧ st1.transforms = st.transforms := by
          intro hcp
          rw [hv]
          exact genRepeat_of_copies inlineG pcOf body ih est.vars mn off st est est1 pre hg hv h1 hcp
        split at hr
        · next heq =>
          simp only [Option.pure_def, Option.some.injEq, Prod.mk.injEq] at hr
          obtain ⟨rfl, rfl⟩ := hr
          obtain ⟨st1, hp, hn1, hgl1, hv1, ht1⟩ := hpre hc
          refine ⟨st1, ?_, hn1, hgl1, hv1, ht1⟩
          simp only [gen, bind, Except.bind, hp, heq, beq_self_eq_true, Bool.and_self, pure, Except.pure]
          simp [hmn]
        · next heq =>
          simp only [Option.bind_eq_some_iff] at hr
          obtain ⟨⟨rb, est2⟩, h2, hr⟩ := hr
          simp only [Option.pure_def, Option.some.injEq, Prod.mk.injEq] at hr
          obtain ⟨rfl, rfl⟩ := hr
          obtain ⟨st1, hp, hn1, hgl1, hv1, ht1⟩ := hpre hc.1
          have hlen : (genR pcOf (seqOf pre) off st.nextId).1.length = lenR (seqOf pre) := genR_length _ _ _ _
          have hvf : (forgetCaptures st.variables st1).variables = (forgetVars est.vars est1).vars.map (conv pcOf) := by
            simp only [forgetCaptures, forgetVars, hv1, hv]
            exact forget_conv pcOf est.vars est1.vars
          obtain ⟨st2, hg2, hn2, hgl2, hv2, ht2⟩ :=
            ih (off + lenR (seqOf pre) + 1) (forgetCaptures st.variables st1) (forgetVars est.vars est1) est2 rb
              hgl1 hvf h2 hc.2
          have hnid : (forgetCaptures st.variables st1).nextId = st1.nextId := rfl
          rw [hnid] at hg2 hn2
          have hlenb : (genR pcOf rb (off + lenR (seqOf pre) + 1) st1.nextId).1.length = lenR rb := genR_length _ _ _ _
          have heqb : ((mn : Int) == mx) = false := by simpa using heq
          refine ⟨{ st2 with nextId := st2.nextId + 1 }, ?_, ?_, hgl2, hv2, by simp only; rw [ht2]; exact ht1⟩
          · simp only [gen, bind, Except.bind, hp, heqb, beq_self_eq_true, Bool.and_true, Bool.false_eq_true,
              if_false, pure, Except.pure]
            simp only [hmn, decide_true, if_true, hp, hlen, hg2, genR, hn1, hn2, hlenb]
            simp [Nat.add_assoc]
          · simp only [genR, hlen, ← hn1, hn2]
      · -- no mandatory copy: only the loop
        have hz : mn = 0 := by omega
        subst hz
        simp only [copiesOf, Option.some.injEq, Prod.mk.injEq] at h1
        obtain ⟨rfl, rfl⟩ := h1
        have hun : (decide ((0 : Nat) > 0) && ("" : String) == "") = false := by simp
        split at hr
        · next heq =>
          simp only [Option.pure_def, Option.some.injEq, Prod.mk.injEq] at hr
          obtain ⟨rfl, rfl⟩ := hr
          refine ⟨st, ?_, rfl, hg, hv, rfl⟩
          simp only [gen, bind, Except.bind, pure, Except.pure, heq, beq_self_eq_true, Bool.and_self, seqOf, genR]
          simp
        · next heq =>
          simp only [Option.bind_eq_some_iff] at hr
          obtain ⟨⟨rb, est2⟩, h2, hr⟩ := hr
          simp only [Option.pure_def, Option.some.injEq, Prod.mk.injEq] at hr
          obtain ⟨rfl, rfl⟩ := hr
          have hvf : (forgetCaptures st.variables st).variables = (forgetVars est.vars est).vars.map (conv pcOf) := by
            simp only [forgetCaptures, forgetVars, hv]
            exact forget_conv pcOf est.vars est.vars
          have hc2 : Consistent pcOf rb (off + 1) := by
            have := hc.2
            simpa [seqOf, lenR, Consistent] using this
          obtain ⟨st2, hg2, hn2, hgl2, hv2, ht2⟩ :=
            ih (off + 1) (forgetCaptures st.variables st) (forgetVars est.vars est) est2 rb hg hvf h2 hc2
          have hnid : (forgetCaptures st.variables st).nextId = st.nextId := rfl
          rw [hnid] at hg2 hn2
          have hlenb : (genR pcOf rb (off + 1) st.nextId).1.length = lenR rb := genR_length _ _ _ _
          have heqb : (((0 : Nat) : Int) == mx) = false := by simpa using heq
          refine ⟨{ st2 with nextId := st2.nextId + 1 }, ?_, ?_, hgl2, hv2, by simp only; exact ht2⟩
          · simp only [gen, bind, Except.bind, pure, Except.pure, heqb, beq_self_eq_true, Bool.and_true]
            simp only [Nat.lt_irrefl, decide_false, Bool.false_and, Bool.false_eq_true, if_false, List.length_nil,
              Nat.add_zero, hg2, seqOf, genR, hlenb, hn2]
            simp
          · simp only [seqOf, genR, List.length_nil, Nat.add_zero, hn2]
  | branch l r' ihl ihr =>
    intro off st est est' r hg hv hr hc
    simp only [resolveWith, Option.bind_eq_bind, Option.bind_eq_some_iff] at hr
    obtain ⟨⟨rl, est1⟩, h1, hr⟩ := hr
    simp only at hr
    obtain ⟨⟨rr, est2⟩, h2, hr⟩ := hr
    simp only [Option.pure_def, Option.some.injEq, Prod.mk.injEq] at hr
    obtain ⟨rfl, rfl⟩ := hr
    obtain ⟨st1, hg1, hn1, hgl1, hv1, ht1⟩ := ihl (off + 1) st est est1 rl hg hv h1 hc.1
    have hlen : (genR pcOf rl (off + 1) st.nextId).1.length = lenR rl := genR_length _ _ _ _
    obtain ⟨st2, hg2, hn2, hgl2, hv2, ht2⟩ := ihr (off + 2 + lenR rl) st1 est1 est2 rr hgl1 hv1 h2 hc.2
    have hlenr : (genR pcOf rr (off + 2 + lenR rl) st1.nextId).1.length = lenR rr := genR_length _ _ _ _
    refine ⟨st2, ?_, ?_, hgl2, hv2, by rw [ht2, ht1]⟩
    · simp only [gen, bind, Except.bind, hg1, hlen, hg2, pure, Except.pure, genR, hn1, hlenr]
    · simp only [genR, hlen, ← hn1, hn2]
  | dec x body ih =>
    intro off st est est' r hg hv hr hc
    simp only [resolveWith, Option.bind_eq_bind, Option.bind_eq_some_iff] at hr
    obtain ⟨⟨rb, est1⟩, h1, hr⟩ := hr
    simp only at hr
    split at hr
    · simp at hr
    · next hnone =>
      simp only [Option.pure_def, Option.some.injEq, Prod.mk.injEq] at hr
      obtain ⟨rfl, rfl⟩ := hr
      obtain ⟨st1, hg1, hn1, hgl1, hv1, ht1⟩ := ih (off + 1) st est est1 rb hg hv h1 hc
      have hlk : lookup st1.variables x = none := by
        rw [hv1, lookup_conv]
        have : lookupVar est1.vars x = none := by simpa using hnone
        rw [this]; rfl
      refine ⟨{ st1 with variables := insertKV st1.variables x none }, ?_, hn1, hgl1, ?_, ht1⟩
      · simp only [gen, bind, Except.bind, hg1, hlk, Option.isSome_none, Bool.false_eq_true, if_false, pure, Except.pure,
          genR]
      · show insertKV st1.variables x none = _
        rw [insertKV_absent _ _ _ hlk, hv1]
        simp only [List.map_cons, conv, Option.map_none]
  | sub x body ih =>
    intro off st est est' r hg hv hr hc
    simp only [resolveWith] at hr
    split at hr
    · simp at hr
    · next hnone =>
      split at hr
      · next rb est1 hb =>
        simp only [Option.some.injEq, Prod.mk.injEq] at hr
        obtain ⟨rfl, rfl⟩ := hr
        have hlk : lookup st.variables x = none := by
          rw [hv, lookup_conv]
          have : lookupVar est.vars x = none := by simpa using hnone
          rw [this]; rfl
        have hpc : pcOf est.nextSub = off := hc.1
        have hv0 : ({ st with variables := insertKV st.variables x (some off) } : GenState).variables =
            ((x, some est.nextSub) :: est.vars).map (conv pcOf) := by
          show insertKV st.variables x (some off) = _
          rw [insertKV_absent _ _ _ hlk, hv]
          simp only [List.map_cons, conv, Option.map_some, hpc]
        obtain ⟨st1, hg1, hn1, hgl1, hv1, ht1⟩ :=
          ih (off + 1) { st with variables := insertKV st.variables x (some off) }
            { vars := (x, some est.nextSub) :: est.vars, nextSub := est.nextSub + 1 } est1 rb hg hv0 hb hc.2
        have hlen : (genR pcOf rb (off + 1) st.nextId).1.length = lenR rb := genR_length _ _ _ _
        refine ⟨st1, ?_, hn1, hgl1, hv1, ht1⟩
        simp only [gen, bind, Except.bind, hlk, Option.isSome_none, Bool.false_eq_true, if_false]
        have hg1' := hg1
        simp only at hg1'
        rw [hg1']
        simp only [pure, Except.pure, genR, hlen]
      · simp at hr
  | inl neg items =>
    intro off st est est' r hg hv hr _
    simp only [resolveWith, Option.some.injEq, Prod.mk.injEq] at hr
    obtain ⟨rfl, rfl⟩ := hr
    cases neg
    · exact ⟨st, rfl, rfl, hg, hv, rfl⟩
    · exact ⟨st, rfl, rfl, hg, hv, rfl⟩

end Vore

namespace Vore
open Vore.Spec

/-- for a command body with no global pattern in scope, the one-pass generator (the transcription of
generate.go) emits exactly the code of the two-pass generator for the resolved body -/
theorem gen_eq_genBody (e : Expr) (r : RExpr) (hr : resolveBody [] e = some r) (st : GenState) (hg : st.globals = []) :
    ∃ st', gen e 0 { st with variables := [] } = .ok ((genBody r st.nextId).1, st') := by
  have hu := resolveBody_unique [] e r hr
  unfold resolveBody at hr
  cases hres : resolveN ([] : GEnv).length.succ [] e {} with
  | none => simp only [List.length_nil] at hr hres; rw [hres] at hr; simp at hr
  | some p =>
    obtain ⟨r', est'⟩ := p
    simp only [List.length_nil] at hr hres
    rw [hres] at hr
    simp only [Option.map_some, Option.some.injEq] at hr
    subst hr
    have hres' : resolveWith (resolveN 0) [] e {} = some (r', est') := hres
    obtain ⟨st', hgen, _, _, _, _⟩ :=
      gen_of_resolve (resolveN 0) (pcLookup (pcMap r' 0)) e 0 { st with variables := [] } {} est' r' hg rfl hres'
        (consistent_genBody r' hu)
    exact ⟨st', hgen⟩

end Vore
