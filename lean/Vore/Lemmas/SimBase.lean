import Vore.Spec.Search
import Vore.Lemmas.AtomsFrame
import Vore.Lemmas.GenCF
/-!
# Vore.Lemmas.SimBase — vocabulary of the simulation proof (C01)

`Ev s r`: the VM, started in `s`, finishes with the result `r` (some fuel suffices).
`Rep bt fk`: backtracking into the saved states `bt` realises the failure continuation `fk`.
`KOk pc L V C ks`: the VM at `pc` with stacks `(L, V, C)` realises the success continuation `ks`.
-/
namespace Vore
open Vore.Spec

def outcomeRes : Outcome → Option SRes
  | .success c => some (.matched c.data)
  | .fail => some .fail
  | _ => none

section
variable (pf : Nat) (prog : List Instr) (text : Bytes)

def Ev (s : VMState) (r : SRes) : Prop :=
  ∃ n o, run pf prog text n s = some o ∧ outcomeRes o = some r

def EvBt : List Core → SRes → Prop
  | [], r => r = .fail
  | c :: rest, r => Ev pf prog text ⟨c, rest⟩ r

def Rep (bt : List Core) (fk : FK) : Prop := ∀ r, fk () = some r → EvBt pf prog text bt r

def KOk (pc : Nat) (L : List LoopSt) (V : List (String × Nat)) (C : List CallSt) (ks : SK) : Prop :=
  ∀ d fk' bt' r, Rep pf prog text bt' fk' → ks d fk' = some r → Ev pf prog text ⟨mkCore pc d L V C, bt'⟩ r

variable {pf prog text}

theorem ev_step {s s' : VMState} {r : SRes} (hlt : s.core.pc < prog.length)
    (hs : step pf prog text s = .cont s') (h : Ev pf prog text s' r) : Ev pf prog text s r := by
  obtain ⟨n, o, hn, ho⟩ := h
  refine ⟨n + 1, o, ?_, ho⟩
  simp [run, Nat.not_le.mpr hlt, hs, hn]

theorem ev_backtrack {s : VMState} {r : SRes} (hlt : s.core.pc < prog.length)
    (hs : step pf prog text s = s.backtrack) (h : EvBt pf prog text s.bt r) : Ev pf prog text s r := by
  unfold VMState.backtrack at hs
  cases hb : s.bt with
  | nil =>
    rw [hb] at h hs
    simp only [EvBt] at h
    subst h
    exact ⟨1, .fail, by simp [run, Nat.not_le.mpr hlt, hs], rfl⟩
  | cons c rest =>
    rw [hb] at h hs
    exact ev_step hlt hs h

theorem ev_lift {s : VMState} {r : SRes} {o : Option Data} (hlt : s.core.pc < prog.length)
    (hs : step pf prog text s = lift s o)
    (hsome : ∀ d, o = some d → Ev pf prog text ⟨mkCore (s.core.pc + 1) d s.core.loops s.core.vars s.core.calls, s.bt⟩ r)
    (hnone : o = none → EvBt pf prog text s.bt r) : Ev pf prog text s r := by
  cases o with
  | some d => exact ev_step hlt hs (hsome d rfl)
  | none => exact ev_backtrack hlt hs (hnone rfl)

theorem evBt_cons {c : Core} {bt : List Core} {r : SRes} (h : Ev pf prog text ⟨c, bt⟩ r) :
    EvBt pf prog text (c :: bt) r := h

theorem rep_congr {bt : List Core} {fk fk' : FK} (h : Rep pf prog text bt fk) (he : ∀ u, fk' u = fk u) :
    Rep pf prog text bt fk' := by
  intro r hr; rw [he] at hr; exact h r hr

end

/-- `code` sits in `prog` at offset `off` -/
def At (prog : List Instr) (off : Nat) (code : List Instr) : Prop :=
  ∀ i, i < code.length → prog[off + i]? = code[i]?

theorem At.app_left {prog off a b} (h : At prog off (a ++ b)) : At prog off a := by
  intro i hi
  have := h i (by simp; omega)
  rw [this, List.getElem?_append_left hi]

theorem At.app_right {prog off a b} (h : At prog off (a ++ b)) : At prog (off + a.length) b := by
  intro i hi
  have := h (a.length + i) (by simp; omega)
  rw [Nat.add_assoc, this, List.getElem?_append_right (by omega)]
  simp

theorem At.head {prog off i rest} (h : At prog off (i :: rest)) : prog[off]? = some i := by
  have := h 0 (by simp)
  simpa using this

theorem At.cast {prog a b code} (h : At prog a code) (e : a = b) : At prog b code := e ▸ h

theorem At.tail {prog off i rest} (h : At prog off (i :: rest)) : At prog (off + 1) rest := by
  have := At.app_right (a := [i]) (b := rest) (by simpa using h)
  simpa using this

theorem lt_of_getElem? {prog : List Instr} {pc : Nat} {i : Instr} (h : prog[pc]? = some i) : pc < prog.length :=
  (List.getElem?_eq_some_iff.mp h).1

/-- loops on the stack: ids not below `n`, all unnamed -/
def LsOk (L : List LoopSt) (n : Nat) : Prop := ∀ l ∈ L, n ≤ l.id ∧ l.name = ""

theorem LsOk.mono {L n n'} (h : LsOk L n) (hn : n' ≤ n) : LsOk L n' :=
  fun l hl => ⟨Nat.le_trans hn (h l hl).1, (h l hl).2⟩

theorem insertInLoops_unnamed (x : String) (v : Val) : ∀ L : List LoopSt, (∀ l ∈ L, l.name = "") →
    insertInLoops L x v = none
  | [], _ => rfl
  | l :: rest, h => by
    have hl : l.name = "" := h l (by simp)
    have ih := insertInLoops_unnamed x v rest (fun l' hl' => h l' (by simp [hl']))
    simp [insertInLoops, hl, ih]

@[simp] theorem mkCore_pc (pc d L V C) : (mkCore pc d L V C).pc = pc := rfl
@[simp] theorem mkCore_data (pc d L V C) : (mkCore pc d L V C).data = d := rfl
@[simp] theorem mkCore_loops (pc d L V C) : (mkCore pc d L V C).loops = L := rfl
@[simp] theorem mkCore_vars (pc d L V C) : (mkCore pc d L V C).vars = V := rfl
@[simp] theorem mkCore_calls (pc d L V C) : (mkCore pc d L V C).calls = C := rfl

end Vore
