import Vore.Lemmas.ParserStmt
/-!
# Vore.Lemmas.ParserCmd — simulation of the command level (`find`, `replace`, `set`, the program loop)
-/
namespace Vore.Parser
open Vore Vore.Grammar

variable {rx : Bytes → RegexOutcome} {ts : List Token}

theorem atomList_sim (h : EndsEof ts) : ∀ (n cur : Nat), cur < ts.length → ts.length - cur ≤ n →
    Sim ts (cur + 1) (atomList ts n cur) (pAtomList n (strip (ts.drop cur))) := by
  intro n
  induction n with
  | zero => intro cur h1 h2; omega
  | succ n ih =>
    intro cur h1 h2
    rw [atomList, pAtomList]
    apply sim_skip h h1; intro w t htk hs hin hn hst
    rw [hst]
    apply sim_bind (parseAtom_sim h htk hs); intro a nx hle hlt
    apply sim_skipTok h hlt; intro c t1 htk1 hs1 hin1 hn1 hst1
    kcase hk : isCmdStart t1.kind = true
    · exact sim_ok hst1 (by omega) hn1
    · rw [hst1]
      apply sim_bind (ih c hn1 (by omega)); intro as k hle2 hlt2
      exact sim_ok rfl (by omega) hlt2

section cmds
variable (hrx : ∀ b, rx b ≠ .panic) (h : EndsEof ts) {F : Nat} (hF : 8 * ts.length + 7 ≤ F)
include hrx h hF

theorem parseFind_sim {i : Nat} {t : Token} (htk : tk ts i = some t) (hs : ignorable t.kind = false)
    (hk : t.kind ≠ .eof) :
    Sim ts (i + 1) (parseFind rx ts F i) (pFind rx F (strip (ts.drop i))) := by
  rw [parseFind, pFind, next_head htk hs]
  have h1 := h.succ_lt htk hk
  apply sim_bind (parseAmount_sim h h1); intro amt n hle hlt
  apply sim_bind ((expr_sim hrx h F).list stopFind n hlt (by omega)); intro body c hle2 hlt2
  exact sim_ok rfl (by omega) hlt2

theorem parseReplace_sim {i : Nat} {t : Token} (htk : tk ts i = some t) (hs : ignorable t.kind = false)
    (hk : t.kind ≠ .eof) :
    Sim ts (i + 1) (parseReplace rx ts F i) (pReplace rx F (strip (ts.drop i))) := by
  rw [parseReplace, pReplace, next_head htk hs]
  have h1 := h.succ_lt htk hk
  apply sim_bind (parseAmount_sim h h1); intro amt n hle hlt
  apply sim_bindS ((expr_sim hrx h F).list stopReplaceBody n hlt (by omega)) (fun v k hr => exprList_sig _ _ _ _ hr)
  intro body c hle2 hlt2 ⟨t1, htk1, hs1⟩
  apply sim_tok htk1 hs1
  kcase hk1 : t1.kind = .with_
  · have h2 := h.succ_lt htk1 (by simp [hk1])
    apply sim_bind (atomList_sim h F (c + 1) h2 (by omega)); intro res k hle3 hlt3
    exact sim_ok rfl (by omega) hlt3
  · exact sim_err

omit hrx in
theorem parseSetTransform_sim {i : Nat} {t : Token} (htk : tk ts i = some t) (hs : ignorable t.kind = false)
    (hk : t.kind ≠ .eof) :
    Sim ts (i + 1) (parseSetTransform ts F i) (pSetTransform F (strip (ts.drop i))) := by
  rw [parseSetTransform, pSetTransform, next_head htk hs]
  have h1 := h.succ_lt htk hk
  apply sim_skipTok h h1; intro c t1 htk1 hs1 hin1 hn1 hst1
  have hcont : ∀ (lo : Nat), i + 1 ≤ lo → ∀ (v : Stmt) k, lo ≤ k → k < ts.length → SigAt ts k →
      Sim ts (i + 1) (withTok ts k fun t2 => if t2.kind = .end_ then Res.ok v (k + 1) else .error expEnd k)
        (next (strip (ts.drop k)) fun t2 r3 => if t2.kind = .end_ then GR.ok v r3 else .err) := by
    intro lo hlo stmts nx hle hlt ⟨t2, htk2, hs2⟩
    apply sim_tok htk2 hs2
    kcase hk2 : t2.kind = .end_
    · have := h.succ_lt htk2 (by simp [hk2])
      exact sim_ok rfl (by omega) this
    · exact sim_err
  kcase hk1 : t1.kind = .begin_
  · have h2 := h.succ_lt htk1 (by simp [hk1])
    apply simSt_bind ((stmt_sim h F).stmts (c + 1) h2 (by omega)) (hcont (c + 1) (by omega))
    intro v k t' htk' hk'
    simp [withTok, htk', hk', IsErr]
  · rw [hst1]
    apply simSt_bind ((stmt_sim h F).stmts c hn1 (by omega)) (hcont c (by omega))
    intro v k t' htk' hk'
    simp [withTok, htk', hk', IsErr]

theorem parseSetPattern_sim {i : Nat} {t : Token} (htk : tk ts i = some t) (hs : ignorable t.kind = false)
    (hk : t.kind ≠ .eof) :
    Sim ts (i + 1) (parseSetPattern rx ts F i) (pSetPattern rx F (strip (ts.drop i))) := by
  rw [parseSetPattern, pSetPattern, next_head htk hs]
  have h1 := h.succ_lt htk hk
  apply sim_bind ((expr_sim hrx h F).list stopPattern (i + 1) h1 (by omega)); intro body c hle hlt
  apply sim_skipTok h hlt; intro c1 t1 htk1 hs1 hin1 hn1 hst1
  kcase hk1 : t1.kind = .begin_
  · have h2 := h.succ_lt htk1 (by simp [hk1])
    apply simSt_bind ((stmt_sim h F).stmts (c1 + 1) h2 (by omega))
    · intro stmts nx hle2 hlt2 ⟨t2, htk2, hs2⟩
      apply sim_tok htk2 hs2
      kcase hk2 : t2.kind = .end_
      · have := h.succ_lt htk2 (by simp [hk2])
        exact sim_ok rfl (by omega) this
      · exact sim_err
    · intro v k t' htk' hk'
      simp [withTok, htk', hk', IsErr]
  · exact sim_ok hst1 (by omega) hn1

end cmds

/-- relation for `parse_command`: `none` (Go's nil command) only at EOF, without advancing -/
def SimC (ts : List Token) (i : Nat) : Res (Option Cmd) → GR (Option Cmd) → Prop
  | .ok (some s) k, .ok (some s') r => s = s' ∧ r = strip (ts.drop k) ∧ i < k ∧ k < ts.length
  | .ok none k, .ok none r => k = i ∧ r = strip (ts.drop i) ∧ ∃ t, tk ts i = some t ∧ t.kind = .eof
  | .error _ _, .err => True
  | _, _ => False

theorem simC_some {i : Nat} {r : Res Cmd} {g : GR Cmd} (h : Sim ts (i + 1) r g) :
    SimC ts i (r.bind fun s k => .ok (some s) k) (g.bind fun s k => .ok (some s) k) := by
  cases r <;> cases g <;> simp_all [Sim, SimC, Res.bind, GR.bind]
  omega

structure CmdIH (rx : Bytes → RegexOutcome) (ts : List Token) (F f : Nat) : Prop where
  cmd : ∀ i t, tk ts i = some t → ignorable t.kind = false → 4 * (ts.length - i) + 3 ≤ f →
    SimC ts i (parseCommand rx ts F f i) (pCommand rx F f (strip (ts.drop i)))
  set : ∀ i t, tk ts i = some t → ignorable t.kind = false → t.kind = .set → 4 * (ts.length - i) + 2 ≤ f →
    Sim ts (i + 1) (parseSet rx ts F f i) (pSet rx F f (strip (ts.drop i)))
  mat : ∀ i t, tk ts i = some t → ignorable t.kind = false → t.kind = .matches → 4 * (ts.length - i) + 1 ≤ f →
    Sim ts (i + 1) (parseSetMatches rx ts F f i) (pSetMatches rx F f (strip (ts.drop i)))

section steps
variable (hrx : ∀ b, rx b ≠ .panic) (h : EndsEof ts) {F : Nat} (hF : 8 * ts.length + 7 ≤ F) {f : Nat}
  (ih : CmdIH rx ts F f)
include hrx h hF ih

omit hrx hF in
theorem parseSetMatches_step {i : Nat} {t : Token} (htk : tk ts i = some t) (hs : ignorable t.kind = false)
    (hk : t.kind = .matches) (hf : 4 * (ts.length - i) + 1 ≤ f + 1) :
    Sim ts (i + 1) (parseSetMatches rx ts F (f + 1) i) (pSetMatches rx F (f + 1) (strip (ts.drop i))) := by
  have hi := lt_of_tk htk
  rw [parseSetMatches, pSetMatches, next_head htk hs]
  have h1 := h.succ_lt htk (by simp [hk])
  apply sim_skip h h1; intro c t1 htk1 hs1 hin1 hn1 hst1
  rw [hst1]
  have hC := ih.cmd c t1 htk1 hs1 (by omega)
  generalize parseCommand rx ts F f c = r at hC ⊢
  generalize pCommand rx F f (strip (ts.drop c)) = g at hC ⊢
  cases r with
  | ok oc k =>
    cases oc with
    | none => cases g with
      | ok oc' r' => cases oc' <;> simp_all [SimC, Sim, Res.bind, GR.bind]
      | err => simp [SimC] at hC
      | fuel => simp [SimC] at hC
    | some cmd => cases g with
      | ok oc' r' =>
        cases oc' with
        | none => simp [SimC] at hC
        | some cmd' =>
          obtain ⟨rfl, rfl, h2, h3⟩ := hC
          exact sim_ok rfl (by omega) h3
      | err => simp [SimC] at hC
      | fuel => simp [SimC] at hC
  | error m a => cases g <;> simp_all [SimC, Sim, Res.bind, GR.bind]
  | panic => cases g <;> simp_all [SimC]
  | fuel => cases g <;> simp_all [SimC]

theorem parseSet_step {i : Nat} {t : Token} (htk : tk ts i = some t) (hs : ignorable t.kind = false)
    (hk : t.kind = .set) (hf : 4 * (ts.length - i) + 2 ≤ f + 1) :
    Sim ts (i + 1) (parseSet rx ts F (f + 1) i) (pSet rx F (f + 1) (strip (ts.drop i))) := by
  have hi := lt_of_tk htk
  rw [parseSet, pSet, next_head htk hs]
  have h1 := h.succ_lt htk (by simp [hk])
  apply sim_skipTok h h1; intro c t1 htk1 hs1 hin1 hn1 hst1
  kcase hk1 : t1.kind = .identifier
  · have h2 := h.succ_lt htk1 (by simp [hk1])
    rw [sig_lex (by simp [carriesLexeme, hk1])]
    apply sim_skipTok h h2; intro c2 t2 htk2 hs2 hin2 hn2 hst2
    kcase hk2 : t2.kind = .to
    · have h3 := h.succ_lt htk2 (by simp [hk2])
      apply sim_skipTok h h3; intro c3 t3 htk3 hs3 hin3 hn3 hst3
      rw [hst3]
      kcase hk3 : t3.kind = .pattern
      · apply sim_bind (parseSetPattern_sim hrx h hF htk3 hs3 (by simp [hk3])); intro bp k hle hlt
        exact sim_ok rfl (by omega) hlt
      kcase hk4 : t3.kind = .matches
      · apply sim_bind (ih.mat c3 t3 htk3 hs3 hk4 (by omega)); intro cmd k hle hlt
        exact sim_ok rfl (by omega) hlt
      kcase hk5 : t3.kind = .transform
      · apply sim_bind (parseSetTransform_sim h hF htk3 hs3 (by simp [hk5])); intro s k hle hlt
        exact sim_ok rfl (by omega) hlt
      · exact sim_err
    · exact sim_err
  · exact sim_err

theorem parseCommand_step {i : Nat} {t : Token} (htk : tk ts i = some t) (hs : ignorable t.kind = false)
    (hf : 4 * (ts.length - i) + 3 ≤ f + 1) :
    SimC ts i (parseCommand rx ts F (f + 1) i) (pCommand rx F (f + 1) (strip (ts.drop i))) := by
  have hi := lt_of_tk htk
  rw [parseCommand, pCommand, next_head htk hs]
  simp only [withTok, htk]
  kcase hk1 : t.kind = .find
  · exact simC_some (parseFind_sim hrx h hF htk hs (by simp [hk1]))
  kcase hk2 : t.kind = .replace
  · exact simC_some (parseReplace_sim hrx h hF htk hs (by simp [hk2]))
  kcase hk3 : t.kind = .set
  · exact simC_some (ih.set i t htk hs hk3 (by omega))
  kcase hk4 : t.kind = .eof
  · exact ⟨rfl, rfl, t, htk, hk4⟩
  · trivial

end steps

theorem cmd_sim (hrx : ∀ b, rx b ≠ .panic) (h : EndsEof ts) {F : Nat} (hF : 8 * ts.length + 7 ≤ F) :
    ∀ f, CmdIH rx ts F f := by
  intro f
  induction f with
  | zero => constructor <;> intros <;> omega
  | succ f ih =>
    exact {
      cmd := fun i t htk hs hf => parseCommand_step hrx h hF ih htk hs hf
      set := fun i t htk hs hk hf => parseSet_step hrx h hF ih htk hs hk hf
      mat := fun i t htk hs hk hf => parseSetMatches_step h ih htk hs hk hf }

/-- the program loop -/
theorem parseCmds_sim (hrx : ∀ b, rx b ≠ .panic) (h : EndsEof ts) {F : Nat} (hF : 8 * ts.length + 7 ≤ F) :
    ∀ (n i : Nat), i < ts.length → (ts.length - i) + 1 ≤ n →
      Sim ts i (parseCmds rx ts F n i) (pCmds rx F n (strip (ts.drop i))) := by
  intro n
  induction n with
  | zero => intro i h1 h2; omega
  | succ n ih =>
    intro i hi hn
    rw [parseCmds, pCmds]
    by_cases hb : i + 1 < ts.length
    · simp only [hb, if_true]
      obtain ⟨w, t, hsk, htk, hs, hle, hlt, hst⟩ := skip_spec h _ i (Nat.le_refl _) hi
      simp only [withSkipTok, hsk, htk]
      rw [hst, next_head htk hs]
      simp only [sig_kind]
      have hC := (cmd_sim hrx h hF F).cmd w t htk hs (by omega)
      by_cases hk : t.kind = .eof
      · simp only [hk, if_true]
        have hlast := h.eof_last htk hk
        obtain ⟨F', rfl⟩ : ∃ F', F = F' + 1 := ⟨F - 1, by omega⟩
        obtain ⟨n', rfl⟩ : ∃ n', n = n' + 1 := ⟨n - 1, by omega⟩
        have hpc : parseCommand rx ts (F' + 1) (F' + 1) w = .ok none w := by
          rw [parseCommand]; simp [withTok, htk, hk]
        have hnb : ¬ (w + 1 < ts.length) := by omega
        rw [hpc]
        simp only [Res.bind]
        rw [parseCmds]
        simp only [hnb, if_false, Option.toList, List.append_nil]
        exact sim_ok rfl hle hlt
      · simp only [hk, if_false]
        generalize parseCommand rx ts F F w = r at hC ⊢
        generalize pCommand rx F F (strip (ts.drop w)) = g at hC ⊢
        cases r with
        | ok oc k =>
          cases oc with
          | none =>
            cases g with
            | ok oc' r' =>
              cases oc' with
              | none => obtain ⟨_, _, t', ht', hk'⟩ := hC; rw [htk] at ht'; cases ht'; exact absurd hk' hk
              | some c' => simp [SimC] at hC
            | err => simp [SimC] at hC
            | fuel => simp [SimC] at hC
          | some c =>
            cases g with
            | ok oc' r' =>
              cases oc' with
              | none => simp [SimC] at hC
              | some c' =>
                obtain ⟨rfl, rfl, h1, h2⟩ := hC
                simp only [Res.bind, GR.bind]
                apply sim_bind (ih k h2 (by omega)); intro cs k' hle2 hlt2
                exact sim_ok rfl (by omega) hlt2
            | err => simp [SimC] at hC
            | fuel => simp [SimC] at hC
        | error m a => cases g <;> simp_all [SimC, Sim, Res.bind, GR.bind]
        | panic => cases g <;> simp_all [SimC]
        | fuel => cases g <;> simp_all [SimC]
    · simp only [hb, if_false]
      obtain ⟨t, htk, hk⟩ := h.last_eof (by omega : i + 1 = ts.length)
      rw [next_head htk (eof_sig hk)]
      simp only [sig_kind, hk, if_true]
      exact sim_ok rfl (Nat.le_refl _) hi

/-- the whole parser against the grammar, with the model's own fuel on both sides -/
theorem parse_sim (hrx : ∀ b, rx b ≠ .panic) (h : EndsEof ts) :
    Sim ts 0 (parse rx ts) (pCmds rx (fuelOf ts) (fuelOf ts) (strip ts)) := by
  have := parseCmds_sim hrx h (F := fuelOf ts) (by unfold fuelOf; omega) (fuelOf ts) 0 h.pos
    (by unfold fuelOf; omega)
  simpa [parse] using this

end Vore.Parser
