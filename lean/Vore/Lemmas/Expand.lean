import Vore.Lemmas.Flatten
import Vore.Spec.Search
import Vore.Lemmas.GenCF
/-!
# Vore.Lemmas.Expand — a program with definitions means what its expansion means

`toExpr` reads a resolved expression without calls and without predicates back as an ordinary call-free
pattern (`star` becomes an optional loop, a subroutine node its body).  On such expressions the stage-2
semantics `mrWith noCall` *is* the stage-1 semantics `Spec.m` of that pattern — equal as functions.  Together
with `mrN_flatten` this gives: whenever the flattening of a program leaves no call (definitions that are not
recursive, expanded deep enough) its matches are those of the call-free pattern obtained by writing every
definition out in place — and that pattern's specification has the declarative list reading of `Spec.outs`.
-/
namespace Vore
open Vore.Spec

/-- no call, no predicate, no degenerate `star 0`, no empty `in` list -/
def expandable : RExpr → Bool
  | .empty => true
  | .seq a b => expandable a && expandable b
  | .atom _ => true
  | .backref _ => true
  | .call _ _ => false
  | .star mx _ body => mx != 0 && expandable body
  | .branch l r => expandable l && expandable r
  | .dec _ body => expandable body
  | .sub _ _ body pred => pred == .skip && expandable body
  | .inl neg items => neg || !items.isEmpty

/-- the call-free pattern a call-free resolved expression stands for -/
def toExpr : RExpr → Expr
  | .empty => .empty
  | .seq a b => .seq (toExpr a) (toExpr b)
  | .atom a => .atom a
  | .backref x => .var x
  | .call x _ => .var x
  | .star mx fewest body => .loop 0 mx fewest "" (toExpr body)
  | .branch l r => .branch (toExpr l) (toExpr r)
  | .dec x body => .dec x (toExpr body)
  | .sub _ _ body _ => toExpr body
  | .inl neg items => .inl neg items

theorem callFree_toExpr : ∀ r : RExpr, expandable r = true → CallFree (toExpr r) := by
  intro r
  induction r with
  | seq a b iha ihb => intro h; simp only [expandable, Bool.and_eq_true] at h; exact ⟨iha h.1, ihb h.2⟩
  | star mx f body ih => intro h; simp only [expandable, Bool.and_eq_true] at h; exact ⟨rfl, ih h.2⟩
  | branch l r ihl ihr => intro h; simp only [expandable, Bool.and_eq_true] at h; exact ⟨ihl h.1, ihr h.2⟩
  | dec x body ih => intro h; exact ih h
  | sub id x body pred ih => intro h; simp only [expandable, Bool.and_eq_true] at h; exact ih h.2
  | call x id => intro h; simp [expandable] at h
  | empty => intro _; trivial
  | atom a => intro _; trivial
  | backref x => intro _; trivial
  | inl n items =>
    intro h
    simp only [expandable, Bool.or_eq_true, Bool.not_eq_true', List.isEmpty_eq_false_iff] at h
    simpa [toExpr, CallFree] using h

/-- on expandable expressions the stage-2 semantics is the stage-1 semantics of the expansion -/
theorem mrWith_eq_m (text : Bytes) (lf pf : Nat) (ρ : Procs) :
    ∀ r : RExpr, expandable r = true → mrWith text lf pf ρ noCall r = m text lf (toExpr r) := by
  intro r
  induction r with
  | empty => intro _; funext d ks fk; simp only [mrWith, toExpr, m]
  | seq a b iha ihb =>
    intro h
    simp only [expandable, Bool.and_eq_true] at h
    funext d ks fk
    simp only [mrWith, toExpr, m, iha h.1, ihb h.2]
  | atom a => intro _; funext d ks fk; simp only [mrWith, toExpr, m]; rfl
  | backref x => intro _; funext d ks fk; simp only [mrWith, toExpr, m]; rfl
  | call x id => intro h; simp [expandable] at h
  | star mx fewest body ih =>
    intro h
    simp only [expandable, Bool.and_eq_true, bne_iff_ne, ne_eq] at h
    funext d ks fk
    have hmx : ((0 : Nat) : Int) ≠ mx := by
      intro h0; exact h.1 (by simpa using h0.symm)
    have hb : (((0 : Nat) : Int) == mx) = false := by simpa using hmx
    have harg : (if mx > 0 then mx - ((0 : Nat) : Int) else mx) = mx := by split <;> simp
    simp only [mrWith, toExpr, m, Spec.repeatM, ih h.2, hb, Bool.false_eq_true, if_false, harg]
  | branch l r ihl ihr =>
    intro h
    simp only [expandable, Bool.and_eq_true] at h
    funext d ks fk
    simp only [mrWith, toExpr, m, ihl h.1, ihr h.2]
  | dec x body ih =>
    intro h
    funext d ks fk
    simp only [mrWith, toExpr, m, ih h]
  | sub id x body pred ih =>
    intro h
    simp only [expandable, Bool.and_eq_true] at h
    funext d ks fk
    simp only [mrWith, toExpr, withPred_skip pf h.1, ih h.2]
  | inl neg items =>
    intro _
    funext d ks fk
    cases neg <;> simp only [mrWith, toExpr, m]

/-- **expansion**: if flattening a resolved body `cf` levels deep leaves an expandable expression (no call left:
the definitions are not recursive; no predicate), the specification with subroutines answers exactly what the
call-free specification answers on the pattern with every definition written out in place -/
theorem findAllR_eq_findAll_expansion (text : Bytes) (pf cf : Nat) (r : RExpr)
    (h : expandable (flattenN (procsOf r) cf r) = true) :
    findAllR text pf cf r = findAll text (toExpr (flattenN (procsOf r) cf r)) := by
  unfold findAllR findAll scanAll
  have hatt : attemptR text (text.length + 2) pf cf r =
      attempt text (text.length + 2) (toExpr (flattenN (procsOf r) cf r)) := by
    funext pos line col
    unfold attemptR attempt
    rw [mrN_flatten, mrWith_eq_m text _ pf _ _ h]
  rw [hatt]

end Vore
