import Vore.Spec.Search
/-!
# Vore.Lemmas.RegexLin — success continuations are "linear"

A success continuation built by the semantics either passes control on to its failure
continuation or answers without looking at it.  Consequence: offering the same data twice is the
same as offering it once (`Lin.twice`) — which is why a bracket class with overlapping items
(`[aab]`, `[a-cb]`: `in 'a', 'a', 'b'` tries the items one after the other) finds what a set test finds.
-/
namespace Vore.Rx
open Vore.Spec

/-- `ks` either falls through to its failure continuation or ignores it -/
def Lin (ks : SK) : Prop := ∀ d, (∀ fk, ks d fk = fk ()) ∨ (∃ v, ∀ fk, ks d fk = v)

/-- a matcher preserves linearity -/
def LinM (mb : Data → SK → FK → Option SRes) : Prop := ∀ ks, Lin ks → Lin (fun d fk => mb d ks fk)

theorem LinM.app {mb : Data → SK → FK → Option SRes} (h : LinM mb) {ks : SK} (hks : Lin ks) (d : Data) :
    (∀ fk, mb d ks fk = fk ()) ∨ (∃ v, ∀ fk, mb d ks fk = v) := h ks hks d

theorem Lin.twice {ks : SK} (h : Lin ks) (d : Data) (fk : FK) : ks d (fun _ => ks d fk) = ks d fk := by
  rcases h d with hp | ⟨v, hv⟩
  · rw [hp, hp]
  · rw [hv, hv]

theorem lin_const (f : Data → Option SRes) : Lin (fun d _ => f d) := fun d => Or.inr ⟨f d, fun _ => rfl⟩

theorem repeatM_lin {mb} (hb : LinM mb) : ∀ n, LinM (Spec.repeatM mb n) := by
  intro n
  induction n with
  | zero => intro ks hks d; simpa [Spec.repeatM] using hks d
  | succ n ih =>
    intro ks hks d
    simp only [Spec.repeatM]
    exact hb (fun d' fk' => Spec.repeatM mb n d' ks fk') (ih ks hks) d

theorem loopV_lin {mb} (hb : LinM mb) (mx : Int) (fewest : Bool) :
    ∀ fuel k, LinM (loopV mb mx fewest fuel k) := by
  intro fuel
  induction fuel with
  | zero => intro k ks _ d; exact Or.inr ⟨none, fun _ => by simp [loopV]⟩
  | succ fuel ih =>
    intro k ks hks d
    have hK : Lin (fun d' fk' =>
        if d'.cur.length == d.cur.length then fk' () else loopV mb mx fewest fuel (k + 1) d' ks fk') := by
      intro d'
      by_cases he : (d'.cur.length == d.cur.length) = true
      · exact Or.inl (fun fk => by simp [he])
      · rcases (ih (k + 1)).app hks d' with hp | ⟨v, hv⟩
        · exact Or.inl (fun fk => by simp [he, hp])
        · exact Or.inr ⟨v, fun fk => by simp [he, hv]⟩
    simp only [loopV]
    split
    · split
      · -- fewest
        rcases hks d with hp | ⟨v, hv⟩
        · rcases hb.app hK d with hp2 | ⟨v2, hv2⟩
          · exact Or.inl (fun fk => by rw [hp]; exact hp2 fk)
          · exact Or.inr ⟨v2, fun fk => by rw [hp]; exact hv2 fk⟩
        · exact Or.inr ⟨v, fun fk => hv _⟩
      · -- greedy
        rcases hb.app hK d with hp2 | ⟨v2, hv2⟩
        · rcases hks d with hp | ⟨v, hv⟩
          · exact Or.inl (fun fk => by rw [hp2]; exact hp fk)
          · exact Or.inr ⟨v, fun fk => by rw [hp2]; exact hv fk⟩
        · exact Or.inr ⟨v2, fun fk => hv2 _⟩
    · exact Or.inl (fun _ => rfl)

theorem inAlts_lin (text : Bytes) : ∀ items : List Atom, LinM (inAlts text items) := by
  intro items
  induction items with
  | nil => intro ks _ d; exact Or.inl (fun _ => by simp [inAlts])
  | cons a rest ih =>
    intro ks hks d
    simp only [inAlts]
    split
    · next d' _ =>
      rcases hks d' with hp | ⟨v, hv⟩
      · rcases ih.app hks d with hp2 | ⟨v2, hv2⟩
        · exact Or.inl (fun fk => by rw [hp]; exact hp2 fk)
        · exact Or.inr ⟨v2, fun fk => by rw [hp]; exact hv2 fk⟩
      · exact Or.inr ⟨v, fun fk => hv _⟩
    · exact ih ks hks d

theorem m_lin (text : Bytes) (lf : Nat) : ∀ e : Expr, LinM (m text lf e) := by
  intro e
  induction e with
  | empty => intro ks hks d; simpa [m] using hks d
  | seq a b iha ihb =>
    intro ks hks d
    simp only [m]
    exact iha (fun d' fk' => m text lf b d' ks fk') (ihb ks hks) d
  | atom a =>
    intro ks hks d
    simp only [m]
    split
    · next d' _ => exact hks d'
    · exact Or.inl (fun _ => rfl)
  | var x =>
    intro ks hks d
    simp only [m]
    split
    · next d' _ => exact hks d'
    · exact Or.inl (fun _ => rfl)
  | loop mn mx fewest name body ih =>
    intro ks hks d
    simp only [m]
    refine repeatM_lin ih mn _ ?_ d
    intro d'
    by_cases he : ((mn : Int) == mx) = true
    · simpa [he] using hks d'
    · simpa [he] using loopV_lin ih _ fewest lf 0 ks hks d'
  | branch l r ihl ihr =>
    intro ks hks d
    simp only [m]
    rcases ihl.app hks d with hp | ⟨v, hv⟩
    · rcases ihr.app hks d with hp2 | ⟨v2, hv2⟩
      · exact Or.inl (fun fk => by rw [hp]; exact hp2 fk)
      · exact Or.inr ⟨v2, fun fk => by rw [hp]; exact hv2 fk⟩
    · exact Or.inr ⟨v, fun fk => hv _⟩
  | dec x body ih =>
    intro ks hks d
    simp only [m]
    refine ih (fun d' fk' => ks (bindD d' x (d'.cur.drop d.cur.length)) fk') ?_ d
    intro d'
    exact hks _
  | sub x body _ => intro ks _ d; exact Or.inl (fun _ => by simp [m])
  | inl neg items =>
    intro ks hks d
    cases neg with
    | false => simp only [m]; exact inAlts_lin text items ks hks d
    | true =>
      simp only [m]
      split
      · exact Or.inl (fun _ => rfl)
      · split
        · exact Or.inl (fun _ => rfl)
        · exact hks _

end Vore.Rx
