import Vore.Lemmas.Typing
import Vore.Lemmas.DocCells
/-!
# Vore.Lemmas.DocEval — the regenerated evaluation table computes the documented values
-/
namespace Vore
open Vore.Tables Vore.Extracted Vore.Spec Vore.Spec.Typing

/-- every cell of the regenerated `executeBinaryExpr` table that the documented table lists
computes the documented value, for all operand values -/
theorem goEval_cells_documented (op : Op) (l r : PVal) (t : PT)
    (h : DocOps.binType l.type r.type op = some t) :
    (DocOps.evalBin op l r).toEvalRes = some (evalFromTable goEval op l r)
    ∧ ∀ v, DocOps.evalBin op l r = .val v → v.type = t := by
  rw [← evalBin_eq_table]; exact evalBin_cells_documented op l r t h

theorem docEval_var (ρ : PEnv) (x : String) : DocOps.eval ρ (.var x) = .val (lookup ρ x) := rfl

theorem evalExpr_var' (ρ : PEnv) (x : String) : evalExpr ρ (.var x) = .val (lookup ρ x) := by
  simp only [evalExpr, lookup]
  cases ρ.get x <;> rfl

/-- for a well-typed expression in an environment of the assumed types, the evaluator computes
the documented value (and that value has the expression's type) -/
theorem evalExpr_documented {Γ : Env} {ρ : PEnv} (hρ : Models ρ Γ) {e : PExpr} {t : PT} (h : HasType Γ e t) :
    (DocOps.eval ρ e).toEvalRes = some (evalExpr ρ e) ∧ ∀ v, DocOps.eval ρ e = .val v → v.type = t := by
  induction h with
  | str s => exact ⟨rfl, fun v hv => by cases hv; rfl⟩
  | num n => exact ⟨rfl, fun v hv => by cases hv; rfl⟩
  | bool b => exact ⟨rfl, fun v hv => by cases hv; rfl⟩
  | var x =>
    rw [docEval_var, evalExpr_var']
    exact ⟨rfl, fun v hv => by cases hv; exact hρ x⟩
  | @un op e t t' _ hu ih =>
    obtain ⟨h1, h2⟩ := ih
    cases hd : DocOps.eval ρ e with
    | val v =>
      rw [hd] at h1
      have hv : evalExpr ρ e = .val v := by
        simp only [DocOps.Res.toEvalRes] at h1; exact (Option.some.inj h1).symm
      have ht := h2 v hd
      subst ht
      obtain ⟨u1, u2⟩ := evalUn_documented op v t' hu
      simp only [DocOps.eval, hd, evalExpr, hv, u1]
      exact ⟨rfl, fun w hw => by cases hw; exact u2⟩
    | divByZero =>
      rw [hd] at h1
      have hv : evalExpr ρ e = .panic "integer divide by zero" := by
        simp only [DocOps.Res.toEvalRes] at h1; exact (Option.some.inj h1).symm
      simp only [DocOps.eval, hd, evalExpr, hv]
      exact ⟨rfl, fun w hw => by cases hw⟩
    | undefined => rw [hd] at h1; simp [DocOps.Res.toEvalRes] at h1
  | @bin op l r tl tr t _ _ hb ihl ihr =>
    obtain ⟨l1, l2⟩ := ihl
    obtain ⟨r1, r2⟩ := ihr
    cases hdl : DocOps.eval ρ l with
    | val lv =>
      rw [hdl] at l1
      have hlv : evalExpr ρ l = .val lv := by
        simp only [DocOps.Res.toEvalRes] at l1; exact (Option.some.inj l1).symm
      have htl := l2 lv hdl
      subst htl
      cases hdr : DocOps.eval ρ r with
      | val rv =>
        rw [hdr] at r1
        have hrv : evalExpr ρ r = .val rv := by
          simp only [DocOps.Res.toEvalRes] at r1; exact (Option.some.inj r1).symm
        have htr := r2 rv hdr
        subst htr
        obtain ⟨c1, c2⟩ := evalBin_cells_documented op lv rv t hb
        simp only [DocOps.eval, hdl, hdr, evalExpr, hlv, hrv]
        exact ⟨c1, c2⟩
      | divByZero =>
        rw [hdr] at r1
        have hrv : evalExpr ρ r = .panic "integer divide by zero" := by
          simp only [DocOps.Res.toEvalRes] at r1; exact (Option.some.inj r1).symm
        simp only [DocOps.eval, hdl, hdr, evalExpr, hlv, hrv]
        exact ⟨rfl, fun w hw => by cases hw⟩
      | undefined => rw [hdr] at r1; simp [DocOps.Res.toEvalRes] at r1
    | divByZero =>
      rw [hdl] at l1
      have hlv : evalExpr ρ l = .panic "integer divide by zero" := by
        simp only [DocOps.Res.toEvalRes] at l1; exact (Option.some.inj l1).symm
      simp only [DocOps.eval, hdl, evalExpr, hlv]
      exact ⟨rfl, fun w hw => by cases hw⟩
    | undefined => rw [hdl] at l1; simp [DocOps.Res.toEvalRes] at l1

end Vore
