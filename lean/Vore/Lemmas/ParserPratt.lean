import Vore.Lemmas.ParserLeaves
/-!
# Vore.Lemmas.ParserPratt — the Pratt parser is total on every token list; the expression-token
collection (`getProcessExpressionTokens`) is `takeWhile`/`dropWhile` on the stripped tokens
-/
namespace Vore.Parser
open Vore Vore.Grammar

def PGood (l : List STok) (lo : Nat) : PRes → Prop
  | .ok _ nx => lo ≤ nx ∧ nx ≤ l.length
  | .error => True
  | .panic => False
  | .fuel => False

theorem pratt_good (l : List STok) : ∀ f,
    (∀ idx minP, idx ≤ l.length → 2 * (l.length + 1 - idx) + 1 ≤ f → PGood l (idx + 1) (prattExpr l f idx minP)) ∧
    (∀ lhs ti minP, ti ≤ l.length → 2 * (l.length + 1 - ti) ≤ f → PGood l ti (prattLoop l f lhs ti minP)) := by
  intro f
  induction f with
  | zero => exact ⟨fun _ _ _ h => by omega, fun _ _ _ _ h => by omega⟩
  | succ f ih =>
    obtain ⟨ihE, ihL⟩ := ih
    constructor
    · intro idx minP hidx hf
      unfold prattExpr
      by_cases hlen : l.length ≤ idx
      · simp [hlen, PGood]
      · simp only [hlen, if_false]
        have hlt : idx < l.length := by omega
        have hget : l[idx]? = some l[idx] := by simp [hlt]
        rw [hget]; simp only
        have hL : ∀ lhs, PGood l (idx + 1) (prattLoop l f lhs (idx + 1) minP) :=
          fun lhs => ihL lhs (idx + 1) minP (by omega) (by omega)
        split
        · exact hL _
        split
        · exact hL _
        split
        · exact hL _
        split
        · exact hL _
        split
        · exact hL _
        split
        · have hE := ihE (idx + 1) 0 (by omega) (by omega)
          cases hr : prattExpr l f (idx + 1) 0 with
          | ok sub nx =>
            simp only [hr, PGood] at hE ⊢
            by_cases hl2 : l.length ≤ nx
            · simp [hl2]
            · simp only [hl2, if_false]
              have hlt2 : nx < l.length := by omega
              have hget2 : l[nx]? = some l[nx] := by simp [hlt2]
              rw [hget2]; simp only
              by_cases hc : l[nx].kind = .closeparen
              · simp only [hc, if_true]
                have := ihL sub (nx + 1) minP (by omega) (by omega)
                cases hr2 : prattLoop l f sub (nx + 1) minP <;> simp_all [PGood] <;> omega
              · simp [hc]
          | error => simp [PGood]
          | panic => simp [hr, PGood] at hE
          | fuel => simp [hr, PGood] at hE
        split
        · have hE := ihE (idx + 1) (prefixPrecedence l[idx].kind) (by omega) (by omega)
          cases hr : prattExpr l f (idx + 1) (prefixPrecedence l[idx].kind) with
          | ok rhs nx =>
            simp only [hr, PGood] at hE ⊢
            have := ihL (.un (opOfTok l[idx].kind) rhs) nx minP (by omega) (by omega)
            cases hr2 : prattLoop l f (.un (opOfTok l[idx].kind) rhs) nx minP <;> simp_all [PGood] <;> omega
          | error => simp [PGood]
          | panic => simp [hr, PGood] at hE
          | fuel => simp [hr, PGood] at hE
        · trivial
    · intro lhs ti minP hti hf
      unfold prattLoop
      by_cases hlen : l.length ≤ ti
      · simp [hlen, PGood]; omega
      · simp only [hlen, if_false]
        have hlt : ti < l.length := by omega
        have hget : l[ti]? = some l[ti] := by simp [hlt]
        rw [hget]; simp only
        split
        · simp [PGood]; omega
        split
        · trivial
        split
        · simp [PGood]; omega
        · have hE := ihE (ti + 1) (infixPrecedence l[ti].kind).2 (by omega) (by omega)
          cases hr : prattExpr l f (ti + 1) (infixPrecedence l[ti].kind).2 with
          | ok rhs nx =>
            simp only [hr, PGood] at hE ⊢
            have := ihL (.bin (opOfTok l[ti].kind) lhs rhs) nx minP (by omega) (by omega)
            cases hr2 : prattLoop l f (.bin (opOfTok l[ti].kind) lhs rhs) nx minP <;> simp_all [PGood] <;> omega
          | error => simp [PGood]
          | panic => simp [hr, PGood] at hE
          | fuel => simp [hr, PGood] at hE

/-- the (fixed) Pratt parser never indexes out of range and terminates, on every token list -/
theorem pratt_total (l : List STok) : pratt l ≠ .panic ∧ pratt l ≠ .fuel := by
  have := (pratt_good l (2 * l.length + 4)).1 0 0 (by omega) (by omega)
  unfold pratt
  cases hr : prattExpr l (2 * l.length + 4) 0 0 <;> simp_all [PGood]


theorem exprEnd_not_ignorable {k : Tok} (h : isProcessExprEnd k = true) : ignorable k = false := by
  cases hi : ignorable k with
  | false => rfl
  | true =>
    simp [ignorable] at hi
    rcases hi with rfl | rfl <;> simp [isProcessExprEnd] at h

def notEnd (t : STok) : Bool := !isProcessExprEnd t.kind

/-- `getProcessExpressionTokens` on a list that contains an end token -/
theorem collectL_spec : ∀ (r : List Token) (i : Nat), (∃ t ∈ r, isProcessExprEnd t.kind = true) →
    (collectL r i).1 = (strip r).takeWhile notEnd ∧
    i ≤ (collectL r i).2 ∧ (collectL r i).2 < i + r.length ∧
    strip (r.drop ((collectL r i).2 - i)) = (strip r).dropWhile notEnd ∧
    (∃ t, r[(collectL r i).2 - i]? = some t ∧ isProcessExprEnd t.kind = true) := by
  intro r
  induction r with
  | nil => intro i h; simp at h
  | cons t rest ih =>
    intro i hex
    unfold collectL
    by_cases he : isProcessExprEnd t.kind = true
    · have hi := exprEnd_not_ignorable he
      simp [he, strip, List.filter, hi, notEnd]
    · have hex' : ∃ t' ∈ rest, isProcessExprEnd t'.kind = true := by
        obtain ⟨t', hm, ht'⟩ := hex
        rcases List.mem_cons.mp hm with rfl | hm
        · exact absurd ht' he
        · exact ⟨t', hm, ht'⟩
      obtain ⟨h1, h2, h3, h4, t', h5, h6⟩ := ih (i + 1) hex'
      have hsub : (collectL rest (i + 1)).2 - i = ((collectL rest (i + 1)).2 - (i + 1)) + 1 := by omega
      by_cases hi : ignorable t.kind = true
      · simp only [he, hi, if_true, Bool.false_eq_true, if_false]
        refine ⟨?_, by omega, by simp; omega, ?_, t', ?_, h6⟩
        · rw [h1]; simp [strip, List.filter, hi]
        · rw [hsub]; simp [strip, List.filter, hi] at h4 ⊢; exact h4
        · rw [hsub]; simpa using h5
      · have hi' : ignorable t.kind = false := by simpa using hi
        simp only [he, hi', Bool.false_eq_true, if_false]
        have hne : notEnd (Token.sig t) = true := by simp [notEnd, he]
        refine ⟨?_, by omega, by simp; omega, ?_, t', ?_, h6⟩
        · rw [h1]; simp [strip, List.filter, hi', hne]
        · rw [hsub]; simp [strip, List.filter, hi', hne] at h4 ⊢; exact h4
        · rw [hsub]; simpa using h5

theorem collect_spec {ts : List Token} (h : EndsEof ts) {i : Nat} (hi : i < ts.length) :
    (getProcessExpressionTokens ts i).1 = (strip (ts.drop i)).takeWhile notEnd ∧
    i ≤ (getProcessExpressionTokens ts i).2 ∧ (getProcessExpressionTokens ts i).2 < ts.length ∧
    strip (ts.drop (getProcessExpressionTokens ts i).2) = (strip (ts.drop i)).dropWhile notEnd ∧
    (∃ t, tk ts (getProcessExpressionTokens ts i).2 = some t ∧ isProcessExprEnd t.kind = true) := by
  unfold getProcessExpressionTokens
  have hex : ∃ t ∈ ts.drop i, isProcessExprEnd t.kind = true := by
    obtain ⟨pre, e, rfl, he, _⟩ := h
    refine ⟨e, ?_, by simp [he, isProcessExprEnd]⟩
    simp at hi
    rw [List.drop_append_of_le_length (by omega)]
    simp
  obtain ⟨h1, h2, h3, h4, t, h5, h6⟩ := collectL_spec (ts.drop i) i hex
  simp at h3
  refine ⟨h1, h2, by omega, ?_, t, ?_, h6⟩
  · rw [← h4, List.drop_drop]; congr 2; omega
  · unfold tk; rw [List.getElem?_drop] at h5; rw [← h5]; congr 1; omega

theorem parseProcessExpression_sim {ts : List Token} (h : EndsEof ts) {i : Nat} (hi : i < ts.length) :
    Sim ts i (parseProcessExpression ts i) (pProcessExpression (strip (ts.drop i))) := by
  obtain ⟨h1, h2, h3, h4, t, h5, h6⟩ := collect_spec h hi
  unfold parseProcessExpression pProcessExpression
  simp only
  have e1 : (fun t : STok => !isProcessExprEnd t.kind) = notEnd := rfl
  rw [e1, ← h1]
  by_cases hemp : (getProcessExpressionTokens ts i).1.isEmpty = true
  · simp only [hemp, if_true]
    simp [withTok, h5, Sim]
  · simp only [hemp, Bool.false_eq_true, if_false]
    have ht := pratt_total (getProcessExpressionTokens ts i).1
    cases hp : pratt (getProcessExpressionTokens ts i).1 with
    | ok e nx => simp only; exact sim_ok h4.symm h2 h3
    | error => exact sim_err
    | panic => exact absurd hp ht.1
    | fuel => exact absurd hp ht.2

end Vore.Parser
