import Vore.Spec.CliDoc
/-!
# Vore.Lemmas.Cli — the flag space is finite: `∀` over it is a Boolean computation (C18)

Core Lean has no `Fintype`.  `allFlags p` / `allScenario p` evaluate `p` on every element
(`&&` over the constructors); `allFlags_iff` turns that into the `∀`.  The theorems of
`Props/C18.lean` evaluate these with `decide +kernel` (kernel reduction only, no axioms
beyond `propext`), i.e. on the WHOLE space: 3 200 flag vectors × 12 scenarios.
-/
namespace Vore.Cli

def allBool (p : Bool → Bool) : Bool := p true && p false
def allModeArg (p : ModeArg → Bool) : Bool := p .absent && p .new && p .nothing && p .overwrite && p .bogus &&
  p .empty && p .lower && p .confirm
def allFileSet (p : FileSet → Bool) : Bool := p .absent && p .one && p .several && p .glob && p .noneMatching
def allProgKind (p : ProgKind → Bool) : Bool := p .find && p .replace && p .failing

def allFlags (p : Flags → Bool) : Bool :=
  allBool fun a => allBool fun b => allFileSet fun c => allBool fun d => allBool fun e => allBool fun f =>
  allBool fun g => allModeArg fun h => allBool fun i => p ⟨a, b, c, d, e, f, g, h, i⟩

def allScenario (p : Scenario → Bool) : Bool :=
  allProgKind fun a => allBool fun b => allBool fun c => p ⟨a, b, c⟩

theorem allBool_iff (p : Bool → Bool) : allBool p = true ↔ ∀ b, p b = true := by
  constructor
  · intro h b; simp only [allBool, Bool.and_eq_true] at h
    cases b
    · exact h.2
    · exact h.1
  · intro h; simp only [allBool, Bool.and_eq_true]; exact ⟨h _, h _⟩

theorem allModeArg_iff (p : ModeArg → Bool) : allModeArg p = true ↔ ∀ x, p x = true := by
  constructor
  · intro h x; simp only [allModeArg, Bool.and_eq_true] at h
    cases x
    · exact h.1.1.1.1.1.1.1
    · exact h.1.1.1.1.1.1.2
    · exact h.1.1.1.1.1.2
    · exact h.1.1.1.1.2
    · exact h.1.1.1.2
    · exact h.1.1.2
    · exact h.1.2
    · exact h.2
  · intro h; simp only [allModeArg, Bool.and_eq_true]; exact ⟨⟨⟨⟨⟨⟨⟨h _, h _⟩, h _⟩, h _⟩, h _⟩, h _⟩, h _⟩, h _⟩

theorem allFileSet_iff (p : FileSet → Bool) : allFileSet p = true ↔ ∀ x, p x = true := by
  constructor
  · intro h x; simp only [allFileSet, Bool.and_eq_true] at h
    cases x
    · exact h.1.1.1.1
    · exact h.1.1.1.2
    · exact h.1.1.2
    · exact h.1.2
    · exact h.2
  · intro h; simp only [allFileSet, Bool.and_eq_true]; exact ⟨⟨⟨⟨h _, h _⟩, h _⟩, h _⟩, h _⟩

theorem allProgKind_iff (p : ProgKind → Bool) : allProgKind p = true ↔ ∀ x, p x = true := by
  constructor
  · intro h x; simp only [allProgKind, Bool.and_eq_true] at h
    cases x
    · exact h.1.1
    · exact h.1.2
    · exact h.2
  · intro h; simp only [allProgKind, Bool.and_eq_true]; exact ⟨⟨h _, h _⟩, h _⟩

theorem allFlags_iff (p : Flags → Bool) : allFlags p = true ↔ ∀ fl, p fl = true := by
  simp only [allFlags, allBool_iff, allFileSet_iff, allModeArg_iff]
  constructor
  · intro h fl; cases fl; apply h
  · intro h a b c d e f g hh i; exact h _

theorem allScenario_iff (p : Scenario → Bool) : allScenario p = true ↔ ∀ sc, p sc = true := by
  simp only [allScenario, allBool_iff, allProgKind_iff]
  constructor
  · intro h sc; cases sc; apply h
  · intro h a b c; exact h _

/-- check `p` on every flag vector and every scenario -/
def allRuns (p : Flags → Scenario → Bool) : Bool := allFlags fun fl => allScenario fun sc => p fl sc

theorem allRuns_iff (p : Flags → Scenario → Bool) : allRuns p = true ↔ ∀ fl sc, p fl sc = true := by
  simp only [allRuns, allFlags_iff, allScenario_iff]

/-! ## the acceptable readings of main.go -/

/-- the readings of main.go under which the documented behaviour is guaranteed: the
documented `-replace-mode` table with default NEW; `OpenFile` creates the file and opens it
for writing; the old content is discarded (by `O_TRUNC`, by `Truncate`, or both) -/
def docEnv (truncOpen truncCall : Bool) : Env :=
  { mAbsent := some .new, mNew := some .new, mNothing := some .nothing, mOverwrite := some .overwrite, mBogus := none,
    mEmpty := some .new, mLower := none, mConfirm := none,
    creates := true, writable := true, truncOpen := truncOpen, truncCall := truncCall }

def docEnvs : List Env := [docEnv true true, docEnv true false, docEnv false true]

theorem writeDoc_docEnv (a b pre : Bool) (f : Fmt) (h : (a || b) = true) :
    writeDoc (docEnv a b) pre f = (.holds f, false) := by
  cases a <;> cases b <;> cases pre <;> simp_all [writeDoc, docEnv]

theorem parse_docEnv (a b : Bool) (m : ModeArg) : (docEnv a b).parse m = docMode m := by
  cases m <;> rfl

/-- how the content gets discarded does not matter -/
theorem run_docEnv (a b : Bool) (h : (a || b) = true) (fl : Flags) (sc : Scenario) :
    run (docEnv a b) fl sc = run (docEnv true true) fl sc := by
  have hr : ∀ ran, report (docEnv a b) fl sc ran = report (docEnv true true) fl sc ran := by
    intro ran
    simp only [report, writeDoc_docEnv a b sc.pre _ h, writeDoc_docEnv true true sc.pre _ rfl]
  simp only [run, parse_docEnv, validate, compileAndRun, hr]

theorem mem_docEnvs (e : Env) (h : e ∈ docEnvs) : ∃ a b, e = docEnv a b ∧ (a || b) = true := by
  simp [docEnvs] at h
  rcases h with h | h | h
  · exact ⟨true, true, h, rfl⟩
  · exact ⟨true, false, h, rfl⟩
  · exact ⟨false, true, h, rfl⟩

end Vore.Cli
