import Vore.Lemmas.LexTables
/-!
# Vore.Lemmas.LexTotal — the lexer never panics and always ends its token list with one EOF
-/
namespace Vore.Lex
open Vore Vore.ExtractedLex

theorem read_pos_ge (r : Reader) : r.pos ≤ r.read.2.pos := by
  obtain ⟨rest, pos, last⟩ := r
  cases rest <;> simp [Reader.read]

theorem read_pos_succ (r : Reader) (h : r.read.1 ≠ 0) : r.read.2.pos = r.pos + 1 := by
  obtain ⟨rest, pos, last⟩ := r
  cases rest with
  | nil => simp [Reader.read] at h
  | cons c cs => simp [Reader.read]

theorem unreadBreak_done (s : St) (buf : Bytes) (r : Reader) (h : 1 ≤ r.pos) :
    ∃ r', unreadBreak s buf r = .done s buf r' := by
  unfold unreadBreak Reader.unreadLast
  have : r.pos ≠ 0 := by omega
  simp [this]

theorem readEscape_ok (c : UInt8) (r : Reader) : ∃ v r', readEscape c r = some (v, r') ∧ r.pos ≤ r'.pos := by
  obtain ⟨rest, pos, last⟩ := r
  unfold readEscape
  split
  · match rest with
    | [] => exact ⟨getEscapedRune c, ⟨[], pos, none⟩, by simp [Reader.peek2], Nat.le_refl _⟩
    | [x] => exact ⟨getEscapedRune c, ⟨[x], pos, none⟩, by simp [Reader.peek2], Nat.le_refl _⟩
    | x :: y :: zs =>
      simp only [Reader.peek2, List.take_succ_cons, List.take_zero, Reader.read]
      split
      · rename_i hh
        have := hexToAscii_isSome x y hh.1 hh.2
        cases hv : hexToAscii x y with
        | none => simp [hv] at this
        | some v => exact ⟨v, ⟨zs, pos + 1 + 1, some y⟩, by simp, by simp only; omega⟩
      · exact ⟨_, _, rfl, Nat.le_refl _⟩
  · exact ⟨_, _, rfl, Nat.le_refl _⟩

theorem regexpBody_ok (buf : Bytes) (pos : Nat) (rest : Bytes) :
    ∃ s' buf' r', regexpBody buf pos rest = .done s' buf' r' ∧ s' ≠ .start := by
  induction rest generalizing buf pos with
  | nil => exact ⟨_, _, _, rfl, by simp⟩
  | cons c cs ih =>
    simp only [regexpBody]
    split
    · exact ⟨_, _, _, rfl, by simp⟩
    · split
      · exact ⟨_, _, _, rfl, by simp⟩
      · exact ih _ _

theorem regexpBranch_ok (buf : Bytes) (r : Reader) (h : 1 ≤ r.pos) :
    ∃ s' buf' r', regexpBranch buf r = .done s' buf' r' ∧ s' ≠ .start := by
  unfold regexpBranch
  simp only
  split
  · have hp : 1 ≤ r.read.2.pos := Nat.le_trans h (read_pos_ge r)
    obtain ⟨r', hr⟩ := unreadBreak_done .error buf _ hp
    exact ⟨_, _, _, hr, by simp⟩
  · exact regexpBody_ok _ _ _

/-- **the loop never panics and never ends in SSTART** (entered in SSTART, or later with at least
one position on the stack above the initial one) -/
theorem loop_ok (s : St) (buf : Bytes) (r : Reader) (hpos : s = .start ∨ 1 ≤ r.pos) :
    ∃ s' buf' r', loop s buf r = .done s' buf' r' ∧ s' ≠ .start := by
  fun_induction loop s buf r with
  | case1 buf r h0 => exact ⟨_, _, _, rfl, by simp⟩
  | case2 s buf r h0 hs =>
    have hp : 1 ≤ r.read.2.pos := Nat.le_trans (by simpa [hs] using hpos) (read_pos_ge r)
    obtain ⟨r', hr⟩ := unreadBreak_done s buf _ hp
    exact ⟨_, _, _, hr, hs⟩
  | case3 s buf r h0 a w hstep ih =>
    apply ih
    right; rw [read_pos_succ r h0]; omega
  | case4 s buf r h0 a w hstep =>
    have := stepOk_all s r.read.1
    simp only [stepOk, hstep] at this
    exact ⟨_, _, _, rfl, by simpa using this⟩
  | case5 s buf r h0 a hstep =>
    have := stepOk_all s r.read.1
    simp only [stepOk, hstep] at this
    have hp : 1 ≤ r.read.2.pos := by rw [read_pos_succ r h0]; omega
    obtain ⟨r', hr⟩ := unreadBreak_done a buf _ hp
    exact ⟨_, _, _, hr, by simp at this; exact this.2⟩
  | case6 s buf r h0 a hstep he =>
    obtain ⟨v, r', hv, _⟩ := readEscape_ok r.read.1 r.read.2
    rw [hv] at he; simp at he
  | case7 s buf r h0 a hstep v r2 he ih =>
    apply ih
    right
    obtain ⟨v', r', hv, hle⟩ := readEscape_ok r.read.1 r.read.2
    rw [hv] at he; simp at he
    rw [← he.2]
    have := read_pos_succ r h0
    omega
  | case8 s buf r h0 hstep =>
    apply regexpBranch_ok
    rw [read_pos_succ r h0]; omega

/-- `getNextToken` returns a token or a lex error -/
theorem getNextToken_ok (r : Reader) :
    (∃ t r', getNextToken r = .tok t r') ∨ (∃ e a b, getNextToken r = .err e a b) := by
  obtain ⟨s', buf', r', hl, hs⟩ := loop_ok .start [] r (Or.inl rfl)
  unfold getNextToken
  rw [hl]
  simp only
  have := finalAct_ne_panic s' buf' hs
  cases hf : finalAct s' buf' with
  | panic => exact absurd hf this
  | tok k => exact Or.inl ⟨_, _, rfl⟩
  | err e => exact Or.inr ⟨_, _, _, rfl⟩

/-- `ts = pre ++ [eof]` with no EOF inside `pre` -/
def EndsEof (ts : List Token) : Prop :=
  ∃ pre e, ts = pre ++ [e] ∧ e.kind = .eof ∧ ∀ t ∈ pre, t.kind ≠ .eof

/-- **`getTokens` is total**: tokens ending in exactly one EOF (at most one per input byte, plus the
EOF), or a lex error; never a panic -/
theorem getTokens_ok (r : Reader) :
    (∃ ts, getTokens r = .tokens ts ∧ EndsEof ts ∧ ts.length ≤ r.rest.length + 1) ∨
    (∃ e a b, getTokens r = .lexError e a b) := by
  fun_induction getTokens r with
  | case1 r m h =>
    rcases getNextToken_ok r with ⟨t, r', ht⟩ | ⟨e, a, b, he⟩
    · rw [ht] at h; simp at h
    · rw [he] at h; simp at h
  | case2 r e a b h => exact Or.inr ⟨e, a, b, rfl⟩
  | case3 r t r' h hk =>
    exact Or.inl ⟨[t], rfl, ⟨[], t, rfl, hk, by simp⟩, by simp⟩
  | case4 r t r' h hk ih =>
    have hlt := getNextToken_progress r t r' h hk
    rcases ih with ⟨ts, hts, ⟨pre, e, hpre, he, hno⟩, hlen⟩ | ⟨e, a, b, he⟩
    · refine Or.inl ⟨t :: ts, by rw [hts]; rfl, ⟨t :: pre, e, by rw [hpre]; rfl, he, ?_⟩, ?_⟩
      · intro x hx
        rcases List.mem_cons.mp hx with rfl | hx
        · exact hk
        · exact hno x hx
      · simp only [List.length_cons]; omega
    · exact Or.inr ⟨e, a, b, by rw [he]; rfl⟩

end Vore.Lex
