import Vore.Model.LexStep
/-!
# Vore.Lemmas.LexStepFacts — what the chain does in each token state, character class by class

Each fact is checked by evaluating `step` on all 256 byte values (no dependence on the extracted tables).
-/
namespace Vore.Lex
open Vore

/-- letter or digit: what continues an identifier -/
def isAlnum (c : UInt8) : Prop := isDigit c ∨ isLetter c
instance (c : UInt8) : Decidable (isAlnum c) := by unfold isAlnum; infer_instance

section
set_option maxRecDepth 100000

theorem step_id_cont : ∀ c : UInt8, isAlnum c → step .identifier c = .next .identifier true := by
  apply all_u8; decide
theorem step_id_stop : ∀ c : UInt8, c ≠ 0 → ¬ isAlnum c → step .identifier c = .unreadBrk .identifier := by
  apply all_u8; decide
theorem step_num_cont : ∀ c : UInt8, isDigit c → step .number c = .next .number true := by
  apply all_u8; decide
theorem step_num_stop : ∀ c : UInt8, c ≠ 0 → ¬ isDigit c → step .number c = .unreadBrk .number := by
  apply all_u8; decide
theorem step_ws_cont : ∀ c : UInt8, isSpace c → step .whitespace c = .next .whitespace true := by
  apply all_u8; decide
theorem step_ws_stop : ∀ c : UInt8, c ≠ 0 → ¬ isSpace c → step .whitespace c = .unreadBrk .whitespace := by
  apply all_u8; decide
theorem step_comment_cont : ∀ c : UInt8, c ≠ 10 → step .comment c = .next .comment true := by
  apply all_u8; decide
theorem step_start_letter : ∀ c : UInt8, isLetter c → step .start c = .next .identifier true := by
  apply all_u8; decide
theorem step_start_digit : ∀ c : UInt8, isDigit c → step .start c = .next .number true := by
  apply all_u8; decide
theorem step_start_space : ∀ c : UInt8, isSpace c → step .start c = .next .whitespace true := by
  apply all_u8; decide
theorem step_equal1_stop : ∀ c : UInt8, c ≠ 0 → c ≠ 61 → step .equal1 c = .unreadBrk .equal1 := by
  apply all_u8; decide
theorem step_opstart_stop : ∀ c : UInt8, c ≠ 0 → c ≠ 61 → step .operatorStart c = .unreadBrk .operatorStart := by
  apply all_u8; decide
theorem step_dash_stop : ∀ c : UInt8, c ≠ 0 → c ≠ 45 → step .dash c = .unreadBrk .dash := by
  apply all_u8; decide
theorem step_commentStart_other : ∀ c : UInt8, c ≠ 40 → c ≠ 10 → step .commentStart c = .next .comment true := by
  apply all_u8; decide
theorem step_bc : ∀ c : UInt8, step .blockComment c = .next (if c = 41 then .blockCommentStartEnd else .blockComment) true := by
  apply all_u8; decide
theorem step_bcse : ∀ c : UInt8, step .blockCommentStartEnd c =
    .next (if c = 45 then .blockCommentEndEnd else if c = 41 then .blockCommentStartEnd else .blockComment) true := by
  apply all_u8; decide
theorem step_bcee : ∀ c : UInt8, c ≠ 45 → step .blockCommentEndEnd c =
    .next (if c = 41 then .blockCommentStartEnd else .blockComment) true := by
  apply all_u8; decide

end

theorem step_comment_nl : step .comment 10 = .unreadBrk .comment := by decide
theorem step_commentStart_nl : step .commentStart 10 = .unreadBrk .comment := by decide
theorem step_commentStart_paren : step .commentStart 40 = .next .blockComment true := by decide
theorem step_bcee_dash : step .blockCommentEndEnd 45 = .brk .blockCommentFinal true := by decide
theorem step_start_dash : step .start 45 = .next .dash true := by decide
theorem step_dash_dash : step .dash 45 = .next .commentStart true := by decide
theorem step_start_eq : step .start 61 = .next .equal1 true := by decide
theorem step_equal1_eq : step .equal1 61 = .brk .dequal true := by decide
theorem step_start_excl : step .start 33 = .next .excl true := by decide
theorem step_excl_eq : step .excl 61 = .brk .nequal true := by decide
theorem step_start_colon : step .start 58 = .next .colon true := by decide
theorem step_colon_eq : step .colon 61 = .brk .coloneq true := by decide
theorem step_start_lt : step .start 60 = .next .operatorStart true := by decide
theorem step_start_gt : step .start 62 = .next .operatorStart true := by decide
theorem step_opstart_eq : step .operatorStart 61 = .brk .operator true := by decide
theorem step_start_lparen : step .start 40 = .brk .openparen true := by decide
theorem step_start_rparen : step .start 41 = .brk .closeparen true := by decide
theorem step_start_lcurly : step .start 123 = .brk .opencurly true := by decide
theorem step_start_rcurly : step .start 125 = .brk .closecurly true := by decide
theorem step_start_comma : step .start 44 = .brk .comma true := by decide
theorem step_start_plus : step .start 43 = .brk .operator true := by decide
theorem step_start_star : step .start 42 = .brk .operator true := by decide
theorem step_start_slash : step .start 47 = .brk .operator true := by decide
theorem step_start_percent : step .start 37 = .brk .operator true := by decide
theorem step_start_at : step .start 64 = .regexp := by decide

/-! case-insensitivity of the character classes -/
section
set_option maxRecDepth 100000
theorem isLetter_lower : ∀ c : UInt8, isLetter (asciiLower c) ↔ isLetter c := by apply all_u8; decide
theorem isDigit_lower : ∀ c : UInt8, isDigit (asciiLower c) ↔ isDigit c := by apply all_u8; decide
end

end Vore.Lex
