import Vore.Spec.ParserGrammar
/-!
# Vore.Lemmas.GrammarMono — the grammar-level parser does not depend on its fuel once it suffices

`g ⊑ g'` : `g` ran out of fuel, or `g = g'`.  Every grammar function is monotone in its fuel
argument(s) for this order; hence two runs that both finish agree (`pCmds_det`).
-/
namespace Vore.Grammar
open Vore Vore.Parser

def Le {α : Type} (g g' : GR α) : Prop := g = .fuel ∨ g = g'

theorem le_refl {α : Type} (g : GR α) : Le g g := Or.inr rfl
theorem le_fuel {α : Type} (g : GR α) : Le .fuel g := Or.inl rfl

theorem le_bind {α β : Type} {g g' : GR α} {K K' : α → List STok → GR β}
    (h : Le g g') (hk : ∀ v r, Le (K v r) (K' v r)) : Le (g.bind K) (g'.bind K') := by
  rcases h with rfl | rfl
  · exact Or.inl rfl
  · cases g with
    | ok v r => exact hk v r
    | err => exact Or.inr rfl
    | fuel => exact Or.inl rfl

theorem le_next {β : Type} {l : List STok} {K K' : STok → List STok → GR β}
    (hk : ∀ t r, Le (K t r) (K' t r)) : Le (next l K) (next l K') := by
  cases l with
  | nil => exact Or.inr rfl
  | cons t r => exact hk t r

theorem le_gNumber {β : Type} {t : STok} {K K' : Int → GR β}
    (hk : ∀ v, Le (K v) (K' v)) : Le (gNumber t K) (gNumber t K') := by
  unfold gNumber
  split
  · split
    · exact Or.inr rfl
    · exact hk _
  · exact Or.inr rfl

theorem le_ite {α : Type} {c : Prop} [Decidable c] {a a' b b' : GR α}
    (h1 : c → Le a a') (h2 : ¬c → Le b b') : Le (if c then a else b) (if c then a' else b') := by
  by_cases hc : c
  · simpa [hc] using h1 hc
  · simpa [hc] using h2 hc

theorem le_of_eq_ok {α : Type} {g g' : GR α} (h : Le g g') (hne : g ≠ .fuel) : g = g' := by
  rcases h with h | h
  · exact absurd h hne
  · exact h

theorem pInRest_mono : ∀ (n n' : Nat), n ≤ n' → ∀ l, Le (pInRest n l) (pInRest n' l) := by
  intro n
  induction n with
  | zero => intro n' _ l; exact Or.inl rfl
  | succ n ih =>
    intro n' hn l
    obtain ⟨m, rfl⟩ : ∃ m, n' = m + 1 := ⟨n' - 1, by omega⟩
    have ih' := ih m (by omega)
    rw [pInRest, pInRest]
    repeat' (first | exact le_refl _ | apply ih' | apply le_bind | apply le_next | apply le_ite | intro _)

theorem pIn_mono {n n' : Nat} (hn : n ≤ n') (neg : Bool) (l : List STok) : Le (pIn n neg l) (pIn n' neg l) := by
  have := pInRest_mono n n' hn
  unfold pIn
  repeat' (first | exact le_refl _ | apply this | apply le_bind | apply le_next | apply le_ite | intro _)

theorem pAtomList_mono : ∀ (n n' : Nat), n ≤ n' → ∀ l, Le (pAtomList n l) (pAtomList n' l) := by
  intro n
  induction n with
  | zero => intro n' _ l; exact Or.inl rfl
  | succ n ih =>
    intro n' hn l
    obtain ⟨m, rfl⟩ : ∃ m, n' = m + 1 := ⟨n' - 1, by omega⟩
    have ih' := ih m (by omega)
    rw [pAtomList, pAtomList]
    repeat' (first | exact le_refl _ | apply ih' | apply le_bind | apply le_next | apply le_ite | intro _)

variable {rx : Bytes → RegexOutcome}

structure MonoE (rx : Bytes → RegexOutcome) (f f' : Nat) : Prop where
  expr : ∀ l, Le (pExpression rx f l) (pExpression rx f' l)
  at_ : ∀ l, Le (pAt rx f l) (pAt rx f' l)
  between : ∀ l, Le (pBetween rx f l) (pBetween rx f' l)
  exactly : ∀ l, Le (pExactly rx f l) (pExactly rx f' l)
  maybe : ∀ l, Le (pMaybe rx f l) (pMaybe rx f' l)
  notE : ∀ l, Le (pNotExpression rx f l) (pNotExpression rx f' l)
  lit : ∀ l, Le (pLiteral rx f l) (pLiteral rx f' l)
  dec : ∀ l, Le (pPrimaryOrDec rx f l) (pPrimaryOrDec rx f' l)
  oror : ∀ l, Le (pPrimaryOrOr rx f l) (pPrimaryOrOr rx f' l)
  list : ∀ stop l, Le (pExprList rx stop f l) (pExprList rx stop f' l)
  paren : ∀ l, Le (pSubExpression rx f l) (pSubExpression rx f' l)
  curly : ∀ l, Le (pSubroutine rx f l) (pSubroutine rx f' l)

theorem expr_mono : ∀ (f f' : Nat), f ≤ f' → MonoE rx f f' := by
  intro f
  induction f with
  | zero =>
    intro f' _
    constructor <;> intros <;> exact Or.inl (by first | rw [pExpression] | rw [pAt] | rw [pBetween] | rw [pExactly] | rw [pMaybe] | rw [pNotExpression] | rw [pLiteral] | rw [pPrimaryOrDec] | rw [pPrimaryOrOr] | rw [pExprList] | rw [pSubExpression] | rw [pSubroutine])
  | succ f ih =>
    intro f' hf
    obtain ⟨m, rfl⟩ : ∃ m, f' = m + 1 := ⟨f' - 1, by omega⟩
    have hm : f ≤ m := by omega
    have I := ih m hm
    have hIn := fun neg l => pIn_mono hm neg l
    constructor
    · intro l; rw [pExpression, pExpression]
      repeat' (first | exact le_refl _ | apply I.at_ | apply I.between | apply I.exactly | apply I.maybe | apply hIn | apply I.curly | apply I.notE | apply I.dec | apply le_next | apply le_ite | intro _)
    · intro l; rw [pAt, pAt]
      repeat' (first | exact le_refl _ | apply I.expr | apply le_bind | apply le_next | apply le_gNumber | apply le_ite | intro _)
    · intro l; rw [pBetween, pBetween]
      repeat' (first | exact le_refl _ | apply I.expr | apply le_bind | apply le_next | apply le_gNumber | apply le_ite | intro _)
    · intro l; rw [pExactly, pExactly]
      repeat' (first | exact le_refl _ | apply I.expr | apply le_bind | apply le_next | apply le_gNumber | apply le_ite | intro _)
    · intro l; rw [pMaybe, pMaybe]
      repeat' (first | exact le_refl _ | apply I.expr | apply le_bind | apply le_next | apply le_gNumber | apply le_ite | intro _)
    · intro l; rw [pNotExpression, pNotExpression]
      repeat' (first | exact le_refl _ | apply hIn | apply I.dec | apply le_bind | apply le_next | apply le_ite | intro _)
    · intro l; rw [pLiteral, pLiteral]
      repeat' (first | exact le_refl _ | apply I.paren | apply le_bind | apply le_next | apply le_ite | intro _)
    · intro l; rw [pPrimaryOrDec, pPrimaryOrDec]
      repeat' (first | exact le_refl _ | apply I.lit | apply I.oror | apply le_bind | apply le_next | apply le_ite | intro _)
    · intro l; rw [pPrimaryOrOr, pPrimaryOrOr]
      repeat' (first | exact le_refl _ | apply I.lit | apply I.oror | apply le_bind | apply le_next | apply le_ite | intro _)
    · intro stop l; rw [pExprList, pExprList]
      repeat' (first | exact le_refl _ | apply I.expr | apply I.list | apply le_bind | apply le_next | apply le_ite | intro _)
    · intro l; rw [pSubExpression, pSubExpression]
      repeat' (first | exact le_refl _ | apply I.list | apply le_bind | apply le_next | apply le_ite | intro _)
    · intro l; rw [pSubroutine, pSubroutine]
      repeat' (first | exact le_refl _ | apply I.list | apply le_bind | apply le_next | apply le_ite | intro _)


structure MonoS (f f' : Nat) : Prop where
  stmts : ∀ l, Le (pStatements f l) (pStatements f' l)
  stmt : ∀ l, Le (pStatement f l) (pStatement f' l)
  pif : ∀ l, Le (pProcessIf f l) (pProcessIf f' l)
  ploop : ∀ l, Le (pProcessLoop f l) (pProcessLoop f' l)

theorem stmt_mono : ∀ (f f' : Nat), f ≤ f' → MonoS f f' := by
  intro f
  induction f with
  | zero =>
    intro f' _
    constructor <;> intros <;> exact Or.inl (by first | rw [pStatements] | rw [pStatement] | rw [pProcessIf] | rw [pProcessLoop])
  | succ f ih =>
    intro f' hf
    obtain ⟨m, rfl⟩ : ∃ m, f' = m + 1 := ⟨f' - 1, by omega⟩
    have I := ih m (by omega)
    constructor
    · intro l; rw [pStatements, pStatements]
      apply le_bind (I.stmt l); intro os r
      cases os with
      | none => exact le_refl _
      | some s => exact le_bind (I.stmts r) (fun _ _ => le_refl _)
    · intro l; rw [pStatement, pStatement]
      repeat' (first | exact le_refl _ | apply I.pif | apply I.ploop | apply le_bind | apply le_next | apply le_ite | intro _)
    · intro l; rw [pProcessIf, pProcessIf]
      repeat' (first | exact le_refl _ | apply I.stmts | apply le_bind | apply le_next | apply le_ite | intro _)
    · intro l; rw [pProcessLoop, pProcessLoop]
      repeat' (first | exact le_refl _ | apply I.stmts | apply le_bind | apply le_next | apply le_ite | intro _)

section cmds
variable {F F' : Nat} (hF : F ≤ F')
include hF

theorem pFind_mono (l : List STok) : Le (pFind rx F l) (pFind rx F' l) := by
  have I := (expr_mono (rx := rx) F F' hF).list
  unfold pFind
  repeat' (first | exact le_refl _ | apply I | apply le_bind | apply le_next | apply le_ite | intro _)

theorem pReplace_mono (l : List STok) : Le (pReplace rx F l) (pReplace rx F' l) := by
  have I := (expr_mono (rx := rx) F F' hF).list
  have J := pAtomList_mono F F' hF
  unfold pReplace
  repeat' (first | exact le_refl _ | apply I | apply J | apply le_bind | apply le_next | apply le_ite | intro _)

theorem pSetTransform_mono (l : List STok) : Le (pSetTransform F l) (pSetTransform F' l) := by
  have I := (stmt_mono F F' hF).stmts
  unfold pSetTransform
  repeat' (first | exact le_refl _ | apply I | apply le_bind | apply le_next | apply le_ite | intro _)

theorem pSetPattern_mono (l : List STok) : Le (pSetPattern rx F l) (pSetPattern rx F' l) := by
  have I := (expr_mono (rx := rx) F F' hF).list
  have J := (stmt_mono F F' hF).stmts
  unfold pSetPattern
  repeat' (first | exact le_refl _ | apply I | apply J | apply le_bind | apply le_next | apply le_ite | intro _)

structure MonoC (rx : Bytes → RegexOutcome) (F F' f f' : Nat) : Prop where
  cmd : ∀ l, Le (pCommand rx F f l) (pCommand rx F' f' l)
  set : ∀ l, Le (pSet rx F f l) (pSet rx F' f' l)
  mat : ∀ l, Le (pSetMatches rx F f l) (pSetMatches rx F' f' l)

theorem cmd_mono : ∀ (f f' : Nat), f ≤ f' → MonoC rx F F' f f' := by
  intro f
  induction f with
  | zero =>
    intro f' _
    constructor <;> intros <;> exact Or.inl (by first | rw [pCommand] | rw [pSet] | rw [pSetMatches])
  | succ f ih =>
    intro f' hf
    obtain ⟨m, rfl⟩ : ∃ m, f' = m + 1 := ⟨f' - 1, by omega⟩
    have I := ih m (by omega)
    have h1 := pFind_mono (rx := rx) hF
    have h2 := pReplace_mono (rx := rx) hF
    have h3 := pSetTransform_mono hF
    have h4 := pSetPattern_mono (rx := rx) hF
    constructor
    · intro l; rw [pCommand, pCommand]
      repeat' (first | exact le_refl _ | apply h1 | apply h2 | apply I.set | apply le_bind | apply le_next | apply le_ite | intro _)
    · intro l; rw [pSet, pSet]
      repeat' (first | exact le_refl _ | apply h3 | apply h4 | apply I.mat | apply le_bind | apply le_next | apply le_ite | intro _)
    · intro l; rw [pSetMatches, pSetMatches]
      apply le_next; intro _ r
      apply le_bind (I.cmd r); intro oc r1
      exact le_refl _

theorem pCmds_mono : ∀ (n n' : Nat), n ≤ n' → ∀ l, Le (pCmds rx F n l) (pCmds rx F' n' l) := by
  intro n
  induction n with
  | zero => intro n' _ l; exact Or.inl rfl
  | succ n ih =>
    intro n' hn l
    obtain ⟨m, rfl⟩ : ∃ m, n' = m + 1 := ⟨n' - 1, by omega⟩
    have ih' := ih m (by omega)
    have hc := (cmd_mono (rx := rx) hF F F' hF).cmd
    rw [pCmds, pCmds]
    repeat' (first | exact le_refl _ | apply ih' | apply hc | apply le_bind | apply le_next | apply le_ite | intro _)

end cmds

/-- a grammar run that finished gives the same result with any larger fuel -/
theorem pCmds_det {F F' n n' : Nat} (hF : F ≤ F') (hn : n ≤ n') {l : List STok}
    (hne : pCmds rx F n l ≠ .fuel) : pCmds rx F' n' l = pCmds rx F n l :=
  (le_of_eq_ok (pCmds_mono hF n n' hn l) hne).symm

end Vore.Grammar
