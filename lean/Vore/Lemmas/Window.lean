import Vore.Spec.Window
import Vore.Lemmas.Scan
/-! C04: the scan under any amount tuple returns the window of the scan under `all` -/
namespace Vore
open Vore.Spec

def amtAll : Amount := ⟨true, 0, 0, 0⟩

theorem limitLast_snoc (n : Nat) (Y : List Match) (m : Match) :
    limitLast n (Y ++ [m]) = limitLast n (limitLast n Y ++ [m]) := by
  unfold limitLast
  split
  · next hn =>
    simp at hn
    by_cases hle : n ≤ Y.length
    · have h1 : (Y.drop (Y.length - n)).length = n := by simp; omega
      rw [List.drop_append_of_le_length (by simp; omega)]
      simp only [List.length_append, List.length_cons, List.length_nil, h1]
      rw [List.drop_append_of_le_length (by simp; omega), List.drop_drop]
      congr 2
      simp; omega
    · have h0 : Y.length - n = 0 := by omega
      simp only [h0, List.drop_zero, List.length_append, List.length_cons, List.length_nil]
  · rfl

theorem window_eq_of_full {a : Amount} {X A : List Match} (hX : ∃ more, A = X ++ more)
    (hfull : a.all = false ∧ a.skip + a.take ≤ X.length) : window a A = window a X := by
  obtain ⟨more, rfl⟩ := hX
  unfold window
  simp only [hfull.1, Bool.false_eq_true, if_false]
  rw [List.take_append_of_le_length hfull.2]

theorem window_snoc {a : Amount} {X : List Match} (m : Match)
    (hopen : a.all = true ∨ X.length < a.skip + a.take) :
    window a (X ++ [m]) =
      if X.length ≥ a.skip then limitLast a.last (window a X ++ [m]) else window a X := by
  have hbase : ∀ Y : List Match, Y.length ≤ X.length + 1 →
      (if a.all then Y else Y.take (a.skip + a.take)) = Y ∨ a.all = true := by
    intro Y hY
    rcases hopen with h | h
    · exact Or.inr h
    · left; split
      · rfl
      · exact List.take_of_length_le (by omega)
  have hb1 : (if a.all then X ++ [m] else (X ++ [m]).take (a.skip + a.take)) = X ++ [m] := by
    rcases hbase (X ++ [m]) (by simp) with h | h
    · exact h
    · simp [h]
  have hb2 : (if a.all then X else X.take (a.skip + a.take)) = X := by
    rcases hbase X (by omega) with h | h
    · exact h
    · simp [h]
  unfold window
  rw [hb1, hb2]
  split
  · next hge =>
    rw [List.drop_append_of_le_length hge]
    exact limitLast_snoc _ _ _
  · next hlt =>
    have h1 : (X ++ [m]).drop a.skip = [] := by apply List.drop_eq_nil_of_le; simp; omega
    have h2 : X.drop a.skip = [] := by apply List.drop_eq_nil_of_le; omega
    rw [h1, h2]

theorem limitLast_zero (l : List Match) : limitLast 0 l = l := by simp [limitLast]

theorem window_nil (a : Amount) : window a [] = [] := by
  unfold window limitLast; split <;> simp

theorem scan_window (pf vf : Nat) (prog : List Instr) (a : Amount) (text : Bytes) :
    ∀ f accA mn pos line col A, mn = accA.length →
      scan pf vf prog amtAll text f accA mn pos line col = some (.ok A) →
      (∃ more, A = accA ++ more) ∧
      scan pf vf prog a text f (window a accA) mn pos line col = some (.ok (window a A)) := by
  intro f
  induction f with
  | zero => intro accA mn pos line col A _ h; simp [scan] at h
  | succ f ih =>
    intro accA mn pos line col A hmn h
    rw [scan] at h ⊢
    simp only [amtAll, Bool.true_or, Bool.not_true, Bool.false_eq_true, if_false, Nat.zero_le, ge_iff_le,
      if_true, limitLast_zero] at h
    cases hcls : classify (run pf prog text vf (initState pos line col)) with
    | diverge => simp [hcls] at h
    | panic t => simp [hcls] at h
    | pfuel => simp [hcls] at h
    | hit c =>
      simp only [hcls] at h ⊢
      have hopenOrStop : (a.all = true ∨ mn < a.skip + a.take) ∨ (a.all = false ∧ a.skip + a.take ≤ mn) := by
        cases a.all <;> simp <;> omega
      -- the all-mode continuation
      have hrest : (∃ more, A = (accA ++ [makeMatch (mn + 1) pos line col c]) ++ more) ∧
          (¬ (c.pos ≥ text.length) → scan pf vf prog a text f (window a (accA ++ [makeMatch (mn + 1) pos line col c]))
            (mn + 1) c.pos c.line c.col = some (.ok (window a A))) ∧
          ((c.pos ≥ text.length) → A = accA ++ [makeMatch (mn + 1) pos line col c]) := by
        split at h
        · next hend =>
          simp only [Option.some.injEq, Res.ok.injEq] at h
          exact ⟨⟨[], by simp [h]⟩, fun hn => absurd hend hn, fun _ => h.symm⟩
        · next hend =>
          have := ih _ _ _ _ _ A (by simp [hmn]) h
          exact ⟨this.1, fun _ => this.2, fun hn => absurd hn hend⟩
      obtain ⟨⟨more, hmore⟩, hcont, hstop⟩ := hrest
      have hpre : ∃ more, A = accA ++ more := ⟨makeMatch (mn + 1) pos line col c :: more, by rw [hmore]; simp⟩
      refine ⟨hpre, ?_⟩
      rcases hopenOrStop with hopen | hfull
      · have hgo : (!(a.all || decide (mn < a.skip + a.take))) = false := by
          rcases hopen with h1 | h1 <;> simp [h1]
        simp only [hgo, Bool.false_eq_true, if_false]
        have hw := window_snoc (a := a) (X := accA) (makeMatch (mn + 1) pos line col c) (by
          rcases hopen with h1 | h1
          · exact Or.inl h1
          · exact Or.inr (by omega))
        rw [← hmn] at hw
        rw [← hw]
        by_cases hend : c.pos ≥ text.length
        · simp only [hend, if_true]
          rw [hstop hend]
        · simp only [hend, if_false]
          exact hcont hend
      · have hgo : (!(a.all || decide (mn < a.skip + a.take))) = true := by
          simp [hfull.1]; omega
        simp only [hgo, if_true]
        rw [window_eq_of_full hpre ⟨hfull.1, by omega⟩]
    | miss =>
      simp only [hcls] at h ⊢
      have hopenOrStop : (a.all = true ∨ mn < a.skip + a.take) ∨ (a.all = false ∧ a.skip + a.take ≤ mn) := by
        cases a.all <;> simp <;> omega
      cases hb : readAt text pos 1 with
      | nil => simp [hb] at h
      | cons b rest =>
        cases rest with
        | cons b2 r2 => simp [hb] at h
        | nil =>
          simp only [hb] at h ⊢
          have hrest : (∃ more, A = accA ++ more) ∧
              (¬ (pos + 1 ≥ text.length) → scan pf vf prog a text f (window a accA) mn (pos + 1)
                (if b = nl then (line + 1, 1) else (line, col + 1)).1
                (if b = nl then (line + 1, 1) else (line, col + 1)).2 = some (.ok (window a A))) ∧
              ((pos + 1 ≥ text.length) → A = accA) := by
            split at h
            · next hend =>
              simp only [Option.some.injEq, Res.ok.injEq] at h
              exact ⟨⟨[], by simp [h]⟩, fun hn => absurd hend hn, fun _ => h.symm⟩
            · next hend =>
              have := ih _ _ _ _ _ A hmn h
              exact ⟨this.1, fun _ => this.2, fun hn => absurd hn hend⟩
          obtain ⟨hpre, hcont, hstop⟩ := hrest
          refine ⟨hpre, ?_⟩
          rcases hopenOrStop with hopen | hfull
          · have hgo : (!(a.all || decide (mn < a.skip + a.take))) = false := by
              rcases hopen with h1 | h1 <;> simp [h1]
            simp only [hgo, Bool.false_eq_true, if_false]
            by_cases hend : pos + 1 ≥ text.length
            · simp only [hend, if_true]
              rw [hstop hend]
            · simp only [hend, if_false]
              exact hcont hend
          · have hgo : (!(a.all || decide (mn < a.skip + a.take))) = true := by
              simp [hfull.1]; omega
            simp only [hgo, if_true]
            rw [window_eq_of_full hpre ⟨hfull.1, by omega⟩]

theorem findMatches_window (pf vf : Nat) (prog : List Instr) (a : Amount) (text : Bytes) (A : List Match)
    (h : findMatches pf vf prog amtAll text = some (.ok A)) :
    findMatches pf vf prog a text = some (.ok (window a A)) := by
  unfold findMatches at h ⊢
  split at h
  · next h0 =>
    simp only [Option.some.injEq, Res.ok.injEq] at h; subst h
    simp only [h0, if_true, window_nil]
  · next h0 =>
    split at h
    · next h1 =>
      simp only [Option.some.injEq, Res.ok.injEq] at h; subst h
      simp only [h0, h1, if_true, if_false, window_nil]
    · next h1 =>
      simp only [h0, h1, if_false]
      have := (scan_window pf vf prog a text _ [] 0 0 1 1 A rfl h).2
      rw [window_nil] at this
      exact this

end Vore
