import Vore.Lemmas.ParserPratt
/-!
# Vore.Lemmas.ParserExpr — simulation of the search-expression parser (mutual block)

`ExprIH rx ts f`: every function of the block, run with fuel `f` on an index whose fuel need
(`8·(|ts|−i) + rank`) is at most `f`, is related by `Sim` to its grammar counterpart run with
the same fuel.  Each `*_step` lemma proves one function at `f+1` from `ExprIH … f`.
-/
namespace Vore.Parser
open Vore Vore.Grammar

variable {rx : Bytes → RegexOutcome} {ts : List Token}

structure ExprIH (rx : Bytes → RegexOutcome) (ts : List Token) (f : Nat) : Prop where
  expr : ∀ i t, tk ts i = some t → ignorable t.kind = false → 8 * (ts.length - i) + 6 ≤ f →
    Sim ts (i + 1) (parseExpression rx ts f i) (pExpression rx f (strip (ts.drop i)))
  at_ : ∀ i t, tk ts i = some t → ignorable t.kind = false → t.kind = .at → 8 * (ts.length - i) + 5 ≤ f →
    Sim ts (i + 1) (parseAt rx ts f i) (pAt rx f (strip (ts.drop i)))
  between : ∀ i t, tk ts i = some t → ignorable t.kind = false → t.kind = .between → 8 * (ts.length - i) + 5 ≤ f →
    Sim ts (i + 1) (parseBetween rx ts f i) (pBetween rx f (strip (ts.drop i)))
  exactly : ∀ i t, tk ts i = some t → ignorable t.kind = false → t.kind = .exactly → 8 * (ts.length - i) + 5 ≤ f →
    Sim ts (i + 1) (parseExactly rx ts f i) (pExactly rx f (strip (ts.drop i)))
  maybe : ∀ i t, tk ts i = some t → ignorable t.kind = false → t.kind = .maybe → 8 * (ts.length - i) + 5 ≤ f →
    Sim ts (i + 1) (parseMaybe rx ts f i) (pMaybe rx f (strip (ts.drop i)))
  notE : ∀ i t, tk ts i = some t → ignorable t.kind = false → t.kind = .not → 8 * (ts.length - i) + 5 ≤ f →
    Sim ts (i + 1) (parseNotExpression rx ts f i) (pNotExpression rx f (strip (ts.drop i)))
  curly : ∀ i t, tk ts i = some t → ignorable t.kind = false → t.kind = .opencurly → 8 * (ts.length - i) + 5 ≤ f →
    Sim ts (i + 1) (parseSubroutine rx ts f i) (pSubroutine rx f (strip (ts.drop i)))
  dec : ∀ i t, tk ts i = some t → ignorable t.kind = false → 8 * (ts.length - i) + 4 ≤ f →
    Sim ts (i + 1) (parsePrimaryOrDec rx ts f i) (pPrimaryOrDec rx f (strip (ts.drop i)))
  oror : ∀ i t, tk ts i = some t → ignorable t.kind = false → 8 * (ts.length - i) + 4 ≤ f →
    Sim ts (i + 1) (parsePrimaryOrOr rx ts f i) (pPrimaryOrOr rx f (strip (ts.drop i)))
  lit : ∀ i t, tk ts i = some t → ignorable t.kind = false → 8 * (ts.length - i) + 3 ≤ f →
    Sim ts (i + 1) (parseLiteral rx ts f i) (pLiteral rx f (strip (ts.drop i)))
  paren : ∀ i t, tk ts i = some t → ignorable t.kind = false → t.kind = .openparen → 8 * (ts.length - i) + 2 ≤ f →
    Sim ts (i + 1) (parseSubExpression rx ts f i) (pSubExpression rx f (strip (ts.drop i)))
  list : ∀ stop cur, cur < ts.length → 8 * (ts.length - cur) + 7 ≤ f →
    Sim ts cur (exprList rx ts stop f cur) (pExprList rx stop f (strip (ts.drop cur)))

/-- `exprList` stops at a significant token (the stop token the caller then inspects) -/
theorem exprList_sig {stop : Tok → Bool} : ∀ (f cur : Nat) (v : Expr) (k : Nat),
    exprList rx ts stop f cur = .ok v k → SigAt ts k := by
  intro f
  induction f with
  | zero => intro cur v k h; simp [exprList] at h
  | succ f ih =>
    intro cur v k h
    rw [exprList] at h
    unfold withSkipTok at h
    cases hsk : skip ts cur with
    | none => simp [hsk] at h
    | some w =>
      simp only [hsk] at h
      cases htk : tk ts w with
      | none => simp [htk] at h
      | some t =>
        simp only [htk] at h
        by_cases hst : stop t.kind = true
        · simp only [hst, if_true] at h
          injection h with h1 h2
          subst h2
          exact (skip_lands hsk).2
        · simp only [hst, Bool.false_eq_true, if_false] at h
          cases hpe : parseExpression rx ts f w with
          | ok e nx =>
            simp only [hpe, Res.bind] at h
            cases hel : exprList rx ts stop f nx with
            | ok es k' =>
              simp only [hel] at h
              injection h with h1 h2
              subst h2
              exact ih nx es k' hel
            | error m a => simp [hel] at h
            | panic => simp [hel] at h
            | fuel => simp [hel] at h
          | error m a => simp [hpe, Res.bind] at h
          | panic => simp [hpe, Res.bind] at h
          | fuel => simp [hpe, Res.bind] at h

theorem parseExpression_named {f i : Nat} {t : Token} (htk : tk ts i = some t) (hk : t.kind = .named) :
    parseExpression rx ts (f + 1) i = .error expExpr i := by
  rw [parseExpression]
  simp [withTok, htk, hk, isPrimaryStart, isClassStart, isListableClass]

theorem pExpression_named {f : Nat} {t : STok} {r : List STok} (hk : t.kind = .named) :
    pExpression rx (f + 1) (t :: r) = .err := by
  rw [pExpression]
  simp [next, hk, isPrimaryStart, isClassStart, isListableClass]

section steps
variable (h : EndsEof ts) {f : Nat} (ih : ExprIH rx ts f)
include h ih

theorem parseAt_step {i : Nat} {t : Token} (htk : tk ts i = some t) (hs : ignorable t.kind = false)
    (hk : t.kind = .at) (hf : 8 * (ts.length - i) + 5 ≤ f + 1) :
    Sim ts (i + 1) (parseAt rx ts (f + 1) i) (pAt rx (f + 1) (strip (ts.drop i))) := by
  have hi := lt_of_tk htk
  rw [parseAt, pAt, next_head htk hs]
  have h1 := h.succ_lt htk (by simp [hk])
  apply sim_skipTok h h1; intro c t1 htk1 hs1 hin1 hn1 hst1
  kcase hk1 : (t1.kind = .least ∨ t1.kind = .most)
  · have h2 := h.succ_lt htk1 (by rcases hk1 with hk1 | hk1 <;> simp [hk1])
    apply sim_skipTok h h2; intro c2 t2 htk2 hs2 hin2 hn2 hst2
    apply withNumber_sim; intro v hk2
    have h3 := h.succ_lt htk2 (by simp [hk2])
    apply sim_skip h h3; intro c3 t3 htk3 hs3 hin3 hn3 hst3
    rw [hst3]
    apply sim_bind (ih.expr c3 t3 htk3 hs3 (by omega)); intro e nx hle hlt
    apply sim_bind (parseLoopSuffix_sim h hlt); intro fn k hle2 hlt2
    kcase hl : t1.kind = .least
    · exact sim_ok rfl (by omega) hlt2
    · exact sim_ok rfl (by omega) hlt2
  · exact sim_err

theorem parseBetween_step {i : Nat} {t : Token} (htk : tk ts i = some t) (hs : ignorable t.kind = false)
    (hk : t.kind = .between) (hf : 8 * (ts.length - i) + 5 ≤ f + 1) :
    Sim ts (i + 1) (parseBetween rx ts (f + 1) i) (pBetween rx (f + 1) (strip (ts.drop i))) := by
  have hi := lt_of_tk htk
  rw [parseBetween, pBetween, next_head htk hs]
  have h1 := h.succ_lt htk (by simp [hk])
  apply sim_skipTok h h1; intro c t1 htk1 hs1 hin1 hn1 hst1
  apply withNumber_sim; intro lo hk1
  have h2 := h.succ_lt htk1 (by simp [hk1])
  apply sim_skipTok h h2; intro c2 t2 htk2 hs2 hin2 hn2 hst2
  kcase hk2 : t2.kind = .and
  · have h3 := h.succ_lt htk2 (by simp [hk2])
    apply sim_skipTok h h3; intro c3 t3 htk3 hs3 hin3 hn3 hst3
    apply withNumber_sim; intro hi' hk3
    have h4 := h.succ_lt htk3 (by simp [hk3])
    apply sim_skip h h4; intro c4 t4 htk4 hs4 hin4 hn4 hst4
    rw [hst4]
    apply sim_bind (ih.expr c4 t4 htk4 hs4 (by omega)); intro e nx hle hlt
    apply sim_bind (parseLoopSuffix_sim h hlt); intro fn k hle2 hlt2
    exact sim_ok rfl (by omega) hlt2
  · exact sim_err

theorem parseExactly_step {i : Nat} {t : Token} (htk : tk ts i = some t) (hs : ignorable t.kind = false)
    (hk : t.kind = .exactly) (hf : 8 * (ts.length - i) + 5 ≤ f + 1) :
    Sim ts (i + 1) (parseExactly rx ts (f + 1) i) (pExactly rx (f + 1) (strip (ts.drop i))) := by
  have hi := lt_of_tk htk
  rw [parseExactly, pExactly, next_head htk hs]
  have h1 := h.succ_lt htk (by simp [hk])
  apply sim_skipTok h h1; intro c t1 htk1 hs1 hin1 hn1 hst1
  apply withNumber_sim; intro v hk1
  have h2 := h.succ_lt htk1 (by simp [hk1])
  apply sim_skip h h2; intro c2 t2 htk2 hs2 hin2 hn2 hst2
  rw [hst2]
  by_cases hnm : t2.kind = .named
  · -- the body starts with `named`: the expression parser rejects it on both sides
    obtain ⟨f', rfl⟩ : ∃ f', f = f' + 1 := ⟨f - 1, by omega⟩
    rw [parseExpression_named htk2 hnm, strip_drop_cons htk2 hs2, pExpression_named (by simpa using hnm)]
    exact sim_err
  · apply sim_bind (ih.expr c2 t2 htk2 hs2 (by omega)); intro e nx hle hlt
    simp only [withSkipTok, skip_sig htk2 hs2, htk2, hnm, if_false]
    exact sim_ok rfl (by omega) hlt

theorem parseMaybe_step {i : Nat} {t : Token} (htk : tk ts i = some t) (hs : ignorable t.kind = false)
    (hk : t.kind = .maybe) (hf : 8 * (ts.length - i) + 5 ≤ f + 1) :
    Sim ts (i + 1) (parseMaybe rx ts (f + 1) i) (pMaybe rx (f + 1) (strip (ts.drop i))) := by
  have hi := lt_of_tk htk
  rw [parseMaybe, pMaybe, next_head htk hs]
  have h1 := h.succ_lt htk (by simp [hk])
  apply sim_skip h h1; intro c t1 htk1 hs1 hin1 hn1 hst1
  rw [hst1]
  apply sim_bind (ih.expr c t1 htk1 hs1 (by omega)); intro e nx hle hlt
  apply sim_skipTok h hlt; intro c2 t2 htk2 hs2 hin2 hn2 hst2
  kcase hk2 : t2.kind = .fewest
  · have := h.succ_lt htk2 (by simp [hk2])
    exact sim_ok rfl (by omega) this
  · exact sim_ok hst2 (by omega) hn2

theorem parseNotExpression_step {i : Nat} {t : Token} (htk : tk ts i = some t) (hs : ignorable t.kind = false)
    (hk : t.kind = .not) (hf : 8 * (ts.length - i) + 5 ≤ f + 1) :
    Sim ts (i + 1) (parseNotExpression rx ts (f + 1) i) (pNotExpression rx (f + 1) (strip (ts.drop i))) := by
  have hi := lt_of_tk htk
  rw [parseNotExpression, pNotExpression, next_head htk hs]
  have h1 := h.succ_lt htk (by simp [hk])
  apply sim_skipTok h h1; intro n t1 htk1 hs1 hin1 hn1 hst1
  kcase hk1 : t1.kind = .in_
  · rw [hst1]
    exact sim_mono (parseIn_sim h htk1 hs1 (by simp [hk1]) (by omega)) (by omega)
  · exact ih.dec i t htk hs (by omega)

theorem parseLiteral_step {i : Nat} {t : Token} (htk : tk ts i = some t) (hs : ignorable t.kind = false)
    (hf : 8 * (ts.length - i) + 3 ≤ f + 1) :
    Sim ts (i + 1) (parseLiteral rx ts (f + 1) i) (pLiteral rx (f + 1) (strip (ts.drop i))) := by
  have hi := lt_of_tk htk
  rw [parseLiteral, pLiteral]
  apply sim_tok htk hs
  kcase hk : t.kind = .string
  · have := h.succ_lt htk (by simp [hk])
    rw [sig_lex (by simp [carriesLexeme, hk])]
    exact sim_ok rfl (by omega) this
  kcase hk2 : t.kind = .caseless
  · apply sim_bind (parseCaseless_sim h htk hs (by simp [hk2])); intro s k hle hlt
    exact sim_ok rfl hle hlt
  kcase hk3 : t.kind = .identifier
  · have := h.succ_lt htk (by simp [hk3])
    rw [sig_lex (by simp [carriesLexeme, hk3])]
    exact sim_ok rfl (by omega) this
  kcase hk4 : t.kind = .openparen
  · exact ih.paren i t htk hs hk4 (by omega)
  kcase hk5 : t.kind = .not
  · exact parseNotLiteral_sim h htk hs (by simp [hk5])
  kcase hk6 : isClassStart t.kind = true
  · apply sim_bind (parseCharacterClass_sim h htk hs); intro a k hle hlt
    exact sim_ok rfl hle hlt
  · exact sim_err

theorem parsePrimaryOrOr_step {i : Nat} {t : Token} (htk : tk ts i = some t) (hs : ignorable t.kind = false)
    (hf : 8 * (ts.length - i) + 4 ≤ f + 1) :
    Sim ts (i + 1) (parsePrimaryOrOr rx ts (f + 1) i) (pPrimaryOrOr rx (f + 1) (strip (ts.drop i))) := by
  have hi := lt_of_tk htk
  rw [parsePrimaryOrOr, pPrimaryOrOr]
  apply sim_bind (ih.lit i t htk hs (by omega)); intro lit nx hle hlt
  apply sim_skipTok h hlt; intro c t1 htk1 hs1 hin1 hn1 hst1
  kcase hk1 : t1.kind = .or
  · have h2 := h.succ_lt htk1 (by simp [hk1])
    apply sim_skip h h2; intro c2 t2 htk2 hs2 hin2 hn2 hst2
    rw [hst2]
    apply sim_bind (ih.oror c2 t2 htk2 hs2 (by omega)); intro r k hle2 hlt2
    exact sim_ok rfl (by omega) hlt2
  · exact sim_ok rfl hle hlt

theorem parsePrimaryOrDec_step {i : Nat} {t : Token} (htk : tk ts i = some t) (hs : ignorable t.kind = false)
    (hf : 8 * (ts.length - i) + 4 ≤ f + 1) :
    Sim ts (i + 1) (parsePrimaryOrDec rx ts (f + 1) i) (pPrimaryOrDec rx (f + 1) (strip (ts.drop i))) := by
  have hi := lt_of_tk htk
  rw [parsePrimaryOrDec, pPrimaryOrDec]
  apply sim_bind (ih.lit i t htk hs (by omega)); intro lit nx hle hlt
  apply sim_skipTok h hlt; intro c t1 htk1 hs1 hin1 hn1 hst1
  kcase hk0 : t1.kind = .equal
  · have h2 := h.succ_lt htk1 (by simp [hk0])
    apply sim_skipTok h h2; intro c2 t2 htk2 hs2 hin2 hn2 hst2
    kcase hk2 : t2.kind = .identifier
    · have := h.succ_lt htk2 (by simp [hk2])
      rw [sig_lex (by simp [carriesLexeme, hk2])]
      exact sim_ok rfl (by omega) this
    · exact sim_err
  kcase hk1 : t1.kind = .or
  · have h2 := h.succ_lt htk1 (by simp [hk1])
    apply sim_skip h h2; intro c2 t2 htk2 hs2 hin2 hn2 hst2
    rw [hst2]
    apply sim_bind (ih.oror c2 t2 htk2 hs2 (by omega)); intro r k hle2 hlt2
    exact sim_ok rfl (by omega) hlt2
  · exact sim_ok rfl hle hlt

theorem exprList_step {stop : Tok → Bool} {cur : Nat} (hc : cur < ts.length)
    (hf : 8 * (ts.length - cur) + 7 ≤ f + 1) :
    Sim ts cur (exprList rx ts stop (f + 1) cur) (pExprList rx stop (f + 1) (strip (ts.drop cur))) := by
  rw [exprList, pExprList]
  apply sim_skipTok h hc; intro w t htk hs hin hn hst
  kcase hk : stop t.kind = true
  · exact sim_ok hst hin hn
  · rw [hst]
    apply sim_bind (ih.expr w t htk hs (by omega)); intro e nx hle hlt
    apply sim_bind (ih.list stop nx hlt (by omega)); intro es k hle2 hlt2
    exact sim_ok rfl (by omega) hlt2

theorem parseSubExpression_step {i : Nat} {t : Token} (htk : tk ts i = some t) (hs : ignorable t.kind = false)
    (hk : t.kind = .openparen) (hf : 8 * (ts.length - i) + 2 ≤ f + 1) :
    Sim ts (i + 1) (parseSubExpression rx ts (f + 1) i) (pSubExpression rx (f + 1) (strip (ts.drop i))) := by
  have hi := lt_of_tk htk
  rw [parseSubExpression, pSubExpression, next_head htk hs]
  have h1 := h.succ_lt htk (by simp [hk])
  apply sim_bindS (ih.list stopParen (i + 1) h1 (by omega)) (fun v k hr => exprList_sig _ _ _ _ hr)
  intro body c hle hlt ⟨t1, htk1, hs1⟩
  apply sim_tok htk1 hs1
  kcase hk1 : t1.kind = .closeparen
  · have := h.succ_lt htk1 (by simp [hk1])
    exact sim_ok rfl (by omega) this
  · exact sim_err

theorem parseSubroutine_step {i : Nat} {t : Token} (htk : tk ts i = some t) (hs : ignorable t.kind = false)
    (hk : t.kind = .opencurly) (hf : 8 * (ts.length - i) + 5 ≤ f + 1) :
    Sim ts (i + 1) (parseSubroutine rx ts (f + 1) i) (pSubroutine rx (f + 1) (strip (ts.drop i))) := by
  have hi := lt_of_tk htk
  rw [parseSubroutine, pSubroutine, next_head htk hs]
  have h1 := h.succ_lt htk (by simp [hk])
  apply sim_bindS (ih.list stopCurly (i + 1) h1 (by omega)) (fun v k hr => exprList_sig _ _ _ _ hr)
  intro body c hle hlt ⟨t1, htk1, hs1⟩
  apply sim_tok htk1 hs1
  kcase hk1 : t1.kind = .closecurly
  · have h2 := h.succ_lt htk1 (by simp [hk1])
    apply sim_skipTok h h2; intro c2 t2 htk2 hs2 hin2 hn2 hst2
    kcase hk2 : t2.kind = .equal
    · have h3 := h.succ_lt htk2 (by simp [hk2])
      apply sim_skipTok h h3; intro c3 t3 htk3 hs3 hin3 hn3 hst3
      kcase hk3 : t3.kind = .identifier
      · have := h.succ_lt htk3 (by simp [hk3])
        rw [sig_lex (by simp [carriesLexeme, hk3])]
        exact sim_ok rfl (by omega) this
      · exact sim_err
    · exact sim_err
  · exact sim_err

theorem parseExpression_step (hrx : ∀ b, rx b ≠ .panic) {i : Nat} {t : Token} (htk : tk ts i = some t)
    (hs : ignorable t.kind = false) (hf : 8 * (ts.length - i) + 6 ≤ f + 1) :
    Sim ts (i + 1) (parseExpression rx ts (f + 1) i) (pExpression rx (f + 1) (strip (ts.drop i))) := by
  have hi := lt_of_tk htk
  rw [parseExpression, pExpression]
  apply sim_tok htk hs
  kcase hk1 : t.kind = .at
  · exact ih.at_ i t htk hs hk1 (by omega)
  kcase hk2 : t.kind = .between
  · exact ih.between i t htk hs hk2 (by omega)
  kcase hk3 : t.kind = .exactly
  · exact ih.exactly i t htk hs hk3 (by omega)
  kcase hk4 : t.kind = .maybe
  · exact ih.maybe i t htk hs hk4 (by omega)
  kcase hk5 : t.kind = .in_
  · exact parseIn_sim h htk hs (by simp [hk5]) (by omega)
  kcase hk6 : t.kind = .opencurly
  · exact ih.curly i t htk hs hk6 (by omega)
  kcase hk7 : t.kind = .not
  · exact ih.notE i t htk hs hk7 (by omega)
  kcase hk8 : t.kind = .regexp
  · exact parseRegexp_sim hrx h htk hs hk8
  kcase hk9 : isPrimaryStart t.kind = true
  · exact ih.dec i t htk hs (by omega)
  · exact sim_err

end steps

/-- the simulation of the whole expression block, for every fuel -/
theorem expr_sim (hrx : ∀ b, rx b ≠ .panic) (h : EndsEof ts) : ∀ f, ExprIH rx ts f := by
  intro f
  induction f with
  | zero =>
    constructor <;> intros <;> omega
  | succ f ih =>
    exact {
      expr := fun i t htk hs hf => parseExpression_step h ih hrx htk hs hf
      at_ := fun i t htk hs hk hf => parseAt_step h ih htk hs hk hf
      between := fun i t htk hs hk hf => parseBetween_step h ih htk hs hk hf
      exactly := fun i t htk hs hk hf => parseExactly_step h ih htk hs hk hf
      maybe := fun i t htk hs hk hf => parseMaybe_step h ih htk hs hk hf
      notE := fun i t htk hs hk hf => parseNotExpression_step h ih htk hs hk hf
      curly := fun i t htk hs hk hf => parseSubroutine_step h ih htk hs hk hf
      dec := fun i t htk hs hf => parsePrimaryOrDec_step h ih htk hs hf
      oror := fun i t htk hs hf => parsePrimaryOrOr_step h ih htk hs hf
      lit := fun i t htk hs hf => parseLiteral_step h ih htk hs hf
      paren := fun i t htk hs hk hf => parseSubExpression_step h ih htk hs hk hf
      list := fun stop cur hc hf => exprList_step h ih hc hf }

end Vore.Parser
