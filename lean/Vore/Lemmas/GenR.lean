import Vore.Spec.Core
import Vore.Lemmas.GenCF
/-!
# Vore.Lemmas.GenR — the code generator on resolved expressions

`genR pcOf e off nid`: the code of the resolved expression `e` at absolute offset `off`, loop ids from
`nid`, call targets from `pcOf` (subroutine id ↦ address of its `StartSubroutine`).  `pcMap` computes
those addresses; `genBody` ties the knot for a whole command body.  Together with `Spec.resolveN`
this is the two-pass reading of generate.go (resolve names and unroll, then emit); the compiled
driver prints its bytecode next to the one-pass transcription `Vore.gen`, and the correspondence run
compares both with the real generator's on every case.
-/
namespace Vore
open Vore.Spec

def lenR : RExpr → Nat
  | .empty => 0
  | .seq a b => lenR a + lenR b
  | .atom _ => 1
  | .backref _ => 1
  | .call _ _ => 1
  | .star _ _ body => lenR body + 2
  | .branch l r => lenR l + lenR r + 3
  | .dec _ body => lenR body + 2
  | .sub _ _ body _ => lenR body + 2
  | .inl false items => 1 + 2 * items.length
  | .inl true items => 3 * items.length + 1

def genR (pcOf : Nat → Nat) : RExpr → Nat → Nat → List Instr × Nat
  | .empty, _, nid => ([], nid)
  | .seq a b, off, nid =>
    let ra := genR pcOf a off nid
    let rb := genR pcOf b (off + ra.1.length) ra.2
    (ra.1 ++ rb.1, rb.2)
  | .atom a, _, nid => ([genAtom a], nid)
  | .backref x, _, nid => ([.mvar x], nid)
  | .call x id, _, nid => ([.call x (pcOf id)], nid)
  | .star mx fewest body, off, nid =>
    let rb := genR pcOf body (off + 1) nid
    ([.startLoop rb.2 0 mx fewest (off + rb.1.length + 1) ""] ++ rb.1 ++ [.stopLoop rb.2 off], rb.2 + 1)
  | .branch l r, off, nid =>
    let rl := genR pcOf l (off + 1) nid
    let rr := genR pcOf r (off + 2 + rl.1.length) rl.2
    let e := off + rl.1.length + rr.1.length + 3
    ([.branch [off + 1, off + rl.1.length + 2]] ++ rl.1 ++ [.jump e] ++ rr.1 ++ [.jump e], rr.2)
  | .dec x body, off, nid =>
    let rb := genR pcOf body (off + 1) nid
    ([.startVar x] ++ rb.1 ++ [.endVar x], rb.2)
  | .sub _ x body pred, off, nid =>
    let rb := genR pcOf body (off + 1) nid
    ([.startSub off x (off + 1 + rb.1.length)] ++ rb.1 ++ [.endSub x pred], rb.2)
  | .inl false items, off, nid =>
    ([.branch ((List.range items.length).map (fun i => off + 1 + 2 * i))] ++ genInItems items (off + 1 + 2 * items.length), nid)
  | .inl true items, off, nid => (genNotInItems items off ++ [.endNotIn (listMaxSize items)], nid)

/-- where every subroutine node of `e` (placed at `off`) starts -/
def pcMap : RExpr → Nat → List (Nat × Nat)
  | .empty, _ => []
  | .seq a b, off => pcMap a off ++ pcMap b (off + lenR a)
  | .atom _, _ => []
  | .backref _, _ => []
  | .call _ _, _ => []
  | .star _ _ body, off => pcMap body (off + 1)
  | .branch l r, off => pcMap l (off + 1) ++ pcMap r (off + 2 + lenR l)
  | .dec _ body, off => pcMap body (off + 1)
  | .sub id _ body _, off => (id, off) :: pcMap body (off + 1)
  | .inl _ _, _ => []

def pcLookup (m : List (Nat × Nat)) (id : Nat) : Nat := ((m.find? (·.1 == id)).map (·.2)).getD 0

/-- the code of a whole command body -/
def genBody (e : RExpr) (nid : Nat) : List Instr × Nat := genR (pcLookup (pcMap e 0)) e 0 nid

/-- every subroutine node of `e`, placed at `off`, sits where `pcOf` says -/
def Consistent (pcOf : Nat → Nat) : RExpr → Nat → Prop
  | .empty, _ => True
  | .seq a b, off => Consistent pcOf a off ∧ Consistent pcOf b (off + lenR a)
  | .atom _, _ => True
  | .backref _, _ => True
  | .call _ _, _ => True
  | .star _ _ body, off => Consistent pcOf body (off + 1)
  | .branch l r, off => Consistent pcOf l (off + 1) ∧ Consistent pcOf r (off + 2 + lenR l)
  | .dec _ body, off => Consistent pcOf body (off + 1)
  | .sub id _ body _, off => pcOf id = off ∧ Consistent pcOf body (off + 1)
  | .inl _ _, _ => True

/-- `in` lists are non-empty (the parser guarantees it; an empty `Branch` would panic) -/
def WfR : RExpr → Prop
  | .empty => True
  | .seq a b => WfR a ∧ WfR b
  | .atom _ => True
  | .backref _ => True
  | .call _ _ => True
  | .star _ _ body => WfR body
  | .branch l r => WfR l ∧ WfR r
  | .dec _ body => WfR body
  | .sub _ _ body _ => WfR body
  | .inl neg items => neg = true ∨ items ≠ []

theorem genR_length (pcOf : Nat → Nat) (e : RExpr) : ∀ off nid, (genR pcOf e off nid).1.length = lenR e := by
  induction e with
  | empty => intro off nid; rfl
  | seq a b iha ihb => intro off nid; simp [genR, lenR, iha, ihb]
  | atom a => intro off nid; rfl
  | backref x => intro off nid; rfl
  | call x id => intro off nid; rfl
  | star mx fw body ih => intro off nid; simp [genR, lenR, ih]
  | branch l r ihl ihr => intro off nid; simp [genR, lenR, ihl, ihr]; omega
  | dec x body ih => intro off nid; simp [genR, lenR, ih]
  | sub id x body pred ih => intro off nid; simp [genR, lenR, ih]
  | inl neg items =>
    intro off nid
    cases neg
    · simp [genR, lenR, genInItems_length]; omega
    · simp [genR, lenR, genNotInItems_length]

theorem genR_nid_mono (pcOf : Nat → Nat) (e : RExpr) : ∀ off nid, nid ≤ (genR pcOf e off nid).2 := by
  induction e with
  | empty => intro off nid; exact Nat.le_refl _
  | seq a b iha ihb => intro off nid; exact Nat.le_trans (iha _ _) (ihb _ _)
  | atom a => intro off nid; exact Nat.le_refl _
  | backref x => intro off nid; exact Nat.le_refl _
  | call x id => intro off nid; exact Nat.le_refl _
  | star mx fw body ih => intro off nid; exact Nat.le_trans (ih _ _) (Nat.le_succ _)
  | branch l r ihl ihr => intro off nid; exact Nat.le_trans (ihl _ _) (ihr _ _)
  | dec x body ih => intro off nid; exact ih _ _
  | sub id x body pred ih => intro off nid; exact ih _ _
  | inl neg items => intro off nid; cases neg <;> exact Nat.le_refl _

end Vore
