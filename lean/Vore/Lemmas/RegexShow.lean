import Vore.Model.RegexParser
import Vore.Spec.Regex
/-!
# Vore.Lemmas.RegexShow — reading back what `Re.show` prints: numbers and quantifiers
-/
namespace Vore.Rx
open Vore.Regex Vore.RegexParser

/-! ## decimal numbers -/

theorem digitByte_toNat (n : Nat) : (digitByte n).toNat = 48 + n % 10 := by
  unfold digitByte
  have : 48 + n % 10 < 256 := by omega
  simp [UInt8.toNat_ofNat', Nat.mod_eq_of_lt this]

theorem digitByte_isDigit (n : Nat) : isDigitB (digitByte n) = true := by
  unfold isDigitB
  have h := digitByte_toNat n
  have h1 : (48 : UInt8) ≤ digitByte n := by rw [UInt8.le_iff_toNat_le]; simp [h]
  have h2 : digitByte n ≤ (57 : UInt8) := by rw [UInt8.le_iff_toNat_le]; simp [h]; omega
  simp [h1, h2]

theorem digitsVal_append (l : Bytes) (d : UInt8) : digitsVal (l ++ [d]) = digitsVal l * 10 + (d.toNat - 48) := by
  simp [digitsVal, List.foldl_append]

theorem showNatAux_spec : ∀ (f n : Nat), n < f →
    (showNatAux f n ≠ [] ∧ (∀ c ∈ showNatAux f n, isDigitB c = true) ∧ digitsVal (showNatAux f n) = n) := by
  intro f
  induction f with
  | zero => intro n h; omega
  | succ f ih =>
    intro n hn
    simp only [showNatAux]
    split
    · next hlt =>
      refine ⟨by simp, ?_, ?_⟩
      · intro c hc; simp at hc; subst hc; exact digitByte_isDigit n
      · simp [digitsVal, digitByte_toNat]; omega
    · next hge =>
      have hdiv : n / 10 < f := by omega
      obtain ⟨_, hall, hval⟩ := ih (n / 10) hdiv
      refine ⟨by simp, ?_, ?_⟩
      · intro c hc
        rcases List.mem_append.mp hc with h | h
        · exact hall c h
        · simp at h; subst h; exact digitByte_isDigit n
      · rw [digitsVal_append, hval, digitByte_toNat]; omega

theorem showNat_ne_nil (n : Nat) : showNat n ≠ [] := (showNatAux_spec (n + 1) n (by omega)).1
theorem showNat_digits (n : Nat) : ∀ c ∈ showNat n, isDigitB c = true := (showNatAux_spec (n + 1) n (by omega)).2.1
theorem showNat_val (n : Nat) : digitsVal (showNat n) = n := (showNatAux_spec (n + 1) n (by omega)).2.2

/-- what follows is not a digit -/
def noDigitHead : Bytes → Bool
  | [] => true
  | c :: _ => !isDigitB c

theorem spanDigits_append : ∀ (ds rest : Bytes), (∀ c ∈ ds, isDigitB c = true) → noDigitHead rest = true →
    spanDigits (ds ++ rest) = (ds, rest) := by
  intro ds
  induction ds with
  | nil =>
    intro rest _ h
    cases rest with
    | nil => simp [spanDigits]
    | cons c t =>
      simp only [noDigitHead, Bool.not_eq_true'] at h
      simp [spanDigits, h]
  | cons d ds ih =>
    intro rest hall h
    have hd : isDigitB d = true := hall d (List.mem_cons_self ..)
    have := ih rest (fun c hc => hall c (List.mem_cons_of_mem _ hc)) h
    simp [spanDigits, hd, this]

theorem number_show (m : Nat) (rest : Bytes) (hm : m ≤ maxInt) (hne : rest ≠ []) (hnd : noDigitHead rest = true) :
    number (showNat m ++ rest) = .ok (m, rest) := by
  have hsp := spanDigits_append (showNat m) rest (showNat_digits m) hnd
  have hnn := showNat_ne_nil m
  unfold number
  cases hs : showNat m ++ rest with
  | nil => simp at hs; exact absurd hs.1 hnn
  | cons c t =>
    simp only
    rw [← hs, hsp]
    simp only [hnn, if_false, hne, showNat_val]
    have : ¬ m > maxInt := by omega
    simp [this]

/-! ## quantifiers -/

/-- what follows an atom or a quantifier does not read as (the rest of) a quantifier -/
def qFollow : Bytes → Bool
  | [] => true
  | c :: _ => c != 42 && c != 43 && c != 63 && c != 123

theorem lazyTail_show (mn : Nat) (mx : Int) (lz : Bool) (tail : Bytes) (ht : qFollow tail = true) :
    lazyTail mn mx ((if lz then [63] else []) ++ tail) = .ok (some (mn, mx, lz), tail) := by
  cases lz with
  | true => simp [lazyTail]
  | false =>
    cases tail with
    | nil => simp [lazyTail]
    | cons c t =>
      simp only [qFollow, Bool.and_eq_true, bne_iff_ne, ne_eq] at ht
      simp [lazyTail, ht.1.2]

theorem quantifier_none (tail : Bytes) (ht : qFollow tail = true) : quantifier tail = .ok (none, tail) := by
  cases tail with
  | nil => simp [quantifier]
  | cons c t =>
    simp only [qFollow, Bool.and_eq_true, bne_iff_ne, ne_eq] at ht
    simp [quantifier, ht.1.1.1, ht.1.1.2, ht.1.2, ht.2]

theorem noDigitHead_125 (l : Bytes) : noDigitHead (125 :: l) = true := by simp [noDigitHead, isDigitB]
theorem noDigitHead_44 (l : Bytes) : noDigitHead (44 :: l) = true := by simp [noDigitHead, isDigitB]

theorem showNat_head (n : Nat) : ∃ d ds, showNat n = d :: ds ∧ isDigitB d = true := by
  cases h : showNat n with
  | nil => exact absurd h (showNat_ne_nil n)
  | cons d ds => exact ⟨d, ds, rfl, showNat_digits n d (by rw [h]; exact List.mem_cons_self ..)⟩

theorem quantifier_show (q : Quant) (lz : Bool) (tail : Bytes) (hq : q.ok = true) (ht : qFollow tail = true) :
    quantifier (q.show ++ ((if lz then [63] else []) ++ tail)) = .ok (some (q.min, q.maxInt, lz), tail) := by
  cases q with
  | star => simp [Quant.show, quantifier, lazyTail_show _ _ lz tail ht, Quant.min, Quant.maxInt]
  | plus => simp [Quant.show, quantifier, lazyTail_show _ _ lz tail ht, Quant.min, Quant.maxInt]
  | opt => simp [Quant.show, quantifier, lazyTail_show _ _ lz tail ht, Quant.min, Quant.maxInt]
  | exact m =>
    simp only [Quant.ok, decide_eq_true_eq] at hq
    have hn := number_show m (125 :: ((if lz then [63] else []) ++ tail)) hq (by simp) (noDigitHead_125 _)
    simp only [Quant.show, List.cons_append, List.append_assoc, List.nil_append, quantifier]
    simp only [show (123 : UInt8) = 42 ↔ False by decide, show (123 : UInt8) = 43 ↔ False by decide,
      show (123 : UInt8) = 63 ↔ False by decide, if_false, if_true]
    rw [hn]
    simp only [PR.bind, show (125 : UInt8) = 44 ↔ False by decide, if_false, if_true]
    rw [lazyTail_show _ _ lz tail ht]
    simp [Quant.min, Quant.maxInt]
  | atLeast m =>
    simp only [Quant.ok, decide_eq_true_eq] at hq
    have hn := number_show m (44 :: 125 :: ((if lz then [63] else []) ++ tail)) hq (by simp) (noDigitHead_44 _)
    simp only [Quant.show, List.cons_append, List.append_assoc, List.nil_append, quantifier]
    simp only [show (123 : UInt8) = 42 ↔ False by decide, show (123 : UInt8) = 43 ↔ False by decide,
      show (123 : UInt8) = 63 ↔ False by decide, if_false, if_true]
    rw [hn]
    simp only [PR.bind, if_true]
    rw [lazyTail_show _ _ lz tail ht]
    simp [Quant.min, Quant.maxInt]
  | between m n =>
    simp only [Quant.ok, Bool.and_eq_true, decide_eq_true_eq] at hq
    have hm : m ≤ maxInt := by unfold maxInt; unfold maxCount at hq; omega
    have hn' : n ≤ maxInt := by unfold maxInt; unfold maxCount at hq; omega
    have h1 := number_show m (44 :: (showNat n ++ 125 :: ((if lz then [63] else []) ++ tail))) hm (by simp) (noDigitHead_44 _)
    have h2 := number_show n (125 :: ((if lz then [63] else []) ++ tail)) hn' (by simp) (noDigitHead_125 _)
    obtain ⟨d, ds, hd, hdd⟩ := showNat_head n
    simp only [Quant.show, List.cons_append, List.append_assoc, List.nil_append, quantifier]
    simp only [show (123 : UInt8) = 42 ↔ False by decide, show (123 : UInt8) = 43 ↔ False by decide,
      show (123 : UInt8) = 63 ↔ False by decide, if_false, if_true]
    rw [h1]
    simp only [PR.bind, if_true]
    have hd125 : ¬ d = 125 := by
      intro h; subst h; simp [isDigitB] at hdd
    rw [hd] at h2 ⊢
    simp only [List.cons_append] at h2
    simp only [List.cons_append, hd125, if_false]
    rw [h2]
    simp only [PR.bind, if_true]
    rw [lazyTail_show _ _ lz tail ht]
    simp [Quant.min, Quant.maxInt]

end Vore.Rx
