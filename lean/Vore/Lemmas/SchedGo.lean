import Vore.Lemmas.Sched
import Vore.Model.SchedGo
/-!
# Vore.Lemmas.SchedGo — from the extracted access classes to the discipline of the model (C19)
-/
namespace Vore.Sched

/-- calls that touch no `free` package-level variable satisfy the hypotheses of
`C19_noninterference`: call-private memory is confined, the program is read-only, the random
source is lock protected (blind), a `locked m` variable is lock protected by `m` -/
theorem goCalls_discipline (cls : List GClass) (hcls : ∀ c ∈ cls, c ≠ GClass.free)
    (P : Tid → List Action) (h : GoCalls cls P) :
    WellLocked P ∧ ∀ g, Written P g → Confined P g ∨ LockProtected P g := by
  constructor
  · intro t n m ha
    exact h t n _ ha
  · intro g hw
    cases g with
    | global i =>
      right
      -- the class of `global i`
      obtain ⟨t0, n0, a0, ha0, hg0, _⟩ := hw
      have h0 := h t0 n0 a0 ha0
      cases hc : cls[i]? with
      | none => cases a0 <;> simp [Action.target] at hg0 <;> subst hg0 <;> simp [ActionAllowed, hc] at h0
      | some c =>
        cases c with
        | free => exact absurd rfl (hcls _ (List.mem_of_getElem? hc))
        | locked m =>
          refine ⟨m, ?_, Or.inr ?_⟩
          · intro t n a ha hg
            have := h t n a ha
            cases a <;> simp [Action.target] at hg <;> subst hg <;> simp [ActionAllowed, hc] at this
            · exact this.1
            · exact this
            · exact this
          · intro t n a ha hg hnw
            have := h t n a ha
            cases a <;> simp [Action.target] at hg <;> subst hg <;>
              simp [ActionAllowed, hc, Action.isWrite] at this hnw
            exact this.2
    | priv o k =>
      left
      refine ⟨o, ?_⟩
      intro t n a ha hg
      have := h t n a ha
      cases a <;> simp [Action.target] at hg <;> subst hg <;> simp [ActionAllowed] at this <;> exact this.symm
    | code k =>
      obtain ⟨t, n, a, ha, hg, hwr⟩ := hw
      have := h t n a ha
      cases a <;> simp [Action.target] at hg <;> subst hg <;>
        simp [ActionAllowed, Action.isWrite] at this hwr
    | randSrc =>
      right
      refine ⟨randMutex, ?_, Or.inl ?_⟩
      · intro t n a ha hg
        have := h t n a ha
        cases a <;> simp [Action.target] at hg <;> subst hg <;> simp [ActionAllowed] at this ⊢ <;> exact this
      · intro t n a ha hg
        have := h t n a ha
        cases a <;> simp [Action.target] at hg <;> subst hg <;> simp [ActionAllowed, Action.isRmw] at this ⊢

/-- without synchronisation actions, happens-before is program order -/
theorem HB_same_thread {c : List Event} (hns : ∀ (i : Nat) (e : Event), c[i]? = some e → ∀ m, e.kind ≠ .rel m)
    {i j : Nat} (h : HB c i j) : ∃ e e', c[i]? = some e ∧ c[j]? = some e' ∧ e.tid = e'.tid := by
  induction h with
  | po _ hi hj ht => exact ⟨_, _, hi, hj, ht⟩
  | sw _ hi _ => exact absurd rfl (hns _ _ hi _)
  | trans _ _ ih1 ih2 =>
    obtain ⟨e1, e2, h1, h2, h12⟩ := ih1
    obtain ⟨e2', e3, h2', h3, h23⟩ := ih2
    rw [h2] at h2'
    injection h2' with h2'
    subst h2'
    exact ⟨e1, e3, h1, h3, h12.trans h23⟩

end Vore.Sched
