import Vore.Props.C12
import Vore.Model.Engine
/-!
# Vore.Lemmas.ReplaceSound — the environment a transform runs in satisfies the checker's assumptions

`executeReplaceProcess` builds the environment of a transform from the string-valued variables of the
match plus `match` (string), `matchLength` and `matchNumber` (numbers): no boolean anywhere, `matchLength` a
number — exactly `Agrees … initEnv`, the hypothesis of `C12_sound_runProcess`.  So an accepted transform in
which every variable keeps one type can make a replace command fail only by dividing by zero.
-/
namespace Vore
open Vore.Spec.Typing

theorem toPEnv_get_str : ∀ (vars : VMap) (x : String) (v : PVal), vars.toPEnv.get x = some v → ∃ s, v = .str s := by
  intro vars
  -- `VMap` is a nested inductive: recursion by pattern matching
  exact fun x v h => go vars x v h
where
  go : ∀ (vars : VMap) (x : String) (v : PVal), vars.toPEnv.get x = some v → ∃ s, v = .str s
    | .nil, x, v, h => by simp [VMap.toPEnv, PEnv.get] at h
    | .cons k (.str s) rest, x, v, h => by
      simp only [VMap.toPEnv, PEnv.get, List.find?_cons] at h
      split at h
      · simp only [Option.map_some, Option.some.injEq] at h; exact ⟨s, h.symm⟩
      · exact go rest x v h
    | .cons k (.map _) rest, x, v, h => by
      simp only [VMap.toPEnv] at h
      exact go rest x v h

theorem transformEnv_lookup_type (vars : VMap) (m : Match) (x : String) :
    (Spec.Typing.lookup (transformEnv vars m) x).type ≠ .boolean ∧
    (Spec.Typing.lookup (transformEnv vars m) "matchLength").type = .number := by
  unfold transformEnv
  refine ⟨?_, ?_⟩
  · simp only [lookup_put]
    split
    · simp [PVal.type]
    · split
      · simp [PVal.type]
      · split
        · simp [PVal.type]
        · unfold Spec.Typing.lookup
          cases hg : vars.toPEnv.get x with
          | none => simp [PVal.type]
          | some v =>
            obtain ⟨s, rfl⟩ := toPEnv_get_str vars x v hg
            simp [PVal.type]
  · simp [lookup_put, PVal.type]

theorem transformEnv_agrees (vars : VMap) (m : Match) : Agrees (transformEnv vars m) initEnv :=
  C12_agrees_of_no_bool _ (transformEnv_lookup_type vars m "matchLength").2
    (fun x => (transformEnv_lookup_type vars m x).1)

/-- a transform the checker accepts, in which every variable keeps one type, can fail a replacement only by
dividing by zero -/
theorem replItem_proc_sound (pf : Nat) (vars : VMap) (m : Match) (body : Stmt)
    (hsingle : SingleTyped initEnv body) (haccept : checkBody .transformation body = true) (t : String)
    (h : replItem pf vars m (.proc body) = .panic t) : t = "integer divide by zero" := by
  simp only [replItem] at h
  cases hr : runProcess pf body (transformEnv vars m) with
  | error tag =>
    rw [hr] at h
    simp only [Res.panic.injEq] at h
    subst h
    exact C12_sound_runProcess .transformation body hsingle haccept pf _ (transformEnv_agrees vars m) tag hr
  | ok v =>
    rw [hr] at h
    cases v <;> simp at h

end Vore
