import Vore.Lemmas.ParserExpr
/-!
# Vore.Lemmas.ParserStmt — simulation of the process-statement parser (mutual block)

`parse_process_statements` tests `token_index < len(tokens)-1` BEFORE skipping blanks: at the final
EOF it returns the statements read so far (the caller then reports "Expected 'end'"), while after
trailing blanks it reads the EOF as a statement and reports that.  Both are errors for every caller;
the relation `SimSt` records exactly this: `ok … at EOF` on the model side may face `err` on the
grammar side, and every caller is shown to turn the former into an error (`simSt_bind`).
-/
namespace Vore.Parser
open Vore Vore.Grammar

variable {ts : List Token}

theorem parseProcessSet_sim (h : EndsEof ts) {i : Nat} {t : Token}
    (htk : tk ts i = some t) (hs : ignorable t.kind = false) (hk : t.kind ≠ .eof) :
    Sim ts (i + 1) (parseProcessSet ts i) (pProcessSet (strip (ts.drop i))) := by
  rw [parseProcessSet, pProcessSet, next_head htk hs]
  have h1 := h.succ_lt htk hk
  apply sim_skipTok h h1; intro c t1 htk1 hs1 hin1 hn1 hst1
  kcase hk1 : t1.kind = .identifier
  · have h2 := h.succ_lt htk1 (by simp [hk1])
    rw [sig_lex (by simp [carriesLexeme, hk1])]
    apply sim_skipTok h h2; intro c2 t2 htk2 hs2 hin2 hn2 hst2
    kcase hk2 : t2.kind = .to
    · have h3 := h.succ_lt htk2 (by simp [hk2])
      apply sim_skip h h3; intro c3 t3 htk3 hs3 hin3 hn3 hst3
      rw [hst3]
      apply sim_bind (parseProcessExpression_sim h hn3); intro e k hle hlt
      exact sim_ok rfl (by omega) hlt
    · exact sim_err
  · exact sim_err

theorem parseProcessReturn_sim (h : EndsEof ts) {i : Nat} {t : Token}
    (htk : tk ts i = some t) (hs : ignorable t.kind = false) (hk : t.kind ≠ .eof) :
    Sim ts (i + 1) (parseProcessReturn ts i) (pProcessReturn (strip (ts.drop i))) := by
  rw [parseProcessReturn, pProcessReturn, next_head htk hs]
  have h1 := h.succ_lt htk hk
  apply sim_skip h h1; intro c t1 htk1 hs1 hin1 hn1 hst1
  rw [hst1]
  apply sim_bind (parseProcessExpression_sim h hn1); intro e k hle hlt
  exact sim_ok rfl (by omega) hlt

theorem parseProcessDebug_sim (h : EndsEof ts) {i : Nat} {t : Token}
    (htk : tk ts i = some t) (hs : ignorable t.kind = false) (hk : t.kind ≠ .eof) :
    Sim ts (i + 1) (parseProcessDebug ts i) (pProcessDebug (strip (ts.drop i))) := by
  rw [parseProcessDebug, pProcessDebug, next_head htk hs]
  have h1 := h.succ_lt htk hk
  apply sim_skip h h1; intro c t1 htk1 hs1 hin1 hn1 hst1
  rw [hst1]
  apply sim_bind (parseProcessExpression_sim h hn1); intro e k hle hlt
  exact sim_ok rfl (by omega) hlt

/-! ## relations for statement lists and single statements -/

def SimSt (ts : List Token) (lo : Nat) : Res Stmt → GR Stmt → Prop
  | .ok v k, .ok v' r => v = v' ∧ r = strip (ts.drop k) ∧ lo ≤ k ∧ k < ts.length ∧ SigAt ts k
  | .ok _ k, .err => ∃ t, tk ts k = some t ∧ t.kind = .eof
  | .error _ _, .err => True
  | _, _ => False

def SimO (ts : List Token) (i : Nat) : Res (Option Stmt) → GR (Option Stmt) → Prop
  | .ok (some s) k, .ok (some s') r => s = s' ∧ r = strip (ts.drop k) ∧ i < k ∧ k < ts.length
  | .ok none k, .ok none r => k = i ∧ r = strip (ts.drop i)
  | .error _ _, .err => True
  | _, _ => False

def IsErr {β : Type} : Res β → Prop
  | .error _ _ => True
  | _ => False

theorem simSt_bind {β : Type} {lo lo' : Nat} {r : Res Stmt} {g : GR Stmt}
    {K : Stmt → Nat → Res β} {K' : Stmt → List STok → GR β}
    (h : SimSt ts lo r g)
    (hk : ∀ v k, lo ≤ k → k < ts.length → SigAt ts k → Sim ts lo' (K v k) (K' v (strip (ts.drop k))))
    (heof : ∀ v k t, tk ts k = some t → t.kind = .eof → IsErr (K v k)) :
    Sim ts lo' (r.bind K) (g.bind K') := by
  cases r with
  | ok v k =>
    cases g with
    | ok v' r' =>
      obtain ⟨rfl, rfl, h1, h2, h3⟩ := h
      exact hk _ _ h1 h2 h3
    | err =>
      obtain ⟨t, h1, h2⟩ := h
      have := heof v k t h1 h2
      simp only [Res.bind, GR.bind]
      cases hK : K v k <;> simp_all [IsErr, Sim]
    | fuel => simp [SimSt] at h
  | error m a => cases g <;> simp_all [SimSt, Sim, Res.bind, GR.bind]
  | panic => cases g <;> simp_all [SimSt]
  | fuel => cases g <;> simp_all [SimSt]

theorem simO_some {i : Nat} {r : Res Stmt} {g : GR Stmt} (h : Sim ts (i + 1) r g) :
    SimO ts i (r.bind fun s k => .ok (some s) k) (g.bind fun s k => .ok (some s) k) := by
  cases r <;> cases g <;> simp_all [Sim, SimO, Res.bind, GR.bind]
  omega

structure StmtIH (ts : List Token) (f : Nat) : Prop where
  stmts : ∀ i, i < ts.length → 4 * (ts.length - i) + 3 ≤ f →
    SimSt ts i (parseStatements ts f i) (pStatements f (strip (ts.drop i)))
  stmt : ∀ i t, tk ts i = some t → ignorable t.kind = false → 4 * (ts.length - i) + 2 ≤ f →
    SimO ts i (parseStatement ts f i) (pStatement f (strip (ts.drop i)))
  pif : ∀ i t, tk ts i = some t → ignorable t.kind = false → t.kind = .if_ → 4 * (ts.length - i) + 1 ≤ f →
    Sim ts (i + 1) (parseProcessIf ts f i) (pProcessIf f (strip (ts.drop i)))
  ploop : ∀ i t, tk ts i = some t → ignorable t.kind = false → t.kind = .loop → 4 * (ts.length - i) + 1 ≤ f →
    Sim ts (i + 1) (parseProcessLoop ts f i) (pProcessLoop f (strip (ts.drop i)))

theorem eof_sig {t : Token} (hk : t.kind = .eof) : ignorable t.kind = false := by simp [ignorable, hk]

section steps
variable (h : EndsEof ts) {f : Nat} (ih : StmtIH ts f)
include h ih

theorem parseProcessLoop_step {i : Nat} {t : Token} (htk : tk ts i = some t) (hs : ignorable t.kind = false)
    (hk : t.kind = .loop) (hf : 4 * (ts.length - i) + 1 ≤ f + 1) :
    Sim ts (i + 1) (parseProcessLoop ts (f + 1) i) (pProcessLoop (f + 1) (strip (ts.drop i))) := by
  have hi := lt_of_tk htk
  rw [parseProcessLoop, pProcessLoop, next_head htk hs]
  have h1 := h.succ_lt htk (by simp [hk])
  apply sim_skip h h1; intro c t1 htk1 hs1 hin1 hn1 hst1
  rw [hst1]
  apply simSt_bind (ih.stmts c hn1 (by omega))
  · intro b nx hle hlt hsig
    apply sim_skipTok h hlt; intro c2 t2 htk2 hs2 hin2 hn2 hst2
    kcase hk2 : t2.kind = .end_
    · have := h.succ_lt htk2 (by simp [hk2])
      exact sim_ok rfl (by omega) this
    · exact sim_err
  · intro v k t' htk' hk'
    simp [withSkipTok, skip_sig htk' (eof_sig hk'), htk', hk', IsErr]

theorem parseProcessIf_step {i : Nat} {t : Token} (htk : tk ts i = some t) (hs : ignorable t.kind = false)
    (hk : t.kind = .if_) (hf : 4 * (ts.length - i) + 1 ≤ f + 1) :
    Sim ts (i + 1) (parseProcessIf ts (f + 1) i) (pProcessIf (f + 1) (strip (ts.drop i))) := by
  have hi := lt_of_tk htk
  rw [parseProcessIf, pProcessIf, next_head htk hs]
  have h1 := h.succ_lt htk (by simp [hk])
  apply sim_skip h h1; intro c t1 htk1 hs1 hin1 hn1 hst1
  rw [hst1]
  apply sim_bind (parseProcessExpression_sim h hn1); intro e nx hle hlt
  apply sim_skipTok h hlt; intro c2 t2 htk2 hs2 hin2 hn2 hst2
  kcase hk2 : t2.kind = .then_
  · have h3 := h.succ_lt htk2 (by simp [hk2])
    apply sim_skip h h3; intro c3 t3 htk3 hs3 hin3 hn3 hst3
    rw [hst3]
    apply simSt_bind (ih.stmts c3 hn3 (by omega))
    · intro tb fi hle3 hlt3 hsig
      obtain ⟨t4, htk4, hs4⟩ := hsig
      apply sim_tok htk4 hs4
      kcase hk4 : t4.kind = .else_
      · have h5 := h.succ_lt htk4 (by simp [hk4])
        apply simSt_bind (ih.stmts (fi + 1) h5 (by omega))
        · intro fb fi2 hle5 hlt5 hsig5
          apply sim_skipTok h hlt5; intro c6 t6 htk6 hs6 hin6 hn6 hst6
          kcase hk6 : t6.kind = .end_
          · have := h.succ_lt htk6 (by simp [hk6])
            exact sim_ok rfl (by omega) this
          · exact sim_err
        · intro v k t' htk' hk'
          simp [withSkipTok, skip_sig htk' (eof_sig hk'), htk', hk', IsErr]
      · simp only [withSkipTok, skip_sig htk4 hs4, htk4]
        kcase hk5 : t4.kind = .end_
        · have := h.succ_lt htk4 (by simp [hk5])
          exact sim_ok rfl (by omega) this
        · exact sim_err
    · intro v k t' htk' hk'
      simp [withTok, withSkipTok, skip_sig htk' (eof_sig hk'), htk', hk', IsErr]
  · exact sim_err

theorem parseStatement_step {i : Nat} {t : Token} (htk : tk ts i = some t) (hs : ignorable t.kind = false)
    (hf : 4 * (ts.length - i) + 2 ≤ f + 1) :
    SimO ts i (parseStatement ts (f + 1) i) (pStatement (f + 1) (strip (ts.drop i))) := by
  have hi := lt_of_tk htk
  rw [parseStatement, pStatement, next_head htk hs]
  simp only [withTok, htk]
  kcase hk1 : t.kind = .set
  · exact simO_some (parseProcessSet_sim h htk hs (by simp [hk1]))
  kcase hk2 : t.kind = .if_
  · exact simO_some (ih.pif i t htk hs hk2 (by omega))
  kcase hk3 : t.kind = .return_
  · exact simO_some (parseProcessReturn_sim h htk hs (by simp [hk3]))
  kcase hk4 : t.kind = .debug
  · exact simO_some (parseProcessDebug_sim h htk hs (by simp [hk4]))
  kcase hk5 : t.kind = .loop
  · exact simO_some (ih.ploop i t htk hs hk5 (by omega))
  kcase hk6 : t.kind = .break_
  · have := h.succ_lt htk (by simp [hk6])
    exact ⟨rfl, rfl, by omega, this⟩
  kcase hk7 : t.kind = .continue_
  · have := h.succ_lt htk (by simp [hk7])
    exact ⟨rfl, rfl, by omega, this⟩
  kcase hk8 : t.kind = .end_
  · exact ⟨rfl, rfl⟩
  kcase hk9 : t.kind = .else_
  · exact ⟨rfl, rfl⟩
  · trivial

theorem parseStatements_step {i : Nat} (hi : i < ts.length) (hf : 4 * (ts.length - i) + 3 ≤ f + 1) :
    SimSt ts i (parseStatements ts (f + 1) i) (pStatements (f + 1) (strip (ts.drop i))) := by
  rw [parseStatements, pStatements]
  by_cases hb : i + 1 < ts.length
  · simp only [hb, if_true]
    obtain ⟨w, t, hsk, htk, hs, hle, hlt, hst⟩ := skip_spec h _ i (Nat.le_refl _) hi
    simp only [withSkipTok, hsk, htk]
    rw [hst]
    have hO := ih.stmt w t htk hs (by omega)
    generalize parseStatement ts f w = r at hO ⊢
    generalize pStatement f (strip (ts.drop w)) = g at hO ⊢
    cases r with
    | ok os k =>
      cases os with
      | none =>
        cases g with
        | ok os' r' =>
          cases os' with
          | none =>
            obtain ⟨rfl, rfl⟩ := hO
            exact ⟨rfl, rfl, hle, hlt, t, htk, hs⟩
          | some s' => simp [SimO] at hO
        | err => simp [SimO] at hO
        | fuel => simp [SimO] at hO
      | some s =>
        cases g with
        | ok os' r' =>
          cases os' with
          | none => simp [SimO] at hO
          | some s' =>
            obtain ⟨rfl, rfl, hwk, hkl⟩ := hO
            simp only [Res.bind, GR.bind]
            have hS := ih.stmts k hkl (by omega)
            generalize parseStatements ts f k = r2 at hS ⊢
            generalize pStatements f (strip (ts.drop k)) = g2 at hS ⊢
            cases r2 with
            | ok rest k2 =>
              cases g2 with
              | ok rest' r2' =>
                obtain ⟨rfl, rfl, h1, h2, h3⟩ := hS
                exact ⟨rfl, rfl, by omega, h2, h3⟩
              | err => exact hS
              | fuel => simp [SimSt] at hS
            | error m a => cases g2 <;> simp_all [SimSt]
            | panic => cases g2 <;> simp_all [SimSt]
            | fuel => cases g2 <;> simp_all [SimSt]
        | err => simp [SimO] at hO
        | fuel => simp [SimO] at hO
    | error m a => cases g <;> simp_all [SimO, SimSt, Res.bind, GR.bind]
    | panic => cases g <;> simp_all [SimO]
    | fuel => cases g <;> simp_all [SimO]
  · simp only [hb, if_false]
    obtain ⟨t, htk, hk⟩ := h.last_eof (by omega : i + 1 = ts.length)
    obtain ⟨f', rfl⟩ : ∃ f', f = f' + 1 := ⟨f - 1, by omega⟩
    rw [strip_drop_cons htk (eof_sig hk), pStatement]
    simp [next, hk, GR.bind, SimSt, htk]

end steps

theorem stmt_sim (h : EndsEof ts) : ∀ f, StmtIH ts f := by
  intro f
  induction f with
  | zero => constructor <;> intros <;> omega
  | succ f ih =>
    exact {
      stmts := fun i hi hf => parseStatements_step h ih hi hf
      stmt := fun i t htk hs hf => parseStatement_step h ih htk hs hf
      pif := fun i t htk hs hk hf => parseProcessIf_step h ih htk hs hk hf
      ploop := fun i t htk hs hk hf => parseProcessLoop_step h ih htk hs hk hf }

end Vore.Parser
