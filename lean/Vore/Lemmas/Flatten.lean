import Vore.Spec.Core
/-!
# Vore.Lemmas.Flatten — definitions are transparent in every context (C13)

`flattenN ρ n e` replaces, `n` levels deep, every call by the body of its target (followed by the
target's predicate, if it has one) and every subroutine node without predicate by its body.  The
semantics with calls nested at most `n` deep is *equal* — as a function of the data and both
continuations, hence in every context — to the call-free semantics of the flattened expression.  So two
spellings with the same flattening (a body written in place, `{B} = s … s`, `set s to pattern B … s`) match
the same things wherever they stand.
-/
namespace Vore
open Vore.Spec

/-- no subroutine can be entered -/
def noCall : RExpr → Data → SK → FK → Option SRes := fun _ _ _ _ => none

def wrapPred (id : Nat) (x : String) (pred : Stmt) (e : RExpr) : RExpr :=
  if pred == .skip then e else .sub id x e pred

def flattenWith (ρ : Procs) (R : Option (RExpr → RExpr)) : RExpr → RExpr
  | .empty => .empty
  | .seq a b => .seq (flattenWith ρ R a) (flattenWith ρ R b)
  | .atom a => .atom a
  | .backref x => .backref x
  | .call x id =>
    match R, ρ.find id with
    | some r, some (y, body, pred) => wrapPred id y pred (r body)
    | _, _ => .call x id
  | .star mx fewest body => .star mx fewest (flattenWith ρ R body)
  | .branch l r => .branch (flattenWith ρ R l) (flattenWith ρ R r)
  | .dec x body => .dec x (flattenWith ρ R body)
  | .sub id x body pred => wrapPred id x pred (flattenWith ρ R body)
  | .inl neg items => .inl neg items

/-- calls expanded `n` levels deep -/
def flattenN (ρ : Procs) : Nat → RExpr → RExpr
  | 0 => flattenWith ρ none
  | n + 1 => flattenWith ρ (some (flattenN ρ n))

section
variable (text : Bytes) (lf pf : Nat)

theorem withPred_skip {pred : Stmt} (h : (pred == .skip) = true) (ks : SK) : withPred pf pred ks = ks := by
  funext d fk
  simp [withPred, predHolds, h]

theorem mr_wrapPred (ρ : Procs) (K : RExpr → Data → SK → FK → Option SRes) (id : Nat) (x : String) (pred : Stmt)
    (e : RExpr) (d : Data) (ks : SK) (fk : FK) :
    mrWith text lf pf ρ K (wrapPred id x pred e) d ks fk = mrWith text lf pf ρ K e d (withPred pf pred ks) fk := by
  unfold wrapPred
  split
  · next h => rw [withPred_skip pf h]
  · simp only [mrWith]

/-- one level: if `K` runs a called body like the call-free semantics of its `R`-image, then the
semantics with `K` is the call-free semantics of the flattened expression -/
theorem flattenWith_sem (ρ : Procs) (K : RExpr → Data → SK → FK → Option SRes) (R : Option (RExpr → RExpr))
    (hK : match R with
      | none => K = noCall
      | some r => ∀ body, K body = mrWith text lf pf ρ noCall (r body)) :
    ∀ e, mrWith text lf pf ρ K e = mrWith text lf pf ρ noCall (flattenWith ρ R e) := by
  intro e
  induction e with
  | empty => funext d ks fk; simp only [flattenWith, mrWith]
  | seq a b iha ihb =>
    funext d ks fk
    simp only [flattenWith, mrWith, iha, ihb]
  | atom a => funext d ks fk; simp only [flattenWith, mrWith]
  | backref x => funext d ks fk; simp only [flattenWith, mrWith]
  | call x id =>
    funext d ks fk
    cases R with
    | none =>
      simp only at hK
      subst hK
      simp only [flattenWith]
    | some r =>
      simp only at hK
      cases hf : ρ.find id with
      | none => simp only [flattenWith, hf, mrWith]
      | some ent =>
        obtain ⟨y, body, pred⟩ := ent
        simp only [flattenWith, hf, mr_wrapPred]
        simp only [mrWith, hf, hK body]
  | star mx fewest body ih =>
    funext d ks fk
    simp only [flattenWith, mrWith, ih]
  | branch l r ihl ihr =>
    funext d ks fk
    simp only [flattenWith, mrWith, ihl, ihr]
  | dec x body ih =>
    funext d ks fk
    simp only [flattenWith, mrWith, ih]
  | sub id x body pred ih =>
    funext d ks fk
    simp only [flattenWith, mr_wrapPred]
    simp only [mrWith, ih]
  | inl neg items =>
    funext d ks fk
    cases neg <;> simp only [flattenWith, mrWith]

/-- the semantics with calls nested at most `cf` deep is the call-free semantics of the expression
flattened `cf` levels deep — equal as functions, hence in every context -/
theorem mrN_flatten (ρ : Procs) : ∀ cf e, mrN text lf pf ρ cf e = mrWith text lf pf ρ noCall (flattenN ρ cf e) := by
  intro cf
  induction cf with
  | zero => intro e; exact flattenWith_sem text lf pf ρ _ none rfl e
  | succ cf ih => intro e; exact flattenWith_sem text lf pf ρ _ (some (flattenN ρ cf)) (fun body => ih body) e

/-- without calls to enter, the table of subroutines is irrelevant -/
theorem mrWith_noCall_indep (ρ ρ' : Procs) : ∀ e, mrWith text lf pf ρ noCall e = mrWith text lf pf ρ' noCall e := by
  intro e
  induction e with
  | empty => funext d ks fk; simp only [mrWith]
  | seq a b iha ihb => funext d ks fk; simp only [mrWith, iha, ihb]
  | atom a => funext d ks fk; simp only [mrWith]
  | backref x => funext d ks fk; simp only [mrWith]
  | call x id =>
    funext d ks fk
    simp only [mrWith, noCall]
    cases ρ.find id <;> cases ρ'.find id <;> rfl
  | star mx fewest body ih => funext d ks fk; simp only [mrWith, ih]
  | branch l r ihl ihr => funext d ks fk; simp only [mrWith, ihl, ihr]
  | dec x body ih => funext d ks fk; simp only [mrWith, ih]
  | sub id x body pred ih => funext d ks fk; simp only [mrWith, ih]
  | inl neg items => funext d ks fk; cases neg <;> simp only [mrWith]

end

/-- two resolved bodies with the same flattening have the same matches, on every text -/
theorem findAllR_of_flatten_eq (text : Bytes) (pf cf : Nat) (e1 e2 : RExpr)
    (h : flattenN (procsOf e1) cf e1 = flattenN (procsOf e2) cf e2) :
    findAllR text pf cf e1 = findAllR text pf cf e2 := by
  unfold findAllR
  have hatt : attemptR text (text.length + 2) pf cf e1 = attemptR text (text.length + 2) pf cf e2 := by
    funext pos line col
    unfold attemptR
    rw [mrN_flatten, mrN_flatten, h]
    rw [mrWith_noCall_indep text _ pf (procsOf e1) (procsOf e2)]
  rw [hatt]

end Vore
