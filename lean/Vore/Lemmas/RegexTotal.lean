import Vore.Model.RegexParser
/-!
# Vore.Lemmas.RegexTotal — the regex sub-parser never runs out of fuel

`NF sel k res rest`: the result `res` is not `.fuel`, and when it is `ok v` the suffix it returns
(`sel v`) is at least `k` bytes shorter than `rest`.  Every function of the sub-parser satisfies it
for the suffix it is given, so the recursion `disj → pattern → literal → groups → disj` always
continues on a strictly shorter suffix and `4·|pattern| + 8` fuel is never used up
(`parseRaw_ne_fuel`): this is the termination of `parse_regexp` on every input.
-/
namespace Vore.RegexParser
open Vore

def NF {α : Type} (sel : α → Bytes) (k : Nat) (res : PR α) (rest : Bytes) : Prop :=
  res ≠ .fuel ∧ ∀ v, res = .ok v → (sel v).length + k ≤ rest.length

theorem NF.ok {α : Type} {sel : α → Bytes} {k : Nat} {v : α} {rest : Bytes}
    (h : (sel v).length + k ≤ rest.length) : NF sel k (.ok v) rest :=
  ⟨by simp, fun w hw => by cases hw; exact h⟩

theorem NF.error {α : Type} {sel : α → Bytes} {k : Nat} {msg : String} {rest : Bytes} :
    NF sel k (.error msg : PR α) rest := ⟨by simp, fun w hw => by cases hw⟩

theorem NF.panic {α : Type} {sel : α → Bytes} {k : Nat} {msg : String} {rest : Bytes} :
    NF sel k (.panic msg : PR α) rest := ⟨by simp, fun w hw => by cases hw⟩

theorem NF.mono {α : Type} {sel : α → Bytes} {k k' : Nat} {res : PR α} {rest rest' : Bytes}
    (h : NF sel k res rest) (hk : k' + rest.length ≤ k + rest'.length) : NF sel k' res rest' :=
  ⟨h.1, fun v hv => by have := h.2 v hv; omega⟩

theorem NF.bind {α β : Type} {sa : α → Bytes} {sb : β → Bytes} {k1 k2 : Nat} {res : PR α} {rest : Bytes}
    {g : α → PR β} (h : NF sa k1 res rest)
    (hg : ∀ v, res = .ok v → (sa v).length + k1 ≤ rest.length → NF sb k2 (g v) (sa v)) :
    NF sb (k1 + k2) (res.bind g) rest := by
  cases res with
  | ok v =>
    have hv := h.2 v rfl
    have := hg v rfl hv
    simp only [PR.bind]
    exact this.mono (by omega)
  | error m => exact NF.error
  | panic w => exact NF.panic
  | fuel => exact absurd rfl h.1

/-! ## the functions without recursion through groups -/

theorem spanDigits_len : ∀ l : Bytes, (spanDigits l).2.length ≤ l.length := by
  intro l
  induction l with
  | nil => simp [spanDigits]
  | cons c t ih =>
    simp only [spanDigits]
    split
    · simp only [List.length_cons]; omega
    · simp

theorem spanIdent_len : ∀ l : Bytes, (spanIdent l).2.length ≤ l.length := by
  intro l
  induction l with
  | nil => simp [spanIdent]
  | cons c t ih =>
    simp only [spanIdent]
    split
    · simp only [List.length_cons]; omega
    · simp

theorem number_nf (rest : Bytes) : NF (fun v : Nat × Bytes => v.2) 0 (number rest) rest := by
  unfold number
  cases rest with
  | nil => exact NF.panic
  | cons c t =>
    simp only
    split
    · exact NF.error
    · split
      · exact NF.panic
      · split
        · exact NF.error
        · exact NF.ok (by simpa using spanDigits_len (c :: t))

theorem lazyTail_nf (mn : Nat) (mx : Int) (r : Bytes) :
    NF (fun v : Option (Nat × Int × Bool) × Bytes => v.2) 0 (lazyTail mn mx r) r := by
  unfold lazyTail
  cases r with
  | nil => exact NF.ok (by simp)
  | cons c t =>
    simp only
    split
    · exact NF.ok (by simp)
    · exact NF.ok (by simp)

theorem quantifier_nf (rest : Bytes) :
    NF (fun v : Option (Nat × Int × Bool) × Bytes => v.2) 0 (quantifier rest) rest := by
  unfold quantifier
  cases rest with
  | nil => exact NF.ok (by simp)
  | cons op t =>
    simp only
    split
    · exact (lazyTail_nf _ _ t).mono (by simp only [List.length_cons]; omega)
    · split
      · exact (lazyTail_nf _ _ t).mono (by simp only [List.length_cons]; omega)
      · split
        · exact (lazyTail_nf _ _ t).mono (by simp only [List.length_cons]; omega)
        · split
          · refine ((number_nf t).bind (k2 := 0) ?_).mono (by simp only [List.length_cons]; omega)
            intro v _ _
            obtain ⟨frm, r⟩ := v
            simp only
            cases r with
            | nil => exact NF.panic
            | cons cb r1 =>
              simp only
              split
              · cases r1 with
                | nil => exact NF.panic
                | cons x r2 =>
                  simp only
                  split
                  · exact (lazyTail_nf _ _ r2).mono (by simp only [List.length_cons]; omega)
                  · refine ((number_nf (x :: r2)).bind (k2 := 0) ?_).mono (by simp only [List.length_cons]; omega)
                    intro v2 _ _
                    obtain ⟨to, r3⟩ := v2
                    simp only
                    cases r3 with
                    | nil => exact NF.panic
                    | cons br r4 =>
                      simp only
                      split
                      · exact (lazyTail_nf _ _ r4).mono (by simp only [List.length_cons]; omega)
                      · exact NF.error
              · split
                · exact (lazyTail_nf _ _ r1).mono (by simp only [List.length_cons]; omega)
                · exact NF.error
          · exact NF.ok (by simp)

theorem identThenGt_nf (rest : Bytes) (msg : String) :
    NF (fun v : Bytes × Bytes => v.2) 1 (identThenGt rest msg) rest := by
  unfold identThenGt
  have hl := spanIdent_len rest
  split
  · exact NF.panic
  · next c t heq =>
    split
    · refine NF.ok ?_
      simp only
      rw [heq] at hl
      simpa using hl
    · exact NF.error

theorem escape_nf (rest : Bytes) : NF (fun v : Expr × Bytes => v.2) 1 (escape rest) rest := by
  unfold escape
  cases rest with
  | nil => exact NF.panic
  | cons c t =>
    simp only
    split
    · cases t with
      | nil => exact NF.ok (by simp)
      | cons d t' =>
        simp only
        split
        · exact NF.ok (by simp)
        · exact NF.ok (by simp)
    · repeat' (split; exact NF.ok (by simp))
      split
      · cases t with
        | nil => exact NF.panic
        | cons d t' =>
          simp only
          split
          · refine ((identThenGt_nf t' _).bind (k2 := 0) (sb := fun v : Expr × Bytes => v.2) ?_).mono (by simp only [List.length_cons]; omega)
            intro v _ _
            exact NF.ok (by simp)
          · exact NF.error
      · exact NF.ok (by simp)

theorem classItems_nf : ∀ rest : Bytes, NF (fun v : List Atom × Bytes => v.2) 1 (classItems rest) rest := by
  intro rest
  generalize hn : rest.length = n
  induction n using Nat.strongRecOn generalizing rest with
  | ind n ih =>
    cases rest with
    | nil => unfold classItems; exact NF.error
    | cons c t =>
      unfold classItems
      split
      · exact NF.ok (by simp)
      · split
        · cases t with
          | nil => exact NF.error
          | cons _ _ => exact NF.panic
        · cases t with
          | nil => exact NF.error
          | cons d t' =>
            simp only
            split
            · cases t' with
              | nil => exact NF.panic
              | cons e t'' =>
                simp only
                split
                · have h := ih (d :: e :: t'').length (by simp only [List.length_cons] at hn ⊢; omega) (d :: e :: t'') rfl
                  refine (h.bind (k2 := 0) (sb := fun v : List Atom × Bytes => v.2) ?_).mono
                    (by simp only [List.length_cons]; omega)
                  intro v _ _
                  exact NF.ok (by simp)
                · have h := ih t''.length (by simp only [List.length_cons] at hn ⊢; omega) t'' rfl
                  refine (h.bind (k2 := 0) (sb := fun v : List Atom × Bytes => v.2) ?_).mono
                    (by simp only [List.length_cons]; omega)
                  intro v _ _
                  exact NF.ok (by simp)
            · have h := ih (d :: t').length (by simp only [List.length_cons] at hn ⊢; omega) (d :: t') rfl
              refine (h.bind (k2 := 0) (sb := fun v : List Atom × Bytes => v.2) ?_).mono
                (by simp only [List.length_cons]; omega)
              intro v _ _
              exact NF.ok (by simp)

theorem charClass_nf (rest : Bytes) : NF (fun v : Expr × Bytes => v.2) 1 (charClass rest) rest := by
  unfold charClass
  cases rest with
  | nil => exact NF.error
  | cons c t =>
    simp only
    generalize hbd : (if c = 94 then t else c :: t) = body
    have hb : body.length ≤ (c :: t).length := by rw [← hbd]; split <;> simp
    cases body with
    | nil => exact NF.error
    | cons x xs =>
      simp only
      refine ((classItems_nf (x :: xs)).bind (k2 := 0) (sb := fun v : Expr × Bytes => v.2) ?_).mono
        (rest' := c :: t) (k' := 1) (by have := hb; omega)
      intro v _ _
      exact NF.ok (by simp)

abbrev sel3 : Expr × Bytes × Nat → Bytes := fun v => v.2.1

theorem finishAtom_nf (start : Expr) (r : Bytes) (n : Nat) : NF sel3 0 (finishAtom start r n) r := by
  unfold finishAtom
  refine ((quantifier_nf r).bind (k2 := 0) (sb := sel3) ?_).mono (by omega)
  intro v _ _
  exact NF.ok (by simp [sel3])

theorem closeParen_nf (r : Bytes) : NF (fun v : Bytes => v) 1 (closeParen r) r := by
  unfold closeParen
  cases r with
  | nil => exact NF.panic
  | cons x r' =>
    simp only
    split
    · exact NF.ok (by simp)
    · exact NF.error

/-! ## the mutual recursion -/

theorem nf_all : ∀ f : Nat,
    (∀ rest n, 4 * rest.length + 4 ≤ f → NF sel3 0 (disj f rest n) rest) ∧
    (∀ rest n, 4 * rest.length + 3 ≤ f → NF sel3 1 (pattern f rest n) rest) ∧
    (∀ rest n, 4 * rest.length + 2 ≤ f → NF sel3 1 (literal f rest n) rest) ∧
    (∀ rest n, 4 * rest.length + 5 ≤ f → NF sel3 1 (groups f rest n) rest) := by
  intro f
  induction f with
  | zero => exact ⟨fun _ _ h => by omega, fun _ _ h => by omega, fun _ _ h => by omega, fun _ _ h => by omega⟩
  | succ f ih =>
    obtain ⟨ihd, ihp, ihl, ihg⟩ := ih
    refine ⟨?_, ?_, ?_, ?_⟩
    · -- disj
      intro rest n hf
      cases rest with
      | nil => simp only [disj]; exact NF.ok (by simp [sel3])
      | cons c t =>
        simp only [disj]
        split
        · exact NF.ok (by simp [sel3])
        · refine ((ihp (c :: t) n (by simp only [List.length_cons] at hf ⊢; omega)).bind (k2 := 0) (sb := sel3) ?_).mono (by omega)
          intro v _ hv
          obtain ⟨e, r, n1⟩ := v
          simp only [sel3] at hv
          refine ((ihd r n1 (by simp only [List.length_cons] at hf hv; omega)).bind (k2 := 0) (sb := sel3) ?_).mono
            (by simp only [sel3]; omega)
          intro v2 _ _
          exact NF.ok (by simp [sel3])
    · -- pattern
      intro rest n hf
      simp only [pattern]
      refine ((ihl rest n (by omega)).bind (k2 := 0) (sb := sel3) ?_).mono (by omega)
      intro v _ hv
      obtain ⟨start, r, n1⟩ := v
      simp only [sel3] at hv
      cases r with
      | nil => exact NF.ok (by simp [sel3])
      | cons c t =>
        simp only
        split
        · refine ((ihp t n1 (by simp only [List.length_cons] at hv; omega)).bind (k2 := 0) (sb := sel3) ?_).mono
            (by simp only [List.length_cons, sel3]; omega)
          intro v2 _ _
          exact NF.ok (by simp [sel3])
        · exact NF.ok (by simp [sel3])
    · -- literal
      intro rest n hf
      cases rest with
      | nil => simp only [literal]; exact NF.panic
      | cons c t =>
        simp only [literal]
        split
        · exact NF.ok (by simp [sel3])
        · split
          · exact NF.ok (by simp [sel3])
          · split
            · refine ((escape_nf t).bind (k2 := 0) (sb := sel3) ?_).mono (by simp only [List.length_cons]; omega)
              intro v _ _
              exact finishAtom_nf _ _ _
            · split
              · refine ((ihg t n (by simp only [List.length_cons] at hf; omega)).bind (k2 := 0) (sb := sel3) ?_).mono
                  (by simp only [List.length_cons]; omega)
                intro v _ _
                exact finishAtom_nf _ _ _
              · split
                · refine ((charClass_nf t).bind (k2 := 0) (sb := sel3) ?_).mono (by simp only [List.length_cons]; omega)
                  intro v _ _
                  exact finishAtom_nf _ _ _
                · split
                  · exact (finishAtom_nf _ t n).mono (by simp only [List.length_cons]; omega)
                  · exact (finishAtom_nf _ t n).mono (by simp only [List.length_cons]; omega)
    · -- groups
      intro rest n hf
      cases rest with
      | nil => simp only [groups]; exact NF.panic
      | cons c t =>
        rw [groups.eq_def]
        simp only
        split
        · cases t with
          | nil => exact NF.panic
          | cons marker t2 =>
            simp only
            split
            · refine ((ihd t2 n (by simp only [List.length_cons] at hf; omega)).bind (k2 := 1) (sb := sel3) ?_).mono
                (by simp only [List.length_cons]; omega)
              intro ⟨e1, r1, n1⟩ _ _
              refine ((closeParen_nf _).bind (k2 := 0) (sb := sel3) ?_).mono (by simp only [sel3, List.length_cons] at *; omega)
              intro r' _ _
              exact NF.ok (by simp [sel3])
            · split
              · exact NF.panic
              · split
                · exact NF.panic
                · split
                  · cases t2 with
                    | nil => exact NF.panic
                    | cons a t3 =>
                      simp only
                      split
                      · exact NF.panic
                      · split
                        · exact NF.panic
                        · refine ((identThenGt_nf (a :: t3) _).bind (k2 := 1) (sb := sel3) ?_).mono
                            (by simp only [List.length_cons]; omega)
                          intro v _ hv
                          obtain ⟨id, r0⟩ := v
                          refine ((ihd r0 n (by simp only [sel3, List.length_cons] at *; omega)).bind (k2 := 1) (sb := sel3) ?_).mono (by simp only [sel3, List.length_cons] at *; omega)
                          intro ⟨e2, r2, n2⟩ _ _
                          refine ((closeParen_nf _).bind (k2 := 0) (sb := sel3) ?_).mono (by simp only [sel3, List.length_cons] at *; omega)
                          intro r' _ _
                          exact NF.ok (by simp [sel3])
                  · exact NF.error
        · refine ((ihd (c :: t) (n + 1) (by simp only [List.length_cons] at hf ⊢; omega)).bind (k2 := 1) (sb := sel3) ?_).mono (by simp only [sel3, List.length_cons] at *; omega)
          intro ⟨e1, r1, n1⟩ _ _
          refine ((closeParen_nf _).bind (k2 := 0) (sb := sel3) ?_).mono (by simp only [sel3, List.length_cons] at *; omega)
          intro r' _ _
          exact NF.ok (by simp [sel3])

/-- the fuel `parseRaw` supplies is never used up: `parse_regexp` terminates on every input -/
theorem parseRaw_ne_fuel (n0 : Nat) (p : Bytes) : parseRaw n0 p ≠ .fuel :=
  ((nf_all (fuelFor p)).1 p n0 (by unfold fuelFor; omega)).1

end Vore.RegexParser
