import Vore.Lemmas.Ds
/-!
# Vore.Lemmas.ScanQueue — the scan loop with the match queue as written

`findMatches` keeps the reported matches in a `ds.Queue` (`matches.Push(m)`, `matches.Limit(last)` when `last != 0`,
`matches.Contents()` at the end).  `scanQ` is `Vore.scan` with that queue (Model/Ds.lean) in place of the list and
`limitLast`; it returns the contents of the queue.  `scanQ_eq_scan`: the two are the same function — so every theorem
about `scan` / `findMatches` (C01, C03, C04, …) is a theorem about the loop that uses the real container code.
-/
namespace Vore
open Vore.Ds

/-- what the loop does with a reported match: `Push`, then `Limit(last)` if a `last n` clause is present -/
def pushLimit (last : Nat) (q : Queue Match) (m : Match) : Queue Match :=
  if last != 0 then (q.push m).limit (last : Int) else q.push m

theorem pushLimit_store (last : Nat) (q : Queue Match) (m : Match) :
    (pushLimit last q m).store = limitLast last (q.store ++ [m]) := by
  have := push_limit_is_limitLast q m last
  unfold pushLimit
  split <;> simp_all

/-- `Vore.scan` with the queue of libvore/ds as written -/
def scanQ (pf vf : Nat) (prog : List Instr) (amt : Amount) (text : Bytes) :
    Nat → (acc : Queue Match) → (matchNumber pos line col : Nat) → Option (Res (List Match))
  | 0, _, _, _, _, _ => none
  | f + 1, acc, mn, pos, line, col =>
    if !(amt.all || mn < amt.skip + amt.take) then some (.ok acc.contents) else
    match classify (run pf prog text vf (initState pos line col)) with
    | .diverge => none
    | .panic t => some (.panic t)
    | .pfuel => some .pfuel
    | .hit c =>
      let acc' := if mn ≥ amt.skip then pushLimit amt.last acc (makeMatch (mn + 1) pos line col c) else acc
      if c.pos ≥ text.length then some (.ok acc'.contents) else scanQ pf vf prog amt text f acc' (mn + 1) c.pos c.line c.col
    | .miss =>
      match readAt text pos 1 with
      | [b] =>
        let (line', col') := if b = nl then (line + 1, 1) else (line, col + 1)
        if pos + 1 ≥ text.length then some (.ok acc.contents) else scanQ pf vf prog amt text f acc mn (pos + 1) line' col'
      | _ => some (.panic "WOW THAT IS NOT GOOD :(")

/-- **the loop over the real queue is the loop over the list** -/
theorem scanQ_eq_scan (pf vf : Nat) (prog : List Instr) (amt : Amount) (text : Bytes) :
    ∀ (f : Nat) (acc : Queue Match) (mn pos line col : Nat),
      scanQ pf vf prog amt text f acc mn pos line col = scan pf vf prog amt text f acc.store mn pos line col := by
  intro f
  induction f with
  | zero => intro acc mn pos line col; rfl
  | succ f ih =>
    intro acc mn pos line col
    unfold scanQ scan
    by_cases hb : (!(amt.all || decide (mn < amt.skip + amt.take))) = true
    · simp only [hb, if_true, Queue.contents]
    · simp only [hb]
      generalize classify (run pf prog text vf (initState pos line col)) = a
      cases a with
      | diverge => rfl
      | panic t => rfl
      | pfuel => rfl
      | hit c =>
        by_cases hs : mn ≥ amt.skip
        · simp only [hs, if_true, Queue.contents, pushLimit_store]
          by_cases he : c.pos ≥ text.length
          · simp only [he, if_true]
          · simp only [he, if_false]; rw [ih]; simp only [pushLimit_store]
        · simp only [hs, if_false, Queue.contents]
          by_cases he : c.pos ≥ text.length
          · simp only [he, if_true]
          · simp only [he, if_false]; rw [ih]
      | miss =>
        simp only
        cases hr : readAt text pos 1 with
        | nil => rfl
        | cons b rest =>
          cases rest with
          | nil =>
            simp only [Queue.contents]
            by_cases he : pos + 1 ≥ text.length
            · simp only [he, if_true]
            · simp only [he, if_false]; rw [ih]
          | cons b2 rest2 => rfl

/-- `findMatches` with the queue as written -/
def findMatchesQ (pf vf : Nat) (prog : List Instr) (amt : Amount) (text : Bytes) : Option (Res (List Match)) :=
  if text.length = 0 then some (.ok []) else
  if prog.length = 0 then some (.ok []) else
  scanQ pf vf prog amt text (text.length + 1) Queue.new 0 0 1 1

theorem findMatchesQ_eq (pf vf : Nat) (prog : List Instr) (amt : Amount) (text : Bytes) :
    findMatchesQ pf vf prog amt text = findMatches pf vf prog amt text := by
  unfold findMatchesQ findMatches
  rw [scanQ_eq_scan]
  rfl

end Vore
