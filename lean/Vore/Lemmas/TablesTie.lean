import Vore.Extracted
/-!
# Vore.Lemmas.TablesTie — the hand-written model equals the interpreted regenerated tables

Each theorem is a finite case analysis (operator × operand types) with the operand *values*
universally quantified.  A one-token edit of `checkBinaryExpr`, `checkUnaryExpr`,
`checkReturn`, `executeBinaryExpr` or `executeUnaryExpression` in /repo changes
`Vore/Extracted.lean` and makes one of these fail.
-/
namespace Vore
open Vore.Tables Vore.Extracted

theorem binType_eq_table (l r : PT) (op : Op) :
    binType l r op = typeFromTable goTyping l r op := by
  cases l <;> cases r <;> cases op <;> rfl

theorem unType_eq_table (t : PT) (op : Op) :
    unType t op = unTypeFromTable goTyping t op := by
  cases t <;> cases op <;> rfl

theorem retOK_eq_table (ctx : Ctx) (t : PT) :
    retOK ctx t = retFromTable goTyping ctx t := by
  cases ctx <;> cases t <;> rfl

theorem evalBin_eq_table (op : Op) (l r : PVal) :
    evalBin op l r = evalFromTable goEval op l r := by
  cases l <;> cases r <;> cases op <;> first | rfl | skip
  all_goals
    (show (if _ = (0 : Int) then _ else _) = _
     split
     · next h =>
       simp (config := { decide := true }) [evalFromTable, goEval, goEvalCells, evalCells, EvalCell.run,
         GoTok.apply, Coerce.apply, Wrap.apply, optMatches, PVal.type, PVal.getNumber, divZeroTag] at h ⊢
       simp [h]
     · next h =>
       simp (config := { decide := true }) [evalFromTable, goEval, goEvalCells, evalCells, EvalCell.run,
         GoTok.apply, Coerce.apply, Wrap.apply, optMatches, PVal.type, PVal.getNumber, divZeroTag] at h ⊢
       simp [h])

theorem evalUn_eq_table (op : Op) (v : PVal) :
    unFromTable goEval op v = .val (evalUn op v) := by
  cases op <;> first | rfl | skip
  · -- head
    show UnShape.run (.slice .getString 0 0 (some 1)) v = _
    simp only [UnShape.run, Coerce.apply, evalUn]
    cases h : v.getString with
    | nil => simp
    | cons a as => simp
  · -- tail
    show UnShape.run (.slice .getString 1 1 none) v = _
    simp only [UnShape.run, Coerce.apply, evalUn]
    cases h : v.getString with
    | nil => simp
    | cons a as =>
      cases as with
      | nil => simp
      | cons b bs => simp; omega

/-- every inner chain of `executeBinaryExpr` is closed by the undefined-operation panic -/
theorem goEval_else_panics : elsePanicsOK goEval = true := by decide

theorem evalExpr_eq_table (ρ : PEnv) (e : PExpr) : evalExpr ρ e = evalExprWith goEval ρ e := by
  induction e with
  | str s => rfl
  | num n => rfl
  | bool b => rfl
  | var x => rfl
  | un op e ih =>
    simp only [evalExpr, evalExprWith, ← ih]
    cases evalExpr ρ e with
    | val v => simp only [evalUn_eq_table]
    | panic t => rfl
  | bin op l r ihl ihr =>
    simp only [evalExpr, evalExprWith, ← ihl, ← ihr]
    cases evalExpr ρ l with
    | panic t => rfl
    | val lv =>
      cases evalExpr ρ r with
      | panic t => rfl
      | val rv => simp only [evalBin_eq_table]

end Vore
