import Vore.Spec.Grammar
/-!
# Vore.Lemmas.Pratt — the Pratt parser reads back the printers of the documented grammar

Generic in the precedence tables `pt`, under the decidable condition `PrecOK pt` (checked
for the regenerated tables by `decide` in `Props/C11.lean`).
-/
namespace Vore.Pratt
open Vore Vore.Tables Vore.Spec.Grammar

/-! ## more fuel does not change a definite result -/

theorem mono_step (pt : PrecTable) : ∀ f : Nat,
    (∀ toks m r, pratt pt f toks m = r → r ≠ .fuel → pratt pt (f + 1) toks m = r) ∧
    (∀ lhs toks m r, prattLoop pt f lhs toks m = r → r ≠ .fuel → prattLoop pt (f + 1) lhs toks m = r) := by
  intro f
  induction f with
  | zero =>
    exact ⟨fun toks m r h hr => by simp [pratt] at h; exact absurd h.symm hr,
           fun lhs toks m r h hr => by simp [prattLoop] at h; exact absurd h.symm hr⟩
  | succ f ih =>
    obtain ⟨ihp, ihl⟩ := ih
    constructor
    · intro toks m r h hr
      cases toks with
      | nil => simpa [pratt] using h
      | cons t rest =>
        cases t with
        | str s => simp only [pratt] at h ⊢; exact ihl _ _ _ _ h hr
        | num n => simp only [pratt] at h ⊢; exact ihl _ _ _ _ h hr
        | tru => simp only [pratt] at h ⊢; exact ihl _ _ _ _ h hr
        | fls => simp only [pratt] at h ⊢; exact ihl _ _ _ _ h hr
        | ident x => simp only [pratt] at h ⊢; exact ihl _ _ _ _ h hr
        | rparen => simpa [pratt] using h
        | lparen =>
          simp only [pratt] at h ⊢
          cases hp : pratt pt f rest 0 with
          | fuel => rw [hp] at h; exact absurd h.symm hr
          | ok e rest' =>
            rw [hp] at h
            rw [ihp _ _ _ hp (by simp)]
            cases rest' with
            | nil => exact h
            | cons t' r'' =>
              cases t' <;> first | exact h | (simp only at h ⊢; exact ihl _ _ _ _ h hr)
          | err r' => rw [hp] at h; rw [ihp _ _ _ hp (by simp)]; exact h
        | op o =>
          simp only [pratt] at h ⊢
          by_cases hpre : pt.prefixOp o = true
          · simp only [hpre, if_true] at h ⊢
            cases hp : pratt pt f rest (pt.prefixPrecedence o) with
            | fuel => rw [hp] at h; exact absurd h.symm hr
            | ok e rest' =>
              rw [hp] at h; rw [ihp _ _ _ hp (by simp)]
              simp only at h ⊢; exact ihl _ _ _ _ h hr
            | err r' => rw [hp] at h; rw [ihp _ _ _ hp (by simp)]; exact h
          · simp only [hpre] at h ⊢; exact h
    · intro lhs toks m r h hr
      cases toks with
      | nil => simpa [prattLoop] using h
      | cons t rest =>
        cases t with
        | str s => simpa [prattLoop] using h
        | num n => simpa [prattLoop] using h
        | tru => simpa [prattLoop] using h
        | fls => simpa [prattLoop] using h
        | ident x => simpa [prattLoop] using h
        | rparen => simpa [prattLoop] using h
        | lparen => simpa [prattLoop] using h
        | op o =>
          simp only [prattLoop] at h ⊢
          by_cases hb : pt.binaryOp o = true
          · simp only [hb, if_true] at h ⊢
            by_cases hlt : (pt.infixPrecedence o).1 < m
            · simp only [hlt, if_true] at h ⊢; exact h
            · simp only [hlt, if_false] at h ⊢
              cases hp : pratt pt f rest (pt.infixPrecedence o).2 with
              | fuel => rw [hp] at h; exact absurd h.symm hr
              | ok e rest' =>
                rw [hp] at h; rw [ihp _ _ _ hp (by simp)]
                simp only at h ⊢; exact ihl _ _ _ _ h hr
              | err r' => rw [hp] at h; rw [ihp _ _ _ hp (by simp)]; exact h
          · simp only [hb] at h ⊢; exact h

theorem pratt_mono (pt : PrecTable) {f F : Nat} (hle : f ≤ F) {toks : List PTok} {m : Int} {r : PRes}
    (h : pratt pt f toks m = r) (hr : r ≠ .fuel) : pratt pt F toks m = r := by
  induction hle with
  | refl => exact h
  | step _ ih => exact (mono_step pt _).1 _ _ _ ih hr

theorem loop_mono (pt : PrecTable) {f F : Nat} (hle : f ≤ F) {lhs : PExpr} {toks : List PTok} {m : Int} {r : PRes}
    (h : prattLoop pt f lhs toks m = r) (hr : r ≠ .fuel) : prattLoop pt F lhs toks m = r := by
  induction hle with
  | refl => exact h
  | step _ ih => exact (mono_step pt _).2 _ _ _ _ ih hr

/-! ## what the proofs need from the precedence tables -/

/-- the precedence tables implement the documented strata: every documented binary operator
is a binary operator with binding powers `(2·level − 1, 2·level)` (left associative), and
every documented prefix operator is a prefix operator binding tighter than all of them -/
def PrecOK (pt : PrecTable) : Bool :=
  binaryOps.all (fun o => pt.binaryOp o && decide (pt.infixPrecedence o = (2 * (level o : Int) - 1, 2 * (level o : Int))))
  && prefixOps.all (fun o => pt.prefixOp o && decide (9 < pt.prefixPrecedence o))

theorem PrecOK.bin {pt : PrecTable} (h : PrecOK pt = true) {o : Op} (ho : o ∈ binaryOps) :
    pt.binaryOp o = true ∧ (pt.infixPrecedence o).1 = 2 * (level o : Int) - 1
      ∧ (pt.infixPrecedence o).2 = 2 * (level o : Int) := by
  unfold PrecOK at h
  rw [Bool.and_eq_true] at h
  have := List.all_eq_true.mp h.1 o ho
  simp only [Bool.and_eq_true, decide_eq_true_eq] at this
  exact ⟨this.1, by rw [this.2], by rw [this.2]⟩

theorem PrecOK.pre {pt : PrecTable} (h : PrecOK pt = true) {o : Op} (ho : o ∈ prefixOps) :
    pt.prefixOp o = true ∧ 9 < pt.prefixPrecedence o := by
  unfold PrecOK at h
  rw [Bool.and_eq_true] at h
  have := List.all_eq_true.mp h.2 o ho
  simpa using this

theorem level_pos {o : Op} (ho : o ∈ binaryOps) : 1 ≤ level o ∧ level o ≤ 5 := by
  simp only [binaryOps, List.mem_cons, List.mem_nil_iff, or_false] at ho
  rcases ho with h | h | h | h | h | h | h | h | h | h | h | h | h <;> subst h <;> decide

/-- what may follow an operand printed where level `k` is expected: nothing, a closing
parenthesis, or a documented binary operator of level at most `k` -/
def RestOK (k : Nat) : List PTok → Prop
  | [] => True
  | .rparen :: _ => True
  | .op o :: _ => o ∈ binaryOps ∧ level o ≤ k
  | _ => False

theorem RestOK.weaken {k k' : Nat} (h : k ≤ k') : ∀ {rest : List PTok}, RestOK k rest → RestOK k' rest
  | [], _ => trivial
  | .rparen :: _, _ => trivial
  | .op _ :: _, hr => ⟨hr.1, Nat.le_trans hr.2 h⟩
  | .str _ :: _, hr => hr.elim
  | .num _ :: _, hr => hr.elim
  | .tru :: _, hr => hr.elim
  | .fls :: _, hr => hr.elim
  | .ident _ :: _, hr => hr.elim
  | .lparen :: _, hr => hr.elim

/-- the loop stops in front of `rest` when only operators binding at least `m` may continue
and `rest` starts with nothing, `)` or a weaker operator -/
theorem loop_stops {pt : PrecTable} (hpt : PrecOK pt = true) (f : Nat) (lhs : PExpr) (k : Nat) (m : Int)
    (hm : 2 * (k : Int) - 1 < m) : ∀ {rest : List PTok}, RestOK k rest →
      prattLoop pt (f + 1) lhs rest m = .ok lhs rest
  | [], _ => by simp [prattLoop]
  | .rparen :: _, _ => by simp [prattLoop]
  | .op o :: rest, hr => by
    obtain ⟨hb, hl, _⟩ := PrecOK.bin hpt hr.1
    have : (pt.infixPrecedence o).1 < m := by
      rw [hl]; have : (level o : Int) ≤ k := by exact_mod_cast hr.2
      omega
    simp [prattLoop, hb, this]
  | .str _ :: _, hr => hr.elim
  | .num _ :: _, hr => hr.elim
  | .tru :: _, hr => hr.elim
  | .fls :: _, hr => hr.elim
  | .ident _ :: _, hr => hr.elim
  | .lparen :: _, hr => hr.elim

theorem fuel_pos {pt : PrecTable} {f : Nat} {lhs : PExpr} {toks : List PTok} {m : Int} {r : PRes}
    (h : prattLoop pt f lhs toks m = r) (hr : r ≠ .fuel) : ∃ f', f = f' + 1 := by
  cases f with
  | zero => simp [prattLoop] at h; exact absurd h.symm hr
  | succ f' => exact ⟨f', rfl⟩

/-- parsing an atom enters the loop with that atom -/
theorem pratt_atom (pt : PrecTable) (e : PExpr) (hne : ∀ o a, e ≠ .un o a) (hnb : ∀ o a b, e ≠ .bin o a b)
    (F : Nat) (rest : List PTok) (m : Int) :
    pratt pt (F + 1) (atomTok e :: rest) m = prattLoop pt F e rest m := by
  cases e with
  | un o a => exact absurd rfl (hne o a)
  | bin o a b => exact absurd rfl (hnb o a b)
  | str s => simp [atomTok, pratt]
  | num n => simp [atomTok, pratt]
  | var x => simp [atomTok, pratt]
  | bool b => cases b <;> simp [atomTok, pratt]

/-- a parenthesised group: if the inside parses to `e` in front of `)`, the parser continues
the loop with `e` after the `)` -/
theorem pratt_paren (pt : PrecTable) (F : Nat) (inner rest : List PTok) (e : PExpr) (m : Int)
    (h : pratt pt F inner 0 = .ok e (.rparen :: rest)) :
    pratt pt (F + 1) (.lparen :: inner) m = prattLoop pt F e rest m := by
  simp [pratt, h]

/-! ## fully parenthesised renderings -/

theorem pratt_renderFull {pt : PrecTable} (hpt : PrecOK pt = true) : ∀ (t : PExpr), WF t →
    ∀ (m : Int) (rest : List PTok) (f F : Nat) (r : PRes),
      prattLoop pt f t rest m = r → r ≠ .fuel → f + (renderFull t).length ≤ F →
      pratt pt F (renderFull t ++ rest) m = r
  | .str s, _, m, rest, f, F, r, h, hr, hF => by
    obtain ⟨F', rfl⟩ : ∃ F', F = F' + 1 := ⟨F - 1, by simp [renderFull] at hF; omega⟩
    simp only [renderFull, List.singleton_append]
    rw [pratt_atom pt (.str s) (by simp) (by simp)]
    exact loop_mono pt (by simp [renderFull] at hF; omega) h hr
  | .num n, _, m, rest, f, F, r, h, hr, hF => by
    obtain ⟨F', rfl⟩ : ∃ F', F = F' + 1 := ⟨F - 1, by simp [renderFull] at hF; omega⟩
    simp only [renderFull, List.singleton_append]
    rw [pratt_atom pt (.num n) (by simp) (by simp)]
    exact loop_mono pt (by simp [renderFull] at hF; omega) h hr
  | .bool b, _, m, rest, f, F, r, h, hr, hF => by
    obtain ⟨F', rfl⟩ : ∃ F', F = F' + 1 := ⟨F - 1, by simp [renderFull] at hF; omega⟩
    simp only [renderFull, List.singleton_append]
    rw [pratt_atom pt (.bool b) (by simp) (by simp)]
    exact loop_mono pt (by simp [renderFull] at hF; omega) h hr
  | .var x, _, m, rest, f, F, r, h, hr, hF => by
    obtain ⟨F', rfl⟩ : ∃ F', F = F' + 1 := ⟨F - 1, by simp [renderFull] at hF; omega⟩
    simp only [renderFull, List.singleton_append]
    rw [pratt_atom pt (.var x) (by simp) (by simp)]
    exact loop_mono pt (by simp [renderFull] at hF; omega) h hr
  | .un o e, hwf, m, rest, f, F, r, h, hr, hF => by
    obtain ⟨hpre, hpp⟩ := PrecOK.pre hpt hwf.1
    have hlen : (renderFull (.un o e)).length = (renderFull e).length + 3 := by
      simp [renderFull]
    rw [hlen] at hF
    obtain ⟨f', rfl⟩ := fuel_pos h hr
    obtain ⟨F2, rfl⟩ : ∃ F2, F = F2 + 2 := ⟨F - 2, by omega⟩
    have hin : pratt pt (F2 + 1) ((.op o :: renderFull e) ++ .rparen :: rest) 0
        = .ok (.un o e) (.rparen :: rest) := by
      simp only [List.cons_append, pratt, hpre, if_true]
      have he : pratt pt F2 (renderFull e ++ .rparen :: rest) (pt.prefixPrecedence o)
          = .ok e (.rparen :: rest) :=
        pratt_renderFull hpt e hwf.2 _ _ 1 F2 _ (by simp [prattLoop]) (by simp) (by omega)
      rw [he]
      obtain ⟨F3, rfl⟩ : ∃ F3, F2 = F3 + 1 := ⟨F2 - 1, by omega⟩
      simp [prattLoop]
    have : renderFull (.un o e) ++ rest = .lparen :: ((.op o :: renderFull e) ++ .rparen :: rest) := by
      simp [renderFull]
    rw [this, pratt_paren pt (F2 + 1) _ rest (.un o e) m hin]
    exact loop_mono pt (by omega) h hr
  | .bin o l r', hwf, m, rest, f, F, r, h, hr, hF => by
    obtain ⟨hb, hlp, hrp⟩ := PrecOK.bin hpt hwf.1
    obtain ⟨hl1, _⟩ := level_pos hwf.1
    have hlen : (renderFull (.bin o l r')).length = (renderFull l).length + (renderFull r').length + 3 := by
      simp [renderFull]; omega
    rw [hlen] at hF
    obtain ⟨f', rfl⟩ := fuel_pos h hr
    obtain ⟨F1, rfl⟩ : ∃ F1, F = F1 + 1 := ⟨F - 1, by omega⟩
    have hin : pratt pt F1 ((renderFull l ++ .op o :: renderFull r') ++ .rparen :: rest) 0
        = .ok (.bin o l r') (.rparen :: rest) := by
      have hr2 : pratt pt (1 + (renderFull r').length + 1) (renderFull r' ++ .rparen :: rest) (pt.infixPrecedence o).2
          = .ok r' (.rparen :: rest) :=
        pratt_renderFull hpt r' hwf.2.2 _ _ 1 _ _ (by simp [prattLoop]) (by simp) (by omega)
      have hloop : prattLoop pt (1 + (renderFull r').length + 2) l (.op o :: (renderFull r' ++ .rparen :: rest)) 0
          = .ok (.bin o l r') (.rparen :: rest) := by
        have hnlt : ¬ (pt.infixPrecedence o).1 < 0 := by rw [hlp]; omega
        simp only [prattLoop, hb, if_true, hnlt, if_false]
        rw [hr2]
        simp [prattLoop]
      have := pratt_renderFull hpt l hwf.2.1 0 (.op o :: (renderFull r' ++ .rparen :: rest))
        (1 + (renderFull r').length + 2) F1 _ hloop (by simp) (by omega)
      simpa [List.append_assoc] using this
    have : renderFull (.bin o l r') ++ rest = .lparen :: ((renderFull l ++ .op o :: renderFull r') ++ .rparen :: rest) := by
      simp [renderFull]
    rw [this, pratt_paren pt F1 _ rest (.bin o l r') m hin]
    exact loop_mono pt (by omega) h hr

/-! ## minimally parenthesised renderings -/

theorem renderMin_atom (k : Nat) (e : PExpr) (hne : ∀ o a, e ≠ .un o a) (hnb : ∀ o a b, e ≠ .bin o a b) :
    renderMin k e = [atomTok e] := by
  cases e with
  | un o a => exact absurd rfl (hne o a)
  | bin o a b => exact absurd rfl (hnb o a b)
  | str s => rfl
  | num n => rfl
  | var x => rfl
  | bool b => rfl

theorem pratt_renderMin {pt : PrecTable} (hpt : PrecOK pt = true) : ∀ (t : PExpr), WF t →
    ∀ (k : Nat) (m : Int) (rest : List PTok) (f F : Nat) (r : PRes),
      (k ≤ 5 → m ≤ 2 * (k : Int) - 1) → RestOK k rest →
      prattLoop pt f t rest m = r → r ≠ .fuel → f + (renderMin k t).length ≤ F →
      pratt pt F (renderMin k t ++ rest) m = r
  | .str s, _, k, m, rest, f, F, r, _, _, h, hr, hF => by
    rw [renderMin_atom k (.str s) (by simp) (by simp)] at hF ⊢
    obtain ⟨F', rfl⟩ : ∃ F', F = F' + 1 := ⟨F - 1, by simp at hF; omega⟩
    rw [List.singleton_append, pratt_atom pt (.str s) (by simp) (by simp)]
    exact loop_mono pt (by simp at hF; omega) h hr
  | .num n, _, k, m, rest, f, F, r, _, _, h, hr, hF => by
    rw [renderMin_atom k (.num n) (by simp) (by simp)] at hF ⊢
    obtain ⟨F', rfl⟩ : ∃ F', F = F' + 1 := ⟨F - 1, by simp at hF; omega⟩
    rw [List.singleton_append, pratt_atom pt (.num n) (by simp) (by simp)]
    exact loop_mono pt (by simp at hF; omega) h hr
  | .bool b, _, k, m, rest, f, F, r, _, _, h, hr, hF => by
    rw [renderMin_atom k (.bool b) (by simp) (by simp)] at hF ⊢
    obtain ⟨F', rfl⟩ : ∃ F', F = F' + 1 := ⟨F - 1, by simp at hF; omega⟩
    rw [List.singleton_append, pratt_atom pt (.bool b) (by simp) (by simp)]
    exact loop_mono pt (by simp at hF; omega) h hr
  | .var x, _, k, m, rest, f, F, r, _, _, h, hr, hF => by
    rw [renderMin_atom k (.var x) (by simp) (by simp)] at hF ⊢
    obtain ⟨F', rfl⟩ : ∃ F', F = F' + 1 := ⟨F - 1, by simp at hF; omega⟩
    rw [List.singleton_append, pratt_atom pt (.var x) (by simp) (by simp)]
    exact loop_mono pt (by simp at hF; omega) h hr
  | .un o e, hwf, k, m, rest, f, F, r, _, hrest, h, hr, hF => by
    obtain ⟨hpre, hpp⟩ := PrecOK.pre hpt hwf.1
    have hlen : (renderMin k (.un o e)).length = (renderMin 6 e).length + 1 := by simp [renderMin]
    rw [hlen] at hF
    obtain ⟨f', rfl⟩ := fuel_pos h hr
    obtain ⟨F1, rfl⟩ : ∃ F1, F = F1 + 1 := ⟨F - 1, by omega⟩
    have he : pratt pt F1 (renderMin 6 e ++ rest) (pt.prefixPrecedence o) = .ok e rest := by
      refine pratt_renderMin hpt e hwf.2 6 _ rest 1 F1 _ (by omega) ?_ ?_ (by simp) (by omega)
      · exact RestOK.weaken (k := 6) (k' := 6) (Nat.le_refl _) (by
          cases rest with
          | nil => trivial
          | cons t rest' =>
            cases t <;> first | trivial | exact hrest.elim | skip
            exact ⟨hrest.1, Nat.le_trans (level_pos hrest.1).2 (by decide)⟩)
      · cases rest with
        | nil => simp [prattLoop]
        | cons t rest' =>
          cases t <;> first | exact hrest.elim | simp [prattLoop] | skip
          rename_i o2
          obtain ⟨hb2, hl2, _⟩ := PrecOK.bin hpt hrest.1
          have hlv := (level_pos hrest.1).2
          have : (pt.infixPrecedence o2).1 < pt.prefixPrecedence o := by
            rw [hl2]; have : (level o2 : Int) ≤ 5 := by exact_mod_cast hlv
            omega
          simp [hb2, this]
    have : renderMin k (.un o e) ++ rest = .op o :: (renderMin 6 e ++ rest) := by simp [renderMin]
    rw [this]
    simp only [pratt, hpre, if_true, he]
    exact loop_mono pt (by omega) h hr
  | .bin o l r', hwf, k, m, rest, f, F, r, hm, hrest, h, hr, hF => by
    obtain ⟨hb, hlp, hrp⟩ := PrecOK.bin hpt hwf.1
    obtain ⟨hl1, _⟩ := level_pos hwf.1
    -- the unparenthesised body, wherever level k' ≤ level o is expected
    have body : ∀ (k' : Nat) (m' : Int) (rest' : List PTok) (f F : Nat) (r : PRes),
        k' ≤ level o → m' ≤ 2 * (k' : Int) - 1 → RestOK k' rest' →
        prattLoop pt f (.bin o l r') rest' m' = r → r ≠ .fuel →
        f + ((renderMin (level o) l).length + 1 + (renderMin (level o + 1) r').length) ≤ F →
        pratt pt F ((renderMin (level o) l ++ [.op o] ++ renderMin (level o + 1) r') ++ rest') m' = r := by
      intro k' m' rest' f F r hk' hm' hrest' h hr hF
      obtain ⟨f', rfl⟩ := fuel_pos h hr
      have hk'i : (k' : Int) ≤ level o := by exact_mod_cast hk'
      have hr2 : pratt pt (1 + (renderMin (level o + 1) r').length) (renderMin (level o + 1) r' ++ rest')
          (pt.infixPrecedence o).2 = .ok r' rest' := by
        refine pratt_renderMin hpt r' hwf.2.2 (level o + 1) _ rest' 1 _ _ ?_ ?_ ?_ (by simp) (Nat.le_refl _)
        · intro _; rw [hrp]; push_cast; omega
        · exact RestOK.weaken (by omega) hrest'
        · exact loop_stops hpt 0 r' k' _ (by rw [hrp]; omega) hrest'
      have hloop : prattLoop pt (f' + 1 + (renderMin (level o + 1) r').length + 1) l
          (.op o :: (renderMin (level o + 1) r' ++ rest')) m' = r := by
        have hnlt : ¬ (pt.infixPrecedence o).1 < m' := by rw [hlp]; omega
        simp only [prattLoop, hb, if_true, hnlt, if_false]
        rw [pratt_mono pt (by omega) hr2 (by simp)]
        exact loop_mono pt (by omega) h hr
      have := pratt_renderMin hpt l hwf.2.1 (level o) m' (.op o :: (renderMin (level o + 1) r' ++ rest'))
        _ F r (fun _ => by omega) ⟨hwf.1, Nat.le_refl _⟩ hloop hr (by omega)
      simpa [List.append_assoc] using this
    by_cases hlt : level o < k
    · -- parenthesised
      have hren : renderMin k (.bin o l r') =
          .lparen :: ((renderMin (level o) l ++ [.op o] ++ renderMin (level o + 1) r') ++ [.rparen]) := by
        simp [renderMin, hlt]
      have hlen : (renderMin k (.bin o l r')).length =
          (renderMin (level o) l).length + 1 + (renderMin (level o + 1) r').length + 2 := by
        rw [hren]; simp; omega
      rw [hlen] at hF
      obtain ⟨f', rfl⟩ := fuel_pos h hr
      obtain ⟨F1, rfl⟩ : ∃ F1, F = F1 + 1 := ⟨F - 1, by omega⟩
      have hin := body (level o) 0 (.rparen :: rest) 1 F1 (.ok (.bin o l r') (.rparen :: rest))
        (Nat.le_refl _) (by omega) trivial (by simp [prattLoop]) (by simp) (by omega)
      have : renderMin k (.bin o l r') ++ rest =
          .lparen :: (((renderMin (level o) l ++ [.op o] ++ renderMin (level o + 1) r')) ++ .rparen :: rest) := by
        rw [hren]; simp
      rw [this, pratt_paren pt F1 _ rest (.bin o l r') m hin]
      exact loop_mono pt (by omega) h hr
    · have hren : renderMin k (.bin o l r') =
          renderMin (level o) l ++ [.op o] ++ renderMin (level o + 1) r' := by
        simp [renderMin, hlt]
      have hlen : (renderMin k (.bin o l r')).length =
          (renderMin (level o) l).length + 1 + (renderMin (level o + 1) r').length := by
        rw [hren]; simp; omega
      rw [hlen] at hF
      rw [hren]
      exact body k m rest f F r (by omega) (hm (by omega)) hrest h hr (by omega)

/-- `parse_expr_pratt(tokens, 0, 0)` reads back the fully parenthesised rendering -/
theorem parseTokens_renderFull {pt : PrecTable} (hpt : PrecOK pt = true) (t : PExpr) (hwf : WF t) :
    parseTokens pt (renderFull t) = .ok t [] := by
  have := pratt_renderFull hpt t hwf 0 [] 1 ((renderFull t).length + 1) (.ok t [])
    (by simp [prattLoop]) (by simp) (by omega)
  simpa [parseTokens] using this

/-- `parse_expr_pratt(tokens, 0, 0)` reads back the minimally parenthesised rendering -/
theorem parseTokens_renderMin {pt : PrecTable} (hpt : PrecOK pt = true) (t : PExpr) (hwf : WF t) :
    parseTokens pt (renderMin 1 t) = .ok t [] := by
  have := pratt_renderMin hpt t hwf 1 0 [] 1 ((renderMin 1 t).length + 1) (.ok t [])
    (fun _ => by omega) trivial (by simp [prattLoop]) (by simp) (by omega)
  simpa [parseTokens] using this

/-! ## `getProcessExpressionTokens` on renderings -/

/-- Go token type names of the tokens a rendering can contain -/
def renderNames : List String :=
  ["STRING", "NUMBER", "TRUE", "FALSE", "IDENTIFIER", "OPENPAREN", "CLOSEPAREN"]
    ++ (binaryOps ++ prefixOps).map opGoName

/-- no token of a rendering ends an expression, and none is white space or a comment -/
def ExprEndOK (pt : PrecTable) : Bool :=
  renderNames.all (fun n => !pt.exprEnd.contains n && !(n == "WS") && !(n == "COMMENT"))

def okTok : PTok → Prop
  | .op o => o ∈ binaryOps ++ prefixOps
  | _ => True

theorem okTok_name {t : PTok} (h : okTok t) : t.goName ∈ renderNames := by
  cases t with
  | op o => exact List.mem_append_right _ (List.mem_map_of_mem h)
  | str s => simp [PTok.goName, renderNames]
  | num n => simp [PTok.goName, renderNames]
  | tru => simp [PTok.goName, renderNames]
  | fls => simp [PTok.goName, renderNames]
  | ident x => simp [PTok.goName, renderNames]
  | lparen => simp [PTok.goName, renderNames]
  | rparen => simp [PTok.goName, renderNames]

theorem exprTokens_ok {pt : PrecTable} (hpt : ExprEndOK pt = true) (e : PTok) (he : isExprEnd pt e = true)
    (rest : List PTok) : ∀ (toks : List PTok), (∀ t ∈ toks, okTok t) →
      exprTokens pt (toks ++ e :: rest) = (toks, e :: rest)
  | [], _ => by simp [exprTokens, he]
  | t :: ts, h => by
    have ht := okTok_name (h t (List.mem_cons_self))
    have := List.all_eq_true.mp hpt _ ht
    simp only [Bool.and_eq_true, Bool.not_eq_true'] at this
    have ih := exprTokens_ok hpt e he rest ts (fun t' ht' => h t' (List.mem_cons_of_mem _ ht'))
    simp only [List.cons_append, exprTokens, isExprEnd, this.1.1, this.1.2, this.2, ih]
    simp

theorem atomTok_ok (e : PExpr) : okTok (atomTok e) := by
  cases e with
  | bool b => cases b <;> trivial
  | _ => trivial

theorem renderMin_ok : ∀ (t : PExpr), WF t → ∀ (k : Nat), ∀ x ∈ renderMin k t, okTok x
  | .str s, _, k, x, hx => by simp [renderMin] at hx; subst hx; exact atomTok_ok _
  | .num n, _, k, x, hx => by simp [renderMin] at hx; subst hx; exact atomTok_ok _
  | .bool b, _, k, x, hx => by simp [renderMin] at hx; subst hx; exact atomTok_ok _
  | .var v, _, k, x, hx => by simp [renderMin] at hx; subst hx; exact atomTok_ok _
  | .un o e, hwf, k, x, hx => by
    simp only [renderMin, List.mem_cons] at hx
    rcases hx with rfl | hx
    · exact List.mem_append_right _ hwf.1
    · exact renderMin_ok e hwf.2 6 x hx
  | .bin o l r, hwf, k, x, hx => by
    have hop : okTok (.op o) := List.mem_append_left _ hwf.1
    by_cases hlt : level o < k
    · simp only [renderMin, hlt, if_true, List.mem_append, List.mem_cons, List.mem_nil_iff, or_false] at hx
      rcases hx with (rfl | ((hx | rfl) | hx)) | rfl
      · trivial
      · exact renderMin_ok l hwf.2.1 _ x hx
      · exact hop
      · exact renderMin_ok r hwf.2.2 _ x hx
      · trivial
    · simp only [renderMin, hlt, if_false, List.mem_append, List.mem_cons, List.mem_nil_iff, or_false] at hx
      rcases hx with (hx | rfl) | hx
      · exact renderMin_ok l hwf.2.1 _ x hx
      · exact hop
      · exact renderMin_ok r hwf.2.2 _ x hx

theorem renderFull_ok : ∀ (t : PExpr), WF t → ∀ x ∈ renderFull t, okTok x
  | .str s, _, x, hx => by simp [renderFull] at hx; subst hx; exact atomTok_ok _
  | .num n, _, x, hx => by simp [renderFull] at hx; subst hx; exact atomTok_ok _
  | .bool b, _, x, hx => by simp [renderFull] at hx; subst hx; exact atomTok_ok _
  | .var v, _, x, hx => by simp [renderFull] at hx; subst hx; exact atomTok_ok _
  | .un o e, hwf, x, hx => by
    simp only [renderFull, List.mem_append, List.mem_cons, List.mem_nil_iff, or_false] at hx
    rcases hx with ((rfl | rfl) | hx) | rfl
    · trivial
    · exact List.mem_append_right _ hwf.1
    · exact renderFull_ok e hwf.2 x hx
    · trivial
  | .bin o l r, hwf, x, hx => by
    simp only [renderFull, List.mem_append, List.mem_cons, List.mem_nil_iff, or_false] at hx
    rcases hx with (((rfl | hx) | rfl) | hx) | rfl
    · trivial
    · exact renderFull_ok l hwf.2.1 x hx
    · exact List.mem_append_left _ hwf.1
    · exact renderFull_ok r hwf.2.2 x hx
    · trivial

end Vore.Pratt
