import Vore.Lemmas.Json
import Vore.Model.Engine
/-!
# Vore.Lemmas.JsonWF — every variable map the VM builds is a finite map (C17)

`VMap.WF`: no key occurs twice, at any depth.  It holds of the environment and of every
named-loop map of the running state and of every saved state, it is preserved by every VM
instruction (maps are only ever extended with `VMap.put`), hence it holds of the variables of
every match `findMatches` / `runProgram` return — for every instruction list, text and fuel.
With `C17_wellformed` this makes every object of the JSON tree a finite map.
-/
namespace Vore

theorem VMap.wf_get : ∀ (m : VMap), m.WF → ∀ k v, m.get k = some v → v.WF
  | .nil, _, k, v, h => by simp [VMap.get] at h
  | .cons k' w rest, hm, k, v, h => by
    simp only [VMap.WF] at hm
    simp only [VMap.get] at h
    split at h
    · simp only [Option.some.injEq] at h; subst h; exact hm.2.1
    · exact VMap.wf_get rest hm.2.2 k v h

theorem VMap.wf_single (k : String) (v : Val) (hv : v.WF) : (VMap.cons k v .nil).WF := by
  simp [VMap.WF, VMap.get, hv]

theorem Val.wf_emptyMap : (Val.map .nil).WF := by simp [Val.WF, VMap.WF]

/-- the variable maps of one state -/
structure WInv (c : Core) : Prop where
  env_wf : c.env.WF
  loops_wf : ∀ l ∈ c.loops, l.vars.WF

def AllW (s : VMState) : Prop := WInv s.core ∧ ∀ c ∈ s.bt, WInv c

def StepW : Step → Prop
  | .cont s => AllW s
  | .done (.success c) => WInv c
  | .done _ => True

/-- the invariant only looks at `env` and `loops` -/
theorem WInv.congr {c c' : Core} (h : WInv c) (he : c'.env = c.env) (hl : c'.loops = c.loops) : WInv c' :=
  ⟨by rw [he]; exact h.env_wf, by rw [hl]; exact h.loops_wf⟩

theorem WInv.withPc {c : Core} (h : WInv c) (pc : Nat) : WInv { c with pc := pc } := ⟨h.env_wf, h.loops_wf⟩

theorem stepW_next {s} (h : AllW s) : StepW s.next := ⟨h.1.congr rfl rfl, h.2⟩

theorem stepW_backtrack {s} (h : AllW s) : StepW s.backtrack := by
  unfold VMState.backtrack
  cases hb : s.bt with
  | nil => simp [StepW]
  | cons c rest =>
    simp only [StepW, AllW]
    have h2 := h.2
    rw [hb] at h2
    exact ⟨h2 c (by simp), fun d hd => h2 d (by simp [hd])⟩

theorem stepW_anchor {s} (h : AllW s) (cond neg : Bool) : StepW (s.anchor cond neg) := by
  unfold VMState.anchor; split
  · exact stepW_next h
  · exact stepW_backtrack h

theorem WInv.consume {c} (h : WInv c) (text : Bytes) (n : Nat) : WInv (c.consume text n) := by
  unfold Core.consume; exact h.congr rfl rfl

theorem stepW_consumeNext {s} (h : AllW s) (text : Bytes) (n : Nat) : StepW (s.consumeNext text n) :=
  ⟨(h.1.consume text n).congr rfl rfl, h.2⟩

theorem stepW_matchLit {s} (h : AllW s) (text v : Bytes) (neg cl : Bool) : StepW (s.matchLit text v neg cl) := by
  unfold VMState.matchLit
  simp only
  (repeat' split) <;>
    first
      | exact stepW_backtrack h
      | exact stepW_consumeNext h _ _

theorem stepW_matchRangeLoop {s} (h : AllW s) (text lo hi : Bytes) (neg : Bool) :
    ∀ k, StepW (matchRangeLoop text s lo hi neg k) := by
  intro k
  induction k with
  | zero => exact stepW_backtrack h
  | succ k ih =>
    unfold matchRangeLoop
    simp only
    split
    · exact ih
    · split
      · exact stepW_consumeNext h _ _
      · exact ih

theorem stepW_matchRange {s} (h : AllW s) (text lo hi : Bytes) (neg : Bool) : StepW (s.matchRange text lo hi neg) :=
  stepW_matchRangeLoop h text lo hi neg _

theorem stepW_matchClass {s} (h : AllW s) (text : Bytes) (c : Class) (neg : Bool) : StepW (s.matchClass text c neg) := by
  unfold VMState.matchClass
  cases c <;> simp only <;>
    (repeat' split) <;>
    first
      | exact stepW_backtrack h
      | exact stepW_next h
      | exact stepW_consumeNext h _ _
      | exact stepW_anchor h _ _
      | exact stepW_matchRange h _ _ _ _

/-! ### variable insertion -/

theorem insertInLoops_wf (x : String) (v : Val) (hv : v.WF) :
    ∀ (ls ls' : List LoopSt), (∀ l ∈ ls, l.vars.WF) → insertInLoops ls x v = some ls' → ∀ l ∈ ls', l.vars.WF := by
  intro ls
  induction ls with
  | nil => intro ls' _ h; simp [insertInLoops] at h
  | cons l rest ih =>
    intro ls' hall h
    unfold insertInLoops at h
    split at h
    · simp only [Option.some.injEq] at h
      subst h
      intro l' hl'
      simp only [List.mem_cons] at hl'
      rcases hl' with rfl | hl'
      · have hl := hall l (by simp)
        simp only
        apply VMap.wf_put _ _ _ hl
        simp only [Val.WF]
        split
        · next m hg =>
          have := VMap.wf_get _ hl _ _ hg
          simp only [Val.WF] at this
          exact VMap.wf_put _ _ _ this hv
        · next sv hg =>
          exact VMap.wf_put _ _ _ (VMap.wf_single _ _ (by simp [Val.WF])) hv
        · exact VMap.wf_single _ _ hv
      · exact hall l' (by simp [hl'])
    · cases hr : insertInLoops rest x v with
      | none => simp [hr] at h
      | some r =>
        simp [hr] at h
        subst h
        intro l' hl'
        simp only [List.mem_cons] at hl'
        rcases hl' with rfl | hl'
        · exact hall _ (by simp)
        · exact ih r (fun l hl => hall l (by simp [hl])) hr l' hl'

theorem WInv.insertVar {c} (h : WInv c) (x : String) (v : Val) (hv : v.WF) : WInv (c.insertVar x v) := by
  unfold Core.insertVar
  split
  · next ls hls => exact ⟨h.env_wf, insertInLoops_wf x v hv _ _ h.loops_wf hls⟩
  · exact ⟨VMap.wf_put _ _ _ h.env_wf hv, h.loops_wf⟩

theorem WInv.withLoops {c} (h : WInv c) (ls : List LoopSt) (hls : ∀ l ∈ ls, l.vars.WF) :
    WInv { c with loops := ls } := ⟨h.env_wf, hls⟩

theorem WInv.popLoop {c} (h : WInv c) (top : LoopSt) (rest : List LoopSt) (htop : top.vars.WF)
    (hrest : ∀ l ∈ rest, l.vars.WF) : WInv (c.popLoop top rest) := by
  unfold Core.popLoop
  simp only
  split
  · exact (h.withLoops rest hrest).insertVar _ _ (by simpa [Val.WF] using htop)
  · exact h.withLoops rest hrest

theorem stepW_startLoop {s} (h : AllW s) (id mn : Nat) (mx : Int) (fw : Bool) (ex : Nat) (nm : String) :
    StepW (s.startLoop id mn mx fw ex nm) := by
  unfold VMState.startLoop
  simp only
  have hnew : (VMap.cons "0" (.map .nil) .nil).WF := VMap.wf_single _ _ Val.wf_emptyMap
  split
  · exact stepW_backtrack h
  · next top rest hent =>
    have hboth : top.vars.WF ∧ ∀ l ∈ rest, l.vars.WF := by
      split at hent
      · next t r hl =>
        split at hent
        · simp only [Option.some.injEq, Prod.mk.injEq] at hent
          obtain ⟨rfl, rfl⟩ := hent
          exact ⟨hnew, h.1.loops_wf⟩
        · split at hent
          · simp at hent
          · simp only [Option.some.injEq, Prod.mk.injEq] at hent
            obtain ⟨rfl, rfl⟩ := hent
            have hl' := h.1.loops_wf
            rw [hl] at hl'
            refine ⟨?_, fun l hm => hl' l (by simp [hm])⟩
            exact VMap.wf_put _ _ _ (hl' t (by simp)) Val.wf_emptyMap
      · simp only [Option.some.injEq, Prod.mk.injEq] at hent
        obtain ⟨rfl, rfl⟩ := hent
        exact ⟨hnew, by simp⟩
    have hall : ∀ l ∈ top :: rest, l.vars.WF := by
      intro l hl; simp only [List.mem_cons] at hl
      rcases hl with rfl | hl
      · exact hboth.1
      · exact hboth.2 l hl
    have hc : WInv { s.core with loops := top :: rest } := h.1.withLoops _ hall
    split
    · exact ⟨hc.congr rfl rfl, h.2⟩
    · split
      · split
        · -- fewest
          refine ⟨?_, ?_⟩
          · exact ((hc.congr (c' := { { s.core with loops := top :: rest } with pc := s.core.pc + 1 }) rfl rfl).popLoop
              top rest hboth.1 hboth.2).congr rfl rfl
          · intro d hd
            simp only [List.mem_cons] at hd
            rcases hd with rfl | hd
            · exact hc.congr rfl rfl
            · exact h.2 d hd
        · -- greedy
          have hp : WInv (Core.popLoop { s.core with loops := top :: rest } top rest) :=
            hc.popLoop top rest hboth.1 hboth.2
          refine ⟨?_, ?_⟩
          · refine ⟨hp.env_wf, ?_⟩
            intro l hl
            simp only [List.mem_cons] at hl
            rcases hl with rfl | hl
            · exact hboth.1
            · exact hp.loops_wf l hl
          · intro d hd
            simp only [List.mem_cons] at hd
            rcases hd with rfl | hd
            · exact hp.congr rfl rfl
            · exact h.2 d hd
      · exact stepW_backtrack (s := ⟨{ s.core with loops := top :: rest }, s.bt⟩) ⟨hc, h.2⟩

theorem stepW_branch {s} (h : AllW s) (ts : List Nat) : StepW (s.branch ts) := by
  unfold VMState.branch
  split
  · simp [StepW]
  · refine ⟨h.1.congr rfl rfl, ?_⟩
    intro d hd
    simp only [List.mem_append, List.mem_map] at hd
    rcases hd with ⟨p, _, rfl⟩ | hd
    · exact h.1.congr rfl rfl
    · exact h.2 d hd

/-- every instruction keeps every variable map a finite map -/
theorem stepW_step (pf : Nat) (prog : List Instr) (text : Bytes) {s} (h : AllW s) : StepW (step pf prog text s) := by
  unfold step
  split
  · simp [StepW]
  · next i _ =>
    cases i <;> simp only
    case lit => exact stepW_matchLit h _ _ _ _
    case cls => exact stepW_matchClass h _ _ _
    case mvar =>
      split
      · exact stepW_backtrack h
      · exact stepW_backtrack h
      · split
        · exact stepW_next h
        · exact stepW_matchLit h _ _ _ _
    case rng => exact stepW_matchRange h _ _ _ _
    case call => exact ⟨h.1.congr rfl rfl, h.2⟩
    case branch => exact stepW_branch h _
    case startNotIn =>
      refine ⟨h.1.congr rfl rfl, ?_⟩
      intro d hd
      simp only [List.mem_cons] at hd
      rcases hd with rfl | hd
      · exact h.1.congr rfl rfl
      · exact h.2 d hd
    case failNotIn =>
      split
      · next c1 c2 rest hb =>
        have h2 := h.2
        rw [hb] at h2
        exact ⟨h2 c2 (by simp), fun d hd => h2 d (by simp [hd])⟩
      · simp [StepW]
    case endNotIn =>
      split
      · exact stepW_backtrack (s := ⟨s.core.consume text _, s.bt⟩) ⟨h.1.consume _ _, h.2⟩
      · exact ⟨(h.1.consume _ _).withPc _, h.2⟩
    case startLoop => exact stepW_startLoop h _ _ _ _ _ _
    case stopLoop => exact ⟨h.1.congr rfl rfl, h.2⟩
    case startVar => exact ⟨h.1.congr rfl rfl, h.2⟩
    case endVar =>
      split
      · simp [StepW]
      · next y off rest hv =>
        split
        · simp [StepW]
        · have h1 : WInv { s.core with vars := rest } := h.1.congr rfl rfl
          exact ⟨(h1.insertVar _ _ (by simp [Val.WF])).congr rfl rfl, h.2⟩
    case startSub => exact ⟨h.1.congr rfl rfl, h.2⟩
    case endSub =>
      split
      · simp [StepW]
      · next top rest hc =>
        have hret : StepW (.cont { s with core := { s.core with calls := rest, pc := top.ret } }) :=
          ⟨h.1.congr rfl rfl, h.2⟩
        split
        · exact hret
        · split
          · simp [StepW]
          · simp [StepW]
          · split
            · exact hret
            · exact stepW_backtrack h
    case jump => exact ⟨h.1.congr rfl rfl, h.2⟩

theorem run_wf (pf : Nat) (prog : List Instr) (text : Bytes) :
    ∀ n s c, AllW s → run pf prog text n s = some (.success c) → WInv c := by
  intro n
  induction n with
  | zero => intro s c _ h; simp [run] at h
  | succ n ih =>
    intro s c hs h
    unfold run at h
    split at h
    · simp only [Option.some.injEq, Outcome.success.injEq] at h; subst h; exact hs.1
    · have hok := stepW_step pf prog text hs
      split at h
      · next o ho =>
        simp only [Option.some.injEq] at h
        subst h
        rw [ho] at hok
        exact hok
      · next s' hs' =>
        rw [hs'] at hok
        exact ih s' c hok h

theorem initState_wf (pos line col : Nat) : AllW (initState pos line col) :=
  ⟨⟨by simp [initState, VMap.WF], by simp [initState]⟩, by simp [initState]⟩

/-! ### the scan loop, replace, `Run` -/

def VarsWF (ms : List Match) : Prop := ∀ m ∈ ms, m.vars.WF

theorem varsWF_limitLast (last : Nat) (ms : List Match) (h : VarsWF ms) : VarsWF (limitLast last ms) := by
  unfold limitLast
  split
  · intro m hm; exact h m (List.mem_of_mem_drop hm)
  · exact h

theorem classify_hit_run {r : Option Outcome} {c : Core} (h : classify r = .hit c) : r = some (.success c) := by
  match r, h with
  | some (.success c'), h =>
    simp only [classify] at h
    split at h
    · simp only [Attempt.hit.injEq] at h; subst h; rfl
    · simp at h
  | none, h => simp [classify] at h
  | some (.panic _), h => simp [classify] at h
  | some .pfuel, h => simp [classify] at h
  | some .fail, h => simp [classify] at h

theorem scan_wf (pf vf : Nat) (prog : List Instr) (amt : Amount) (text : Bytes) :
    ∀ f acc mn pos line col ms, VarsWF acc →
      scan pf vf prog amt text f acc mn pos line col = some (.ok ms) → VarsWF ms := by
  intro f
  induction f with
  | zero => intro acc mn pos line col ms _ h; simp [scan] at h
  | succ f ih =>
    intro acc mn pos line col ms hacc h
    unfold scan at h
    split at h
    · simp only [Option.some.injEq, Res.ok.injEq] at h; subst h; exact hacc
    · split at h
      · simp at h
      · simp at h
      · simp at h
      · next c hcls =>
        have hrun := classify_hit_run hcls
        have hinv : WInv c := run_wf pf prog text vf _ c (initState_wf pos line col) hrun
        have hacc' : VarsWF (if mn ≥ amt.skip then
            limitLast amt.last (acc ++ [makeMatch (mn + 1) pos line col c]) else acc) := by
          split
          · apply varsWF_limitLast
            intro m hm
            simp only [List.mem_append, List.mem_singleton] at hm
            rcases hm with hm | rfl
            · exact hacc m hm
            · simpa [makeMatch] using hinv.env_wf
          · exact hacc
        simp only at h
        split at h
        · simp only [Option.some.injEq, Res.ok.injEq] at h; subst h; exact hacc'
        · exact ih _ _ _ _ _ ms hacc' h
      · split at h
        · simp only at h
          split at h
          · simp only [Option.some.injEq, Res.ok.injEq] at h; subst h; exact hacc
          · split at h <;> exact ih _ _ _ _ _ ms hacc h
        · simp at h

theorem findMatches_wf (pf vf : Nat) (prog : List Instr) (amt : Amount) (text : Bytes) (ms : List Match)
    (h : findMatches pf vf prog amt text = some (.ok ms)) : VarsWF ms := by
  unfold findMatches at h
  split at h
  · simp only [Option.some.injEq, Res.ok.injEq] at h; subst h; intro m hm; simp at hm
  · split at h
    · simp only [Option.some.injEq, Res.ok.injEq] at h; subst h; intro m hm; simp at hm
    · exact scan_wf pf vf prog amt text _ [] 0 0 1 1 ms (by intro m hm; simp at hm) h

theorem replaceAll_wf (pf : Nat) (fn : Bytes) (rep : List RInstr) (total : Nat) :
    ∀ (ms out : List Match), VarsWF ms → replaceAll pf fn rep total ms = .ok out → VarsWF out := by
  intro ms
  induction ms with
  | nil => intro out _ h; simp [replaceAll] at h; subst h; intro m hm; simp at hm
  | cons m ms ih =>
    intro out hms h
    unfold replaceAll at h
    split at h
    · next r _ =>
      split at h
      · next rest hrest =>
        simp only [Res.ok.injEq] at h
        subst h
        intro x hx
        simp only [List.mem_cons] at hx
        rcases hx with rfl | hx
        · exact hms m (by simp)
        · exact ih rest (fun y hy => hms y (by simp [hy])) hrest x hx
      all_goals simp at h
    all_goals simp at h

theorem runCmd_wf (pf vf : Nat) (fn text : Bytes) (c : BCmd) (ms : List Match)
    (h : runCmd pf vf fn text c = some (.ok ms)) : VarsWF ms := by
  unfold runCmd at h
  split at h
  · exact findMatches_wf _ _ _ _ _ _ h
  · split at h
    · next found hf =>
      simp only [Option.some.injEq] at h
      exact replaceAll_wf _ _ _ _ _ _ (findMatches_wf _ _ _ _ _ _ hf) h
    all_goals simp at h
  · simp only [Option.some.injEq, Res.ok.injEq] at h; subst h; intro m hm; simp at hm

theorem runProgram_wf (pf vf : Nat) (fn text : Bytes) :
    ∀ (cs : List BCmd) (ms : List Match), runProgram pf vf fn text cs = some (.ok ms) → VarsWF ms := by
  intro cs
  induction cs with
  | nil => intro ms h; simp [runProgram] at h; subst h; intro m hm; simp at hm
  | cons c cs ih =>
    intro ms h
    unfold runProgram at h
    split at h
    · next found hf =>
      split at h
      · next rest hr =>
        simp only [Option.some.injEq, Res.ok.injEq] at h
        subst h
        intro m hm
        simp only [List.mem_append] at hm
        rcases hm with hm | hm
        · exact runCmd_wf _ _ _ _ _ _ hf m hm
        · exact ih rest hr m hm
      all_goals simp at h
    all_goals simp at h

end Vore
