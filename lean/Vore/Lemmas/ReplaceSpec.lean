import Vore.Spec.Replace
import Vore.Lemmas.Replace
/-! C05/C06 lemmas: the replacer program computes `Spec.replacement`; the copy loop computes `Spec.splice` -/
namespace Vore
open Vore.Spec

theorem VMap.get_put_same : ∀ (m : VMap) (x : String) (v : Val), (m.put x v).get x = some v
  | .nil, x, v => by simp [VMap.put, VMap.get]
  | .cons k w rest, x, v => by
    unfold VMap.put
    split
    · next h => simp [VMap.get, h]
    · next h => simp [VMap.get, h, VMap.get_put_same rest x v]

theorem VMap.get_put_other : ∀ (m : VMap) (x y : String) (v : Val), (x == y) = false →
    (m.put x v).get y = m.get y
  | .nil, x, y, v, h => by simp [VMap.put, VMap.get, h]
  | .cons k w rest, x, y, v, h => by
    unfold VMap.put
    split
    · next hk =>
      have hky : (k == y) = false := by
        have : k = x := by simpa using hk
        subst this; exact h
      simp [VMap.get, hky]
    · next hk =>
      simp only [VMap.get, VMap.get_put_other rest x y v h]

/-- the replacer's variable map answers exactly `Spec.nameText` for string lookups -/
theorem replacerVars_get (m : Match) (total : Nat) (fn : Bytes) (x : String) :
    (match (replacerVars m total fn).get x with | some (.str s) => some s | _ => none) = nameText m total fn x := by
  have hne : ∀ k : String, k ≠ x → (k == x) = false := fun k hk => by simpa using hk
  unfold replacerVars nameText builtin
  by_cases h8 : x = "filename"
  · subst h8; simp [VMap.get_put_same]
  rw [VMap.get_put_other _ _ _ _ (hne _ (Ne.symm h8))]
  by_cases h7 : x = "value"
  · subst h7; simp [VMap.get_put_same]
  rw [VMap.get_put_other _ _ _ _ (hne _ (Ne.symm h7))]
  by_cases h6 : x = "columnNumber"
  · subst h6; simp [VMap.get_put_same]
  rw [VMap.get_put_other _ _ _ _ (hne _ (Ne.symm h6))]
  by_cases h5 : x = "lineNumber"
  · subst h5; simp [VMap.get_put_same]
  rw [VMap.get_put_other _ _ _ _ (hne _ (Ne.symm h5))]
  by_cases h4 : x = "endOffset"
  · subst h4; simp [VMap.get_put_same]
  rw [VMap.get_put_other _ _ _ _ (hne _ (Ne.symm h4))]
  by_cases h3 : x = "startOffset"
  · subst h3; simp [VMap.get_put_same]
  rw [VMap.get_put_other _ _ _ _ (hne _ (Ne.symm h3))]
  by_cases h2 : x = "matchNumber"
  · subst h2; simp [VMap.get_put_same]
  rw [VMap.get_put_other _ _ _ _ (hne _ (Ne.symm h2))]
  by_cases h1 : x = "totalMatches"
  · subst h1; simp [VMap.get_put_same]
  rw [VMap.get_put_other _ _ _ _ (hne _ (Ne.symm h1))]
  simp only [h1, h2, h3, h4, h5, h6, h7, h8, if_false]
  split <;> simp_all

theorem replItem_eq (pf : Nat) (st : GenState) (m : Match) (total : Nat) (fn : Bytes) (it : RAtom) :
    replItem pf (replacerVars m total fn) m (genReplacer st it) = itemText pf st.transforms m total fn it := by
  cases it with
  | str s => rfl
  | var x =>
    unfold genReplacer itemText
    cases hl : lookup st.transforms x with
    | some body =>
      simp only [hl, replItem]
      split <;> simp_all
    | none =>
      simp only [hl, replItem]
      rw [← replacerVars_get]
      cases (replacerVars m total fn).get x with
      | none => rfl
      | some v => cases v <;> rfl

theorem runReplacer_eq (pf : Nat) (st : GenState) (m : Match) (total : Nat) (fn : Bytes) :
    ∀ (items : List RAtom) (acc : Option Bytes),
      runReplacer pf (replacerVars m total fn) m (items.map (genReplacer st)) acc =
        replacement pf st.transforms m total fn items acc := by
  intro items
  induction items with
  | nil => intro acc; rfl
  | cons it rest ih =>
    intro acc
    simp only [List.map_cons, runReplacer, replacement, replItem_eq]
    split <;> simp_all

/-! ### splice -/

theorem writeAt_end (out data : Bytes) : writeAt out out.length data = out ++ data := by
  unfold writeAt
  simp

/-- matches in order from `from_`, in range, with values of the right length -/
def OkFrom (text : Bytes) : Nat → List Match → Prop
  | _, [] => True
  | from_, m :: ms => from_ ≤ m.startPos ∧ m.startPos ≤ m.endPos ∧ m.endPos ≤ text.length ∧
      m.value.length = m.endPos - m.startPos ∧ OkFrom text m.endPos ms

theorem readAt_slice (text : Bytes) (a b : Nat) (hab : a ≤ b) (hb : b ≤ text.length) :
    readAt text a (b - a) = splice.slice' text a b ∧ (readAt text a (b - a)).length = b - a := by
  unfold readAt splice.slice'
  split
  · next h =>
    rcases h with h | h
    · simp [h]
    · omega
  · simp [List.length_take]; omega

theorem spliceLoop_spec (text : Bytes) : ∀ (ms : List Match) (lr : Nat) (out : Bytes), OkFrom text lr ms →
    (spliceLoop text ms lr out.length out).2.2 = (spliceLoop text ms lr out.length out).1.length ∧
    out ++ splice text ms lr =
      (spliceLoop text ms lr out.length out).1 ++ text.drop (spliceLoop text ms lr out.length out).2.1 := by
  intro ms
  induction ms with
  | nil => intro lr out _; simp [spliceLoop, splice]
  | cons m rest ih =>
    intro lr out hok
    obtain ⟨h1, h2, h3, h4, h5⟩ := hok
    have hr := readAt_slice text lr m.startPos h1 (by omega)
    simp only [spliceLoop]
    rw [writeAt_end, hr.1]
    have hlen : out.length + (m.startPos - lr) = (out ++ splice.slice' text lr m.startPos).length := by
      rw [List.length_append, ← hr.1, hr.2]
    rw [hlen, writeAt_end]
    have hlen2 : (out ++ splice.slice' text lr m.startPos).length + (m.replacement.getD []).length =
        (out ++ splice.slice' text lr m.startPos ++ m.replacement.getD []).length := by
      simp only [List.length_append]
    have hlr : lr + (m.startPos - lr) + m.value.length = m.endPos := by omega
    rw [hlen2, hlr]
    have := ih m.endPos (out ++ splice.slice' text lr m.startPos ++ m.replacement.getD []) h5
    refine ⟨this.1, ?_⟩
    rw [← this.2]
    simp [splice, List.append_assoc]

theorem okFrom_of_faithful (text : Bytes) : ∀ (ms : List Match) (from_ : Nat), faithful text ms = true →
    (∀ m, ms.head? = some m → from_ ≤ m.startPos) → OkFrom text from_ ms := by
  intro ms
  induction ms with
  | nil => intro _ _ _; trivial
  | cons m rest ih =>
    intro from_ hf hhead
    simp only [faithful, List.all_cons, Bool.and_eq_true] at hf
    obtain ⟨⟨hm, hrest⟩, hchain⟩ := hf
    simp only [matchOk, Bool.and_eq_true, decide_eq_true_eq, beq_iff_eq] at hm
    obtain ⟨⟨⟨⟨⟨⟨⟨m1, m2⟩, m3⟩, _⟩, _⟩, _⟩, _⟩, _⟩ := hm
    refine ⟨hhead m rfl, by omega, m2, ?_, ?_⟩
    · rw [m3]; simp [slice, List.length_take]; omega
    · apply ih m.endPos
      · simp only [faithful, Bool.and_eq_true]
        exact ⟨hrest, by simpa using chainOk_tail (m :: rest) hchain⟩
      · intro b hb
        cases rest with
        | nil => simp at hb
        | cons b' r' =>
          simp only [List.head?_cons, Option.some.injEq] at hb; subst hb
          simp only [chainOk, Bool.and_eq_true, decide_eq_true_eq] at hchain
          exact hchain.1.1

theorem writtenText_eq_splice (text : Bytes) (ms : List Match) (hf : faithful text ms = true) :
    writtenText text ms = splice text ms 0 := by
  have hok := okFrom_of_faithful text ms 0 hf (fun _ _ => Nat.zero_le _)
  have h := spliceLoop_spec text ms 0 [] hok
  simp only [List.length_nil, List.nil_append] at h
  unfold writtenText
  generalize spliceLoop text ms 0 0 [] = r at h
  obtain ⟨out, lr, wo⟩ := r
  simp only at h ⊢
  obtain ⟨hwo, hsp⟩ := h
  rw [hsp]
  split
  · next hlt =>
    subst hwo
    rw [writeAt_end]
    congr 1
    unfold readAt
    split
    · next hc => omega
    · rw [List.take_of_length_le (by simp)]
  · next hge =>
    have : text.drop lr = [] := List.drop_eq_nil_of_le (by omega)
    rw [this]; simp

/-- pointwise relation between two lists of equal length -/
inductive ListRel {α β : Type} (R : α → β → Prop) : List α → List β → Prop where
  | nil : ListRel R [] []
  | cons {a b as bs} : R a b → ListRel R as bs → ListRel R (a :: as) (b :: bs)

theorem find?_filter_ne (p q : Bytes) (h : q ≠ p) : ∀ fs : FileSys,
    (fs.filter (fun kv => !(kv.1 == p))).find? (·.1 == q) = fs.find? (·.1 == q)
  | [] => rfl
  | kv :: rest => by
    have ih := find?_filter_ne p q h rest
    by_cases hk : kv.1 = p
    · have h1 : (kv.1 == p) = true := by simpa using hk
      have h2 : (kv.1 == q) = false := by rw [hk]; simpa using (Ne.symm h)
      simp only [List.filter_cons, h1, Bool.not_true, Bool.false_eq_true, if_false, List.find?_cons, h2, ih]
    · have h1 : (kv.1 == p) = false := by simpa using hk
      simp only [List.filter_cons, h1, Bool.not_false, if_true, List.find?_cons, ih]

theorem FileSys.get_put_same (fs : FileSys) (p c : Bytes) : (fs.put p c).get p = some c := by
  simp [FileSys.put, FileSys.get]

theorem FileSys.get_put_other (fs : FileSys) (p q c : Bytes) (h : q ≠ p) : (fs.put p c).get q = fs.get q := by
  have hpq : (p == q) = false := by simpa using (Ne.symm h)
  simp only [FileSys.put, FileSys.get, List.find?_cons, hpq, find?_filter_ne p q h fs]

end Vore
