import Vore.Spec.Outs
import Vore.Lemmas.SpecTotal
/-!
# Vore.Lemmas.Outs — the continuation semantics visits exactly the list of successes, in order

`m text lf e d ks fk = firstK (outs text lf e d) ks fk` for call-free `e`, good data and loop fuel
`lf > |text|`: the two-continuation semantics offers to `ks` exactly the elements of `outs`, in that
order, each with "the rest of the list" as its failure continuation.  Corollary: `attempt` is the head
of `outs` — "the first complete match in priority order", read declaratively.
-/
namespace Vore
open Vore.Spec

theorem firstK_append (l1 l2 : List Data) (ks : SK) (fk : FK) :
    firstK (l1 ++ l2) ks fk = firstK l1 ks (fun _ => firstK l2 ks fk) := by
  induction l1 with
  | nil => rfl
  | cons d rest ih => simp only [List.cons_append, firstK, ih]

theorem firstK_flatMap (l : List Data) (f : Data → List Data) (ks : SK) (fk : FK) :
    firstK (l.flatMap f) ks fk = firstK l (fun d fk' => firstK (f d) ks fk') fk := by
  induction l with
  | nil => rfl
  | cons d rest ih => simp only [List.flatMap_cons, firstK_append, firstK, ih]

theorem firstK_map (l : List Data) (g : Data → Data) (ks : SK) (fk : FK) :
    firstK (l.map g) ks fk = firstK l (fun d fk' => ks (g d) fk') fk := by
  induction l with
  | nil => rfl
  | cons d rest ih => simp only [List.map_cons, firstK, ih]

theorem firstK_congr (l : List Data) (ks1 ks2 : SK) (fk : FK)
    (h : ∀ d ∈ l, ∀ fk', ks1 d fk' = ks2 d fk') : firstK l ks1 fk = firstK l ks2 fk := by
  induction l with
  | nil => rfl
  | cons d rest ih =>
    simp only [firstK]
    rw [h d List.mem_cons_self, ih (fun d' hd' => h d' (List.mem_cons_of_mem _ hd'))]

section
variable {text : Bytes} {p0 : Nat}

/-- every element of the list is good data at least as long as `len` -/
def AllFrom (text : Bytes) (p0 : Nat) (len : Nat) (l : List Data) : Prop :=
  ∀ d' ∈ l, Good text p0 d' ∧ len ≤ d'.cur.length

/-- the matcher `mb` visits the list `ob d` -/
def Visits (text : Bytes) (p0 : Nat) (mb : Data → SK → FK → Option SRes) (ob : Data → List Data) : Prop :=
  ∀ d, Good text p0 d → AllFrom text p0 d.cur.length (ob d) ∧ ∀ ks fk, mb d ks fk = firstK (ob d) ks fk

theorem AllFrom.flatMap {len : Nat} {l : List Data} {f : Data → List Data} (hl : AllFrom text p0 len l)
    (hf : ∀ d ∈ l, AllFrom text p0 d.cur.length (f d)) : AllFrom text p0 len (l.flatMap f) := by
  intro d' hd'
  obtain ⟨d, hd, hdd⟩ := List.mem_flatMap.mp hd'
  have a := hl d hd
  have b := hf d hd d' hdd
  exact ⟨b.1, Nat.le_trans a.2 b.2⟩

theorem repeat_visits {mb ob} (h : Visits text p0 mb ob) : ∀ n, Visits text p0 (Spec.repeatM mb n) (repeatOuts ob n) := by
  intro n
  induction n with
  | zero =>
    intro d hg
    refine ⟨?_, fun ks fk => rfl⟩
    intro d' hd'
    simp only [repeatOuts, List.mem_singleton] at hd'
    subst hd'
    exact ⟨hg, Nat.le_refl _⟩
  | succ n ih =>
    intro d hg
    obtain ⟨hall, heq⟩ := h d hg
    refine ⟨?_, ?_⟩
    · exact hall.flatMap (fun d1 hd1 => (ih d1 (hall d1 hd1).1).1)
    · intro ks fk
      simp only [Spec.repeatM, repeatOuts, heq, firstK_flatMap]
      exact firstK_congr _ _ _ _ (fun d1 hd1 fk' => (ih d1 (hall d1 hd1).1).2 ks fk')

theorem loop_visits {mb ob} (h : Visits text p0 mb ob) (mx : Int) (fewest : Bool) :
    ∀ fuel k d, Good text p0 d → text.length - d.cur.length < fuel →
      AllFrom text p0 d.cur.length (loopOuts ob mx fewest fuel k d) ∧
      ∀ ks fk, loopV mb mx fewest fuel k d ks fk = firstK (loopOuts ob mx fewest fuel k d) ks fk := by
  intro fuel
  induction fuel with
  | zero => intro k d _ hlt; omega
  | succ fuel ih =>
    intro k d hg hlt
    have hlen : d.cur.length ≤ text.length := by have := hg.1; have := hg.2; omega
    obtain ⟨hall, heq⟩ := h d hg
    -- the iterations after one more pass through the body
    have hmore : AllFrom text p0 d.cur.length
        ((ob d).flatMap (fun d' => if d'.cur.length == d.cur.length then [] else loopOuts ob mx fewest fuel (k + 1) d')) := by
      refine hall.flatMap ?_
      intro d1 hd1
      have g1 := hall d1 hd1
      split
      · intro x hx; simp at hx
      · next hne =>
        have hne' : d1.cur.length ≠ d.cur.length := by simpa using hne
        have hlen1 : d1.cur.length ≤ text.length := by have := g1.1.1; have := g1.1.2; omega
        exact (ih (k + 1) d1 g1.1 (by omega)).1
    have hagain : ∀ ks fk, firstK (ob d) (fun d' fk' =>
          if d'.cur.length == d.cur.length then fk' () else loopV mb mx fewest fuel (k + 1) d' ks fk') fk =
        firstK ((ob d).flatMap (fun d' => if d'.cur.length == d.cur.length then []
          else loopOuts ob mx fewest fuel (k + 1) d')) ks fk := by
      intro ks fk
      rw [firstK_flatMap]
      refine firstK_congr _ _ _ _ ?_
      intro d1 hd1 fk'
      have g1 := hall d1 hd1
      split
      · rfl
      · next hne =>
        have hne' : d1.cur.length ≠ d.cur.length := by simpa using hne
        have hlen1 : d1.cur.length ≤ text.length := by have := g1.1.1; have := g1.1.2; omega
        exact (ih (k + 1) d1 g1.1 (by omega)).2 ks fk'
    refine ⟨?_, ?_⟩
    · simp only [loopOuts]
      split
      · split
        · intro x hx
          rcases List.mem_cons.mp hx with rfl | hx
          · exact ⟨hg, Nat.le_refl _⟩
          · exact hmore x hx
        · intro x hx
          rcases List.mem_append.mp hx with hx | hx
          · exact hmore x hx
          · simp only [List.mem_singleton] at hx; subst hx; exact ⟨hg, Nat.le_refl _⟩
      · intro x hx; simp at hx
    · intro ks fk
      simp only [loopV, loopOuts]
      split
      · split
        · simp only [firstK, heq, hagain]
        · simp only [firstK_append, firstK, heq, hagain]
      · rfl

theorem inAlts_visits (items : List Atom) :
    Visits text p0 (inAlts text items) (fun d => items.filterMap (fun a => atomD text a d)) := by
  intro d hg
  refine ⟨?_, ?_⟩
  · intro d' hd'
    obtain ⟨a, _, ha⟩ := List.mem_filterMap.mp hd'
    exact (adv_atom ha).good hg
  · intro ks fk
    induction items with
    | nil => rfl
    | cons a rest ih =>
      simp only [inAlts, List.filterMap_cons]
      cases ha : atomD text a d with
      | none => simp only [ih]
      | some d' => simp only [firstK, ih]

theorem m_visits (lf : Nat) (hlf : text.length < lf) (e : Expr) (hcf : CallFree e) :
    Visits text p0 (m text lf e) (outs text lf e) := by
  induction e with
  | empty =>
    intro d hg
    refine ⟨?_, fun ks fk => rfl⟩
    intro d' hd'
    simp only [outs, List.mem_singleton] at hd'
    subst hd'
    exact ⟨hg, Nat.le_refl _⟩
  | seq a b iha ihb =>
    intro d hg
    obtain ⟨halla, heqa⟩ := iha hcf.1 d hg
    refine ⟨?_, ?_⟩
    · simp only [outs]
      exact halla.flatMap (fun d1 hd1 => (ihb hcf.2 d1 (halla d1 hd1).1).1)
    · intro ks fk
      simp only [m, outs, heqa, firstK_flatMap]
      exact firstK_congr _ _ _ _ (fun d1 hd1 fk' => (ihb hcf.2 d1 (halla d1 hd1).1).2 ks fk')
  | atom a =>
    intro d hg
    refine ⟨?_, ?_⟩
    · intro d' hd'
      simp only [outs, Option.mem_toList] at hd'
      exact (adv_atom hd').good hg
    · intro ks fk
      simp only [m, outs]
      cases atomD text a d <;> rfl
  | var x =>
    intro d hg
    refine ⟨?_, ?_⟩
    · intro d' hd'
      simp only [outs, Option.mem_toList] at hd'
      exact (adv_backref hd').good hg
    · intro ks fk
      simp only [m, outs]
      cases backrefD text x d <;> rfl
  | loop mn mx fewest name body ih =>
    intro d hg
    have hb := ih hcf.2
    obtain ⟨hallr, heqr⟩ := repeat_visits hb mn d hg
    have htail : ∀ d1 ∈ repeatOuts (outs text lf body) mn d,
        AllFrom text p0 d1.cur.length (if (mn : Int) == mx then [d1]
          else loopOuts (outs text lf body) (if mx > 0 then mx - mn else mx) fewest lf 0 d1) ∧
        ∀ ks fk', (if (mn : Int) == mx then ks d1 fk'
            else loopV (m text lf body) (if mx > 0 then mx - mn else mx) fewest lf 0 d1 ks fk') =
          firstK (if (mn : Int) == mx then [d1]
            else loopOuts (outs text lf body) (if mx > 0 then mx - mn else mx) fewest lf 0 d1) ks fk' := by
      intro d1 hd1
      have g1 := hallr d1 hd1
      have hlen1 : d1.cur.length ≤ text.length := by have := g1.1.1; have := g1.1.2; omega
      split
      · refine ⟨?_, fun ks fk' => rfl⟩
        intro x hx
        simp only [List.mem_singleton] at hx
        subst hx
        exact ⟨g1.1, Nat.le_refl _⟩
      · exact loop_visits hb _ fewest lf 0 d1 g1.1 (by omega)
    refine ⟨?_, ?_⟩
    · simp only [outs]
      exact hallr.flatMap (fun d1 hd1 => (htail d1 hd1).1)
    · intro ks fk
      simp only [m, outs, heqr, firstK_flatMap]
      exact firstK_congr _ _ _ _ (fun d1 hd1 fk' => (htail d1 hd1).2 ks fk')
  | branch l r ihl ihr =>
    intro d hg
    obtain ⟨halll, heql⟩ := ihl hcf.1 d hg
    obtain ⟨hallr, heqr⟩ := ihr hcf.2 d hg
    refine ⟨?_, ?_⟩
    · intro d' hd'
      simp only [outs] at hd'
      rcases List.mem_append.mp hd' with h | h
      · exact halll d' h
      · exact hallr d' h
    · intro ks fk
      simp only [m, outs, firstK_append, heql, heqr]
  | dec x body ih =>
    intro d hg
    obtain ⟨hall, heq⟩ := ih hcf d hg
    refine ⟨?_, ?_⟩
    · intro d' hd'
      simp only [outs] at hd'
      obtain ⟨d1, hd1, rfl⟩ := List.mem_map.mp hd'
      exact hall d1 hd1
    · intro ks fk
      simp only [m, outs, heq, firstK_map]
  | sub x body _ => exact absurd hcf (by simp [CallFree])
  | inl neg items =>
    cases neg with
    | false =>
      intro d hg
      have := inAlts_visits (text := text) (p0 := p0) items d hg
      refine ⟨by simpa only [outs] using this.1, fun ks fk => ?_⟩
      simp only [m, outs]
      exact this.2 ks fk
    | true =>
      intro d hg
      refine ⟨?_, ?_⟩
      · intro d' hd'
        simp only [outs] at hd'
        split at hd'
        · simp at hd'
        · split at hd'
          · simp at hd'
          · simp only [List.mem_singleton] at hd'
            subst hd'
            exact good_consume hg _
      · intro ks fk
        simp only [m, outs]
        split
        · rfl
        · split <;> rfl

end

/-- **the first complete match in priority order is the head of the list of all matches**: the attempt of
the continuation semantics at a start position answers exactly `attemptOuts` -/
theorem attempt_eq_head (text : Bytes) (lf : Nat) (hlf : text.length < lf) (e : Expr) (hcf : CallFree e)
    (pos line col : Nat) (hpos : pos ≤ text.length) :
    attempt text lf e pos line col = some (attemptOuts text lf e pos line col) := by
  unfold attempt attemptOuts
  have hg : Good text pos ⟨pos, line, col, [], .nil⟩ := ⟨hpos, by simp⟩
  rw [(m_visits (p0 := pos) lf hlf e hcf _ hg).2]
  cases outs text lf e ⟨pos, line, col, [], .nil⟩ <;> rfl

/-- the scan depends on the attempt function only at the start positions inside the text -/
theorem scanAllWith_congr (text : Bytes) (att1 att2 : Nat → Nat → Nat → Option SRes)
    (h : ∀ pos line col, pos ≤ text.length → att1 pos line col = att2 pos line col) :
    ∀ f acc pos line col, pos < text.length →
      scanAllWith text att1 f acc pos line col = scanAllWith text att2 f acc pos line col := by
  intro f
  induction f with
  | zero => intro acc pos line col _; simp [scanAllWith]
  | succ f ih =>
    intro acc pos line col hpos
    have hstep : scanAllWith.step1 text att1 f acc pos line col = scanAllWith.step1 text att2 f acc pos line col := by
      unfold scanAllWith.step1
      split
      · split
        · rfl
        · next hend =>
          split
          · exact ih _ _ _ _ (by omega)
          · exact ih _ _ _ _ (by omega)
      · rfl
    unfold scanAllWith
    rw [h pos line col (Nat.le_of_lt hpos)]
    split
    · rfl
    · split
      · simp only
        split
        · rfl
        · next hend => exact ih _ _ _ _ (by omega)
      · exact hstep
    · exact hstep

/-- `find all e`, declaratively: scan left to right; at each start position take the head of the list of all
matches in priority order; report it if it is non-empty and continue at its end, otherwise advance one byte -/
def Spec.findAllDecl (text : Bytes) (e : Expr) : Option (List Match) :=
  if text.length = 0 then some []
  else scanAllWith text (fun pos line col => some (attemptOuts text (text.length + 2) e pos line col))
    (text.length + 1) [] 0 1 1

/-- the specification the VM is proved against is this declarative reading -/
theorem findAll_eq_decl (text : Bytes) (e : Expr) (hcf : CallFree e) : findAll text e = Spec.findAllDecl text e := by
  unfold findAll Spec.findAllDecl scanAll
  split
  · rfl
  · exact scanAllWith_congr text _ _
      (fun pos line col hpos => attempt_eq_head text _ (by omega) e hcf pos line col hpos) _ _ _ _ _ (by omega)

end Vore
