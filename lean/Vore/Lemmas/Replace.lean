import Vore.Lemmas.Scan
import Vore.Model.Engine
/-! replace commands keep the located fields of their matches -/
namespace Vore
open Vore.Spec

def eraseRepl (m : Match) : Match := { m with replacement := none }

theorem replaceAll_fields (pf : Nat) (fn : Bytes) (rep : List RInstr) (total : Nat) :
    ∀ (ms out : List Match), replaceAll pf fn rep total ms = .ok out → out.map eraseRepl = ms.map eraseRepl := by
  intro ms
  induction ms with
  | nil => intro out h; rw [replaceAll] at h; simp only [Res.ok.injEq] at h; subst h; rfl
  | cons m rest ih =>
    intro out h
    rw [replaceAll] at h
    split at h
    · split at h
      · next r _ rest' hr =>
        simp only [Res.ok.injEq] at h; subst h
        simp only [List.map_cons, ih rest' hr]
        rfl
      · cases h
      · cases h
    · cases h
    · cases h

theorem replaceAll_length (pf : Nat) (fn : Bytes) (rep : List RInstr) (total : Nat)
    (ms out : List Match) (h : replaceAll pf fn rep total ms = .ok out) : out.length = ms.length := by
  have := congrArg List.length (replaceAll_fields pf fn rep total ms out h)
  simpa using this

theorem chainOk_erase : ∀ l : List Match, chainOk (l.map eraseRepl) = chainOk l
  | [] => rfl
  | [_] => rfl
  | a :: b :: rest => by
    have ih := chainOk_erase (b :: rest)
    simp only [List.map_cons, chainOk] at ih ⊢
    rw [ih]; rfl

theorem faithful_erase (text : Bytes) (l : List Match) : faithful text (l.map eraseRepl) = faithful text l := by
  unfold faithful
  rw [chainOk_erase, List.all_map]
  rfl

theorem faithful_of_erase_eq (text : Bytes) (a b : List Match) (h : a.map eraseRepl = b.map eraseRepl) :
    faithful text a = faithful text b := by
  rw [← faithful_erase text a, ← faithful_erase text b, h]

end Vore
