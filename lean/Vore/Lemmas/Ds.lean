import Vore.Model.Ds
/-!
# Vore.Lemmas.Ds — the list reading of the VM model refines libvore/ds as written
-/
namespace Vore.Ds

/-! ## Queue -/

theorem limitLoop_store {α : Type} : ∀ (fuel bound : Nat) (q : Queue α), q.store.length ≤ fuel →
    (Queue.limitLoop fuel bound q).store = q.store.drop (q.store.length - bound) := by
  intro fuel
  induction fuel with
  | zero =>
    intro bound q h
    have : q.store = [] := List.eq_nil_of_length_eq_zero (Nat.le_zero.mp h)
    simp [Queue.limitLoop, this]
  | succ fuel ih =>
    intro bound q h
    unfold Queue.limitLoop
    by_cases hgt : q.size > bound
    · simp only [hgt, if_true]
      have hne : q.store ≠ [] := by
        intro hnil; simp [Queue.size, hnil] at hgt
      have hemp : q.isEmpty = false := by
        simp [Queue.isEmpty]; exact hne
      have hpop : q.pop.2 = ⟨q.store.drop 1⟩ := by simp [Queue.pop, hemp]
      rw [hpop, ih bound ⟨q.store.drop 1⟩ (by simp; omega)]
      simp only [List.length_drop, List.drop_drop]
      congr 1
      simp [Queue.size] at hgt
      omega
    · simp only [hgt, if_false]
      have : q.store.length - bound = 0 := by simp [Queue.size] at hgt; omega
      simp [this]

/-- **`Limit`**: what is left are the last `uint64(amount)` elements (all of them when there are fewer) -/
theorem limit_store {α : Type} (q : Queue α) (amount : Int) :
    (q.limit amount).store = q.store.drop (q.store.length - toU64 amount) :=
  limitLoop_store q.size (toU64 amount) q (Nat.le_refl _)

theorem toU64_nat (n : Nat) : toU64 (n : Int) = n := by
  have : ¬ ((n : Int) < 0) := by omega
  simp [toU64, this]

/-- a negative amount converts to a number no slice can exceed: nothing is dropped -/
theorem limit_negative {α : Type} (q : Queue α) (amount : Int) (h : amount < 0) (h64 : -9223372036854775808 ≤ amount)
    (hlen : q.store.length < 9223372036854775808) : (q.limit amount).store = q.store := by
  rw [limit_store]
  have : q.store.length - toU64 amount = 0 := by
    simp only [toU64, h, if_true]
    omega
  simp [this]

/-- **the engine's use** (`matches.Push(m); if last != 0 { matches.Limit(last) }`) is `Vore.limitLast` of the VM model -/
theorem push_limit_is_limitLast (q : Queue Match) (m : Match) (last : Nat) :
    (if last != 0 then ((q.push m).limit (last : Int)).store else (q.push m).store) = limitLast last (q.store ++ [m]) := by
  unfold limitLast
  split
  · rw [limit_store, toU64_nat]; rfl
  · rfl

def lastN {α : Type} (n : Nat) (xs : List α) : List α := xs.drop (xs.length - n)

theorem lastN_snoc {α : Type} (n : Nat) (hn : 1 ≤ n) (xs : List α) (m : α) :
    lastN n (lastN n xs ++ [m]) = lastN n (xs ++ [m]) := by
  unfold lastN
  by_cases h : xs.length ≤ n
  · have : xs.length - n = 0 := by omega
    simp [this]
  · have h1 : (List.drop (xs.length - n) xs).length = n := by simp; omega
    simp only [List.length_append, h1, List.length_cons, List.length_nil]
    have h2 : n + (0 + 1) - n = 1 := by omega
    rw [h2]
    have h3 : xs.length + (0 + 1) - n = (xs.length - n) + 1 := by omega
    rw [h3]
    rw [List.drop_append_of_le_length (by simp; omega)]
    rw [List.drop_append_of_le_length (by omega)]
    simp only [List.drop_drop]
    first | done | (congr 2; omega)

/-- **any history of the `last n` window**: pushing `ms` one by one with `Limit(n)` after every push (n ≥ 1) leaves
exactly the last `n` of them, in order -/
theorem push_limit_history {α : Type} (n : Nat) (hn : 1 ≤ n) (ms : List α) :
    (ms.foldl (fun q m => (q.push m).limit (n : Int)) (Queue.new : Queue α)).store = lastN n ms := by
  suffices H : ∀ (ms pre : List α) (q : Queue α), q.store = lastN n pre →
      (ms.foldl (fun q m => (q.push m).limit (n : Int)) q).store = lastN n (pre ++ ms) by
    simpa using H ms [] Queue.new (by simp [Queue.new, lastN])
  intro ms
  induction ms with
  | nil => intro pre q h; simpa using h
  | cons m ms ih =>
    intro pre q h
    simp only [List.foldl_cons]
    have := ih (pre ++ [m]) ((q.push m).limit (n : Int)) (by
      rw [limit_store, toU64_nat]
      show lastN n (q.store ++ [m]) = _
      rw [h, lastN_snoc n hn])
    simpa using this

theorem pop_push_front {α : Type} (q : Queue α) (v : α) : (q.pushFront v).pop = (some v, q) := by
  simp [Queue.pushFront, Queue.pop, Queue.isEmpty]

/-! ## Stack: the store read from the top is a list with `push = cons`, `pop = head/tail` -/

def Stack.toList {α : Type} (s : Stack α) : List α := s.store.reverse

theorem toList_push {α : Type} (s : Stack α) (v : α) : (s.push v).toList = v :: s.toList := by
  simp [Stack.toList, Stack.push]

theorem peek_toList {α : Type} (s : Stack α) : s.peek = s.toList.head? := by
  unfold Stack.peek Stack.isEmpty Stack.toList
  rw [List.head?_reverse]
  cases h : s.store with
  | nil => simp
  | cons a l => simp

theorem pop_toList {α : Type} (s : Stack α) : s.pop.1 = s.toList.head? ∧ s.pop.2.toList = s.toList.tail := by
  unfold Stack.pop Stack.isEmpty Stack.toList
  rw [List.head?_reverse, List.tail_reverse]
  cases h : s.store with
  | nil => simp [h]
  | cons a l =>
    simp only [List.length_cons, beq_iff_eq, Nat.add_one_ne_zero, if_false, Nat.add_one_sub_one, true_and]
    rw [List.dropLast_eq_take]
    simp

theorem pop_push {α : Type} (s : Stack α) (v : α) : (s.push v).pop = (some v, s) := by
  simp [Stack.push, Stack.pop, Stack.isEmpty]

theorem foldl_push_store {α : Type} (xs : List α) (s : Stack α) : (xs.foldl Stack.push s).store = s.store ++ xs := by
  induction xs generalizing s with
  | nil => simp
  | cons x xs ih => simp [ih, Stack.push]

/-- **`Copy()`** yields an equal store — a value of its own in this model, as the fresh slice is in Go -/
theorem copy_eq {α : Type} (s : Stack α) : s.copy = s := by
  cases s with
  | mk store =>
    have := foldl_push_store store (Stack.new : Stack α)
    simp only [Stack.new, List.nil_append] at this
    show List.foldl Stack.push Stack.new store = _
    cases hfold : List.foldl Stack.push (Stack.new : Stack α) store with
    | mk st => simp [Stack.new] at hfold this; rw [hfold] at this; simpa using this

/-- `Index(i)` inside the bounds is the i-th element from the bottom, `nil` outside -/
theorem index_spec {α : Type} (s : Stack α) (i : Int) :
    s.index i = if 0 ≤ i ∧ i < s.store.length then s.store[i.toNat]? else none := by
  unfold Stack.index Stack.isEmpty
  by_cases h0 : i < 0
  · have : ¬ (0 ≤ i ∧ i < s.store.length) := by omega
    simp [h0, this]
  · by_cases h1 : i < s.store.length
    · have hne : s.store.length ≠ 0 := by omega
      have : (0 ≤ i ∧ i < (s.store.length : Int)) := by omega
      simp [h0, this, hne]
      first | done | omega
    · have : ¬ (0 ≤ i ∧ i < (s.store.length : Int)) := by omega
      simp [this]
      intro _ _
      omega

end Vore.Ds

namespace Vore.Ds

/-- pop `n` times, collecting what comes out (`none` = the queue was empty) -/
def Queue.popN {α : Type} : Nat → Queue α → List (Option α) × Queue α
  | 0, q => ([], q)
  | n + 1, q => let r := Queue.popN n q.pop.2; (q.pop.1 :: r.1, r.2)

theorem pop_cons {α : Type} (x : α) (xs : List α) : (⟨x :: xs⟩ : Queue α).pop = (some x, ⟨xs⟩) := by
  simp [Queue.pop, Queue.isEmpty]

theorem pop_nil {α : Type} : (⟨[]⟩ : Queue α).pop = (none, ⟨[]⟩) := by
  simp [Queue.pop, Queue.isEmpty]

theorem popN_store {α : Type} (xs : List α) (k : Nat) :
    Queue.popN (xs.length + k) (⟨xs⟩ : Queue α) = (xs.map some ++ List.replicate k none, ⟨[]⟩) := by
  induction xs with
  | nil =>
    simp only [List.length_nil, Nat.zero_add, List.map_nil, List.nil_append]
    induction k with
    | zero => rfl
    | succ k ih => simp only [Queue.popN, pop_nil, ih, List.replicate_succ]
  | cons x xs ih =>
    have : (x :: xs).length + k = (xs.length + k) + 1 := by simp; omega
    rw [this]
    simp only [Queue.popN, pop_cons, ih, List.map_cons, List.cons_append]

theorem foldl_push_queue {α : Type} (ys : List α) (q : Queue α) : (ys.foldl Queue.push q) = ⟨q.store ++ ys⟩ := by
  induction ys generalizing q with
  | nil => simp
  | cons y ys ih => simp [ih, Queue.push]

/-- **first in, first out**: after any pushes, popping as many times returns the pushed values in order and leaves the
queue empty; further pops return `nil` and change nothing -/
theorem fifo {α : Type} (xs : List α) (k : Nat) :
    Queue.popN (xs.length + k) (xs.foldl Queue.push (Queue.new : Queue α)) =
      (xs.map some ++ List.replicate k none, ⟨[]⟩) := by
  rw [foldl_push_queue]
  simpa [Queue.new] using popN_store xs k

end Vore.Ds
