import Vore.Spec.Core
import Vore.Lemmas.SpecTotal
/-!
# Vore.Lemmas.TotalR — the specification answers for programs without unguarded recursion (C10, stage 2)

`Spec.mrN` bounds the nesting depth of subroutine calls by `cf`.  This file shows that a bound of
`(|text| + 1) * R` is never exhausted when every call is **guarded** — something that must consume
at least one byte stands between the entry of the enclosing subroutine body and the call — or goes
to a subroutine of strictly smaller rank (`R` bounds the ranks; a non-recursive program can be
ranked by its call graph).  The measure is lexicographic: (text left at the entry of the current
body, rank of the current body).  A guarded call shrinks the first component, an unguarded one keeps
it and shrinks the second.
-/
namespace Vore
open Vore.Spec

/-! ## leaves that consume at least one byte whenever they succeed -/

def clsConsumes : Class → Bool
  | .any | .whitespace | .digit | .upper | .lower | .letter => true
  | _ => false

def atomConsumes : Atom → Bool
  | .str _ _ _ => true
  | .cls _ c => clsConsumes c
  | .range _ _ => true

theorem consume_grows {text : Bytes} {d : Data} {n : Nat} (h : readAt text d.pos n ≠ []) :
    d.cur.length < (consumeD text d n).cur.length := by
  have : 0 < (readAt text d.pos n).length := List.length_pos_iff.mpr h
  simp only [consumeD, List.length_append]
  omega

theorem lit_grows {text : Bytes} {d d' : Data} {v : Bytes} {n c : Bool} (h : litD text v n c d = some d') :
    d.cur.length < d'.cur.length := by
  unfold litD at h
  by_cases h1 : (readAt text d.pos v.length).length = 0
  · simp [h1] at h
  · simp only [h1, if_false] at h
    by_cases h2 : ((if c = true then equalFoldAscii v (readAt text d.pos v.length) else v == readAt text d.pos v.length) != n) = true
    · simp only [h2, if_true, Option.some.injEq] at h
      subst h
      exact consume_grows (by intro h0; rw [h0] at h1; exact h1 rfl)
    · simp [h2] at h

/-- a range (either polarity) needs a character: whatever it matches is non-empty (fix f73d71e) -/
theorem rangeLoop_grows {text : Bytes} {d d' : Data} {lo hi : Bytes} {n : Bool} :
    ∀ k, rangeLoopD text lo hi n d k = some d' → d.cur.length < d'.cur.length := by
  intro k
  induction k with
  | zero => intro h; simp [rangeLoopD] at h
  | succ k ih =>
    intro h
    unfold rangeLoopD at h
    split at h
    · exact ih h
    · next hne =>
      split at h
      · simp only [Option.some.injEq] at h
        subst h
        exact consume_grows (by intro h0; rw [h0] at hne; simp at hne)
      · exact ih h

theorem range_grows {text : Bytes} {d d' : Data} {lo hi : Bytes} {n : Bool} (h : rangeD text lo hi n d = some d') :
    d.cur.length < d'.cur.length := rangeLoop_grows _ h

theorem class_grows {text : Bytes} {d d' : Data} {c : Class} {neg : Bool} (hc : clsConsumes c = true)
    (h : classD text c neg d = some d') : d.cur.length < d'.cur.length := by
  cases c <;> first | (simp [clsConsumes] at hc; done) | skip
  all_goals simp only [classD] at h
  · -- any
    split at h
    · simp at h
    · split at h
      · simp at h
      · next hne =>
        simp only [Option.some.injEq] at h; subst h
        exact consume_grows (by intro h0; rw [h0] at hne; simp at hne)
  · -- whitespace
    split at h
    · simp at h
    · next hne =>
      have hg : d.cur.length < (consumeD text d 1).cur.length :=
        consume_grows (by intro h0; rw [h0] at hne; simp at hne)
      split at h <;> split at h <;> simp at h <;> (subst h; exact hg)
  · exact range_grows h
  · exact range_grows h
  · exact range_grows h
  · -- letter
    split at h
    · simp at h
    · next hne =>
      have hg : d.cur.length < (consumeD text d 1).cur.length :=
        consume_grows (by intro h0; rw [h0] at hne; simp at hne)
      split at h <;> split at h <;> simp at h <;> (subst h; exact hg)

theorem atom_grows {text : Bytes} {d d' : Data} {a : Atom} (hc : atomConsumes a = true)
    (h : atomD text a d = some d') : d.cur.length < d'.cur.length := by
  cases a with
  | str n c s => exact lit_grows h
  | cls n c => exact class_grows hc h
  | range lo hi => exact range_grows h

/-! ## static analysis: must-consume, guarded calls -/

/-- every way `e` can match consumes at least one byte (conservative) -/
def mc : RExpr → Bool
  | .empty => false
  | .seq a b => mc a || mc b
  | .atom a => atomConsumes a
  | .backref _ => false
  | .call _ _ => false
  | .star _ _ _ => false
  | .branch l r => mc l && mc r
  | .dec _ b => mc b
  | .sub _ _ b _ => mc b
  | .inl false items => items.all atomConsumes
  | .inl true _ => true

/-- every call in `e` has a target and is guarded (`g`: something was consumed since the enclosing
body was entered) or goes to a subroutine of rank below `r` -/
def okCalls (ρ : Procs) (rk : Nat → Nat) : Bool → Nat → RExpr → Bool
  | _, _, .empty => true
  | g, r, .seq a b => okCalls ρ rk g r a && okCalls ρ rk (g || mc a) r b
  | _, _, .atom _ => true
  | _, _, .backref _ => true
  | g, r, .call _ id => (ρ.find id).isSome && (g || decide (rk id < r))
  | g, r, .star _ _ body => okCalls ρ rk g r body
  | g, r, .branch l r' => okCalls ρ rk g r l && okCalls ρ rk g r r'
  | g, r, .dec _ b => okCalls ρ rk g r b
  | g, r, .sub _ _ b _ => okCalls ρ rk g r b
  | _, _, .inl _ _ => true

/-- the predicate of a pattern evaluates (process code may loop or panic; `.skip` always evaluates) -/
def predTotal (pf : Nat) (pred : Stmt) : Prop := ∀ d, (predHolds pf pred d).isSome = true

theorem predTotal_skip (pf : Nat) : predTotal pf .skip := by
  intro d; simp [predHolds]

def predsOK (pf : Nat) : RExpr → Prop
  | .seq a b => predsOK pf a ∧ predsOK pf b
  | .star _ _ body => predsOK pf body
  | .branch l r => predsOK pf l ∧ predsOK pf r
  | .dec _ b => predsOK pf b
  | .sub _ _ b pred => predTotal pf pred ∧ predsOK pf b
  | _ => True

section
variable {text : Bytes} {p0 : Nat} {Q : Option SRes → Prop}

/-- the success continuation answers from good data of length at least `len` -/
def KsOk (text : Bytes) (p0 : Nat) (Q : Option SRes → Prop) (len : Nat) (ks : SK) : Prop :=
  ∀ d' fk', Good text p0 d' → len ≤ d'.cur.length → Q (fk' ()) → Q (ks d' fk')

theorem KsOk.mono {len len' : Nat} {ks : SK} (h : KsOk text p0 Q len ks) (hle : len ≤ len') :
    KsOk text p0 Q len' ks :=
  fun d' fk' hg hl hq => h d' fk' hg (Nat.le_trans hle hl) hq

theorem withPred_ok {pf : Nat} {pred : Stmt} (hp : predTotal pf pred) {len : Nat} {ks : SK}
    (h : KsOk text p0 Q len ks) : KsOk text p0 Q len (withPred pf pred ks) := by
  intro d' fk' hg hl hq
  unfold withPred
  have := hp d'
  cases hph : predHolds pf pred d' with
  | none => rw [hph] at this; simp at this
  | some b =>
    cases b with
    | true => exact h d' fk' hg hl hq
    | false => exact hq

theorem good_len {d : Data} (hg : Good text p0 d) : d.cur.length ≤ text.length := by
  have := hg.1; have := hg.2; omega

theorem loopV_total_from {mb : Data → SK → FK → Option SRes} (lo : Nat)
    (hb : ∀ d, Good text p0 d → lo ≤ d.cur.length → ∀ ks fk, KsOk text p0 Q d.cur.length ks → Q (fk ()) → Q (mb d ks fk))
    (mx : Int) (fewest : Bool) :
    ∀ fuel k d ks fk, Good text p0 d → lo ≤ d.cur.length → text.length - d.cur.length < fuel →
      KsOk text p0 Q d.cur.length ks → Q (fk ()) → Q (loopV mb mx fewest fuel k d ks fk) := by
  intro fuel
  induction fuel with
  | zero => intro k d ks fk _ _ hlt; omega
  | succ fuel ih =>
    intro k d ks fk hg hlo hlt hks hfk
    have hlen := good_len hg
    simp only [loopV]
    have hagain : KsOk text p0 Q d.cur.length (fun d' fk' =>
        if d'.cur.length == d.cur.length then fk' () else loopV mb mx fewest fuel (k + 1) d' ks fk') := by
      intro d' fk' hg' hle hfk'
      simp only
      split
      · exact hfk'
      · next hne =>
        have hne' : d'.cur.length ≠ d.cur.length := by simpa using hne
        have hlen' := good_len hg'
        exact ih (k + 1) d' ks fk' hg' (by omega) (by omega) (hks.mono hle) hfk'
    split
    · split
      · exact hks d _ hg (Nat.le_refl _) (hb d hg hlo _ fk hagain hfk)
      · exact hb d hg hlo _ _ hagain (hks d fk hg (Nat.le_refl _) hfk)
    · exact hfk

theorem inAlts_total_strict : ∀ items : List Atom, items.all atomConsumes = true →
    ∀ d ks fk, Good text p0 d → KsOk text p0 Q (d.cur.length + 1) ks → Q (fk ()) → Q (inAlts text items d ks fk) := by
  intro items
  induction items with
  | nil => intro _ d ks fk _ _ hfk; simp only [inAlts]; exact hfk
  | cons a rest ih =>
    intro hall d ks fk hg hks hfk
    simp only [List.all_cons, Bool.and_eq_true] at hall
    simp only [inAlts]
    split
    · next d' ha =>
      have hgood := (adv_atom ha).good hg
      have := atom_grows hall.1 ha
      exact hks d' _ hgood.1 (by omega) (ih hall.2 d ks fk hg hks hfk)
    · exact ih hall.2 d ks fk hg hks hfk

/-- what `callK` must deliver: called bodies answer while the budget `B` lasts -/
def CallOk (text : Bytes) (p0 : Nat) (Q : Option SRes → Prop) (ρ : Procs) (rk : Nat → Nat) (R B : Nat)
    (callK : RExpr → Data → SK → FK → Option SRes) : Prop :=
  ∀ id x body pred, ρ.find id = some (x, body, pred) → ∀ d, Good text p0 d →
    (text.length - d.cur.length) * R + rk id < B →
    ∀ ks fk, KsOk text p0 Q d.cur.length ks → Q (fk ()) → Q (callK body d ks fk)

theorem mrWith_total (lf pf : Nat) (hlf : text.length < lf) (ρ : Procs) (rk : Nat → Nat) (R B : Nat)
    (callK : RExpr → Data → SK → FK → Option SRes) (hc : CallOk text p0 Q ρ rk R B callK)
    (hρ : ∀ id x body pred, ρ.find id = some (x, body, pred) → predTotal pf pred ∧ rk id < R) :
    ∀ e, predsOK pf e → ∀ g r d0len d, okCalls ρ rk g r e = true → Good text p0 d →
      d0len ≤ d.cur.length → (g = true → d0len < d.cur.length) → (text.length - d0len) * R + r ≤ B →
      ∀ ks fk, KsOk text p0 Q (d.cur.length + (mc e).toNat) ks → Q (fk ()) →
        Q (mrWith text lf pf ρ callK e d ks fk) := by
  intro e
  induction e with
  | empty =>
    intro _ g r d0len d _ hg _ _ _ ks fk hks hfk
    simp only [mrWith]
    exact hks d fk hg (by simp [mc]) hfk
  | seq a b iha ihb =>
    intro hp g r d0len d hok hg hle hgd hB ks fk hks hfk
    simp only [okCalls, Bool.and_eq_true] at hok
    simp only [mrWith]
    refine iha hp.1 g r d0len d hok.1 hg hle hgd hB _ fk ?_ hfk
    intro d' fk' hg' hle' hfk'
    refine ihb hp.2 (g || mc a) r d0len d' hok.2 hg' (by omega) ?_ hB ks fk' ?_ hfk'
    · intro hga
      simp only [Bool.or_eq_true] at hga
      rcases hga with hga | hma
      · have := hgd hga; omega
      · simp only [hma, Bool.toNat_true] at hle'; omega
    · refine hks.mono ?_
      simp only [mc]
      revert hle'
      cases mc a <;> cases mc b <;> simp <;> omega
  | atom a =>
    intro _ g r d0len d _ hg _ _ _ ks fk hks hfk
    simp only [mrWith]
    split
    · next d' ha =>
      have hgood := (adv_atom ha).good hg
      refine hks d' fk hgood.1 ?_ hfk
      simp only [mc]
      cases hac : atomConsumes a with
      | false => simpa using hgood.2
      | true => have := atom_grows hac ha; simp; omega
    · exact hfk
  | backref x =>
    intro _ g r d0len d _ hg _ _ _ ks fk hks hfk
    simp only [mrWith]
    split
    · next d' ha =>
      have hgood := (adv_backref ha).good hg
      exact hks d' fk hgood.1 (by simpa [mc] using hgood.2) hfk
    · exact hfk
  | call x id =>
    intro _ g r d0len d hok hg hle hgd hB ks fk hks hfk
    simp only [okCalls, Bool.and_eq_true, Bool.or_eq_true, decide_eq_true_eq] at hok
    simp only [mrWith]
    cases hf : ρ.find id with
    | none => rw [hf] at hok; simp at hok
    | some ent =>
      obtain ⟨y, body, pred⟩ := ent
      simp only
      have hpr := hρ id y body pred hf
      have hlen := good_len hg
      refine hc id y body pred hf d hg ?_ _ fk (withPred_ok hpr.1 (by simpa [mc] using hks)) hfk
      rcases hok.2 with hgt | hrk
      · have hlt := hgd hgt
        have h1 : (text.length - d.cur.length + 1) * R ≤ (text.length - d0len) * R :=
          Nat.mul_le_mul_right R (by omega)
        have h2 : (text.length - d.cur.length + 1) * R = (text.length - d.cur.length) * R + R := Nat.succ_mul _ _
        have := hpr.2
        omega
      · have h1 : (text.length - d.cur.length) * R ≤ (text.length - d0len) * R :=
          Nat.mul_le_mul_right R (by omega)
        omega
  | star mx fewest body ih =>
    intro hp g r d0len d hok hg hle hgd hB ks fk hks hfk
    simp only [okCalls] at hok
    simp only [mrWith]
    have hlen := good_len hg
    refine loopV_total_from d.cur.length ?_ mx fewest lf 0 d ks fk hg (Nat.le_refl _) (by omega)
      (by simpa [mc] using hks) hfk
    intro d1 hg1 hlo ks1 fk1 hks1 hfk1
    exact ih hp g r d0len d1 hok hg1 (by omega) (fun hgt => by have := hgd hgt; omega) hB ks1 fk1
      (hks1.mono (by omega)) hfk1
  | branch l r' ihl ihr =>
    intro hp g r d0len d hok hg hle hgd hB ks fk hks hfk
    simp only [okCalls, Bool.and_eq_true] at hok
    simp only [mrWith]
    have hkl : KsOk text p0 Q (d.cur.length + (mc l).toNat) ks := by
      refine hks.mono ?_
      simp only [mc]; cases mc l <;> cases mc r' <;> simp
    have hkr : KsOk text p0 Q (d.cur.length + (mc r').toNat) ks := by
      refine hks.mono ?_
      simp only [mc]; cases mc l <;> cases mc r' <;> simp
    exact ihl hp.1 g r d0len d hok.1 hg hle hgd hB ks _ hkl
      (ihr hp.2 g r d0len d hok.2 hg hle hgd hB ks fk hkr hfk)
  | dec x body ih =>
    intro hp g r d0len d hok hg hle hgd hB ks fk hks hfk
    simp only [okCalls] at hok
    simp only [mrWith]
    refine ih hp g r d0len d hok hg hle hgd hB _ fk ?_ hfk
    intro d' fk' hg' hle' hfk'
    exact hks (bindD d' x _) fk' hg' (by simpa [mc, bindD] using hle') hfk'
  | sub id x body pred ih =>
    intro hp g r d0len d hok hg hle hgd hB ks fk hks hfk
    simp only [okCalls] at hok
    simp only [mrWith]
    exact ih hp.2 g r d0len d hok hg hle hgd hB _ fk (withPred_ok hp.1 (by simpa [mc] using hks)) hfk
  | inl neg items =>
    intro _ g r d0len d _ hg _ _ _ ks fk hks hfk
    cases neg with
    | false =>
      simp only [mrWith]
      cases hall : items.all atomConsumes with
      | true =>
        exact inAlts_total_strict items hall d ks fk hg (by simpa [mc, hall] using hks) hfk
      | false =>
        have hk0 : KsOk text p0 Q d.cur.length ks := by simpa [mc, hall] using hks
        exact inAlts_total items d ks fk hg (fun d' fk' hg' hle' hq => hk0 d' fk' hg' hle' hq) hfk
    | true =>
      simp only [mrWith]
      split
      · exact hfk
      · split
        · exact hfk
        · next hne =>
          have hgood := good_consume hg (listMaxSize items).toNat
          refine hks _ fk hgood.1 ?_ hfk
          simp only [mc, Bool.toNat_true]
          have hpos : (consumeD text d (listMaxSize items).toNat).pos ≠ d.pos := by simpa using hne
          have : readAt text d.pos (listMaxSize items).toNat ≠ [] := by
            intro h0
            apply hpos
            simp [consumeD, h0]
          have := consume_grows (d := d) this
          omega

/-- a program whose calls are all guarded or rank-decreasing, with evaluating predicates -/
structure GuardedP (pf : Nat) (ρ : Procs) (rk : Nat → Nat) (R : Nat) : Prop where
  procs : ∀ id x body pred, ρ.find id = some (x, body, pred) →
    predTotal pf pred ∧ rk id < R ∧ predsOK pf body ∧ okCalls ρ rk false (rk id) body = true

theorem mrN_total (lf pf : Nat) (hlf : text.length < lf) (ρ : Procs) (rk : Nat → Nat) (R : Nat)
    (hG : GuardedP pf ρ rk R) :
    ∀ cf e, predsOK pf e → ∀ g r d0len d, okCalls ρ rk g r e = true → Good text p0 d →
      d0len ≤ d.cur.length → (g = true → d0len < d.cur.length) → (text.length - d0len) * R + r ≤ cf →
      ∀ ks fk, KsOk text p0 Q (d.cur.length + (mc e).toNat) ks → Q (fk ()) →
        Q (mrN text lf pf ρ cf e d ks fk) := by
  have hρ : ∀ id x body pred, ρ.find id = some (x, body, pred) → predTotal pf pred ∧ rk id < R :=
    fun id x body pred h => ⟨(hG.procs id x body pred h).1, (hG.procs id x body pred h).2.1⟩
  intro cf
  induction cf with
  | zero =>
    intro e hp g r d0len d hok hg hle hgd hB ks fk hks hfk
    simp only [mrN]
    refine mrWith_total lf pf hlf ρ rk R 0 _ ?_ hρ e hp g r d0len d hok hg hle hgd hB ks fk hks hfk
    intro id x body pred _ d _ hlt
    omega
  | succ cf ih =>
    intro e hp g r d0len d hok hg hle hgd hB ks fk hks hfk
    simp only [mrN]
    refine mrWith_total lf pf hlf ρ rk R (cf + 1) _ ?_ hρ e hp g r d0len d hok hg hle hgd hB ks fk hks hfk
    intro id x body pred hf d1 hg1 hlt ks1 fk1 hks1 hfk1
    have hb := hG.procs id x body pred hf
    exact ih body hb.2.2.1 false (rk id) d1.cur.length d1 hb.2.2.2 hg1 (Nat.le_refl _) (by simp) (by omega)
      ks1 fk1 (hks1.mono (by omega)) hfk1

end

/-- every attempt answers within the call-depth bound `(|text| + 1) * R` -/
theorem attemptR_total (text : Bytes) (lf pf cf : Nat) (hlf : text.length < lf) (e : RExpr) (rk : Nat → Nat) (R : Nat)
    (hG : GuardedP pf (procsOf e) rk R) (hpe : predsOK pf e) (hok : okCalls (procsOf e) rk false R e = true)
    (hcf : (text.length + 1) * R ≤ cf) (pos line col : Nat) (hpos : pos ≤ text.length) :
    ∃ s, attemptR text lf pf cf e pos line col = some s ∧ ∀ d, s = .matched d → Good text pos d := by
  unfold attemptR
  refine mrN_total (p0 := pos) (Q := fun r => ∃ s, r = some s ∧ ∀ d, s = .matched d → Good text pos d)
    lf pf hlf (procsOf e) rk R hG cf e hpe false R 0 ⟨pos, line, col, [], .nil⟩ hok ⟨hpos, by simp⟩
    (by simp) (by simp) ?_ _ _ ?_ ?_
  · have : (text.length + 1) * R = text.length * R + R := Nat.succ_mul _ _
    simp only [Nat.sub_zero]
    omega
  · intro d' fk' hg' _ _
    exact ⟨.matched d', rfl, fun d hd => by cases hd; exact hg'⟩
  · exact ⟨.fail, rfl, fun d hd => by cases hd⟩

/-- the scan answers when every attempt does and reports only matches within the text -/
theorem scanAllWith_total (text : Bytes) (att : Nat → Nat → Nat → Option SRes)
    (hatt : ∀ pos line col, pos ≤ text.length →
      ∃ s, att pos line col = some s ∧ ∀ d, s = .matched d → Good text pos d) :
    ∀ f acc pos line col, pos < text.length → text.length - pos < f → scanAllWith text att f acc pos line col ≠ none := by
  intro f
  induction f with
  | zero => intro acc pos line col _ h; omega
  | succ f ih =>
    intro acc pos line col hpos hf
    unfold scanAllWith
    obtain ⟨s, hs, hgood⟩ := hatt pos line col (Nat.le_of_lt hpos)
    have hstep : scanAllWith.step1 text att f acc pos line col ≠ none := by
      unfold scanAllWith.step1
      split
      · split
        · simp
        · split
          · exact ih _ _ _ _ (by omega) (by omega)
          · exact ih _ _ _ _ (by omega) (by omega)
      · simp
    rw [hs]
    cases s with
    | fail => exact hstep
    | matched d =>
      have hg := hgood d rfl
      by_cases hne : (d.cur.length != 0) = true
      · have hne' : d.cur.length ≠ 0 := by simpa using hne
        by_cases hend : d.pos ≥ text.length
        · simp [hne, hend]
        · simp only [hne, hend, if_true, if_false]
          exact ih _ _ _ _ (by omega) (by have := hg.2; omega)
      · simp only [hne]
        exact hstep

theorem findAllR_total (text : Bytes) (pf cf : Nat) (e : RExpr) (rk : Nat → Nat) (R : Nat)
    (hG : GuardedP pf (procsOf e) rk R) (hpe : predsOK pf e) (hok : okCalls (procsOf e) rk false R e = true)
    (hcf : (text.length + 1) * R ≤ cf) : findAllR text pf cf e ≠ none := by
  unfold findAllR
  split
  · simp
  · exact scanAllWith_total text _
      (fun pos line col hpos => attemptR_total text _ pf cf (by omega) e rk R hG hpe hok hcf pos line col hpos)
      _ _ _ _ _ (by omega) (by omega)

end Vore

/-! ## a decidable sufficient condition (predicate-free programs, ranks given as a table) -/
namespace Vore
open Vore.Spec

def predFreeB : RExpr → Bool
  | .seq a b => predFreeB a && predFreeB b
  | .star _ _ body => predFreeB body
  | .branch l r => predFreeB l && predFreeB r
  | .dec _ b => predFreeB b
  | .sub _ _ b pred => pred == .skip && predFreeB b
  | _ => true

theorem predTotal_of_beq {pf : Nat} {pred : Stmt} (h : (pred == .skip) = true) : predTotal pf pred := by
  intro d; simp [predHolds, h]

theorem predsOK_of_predFreeB (pf : Nat) : ∀ e, predFreeB e = true → predsOK pf e := by
  intro e
  induction e with
  | seq a b iha ihb => intro h; simp only [predFreeB, Bool.and_eq_true] at h; exact ⟨iha h.1, ihb h.2⟩
  | star mx f body ih => intro h; exact ih h
  | branch l r ihl ihr => intro h; simp only [predFreeB, Bool.and_eq_true] at h; exact ⟨ihl h.1, ihr h.2⟩
  | dec x b ih => intro h; exact ih h
  | sub id x b pred ih =>
    intro h; simp only [predFreeB, Bool.and_eq_true] at h
    exact ⟨predTotal_of_beq h.1, ih h.2⟩
  | empty => intro _; trivial
  | atom a => intro _; trivial
  | backref x => intro _; trivial
  | call x id => intro _; trivial
  | inl n items => intro _; trivial

def rkOf (ranks : List (Nat × Nat)) (id : Nat) : Nat := ((ranks.find? (·.1 == id)).map (·.2)).getD 0

/-- `r` has no unguarded recursion, as witnessed by the rank table (ranks below `R`); no predicates -/
def guardedB (r : RExpr) (ranks : List (Nat × Nat)) (R : Nat) : Bool :=
  predFreeB r && okCalls (procsOf r) (rkOf ranks) false R r &&
  (procsOf r).all (fun ent => decide (rkOf ranks ent.1 < R) && ent.2.2.2 == .skip && predFreeB ent.2.2.1 &&
    okCalls (procsOf r) (rkOf ranks) false (rkOf ranks ent.1) ent.2.2.1)

theorem guardedB_sound (pf : Nat) (r : RExpr) (ranks : List (Nat × Nat)) (R : Nat) (h : guardedB r ranks R = true) :
    GuardedP pf (procsOf r) (rkOf ranks) R ∧ predsOK pf r ∧ okCalls (procsOf r) (rkOf ranks) false R r = true := by
  simp only [guardedB, Bool.and_eq_true, List.all_eq_true] at h
  obtain ⟨⟨hpf, hok⟩, hall⟩ := h
  refine ⟨⟨?_⟩, predsOK_of_predFreeB pf r hpf, hok⟩
  intro id x body pred hf
  unfold Procs.find at hf
  cases hfe : List.find? (fun x => x.1 == id) (procsOf r) with
  | none => rw [hfe] at hf; simp at hf
  | some ent =>
    rw [hfe] at hf
    simp only [Option.map_some, Option.some.injEq] at hf
    have hmem := List.mem_of_find?_eq_some hfe
    have hid : (ent.1 == id) = true := List.find?_some (p := fun x : Nat × String × RExpr × Stmt => x.1 == id) hfe
    have hidd : ent.1 = id := by simpa using hid
    have := hall ent hmem
    rw [hf] at this
    simp only [decide_eq_true_eq] at this
    rw [hidd] at this
    exact ⟨predTotal_of_beq this.1.1.2, this.1.1.1, predsOK_of_predFreeB pf body this.1.2, this.2⟩

end Vore
