import Vore.Lemmas.VMInv
/-! the scan loop of `findMatches` produces a faithful match list (C03) -/
namespace Vore
open Vore.Spec

theorem chainOk_tail : ∀ (l : List Match), chainOk l = true → chainOk l.tail = true
  | [], _ => by simp [chainOk]
  | [_], _ => by simp [chainOk]
  | a :: b :: rest, h => by
    simp only [chainOk, Bool.and_eq_true] at h
    simpa using h.2

theorem chainOk_drop (n : Nat) : ∀ (l : List Match), chainOk l = true → chainOk (l.drop n) = true := by
  induction n with
  | zero => intro l h; simpa using h
  | succ n ih =>
    intro l h
    cases l with
    | nil => simp [chainOk]
    | cons a rest =>
      simp only [List.drop_succ_cons]
      exact ih rest (by simpa using chainOk_tail (a :: rest) h)

theorem chainOk_snoc : ∀ (l : List Match) (m : Match), chainOk l = true →
    (∀ a, l.getLast? = some a → a.endPos ≤ m.startPos ∧ m.number = a.number + 1) →
    chainOk (l ++ [m]) = true
  | [], m, _, _ => by simp [chainOk]
  | [a], m, _, hl => by
    have := hl a (by simp)
    simp [chainOk, this.1, this.2]
  | a :: b :: rest, m, h, hl => by
    simp only [chainOk, Bool.and_eq_true] at h
    have ih := chainOk_snoc (b :: rest) m h.2 (by
      intro x hx; apply hl x; simpa [List.getLast?_cons_cons] using hx)
    simp only [List.cons_append, chainOk, Bool.and_eq_true]
    exact ⟨h.1, by simpa using ih⟩

theorem getLast?_drop_of_lt {α} (l : List α) (n : Nat) (h : n < l.length) :
    (l.drop n).getLast? = l.getLast? := by
  rw [List.getLast?_eq_getElem?, List.getLast?_eq_getElem?]
  simp only [List.length_drop, List.getElem?_drop]
  congr 1; omega

/-- accumulated matches: each faithful, chained, the last one ends before `pos` and carries number `mn` -/
structure AccOk (text : Bytes) (skip : Nat) (acc : List Match) (mn pos : Nat) : Prop where
  all_ok : ∀ m ∈ acc, matchOk text m = true
  chain : chainOk acc = true
  last : ∀ a, acc.getLast? = some a → a.endPos ≤ pos ∧ a.number = mn
  before_skip : mn < skip → acc = []

theorem slice_of_take {text : Bytes} {p q : Nat} {v : Bytes} (hq : q = p + v.length)
    (h : text.take q = text.take p ++ v) (hp : p ≤ text.length) : slice text p q = v := by
  unfold slice
  have h1 : q - p = v.length := by omega
  rw [h1]
  have : text.take q = text.take p ++ (text.drop p).take v.length := by
    rw [hq, List.take_add]
  rw [this] at h
  exact List.append_cancel_left h

theorem matchOk_makeMatch {text : Bytes} {pos line col : Nat} {c : Core} (num : Nat)
    (hinv : Inv text pos c) (hl : line = lineOf text pos) (hc : col = colOf text pos)
    (hne : c.cur.length ≠ 0) : matchOk text (makeMatch num pos line col c) = true := by
  have hs : slice text pos c.pos = c.cur := slice_of_take hinv.pos_eq hinv.take_eq hinv.p0_le
  have hlt : pos < c.pos := by have := hinv.pos_eq; omega
  simp [matchOk, makeMatch, hs, hl, hc, hinv.line_eq, hinv.col_eq, hinv.env_sub, hinv.pos_le, hlt]

theorem initState_inv (text : Bytes) (pos line col : Nat) (hp : pos ≤ text.length)
    (hl : line = lineOf text pos) (hc : col = colOf text pos) : AllInv text pos (initState pos line col) := by
  refine ⟨⟨hp, by simp [initState], by simp [initState], by simpa [initState] using hp, by simpa [initState] using hl,
    by simpa [initState] using hc, by simp [initState, mapSubB], by simp [initState], by simp [initState]⟩, by simp [initState]⟩

theorem accOk_push {text acc mn pos line col} {c : Core} (amt : Amount) (hacc : AccOk text amt.skip acc mn pos)
    (hinv : Inv text pos c) (hl : line = lineOf text pos) (hc : col = colOf text pos) (hne : c.cur.length ≠ 0)
    (hsk : amt.skip ≤ mn) :
    AccOk text amt.skip (limitLast amt.last (acc ++ [makeMatch (mn + 1) pos line col c])) (mn + 1) c.pos := by
  have hm := matchOk_makeMatch (mn + 1) hinv hl hc hne
  have hle : pos ≤ c.pos := by have := hinv.pos_eq; omega
  have hall : ∀ m ∈ acc ++ [makeMatch (mn + 1) pos line col c], matchOk text m = true := by
    intro m hmem
    simp only [List.mem_append, List.mem_singleton] at hmem
    rcases hmem with h | rfl
    · exact hacc.all_ok m h
    · exact hm
  have hchain : chainOk (acc ++ [makeMatch (mn + 1) pos line col c]) = true := by
    apply chainOk_snoc _ _ hacc.chain
    intro a ha
    have := hacc.last a ha
    simp [makeMatch, this.1, this.2]
  have hlast : ∀ a, (acc ++ [makeMatch (mn + 1) pos line col c]).getLast? = some a → a.endPos ≤ c.pos ∧ a.number = mn + 1 := by
    intro a ha
    simp at ha
    subst ha
    simp [makeMatch]
  unfold limitLast
  split
  · next hlastne =>
    refine ⟨fun m hmem => hall m (List.mem_of_mem_drop hmem), chainOk_drop _ _ hchain, ?_, fun h => by omega⟩
    intro a ha
    apply hlast a
    rw [← ha, getLast?_drop_of_lt]
    simp at hlastne
    simp; omega
  · exact ⟨hall, hchain, hlast, fun h => by omega⟩

theorem classify_hit {r : Option Outcome} {c : Core} (h : classify r = .hit c) :
    r = some (.success c) ∧ c.cur.length ≠ 0 := by
  match r, h with
  | some (.success c'), h =>
    simp only [classify] at h
    split at h
    · next hne => simp only [Attempt.hit.injEq] at h; subst h; exact ⟨rfl, by simpa using hne⟩
    · simp at h
  | none, h => simp [classify] at h
  | some (.panic _), h => simp [classify] at h
  | some .pfuel, h => simp [classify] at h
  | some .fail, h => simp [classify] at h

theorem scan_faithful (pf vf : Nat) (prog : List Instr) (amt : Amount) (text : Bytes) :
    ∀ f acc mn pos line col ms, pos < text.length → line = lineOf text pos → col = colOf text pos →
      AccOk text amt.skip acc mn pos →
      scan pf vf prog amt text f acc mn pos line col = some (.ok ms) → faithful text ms = true := by
  intro f
  induction f with
  | zero => intro acc mn pos line col ms _ _ _ _ h; simp [scan] at h
  | succ f ih =>
    intro acc mn pos line col ms hpos hl hc hacc h
    have hfin : ∀ acc' mn' pos', AccOk text amt.skip acc' mn' pos' → faithful text acc' = true := by
      intro acc' _ _ ha
      simp only [faithful, Bool.and_eq_true, List.all_eq_true]
      exact ⟨ha.all_ok, ha.chain⟩
    unfold scan at h
    split at h
    · simp only [Option.some.injEq, Res.ok.injEq] at h; subst h; exact hfin _ _ _ hacc
    · split at h
      · simp at h
      · simp at h
      · simp at h
      · next c hcls =>
        -- a non-empty successful attempt
        obtain ⟨hrun, hne⟩ := classify_hit hcls
        have hinv : Inv text pos c :=
          run_inv pf prog text pos vf _ c (initState_inv text pos line col (Nat.le_of_lt hpos) hl hc) hrun
        have hacc' : AccOk text amt.skip (if mn ≥ amt.skip then
            limitLast amt.last (acc ++ [makeMatch (mn + 1) pos line col c]) else acc) (mn + 1) c.pos := by
          split
          · next hsk => exact accOk_push amt hacc hinv hl hc hne hsk
          · next hsk =>
            have hnil := hacc.before_skip (by omega)
            subst hnil
            exact ⟨by simp, by simp [chainOk], by simp, fun _ => rfl⟩
        simp only at h
        split at h
        · simp only [Option.some.injEq, Res.ok.injEq] at h; subst h; exact hfin _ _ _ hacc'
        · next hlt =>
          exact ih _ _ _ _ _ ms (by omega) hinv.line_eq hinv.col_eq hacc' h
      · split at h
        · next b hb =>
          have hs := readAt_spec text pos 1
          rw [hb] at hs
          have hadv := advance_spec [b] (text.take pos)
          rw [← hs.1] at hadv
          simp only [List.length_cons, List.length_nil] at hadv hs
          simp only [advance] at hadv
          simp only at h
          split at h
          · simp only [Option.some.injEq, Res.ok.injEq] at h; subst h; exact hfin _ _ _ hacc
          · next hlt =>
            have hacc' : AccOk text amt.skip acc mn (pos + 1) :=
              ⟨hacc.all_ok, hacc.chain, fun a ha => by have := hacc.last a ha; exact ⟨by omega, this.2⟩,
               hacc.before_skip⟩
            by_cases hbn : b = nl
            · simp only [hbn, if_true] at h hadv
              refine ih _ _ _ _ _ ms (by omega) ?_ ?_ hacc' h
              · rw [hl, lineOf_eq, lineOf_eq]; exact (Prod.mk.inj hadv).1
              · rw [colOf_eq]; exact (Prod.mk.inj hadv).2
            · simp only [hbn, if_false] at h hadv
              refine ih _ _ _ _ _ ms (by omega) ?_ ?_ hacc' h
              · rw [hl, lineOf_eq, lineOf_eq]; exact (Prod.mk.inj hadv).1
              · rw [hc, colOf_eq, colOf_eq]; exact (Prod.mk.inj hadv).2
        · simp at h

/-- `findMatches` returns a faithful list, for every instruction list, amount, text and fuel -/
theorem findMatches_faithful (pf vf : Nat) (prog : List Instr) (amt : Amount) (text : Bytes) (ms : List Match)
    (h : findMatches pf vf prog amt text = some (.ok ms)) : faithful text ms = true := by
  unfold findMatches at h
  split at h
  · simp only [Option.some.injEq, Res.ok.injEq] at h; subst h; simp [faithful, chainOk]
  · next hlen =>
    split at h
    · simp only [Option.some.injEq, Res.ok.injEq] at h; subst h; simp [faithful, chainOk]
    · refine scan_faithful pf vf prog amt text _ [] 0 0 1 1 ms (by omega) ?_ ?_ ?_ h
      · simp [lineOf]
      · simp [colOf]
      · exact ⟨by simp, by simp [chainOk], by simp, fun _ => rfl⟩

end Vore
