import Vore.Spec.Regex
import Vore.Lemmas.RegexLin
import Vore.Lemmas.SpecTotal
/-!
# Vore.Lemmas.RegexSem — the translated tree means what the regular expression means

`Sim`: a logical relation between a matcher of `Spec.Search` (on `Data`) and a matcher of
`Spec.Regex` (on `St`): started from related states with related continuations they give related
answers.  `sim_m`: for every regular expression whose repeated bodies cannot match the empty string,
`Spec.m (Re.toExpr r)` and `Regex.m r` are related — by induction on `r`; the loop case is where
vore's rule (optional iterations must consume; `max` visited once more) meets the textbook one.
-/
namespace Vore.Rx
open Vore.Spec Vore.Regex

/-- what the regex semantics sees of the data of a match in progress -/
def proj (d : Data) : St := ⟨d.pos, d.env⟩

def pr : SRes → RRes
  | .matched d => .matched (proj d)
  | .fail => .fail

/-- the property's texts: no `\r`, no `\f` -/
def TextOK (text : Bytes) : Prop := ∀ b ∈ text, b ≠ 13 ∧ b ≠ 12

/-- data of a match in progress that started at `p0`: inside the text, and `cur` is the text from `p0` -/
def Inv (text : Bytes) (p0 : Nat) (d : Data) : Prop :=
  Good text p0 d ∧ d.cur = (text.take d.pos).drop p0

/-! ## reading and consuming -/

theorem readAt_one_some {text : Bytes} {p : Nat} {b : UInt8} (h : text[p]? = some b) : readAt text p 1 = [b] := by
  obtain ⟨hlt, hb⟩ := List.getElem?_eq_some_iff.mp h
  unfold readAt
  have : ¬ (1 = 0 ∨ p + 1 > text.length) := by omega
  rw [if_neg this, List.drop_eq_getElem_cons hlt, hb]
  simp

theorem readAt_one_none {text : Bytes} {p : Nat} (h : text[p]? = none) : readAt text p 1 = [] := by
  have hge : text.length ≤ p := List.getElem?_eq_none_iff.mp h
  unfold readAt
  have : (1 = 0 ∨ p + 1 > text.length) := by omega
  rw [if_pos this]

theorem inv_consume {text : Bytes} {p0 : Nat} {d : Data} (h : Inv text p0 d) (n : Nat) :
    Inv text p0 (consumeD text d n) ∧ (consumeD text d n).cur.length = d.cur.length + (readAt text d.pos n).length := by
  have hg := good_consume h.1 n
  have hs := (readAt_spec text d.pos n).1
  refine ⟨⟨hg.1, ?_⟩, by simp [consumeD]⟩
  have hpos : (consumeD text d n).pos = d.pos + (readAt text d.pos n).length := rfl
  have hcur : (consumeD text d n).cur = d.cur ++ readAt text d.pos n := rfl
  rw [hpos, hcur, hs, h.2]
  have hle : p0 ≤ (text.take d.pos).length := by
    have := h.1.1; have := h.1.2
    simp [List.length_take]; omega
  rw [List.drop_append_of_le_length hle]

theorem proj_consume (text : Bytes) (d : Data) (n : Nat) :
    proj (consumeD text d n) = ⟨d.pos + (readAt text d.pos n).length, d.env⟩ := rfl

/-- the text a capture binds: what was consumed since `d` -/
theorem inv_drop {text : Bytes} {p0 : Nat} {d d' : Data} (h : Inv text p0 d) (h' : Inv text p0 d')
    (_hle : d.cur.length ≤ d'.cur.length) : d'.cur.drop d.cur.length = Regex.slice text d.pos d'.pos := by
  have h1 := h.1.2
  rw [h'.2, List.drop_drop]
  unfold Regex.slice
  rw [List.drop_take]
  rw [← h1]

/-! ## the relation -/

/-- `mb1` (vore semantics) simulates `mb2` (regex semantics), both consuming at least `k` bytes -/
def Sim (text : Bytes) (p0 k : Nat) (mb1 : Data → SK → FK → Option SRes)
    (mb2 : St → RSK → RFK → Option RRes) : Prop :=
  ∀ d ks1 ks2 fk1 fk2, Inv text p0 d → Lin ks1 →
    (∀ d' fk1' fk2', Inv text p0 d' → d.cur.length + k ≤ d'.cur.length → (fk1' ()).map pr = fk2' () →
      (ks1 d' fk1').map pr = ks2 (proj d') fk2') →
    (fk1 ()).map pr = fk2 () →
    (mb1 d ks1 fk1).map pr = mb2 (proj d) ks2 fk2

theorem Sim.mono {text : Bytes} {p0 k k' : Nat} {mb1 mb2} (h : Sim text p0 k mb1 mb2) (hk : k' ≤ k) :
    Sim text p0 k' mb1 mb2 := by
  intro d ks1 ks2 fk1 fk2 hinv hlin hks hfk
  exact h d ks1 ks2 fk1 fk2 hinv hlin
    (fun d' fk1' fk2' hi hle hf => hks d' fk1' fk2' hi (by omega) hf) hfk

/-- one byte satisfying a predicate -/
theorem sim_one {text : Bytes} {p0 : Nat} (A : Data → Option Data) (pred : UInt8 → Bool)
    (hA : ∀ d, Inv text p0 d → A d =
      match text[d.pos]? with
      | some b => if pred b then some (consumeD text d 1) else none
      | none => none) :
    Sim text p0 1 (fun d ks fk => match A d with | some d' => ks d' fk | none => fk ()) (one text pred) := by
  intro d ks1 ks2 fk1 fk2 hinv _ hks hfk
  have hA' := hA d hinv
  simp only [one, proj]
  cases hb : text[d.pos]? with
  | none => simp only [hb] at hA'; simp only [hA']; exact hfk
  | some b =>
    simp only [hb] at hA'
    by_cases hp : pred b = true
    · simp only [hp, if_true] at hA' ⊢
      simp only [hA']
      have hc := inv_consume hinv 1
      have hr := readAt_one_some hb
      have := hks (consumeD text d 1) fk1 fk2 hc.1 (by rw [hc.2, hr]; simp) hfk
      rw [proj_consume, hr] at this
      simpa using this
    · simp only [hp] at hA' ⊢
      simp only [hA']
      simpa using hfk

/-! ## the leaves -/

theorem litD_one {text : Bytes} {p0 : Nat} {d : Data} (c : UInt8) (neg : Bool) (_h : Inv text p0 d) :
    litD text [c] neg false d =
      match text[d.pos]? with
      | some b => if ((b == c) != neg) then some (consumeD text d 1) else none
      | none => none := by
  unfold litD
  cases hb : text[d.pos]? with
  | none => simp [readAt_one_none hb]
  | some b =>
    simp only [List.length_singleton, readAt_one_some hb]
    by_cases hbc : b = c
    · subst hbc; simp
    · have hcb : ¬ c = b := fun h => hbc h.symm
      have e1 : (c == b) = false := by simp [hcb]
      have e2 : (b == c) = false := by simp [hbc]
      simp [e1, e2]

theorem bytesLe_single (a b : UInt8) : bytesLe [a] [b] = decide (a ≤ b) := by
  simp only [bytesLe]
  by_cases h1 : a < b
  · simp [h1, UInt8.le_of_lt h1]
  · by_cases h2 : b < a
    · have : ¬ a ≤ b := by
        rw [UInt8.le_iff_toNat_le]; rw [UInt8.lt_iff_toNat_lt] at h2; omega
      simp [h1, h2, this]
    · have : a ≤ b := by
        rw [UInt8.le_iff_toNat_le]; rw [UInt8.lt_iff_toNat_lt] at h1 h2; omega
      simp [h1, h2, this]

theorem rangeD_one {text : Bytes} {p0 : Nat} {d : Data} (lo hi : UInt8) (_h : Inv text p0 d) :
    rangeD text [lo] [hi] false d =
      match text[d.pos]? with
      | some b => if (decide (lo ≤ b) && decide (b ≤ hi)) then some (consumeD text d 1) else none
      | none => none := by
  unfold rangeD
  simp only [List.length_singleton, Nat.add_sub_cancel, rangeLoopD, Nat.add_zero, Bool.not_false, Bool.and_true,
    Bool.and_false, Bool.or_false]
  cases hb : text[d.pos]? with
  | none => simp [readAt_one_none hb, inRange, bytesLe]
  | some b => simp [readAt_one_some hb, inRange, bytesLe_single]

/-- both polarities: after fix f73d71e a negated range needs a byte to reject -/
theorem rangeD_one_neg {text : Bytes} {p0 : Nat} {d : Data} (lo hi : UInt8) (neg : Bool) (_h : Inv text p0 d) :
    rangeD text [lo] [hi] neg d =
      match text[d.pos]? with
      | some b => if ((decide (lo ≤ b) && decide (b ≤ hi)) != neg) then some (consumeD text d 1) else none
      | none => none := by
  unfold rangeD
  simp only [List.length_singleton, Nat.add_sub_cancel, rangeLoopD, Nat.add_zero]
  cases hb : text[d.pos]? with
  | none => simp [readAt_one_none hb]
  | some b => cases neg <;> simp [readAt_one_some hb, inRange, bytesLe_single]

theorem spaceD_one {text : Bytes} {p0 : Nat} {d : Data} (neg : Bool) (htext : TextOK text) (_h : Inv text p0 d) :
    classD text .whitespace neg d =
      match text[d.pos]? with
      | some b => if (isSpace b != neg) then some (consumeD text d 1) else none
      | none => none := by
  simp only [classD]
  cases hb : text[d.pos]? with
  | none => simp [readAt_one_none hb]
  | some b =>
    have hmem : b ∈ text := List.mem_of_getElem? hb
    have h12 : b ≠ 12 := (htext b hmem).2
    simp only [readAt_one_some hb]
    by_cases h32 : b = 32 <;> by_cases h9 : b = 9 <;> by_cases h10 : b = 10 <;> by_cases h13 : b = 13 <;>
      cases neg <;> simp [isSpace, h12, h32, h9, h10, h13]

theorem itemD_one {text : Bytes} {p0 : Nat} {d : Data} (i : ClsItem) (h : Inv text p0 d) :
    atomD text i.toAtom d =
      match text[d.pos]? with
      | some b => if i.mem b then some (consumeD text d 1) else none
      | none => none := by
  cases i with
  | single c =>
    simp only [ClsItem.toAtom, atomD, ClsItem.mem]
    rw [litD_one c false h]
    cases text[d.pos]? <;> simp
  | range lo hi =>
    simp only [ClsItem.toAtom, atomD, ClsItem.mem]
    exact rangeD_one lo hi h

theorem inAlts_none {text : Bytes} {d : Data} : ∀ (atoms : List Atom) (ks : SK) (fk : FK),
    (∀ a ∈ atoms, atomD text a d = none) → inAlts text atoms d ks fk = fk () := by
  intro atoms
  induction atoms with
  | nil => intro ks fk _; simp [inAlts]
  | cons a rest ih =>
    intro ks fk h
    simp only [inAlts, h a (List.mem_cons_self ..)]
    exact ih ks fk (fun x hx => h x (List.mem_cons_of_mem _ hx))

/-- `[abc]` -/
theorem sim_class_pos {text : Bytes} {p0 : Nat} (items : List ClsItem) :
    Sim text p0 1 (inAlts text (items.map ClsItem.toAtom)) (one text (fun b => items.any (fun i => i.mem b))) := by
  intro d ks1 ks2 fk1 fk2 hinv hlin hks hfk
  simp only [one, proj]
  cases hb : text[d.pos]? with
  | none =>
    rw [inAlts_none]
    · exact hfk
    · intro a ha
      obtain ⟨i, _, rfl⟩ := List.mem_map.mp ha
      rw [itemD_one i hinv, hb]
  | some b =>
    have hc := inv_consume hinv 1
    have hr := readAt_one_some hb
    have hk := hks (consumeD text d 1) fk1 fk2 hc.1 (by rw [hc.2, hr]; simp) hfk
    rw [proj_consume, hr] at hk
    simp only [List.length_singleton] at hk
    -- generalise over the items still to try
    suffices H : ∀ items : List ClsItem,
        (inAlts text (items.map ClsItem.toAtom) d ks1 fk1).map pr =
          if items.any (fun i => i.mem b) then ks2 ⟨d.pos + 1, d.env⟩ fk2 else fk2 () by
      simpa using H items
    intro items
    induction items with
    | nil => simpa [inAlts] using hfk
    | cons i rest ih =>
      simp only [List.map_cons, inAlts, itemD_one i hinv, hb]
      by_cases hm : i.mem b = true
      · simp only [hm, if_true, List.any_cons, Bool.true_or]
        rcases hlin (consumeD text d 1) with hp | ⟨v, hv⟩
        · rw [hp, ih]
          split
          · rfl
          · rw [hp] at hk; rw [← hfk]; exact hk
        · rw [hv]; rw [hv] at hk; exact hk
      · simp only [hm, List.any_cons, Bool.false_or]
        simpa using ih

theorem listMaxSize_items (items : List ClsItem) (hne : items ≠ []) :
    listMaxSize (items.map ClsItem.toAtom) = 1 := by
  unfold listMaxSize
  have hone : ∀ i : ClsItem, i.toAtom.maxSize = 1 := by
    intro i; cases i <;> simp [ClsItem.toAtom, Atom.maxSize]
  have key : ∀ (l : List ClsItem) (acc : Int), (acc = -1 ∨ acc = 1) →
      (l.map ClsItem.toAtom).foldl (fun m a => if a.maxSize > m then a.maxSize else m) acc = if l = [] then acc else 1 := by
    intro l
    induction l with
    | nil => intro acc _; simp
    | cons i rest ih =>
      intro acc hacc
      simp only [List.map_cons, List.foldl_cons, hone]
      rcases hacc with rfl | rfl
      · rw [ih _ (Or.inr (by decide))]; simp
      · rw [ih _ (Or.inr (by decide))]; simp
  rw [key items (-1) (Or.inl rfl)]
  simp [hne]

/-- `[^abc]` -/
theorem sim_class_neg {text : Bytes} {p0 : Nat} (lf : Nat) (items : List ClsItem) (hne : items ≠ []) :
    Sim text p0 1 (Spec.m text lf (.inl true (items.map ClsItem.toAtom)))
      (one text (fun b => items.any (fun i => i.mem b) != true)) := by
  intro d ks1 ks2 fk1 fk2 hinv _ hks hfk
  simp only [Spec.m, one, proj, listMaxSize_items items hne]
  have hany : (List.map ClsItem.toAtom items).any (fun a => (atomD text a d).isSome) =
      match text[d.pos]? with
      | some b => items.any (fun i => i.mem b)
      | none => false := by
    rw [List.any_map]
    cases hb : text[d.pos]? with
    | none =>
      simp only [List.any_eq_false]
      intro i _
      simp [Function.comp, itemD_one i hinv, hb]
    | some b =>
      congr 1
      funext i
      simp only [Function.comp, itemD_one i hinv, hb]
      cases i.mem b <;> simp
  rw [hany]
  have h1 : (1 : Int).toNat = 1 := rfl
  simp only [h1]
  cases hb : text[d.pos]? with
  | none =>
    have hr := readAt_one_none hb
    have hpos : (consumeD text d 1).pos = d.pos := by
      show d.pos + (readAt text d.pos 1).length = d.pos
      rw [hr]; rfl
    simp [hpos, hfk]
  | some b =>
    by_cases hm : items.any (fun i => i.mem b) = true
    · simp [hm, hfk]
    · have hr := readAt_one_some hb
      have hpos : (consumeD text d 1).pos = d.pos + 1 := by
        show d.pos + (readAt text d.pos 1).length = d.pos + 1
        rw [hr]; rfl
      have hc := inv_consume hinv 1
      have hk := hks (consumeD text d 1) fk1 fk2 hc.1 (by rw [hc.2, hr]; simp) hfk
      rw [proj_consume, hr] at hk
      simp only [hm, hpos]
      simpa using hk

/-! ## digits, anchors, back-references -/

theorem digitD_one {text : Bytes} {p0 : Nat} {d : Data} (neg : Bool) (h : Inv text p0 d) :
    classD text .digit neg d =
      match text[d.pos]? with
      | some b => if (isDigit b != neg) then some (consumeD text d 1) else none
      | none => none := by
  simp only [classD]
  rw [rangeD_one_neg 48 57 neg h]
  cases text[d.pos]? <;> simp [isDigit]

/-- a zero-width test of the position -/
theorem sim_anchor {text : Bytes} {p0 : Nat} (A : Data → Option Data) (cond : Nat → Bool)
    (hA : ∀ d, Inv text p0 d → A d = if cond d.pos then some d else none) :
    Sim text p0 0 (fun d ks fk => match A d with | some d' => ks d' fk | none => fk ())
      (fun s ks fk => if cond s.pos then ks s fk else fk ()) := by
  intro d ks1 ks2 fk1 fk2 hinv _ hks hfk
  simp only [hA d hinv, proj]
  by_cases hc : cond d.pos = true
  · simp only [hc, if_true]
    exact hks d fk1 fk2 hinv (Nat.le_refl _) hfk
  · simp only [hc]
    simpa using hfk

theorem readAt_one_eq_nl (text : Bytes) (p : Nat) : (readAt text p 1 == [nl]) = (text[p]? == some 10) := by
  cases hb : text[p]? with
  | none => simp [readAt_one_none hb]
  | some b => simp [readAt_one_some hb, nl]

theorem bolD {text : Bytes} (d : Data) :
    classD text .lineStart false d = if (d.pos == 0 || text[d.pos - 1]? == some 10) then some d else none := by
  simp only [classD, anchorD]
  by_cases h0 : d.pos = 0
  · simp [h0]
  · have : (d.pos == 0) = false := by simp [h0]
    simp only [this, Bool.false_eq_true, if_false, Bool.false_or, readAt_one_eq_nl]
    cases (text[d.pos - 1]? == some 10) <;> simp

theorem readAt_two_crnl {text : Bytes} (htext : TextOK text) (p : Nat) : (readAt text p 2 == [cr, nl]) = false := by
  rw [beq_eq_false_iff_ne]
  intro h
  have hmem : cr ∈ readAt text p 2 := by rw [h]; simp
  unfold readAt at hmem
  split at hmem
  · simp at hmem
  · have := (htext cr (List.mem_of_mem_drop (List.mem_of_mem_take hmem))).1
    exact this rfl

theorem eolD {text : Bytes} (htext : TextOK text) (d : Data) :
    classD text .lineEnd false d = if (d.pos == text.length || text[d.pos]? == some 10) then some d else none := by
  simp only [classD, anchorD, isLineBreakAt, readAt_two_crnl htext, readAt_one_eq_nl, Bool.or_false]
  cases (text[d.pos]? == some 10) <;> cases (d.pos == text.length) <;> simp

/-- a back-reference -/
theorem sim_backref {text : Bytes} {p0 : Nat} (x : String) :
    Sim text p0 0 (fun d ks fk => match backrefD text x d with | some d' => ks d' fk | none => fk ())
      (again text x) := by
  intro d ks1 ks2 fk1 fk2 hinv _ hks hfk
  simp only [again, proj, backrefD]
  cases hget : d.env.get x with
  | none => simpa using hfk
  | some val =>
    cases val with
    | map mm => simpa using hfk
    | str v =>
      by_cases hv : v = []
      · subst hv
        have := hks d fk1 fk2 hinv (Nat.le_refl _) hfk
        simpa [hasAt, proj] using this
      · have hne : v.isEmpty = false := by cases v <;> simp_all
        have hlen : v.length ≠ 0 := by cases v <;> simp_all
        simp only [hne, Bool.false_eq_true, if_false, litD, hasAt]
        by_cases hfit : d.pos + v.length > text.length
        · have hr : readAt text d.pos v.length = [] := by unfold readAt; rw [if_pos (Or.inr hfit)]
          have hshort : ((text.drop d.pos).take v.length == v) = false := by
            rw [beq_eq_false_iff_ne]
            intro h
            have := congrArg List.length h
            simp [List.length_take] at this
            omega
          simp only [hr, List.length_nil, if_true, hshort]
          simpa using hfk
        · have hr : readAt text d.pos v.length = (text.drop d.pos).take v.length := by
            unfold readAt; rw [if_neg (by omega)]
          have hrl : (readAt text d.pos v.length).length = v.length := by
            rw [hr]; simp [List.length_take]; omega
          have hrl0 : ¬ (readAt text d.pos v.length).length = 0 := by omega
          simp only [hrl0, if_false, bne_iff_ne, ne_eq, Bool.false_eq_true, not_false_eq_true, Bool.not_eq_false]
          by_cases heq : (text.drop d.pos).take v.length = v
          · have e1 : (v == readAt text d.pos v.length) = true := by rw [hr, heq]; simp
            have e2 : ((text.drop d.pos).take v.length == v) = true := by rw [heq]; simp
            simp only [e1, e2, if_true]
            have hc := inv_consume hinv v.length
            have := hks (consumeD text d v.length) fk1 fk2 hc.1 (by rw [hc.2]; omega) hfk
            rw [proj_consume, hrl] at this
            simpa using this
          · have e1 : (v == readAt text d.pos v.length) = false := by
              rw [hr, beq_eq_false_iff_ne]; exact fun h => heq h.symm
            have e2 : ((text.drop d.pos).take v.length == v) = false := by
              rw [beq_eq_false_iff_ne]; exact heq
            simp only [e1, e2]
            simpa using hfk

/-! ## composition -/

theorem sim_empty {text : Bytes} {p0 : Nat} :
    Sim text p0 0 (fun d ks fk => ks d fk) (fun s ks fk => ks s fk) := by
  intro d ks1 ks2 fk1 fk2 hinv _ hks hfk
  exact hks d fk1 fk2 hinv (Nat.le_refl _) hfk

theorem sim_seq {text : Bytes} {p0 ka kb : Nat} {a1 b1 a2 b2} (ha : Sim text p0 ka a1 a2)
    (hb : Sim text p0 kb b1 b2) (hlb : LinM b1) :
    Sim text p0 (ka + kb) (fun d ks fk => a1 d (fun d' fk' => b1 d' ks fk') fk)
      (fun s ks fk => a2 s (fun s' fk' => b2 s' ks fk') fk) := by
  intro d ks1 ks2 fk1 fk2 hinv hlin hks hfk
  refine ha d _ _ fk1 fk2 hinv (hlb ks1 hlin) ?_ hfk
  intro d' fk1' fk2' hinv' hle hf
  refine hb d' ks1 ks2 fk1' fk2' hinv' hlin ?_ hf
  intro d'' fk1'' fk2'' hinv'' hle' hf'
  exact hks d'' fk1'' fk2'' hinv'' (by omega) hf'

theorem sim_alt {text : Bytes} {p0 k : Nat} {a1 b1 a2 b2} (ha : Sim text p0 k a1 a2) (hb : Sim text p0 k b1 b2) :
    Sim text p0 k (fun d ks fk => a1 d ks (fun _ => b1 d ks fk)) (fun s ks fk => a2 s ks (fun _ => b2 s ks fk)) := by
  intro d ks1 ks2 fk1 fk2 hinv hlin hks hfk
  exact ha d ks1 ks2 _ _ hinv hlin hks (hb d ks1 ks2 fk1 fk2 hinv hlin hks hfk)

theorem sim_group {text : Bytes} {p0 k : Nat} {b1 b2} (x : String) (hb : Sim text p0 k b1 b2) :
    Sim text p0 k (fun d ks fk => b1 d (fun d' fk' => ks (bindD d' x (d'.cur.drop d.cur.length)) fk') fk)
      (fun s ks fk => b2 s (fun s' fk' => ks { s' with caps := s'.caps.put x (.str (Regex.slice text s.pos s'.pos)) } fk') fk) := by
  intro d ks1 ks2 fk1 fk2 hinv hlin hks hfk
  refine hb d _ _ fk1 fk2 hinv (fun d' => hlin _) ?_ hfk
  intro d' fk1' fk2' hinv' hle hf
  have hdrop := inv_drop hinv hinv' (by omega)
  have hi : Inv text p0 (bindD d' x (d'.cur.drop d.cur.length)) := hinv'
  have := hks _ fk1' fk2' hi hle hf
  have e : proj (bindD d' x (d'.cur.drop d.cur.length)) =
      { proj d' with caps := (proj d').caps.put x (.str (Regex.slice text (proj d).pos (proj d').pos)) } := by
    simp [proj, bindD, hdrop]
  rw [e] at this
  exact this

theorem sim_repeat {text : Bytes} {p0 kb : Nat} {b1 b2} (hb : Sim text p0 kb b1 b2) (hl : LinM b1) :
    ∀ n, Sim text p0 (n * kb) (Spec.repeatM b1 n) (times b2 n) := by
  intro n
  induction n with
  | zero =>
    intro d ks1 ks2 fk1 fk2 hinv _ hks hfk
    simp only [Spec.repeatM, times]
    exact hks d fk1 fk2 hinv (by omega) hfk
  | succ n ih =>
    intro d ks1 ks2 fk1 fk2 hinv hlin hks hfk
    simp only [Spec.repeatM, times]
    refine hb d _ _ fk1 fk2 hinv (repeatM_lin hl n ks1 hlin) ?_ hfk
    intro d' fk1' fk2' hinv' hle hf
    refine ih d' ks1 ks2 fk1' fk2' hinv' hlin ?_ hf
    intro d'' fk1'' fk2'' hinv'' hle' hf'
    refine hks d'' fk1'' fk2'' hinv'' ?_ hf'
    rw [Nat.succ_mul]; omega

/-! ## the loop head: vore's rule against the textbook one -/

theorem sim_loopV {text : Bytes} {p0 : Nat} {b1 b2} (hb : Sim text p0 1 b1 b2) (hl : LinM b1)
    (htot : ∀ Q, BodyTotal text p0 Q b1) (mxI : Int) (fewest : Bool) :
    ∀ (fuel1 fuel2 k : Nat) (bound : Option Nat) d ks1 ks2 fk1 fk2,
      Inv text p0 d →
      ((mxI = -1 ∧ bound = none) ∨ (∃ j : Nat, bound = some j ∧ mxI = (k : Int) + j)) →
      text.length + 2 ≤ fuel1 + d.pos → text.length + 1 ≤ fuel2 + d.pos →
      Lin ks1 →
      (∀ d' fk1' fk2', Inv text p0 d' → d.cur.length ≤ d'.cur.length → (fk1' ()).map pr = fk2' () →
        (ks1 d' fk1').map pr = ks2 (proj d') fk2') →
      (fk1 ()).map pr = fk2 () →
      (loopV b1 mxI fewest fuel1 k d ks1 fk1).map pr = more b2 fewest fuel2 bound (proj d) ks2 fk2 := by
  intro fuel1
  induction fuel1 with
  | zero => intro fuel2 k bound d _ _ _ _ hinv _ h1 _; have := hinv.1.1; omega
  | succ fuel1 ih =>
    intro fuel2 k bound d ks1 ks2 fk1 fk2 hinv hR h1 h2 hlin hks hfk
    have hpos := hinv.1.1
    cases fuel2 with
    | zero => omega
    | succ fuel2 =>
      have hcond : (mxI == -1 || decide ((k : Int) ≤ mxI)) = true := by
        rcases hR with ⟨h, _⟩ | ⟨j, _, h⟩
        · simp [h]
        · have : (k : Int) ≤ mxI := by omega
          simp [this]
      simp only [loopV, hcond, if_true, more]
      -- the continuation after one more iteration, on both sides
      have hLinK : Lin (fun d' fk' =>
          if d'.cur.length == d.cur.length then fk' () else loopV b1 mxI fewest fuel1 (k + 1) d' ks1 fk') := by
        intro d'
        by_cases he : (d'.cur.length == d.cur.length) = true
        · exact Or.inl (fun fk => by simp [he])
        · rcases (loopV_lin hl mxI fewest fuel1 (k + 1)).app hlin d' with hp | ⟨v, hv⟩
          · exact Or.inl (fun fk => by simp [he, hp])
          · exact Or.inr ⟨v, fun fk => by simp [he, hv]⟩
      -- case: the bound is used up
      by_cases hb0 : bound = some 0
      · subst hb0
        have hmx : mxI = (k : Int) := by
          rcases hR with ⟨_, h⟩ | ⟨j, hj, h⟩
          · cases h
          · cases hj; simpa using h
        have hf1 : 1 ≤ fuel1 := by omega
        obtain ⟨f', rfl⟩ : ∃ f', fuel1 = f' + 1 := ⟨fuel1 - 1, by omega⟩
        have hK1 : ∀ (d' : Data) (fk' : FK),
            (if d'.cur.length == d.cur.length then fk' () else loopV b1 mxI fewest (f' + 1) (k + 1) d' ks1 fk') = fk' () := by
          intro d' fk'
          split
          · rfl
          · have hc : (mxI == -1 || decide (((k + 1 : Nat) : Int) ≤ mxI)) = false := by
              rw [Bool.or_eq_false_iff]
              constructor
              · rw [beq_eq_false_iff_ne]; omega
              · rw [decide_eq_false_iff_not]; omega
            simp only [loopV, hc]
            rfl
        simp only [beq_self_eq_true, if_true]
        cases fewest with
        | true =>
          simp only [if_true]
          refine hks d _ fk2 hinv (Nat.le_refl _) ?_
          have : b1 d (fun d' fk' =>
              if d'.cur.length == d.cur.length then fk' () else loopV b1 mxI true (f' + 1) (k + 1) d' ks1 fk') fk1 = fk1 () :=
            htot (fun o => o = fk1 ()) d _ fk1 hinv.1 (fun d' fk' _ _ hq => by rw [hK1]; exact hq) rfl
          rw [this]; exact hfk
        | false =>
          simp only [Bool.false_eq_true, if_false]
          have : b1 d (fun d' fk' =>
              if d'.cur.length == d.cur.length then fk' () else loopV b1 mxI false (f' + 1) (k + 1) d' ks1 fk')
              (fun _ => ks1 d fk1) = ks1 d fk1 :=
            htot (fun o => o = ks1 d fk1) d _ _ hinv.1 (fun d' fk' _ _ hq => by rw [hK1]; exact hq) rfl
          rw [this]
          exact hks d fk1 fk2 hinv (Nat.le_refl _) hfk
      · -- case: one more iteration is allowed
        have hb0' : (bound == some 0) = false := by
          rw [beq_eq_false_iff_ne]; exact hb0
        have hR' : (mxI = -1 ∧ bound.map (· - 1) = none) ∨
            (∃ j : Nat, bound.map (· - 1) = some j ∧ mxI = ((k + 1 : Nat) : Int) + j) := by
          rcases hR with ⟨h, hbn⟩ | ⟨j, hj, h⟩
          · exact Or.inl ⟨h, by simp [hbn]⟩
          · cases j with
            | zero => exact absurd hj hb0
            | succ j => exact Or.inr ⟨j, by simp [hj], by omega⟩
        have hKagree : ∀ d' fk1' fk2', Inv text p0 d' → d.cur.length + 1 ≤ d'.cur.length →
            (fk1' ()).map pr = fk2' () →
            ((if d'.cur.length == d.cur.length then fk1' () else loopV b1 mxI fewest fuel1 (k + 1) d' ks1 fk1')).map pr =
              more b2 fewest fuel2 (bound.map (· - 1)) (proj d') ks2 fk2' := by
          intro d' fk1' fk2' hinv' hle hf
          have hne : (d'.cur.length == d.cur.length) = false := by
            rw [beq_eq_false_iff_ne]; omega
          simp only [hne, Bool.false_eq_true, if_false]
          have hp := hinv.1.2
          have hp' := hinv'.1.2
          exact ih fuel2 (k + 1) _ d' ks1 ks2 fk1' fk2' hinv' hR' (by omega) (by omega) hlin
            (fun d'' fk1'' fk2'' hi hle' hf' => hks d'' fk1'' fk2'' hi (by omega) hf') hf
        simp only [hb0', Bool.false_eq_true, if_false]
        cases fewest with
        | true =>
          simp only [if_true]
          refine hks d _ _ hinv (Nat.le_refl _) ?_
          exact hb d _ _ fk1 fk2 hinv hLinK hKagree hfk
        | false =>
          simp only [Bool.false_eq_true, if_false]
          exact hb d _ _ _ _ hinv hLinK hKagree (hks d fk1 fk2 hinv (Nat.le_refl _) hfk)

/-! ## the induction on the regular expression -/

def _root_.Vore.Regex.Quant.wf : Quant → Bool
  | .between lo hi => lo ≤ hi
  | _ => true

/-- what the semantic proof uses of its hypotheses: bracket classes are not empty, `{m,n}` has
`m ≤ n`, and a body repeated an optional number of times cannot
match the empty string -/
def _root_.Vore.Regex.Re.semOK : Re → Bool
  | .seq a b | .alt a b => a.semOK && b.semOK
  | .cls _ items => !items.isEmpty
  | .group _ r | .ncgroup r | .named _ r => r.semOK
  | .rep r q _ => r.semOK && q.wf && (q.max == some q.min || !r.nullable)
  | _ => true

theorem callFree_of_semOK : ∀ r : Re, r.semOK = true → CallFree r.toExpr := by
  intro r
  induction r with
  | seq a b iha ihb =>
    intro h; simp only [Re.semOK, Bool.and_eq_true] at h
    exact ⟨iha h.1, ihb h.2⟩
  | alt a b iha ihb =>
    intro h; simp only [Re.semOK, Bool.and_eq_true] at h
    exact ⟨⟨iha h.1, trivial⟩, ihb h.2⟩
  | cls neg items =>
    intro h
    simp only [Re.semOK, Bool.not_eq_true', List.isEmpty_eq_false_iff] at h
    simp only [Re.toExpr, CallFree]
    exact Or.inr (by simpa using h)
  | group n r ih => intro h; exact ⟨ih h, trivial⟩
  | ncgroup r ih => intro h; exact ih h
  | named nm r ih => intro h; exact ⟨ih h, trivial⟩
  | rep r q lz ih =>
    intro h; simp only [Re.semOK, Bool.and_eq_true] at h
    exact ⟨rfl, ih h.1.1⟩
  | _ => intro _; simp [Re.toExpr, CallFree]

theorem quant_cases (q : Quant) (hq : q.wf = true) :
    (q.max = some q.min ∧ ((q.min : Int) == q.maxInt) = true) ∨
    (q.max ≠ some q.min ∧ ((q.min : Int) == q.maxInt) = false ∧
      (((if q.maxInt > 0 then q.maxInt - q.min else q.maxInt) = -1 ∧ q.max.map (· - q.min) = none) ∨
       (∃ j : Nat, q.max.map (· - q.min) = some j ∧
          (if q.maxInt > 0 then q.maxInt - q.min else q.maxInt) = ((0 : Nat) : Int) + j))) := by
  cases q with
  | star => right; simp [Quant.max, Quant.min, Quant.maxInt]
  | plus => right; simp [Quant.max, Quant.min, Quant.maxInt]
  | opt => right; simp [Quant.max, Quant.min, Quant.maxInt]
  | exact m => left; simp [Quant.max, Quant.min, Quant.maxInt]
  | atLeast m =>
    right
    refine ⟨by simp [Quant.max], ?_, Or.inl ⟨by simp [Quant.maxInt], by simp [Quant.max]⟩⟩
    simp only [Quant.min, Quant.maxInt, beq_eq_false_iff_ne, ne_eq]
    omega
  | between m n =>
    simp only [Quant.wf, decide_eq_true_eq] at hq
    by_cases hmn : n = m
    · left; subst hmn; simp [Quant.max, Quant.min, Quant.maxInt]
    · right
      refine ⟨by simp [Quant.max, Quant.min, hmn], ?_, Or.inr ⟨n - m, by simp [Quant.max, Quant.min], ?_⟩⟩
      · simp only [Quant.min, Quant.maxInt, beq_eq_false_iff_ne, ne_eq]; omega
      · have hpos : (Quant.between m n).maxInt > 0 := by simp only [Quant.maxInt]; omega
        rw [if_pos hpos]
        simp only [Quant.min, Quant.maxInt]; omega

theorem k_seq (x y : Bool) :
    (if (x && y) = true then 0 else 1) ≤ (if x = true then 0 else 1) + (if y = true then 0 else 1) := by
  cases x <;> cases y <;> simp
theorem k_alt_l (x y : Bool) : (if (x || y) = true then 0 else 1) ≤ (if x = true then 0 else 1) := by
  cases x <;> cases y <;> simp
theorem k_alt_r (x y : Bool) : (if (x || y) = true then 0 else 1) ≤ (if y = true then 0 else 1) := by
  cases x <;> cases y <;> simp
theorem k_rep (n : Nat) (x : Bool) :
    (if (n == 0 || x) = true then 0 else 1) ≤ n * (if x = true then 0 else 1) := by
  cases x <;> cases n <;> simp

theorem sim_m {text : Bytes} {p0 lf1 lf2 : Nat} (htext : TextOK text)
    (h1 : text.length + 2 ≤ lf1) (h2 : text.length + 2 ≤ lf2) :
    ∀ r : Re, r.semOK = true →
      Sim text p0 (if r.nullable then 0 else 1) (Spec.m text lf1 r.toExpr) (Regex.m text lf2 r) := by
  intro r
  induction r with
  | empty =>
    intro _ d ks1 ks2 fk1 fk2 hinv hlin hks hfk
    simp only [Re.nullable, if_true] at hks
    simp only [Re.toExpr, Spec.m, Regex.m]
    exact sim_empty d ks1 ks2 fk1 fk2 hinv hlin hks hfk
  | seq a b iha ihb =>
    intro h
    simp only [Re.semOK, Bool.and_eq_true] at h
    have hs := sim_seq (iha h.1) (ihb h.2) (m_lin text lf1 b.toExpr)
    have hs' : Sim text p0 (if (Re.seq a b).nullable then 0 else 1) _ _ :=
      hs.mono (k_seq _ _)
    intro d ks1 ks2 fk1 fk2 hinv hlin hks hfk
    simp only [Re.toExpr, Spec.m, Regex.m]
    exact hs' d ks1 ks2 fk1 fk2 hinv hlin hks hfk
  | chr c =>
    intro _ d ks1 ks2 fk1 fk2 hinv hlin hks hfk
    simp only [Re.nullable, Bool.false_eq_true, if_false] at hks
    simp only [Re.toExpr, Spec.m, Regex.m]
    refine sim_one (atomD text (.str false false [c])) (fun b => b == c) ?_ d ks1 ks2 fk1 fk2 hinv hlin hks hfk
    intro d' h'
    simp only [atomD]
    rw [litD_one c false h']
    cases text[d'.pos]? <;> simp
  | dot =>
    intro _ d ks1 ks2 fk1 fk2 hinv hlin hks hfk
    simp only [Re.nullable, Bool.false_eq_true, if_false] at hks
    simp only [Re.toExpr, Spec.m, Regex.m]
    refine sim_one (atomD text (.str true false [10])) (fun b => b != 10) ?_ d ks1 ks2 fk1 fk2 hinv hlin hks hfk
    intro d' h'
    simp only [atomD]
    rw [litD_one 10 true h']
    cases text[d'.pos]? <;> simp [bne]
  | bol =>
    intro _ d ks1 ks2 fk1 fk2 hinv hlin hks hfk
    simp only [Re.nullable, if_true] at hks
    simp only [Re.toExpr, Spec.m, Regex.m]
    exact sim_anchor (atomD text (.cls false .lineStart)) (fun p => p == 0 || text[p - 1]? == some 10)
      (fun d' _ => bolD d') d ks1 ks2 fk1 fk2 hinv hlin hks hfk
  | eol =>
    intro _ d ks1 ks2 fk1 fk2 hinv hlin hks hfk
    simp only [Re.nullable, if_true] at hks
    simp only [Re.toExpr, Spec.m, Regex.m]
    exact sim_anchor (atomD text (.cls false .lineEnd)) (fun p => p == text.length || text[p]? == some 10)
      (fun d' _ => eolD htext d') d ks1 ks2 fk1 fk2 hinv hlin hks hfk
  | digit neg =>
    intro _ d ks1 ks2 fk1 fk2 hinv hlin hks hfk
    simp only [Re.nullable, Bool.false_eq_true, if_false] at hks
    simp only [Re.toExpr, Spec.m, Regex.m]
    exact sim_one (atomD text (.cls neg .digit)) (fun b => isDigit b != neg)
      (fun d' h' => digitD_one neg h') d ks1 ks2 fk1 fk2 hinv hlin hks hfk
  | space neg =>
    intro _ d ks1 ks2 fk1 fk2 hinv hlin hks hfk
    simp only [Re.nullable, Bool.false_eq_true, if_false] at hks
    simp only [Re.toExpr, Spec.m, Regex.m]
    exact sim_one (atomD text (.cls neg .whitespace)) (fun b => isSpace b != neg)
      (fun d' h' => spaceD_one neg htext h') d ks1 ks2 fk1 fk2 hinv hlin hks hfk
  | cls neg items =>
    intro h d ks1 ks2 fk1 fk2 hinv hlin hks hfk
    simp only [Re.semOK, Bool.not_eq_true', List.isEmpty_eq_false_iff] at h
    simp only [Re.nullable, Bool.false_eq_true, if_false] at hks
    cases neg with
    | false =>
      simp only [Re.toExpr, Spec.m, Regex.m]
      have e : (fun b => (items.any (fun i => i.mem b)) != false) = (fun b => items.any (fun i => i.mem b)) := by
        funext b; simp
      rw [e]
      exact sim_class_pos items d ks1 ks2 fk1 fk2 hinv hlin hks hfk
    | true =>
      simp only [Re.toExpr, Regex.m]
      exact sim_class_neg lf1 items h d ks1 ks2 fk1 fk2 hinv hlin hks hfk
  | group n r ih =>
    intro h d ks1 ks2 fk1 fk2 hinv hlin hks hfk
    simp only [Re.nullable] at hks
    simp only [Re.toExpr, Spec.m, Regex.m]
    exact sim_group (numName n) (ih h) d ks1 ks2 fk1 fk2 hinv hlin hks hfk
  | ncgroup r ih =>
    intro h d ks1 ks2 fk1 fk2 hinv hlin hks hfk
    simp only [Re.nullable] at hks
    simp only [Re.toExpr, Regex.m]
    exact ih h d ks1 ks2 fk1 fk2 hinv hlin hks hfk
  | named nm r ih =>
    intro h d ks1 ks2 fk1 fk2 hinv hlin hks hfk
    simp only [Re.nullable] at hks
    simp only [Re.toExpr, Spec.m, Regex.m]
    exact sim_group (nameStr nm) (ih h) d ks1 ks2 fk1 fk2 hinv hlin hks hfk
  | backref n =>
    intro _ d ks1 ks2 fk1 fk2 hinv hlin hks hfk
    simp only [Re.nullable, if_true] at hks
    simp only [Re.toExpr, Spec.m, Regex.m]
    exact sim_backref (numName n) d ks1 ks2 fk1 fk2 hinv hlin hks hfk
  | backrefNamed nm =>
    intro _ d ks1 ks2 fk1 fk2 hinv hlin hks hfk
    simp only [Re.nullable, if_true] at hks
    simp only [Re.toExpr, Spec.m, Regex.m]
    exact sim_backref (nameStr nm) d ks1 ks2 fk1 fk2 hinv hlin hks hfk
  | alt a b iha ihb =>
    intro h
    simp only [Re.semOK, Bool.and_eq_true] at h
    have ha := (iha h.1).mono (k' := if (Re.alt a b).nullable then 0 else 1) (k_alt_l _ _)
    have hb := (ihb h.2).mono (k' := if (Re.alt a b).nullable then 0 else 1) (k_alt_r _ _)
    intro d ks1 ks2 fk1 fk2 hinv hlin hks hfk
    simp only [Re.toExpr, Spec.m, Regex.m]
    exact sim_alt ha hb d ks1 ks2 fk1 fk2 hinv hlin hks hfk
  | rep r q lz ih =>
    intro h
    simp only [Re.semOK, Bool.and_eq_true] at h
    obtain ⟨⟨hr, hq⟩, hnn⟩ := h
    have hcf := callFree_of_semOK r hr
    have hrep := sim_repeat (ih hr) (m_lin text lf1 r.toExpr) q.min
    intro d ks1 ks2 fk1 fk2 hinv hlin hks hfk
    simp only [Re.toExpr, Spec.m, Regex.m]
    refine hrep d _ _ fk1 fk2 hinv ?_ ?_ hfk
    · -- the continuation after the mandatory copies is linear
      intro d'
      by_cases he : ((q.min : Int) == q.maxInt) = true
      · simpa [he] using hlin d'
      · simpa [he] using (loopV_lin (m_lin text lf1 r.toExpr) _ lz lf1 0).app hlin d'
    · intro d' fk1' fk2' hinv' hle hf
      have hks' : ∀ d'' fk1'' fk2'', Inv text p0 d'' → d'.cur.length ≤ d''.cur.length →
          (fk1'' ()).map pr = fk2'' () → (ks1 d'' fk1'').map pr = ks2 (proj d'') fk2'' := by
        intro d'' fk1'' fk2'' hi hle' hf'
        refine hks d'' fk1'' fk2'' hi ?_ hf'
        have : (if (Re.rep r q lz).nullable = true then 0 else 1) ≤ q.min * (if r.nullable = true then 0 else 1) :=
          k_rep _ _
        omega
      obtain ⟨lf2', rfl⟩ : ∃ f, lf2 = f + 1 := ⟨lf2 - 1, by omega⟩
      rcases quant_cases q hq with ⟨hmax, heq⟩ | ⟨hmax, heq, hR⟩
      · simp only [heq, if_true, hmax, Option.map_some, Nat.sub_self, more, beq_self_eq_true]
        exact hks' d' fk1' fk2' hinv' (Nat.le_refl _) hf
      · simp only [heq, Bool.false_eq_true, if_false]
        have hnull : r.nullable = false := by
          rcases Bool.or_eq_true_iff.mp hnn with h | h
          · exact absurd (by simpa using h) hmax
          · simpa using h
        have ih1 : Sim text p0 1 (Spec.m text lf1 r.toExpr) (Regex.m text (lf2' + 1) r) := by
          have := ih hr; simpa [hnull] using this
        have hpos' := hinv'.1.1
        exact sim_loopV ih1 (m_lin text lf1 r.toExpr) (fun Q => m_total lf1 (by omega) r.toExpr hcf) _ lz
          lf1 (lf2' + 1) 0 _ d' ks1 ks2 fk1' fk2' hinv' hR (by omega) (by omega) hlin hks' hf

/-! ## one attempt, the scan, all matches -/

def spanOfMatch (mt : Match) : Span := ⟨mt.startPos, mt.endPos, mt.vars⟩

theorem attempt_sim {text : Bytes} {lf1 lf2 : Nat} (htext : TextOK text)
    (h1 : text.length + 2 ≤ lf1) (h2 : text.length + 2 ≤ lf2) (r : Re) (hr : r.semOK = true)
    (pos line col : Nat) (hpos : pos ≤ text.length) :
    (Spec.attempt text lf1 r.toExpr pos line col).map pr = Regex.attempt text lf2 r pos := by
  unfold Spec.attempt Regex.attempt
  have hs := (sim_m (p0 := pos) htext h1 h2 r hr).mono (Nat.zero_le _)
  refine hs ⟨pos, line, col, [], .nil⟩ _ _ _ _ ⟨⟨hpos, by simp⟩, by simp⟩ (lin_const _) ?_ rfl
  intro d' fk1' fk2' _ _ _
  rfl

theorem scan_sim {text : Bytes} {lf1 lf2 : Nat} (htext : TextOK text)
    (h1 : text.length + 2 ≤ lf1) (h2 : text.length + 2 ≤ lf2) (r : Re) (hr : r.semOK = true) :
    ∀ f acc pos line col, pos < text.length → text.length - pos < f →
      (Spec.scanAll text lf1 r.toExpr f acc pos line col).map (List.map spanOfMatch) =
        (Regex.scan text lf2 r f pos).map (fun l => acc.map spanOfMatch ++ l) := by
  have hcf := callFree_of_semOK r hr
  intro f
  induction f with
  | zero => intro acc pos line col _ hf; omega
  | succ f ih =>
    intro acc pos line col hpos hfuel
    have hatt := attempt_sim htext h1 h2 r hr pos line col (Nat.le_of_lt hpos)
    obtain ⟨s, hs, hgood⟩ := attempt_total text lf1 (by omega) r.toExpr hcf pos line col (Nat.le_of_lt hpos)
    -- advancing one byte
    have hstep : (Spec.scanAllWith.step1 text (Spec.attempt text lf1 r.toExpr) f acc pos line col).map (List.map spanOfMatch) =
        (Regex.scan text lf2 r f (pos + 1)).map (fun l => acc.map spanOfMatch ++ l) := by
      unfold Spec.scanAllWith.step1
      have hb : text[pos]? = some text[pos] := List.getElem?_eq_getElem hpos
      rw [readAt_one_some hb]
      simp only
      by_cases hend : pos + 1 ≥ text.length
      · simp only [hend, if_true]
        cases f with
        | zero => omega
        | succ f => simp [Regex.scan, hend]
      · simp only [hend, if_false]
        split
        · exact ih acc (pos + 1) (line + 1) 1 (by omega) (by omega)
        · exact ih acc (pos + 1) line (col + 1) (by omega) (by omega)
    unfold Spec.scanAll Spec.scanAllWith Regex.scan
    have hnge : ¬ pos ≥ text.length := by omega
    simp only [hnge, if_false]
    rw [hs] at hatt
    rw [← hatt, hs]
    cases s with
    | fail => exact hstep
    | matched d =>
      have hg := hgood d rfl
      simp only [Option.map_some, pr, proj]
      by_cases hne : d.cur.length = 0
      · have hpd : ¬ d.pos > pos := by have := hg.2; omega
        simp only [hne, bne_self_eq_false, Bool.false_eq_true, if_false, hpd]
        exact hstep
      · have hpd : d.pos > pos := by have := hg.2; omega
        have hne' : (d.cur.length != 0) = true := by simpa using hne
        simp only [hne', if_true, hpd]
        by_cases hend : d.pos ≥ text.length
        · simp only [hend, if_true]
          cases f with
          | zero => omega
          | succ f => simp [Regex.scan, hend, Spec.matchOfData, spanOfMatch]
        · simp only [hend, if_false]
          rw [ih _ d.pos d.line d.col (by omega) (by omega)]
          cases Regex.scan text lf2 r f d.pos <;> simp [Spec.matchOfData, spanOfMatch]

/-- **same non-empty spans, same order, same group texts** -/
theorem findAll_sim {text : Bytes} (htext : TextOK text) (r : Re) (hr : r.semOK = true) :
    (Spec.findAll text r.toExpr).map (List.map spanOfMatch) = Regex.findAll r text := by
  unfold Spec.findAll Regex.findAll
  by_cases h0 : text.length = 0
  · simp [h0, Regex.scan]
  · simp only [h0, if_false]
    have := scan_sim htext (Nat.le_refl _) (Nat.le_refl _) r hr (text.length + 1) [] 0 1 1 (by omega) (by omega)
    simpa using this

end Vore.Rx
