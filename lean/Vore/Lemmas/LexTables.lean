import Vore.Model.Lexer
import Vore.Spec.StringLit
/-!
# Vore.Lemmas.LexTables — the regenerated lexer tables say what the documentation says

Every theorem here is re-checked against `Vore/ExtractedLex.lean` as regenerated from the current Go
source; a one-token edit of the keyword switch, `getEscapedRune`, `IsHex`, the final switch or an
`unread(n)` call changes a definition these proofs are about.
-/
namespace Vore.Lex
open Vore Vore.ExtractedLex

/-- the final switch as the proofs read it; `goFinal_spec` re-checks on every run that the table
extracted from the Go source says the same (in any order of the `case`s) -/
def finalSpec : St → Option FinalAct
  | .start => none
  | .whitespace => some (.tok .ws)
  | .stringDouble | .stringSingle | .stringDEscape | .stringSEscape => some (.err .unendingString)
  | .stringEnd => some (.tok .string)
  | .number => some (.tok .number)
  | .equal1 => some (.tok .equal)
  | .dequal => some (.tok .dequal)
  | .excl | .colon | .error => some (.err .unknownToken)
  | .nequal => some (.tok .nequal)
  | .coloneq => some (.tok .coloneq)
  | .identifier => some .keywords
  | .comma => some (.tok .comma)
  | .openparen => some (.tok .openparen)
  | .closeparen => some (.tok .closeparen)
  | .opencurly => some (.tok .opencurly)
  | .closecurly => some (.tok .closecurly)
  | .comment | .commentStart | .blockCommentFinal => some (.tok .comment)
  | .blockComment | .blockCommentStartEnd | .blockCommentEndEnd => some (.err .unendingBlockComment)
  | .dash => some (.tok .minus)
  | .operator | .operatorStart => some .operators
  | .regexp => some (.tok .regexp)
  | .regexpUnending => some (.err .unendingRegexp)
  | .end_ => some (.tok .eof)

/-- every state other than SSTART has a `case` in the final switch, with the documented result -/
theorem goFinal_spec (s : St) : goFinal.lookup s = finalSpec s := by
  cases s <;> rfl

/-- the model knows every state of the Go lexer, in the same order -/
theorem goStates_spec : goStates = [.start, .whitespace, .stringDouble, .stringSingle, .stringEnd, .stringDEscape,
    .stringSEscape, .number, .equal1, .dequal, .excl, .nequal, .colon, .coloneq, .identifier, .comma, .openparen,
    .closeparen, .opencurly, .closecurly, .comment, .commentStart, .blockComment, .blockCommentStartEnd,
    .blockCommentEndEnd, .blockCommentFinal, .dash, .operator, .operatorStart, .regexp, .regexpUnending, .error,
    .end_] := by decide

/-- bufio can take back one rune: no `unread(n)` with `n > 1` (the model's `unreadLast` is `unread(1)`) -/
theorem goUnreads_single : ∀ n ∈ goUnreads, n = 1 := by decide

/-- keywords are looked up on the lower-cased lexeme -/
theorem goKeywordsLower_true : goKeywordsLower = true := by decide

/-- no keyword and no operator spelling maps to EOF -/
theorem goKeywords_no_eof : ∀ p ∈ goKeywords, p.2 ≠ .eof := by decide
theorem goOperators_no_eof : ∀ p ∈ goOperators, p.2 ≠ .eof := by decide

/-- every key of the keyword switch is already lower case (so no case is dead) -/
theorem goKeywords_keys_lower : ∀ p ∈ goKeywords, p.1.map asciiLower = p.1 := by decide

theorem lookup_mem {α β : Type} [BEq α] (k : α) (l : List (α × β)) (v : β) (h : l.lookup k = some v) :
    ∃ p ∈ l, p.2 = v := by
  induction l with
  | nil => simp [List.lookup] at h
  | cons p ps ih =>
    obtain ⟨a, b⟩ := p
    simp only [List.lookup] at h
    split at h
    · simp at h; exact ⟨(a, b), by simp, h⟩
    · obtain ⟨q, hq, hv⟩ := ih h; exact ⟨q, by simp [hq], hv⟩

theorem kwLookup_ne_eof (buf : Bytes) : kwLookup buf ≠ .eof := by
  unfold kwLookup
  cases h : goKeywords.lookup (kwKey buf) with
  | none => simp
  | some v =>
    obtain ⟨p, hp, hv⟩ := lookup_mem _ _ _ h
    simp only [Option.getD_some]; rw [← hv]; exact goKeywords_no_eof p hp

/-- only SEND yields the EOF token -/
theorem finalAct_eof (s : St) (buf : Bytes) (h : finalAct s buf = .tok .eof) : s = .end_ := by
  unfold finalAct at h
  rw [goFinal_spec] at h
  cases s <;> simp [finalSpec] at h <;> try rfl
  · exact absurd h (kwLookup_ne_eof buf)
  all_goals
    split at h
    · rename_i k hk
      obtain ⟨p, hp, hv⟩ := lookup_mem _ _ _ hk
      simp at h; rw [h] at hv; exact absurd hv (goOperators_no_eof p hp)
    · simp at h

/-- the final switch panics only in SSTART -/
theorem finalAct_ne_panic (s : St) (buf : Bytes) (hs : s ≠ .start) : finalAct s buf ≠ .panic := by
  unfold finalAct
  rw [goFinal_spec]
  cases s <;> simp [finalSpec] at hs ⊢
  all_goals (split <;> simp)

/-! ## escapes and hex digits -/

/-- `getEscapedRune` is the documented escape table, and the identity elsewhere -/
theorem getEscapedRune_spec : ∀ c : UInt8, getEscapedRune c = (docEscape c).getD c := by
  apply all_u8
  set_option maxRecDepth 100000 in decide

/-- `IsHex` accepts exactly the hexadecimal digits -/
theorem isHex_spec : ∀ c : UInt8, isHex c = (hexVal c).isSome := by
  apply all_u8
  set_option maxRecDepth 100000 in decide

/-- the model's reading of `strconv.ParseInt(_, 16, _)` on one digit is the specification's -/
theorem hexDigitVal_eq_hexVal (c : UInt8) : hexDigitVal c = hexVal c := rfl

theorem hexToAscii_spec (a b : UInt8) (ha : (hexVal a).isSome) (hb : (hexVal b).isSome) :
    hexToAscii a b = some ((hexVal a).getD 0 * 16 + (hexVal b).getD 0) := by
  unfold hexToAscii
  rw [hexDigitVal_eq_hexVal, hexDigitVal_eq_hexVal]
  cases hx : hexVal a <;> cases hy : hexVal b <;> simp_all

/-- `HexToAscii` cannot panic on what `IsHex` lets through -/
theorem hexToAscii_isSome (a b : UInt8) (ha : isHex a = true) (hb : isHex b = true) : (hexToAscii a b).isSome := by
  rw [isHex_spec] at ha hb
  rw [hexToAscii_spec a b ha hb]; rfl

end Vore.Lex
