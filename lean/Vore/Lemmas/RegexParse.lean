import Vore.Lemmas.RegexShow
/-!
# Vore.Lemmas.RegexParse — `RegexParser` reads `Re.show r` back as `Re.toExpr r`

Induction on the regular expression.  For every node the statement is about the function of the
sub-parser that handles it, on the node's text followed by an arbitrary admissible tail:

* atoms: `literal (show r ++ rest') = finishAtom (toExpr r) rest'` — whatever follows, the atom is
  read and the quantifier parser is started on what follows;
* items (anchors, atoms, quantified atoms): `literal (show r ++ tail) = ok (toExpr r, tail)`;
* items and alternations: the same for `pattern`;
* concatenations (group bodies, the whole pattern): the same for `disj`.

Fuel: every statement holds for every fuel `F` with `3·|show r| ≤ F + const`; `parseRaw` supplies
`4·|pattern| + 8`.
-/
namespace Vore.Rx
open Vore.Regex Vore.RegexParser

/-! ## first characters -/

/-- first character of an item: not `)`, `|`, and not a quantifier -/
def itemStartB (c : UInt8) : Bool := c != 41 && c != 124 && c != 42 && c != 43 && c != 63 && c != 123

/-- after a concatenation: the end of the pattern or `)` -/
def endTail : Bytes → Bool
  | [] => true
  | c :: _ => c == 41

/-- does not start with `|` -/
def noBar : Bytes → Bool
  | [] => true
  | c :: _ => c != 124

theorem endTail_facts {tail : Bytes} (h : endTail tail = true) :
    qFollow tail = true ∧ noBar tail = true ∧ noDigitHead tail = true := by
  cases tail with
  | nil => simp [qFollow, noBar, noDigitHead]
  | cons c t =>
    simp only [endTail, beq_iff_eq] at h
    subst h
    simp [qFollow, noBar, noDigitHead, isDigitB]

theorem itemStart_facts {c : UInt8} {l : Bytes} (h : itemStartB c = true) :
    qFollow (c :: l) = true ∧ noBar (c :: l) = true ∧ endTail (c :: l) = false := by
  simp only [itemStartB, Bool.and_eq_true, bne_iff_ne, ne_eq] at h
  obtain ⟨⟨⟨⟨⟨h1, h2⟩, h3⟩, h4⟩, h5⟩, h6⟩ := h
  simp [qFollow, noBar, endTail, h1, h2, h3, h4, h5, h6]

theorem noDigitHead_eq (l : Bytes) : noDigitHead l = !startsWithDigit l := by
  cases l with
  | nil => rfl
  | cons c t => simp [noDigitHead, startsWithDigit, isDigitB]

theorem isAtom_isItem {r : Re} (h : r.isAtom = true) : r.isItem = true := by
  cases r <;> simp_all [Re.isAtom, Re.isItem, Re.isSeq, Re.isAlt]

theorem notSpecial {c : UInt8} (h : isSpecial c = false) :
    c ≠ 94 ∧ c ≠ 36 ∧ c ≠ 92 ∧ c ≠ 46 ∧ c ≠ 42 ∧ c ≠ 43 ∧ c ≠ 63 ∧ c ≠ 40 ∧ c ≠ 41 ∧ c ≠ 91 ∧ c ≠ 93 ∧ c ≠ 123 ∧
    c ≠ 125 ∧ c ≠ 124 := by
  simp only [isSpecial, Bool.or_eq_false_iff, beq_eq_false_iff_ne, ne_eq] at h
  obtain ⟨⟨⟨⟨⟨⟨⟨⟨⟨⟨⟨⟨⟨h1, h2⟩, h3⟩, h4⟩, h5⟩, h6⟩, h7⟩, h8⟩, h9⟩, h10⟩, h11⟩, h12⟩, h13⟩, h14⟩ := h
  exact ⟨h1, h2, h3, h4, h5, h6, h7, h8, h9, h10, h11, h12, h13, h14⟩

/-- the text of an item or an alternation starts with an item character -/
theorem show_head : ∀ r : Re, r.sup = true → (r.isItem = true ∨ r.isAlt = true) →
    ∃ c l, r.show = c :: l ∧ itemStartB c = true := by
  intro r
  induction r with
  | empty => intro _ h; simp [Re.isItem, Re.isSeq, Re.isAlt] at h
  | seq a b _ _ => intro _ h; simp [Re.isItem, Re.isSeq, Re.isAlt] at h
  | chr c =>
    intro _ _
    simp only [Re.show, showChr]
    by_cases hs : isSpecial c = true
    · exact ⟨92, [c], by simp [hs], by decide⟩
    · have hs' : isSpecial c = false := by simpa using hs
      obtain ⟨_, _, _, _, h5, h6, h7, _, h9, _, _, h12, _, h14⟩ := notSpecial hs'
      exact ⟨c, [], by simp [hs'], by simp [itemStartB, h5, h6, h7, h9, h12, h14]⟩
  | dot => intro _ _; exact ⟨46, [], rfl, by decide⟩
  | bol => intro _ _; exact ⟨94, [], rfl, by decide⟩
  | eol => intro _ _; exact ⟨36, [], rfl, by decide⟩
  | digit neg => intro _ _; exact ⟨92, _, rfl, by decide⟩
  | space neg => intro _ _; exact ⟨92, _, rfl, by decide⟩
  | cls neg items => intro _ _; exact ⟨91, _, rfl, by decide⟩
  | group n r _ => intro _ _; exact ⟨40, _, rfl, by decide⟩
  | ncgroup r _ => intro _ _; exact ⟨40, _, rfl, by decide⟩
  | named nm r _ => intro _ _; exact ⟨40, _, rfl, by decide⟩
  | backref n => intro _ _; exact ⟨92, _, rfl, by decide⟩
  | backrefNamed nm => intro _ _; exact ⟨92, _, rfl, by decide⟩
  | rep r q lz ih =>
    intro hs _
    simp only [Re.sup, Bool.and_eq_true] at hs
    obtain ⟨c, l, hc, hi⟩ := ih hs.1.2 (Or.inl (isAtom_isItem hs.1.1))
    exact ⟨c, l ++ (q.show ++ if lz then [63] else []), by simp [Re.show, hc], hi⟩
  | alt a b iha _ =>
    intro hs _
    simp only [Re.sup, Bool.and_eq_true] at hs
    obtain ⟨c, l, hc, hi⟩ := iha hs.1.2 (Or.inl hs.1.1.1)
    exact ⟨c, l ++ 124 :: b.show, by simp [Re.show, hc], hi⟩

/-! ## small lexical facts -/

theorem runeBytes_ascii {c : UInt8} (h : c < 128) : runeBytes c = [c] := by simp [runeBytes, h]

theorem okChr_lt {c : UInt8} (h : okChr c = true) : c < 128 := by
  simp only [okChr, Bool.and_eq_true, decide_eq_true_eq] at h; exact h.2

theorem spanIdent_name : ∀ (nm rest : Bytes), nm.all isAlnum = true → spanIdent (nm ++ 62 :: rest) = (nm, 62 :: rest) := by
  intro nm
  induction nm with
  | nil => intro rest _; simp [spanIdent, isIdentB, isDigitB]
  | cons c t ih =>
    intro rest h
    simp only [List.all_cons, Bool.and_eq_true] at h
    have hc : isIdentB c = true := by
      have := h.1
      simp only [isAlnum, Bool.or_eq_true, Bool.and_eq_true, decide_eq_true_eq] at this
      simp only [isIdentB, isDigitB, Bool.or_eq_true, Bool.and_eq_true, decide_eq_true_eq]
      rcases this with (h | h) | h
      · exact Or.inl (Or.inl (Or.inl (Or.inl (Or.inl (Or.inl (Or.inl (Or.inl h)))))))
      · exact Or.inl (Or.inl (Or.inl (Or.inl (Or.inl (Or.inl (Or.inl (Or.inr h)))))))
      · exact Or.inl (Or.inl (Or.inl (Or.inl (Or.inl (Or.inl (Or.inr h))))))
    simp [spanIdent, hc, ih rest h.2]

theorem identThenGt_name (nm rest : Bytes) (msg : String) (h : nm.all isAlnum = true) :
    identThenGt (nm ++ 62 :: rest) msg = .ok (nm, rest) := by
  simp [identThenGt, spanIdent_name nm rest h]

theorem latin1_eq (b : Bytes) : latin1 b = nameStr b := rfl

theorem decimal_eq : ∀ f n, decimalAux f n = showNatAux f n := by
  intro f
  induction f with
  | zero => intro n; rfl
  | succ f ih => intro n; simp only [decimalAux, showNatAux, digitByte, ih]

theorem groupName_eq (n : Nat) : groupName n = numName n := by
  simp only [groupName, refName, decimal, decimal_eq, numName, showNat]

theorem escape_special {c : UInt8} (h : isSpecial c = true) (hlt : c < 128) (rest : Bytes) :
    escape (c :: rest) = .ok (.atom (.str false false [c]), rest) := by
  simp only [isSpecial, Bool.or_eq_true, beq_iff_eq] at h
  have hr := runeBytes_ascii hlt
  rcases h with ((((((((((((h | h) | h) | h) | h) | h) | h) | h) | h) | h) | h) | h) | h) | h <;>
    subst h <;> simp [escape, hr] <;> decide

/-! ## bracket classes -/

theorem okClsChr_facts {c : UInt8} (h : okClsChr c = true) : c ≠ 93 ∧ c ≠ 92 ∧ c ≠ 45 ∧ c ≠ 94 ∧ c < 128 := by
  simp only [okClsChr, okChr, Bool.and_eq_true, bne_iff_ne, ne_eq, decide_eq_true_eq] at h
  exact ⟨h.1.1.1.2, h.1.1.2, h.1.2, h.2, h.1.1.1.1.2⟩

theorem showItems_head (items : List ClsItem) (hok : items.all ClsItem.ok = true) (rest : Bytes) :
    ∃ d t, showItems items ++ 93 :: rest = d :: t ∧ d ≠ 45 ∧ d ≠ 94 := by
  cases items with
  | nil => exact ⟨93, rest, rfl, by decide, by decide⟩
  | cons i ri =>
    simp only [List.all_cons, Bool.and_eq_true] at hok
    cases i with
    | single c =>
      have hc := okClsChr_facts (by simpa [ClsItem.ok] using hok.1)
      exact ⟨c, showItems ri ++ 93 :: rest, by simp [showItems, ClsItem.show], hc.2.2.1, hc.2.2.2.1⟩
    | range lo hi =>
      have hl : okClsChr lo = true := by
        have := hok.1; simp only [ClsItem.ok, Bool.and_eq_true] at this; exact this.1.1
      have hc := okClsChr_facts hl
      exact ⟨lo, 45 :: hi :: (showItems ri ++ 93 :: rest), by simp [showItems, ClsItem.show], hc.2.2.1, hc.2.2.2.1⟩

theorem classItems_show : ∀ (items : List ClsItem) (rest : Bytes), items.all ClsItem.ok = true →
    classItems (showItems items ++ 93 :: rest) = .ok (items.map ClsItem.toAtom, rest) := by
  intro items
  induction items with
  | nil => intro rest _; unfold classItems; simp [showItems]
  | cons i ri ih =>
    intro rest hok
    simp only [List.all_cons, Bool.and_eq_true] at hok
    cases i with
    | single c =>
      have hc := okClsChr_facts (by simpa [ClsItem.ok] using hok.1)
      obtain ⟨d, t, hd, hd45, _⟩ := showItems_head ri hok.2 rest
      have e : showItems (ClsItem.single c :: ri) ++ 93 :: rest = c :: d :: t := by
        simp [showItems, ClsItem.show, hd]
      rw [e]
      unfold classItems
      simp only [hc.1, hc.2.1, if_false, hd45]
      rw [← hd, ih rest hok.2]
      simp [PR.bind, runeBytes_ascii hc.2.2.2.2, ClsItem.toAtom]
    | range lo hi =>
      have hok1 := hok.1
      simp only [ClsItem.ok, Bool.and_eq_true] at hok1
      have hl := okClsChr_facts hok1.1.1
      have hh := okClsChr_facts hok1.1.2
      have e : showItems (ClsItem.range lo hi :: ri) ++ 93 :: rest = lo :: 45 :: hi :: (showItems ri ++ 93 :: rest) := by
        simp [showItems, ClsItem.show]
      rw [e]
      unfold classItems
      simp only [hl.1, hl.2.1, if_false, if_true, hh.1]
      rw [ih rest hok.2]
      simp [PR.bind, runeBytes_ascii hl.2.2.2.2, runeBytes_ascii hh.2.2.2.2, ClsItem.toAtom]

theorem charClass_show (neg : Bool) (items : List ClsItem) (rest : Bytes) (hne : items ≠ [])
    (hok : items.all ClsItem.ok = true) :
    charClass ((if neg then [94] else []) ++ (showItems items ++ 93 :: rest)) =
      .ok (.inl neg (items.map ClsItem.toAtom), rest) := by
  obtain ⟨d, t, hd, _, hd94⟩ := showItems_head items hok rest
  have hmap : (items.map ClsItem.toAtom = []) = False := by simp [hne]
  cases neg with
  | true =>
    simp only [if_true, List.cons_append, List.nil_append, charClass]
    rw [hd]
    simp only [if_true]
    rw [← hd, classItems_show items rest hok]
    simp [PR.bind, hmap]
  | false =>
    simp only [Bool.false_eq_true, if_false, List.nil_append]
    rw [hd]
    simp only [charClass, hd94, if_false]
    rw [← hd, classItems_show items rest hok]
    simp [PR.bind, hmap, hd94]

/-! ## one step of `literal` and `groups` -/

theorem literal_bol (F : Nat) (t : Bytes) (n : Nat) :
    literal (F + 1) (94 :: t) n = .ok (.atom (.cls false .lineStart), t, n) := by simp [literal]

theorem literal_eol (F : Nat) (t : Bytes) (n : Nat) :
    literal (F + 1) (36 :: t) n = .ok (.atom (.cls false .lineEnd), t, n) := by simp [literal]

theorem literal_escape (F : Nat) (t : Bytes) (n : Nat) :
    literal (F + 1) (92 :: t) n = (escape t).bind fun (start, r) => finishAtom start r n := by simp [literal]

theorem literal_group (F : Nat) (t : Bytes) (n : Nat) :
    literal (F + 1) (40 :: t) n = (groups F t n).bind fun (start, r, n1) => finishAtom start r n1 := by
  simp [literal]

theorem literal_class (F : Nat) (t : Bytes) (n : Nat) :
    literal (F + 1) (91 :: t) n = (charClass t).bind fun (start, r) => finishAtom start r n := by simp [literal]

theorem literal_dot (F : Nat) (t : Bytes) (n : Nat) :
    literal (F + 1) (46 :: t) n = finishAtom (.atom (.str true false [10])) t n := by simp [literal]

theorem literal_plain (F : Nat) (c : UInt8) (t : Bytes) (n : Nat) (h : isSpecial c = false) :
    literal (F + 1) (c :: t) n = finishAtom (.atom (.str false false (runeBytes c))) t n := by
  obtain ⟨h1, h2, h3, h4, _, _, _, h8, _, h10, _⟩ := notSpecial h
  simp [literal, h1, h2, h3, h4, h8, h10]

theorem groups_plain (G : Nat) (c : UInt8) (t : Bytes) (n : Nat) (hc : c ≠ 63) :
    groups (G + 1) (c :: t) n =
      (disj G (c :: t) (n + 1)).bind fun (sub, r, n1) =>
        (closeParen r).bind fun r' => .ok (.seq (.dec (groupName (n + 1)) sub) .empty, r', n1) := by
  rw [groups.eq_def]; simp [hc]

theorem groups_nc (G : Nat) (t2 : Bytes) (n : Nat) :
    groups (G + 1) (63 :: 58 :: t2) n =
      (disj G t2 n).bind fun (sub, r, n1) => (closeParen r).bind fun r' => .ok (sub, r', n1) := by
  rw [groups.eq_def]; simp

theorem groups_named (G : Nat) (a : UInt8) (t3 : Bytes) (n : Nat) (h1 : a ≠ 61) (h2 : a ≠ 33) :
    groups (G + 1) (63 :: 60 :: a :: t3) n =
      (identThenGt (a :: t3) "Unexpected character in named capture group identifier.").bind fun (id, r0) =>
        (disj G r0 n).bind fun (body, r, n1) =>
          (closeParen r).bind fun r' => .ok (.seq (.dec (latin1 id) body) .empty, r', n1) := by
  rw [groups.eq_def]; simp [h1, h2]

theorem finishAtom_none (e : Expr) (tail : Bytes) (n : Nat) (ht : qFollow tail = true) :
    finishAtom e tail n = .ok (e, tail, n) := by
  simp [finishAtom, quantifier_none tail ht, PR.bind, wrapQuant]

theorem finishAtom_quant (e : Expr) (q : Quant) (lz : Bool) (tail : Bytes) (n : Nat) (hq : q.ok = true)
    (ht : qFollow tail = true) :
    finishAtom e (q.show ++ ((if lz then [63] else []) ++ tail)) n = .ok (.loop q.min q.maxInt lz "" e, tail, n) := by
  simp [finishAtom, quantifier_show q lz tail hq ht, PR.bind, wrapQuant]

/-! ## the four statements -/

def AtomStmt (r : Re) : Prop :=
  ∀ (n n' F : Nat) (rest' : Bytes), r.numFrom n = some n' → (r.isShortRef = true → noDigitHead rest' = true) →
    3 * r.show.length ≤ F + 2 → literal F (r.show ++ rest') n = finishAtom r.toExpr rest' n'

def ItemStmt (r : Re) : Prop :=
  ∀ (n n' F : Nat) (tail : Bytes), r.numFrom n = some n' → qFollow tail = true →
    (r.isShortRef = true → noDigitHead tail = true) → 3 * r.show.length ≤ F + 2 →
    literal F (r.show ++ tail) n = .ok (r.toExpr, tail, n')

def PatStmt (r : Re) : Prop :=
  ∀ (n n' F : Nat) (tail : Bytes), r.numFrom n = some n' → qFollow tail = true → noBar tail = true →
    ((r.isShortRef = true ∨ r.isAlt = true) → noDigitHead tail = true) → 3 * r.show.length ≤ F + 1 →
    pattern F (r.show ++ tail) n = .ok (r.toExpr, tail, n')

def BodyStmt (r : Re) : Prop :=
  ∀ (n n' F : Nat) (tail : Bytes), r.numFrom n = some n' → endTail tail = true → 3 * r.show.length + 1 ≤ F →
    disj F (r.show ++ tail) n = .ok (r.toExpr, tail, n')

theorem item_of_atom {r : Re} (h : AtomStmt r) : ItemStmt r := by
  intro n n' F tail hn ht hd hF
  rw [h n n' F tail hn hd hF, finishAtom_none _ _ _ ht]

theorem pat_of_item {r : Re} (hlen : 1 ≤ r.show.length) (h : ItemStmt r) : PatStmt r := by
  intro n n' F tail hn ht hb hd hF
  obtain ⟨F', rfl⟩ : ∃ F', F = F' + 1 := ⟨F - 1, by omega⟩
  simp only [pattern]
  rw [h n n' F' tail hn ht (fun hs => hd (Or.inl hs)) (by omega)]
  cases tail with
  | nil => simp [PR.bind]
  | cons c t =>
    simp only [noBar, bne_iff_ne, ne_eq] at hb
    simp [PR.bind, hb]

def AllStmts (r : Re) : Prop :=
  (r.isAtom = true → AtomStmt r) ∧ (r.isItem = true → ItemStmt r) ∧
  ((r.isItem = true ∨ r.isAlt = true) → PatStmt r) ∧ (r.isSeq = true → BodyStmt r)

theorem stmts_of_item {r : Re} (hs : r.sup = true) (hi : r.isItem = true) (hatom : r.isAtom = true → AtomStmt r)
    (h : ItemStmt r) : AllStmts r := by
  obtain ⟨c, l, hc, _⟩ := show_head r hs (Or.inl hi)
  refine ⟨hatom, fun _ => h, fun _ => pat_of_item (by rw [hc]; simp) h, fun hseq => ?_⟩
  simp [Re.isItem, hseq] at hi

theorem stmts_of_atom {r : Re} (hs : r.sup = true) (ha : r.isAtom = true) (h : AtomStmt r) : AllStmts r :=
  stmts_of_item hs (isAtom_isItem ha) (fun _ => h) (item_of_atom h)

/-! ## the induction -/

theorem showNat_small (n : Nat) (h : n < 10) : showNat n = [digitByte n] := by
  simp [showNat, showNatAux, h]

theorem showNat_two (n : Nat) (h1 : 10 ≤ n) (h2 : n < 100) : showNat n = [digitByte (n / 10), digitByte n] := by
  have h3 : ¬ n < 10 := by omega
  have h4 : n / 10 < 10 := by omega
  obtain ⟨k, rfl⟩ : ∃ k, n = k + 1 := ⟨n - 1, by omega⟩
  simp [showNat, showNatAux, h3, h4]

theorem digitByte_range (n : Nat) (h1 : 1 ≤ n % 10) : 49 ≤ digitByte n ∧ digitByte n ≤ 57 := by
  have h := digitByte_toNat n
  constructor
  · rw [UInt8.le_iff_toNat_le]; simp [h]; omega
  · rw [UInt8.le_iff_toNat_le]; simp [h]; omega

theorem parse_all : ∀ r : Re, r.sup = true → AllStmts r := by
  intro r
  induction r with
  | empty =>
    intro _
    refine ⟨fun h => by simp [Re.isAtom] at h, fun h => by simp [Re.isItem, Re.isSeq] at h,
      fun h => by simp [Re.isItem, Re.isSeq, Re.isAlt] at h, fun _ => ?_⟩
    intro n n' F tail hn ht hF
    simp only [Re.numFrom, Option.some.injEq] at hn
    subst hn
    obtain ⟨F', rfl⟩ : ∃ F', F = F' + 1 := ⟨F - 1, by omega⟩
    cases tail with
    | nil => simp [Re.show, Re.toExpr, disj]
    | cons c t =>
      simp only [endTail, beq_iff_eq] at ht
      simp [Re.show, Re.toExpr, disj, ht]
  | seq a b iha ihb =>
    intro hs
    simp only [Re.sup, Bool.and_eq_true, Bool.or_eq_true, Bool.not_eq_true'] at hs
    obtain ⟨⟨⟨⟨hshape, hbseq⟩, hsa⟩, hsb⟩, hfollow⟩ := hs
    have hA := iha hsa
    have hB := ihb hsb
    refine ⟨fun h => by simp [Re.isAtom] at h, fun h => by simp [Re.isItem, Re.isSeq] at h,
      fun h => by simp [Re.isItem, Re.isSeq, Re.isAlt] at h, fun _ => ?_⟩
    intro n n' F tail hn ht hF
    simp only [Re.numFrom] at hn
    obtain ⟨n1, hna, hnb⟩ : ∃ n1, a.numFrom n = some n1 ∧ b.numFrom n1 = some n' := by
      cases h : a.numFrom n with
      | none => simp [h] at hn
      | some n1 => exact ⟨n1, rfl, by simpa [h] using hn⟩
    have haia : a.isItem = true ∨ a.isAlt = true := by
      rcases hshape with h | h
      · exact Or.inl h
      · exact Or.inr h.1
    obtain ⟨c, l, hc, hstart⟩ := show_head a hsa haia
    have hfa := itemStart_facts (l := l ++ (b.show ++ tail)) hstart
    -- what follows `a`
    have htail' : qFollow (b.show ++ tail) = true ∧ noBar (b.show ++ tail) = true ∧
        (b.show = [] → noDigitHead (b.show ++ tail) = true) ∧
        (b.show ≠ [] → noDigitHead (b.show ++ tail) = !startsWithDigit b.show) := by
      cases b with
      | empty =>
        have := endTail_facts ht
        simp [Re.show, this.1, this.2.1, this.2.2]
      | seq b1 b2 =>
        simp only [Re.sup, Bool.and_eq_true, Bool.or_eq_true] at hsb
        have hb1 : b1.isItem = true ∨ b1.isAlt = true := by
          rcases hsb.1.1.1.1 with h | h
          · exact Or.inl h
          · exact Or.inr h.1
        obtain ⟨c1, l1, hc1, hstart1⟩ := show_head b1 hsb.1.1.2 hb1
        have hf1 := itemStart_facts (l := l1 ++ (b2.show ++ tail)) hstart1
        have e : (Re.seq b1 b2).show ++ tail = c1 :: (l1 ++ (b2.show ++ tail)) := by simp [Re.show, hc1]
        rw [e]
        refine ⟨hf1.1, hf1.2.1, fun h => ?_, fun _ => ?_⟩
        · simp [Re.show, hc1] at h
        · simp [Re.show, hc1, noDigitHead, startsWithDigit, isDigitB]
      | _ => simp [Re.isSeq] at hbseq
    obtain ⟨hq', hb', hd0, hd1⟩ := htail'
    have hdig : (a.isShortRef = true ∨ a.isAlt = true) → noDigitHead (b.show ++ tail) = true := by
      intro h
      by_cases hbe : b.show = []
      · exact hd0 hbe
      · rw [hd1 hbe]
        rcases h with h | h
        · have : startsWithDigit b.show = false := by simpa [h] using hfollow
          simp [this]
        · -- an alternation is alone in its concatenation
          rcases hshape with h' | h'
          · simp [Re.isItem, h] at h'
          · have : b.show = [] := by
              have := h'.2; cases b <;> simp_all [Re.isEmpty, Re.show]
            exact absurd this hbe
    obtain ⟨F', rfl⟩ : ∃ F', F = F' + 1 := ⟨F - 1, by omega⟩
    have hlen : (Re.seq a b).show.length = a.show.length + b.show.length := by simp [Re.show]
    have hla : 1 ≤ a.show.length := by rw [hc]; simp
    have e : (Re.seq a b).show ++ tail = c :: (l ++ (b.show ++ tail)) := by simp [Re.show, hc]
    have hne41 : c ≠ 41 := by
      simp only [itemStartB, Bool.and_eq_true, bne_iff_ne, ne_eq] at hstart; exact hstart.1.1.1.1.1
    rw [e]
    simp only [disj, hne41, if_false]
    have e2 : c :: (l ++ (b.show ++ tail)) = a.show ++ (b.show ++ tail) := by simp [hc]
    rw [e2, hA.2.2.1 haia n n1 F' (b.show ++ tail) hna hq' hb' hdig (by omega)]
    simp only [PR.bind]
    rw [hB.2.2.2 hbseq n1 n' F' tail hnb ht (by omega)]
    simp [PR.bind, Re.toExpr]
  | chr c =>
    intro hs
    simp only [Re.sup] at hs
    have hlt := okChr_lt hs
    refine stmts_of_atom (by simpa [Re.sup] using hs) rfl ?_
    intro n n' F rest' hn _ hF
    simp only [Re.numFrom, Option.some.injEq] at hn
    subst hn
    by_cases hsp : isSpecial c = true
    · have hsh : (Re.chr c).show = [92, c] := by simp [Re.show, showChr, hsp]
      rw [hsh] at hF ⊢
      obtain ⟨F', rfl⟩ : ∃ F', F = F' + 1 := ⟨F - 1, by simp at hF; omega⟩
      simp only [List.cons_append, List.nil_append, literal_escape, escape_special hsp hlt, PR.bind, Re.toExpr]
    · have hsp' : isSpecial c = false := by simpa using hsp
      have hsh : (Re.chr c).show = [c] := by simp [Re.show, showChr, hsp']
      rw [hsh] at hF ⊢
      obtain ⟨F', rfl⟩ : ∃ F', F = F' + 1 := ⟨F - 1, by simp at hF; omega⟩
      simp only [List.cons_append, List.nil_append, literal_plain _ _ _ _ hsp', runeBytes_ascii hlt, Re.toExpr]
  | dot =>
    intro hs
    refine stmts_of_atom hs rfl ?_
    intro n n' F rest' hn _ hF
    simp only [Re.numFrom, Option.some.injEq] at hn
    subst hn
    obtain ⟨F', rfl⟩ : ∃ F', F = F' + 1 := ⟨F - 1, by simp [Re.show] at hF; omega⟩
    simp only [Re.show, List.cons_append, List.nil_append, literal_dot, Re.toExpr]
  | bol =>
    intro hs
    refine stmts_of_item hs rfl (fun h => by simp [Re.isAtom] at h) ?_
    intro n n' F tail hn _ _ hF
    simp only [Re.numFrom, Option.some.injEq] at hn
    subst hn
    obtain ⟨F', rfl⟩ : ∃ F', F = F' + 1 := ⟨F - 1, by simp [Re.show] at hF; omega⟩
    simp only [Re.show, List.cons_append, List.nil_append, literal_bol, Re.toExpr]
  | eol =>
    intro hs
    refine stmts_of_item hs rfl (fun h => by simp [Re.isAtom] at h) ?_
    intro n n' F tail hn _ _ hF
    simp only [Re.numFrom, Option.some.injEq] at hn
    subst hn
    obtain ⟨F', rfl⟩ : ∃ F', F = F' + 1 := ⟨F - 1, by simp [Re.show] at hF; omega⟩
    simp only [Re.show, List.cons_append, List.nil_append, literal_eol, Re.toExpr]
  | digit neg =>
    intro hs
    refine stmts_of_atom hs rfl ?_
    intro n n' F rest' hn _ hF
    simp only [Re.numFrom, Option.some.injEq] at hn
    subst hn
    obtain ⟨F', rfl⟩ : ∃ F', F = F' + 1 := ⟨F - 1, by simp [Re.show] at hF; omega⟩
    cases neg <;> simp [Re.show, literal_escape, escape, PR.bind, Re.toExpr]
  | space neg =>
    intro hs
    refine stmts_of_atom hs rfl ?_
    intro n n' F rest' hn _ hF
    simp only [Re.numFrom, Option.some.injEq] at hn
    subst hn
    obtain ⟨F', rfl⟩ : ∃ F', F = F' + 1 := ⟨F - 1, by simp [Re.show] at hF; omega⟩
    cases neg <;> simp [Re.show, literal_escape, escape, PR.bind, Re.toExpr]
  | cls neg items =>
    intro hs
    refine stmts_of_atom hs rfl ?_
    simp only [Re.sup, Bool.and_eq_true, Bool.not_eq_true', List.isEmpty_eq_false_iff] at hs
    intro n n' F rest' hn _ hF
    simp only [Re.numFrom, Option.some.injEq] at hn
    subst hn
    obtain ⟨F', rfl⟩ : ∃ F', F = F' + 1 := ⟨F - 1, by simp [Re.show] at hF; omega⟩
    have e : (Re.cls neg items).show ++ rest' = 91 :: ((if neg then [94] else []) ++ (showItems items ++ 93 :: rest')) := by
      simp [Re.show]
    rw [e, literal_class, charClass_show neg items rest' hs.1 hs.2]
    simp [PR.bind, Re.toExpr]
  | group k r ih =>
    intro hs
    refine stmts_of_atom hs rfl ?_
    simp only [Re.sup, Bool.and_eq_true] at hs
    have hR := (ih hs.2).2.2.2 hs.1
    intro n n' F rest' hn _ hF
    simp only [Re.numFrom] at hn
    have hk : k = n + 1 := by by_cases h : k = n + 1; exact h; simp [h] at hn
    subst hk
    simp only [if_true] at hn
    have hlen : (Re.group (n + 1) r).show.length = r.show.length + 2 := by simp [Re.show]
    obtain ⟨F', rfl⟩ : ∃ F', F = F' + 2 := ⟨F - 2, by omega⟩
    have e : (Re.group (n + 1) r).show ++ rest' = 40 :: (r.show ++ 41 :: rest') := by simp [Re.show]
    rw [e, literal_group]
    -- the body does not start with `?`
    have hhead : ∃ c t, r.show ++ 41 :: rest' = c :: t ∧ c ≠ 63 := by
      cases r with
      | empty => exact ⟨41, rest', by simp [Re.show], by decide⟩
      | seq a b =>
        have hsr := hs.2
        simp only [Re.sup, Bool.and_eq_true, Bool.or_eq_true] at hsr
        have ha : a.isItem = true ∨ a.isAlt = true := by
          rcases hsr.1.1.1.1 with h | h
          · exact Or.inl h
          · exact Or.inr h.1
        obtain ⟨c, l, hc, hst⟩ := show_head a hsr.1.1.2 ha
        simp only [itemStartB, Bool.and_eq_true, bne_iff_ne, ne_eq] at hst
        exact ⟨c, l ++ (b.show ++ 41 :: rest'), by simp [Re.show, hc], hst.1.2⟩
      | _ => simp [Re.isSeq] at hs
    obtain ⟨c, t, hct, hc63⟩ := hhead
    rw [hct, groups_plain _ _ _ _ hc63, ← hct, hR (n + 1) n' F' (41 :: rest') hn (by simp [endTail]) (by omega)]
    simp [PR.bind, closeParen, Re.toExpr, groupName_eq]
  | ncgroup r ih =>
    intro hs
    refine stmts_of_atom hs rfl ?_
    simp only [Re.sup, Bool.and_eq_true] at hs
    have hR := (ih hs.2).2.2.2 hs.1
    intro n n' F rest' hn _ hF
    simp only [Re.numFrom] at hn
    have hlen : (Re.ncgroup r).show.length = r.show.length + 4 := by simp [Re.show]
    obtain ⟨F', rfl⟩ : ∃ F', F = F' + 2 := ⟨F - 2, by omega⟩
    have e : (Re.ncgroup r).show ++ rest' = 40 :: 63 :: 58 :: (r.show ++ 41 :: rest') := by simp [Re.show]
    rw [e, literal_group, groups_nc, hR n n' F' (41 :: rest') hn (by simp [endTail]) (by omega)]
    simp [PR.bind, closeParen, Re.toExpr]
  | named nm r ih =>
    intro hs
    refine stmts_of_atom hs rfl ?_
    simp only [Re.sup, Bool.and_eq_true, okName, Bool.not_eq_true', List.isEmpty_eq_false_iff] at hs
    obtain ⟨⟨⟨hne, hall⟩, hseq⟩, hsr⟩ := hs
    have hR := (ih hsr).2.2.2 hseq
    intro n n' F rest' hn _ hF
    simp only [Re.numFrom] at hn
    have hlen : (Re.named nm r).show.length = nm.length + r.show.length + 5 := by simp [Re.show]; omega
    obtain ⟨F', rfl⟩ : ∃ F', F = F' + 2 := ⟨F - 2, by omega⟩
    obtain ⟨a, t3, rfl⟩ : ∃ a t3, nm = a :: t3 := by
      cases nm with
      | nil => exact absurd rfl hne
      | cons a t3 => exact ⟨a, t3, rfl⟩
    have ha : isAlnum a = true := by simp only [List.all_cons, Bool.and_eq_true] at hall; exact hall.1
    have ha61 : a ≠ 61 := by intro h; subst h; simp [isAlnum] at ha
    have ha33 : a ≠ 33 := by intro h; subst h; simp [isAlnum] at ha
    have e : (Re.named (a :: t3) r).show ++ rest' = 40 :: 63 :: 60 :: a :: (t3 ++ 62 :: (r.show ++ 41 :: rest')) := by
      simp [Re.show]
    rw [e, literal_group, groups_named _ _ _ _ ha61 ha33]
    have e2 : a :: (t3 ++ 62 :: (r.show ++ 41 :: rest')) = (a :: t3) ++ 62 :: (r.show ++ 41 :: rest') := by simp
    rw [e2, identThenGt_name _ _ _ hall]
    simp only [PR.bind]
    rw [hR n n' F' (41 :: rest') hn (by simp [endTail]) (by simp [List.length_cons] at hlen; omega)]
    simp [PR.bind, closeParen, Re.toExpr, latin1_eq]
  | backref k =>
    intro hs
    refine stmts_of_atom hs rfl ?_
    simp only [Re.sup, Bool.and_eq_true, decide_eq_true_eq] at hs
    intro n n' F rest' hn hd hF
    simp only [Re.numFrom, Option.some.injEq] at hn
    subst hn
    by_cases hk : k < 10
    · have hsh := showNat_small k hk
      have hrange := digitByte_range k (by omega)
      obtain ⟨F', rfl⟩ : ∃ F', F = F' + 1 := ⟨F - 1, by simp [Re.show] at hF; omega⟩
      have hnd := hd (by simp [Re.isShortRef, hk])
      simp only [Re.show, hsh, List.cons_append, List.nil_append, literal_escape, Re.toExpr, numName]
      cases rest' with
      | nil => simp [escape, hrange, PR.bind, refName]
      | cons d t =>
        simp only [noDigitHead, Bool.not_eq_true'] at hnd
        simp [escape, hrange, PR.bind, refName, hnd]
    · have hsh := showNat_two k (by omega) (by omega)
      have hrange := digitByte_range (k / 10) (by omega)
      obtain ⟨F', rfl⟩ : ∃ F', F = F' + 1 := ⟨F - 1, by simp [Re.show] at hF; omega⟩
      simp only [Re.show, hsh, List.cons_append, List.nil_append, literal_escape, Re.toExpr, numName]
      simp [escape, hrange, PR.bind, refName, digitByte_isDigit]
  | backrefNamed nm =>
    intro hs
    refine stmts_of_atom hs rfl ?_
    simp only [Re.sup, okName, Bool.and_eq_true, Bool.not_eq_true', List.isEmpty_eq_false_iff] at hs
    intro n n' F rest' hn _ hF
    simp only [Re.numFrom, Option.some.injEq] at hn
    subst hn
    obtain ⟨F', rfl⟩ : ∃ F', F = F' + 1 := ⟨F - 1, by simp [Re.show] at hF; omega⟩
    have e : (Re.backrefNamed nm).show ++ rest' = 92 :: 107 :: 60 :: (nm ++ 62 :: rest') := by simp [Re.show]
    rw [e, literal_escape]
    simp [escape, identThenGt_name _ _ _ hs.2, PR.bind, Re.toExpr, latin1_eq]
  | rep r q lz ih =>
    intro hs
    have hs0 := hs
    simp only [Re.sup, Bool.and_eq_true] at hs
    obtain ⟨⟨hatom, hsr⟩, hq⟩ := hs
    have hA := (ih hsr).1 hatom
    refine stmts_of_item hs0 rfl (fun h => by simp [Re.isAtom] at h) ?_
    intro n n' F tail hn ht _ hF
    simp only [Re.numFrom] at hn
    have e : (Re.rep r q lz).show ++ tail = r.show ++ (q.show ++ ((if lz then [63] else []) ++ tail)) := by
      simp [Re.show]
    have hqhead : noDigitHead (q.show ++ ((if lz then [63] else []) ++ tail)) = true := by
      cases q <;> simp [Quant.show, noDigitHead, isDigitB]
    have hlen : r.show.length ≤ (Re.rep r q lz).show.length := by simp [Re.show]
    rw [e, hA n n' F _ hn (fun _ => hqhead) (by omega), finishAtom_quant _ q lz tail n' hq ht]
    simp [Re.toExpr]
  | alt a b iha ihb =>
    intro hs
    simp only [Re.sup, Bool.and_eq_true, Bool.or_eq_true] at hs
    obtain ⟨⟨⟨hai, hbi⟩, hsa⟩, hsb⟩ := hs
    have hIa := (iha hsa).2.1 hai
    have hPb := (ihb hsb).2.2.1 hbi
    refine ⟨fun h => by simp [Re.isAtom] at h, fun h => by simp [Re.isItem, Re.isSeq, Re.isAlt] at h, fun _ => ?_,
      fun h => by simp [Re.isSeq] at h⟩
    intro n n' F tail hn ht hb hd hF
    simp only [Re.numFrom] at hn
    obtain ⟨n1, hna, hnb⟩ : ∃ n1, a.numFrom n = some n1 ∧ b.numFrom n1 = some n' := by
      cases h : a.numFrom n with
      | none => simp [h] at hn
      | some n1 => exact ⟨n1, rfl, by simpa [h] using hn⟩
    have hnd := hd (Or.inr rfl)
    have hlen : (Re.alt a b).show.length = a.show.length + 1 + b.show.length := by simp [Re.show]; omega
    obtain ⟨F', rfl⟩ : ∃ F', F = F' + 1 := ⟨F - 1, by omega⟩
    have e : (Re.alt a b).show ++ tail = a.show ++ 124 :: (b.show ++ tail) := by simp [Re.show]
    rw [e]
    simp only [pattern]
    rw [hIa n n1 F' (124 :: (b.show ++ tail)) hna (by simp [qFollow]) (fun _ => by simp [noDigitHead, isDigitB]) (by omega)]
    simp only [PR.bind, if_true]
    rw [hPb n1 n' F' tail hnb ht hb (fun _ => hnd) (by omega)]
    simp [Re.toExpr]

end Vore.Rx
