import Vore.Model.MemStream
/-!
# Vore.Lemmas.MemStream — the memory stream refines the abstract write (C06, C09)

`Inv`: `len ≤ cap` and the part of the backing array beyond `len` is zero.  Every `Write` from a state with `Inv`
succeeds (neither reslice can panic), keeps `Inv`, and changes the contents exactly as `Vore.writeAt` says; hence
every history of `WriteAt` calls with non-negative offsets ends without a panic with contents = the `writeAt` fold.
-/
namespace Vore.MS
open Vore

def Inv (s : MemStream) : Prop :=
  s.len ≤ s.arr.length ∧ s.arr.drop s.len = List.replicate (s.arr.length - s.len) 0

theorem inv_new : Inv new := by simp [Inv, new]

/-- a state with `Inv` is its contents followed by zeros -/
theorem arr_eq (s : MemStream) (h : Inv s) : s.arr = s.contents ++ List.replicate (s.arr.length - s.len) 0 := by
  have := List.take_append_drop s.len s.arr
  rw [h.2] at this
  exact this.symm

theorem contents_length (s : MemStream) (h : Inv s) : s.contents.length = s.len := by
  simp [MemStream.contents, List.length_take, Nat.min_eq_left h.1]

theorem writeAt_length (C : Bytes) (pos : Nat) (buf : Bytes) :
    (writeAt C pos buf).length = max (pos + buf.length) C.length := by
  simp only [writeAt, List.length_append, List.length_take, List.length_replicate, List.length_drop]
  omega

/-- the core computation: writing into `C ++ zeros` -/
theorem splice_zeros (C : Bytes) (k pos : Nat) (buf : Bytes) (hk : pos + buf.length ≤ C.length + k) :
    (C ++ List.replicate k 0).take pos ++ buf ++ (C ++ List.replicate k 0).drop (pos + buf.length) =
      writeAt C pos buf ++ List.replicate (C.length + k - max (pos + buf.length) C.length) (0 : UInt8) := by
  simp only [writeAt, List.take_append, List.drop_append, List.take_replicate, List.drop_replicate, List.append_assoc]
  have h1 : min (pos - C.length) k = pos - C.length := by omega
  have h2 : k - (pos + buf.length - C.length) = C.length + k - max (pos + buf.length) C.length := by omega
  rw [h1, h2]

theorem write_ok (s : MemStream) (buf : Bytes) (h : Inv s) :
    ∃ s', write s buf = .ok s' ∧ Inv s' ∧ s'.contents = writeAt s.contents s.pos buf ∧
      s'.pos = s.pos + buf.length ∧ s'.len = max (s.pos + buf.length) s.len := by
  have hC := contents_length s h
  -- the array after the (possible) growth is again contents ++ zeros, long enough
  obtain ⟨k, harr1, hk⟩ : ∃ k,
      (if s.pos + buf.length > s.arr.length then s.arr.take s.len ++ List.replicate (2 * (s.pos + buf.length) - s.len) 0
        else s.arr) = s.contents ++ List.replicate k 0 ∧ s.pos + buf.length ≤ s.len + k := by
    by_cases hg : s.pos + buf.length > s.arr.length
    · refine ⟨2 * (s.pos + buf.length) - s.len, by simp [hg, MemStream.contents], ?_⟩
      have := h.1; omega
    · refine ⟨s.arr.length - s.len, by simp only [hg, if_false]; exact arr_eq s h, ?_⟩
      have := h.1; omega
  have hlen1 : (s.contents ++ List.replicate k (0 : UInt8)).length = s.len + k := by simp [hC]
  have hmax : (if s.pos + buf.length > s.len then s.pos + buf.length else s.len) = max (s.pos + buf.length) s.len := by
    split <;> omega
  have hn : min (max (s.pos + buf.length) s.len - s.pos) buf.length = buf.length := by omega
  have hsp := splice_zeros s.contents k s.pos buf (by rw [hC]; exact hk)
  rw [hC] at hsp
  have hwl := writeAt_length s.contents s.pos buf
  rw [hC] at hwl
  refine ⟨⟨writeAt s.contents s.pos buf ++ List.replicate (s.len + k - max (s.pos + buf.length) s.len) 0,
           max (s.pos + buf.length) s.len, s.pos + buf.length⟩, ?_, ?_, ?_, rfl, rfl⟩
  · unfold write
    simp only [harr1, hlen1, hmax]
    have hp1 : ¬ (s.pos + buf.length > s.len ∧ s.pos + buf.length > s.len + k) := by omega
    have hp2 : ¬ (s.pos > max (s.pos + buf.length) s.len) := by omega
    simp only [hp1, hp2, if_false, hn, List.take_length]
    rw [hsp]
  · constructor
    · simp only [List.length_append, List.length_replicate, hwl]; omega
    · simp only [List.length_append, List.length_replicate, hwl]
      rw [List.drop_append_of_le_length (by omega), List.drop_of_length_le (by omega)]
      simp only [List.nil_append]
      congr 1
      omega
  · show List.take (max (s.pos + buf.length) s.len)
        (writeAt s.contents s.pos buf ++ List.replicate (s.len + k - max (s.pos + buf.length) s.len) 0) = _
    rw [List.take_append_of_le_length (by omega), List.take_of_length_le (by omega)]

theorem inv_of_same (s t : MemStream) (ha : t.arr = s.arr) (hl : t.len = s.len) (h : Inv s) : Inv t := by
  unfold Inv at *; rw [ha, hl]; exact h

theorem inv_seek (s : MemStream) (off : Int) (wh : Nat) (h : Inv s) : Inv ((seek s off wh).getD s) := by
  unfold seek
  split
  · exact h
  · exact inv_of_same s _ rfl rfl h

/-- `WriteAt` with a non-negative offset: never a panic, the abstract write -/
theorem writerWriteAt_ok (s : MemStream) (off : Nat) (data : Bytes) (h : Inv s) :
    ∃ s', writerWriteAt s (off : Int) data = .ok s' ∧ Inv s' ∧ s'.contents = writeAt s.contents off data ∧
      s'.pos = off + data.length := by
  have hs : seek s (off : Int) 0 = some { s with pos := off } := by
    simp [seek, seekPos]
  have hinv : Inv { s with pos := off } := h
  obtain ⟨s', h1, h2, h3, h4, _⟩ := write_ok { s with pos := off } data hinv
  exact ⟨s', by simp [writerWriteAt, hs, h1], h2, h3, h4⟩

/-- the abstract history -/
def foldWrites : Bytes → List (Nat × Bytes) → Bytes
  | out, [] => out
  | out, (off, data) :: rest => foldWrites (writeAt out off data) rest

/-- every history of `WriteAt` calls with non-negative offsets, from any state with `Inv` -/
theorem runOps_writes (ws : List (Nat × Bytes)) : ∀ (s : MemStream), Inv s →
    ∃ s', runOps s (ws.map (fun w => Op.writeAt (w.1 : Int) w.2)) = .ok s' ∧ Inv s' ∧
      s'.contents = foldWrites s.contents ws := by
  induction ws with
  | nil => intro s h; exact ⟨s, rfl, h, rfl⟩
  | cons w rest ih =>
    intro s h
    obtain ⟨s1, h1, hi1, hc1, _⟩ := writerWriteAt_ok s w.1 w.2 h
    obtain ⟨s2, h2, hi2, hc2⟩ := ih s1 hi1
    refine ⟨s2, ?_, hi2, ?_⟩
    · simp only [List.map_cons, runOps, h1]; exact h2
    · rw [hc2, hc1]; rfl

/-- bare `Seek`s (any whence, any offset, failed ones included) and bare `Write`s keep `Inv` too: no history of
calls of the three methods panics -/
theorem runOps_never_panics : ∀ (ops : List Op) (s : MemStream), Inv s →
    (∀ op ∈ ops, match op with | .writeAt off _ => 0 ≤ off | _ => True) →
    ∃ s', runOps s ops = .ok s' ∧ Inv s' := by
  intro ops
  induction ops with
  | nil => intro s h _; exact ⟨s, rfl, h⟩
  | cons op rest ih =>
    intro s h hops
    have hrest : ∀ op ∈ rest, match op with | .writeAt off _ => 0 ≤ off | _ => True :=
      fun o ho => hops o (by simp [ho])
    cases op with
    | writeAt off data =>
      have hoff : 0 ≤ off := hops (.writeAt off data) (by simp)
      obtain ⟨n, rfl⟩ := Int.eq_ofNat_of_zero_le hoff
      obtain ⟨s1, h1, hi1, _, _⟩ := writerWriteAt_ok s n data h
      obtain ⟨s2, h2, hi2⟩ := ih s1 hi1 hrest
      exact ⟨s2, by simp only [runOps, h1]; exact h2, hi2⟩
    | seek off wh =>
      have hi : Inv ((seek s off wh).getD s) := inv_seek s off wh h
      obtain ⟨s2, h2, hi2⟩ := ih _ hi hrest
      exact ⟨s2, by simp only [runOps]; exact h2, hi2⟩
    | write data =>
      obtain ⟨s1, h1, hi1, _, _, _⟩ := write_ok s data h
      obtain ⟨s2, h2, hi2⟩ := ih s1 hi1 hrest
      exact ⟨s2, by simp only [runOps, h1]; exact h2, hi2⟩

end Vore.MS

/-! ## the calls `searchReplace` makes -/

namespace Vore.MS
open Vore

/-- the `WriteAt(offset, data)` calls of the copy loop of `searchReplace`, in order, with the two offsets it ends with -/
def spliceCalls (text : Bytes) : List Match → (lastReader writerOff : Nat) → List (Nat × Bytes) × Nat × Nat
  | [], lr, wo => ([], lr, wo)
  | m :: ms, lr, wo =>
    let len := m.startPos - lr
    let rep := m.replacement.getD []
    let r := spliceCalls text ms (lr + len + m.value.length) (wo + len + rep.length)
    ((wo, readAt text lr len) :: (wo + len, rep) :: r.1, r.2.1, r.2.2)

/-- all `WriteAt` calls of one `searchReplace` (the unmatched tail last, if there is one) -/
def writerCalls (text : Bytes) (ms : List Match) : List (Nat × Bytes) :=
  let r := spliceCalls text ms 0 0
  if r.2.1 < text.length then r.1 ++ [(r.2.2, readAt text r.2.1 (text.length - r.2.1))] else r.1

theorem foldWrites_append (out : Bytes) (a b : List (Nat × Bytes)) :
    foldWrites out (a ++ b) = foldWrites (foldWrites out a) b := by
  induction a generalizing out with
  | nil => rfl
  | cons w rest ih => simp only [List.cons_append, foldWrites]; exact ih _

theorem spliceLoop_eq (text : Bytes) : ∀ (ms : List Match) (lr wo : Nat) (out : Bytes),
    spliceLoop text ms lr wo out =
      (foldWrites out (spliceCalls text ms lr wo).1, (spliceCalls text ms lr wo).2.1, (spliceCalls text ms lr wo).2.2) := by
  intro ms
  induction ms with
  | nil => intro lr wo out; rfl
  | cons m ms ih =>
    intro lr wo out
    simp only [spliceLoop, spliceCalls, foldWrites]
    rw [ih]

/-- what the model of `searchReplace` writes is the abstract fold over exactly these calls -/
theorem writtenText_eq_fold (text : Bytes) (ms : List Match) :
    writtenText text ms = foldWrites [] (writerCalls text ms) := by
  unfold writtenText writerCalls
  rw [spliceLoop_eq]
  simp only []
  split
  · rw [foldWrites_append]; rfl
  · rfl

/-- **the memory stream under `searchReplace`**: the calls never panic and leave exactly the written text -/
theorem memory_writer_refines (text : Bytes) (ms : List Match) :
    ∃ s', runOps new ((writerCalls text ms).map (fun w => Op.writeAt (w.1 : Int) w.2)) = .ok s' ∧ Inv s' ∧
      s'.contents = writtenText text ms := by
  obtain ⟨s', h1, h2, h3⟩ := runOps_writes (writerCalls text ms) new inv_new
  refine ⟨s', h1, h2, ?_⟩
  rw [h3, writtenText_eq_fold]
  rfl

end Vore.MS
