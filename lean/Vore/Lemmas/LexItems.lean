import Vore.Lemmas.LexTokens
import Vore.Lemmas.LexStepFacts
import Vore.Spec.LexItems
/-!
# Vore.Lemmas.LexItems — the lexer maps every lexical item to its token, in any context
-/
namespace Vore.Lex
open Vore Vore.ExtractedLex

/-! ## generic runs of the loop -/

/-- at the end of the input, at a NUL byte, or at a character the state un-reads, the loop stops in
its state and leaves the input as it is -/
theorem loop_stop (s : St) (hs : s ≠ .start) (buf rest : Bytes) (p : Nat) (l : Option UInt8) (hp : 1 ≤ p)
    (h : ∀ c cs, rest = c :: cs → c = 0 ∨ step s c = .unreadBrk s) :
    ∃ q l', loop s buf ⟨rest, p, l⟩ = .done s buf ⟨rest, q, l'⟩ := by
  have hp0 : p ≠ 0 := by omega
  cases rest with
  | nil =>
    rw [loop]
    simp [Reader.read, hs, unreadBreak, Reader.unreadLast, hp0]
  | cons c cs =>
    by_cases hc : c = 0
    · rw [loop]
      simp [Reader.read, hc, hs, unreadBreak, Reader.unreadLast]
    · rcases h c cs rfl with h0 | hstep
      · exact absurd h0 hc
      · rw [loop_cons _ _ _ _ _ _ hc, hstep]
        simp [unreadBreak, Reader.unreadLast]

/-- a run of characters on which the state loops, appending them -/
theorem loop_run (s : St) (w : Bytes) (hw : ∀ c ∈ w, c ≠ 0 ∧ step s c = .next s true) :
    ∀ (buf rest : Bytes) (p : Nat) (l : Option UInt8),
      ∃ l', loop s buf ⟨w ++ rest, p, l⟩ = loop s (buf ++ w) ⟨rest, p + w.length, l'⟩ := by
  induction w with
  | nil => intro buf rest p l; exact ⟨l, by simp⟩
  | cons c cs ih =>
    intro buf rest p l
    obtain ⟨hc0, hstep⟩ := hw c (by simp)
    obtain ⟨l', hl'⟩ := ih (fun x hx => hw x (by simp [hx])) (buf ++ [c]) rest (p + 1) (some c)
    refine ⟨l', ?_⟩
    rw [List.cons_append, loop_cons _ _ _ _ _ _ hc0, hstep]
    simp only [↓reduceIte]
    rw [hl']
    simp only [List.append_assoc, List.cons_append, List.nil_append, List.length_cons]
    congr 2
    omega

theorem getNextToken_of_loop (r : Reader) (s : St) (buf : Bytes) (r' : Reader) (k : Tok)
    (hl : loop .start [] r = .done s buf r') (hf : finalAct s buf = .tok k) :
    getNextToken r = .tok ⟨k, buf, r.pos, r'.pos⟩ r' := by
  unfold getNextToken
  rw [hl]; simp only [hf]

/-! ## the final switch on the states items end in -/

theorem finalAct_identifier (buf : Bytes) : finalAct .identifier buf = .tok (kwLookup buf) := by
  unfold finalAct; rw [goFinal_spec]; rfl

theorem finalAct_operator (s : St) (hs : s = .operator ∨ s = .operatorStart) (buf : Bytes) (k : Tok)
    (h : goOperators.lookup buf = some k) : finalAct s buf = .tok k := by
  unfold finalAct; rw [goFinal_spec]
  rcases hs with rfl | rfl <;> simp [finalSpec, h]

/-! ## Bool / Prop character classes -/

section
set_option maxRecDepth 100000
theorem isAlnumB_iff : ∀ c : UInt8, isAlnumB c = true ↔ isAlnum c := by apply all_u8; decide
theorem isLetterB_iff : ∀ c : UInt8, isLetterB c = true ↔ isLetter c := by apply all_u8; decide
theorem isDigitB_iff : ∀ c : UInt8, isDigitB c = true ↔ isDigit c := by apply all_u8; decide
theorem isSpaceB_iff : ∀ c : UInt8, isSpaceB c = true ↔ isSpace c := by apply all_u8; decide
theorem alnum_ne_zero : ∀ c : UInt8, isAlnum c → c ≠ 0 := by apply all_u8; decide
theorem space_ne_zero : ∀ c : UInt8, isSpace c → c ≠ 0 := by apply all_u8; decide
theorem digit_alnum (c : UInt8) (h : isDigit c) : isAlnum c := Or.inl h
theorem letter_alnum (c : UInt8) (h : isLetter c) : isAlnum c := Or.inr h
end

/-! ## tokens that end by look-ahead: words, numbers, blank runs, `=`, `<`, `>`, `-` -/

/-- the next character does not continue state `s` -/
def Stops (s : St) (rest : Bytes) : Prop := ∀ c cs, rest = c :: cs → c = 0 ∨ step s c = .unreadBrk s

theorem loop_class (s : St) (hs : s ≠ .start) (c0 : UInt8) (hc0 : c0 ≠ 0) (h0 : step .start c0 = .next s true)
    (w : Bytes) (hw : ∀ c ∈ w, c ≠ 0 ∧ step s c = .next s true) (rest : Bytes) (hrest : Stops s rest)
    (p : Nat) (l : Option UInt8) :
    ∃ q l', loop .start [] ⟨c0 :: (w ++ rest), p, l⟩ = .done s (c0 :: w) ⟨rest, q, l'⟩ := by
  rw [loop_cons _ _ _ _ _ _ hc0, h0]
  simp only [↓reduceIte, List.nil_append]
  obtain ⟨l1, h1⟩ := loop_run s w hw [c0] rest (p + 1) (some c0)
  rw [h1]
  exact loop_stop s hs _ rest _ l1 (by omega) hrest

theorem head_cases (rest : Bytes) (P : UInt8 → Prop) (h : ∀ c, rest.head? = some c → P c) :
    ∀ c cs, rest = c :: cs → P c := by
  intro c cs hr; apply h; simp [hr]

theorem tok_word (w rest : Bytes) (p : Nat) (l : Option UInt8) (hok : (Item.word w).ok)
    (hsep : (Item.word w).sep rest) :
    ∃ q l', getNextToken ⟨w ++ rest, p, l⟩ = .tok ⟨kwLookup w, w, p, q⟩ ⟨rest, q, l'⟩ := by
  obtain ⟨c0, w', rfl, hl, hw'⟩ := hok
  have hl' := (isLetterB_iff c0).mp hl
  have hstops : Stops .identifier rest := by
    intro c cs hr
    by_cases hc : c = 0
    · exact Or.inl hc
    · right
      apply step_id_stop c hc
      intro ha
      have := head_cases rest _ hsep c cs hr
      rw [(isAlnumB_iff c).mpr ha] at this; simp at this
  obtain ⟨q, l', h⟩ := loop_class .identifier (by simp) c0 (alnum_ne_zero c0 (letter_alnum c0 hl'))
    (step_start_letter c0 hl') w'
    (fun c hc => ⟨alnum_ne_zero c ((isAlnumB_iff c).mp (hw' c hc)), step_id_cont c ((isAlnumB_iff c).mp (hw' c hc))⟩)
    rest hstops p l
  exact ⟨q, l', getNextToken_of_loop _ _ _ _ _ h (finalAct_identifier _)⟩

theorem tok_number (d rest : Bytes) (p : Nat) (l : Option UInt8) (hok : (Item.number d).ok)
    (hsep : (Item.number d).sep rest) :
    ∃ q l', getNextToken ⟨d ++ rest, p, l⟩ = .tok ⟨.number, d, p, q⟩ ⟨rest, q, l'⟩ := by
  obtain ⟨hne, hd⟩ := hok
  obtain ⟨c0, d', rfl⟩ := List.exists_cons_of_ne_nil hne
  have h0 := (isDigitB_iff c0).mp (hd c0 (by simp))
  have hstops : Stops .number rest := by
    intro c cs hr
    by_cases hc : c = 0
    · exact Or.inl hc
    · right
      apply step_num_stop c hc
      intro ha
      have := head_cases rest _ hsep c cs hr
      rw [(isDigitB_iff c).mpr ha] at this; simp at this
  obtain ⟨q, l', h⟩ := loop_class .number (by simp) c0 (alnum_ne_zero c0 (digit_alnum c0 h0))
    (step_start_digit c0 h0) d'
    (fun c hc => by
      have hdc := (isDigitB_iff c).mp (hd c (by simp [hc]))
      exact ⟨alnum_ne_zero c (digit_alnum c hdc), step_num_cont c hdc⟩)
    rest hstops p l
  exact ⟨q, l', getNextToken_of_loop _ _ _ _ _ h (finalAct_of_spec .number _ .number rfl)⟩

theorem tok_blank (w rest : Bytes) (p : Nat) (l : Option UInt8) (hok : (Item.blank w).ok)
    (hsep : (Item.blank w).sep rest) :
    ∃ q l', getNextToken ⟨w ++ rest, p, l⟩ = .tok ⟨.ws, w, p, q⟩ ⟨rest, q, l'⟩ := by
  obtain ⟨hne, hd⟩ := hok
  obtain ⟨c0, w', rfl⟩ := List.exists_cons_of_ne_nil hne
  have h0 := (isSpaceB_iff c0).mp (hd c0 (by simp))
  have hstops : Stops .whitespace rest := by
    intro c cs hr
    by_cases hc : c = 0
    · exact Or.inl hc
    · right
      apply step_ws_stop c hc
      intro ha
      have := head_cases rest _ hsep c cs hr
      rw [(isSpaceB_iff c).mpr ha] at this; simp at this
  obtain ⟨q, l', h⟩ := loop_class .whitespace (by simp) c0 (space_ne_zero c0 h0)
    (step_start_space c0 h0) w'
    (fun c hc => by
      have hdc := (isSpaceB_iff c).mp (hd c (by simp [hc]))
      exact ⟨space_ne_zero c hdc, step_ws_cont c hdc⟩)
    rest hstops p l
  exact ⟨q, l', getNextToken_of_loop _ _ _ _ _ h (finalAct_of_spec .whitespace _ .ws rfl)⟩

theorem tok_op1 (c : UInt8) (rest : Bytes) (p : Nat) (l : Option UInt8) (hok : (Item.op1 c).ok)
    (hsep : (Item.op1 c).sep rest) :
    ∃ q l', getNextToken ⟨[c] ++ rest, p, l⟩ = .tok ⟨(op1Kind c).getD .error, [c], p, q⟩ ⟨rest, q, l'⟩ := by
  simp only [Item.ok, op1Kind] at hok
  have hcases : c = 61 ∨ c = 60 ∨ c = 62 ∨ c = 45 := by
    by_cases h1 : c = 61; · exact Or.inl h1
    by_cases h2 : c = 60; · exact Or.inr (Or.inl h2)
    by_cases h3 : c = 62; · exact Or.inr (Or.inr (Or.inl h3))
    by_cases h4 : c = 45; · exact Or.inr (Or.inr (Or.inr h4))
    simp [h1, h2, h3, h4] at hok
  have hhead := head_cases rest _ hsep
  rcases hcases with rfl | rfl | rfl | rfl
  · have hstops : Stops .equal1 rest := by
      intro d ds hr
      by_cases hd : d = 0
      · exact Or.inl hd
      · exact Or.inr (step_equal1_stop d hd (by simpa using hhead d ds hr))
    obtain ⟨q, l', h⟩ := loop_class .equal1 (by simp) 61 (by decide) step_start_eq [] (by simp) rest hstops p l
    exact ⟨q, l', getNextToken_of_loop _ _ _ _ _ h (finalAct_of_spec .equal1 _ .equal rfl)⟩
  · have hstops : Stops .operatorStart rest := by
      intro d ds hr
      by_cases hd : d = 0
      · exact Or.inl hd
      · exact Or.inr (step_opstart_stop d hd (by simpa using hhead d ds hr))
    obtain ⟨q, l', h⟩ := loop_class .operatorStart (by simp) 60 (by decide) step_start_lt [] (by simp) rest hstops p l
    exact ⟨q, l', getNextToken_of_loop _ _ _ _ _ h (finalAct_operator _ (Or.inr rfl) _ .less (by decide))⟩
  · have hstops : Stops .operatorStart rest := by
      intro d ds hr
      by_cases hd : d = 0
      · exact Or.inl hd
      · exact Or.inr (step_opstart_stop d hd (by simpa using hhead d ds hr))
    obtain ⟨q, l', h⟩ := loop_class .operatorStart (by simp) 62 (by decide) step_start_gt [] (by simp) rest hstops p l
    exact ⟨q, l', getNextToken_of_loop _ _ _ _ _ h (finalAct_operator _ (Or.inr rfl) _ .greater (by decide))⟩
  · have hstops : Stops .dash rest := by
      intro d ds hr
      by_cases hd : d = 0
      · exact Or.inl hd
      · exact Or.inr (step_dash_stop d hd (by simpa using hhead d ds hr))
    obtain ⟨q, l', h⟩ := loop_class .dash (by simp) 45 (by decide) step_start_dash [] (by simp) rest hstops p l
    exact ⟨q, l', getNextToken_of_loop _ _ _ _ _ h (finalAct_of_spec .dash _ .minus rfl)⟩

/-! ## self-delimiting tokens -/

theorem tok_punct (c : UInt8) (rest : Bytes) (p : Nat) (l : Option UInt8) (hok : (Item.punct c).ok) :
    getNextToken ⟨[c] ++ rest, p, l⟩ = .tok ⟨(punctKind c).getD .error, [c], p, p + 1⟩ ⟨rest, p + 1, some c⟩ := by
  simp only [Item.ok, punctKind] at hok
  have hcases : c = 40 ∨ c = 41 ∨ c = 123 ∨ c = 125 ∨ c = 44 ∨ c = 43 ∨ c = 42 ∨ c = 47 ∨ c = 37 := by
    by_cases h1 : c = 40; · simp [h1]
    by_cases h2 : c = 41; · simp [h2]
    by_cases h3 : c = 123; · simp [h3]
    by_cases h4 : c = 125; · simp [h4]
    by_cases h5 : c = 44; · simp [h5]
    by_cases h6 : c = 43; · simp [h6]
    by_cases h7 : c = 42; · simp [h7]
    by_cases h8 : c = 47; · simp [h8]
    by_cases h9 : c = 37; · simp [h9]
    simp [h1, h2, h3, h4, h5, h6, h7, h8, h9] at hok
  have key : ∀ (s : St) (k : Tok), c ≠ 0 → step .start c = .brk s true → finalAct s [c] = .tok k →
      getNextToken ⟨[c] ++ rest, p, l⟩ = .tok ⟨k, [c], p, p + 1⟩ ⟨rest, p + 1, some c⟩ := by
    intro s k hc hs hf
    have hl : loop .start [] ⟨[c] ++ rest, p, l⟩ = .done s [c] ⟨rest, p + 1, some c⟩ := by
      rw [List.cons_append, loop_cons _ _ _ _ _ _ hc, hs]; simp
    exact getNextToken_of_loop _ _ _ _ _ hl hf
  rcases hcases with rfl | rfl | rfl | rfl | rfl | rfl | rfl | rfl | rfl
  · exact key _ _ (by decide) step_start_lparen (finalAct_of_spec .openparen _ .openparen rfl)
  · exact key _ _ (by decide) step_start_rparen (finalAct_of_spec .closeparen _ .closeparen rfl)
  · exact key _ _ (by decide) step_start_lcurly (finalAct_of_spec .opencurly _ .opencurly rfl)
  · exact key _ _ (by decide) step_start_rcurly (finalAct_of_spec .closecurly _ .closecurly rfl)
  · exact key _ _ (by decide) step_start_comma (finalAct_of_spec .comma _ .comma rfl)
  · exact key _ _ (by decide) step_start_plus (finalAct_operator _ (Or.inl rfl) _ .plus (by decide))
  · exact key _ _ (by decide) step_start_star (finalAct_operator _ (Or.inl rfl) _ .mult (by decide))
  · exact key _ _ (by decide) step_start_slash (finalAct_operator _ (Or.inl rfl) _ .div (by decide))
  · exact key _ _ (by decide) step_start_percent (finalAct_operator _ (Or.inl rfl) _ .mod (by decide))

theorem tok_op2 (a : UInt8) (rest : Bytes) (p : Nat) (l : Option UInt8) (hok : (Item.op2 a).ok) :
    getNextToken ⟨[a, 61] ++ rest, p, l⟩ = .tok ⟨(op2Kind a).getD .error, [a, 61], p, p + 2⟩ ⟨rest, p + 2, some 61⟩ := by
  simp only [Item.ok, op2Kind] at hok
  have hcases : a = 61 ∨ a = 33 ∨ a = 58 ∨ a = 60 ∨ a = 62 := by
    by_cases h1 : a = 61; · simp [h1]
    by_cases h2 : a = 33; · simp [h2]
    by_cases h3 : a = 58; · simp [h3]
    by_cases h4 : a = 60; · simp [h4]
    by_cases h5 : a = 62; · simp [h5]
    simp [h1, h2, h3, h4, h5] at hok
  have key : ∀ (s1 s2 : St) (k : Tok), a ≠ 0 → step .start a = .next s1 true → step s1 61 = .brk s2 true →
      finalAct s2 [a, 61] = .tok k →
      getNextToken ⟨[a, 61] ++ rest, p, l⟩ = .tok ⟨k, [a, 61], p, p + 2⟩ ⟨rest, p + 2, some 61⟩ := by
    intro s1 s2 k hc hs1 hs2 hf
    have hl : loop .start [] ⟨[a, 61] ++ rest, p, l⟩ = .done s2 [a, 61] ⟨rest, p + 2, some 61⟩ := by
      rw [List.cons_append, loop_cons _ _ _ _ _ _ hc, hs1]
      simp only [↓reduceIte, List.nil_append, List.cons_append]
      rw [loop_cons _ _ _ _ _ _ (by decide), hs2]; simp
    exact getNextToken_of_loop _ _ _ _ _ hl hf
  rcases hcases with rfl | rfl | rfl | rfl | rfl
  · exact key _ _ _ (by decide) step_start_eq step_equal1_eq (finalAct_of_spec .dequal _ .dequal rfl)
  · exact key _ _ _ (by decide) step_start_excl step_excl_eq (finalAct_of_spec .nequal _ .nequal rfl)
  · exact key _ _ _ (by decide) step_start_colon step_colon_eq (finalAct_of_spec .coloneq _ .coloneq rfl)
  · exact key _ _ _ (by decide) step_start_lt step_opstart_eq (finalAct_operator _ (Or.inl rfl) _ .lesseq (by decide))
  · exact key _ _ _ (by decide) step_start_gt step_opstart_eq (finalAct_operator _ (Or.inl rfl) _ .greatereq (by decide))

theorem regexpBody_run (body : Bytes) (hb : ∀ c ∈ body, c ≠ 47 ∧ c ≠ 0) (rest : Bytes) :
    ∀ (buf : Bytes) (pos : Nat), regexpBody buf pos (body ++ 47 :: rest) =
      .done .regexp (buf ++ body) ⟨rest, pos + body.length + 1, some 47⟩ := by
  induction body with
  | nil => intro buf pos; simp [regexpBody]
  | cons c cs ih =>
    intro buf pos
    obtain ⟨h47, h0⟩ := hb c (by simp)
    simp only [List.cons_append, regexpBody, h47, h0, ↓reduceIte]
    rw [ih (fun x hx => hb x (by simp [hx]))]
    simp only [List.append_assoc, List.cons_append, List.nil_append, List.length_cons, LoopRes.done.injEq,
      Reader.mk.injEq, true_and, and_true]
    omega

theorem tok_regexp (body rest : Bytes) (p : Nat) (l : Option UInt8) (hok : (Item.regexp body).ok) :
    getNextToken ⟨64 :: 47 :: (body ++ [47]) ++ rest, p, l⟩ =
      .tok ⟨.regexp, body, p, p + body.length + 3⟩ ⟨rest, p + body.length + 3, some 47⟩ := by
  have hl : loop .start [] ⟨64 :: 47 :: (body ++ [47]) ++ rest, p, l⟩ =
      .done .regexp body ⟨rest, p + body.length + 3, some 47⟩ := by
    rw [List.cons_append, loop_cons _ _ _ _ _ _ (by decide), step_start_at]
    simp only [regexpBranch, Reader.read, List.cons_append, ne_eq, not_true_eq_false, ↓reduceIte, List.append_assoc,
      List.nil_append]
    rw [regexpBody_run body hok rest]
    simp only [List.nil_append, LoopRes.done.injEq, Reader.mk.injEq, true_and, and_true]
    omega
  have := getNextToken_of_loop _ _ _ _ _ hl (finalAct_of_spec .regexp _ .regexp rfl)
  simpa using this

/-! ## comments -/

theorem tok_lineComment (text rest : Bytes) (p : Nat) (l : Option UInt8) (hok : (Item.lineComment text).ok)
    (hsep : (Item.lineComment text).sep rest) :
    ∃ q l', getNextToken ⟨45 :: 45 :: text ++ rest, p, l⟩ = .tok ⟨.comment, 45 :: 45 :: text, p, q⟩ ⟨rest, q, l'⟩ := by
  obtain ⟨htext, hhead⟩ := hok
  have hnl := head_cases rest _ hsep
  -- after `--`
  have hstart : loop .start [] ⟨45 :: 45 :: text ++ rest, p, l⟩ =
      loop .commentStart [45, 45] ⟨text ++ rest, p + 2, some 45⟩ := by
    rw [List.cons_append, List.cons_append, loop_cons _ _ _ _ _ _ (by decide), step_start_dash]
    simp only [↓reduceIte, List.nil_append]
    rw [loop_cons _ _ _ _ _ _ (by decide), step_dash_dash]
    simp
  have hstopsC : Stops .comment rest := by
    intro c cs hr
    have := hnl c cs hr
    rw [this]; exact Or.inr step_comment_nl
  cases text with
  | nil =>
    -- `--` directly before the newline (or the end): stops in SCOMMENTSTART or SCOMMENT
    cases rest with
    | nil =>
      obtain ⟨q, l', h⟩ := loop_stop .commentStart (by simp) [45, 45] [] (p + 2) (some 45) (by omega) (by simp)
      have hl : loop .start [] ⟨45 :: 45 :: [] ++ [], p, l⟩ = .done .commentStart [45, 45] ⟨[], q, l'⟩ := by
        rw [hstart]; simpa using h
      exact ⟨q, l', getNextToken_of_loop _ _ _ _ _ hl (finalAct_of_spec .commentStart _ .comment rfl)⟩
    | cons c cs =>
      have hc := hnl c cs rfl
      subst hc
      have hl : loop .start [] ⟨45 :: 45 :: [] ++ 10 :: cs, p, l⟩ = .done .comment [45, 45] ⟨10 :: cs, p + 2, none⟩ := by
        rw [hstart]
        simp only [List.nil_append]
        rw [loop_cons _ _ _ _ _ _ (by decide), step_commentStart_nl]
        simp [unreadBreak, Reader.unreadLast]
      exact ⟨p + 2, none, getNextToken_of_loop _ _ _ _ _ hl (finalAct_of_spec .comment _ .comment rfl)⟩
  | cons t0 ts =>
    obtain ⟨ht10, ht0⟩ := htext t0 (by simp)
    have ht40 : t0 ≠ 40 := by simpa using hhead
    obtain ⟨l1, h1⟩ := loop_run .comment ts
      (fun c hc => ⟨(htext c (by simp [hc])).2, step_comment_cont c (htext c (by simp [hc])).1⟩)
      [45, 45, t0] rest (p + 2 + 1) (some t0)
    obtain ⟨q, l', h2⟩ := loop_stop .comment (by simp) ([45, 45, t0] ++ ts) rest (p + 2 + 1 + ts.length) l1
      (by omega) hstopsC
    have hl : loop .start [] ⟨45 :: 45 :: (t0 :: ts) ++ rest, p, l⟩ = .done .comment (45 :: 45 :: t0 :: ts) ⟨rest, q, l'⟩ := by
      rw [hstart, List.cons_append, loop_cons _ _ _ _ _ _ ht0, step_commentStart_other t0 ht40 ht10]
      simp only [↓reduceIte, List.cons_append, List.nil_append]
      rw [h1, h2]
      simp
    exact ⟨q, l', getNextToken_of_loop _ _ _ _ _ hl (finalAct_of_spec .comment _ .comment rfl)⟩

/-- what must hold of the rest of a block comment's body in each of the three scanning states -/
def bcOk (s : St) (b : Bytes) : Prop :=
  (s = .blockCommentStartEnd → ¬ [45, 45] <+: b) ∧ (s = .blockCommentEndEnd → ¬ [45] <+: b) ∧ ¬ closer <:+: b

theorem loop_block (b : Bytes) (rest : Bytes) :
    ∀ (s : St), (s = .blockComment ∨ s = .blockCommentStartEnd ∨ s = .blockCommentEndEnd) → bcOk s b →
      (∀ c ∈ b, c ≠ 0) → ∀ (buf : Bytes) (p : Nat) (l : Option UInt8),
      loop s buf ⟨b ++ 41 :: 45 :: 45 :: rest, p, l⟩ =
        .done .blockCommentFinal (buf ++ b ++ closer) ⟨rest, p + b.length + 3, some 45⟩ := by
  induction b with
  | nil =>
    intro s hs _ _ buf p l
    have h1 : step s 41 = .next .blockCommentStartEnd true := by
      rcases hs with rfl | rfl | rfl
      · rw [step_bc]; rfl
      · rw [step_bcse]; rfl
      · rw [step_bcee 41 (by decide)]; rfl
    simp only [List.nil_append]
    rw [loop_cons _ _ _ _ _ _ (by decide), h1]
    simp only [↓reduceIte]
    rw [loop_cons _ _ _ _ _ _ (by decide), step_bcse]
    simp only [↓reduceIte]
    rw [loop_cons _ _ _ _ _ _ (by decide), step_bcee_dash]
    simp [closer]
  | cons c cs ih =>
    intro s hs hok h0 buf p l
    obtain ⟨hse, hee, hinf⟩ := hok
    have hc0 := h0 c (by simp)
    have hinf' : ¬ closer <:+: cs := fun h => hinf (List.IsInfix.trans h (List.infix_cons (List.infix_refl cs)))
    -- the next state and why it is fine for the rest
    have key : ∃ s', step s c = .next s' true ∧
        (s' = .blockComment ∨ s' = .blockCommentStartEnd ∨ s' = .blockCommentEndEnd) ∧ bcOk s' cs := by
      by_cases h41 : c = 41
      · subst h41
        refine ⟨.blockCommentStartEnd, ?_, Or.inr (Or.inl rfl), ?_⟩
        · rcases hs with rfl | rfl | rfl
          · rw [step_bc]; rfl
          · rw [step_bcse]; rfl
          · rw [step_bcee 41 (by decide)]; rfl
        · refine ⟨fun _ hpre => hinf ?_, fun h => by simp at h, hinf'⟩
          obtain ⟨t, ht⟩ := hpre
          exact ⟨[], t, by simp [closer, ← ht]⟩
      · rcases hs with rfl | rfl | rfl
        · exact ⟨.blockComment, by rw [step_bc]; simp [h41], Or.inl rfl,
            fun h => by simp at h, fun h => by simp at h, hinf'⟩
        · by_cases h45 : c = 45
          · subst h45
            refine ⟨.blockCommentEndEnd, by rw [step_bcse]; rfl, Or.inr (Or.inr rfl), fun h => by simp at h, ?_, hinf'⟩
            intro _ hpre
            apply hse rfl
            obtain ⟨t, ht⟩ := hpre
            exact ⟨t, by simp [← ht]⟩
          · exact ⟨.blockComment, by rw [step_bcse]; simp [h41, h45], Or.inl rfl,
              fun h => by simp at h, fun h => by simp at h, hinf'⟩
        · have h45 : c ≠ 45 := by
            intro h; subst h
            exact hee rfl ⟨cs, rfl⟩
          exact ⟨.blockComment, by rw [step_bcee c h45]; simp [h41], Or.inl rfl,
            fun h => by simp at h, fun h => by simp at h, hinf'⟩
    obtain ⟨s', hstep, hs', hok'⟩ := key
    rw [List.cons_append, loop_cons _ _ _ _ _ _ hc0, hstep]
    simp only [↓reduceIte]
    rw [ih s' hs' hok' (fun x hx => h0 x (by simp [hx]))]
    simp only [List.append_assoc, List.cons_append, List.nil_append, List.length_cons, LoopRes.done.injEq,
      Reader.mk.injEq, true_and, and_true]
    omega

theorem tok_blockComment (body rest : Bytes) (p : Nat) (l : Option UInt8) (hok : (Item.blockComment body).ok) :
    getNextToken ⟨45 :: 45 :: 40 :: (body ++ [41, 45, 45]) ++ rest, p, l⟩ =
      .tok ⟨.comment, 45 :: 45 :: 40 :: (body ++ [41, 45, 45]), p, p + body.length + 6⟩
        ⟨rest, p + body.length + 6, some 45⟩ := by
  obtain ⟨h0, hinf⟩ := hok
  have hl : loop .start [] ⟨45 :: 45 :: 40 :: (body ++ [41, 45, 45]) ++ rest, p, l⟩ =
      .done .blockCommentFinal (45 :: 45 :: 40 :: (body ++ [41, 45, 45])) ⟨rest, p + body.length + 6, some 45⟩ := by
    simp only [List.cons_append, List.append_assoc, List.nil_append]
    rw [loop_cons _ _ _ _ _ _ (by decide), step_start_dash]
    simp only [↓reduceIte, List.nil_append]
    rw [loop_cons _ _ _ _ _ _ (by decide), step_dash_dash]
    simp only [↓reduceIte, List.cons_append, List.nil_append]
    rw [loop_cons _ _ _ _ _ _ (by decide), step_commentStart_paren]
    simp only [↓reduceIte, List.cons_append, List.nil_append]
    rw [loop_block body rest .blockComment (Or.inl rfl) ⟨fun h => by simp at h, fun h => by simp at h, hinf⟩ h0]
    simp only [closer, List.cons_append, List.append_assoc, List.nil_append, LoopRes.done.injEq, Reader.mk.injEq,
      true_and, and_true]
    omega
  exact getNextToken_of_loop _ _ _ _ _ hl (finalAct_of_spec .blockCommentFinal _ .comment rfl)

/-! ## string literals: legality does not depend on what follows the closing quote -/

theorem hexVal_quote (q : Quote) : (hexVal q.byte).isSome = false := by cases q <;> decide

theorem twoHex_indep (q : Quote) (a n1 n2 : Bytes) :
    twoHex (a ++ q.byte :: n1) ↔ twoHex (a ++ q.byte :: n2) := by
  match a with
  | [] => cases n1 <;> cases n2 <;> simp [twoHex, hexVal_quote]
  | [x] => simp [twoHex, hexVal_quote]
  | x :: y :: zs => simp [twoHex]

theorem okAll_tail_indep (q : Quote) (n1 n2 : Bytes) (sps : List Sp) (h : okAll q (q.byte :: n1) sps) :
    okAll q (q.byte :: n2) sps := by
  induction sps with
  | nil => trivial
  | cons x xs ih =>
    obtain ⟨hx, hxs⟩ := h
    refine ⟨?_, ih hxs⟩
    cases x with
    | raw c => exact hx
    | named l => exact hx
    | hex d1 d2 => exact hx
    | esc c =>
      obtain ⟨h0, h1, h2, h3⟩ := hx
      exact ⟨h0, h1, h2, fun hc => fun ht => h3 hc ((twoHex_indep q _ n2 n1).mp ht)⟩

/-! ## every item, in any context -/

/-- **the lexer maps a well-formed item that does not run into the following text to exactly its
token**, wherever it stands (any following text, any offset) -/
theorem tok_item (it : Item) (rest : Bytes) (p : Nat) (l : Option UInt8) (hok : it.ok) (hsep : it.sep rest) :
    ∃ q l', getNextToken ⟨it.render ++ rest, p, l⟩ = .tok ⟨it.kind, it.lexeme, p, q⟩ ⟨rest, q, l'⟩ := by
  cases it with
  | word w => exact tok_word w rest p l hok hsep
  | number d => exact tok_number d rest p l hok hsep
  | str q sps =>
    have hok' : okAll q (q.byte :: rest) sps := okAll_tail_indep q [] rest sps hok
    have := getNextToken_string q sps rest p l hok'
    refine ⟨p + (renderAll sps).length + 2, some q.byte, ?_⟩
    simpa [Item.render, literal, Item.kind, Item.lexeme] using this
  | regexp body => exact ⟨_, _, tok_regexp body rest p l hok⟩
  | punct c => exact ⟨_, _, tok_punct c rest p l hok⟩
  | op2 a => exact ⟨_, _, tok_op2 a rest p l hok⟩
  | op1 c => exact tok_op1 c rest p l hok hsep
  | blank w => exact tok_blank w rest p l hok hsep
  | lineComment text => exact tok_lineComment text rest p l hok hsep
  | blockComment body => exact ⟨_, _, tok_blockComment body rest p l hok⟩

section
set_option maxRecDepth 100000
theorem punctKind_ne_eof : ∀ c : UInt8, (punctKind c).getD .error ≠ .eof := by apply all_u8; decide
theorem op2Kind_ne_eof : ∀ c : UInt8, (op2Kind c).getD .error ≠ .eof := by apply all_u8; decide
theorem op1Kind_ne_eof : ∀ c : UInt8, (op1Kind c).getD .error ≠ .eof := by apply all_u8; decide
end

theorem item_kind_ne_eof (it : Item) : it.kind ≠ .eof := by
  cases it with
  | word w => exact kwLookup_ne_eof w
  | punct c => exact punctKind_ne_eof c
  | op2 c => exact op2Kind_ne_eof c
  | op1 c => exact op1Kind_ne_eof c
  | _ => simp [Item.kind]

theorem renderItems_cons (it : Item) (its : List Item) : renderItems (it :: its) = it.render ++ renderItems its := by
  simp [renderItems]

theorem renderItems_append (xs ys : List Item) : renderItems (xs ++ ys) = renderItems xs ++ renderItems ys := by
  simp [renderItems]

/-- **the lexer on a well-separated item list**: exactly the items' tokens, then EOF -/
theorem getTokens_items (items : List Item) : ∀ (p : Nat) (l : Option UInt8), WellSep [] items →
    ∃ ts, getTokens ⟨renderItems items, p, l⟩ = .tokens ts ∧ ts.map Token.kl = items.map Item.kl ++ [(.eof, [])] := by
  induction items with
  | nil =>
    intro p l _
    exact ⟨_, getTokens_nil p l, rfl⟩
  | cons it its ih =>
    intro p l hw
    obtain ⟨hok, hsep, hrest⟩ := hw
    simp only [List.append_nil] at hsep
    obtain ⟨q, l', ht⟩ := tok_item it (renderItems its) p l hok hsep
    obtain ⟨ts, hts, hkl⟩ := ih q l' hrest
    refine ⟨⟨it.kind, it.lexeme, p, q⟩ :: ts, ?_, ?_⟩
    · rw [renderItems_cons, getTokens_tok _ _ _ ht, if_neg (item_kind_ne_eof it), hts]; rfl
    · simp only [List.map_cons, hkl, List.cons_append]; rfl

theorem wellSep_append (tail : Bytes) (xs ys : List Item) :
    WellSep tail (xs ++ ys) ↔ WellSep (renderItems ys ++ tail) xs ∧ WellSep tail ys := by
  induction xs with
  | nil => simp [WellSep]
  | cons x xs ih =>
    simp only [List.cons_append, WellSep, ih, renderItems_append, List.append_assoc]
    constructor
    · rintro ⟨a, b, c, d⟩; exact ⟨⟨a, b, c⟩, d⟩
    · rintro ⟨⟨a, b, c⟩, d⟩; exact ⟨a, b, c, d⟩

end Vore.Lex
