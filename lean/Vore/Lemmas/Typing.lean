import Vore.Spec.Typing
import Vore.Lemmas.TablesTie
/-!
# Vore.Lemmas.Typing — the checker (model + regenerated table) accepts exactly the documented typing
-/
namespace Vore
open Vore.Tables Vore.Extracted Vore.Spec Vore.Spec.Typing

/-! ## the regenerated expression tables are the documented table -/

theorem goTyping_bin_documented (l r : PT) (op : Op) :
    typeFromTable goTyping l r op = DocOps.binType l r op := by
  cases l <;> cases r <;> cases op <;> rfl

theorem goTyping_un_documented (t : PT) (op : Op) :
    unTypeFromTable goTyping t op = DocOps.unType t op := by
  cases t <;> cases op <;> rfl

theorem goTyping_ret_documented (ctx : Ctx) (t : PT) :
    retFromTable goTyping ctx t = true ↔ returnAllowed ctx t := by
  cases ctx <;> cases t <;> simp [returnAllowed] <;> rfl

theorem binType_documented (l r : PT) (op : Op) : binType l r op = DocOps.binType l r op := by
  rw [binType_eq_table, goTyping_bin_documented]

theorem unType_documented (t : PT) (op : Op) : unType t op = DocOps.unType t op := by
  rw [unType_eq_table, goTyping_un_documented]

theorem retOK_documented (ctx : Ctx) (t : PT) : retOK ctx t = true ↔ returnAllowed ctx t := by
  rw [retOK_eq_table, goTyping_ret_documented]

/-! ## association-list environments -/

theorem TEnv.find_filter_ne (Γ : TEnv) (x y : String) (h : y ≠ x) :
    (Γ.filter (fun kv => !(kv.1 == x))).find? (fun kv => kv.1 == y) = Γ.find? (fun kv => kv.1 == y) := by
  induction Γ with
  | nil => rfl
  | cons kv rest ih =>
    by_cases hk : kv.1 = x
    · have hy : (kv.1 == y) = false := by
        apply beq_eq_false_iff_ne.mpr; rw [hk]; exact Ne.symm h
      have hx : (kv.1 == x) = true := by simp [hk]
      rw [List.filter_cons, List.find?_cons]
      simp only [hx, hy, Bool.not_true]
      exact ih
    · have hx : (kv.1 == x) = false := beq_eq_false_iff_ne.mpr hk
      rw [List.filter_cons, List.find?_cons]
      simp only [hx, Bool.not_false, if_true]
      rw [List.find?_cons]
      cases hy : kv.1 == y with
      | true => rfl
      | false => exact ih

theorem TEnv.get_put (Γ : TEnv) (x : String) (t : PT) (y : String) :
    (Γ.put x t).get y = if y = x then t else Γ.get y := by
  unfold TEnv.put TEnv.get
  by_cases h : y = x
  · subst h; simp
  · have h' : (x == y) = false := by simp [Ne.symm h]
    simp only [List.find?_cons, h', if_neg h]
    rw [TEnv.find_filter_ne Γ x y h]

theorem TEnv.get_put_fun (Γ : TEnv) (x : String) (t : PT) :
    (Γ.put x t).get = Env.update Γ.get x t := by
  funext y; rw [TEnv.get_put]; rfl

theorem initTEnv_get : initTEnv.get = initEnv := by
  funext x
  unfold initEnv
  by_cases h1 : x = "matchLength"
  · subst h1; rfl
  · by_cases h2 : x = "match"
    · subst h2; rfl
    · have a : ("match" == x) = false := by simp [Ne.symm h2]
      have b : ("matchLength" == x) = false := by simp [Ne.symm h1]
      simp [initTEnv, TEnv.get, List.find?, a, b, h1]

/-! ## expressions -/

theorem hasType_of_typeOf {Γ : TEnv} : ∀ {e : PExpr} {t : PT}, typeOf Γ e = some t → HasType Γ.get e t
  | .str s, t, h => by simp [typeOf] at h; subst h; exact .str s
  | .num n, t, h => by simp [typeOf] at h; subst h; exact .num n
  | .bool b, t, h => by simp [typeOf] at h; subst h; exact .bool b
  | .var x, t, h => by simp [typeOf] at h; subst h; exact .var x
  | .un op e, t, h => by
    simp only [typeOf] at h
    cases he : typeOf Γ e with
    | none => simp [he] at h
    | some te =>
      simp [he] at h
      exact .un (hasType_of_typeOf he) (by rw [← unType_documented]; exact h)
  | .bin op l r, t, h => by
    simp only [typeOf] at h
    cases hl : typeOf Γ l with
    | none => simp [hl] at h
    | some tl =>
      cases hr : typeOf Γ r with
      | none => simp [hl, hr] at h
      | some tr =>
        simp [hl, hr] at h
        exact .bin (hasType_of_typeOf hl) (hasType_of_typeOf hr) (by rw [← binType_documented]; exact h)

theorem typeOf_of_hasType {Γ : TEnv} {e : PExpr} {t : PT} (h : HasType Γ.get e t) : typeOf Γ e = some t := by
  induction h with
  | str s => rfl
  | num n => rfl
  | bool b => rfl
  | var x => rfl
  | un _ hu ih => simp [typeOf, ih, unType_documented, hu]
  | bin _ _ hb ihl ihr => simp [typeOf, ihl, ihr, binType_documented, hb]

theorem typeOf_iff (Γ : TEnv) (e : PExpr) (t : PT) : typeOf Γ e = some t ↔ HasType Γ.get e t :=
  ⟨hasType_of_typeOf, typeOf_of_hasType⟩

/-! ## statements -/

theorem wt_of_checkStmt (ctx : Ctx) : ∀ (s : Stmt) (i j : TInfo), checkStmt ctx s i = some j →
    WT ctx i.inLoop i.env.get s j.env.get ∧ j.inLoop = i.inLoop
  | .skip, i, j, h => by simp [checkStmt] at h; subst h; exact ⟨.skip, rfl⟩
  | .seq a b, i, j, h => by
    simp only [checkStmt] at h
    cases ha : checkStmt ctx a i with
    | none => simp [ha] at h
    | some k =>
      simp [ha] at h
      have ⟨w1, e1⟩ := wt_of_checkStmt ctx a i k ha
      have ⟨w2, e2⟩ := wt_of_checkStmt ctx b k j h
      rw [e1] at w2
      exact ⟨.seq w1 w2, by rw [e2, e1]⟩
  | .set x e, i, j, h => by
    simp only [checkStmt] at h
    cases he : typeOf i.env e with
    | none => simp [he] at h
    | some t =>
      simp [he] at h; subst h
      refine ⟨?_, rfl⟩
      show WT ctx i.inLoop i.env.get (.set x e) (i.env.put x t).get
      rw [TEnv.get_put_fun]
      exact .set (hasType_of_typeOf he)
  | .ret e, i, j, h => by
    simp only [checkStmt] at h
    cases he : typeOf i.env e with
    | none => simp [he] at h
    | some t =>
      simp only [he] at h
      by_cases ht : retOK ctx t = true
      · simp [ht] at h; subst h
        exact ⟨.ret (hasType_of_typeOf he) ((retOK_documented ctx t).mp ht), rfl⟩
      · simp [ht] at h
  | .ite c t f, i, j, h => by
    simp only [checkStmt] at h
    cases hc : typeOf i.env c with
    | none => simp [hc] at h
    | some tc =>
      cases tc with
      | string => simp [hc] at h
      | number => simp [hc] at h
      | boolean =>
        simp only [hc] at h
        cases ha : checkStmt ctx t i with
        | none => simp [ha] at h
        | some k =>
          simp [ha] at h
          have ⟨w1, e1⟩ := wt_of_checkStmt ctx t i k ha
          have ⟨w2, e2⟩ := wt_of_checkStmt ctx f k j h
          rw [e1] at w2
          exact ⟨.ite (hasType_of_typeOf hc) w1 w2, by rw [e2, e1]⟩
  | .debug e, i, j, h => by
    simp only [checkStmt] at h
    cases he : typeOf i.env e with
    | none => simp [he] at h
    | some t => simp [he] at h; subst h; exact ⟨.debug (hasType_of_typeOf he), rfl⟩
  | .loop body, i, j, h => by
    simp only [checkStmt] at h
    cases hb : checkStmt ctx body { i with inLoop := true } with
    | none => simp [hb] at h
    | some k =>
      simp [hb] at h; subst h
      have ⟨w, _⟩ := wt_of_checkStmt ctx body _ k hb
      exact ⟨.loop w, rfl⟩
  | .cont, i, j, h => by
    simp only [checkStmt] at h
    by_cases hl : i.inLoop = true
    · simp [hl] at h; subst h; rw [hl]; exact ⟨.cont, rfl⟩
    · simp [hl] at h
  | .brk, i, j, h => by
    simp only [checkStmt] at h
    by_cases hl : i.inLoop = true
    · simp [hl] at h; subst h; rw [hl]; exact ⟨.brk, rfl⟩
    · simp [hl] at h

theorem checkStmt_of_wt (ctx : Ctx) {b : Bool} {G G' : Env} {s : Stmt} (w : WT ctx b G s G') :
    ∀ i : TInfo, i.env.get = G → i.inLoop = b →
      ∃ j, checkStmt ctx s i = some j ∧ j.env.get = G' ∧ j.inLoop = b := by
  induction w with
  | skip => intro i hG hb; exact ⟨i, rfl, hG, hb⟩
  | seq _ _ ih1 ih2 =>
    intro i hG hb
    obtain ⟨k, hk, gk, bk⟩ := ih1 i hG hb
    obtain ⟨j, hj, gj, bj⟩ := ih2 k gk bk
    exact ⟨j, by simp [checkStmt, hk, hj], gj, bj⟩
  | @set b Γ x e t he =>
    intro i hG hb
    subst hG
    refine ⟨{ i with env := i.env.put x t }, by simp [checkStmt, typeOf_of_hasType he], ?_, hb⟩
    exact TEnv.get_put_fun _ _ _
  | @ret b Γ e t he hr =>
    intro i hG hb
    subst hG
    refine ⟨i, ?_, rfl, hb⟩
    simp only [checkStmt, typeOf_of_hasType he]
    simp [(retOK_documented ctx t).mpr hr]
  | ite hc _ _ ih1 ih2 =>
    intro i hG hb
    subst hG
    obtain ⟨k, hk, gk, bk⟩ := ih1 i rfl hb
    obtain ⟨j, hj, gj, bj⟩ := ih2 k gk bk
    exact ⟨j, by simp [checkStmt, typeOf_of_hasType hc, hk, hj], gj, bj⟩
  | debug he =>
    intro i hG hb
    subst hG
    exact ⟨i, by simp [checkStmt, typeOf_of_hasType he], rfl, hb⟩
  | loop _ ih =>
    intro i hG hb
    obtain ⟨k, hk, gk, _⟩ := ih { i with inLoop := true } hG rfl
    exact ⟨{ k with inLoop := i.inLoop }, by simp [checkStmt, hk], gk, hb⟩
  | cont => intro i hG hb; exact ⟨i, by simp [checkStmt, hb], hG, hb⟩
  | brk => intro i hG hb; exact ⟨i, by simp [checkStmt, hb], hG, hb⟩

theorem checkBody_iff_wellTyped (ctx : Ctx) (body : Stmt) :
    checkBody ctx body = true ↔ wellTyped ctx body := by
  unfold checkBody wellTyped
  constructor
  · intro h
    cases hc : checkStmt ctx body { env := initTEnv, inLoop := false } with
    | none => simp [hc] at h
    | some j =>
      have ⟨w, _⟩ := wt_of_checkStmt ctx body _ j hc
      rw [initTEnv_get] at w
      exact ⟨_, w⟩
  · intro ⟨G', w⟩
    obtain ⟨j, hj, _, _⟩ := checkStmt_of_wt ctx w { env := initTEnv, inLoop := false } initTEnv_get rfl
    simp [hj]

end Vore
