import Vore.Lemmas.Glob
/-!
# Vore.Lemmas.PathList — `GetFileList` lists the regular files whose path matches

Induction on the pattern's segments (outer) and on the entries of the directory reached so
far (inner).  `FS.resolve` of `cur/name` is the sub-directory `name` of what `cur` resolves
to (`resolve_child`), which is what lets the recursion of `getFileListNE` on path *strings*
follow the recursion of `Dir.regularFiles` on the *tree*.
-/
namespace Vore.Lemmas.PathList
open Vore Vore.Path Vore.Lemmas.Glob
open Vore.Spec.Glob (render)

local notation "G" => Vore.Spec.Glob.«matches»
local notation "PM" => Vore.Spec.Glob.pathMatches

/-! ## splitting at `/` -/

theorem splitByte_append (sep : UInt8) (a b : Bytes) :
    splitByte sep (a ++ sep :: b) = splitByte sep a ++ splitByte sep b := by
  induction a with
  | nil => simp [splitByte]
  | cons c a ih =>
    by_cases hc : c = sep
    · simp [splitByte, hc, ih]
    · obtain ⟨first, rest, h1, -⟩ := splitByte_spec sep a
      simp [splitByte, hc, ih, h1]

theorem splitByte_noSep (sep : UInt8) (s : Bytes) (h : sep ∉ s) : splitByte sep s = [s] := by
  induction s with
  | nil => rfl
  | cons c s ih =>
    have hc : c ≠ sep := fun e => h (by simp [e])
    have hs : sep ∉ s := fun e => h (by simp [e])
    simp [splitByte, hc, ih hs]

theorem segments_eq (p : Bytes) : Spec.Glob.segments p = splitByte slash p := by
  induction p with
  | nil => rfl
  | cons c p ih =>
    by_cases hc : c = Spec.Glob.slash
    · simp [Spec.Glob.segments, splitByte, ih, slash_eq, hc]
    · obtain ⟨first, rest, h1, -⟩ := splitByte_spec slash p
      simp [Spec.Glob.segments, splitByte, ih, ← slash_eq, h1]

/-! ## path resolution -/

theorem walk_append (st : List Dir) (a b : List Bytes) :
    walk st (a ++ b) = (walk st a).bind (fun s => walk s b) := by
  induction a generalizing st with
  | nil => simp [walk]
  | cons c a ih =>
    simp only [List.cons_append, walk]
    cases step st c with
    | none => simp
    | some s => simp [ih]

theorem validName_iff (n : Bytes) :
    Dir.validName n = true ↔ n ≠ [] ∧ slash ∉ n ∧ n ≠ [dot] ∧ n ≠ [dot, dot] := by
  simp [Dir.validName, and_assoc]

theorem step_valid (d : Dir) (anc : List Dir) (n : Bytes) (hn : Dir.validName n = true) :
    step (d :: anc) n = (d.subdir n).map (· :: d :: anc) := by
  obtain ⟨h1, _, h3, h4⟩ := (validName_iff n).mp hn
  simp [step, h1, h3, h4]

theorem resolve_child (fs : FS) (cur n : Bytes) (d : Dir) (anc : List Dir) (hcur : cur ≠ [])
    (hn : Dir.validName n = true) (hres : fs.resolve cur = some (d :: anc)) :
    fs.resolve (cur ++ slash :: n) = (d.subdir n).map (· :: d :: anc) := by
  obtain ⟨_, h2, _, _⟩ := (validName_iff n).mp hn
  cases cur with
  | nil => exact absurd rfl hcur
  | cons c cur =>
    simp only [FS.resolve, List.cons_append] at hres ⊢
    rw [← List.cons_append, splitByte_append, splitByte_noSep slash n h2, walk_append, hres]
    simp only [Option.bind_some, walk]
    rw [step_valid d anc n hn]
    cases d.subdir n <;> rfl

theorem readDir_of_resolve (fs : FS) (cur : Bytes) (d : Dir) (anc : List Dir)
    (hres : fs.resolve cur = some (d :: anc)) : fs.readDir cur = some d.entries := by
  simp [FS.readDir, hres]

theorem readDir_child_some (fs : FS) (cur n : Bytes) (d ch : Dir) (anc : List Dir) (hcur : cur ≠ [])
    (hn : Dir.validName n = true) (hres : fs.resolve cur = some (d :: anc)) (hsub : d.subdir n = some ch) :
    fs.resolve (cur ++ slash :: n) = some (ch :: d :: anc) := by
  rw [resolve_child fs cur n d anc hcur hn hres, hsub]; rfl

theorem readDir_child_none (fs : FS) (cur n : Bytes) (d : Dir) (anc : List Dir) (hcur : cur ≠ [])
    (hn : Dir.validName n = true) (hres : fs.resolve cur = some (d :: anc)) (hsub : d.subdir n = none) :
    fs.readDir (cur ++ slash :: n) = none := by
  simp [FS.readDir, resolve_child fs cur n d anc hcur hn hres, hsub]

/-- an unreadable directory yields nothing (`if err != nil { return []string{} }`) -/
theorem getFileListNE_none (rd : ReadDir) (e : PathEntry) (rest : List PathEntry) (cur : Bytes)
    (hv : e.value ≠ [slash]) (hrd : rd cur = none) : getFileListNE rd e rest cur = [] := by
  cases rest with
  | nil => simp [getFileListNE, hrd]
  | cons e' rest => simp [getFileListNE, hv, hrd]

/-! ## well-formed directories -/

theorem bytesLt_ne (a b : Bytes) (h : bytesLt a b = true) : a ≠ b := by
  intro e
  subst e
  simp [bytesLt] at h

theorem namesGt_ne (n : Bytes) : ∀ (d : Dir), d.namesGt n = true → ∀ m ∈ d.names, n ≠ m
  | .nil, _, m, hm => by simp [Dir.names] at hm
  | .file k rest, h, m, hm => by
    simp only [Dir.namesGt, Bool.and_eq_true] at h
    simp only [Dir.names, List.mem_cons] at hm
    rcases hm with rfl | hm
    · exact bytesLt_ne _ _ h.1
    · exact namesGt_ne n rest h.2 m hm
  | .sub k _ rest, h, m, hm => by
    simp only [Dir.namesGt, Bool.and_eq_true] at h
    simp only [Dir.names, List.mem_cons] at hm
    rcases hm with rfl | hm
    · exact bytesLt_ne _ _ h.1
    · exact namesGt_ne n rest h.2 m hm

/-- `look` finds, for every entry of `d`, exactly that entry; entry names are valid and
sub-directories well-formed -/
def Agree (look : Bytes → Option Dir) : Dir → Prop
  | .nil => True
  | .file n rest => (Dir.validName n = true ∧ look n = none) ∧ Agree look rest
  | .sub n ch rest => (Dir.validName n = true ∧ ch.wf = true ∧ look n = some ch) ∧ Agree look rest

theorem agree_congr (f g : Bytes → Option Dir) : ∀ (d : Dir), (∀ m ∈ d.names, f m = g m) → Agree f d → Agree g d
  | .nil, _, _ => trivial
  | .file n rest, h, ha => by
    refine ⟨⟨ha.1.1, ?_⟩, agree_congr f g rest (fun m hm => h m (by simp [Dir.names, hm])) ha.2⟩
    rw [← h n (by simp [Dir.names])]; exact ha.1.2
  | .sub n ch rest, h, ha => by
    refine ⟨⟨ha.1.1, ha.1.2.1, ?_⟩, agree_congr f g rest (fun m hm => h m (by simp [Dir.names, hm])) ha.2⟩
    rw [← h n (by simp [Dir.names])]; exact ha.1.2.2

theorem agree_of_wf : ∀ (d : Dir), d.wf = true → Agree d.subdir d
  | .nil, _ => trivial
  | .file n rest, h => by
    simp only [Dir.wf, Bool.and_eq_true] at h
    refine ⟨⟨h.1.1, by simp [Dir.subdir]⟩, ?_⟩
    apply agree_congr rest.subdir _ rest _ (agree_of_wf rest h.2)
    intro m hm
    have := namesGt_ne n rest h.1.2 m hm
    simp [Dir.subdir, this]
  | .sub n ch rest, h => by
    simp only [Dir.wf, Bool.and_eq_true] at h
    refine ⟨⟨h.1.1.1, h.1.2, by simp [Dir.subdir]⟩, ?_⟩
    apply agree_congr rest.subdir _ rest _ (agree_of_wf rest h.2)
    intro m hm
    have := namesGt_ne n rest h.1.1.2 m hm
    simp [Dir.subdir, this]

theorem names_nodup : ∀ (d : Dir), d.wf = true → d.names.Nodup
  | .nil, _ => by simp [Dir.names]
  | .file n rest, h => by
    simp only [Dir.wf, Bool.and_eq_true] at h
    simp only [Dir.names, List.nodup_cons]
    exact ⟨fun hm => namesGt_ne n rest h.1.2 n hm rfl, names_nodup rest h.2⟩
  | .sub n ch rest, h => by
    simp only [Dir.wf, Bool.and_eq_true] at h
    simp only [Dir.names, List.nodup_cons]
    exact ⟨fun hm => namesGt_ne n rest h.1.1.2 n hm rfl, names_nodup rest h.2⟩

theorem entries_names (d : Dir) : d.entries.map (·.name) = d.names := by
  induction d with
  | nil => rfl
  | file n rest ih => simp [Dir.entries, Dir.names, ih]
  | sub n ch rest _ ih => simp [Dir.entries, Dir.names, ih]

theorem regularFiles_ne_nil (d : Dir) : ∀ x ∈ d.regularFiles, x ≠ [] := by
  induction d with
  | nil => simp [Dir.regularFiles]
  | file n rest ih =>
    intro x hx
    simp only [Dir.regularFiles, List.mem_cons] at hx
    rcases hx with rfl | hx
    · simp
    · exact ih x hx
  | sub n ch rest _ ih =>
    intro x hx
    simp only [Dir.regularFiles, List.mem_append, List.mem_map] at hx
    rcases hx with ⟨y, _, rfl⟩ | hx
    · simp
    · exact ih x hx

/-! ## one level of the pattern against one directory -/

theorem PM_nil_right (s : Bytes) (segs : List Bytes) : PM (s :: segs) [] = false := by
  simp [Spec.Glob.pathMatches]

theorem PM_nil_left (x : List Bytes) (hx : x ≠ []) : PM [] x = false := by
  cases x with
  | nil => exact absurd rfl hx
  | cons _ _ => simp [Spec.Glob.pathMatches]

theorem render_cons (cur n : Bytes) (x : List Bytes) : render cur (n :: x) = render (cur ++ slash :: n) x := by
  simp [render, slash_eq]

theorem render_single (cur n : Bytes) : render cur [n] = cur ++ slash :: n := by
  simp [render, slash_eq]

/-- the last segment: the regular files of this directory whose name matches -/
theorem level_last (p cur : Bytes) (d : Dir) :
    (d.entries.filter (fun e => !e.isDir && G p e.name)).map (fun e => cur ++ slash :: e.name)
      = (d.regularFiles.filter (PM [p])).map (render cur) := by
  induction d with
  | nil => rfl
  | file n rest ih =>
    simp only [Dir.entries, Dir.regularFiles, List.filter_cons, Spec.Glob.pathMatches, Bool.and_true,
      Bool.not_false, Bool.true_and]
    cases G p n
    · simpa using ih
    · simpa [render_single] using ih
  | sub n ch rest _ ih =>
    simp only [Dir.entries, Dir.regularFiles, List.filter_cons, Bool.not_true, Bool.false_and,
      List.filter_append, List.map_append]
    have : (ch.regularFiles.map (n :: ·)).filter (PM [p]) = [] := by
      rw [List.filter_eq_nil_iff]
      intro x hx
      obtain ⟨y, hy, rfl⟩ := List.mem_map.mp hx
      simp [Spec.Glob.pathMatches, PM_nil_left y (regularFiles_ne_nil ch y hy)]
    rw [this]
    simpa using ih

/-- a directory segment: descend into every entry whose name matches.  `R` is the recursive
call on the remaining entries; `look` is what resolving `cur/name` finds. -/
theorem level_dir (p cur : Bytes) (segs : List Bytes) (hsegs : segs ≠ []) (R : Bytes → List Bytes)
    (look : Bytes → Option Dir)
    (hsome : ∀ n ch, Dir.validName n = true → ch.wf = true → look n = some ch → R (cur ++ slash :: n) = (ch.regularFiles.filter (PM segs)).map (render (cur ++ slash :: n)))
    (hnone : ∀ n, Dir.validName n = true → look n = none → R (cur ++ slash :: n) = []) :
    ∀ (d : Dir), Agree look d →
      (d.entries.filter (fun e => G p e.name)).flatMap (fun e => R (cur ++ slash :: e.name))
        = (d.regularFiles.filter (PM (p :: segs))).map (render cur) := by
  obtain ⟨s, segs', rfl⟩ := List.exists_cons_of_ne_nil hsegs
  intro d
  induction d with
  | nil => intro _; rfl
  | file n rest ih =>
    intro ha
    have ih := ih ha.2
    simp only [Dir.entries, Dir.regularFiles, List.filter_cons]
    have h1 : PM (p :: s :: segs') [n] = false := by simp [Spec.Glob.pathMatches]
    rw [h1]
    cases G p n
    · simpa using ih
    · simp only [if_true, List.flatMap_cons, hnone n ha.1.1 ha.1.2, List.nil_append, Bool.false_eq_true, if_false]
      exact ih
  | sub n ch rest _ ih =>
    intro ha
    have ih := ih ha.2
    simp only [Dir.entries, Dir.regularFiles, List.filter_cons, List.filter_append, List.map_append]
    have h1 : (ch.regularFiles.map (n :: ·)).filter (PM (p :: s :: segs'))
        = if G p n then (ch.regularFiles.filter (PM (s :: segs'))).map (n :: ·) else [] := by
      rw [List.filter_map]
      cases hg : G p n
      · simp only [Bool.false_eq_true, if_false, List.map_eq_nil_iff, List.filter_eq_nil_iff]
        intro x _
        simp [Spec.Glob.pathMatches, hg]
      · simp only [if_true]
        congr 1
        apply List.filter_congr
        intro x _
        simp [Spec.Glob.pathMatches, hg]
    rw [h1]
    cases hg : G p n
    · simpa using ih
    · simp only [if_true, List.flatMap_cons, hsome n ch ha.1.1 ha.1.2.1 ha.1.2.2, List.map_map]
      rw [ih]
      congr 1
      apply List.map_congr_left
      intro x _
      simp [render_cons]

/-- a literal directory segment is the wildcard case with at most one matching entry -/
theorem exists_as_filter (l : List DirEntry) (p : Bytes) (f : Bytes → List Bytes)
    (hnd : (l.map (·.name)).Nodup) :
    (if directoryExists l p then f p else []) = (l.filter (fun e => e.name == p)).flatMap (fun e => f e.name) := by
  induction l with
  | nil => simp [directoryExists]
  | cons e l ih =>
    simp only [List.map_cons, List.nodup_cons] at hnd
    have ih := ih hnd.2
    simp only [directoryExists, List.any_cons, List.filter_cons] at ih ⊢
    by_cases he : e.name = p
    · subst he
      have : l.filter (fun e' => e'.name == e.name) = [] := by
        rw [List.filter_eq_nil_iff]
        intro x hx hxe
        exact hnd.1 (List.mem_map.mpr ⟨x, hx, by simpa using hxe⟩)
      simp [this]
    · have hb : (e.name == p) = false := by simp [he]
      simp only [hb, Bool.false_or, Bool.false_eq_true, if_false]
      exact ih

/-! ## the entries `ParsePath` makes from the segments -/

/-- the entry for one segment (`last` = it is the final one) -/
def mkEntry (s : Bytes) (last : Bool) : PathEntry :=
  if last then (if containsStar s then ⟨.wildcardFile, s⟩ else ⟨.file, s⟩)
  else (if containsStar s then ⟨.wildcardDirectory, s⟩ else ⟨.directory, s⟩)

theorem parseEntries_cons (s : Bytes) (tl : List Bytes) :
    parseEntries (s :: tl) = mkEntry s tl.isEmpty :: parseEntries tl := by
  cases tl with
  | nil => simp [parseEntries, mkEntry]
  | cons s' tl => simp [parseEntries, mkEntry]

theorem mkEntry_value (s : Bytes) (b : Bool) : (mkEntry s b).value = s := by
  unfold mkEntry; split <;> split <;> rfl

theorem not_mem_of_containsStar (s : Bytes) (h : containsStar s = false) : Spec.Glob.star ∉ s := by
  intro hm
  simp [containsStar, star_eq] at h
  exact h hm

theorem ne_slash_of_not_mem (s : Bytes) (h : slash ∉ s) : s ≠ [slash] := by
  rintro rfl
  simp at h

/-- the recursion of `GetFileList`, for the entries of the segments `s :: tl` -/
theorem getFileListNE_spec (fs : FS) : ∀ (tl : List Bytes) (s : Bytes),
    (∀ x ∈ s :: tl, slash ∉ x) → (∀ x ∈ (s :: tl).dropLast, starOnly x = false) →
    ∀ (cur : Bytes) (d : Dir) (anc : List Dir), cur ≠ [] → fs.resolve cur = some (d :: anc) → d.wf = true →
    getFileListNE fs.readDir (mkEntry s tl.isEmpty) (parseEntries tl) cur
      = (d.regularFiles.filter (PM (s :: tl))).map (render cur) := by
  intro tl
  induction tl with
  | nil =>
    intro s _ _ cur d anc _ hres _
    simp only [parseEntries, getFileListNE, readDir_of_resolve fs cur d anc hres, mkEntry_value,
      pathMatches_eq]
    exact level_last s cur d
  | cons s' tl ih =>
    intro s hsl hso cur d anc hcur hres hwf
    have hs : slash ∉ s := hsl s (by simp)
    have hsl' : ∀ x ∈ s' :: tl, slash ∉ x := fun x hx => hsl x (by simp [hx])
    have hso' : ∀ x ∈ (s' :: tl).dropLast, starOnly x = false := fun x hx => hso x (by
      simp only [List.dropLast_cons_cons, List.mem_cons]; exact Or.inr hx)
    have hso1 : starOnly s = false := hso s (by simp)
    rw [parseEntries_cons s' tl]
    have hsl1 : (s == [slash]) = false := by simp [ne_slash_of_not_mem s hs]
    simp only [getFileListNE, mkEntry_value, hsl1, Bool.false_eq_true, if_false,
      readDir_of_resolve fs cur d anc hres, hso1, List.nil_append,
      List.isEmpty_cons, pathMatches_eq]
    -- the recursive call, as a function of the directory string
    have hsome : ∀ n ch, Dir.validName n = true → ch.wf = true → d.subdir n = some ch →
        getFileListNE fs.readDir (mkEntry s' tl.isEmpty) (parseEntries tl) (cur ++ slash :: n)
          = (ch.regularFiles.filter (PM (s' :: tl))).map (render (cur ++ slash :: n)) :=
      fun n ch hn hch hsub =>
        ih s' hsl' hso' (cur ++ slash :: n) ch (d :: anc) (by simp)
          (readDir_child_some fs cur n d ch anc hcur hn hres hsub) hch
    have hnone : ∀ n, Dir.validName n = true → d.subdir n = none →
        getFileListNE fs.readDir (mkEntry s' tl.isEmpty) (parseEntries tl) (cur ++ slash :: n) = [] :=
      fun n hn hsub =>
        getFileListNE_none _ _ _ _ (by rw [mkEntry_value]; exact ne_slash_of_not_mem s' (hsl' s' (by simp)))
          (readDir_child_none fs cur n d anc hcur hn hres hsub)
    have hlevel := level_dir s cur (s' :: tl) (by simp) _ d.subdir hsome hnone d (agree_of_wf d hwf)
    have hd1 : (PathEntryType.directory == PathEntryType.wildcardDirectory) = false := by decide
    have hd2 : (PathEntryType.directory == PathEntryType.directory) = true := by decide
    have hd3 : (PathEntryType.wildcardDirectory == PathEntryType.wildcardDirectory) = true := by decide
    cases hstar : containsStar s
    · -- a literal directory name
      have hns := not_mem_of_containsStar s hstar
      have hE : mkEntry s false = ⟨.directory, s⟩ := by simp [mkEntry, hstar]
      simp only [hE, hd1, hd2, Bool.false_eq_true, if_false, Bool.true_and]
      have hx := exists_as_filter d.entries s
        (fun n => getFileListNE fs.readDir (mkEntry s' tl.isEmpty) (parseEntries tl) (cur ++ slash :: n))
        (by rw [entries_names]; exact names_nodup d hwf)
      rw [hx, ← hlevel]
      congr 1
      apply List.filter_congr
      intro e _
      rw [G_lit s hns]
    · have hE : mkEntry s false = ⟨.wildcardDirectory, s⟩ := by simp [mkEntry, hstar]
      simp only [hE, hd3, if_true]
      exact hlevel

/-! ## `ParsePath(p).GetFileList(dir)` -/

theorem starOnly_eq (s : Bytes) : Path.starOnly s = Spec.Glob.starOnly s := rfl

theorem splitByte_cons_of (sep : UInt8) (p : Bytes) : ∃ s tl, splitByte sep p = s :: tl ∧ ∀ x ∈ s :: tl, sep ∉ x := by
  obtain ⟨first, rest, h1, -, h3, h4⟩ := splitByte_spec sep p
  refine ⟨first, rest, h1, ?_⟩
  intro x hx
  rcases List.mem_cons.mp hx with rfl | hx
  · exact h3
  · exact h4 x hx

theorem resolve_root (fs : FS) : fs.resolve [slash] = some [fs.root] := by
  simp [FS.resolve, splitByte, walk, step]

theorem fileList_spec (fs : FS) (pattern dir : Bytes) (start : Dir) (anc : List Dir)
    (hne : pattern ≠ []) (hstar : Spec.Glob.NoStarOnlyDir pattern)
    (hstart : fs.resolve (Spec.Glob.startDir pattern dir) = some (start :: anc)) (hwf : start.wf = true) :
    fileList fs.readDir pattern dir
      = .ok ((start.regularFiles.filter (PM (Spec.Glob.relSegments pattern))).map
          (render (Spec.Glob.startDir pattern dir))) := by
  cases pattern with
  | nil => exact absurd rfl hne
  | cons c rest =>
    by_cases hc : c = slash
    · -- absolute: restart at "/"
      subst hc
      have habs : Spec.Glob.isAbsolute (slash :: rest) = true := by simp [Spec.Glob.isAbsolute, slash_eq]
      simp only [Spec.Glob.startDir, Spec.Glob.relSegments, Spec.Glob.NoStarOnlyDir, habs, if_true,
        List.drop_succ_cons, List.drop_zero, segments_eq] at hstart hstar ⊢
      obtain ⟨s, tl, hsp, hsl⟩ := splitByte_cons_of slash rest
      rw [hsp] at hstar ⊢
      simp only [fileList, parsePath, beq_self_eq_true, if_true, hsp, parseEntries_cons, getFileList,
        getFileListNE]
      rw [← slash_eq]
      congr 1
      exact getFileListNE_spec fs tl s hsl (fun x hx => by rw [starOnly_eq]; exact hstar x hx)
        [slash] start anc (by simp) hstart hwf
    · have habs : Spec.Glob.isAbsolute (c :: rest) = false := by
        simp [Spec.Glob.isAbsolute, ← slash_eq, hc]
      simp only [Spec.Glob.startDir, Spec.Glob.relSegments, Spec.Glob.NoStarOnlyDir, habs,
        Bool.false_eq_true, if_false, segments_eq] at hstart hstar ⊢
      have hdir : dir ≠ [] := by
        rintro rfl
        simp [FS.resolve] at hstart
      obtain ⟨s, tl, hsp, hsl⟩ := splitByte_cons_of slash (c :: rest)
      rw [hsp] at hstar ⊢
      have hcb : (c == slash) = false := by simp [hc]
      simp only [fileList, parsePath, hcb, Bool.false_eq_true, if_false, hsp, parseEntries_cons, getFileList]
      congr 1
      exact getFileListNE_spec fs tl s hsl (fun x hx => by rw [starOnly_eq]; exact hstar x hx)
        dir start anc hdir hstart hwf

/-! ## no duplicates -/

theorem regularFiles_head (d : Dir) : ∀ x ∈ d.regularFiles, ∃ m y, m ∈ d.names ∧ x = m :: y := by
  induction d with
  | nil => simp [Dir.regularFiles]
  | file n rest ih =>
    intro x hx
    simp only [Dir.regularFiles, List.mem_cons] at hx
    rcases hx with rfl | hx
    · exact ⟨n, [], by simp [Dir.names], rfl⟩
    · obtain ⟨m, y, hm, rfl⟩ := ih x hx
      exact ⟨m, y, by simp [Dir.names, hm], rfl⟩
  | sub n ch rest _ ih =>
    intro x hx
    simp only [Dir.regularFiles, List.mem_append, List.mem_map] at hx
    rcases hx with ⟨y, _, rfl⟩ | hx
    · exact ⟨n, y, by simp [Dir.names], rfl⟩
    · obtain ⟨m, y, hm, rfl⟩ := ih x hx
      exact ⟨m, y, by simp [Dir.names, hm], rfl⟩

theorem not_mem_regularFiles_of_namesGt (n : Bytes) (rest : Dir) (h : rest.namesGt n = true) (y : List Bytes) :
    n :: y ∉ rest.regularFiles := by
  intro hm
  obtain ⟨m, y', hm', he⟩ := regularFiles_head rest _ hm
  injection he with h1 _
  exact namesGt_ne n rest h m hm' h1

theorem nodup_map_cons (n : Bytes) (l : List (List Bytes)) (h : l.Nodup) : (l.map (n :: ·)).Nodup := by
  induction l with
  | nil => simp
  | cons x l ih =>
    simp only [List.nodup_cons, List.map_cons, List.mem_map] at h ⊢
    refine ⟨?_, ih h.2⟩
    rintro ⟨y, hy, he⟩
    injection he with _ he
    exact h.1 (he ▸ hy)

theorem regularFiles_nodup : ∀ (d : Dir), d.wf = true → d.regularFiles.Nodup
  | .nil, _ => by simp [Dir.regularFiles]
  | .file n rest, h => by
    simp only [Dir.wf, Bool.and_eq_true] at h
    simp only [Dir.regularFiles, List.nodup_cons]
    exact ⟨not_mem_regularFiles_of_namesGt n rest h.1.2 [], regularFiles_nodup rest h.2⟩
  | .sub n ch rest, h => by
    simp only [Dir.wf, Bool.and_eq_true] at h
    simp only [Dir.regularFiles, List.nodup_append]
    refine ⟨nodup_map_cons n _ (regularFiles_nodup ch h.1.2), regularFiles_nodup rest h.2, ?_⟩
    intro a ha b hb hab
    obtain ⟨y, _, rfl⟩ := List.mem_map.mp ha
    subst hab
    exact not_mem_regularFiles_of_namesGt n rest h.1.1.2 y hb

theorem regularFiles_valid : ∀ (d : Dir), d.wf = true → ∀ x ∈ d.regularFiles, ∀ c ∈ x, Dir.validName c = true
  | .nil, _, x, hx, _, _ => by simp [Dir.regularFiles] at hx
  | .file n rest, h, x, hx, c, hc => by
    simp only [Dir.wf, Bool.and_eq_true] at h
    simp only [Dir.regularFiles, List.mem_cons] at hx
    rcases hx with rfl | hx
    · have : c = n := by simpa using hc
      rw [this]; exact h.1.1
    · exact regularFiles_valid rest h.2 x hx c hc
  | .sub n ch rest, h, x, hx, c, hc => by
    simp only [Dir.wf, Bool.and_eq_true] at h
    simp only [Dir.regularFiles, List.mem_append, List.mem_map] at hx
    rcases hx with ⟨y, hy, rfl⟩ | hx
    · rcases List.mem_cons.mp hc with rfl | hc
      · exact h.1.1.1
      · exact regularFiles_valid ch h.1.2 y hy c hc
    · exact regularFiles_valid rest h.2 x hx c hc

/-- splitting the written path at `/` gives the components back -/
theorem splitByte_join (x : List Bytes) (hx : ∀ c ∈ x, slash ∉ c) :
    splitByte slash (x.flatMap (slash :: ·)) = [] :: x := by
  induction x with
  | nil => rfl
  | cons n xs ih =>
    have hn : slash ∉ n := hx n (by simp)
    have ih := ih (fun c hc => hx c (by simp [hc]))
    simp only [List.flatMap_cons, List.cons_append, splitByte, beq_self_eq_true, if_true]
    congr 1
    cases xs with
    | nil => simpa using splitByte_noSep slash n hn
    | cons m xs' =>
      simp only [List.flatMap_cons, List.cons_append, splitByte, beq_self_eq_true, if_true] at ih ⊢
      rw [splitByte_append, splitByte_noSep slash n hn]
      injection ih with _ ih
      rw [ih]; rfl

theorem render_injective (dir : Bytes) (x y : List Bytes) (hx : ∀ c ∈ x, slash ∉ c) (hy : ∀ c ∈ y, slash ∉ c)
    (h : render dir x = render dir y) : x = y := by
  simp only [render, List.append_cancel_left_eq, ← slash_eq] at h
  have h1 := splitByte_join x hx
  have h2 := splitByte_join y hy
  rw [h] at h1
  rw [h1] at h2
  injection h2

theorem nodup_map_of_inj_on {α β : Type} (f : α → β) (l : List α) (hinj : ∀ a ∈ l, ∀ b ∈ l, f a = f b → a = b)
    (h : l.Nodup) : (l.map f).Nodup := by
  induction l with
  | nil => simp
  | cons a l ih =>
    simp only [List.nodup_cons, List.map_cons, List.mem_map] at h ⊢
    refine ⟨?_, ih (fun a ha b hb => hinj a (by simp [ha]) b (by simp [hb])) h.2⟩
    rintro ⟨b, hb, he⟩
    have := hinj b (by simp [hb]) a (by simp) he
    exact h.1 (this ▸ hb)

theorem slash_not_mem_of_valid (c : Bytes) (h : Dir.validName c = true) : slash ∉ c :=
  ((validName_iff c).mp h).2.1

/-- the rendered list of any selection of the regular files has no duplicates -/
theorem rendered_nodup (d : Dir) (hwf : d.wf = true) (dir : Bytes) (keep : List Bytes → Bool) :
    ((d.regularFiles.filter keep).map (render dir)).Nodup := by
  apply nodup_map_of_inj_on
  · intro a ha b hb h
    have ha' := (List.mem_filter.mp ha).1
    have hb' := (List.mem_filter.mp hb).1
    exact render_injective dir a b
      (fun c hc => slash_not_mem_of_valid c (regularFiles_valid d hwf a ha' c hc))
      (fun c hc => slash_not_mem_of_valid c (regularFiles_valid d hwf b hb' c hc)) h
  · exact (regularFiles_nodup d hwf).filter _

/-! ## `regularFiles` is the set of regular files -/

theorem hasFile_iff : ∀ (d : Dir), d.wf = true → ∀ k, ([k] ∈ d.regularFiles ↔ d.hasFile k = true)
  | .nil, _, k => by simp [Dir.regularFiles, Dir.hasFile]
  | .file n rest, h, k => by
    simp only [Dir.wf, Bool.and_eq_true] at h
    simp only [Dir.regularFiles, Dir.hasFile, List.mem_cons, List.cons.injEq, and_true]
    by_cases hk : n = k
    · subst hk; simp
    · have : ¬ k = n := fun e => hk e.symm
      simp [hk, this, hasFile_iff rest h.2 k]
  | .sub n ch rest, h, k => by
    simp only [Dir.wf, Bool.and_eq_true] at h
    simp only [Dir.regularFiles, Dir.hasFile, List.mem_append, List.mem_map]
    have h0 : ¬ ∃ a, a ∈ ch.regularFiles ∧ n :: a = [k] := by
      rintro ⟨a, ha, he⟩
      injection he with _ he
      exact regularFiles_ne_nil ch a ha he
    by_cases hk : n = k
    · subst hk
      simp only [h0, false_or, beq_self_eq_true, if_true, Bool.false_eq_true, iff_false]
      exact not_mem_regularFiles_of_namesGt n rest h.1.1.2 []
    · simp [hk, hasFile_iff rest h.2 k]

theorem subdir_none_of_not_mem (k : Bytes) : ∀ (d : Dir), k ∉ d.names → d.subdir k = none
  | .nil, _ => rfl
  | .file n rest, h => by
    simp only [Dir.names, List.mem_cons, not_or] at h
    have : ¬ n = k := fun e => h.1 e.symm
    simp [Dir.subdir, this, subdir_none_of_not_mem k rest h.2]
  | .sub n ch rest, h => by
    simp only [Dir.names, List.mem_cons, not_or] at h
    have : ¬ n = k := fun e => h.1 e.symm
    simp [Dir.subdir, this, subdir_none_of_not_mem k rest h.2]

theorem isRegularFile_iff : ∀ (d : Dir), d.wf = true → ∀ x, (x ∈ d.regularFiles ↔ d.isRegularFile x = true)
  | d, h, [] => by
    simp only [Dir.isRegularFile, Bool.false_eq_true, iff_false]
    exact fun hm => regularFiles_ne_nil d [] hm rfl
  | d, h, [k] => by simpa [Dir.isRegularFile] using hasFile_iff d h k
  | .nil, _, k :: m :: ms => by simp [Dir.regularFiles, Dir.isRegularFile, Dir.subdir]
  | .file n rest, h, k :: m :: ms => by
    have h' := h
    simp only [Dir.wf, Bool.and_eq_true] at h'
    have ih := isRegularFile_iff rest h'.2 (k :: m :: ms)
    simp only [Dir.regularFiles, List.mem_cons, List.cons.injEq, reduceCtorEq, and_false, false_or]
    rw [ih]
    simp only [Dir.isRegularFile, Dir.subdir]
    by_cases hk : n = k
    · subst hk
      simp [subdir_none_of_not_mem n rest (fun hm => namesGt_ne n rest h'.1.2 n hm rfl)]
    · simp [hk]
  | .sub n ch rest, h, k :: m :: ms => by
    have h' := h
    simp only [Dir.wf, Bool.and_eq_true] at h'
    have ih1 := isRegularFile_iff ch h'.1.2 (m :: ms)
    have ih2 := isRegularFile_iff rest h'.2 (k :: m :: ms)
    simp only [Dir.regularFiles, List.mem_append, List.mem_map]
    simp only [Dir.isRegularFile, Dir.subdir] at ih2 ⊢
    by_cases hk : n = k
    · subst hk
      have hno : n :: m :: ms ∉ rest.regularFiles := not_mem_regularFiles_of_namesGt n rest h'.1.1.2 _
      simp only [beq_self_eq_true, if_true, hno, or_false, ← ih1]
      constructor
      · rintro ⟨a, ha, he⟩
        injection he with _ he
        exact he ▸ ha
      · intro hm
        exact ⟨_, hm, rfl⟩
    · have h0 : ¬ ∃ a, a ∈ ch.regularFiles ∧ n :: a = k :: m :: ms := by
        rintro ⟨a, _, he⟩
        injection he with he _
        exact hk he
      simp only [h0, false_or, ih2]
      simp [hk]


end Vore.Lemmas.PathList
