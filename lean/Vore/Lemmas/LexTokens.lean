import Vore.Lemmas.LexString
import Vore.Lemmas.LexTotal
/-!
# Vore.Lemmas.LexTokens — unfolding `getTokens`/`getNextToken`, the end of input
-/
namespace Vore.Lex
open Vore Vore.ExtractedLex

theorem getTokens_tok (r : Reader) (t : Token) (r' : Reader) (h : getNextToken r = .tok t r') :
    getTokens r = if t.kind = .eof then .tokens [t] else (getTokens r').cons t := by
  rw [getTokens]
  split
  · rename_i h2; rw [h] at h2; simp at h2
  · rename_i h2; rw [h] at h2; simp at h2
  · rename_i t2 r2 h2
    rw [h] at h2
    simp only [TokRes.tok.injEq] at h2
    obtain ⟨rfl, rfl⟩ := h2
    rfl

theorem getTokens_err (r : Reader) (e : ErrKind) (a b : Nat) (h : getNextToken r = .err e a b) :
    getTokens r = .lexError e a b := by
  rw [getTokens]
  split
  · rename_i h2; rw [h] at h2; simp at h2
  · rename_i h2; rw [h] at h2; simp only [TokRes.err.injEq] at h2; obtain ⟨rfl, rfl, rfl⟩ := h2; rfl
  · rename_i h2; rw [h] at h2; simp at h2

theorem finalAct_of_spec (s : St) (buf : Bytes) (k : Tok) (h : finalSpec s = some (.tok k)) :
    finalAct s buf = .tok k := by
  unfold finalAct; rw [goFinal_spec, h]

theorem finalAct_err_of_spec (s : St) (buf : Bytes) (e : ErrKind) (h : finalSpec s = some (.err e)) :
    finalAct s buf = .err e := by
  unfold finalAct; rw [goFinal_spec, h]

/-- at the end of the input the next token is EOF, of width 0 -/
theorem getNextToken_nil (pos : Nat) (last : Option UInt8) :
    getNextToken ⟨[], pos, last⟩ = .tok ⟨.eof, [], pos, pos⟩ ⟨[], pos, none⟩ := by
  unfold getNextToken
  rw [loop]
  simp [Reader.read, finalAct_of_spec .end_ [] .eof rfl]

theorem getTokens_nil (pos : Nat) (last : Option UInt8) :
    getTokens ⟨[], pos, last⟩ = .tokens [⟨.eof, [], pos, pos⟩] := by
  rw [getTokens_tok _ _ _ (getNextToken_nil pos last)]; simp

theorem step_start_quote (q : Quote) : step .start q.byte = .next q.st false := by
  cases q <;> simp [step, Quote.byte, Quote.st, isSpace, isDigit, isLetter]

/-- a string literal anywhere in a program is one STRING token whose lexeme is the denoted bytes -/
theorem getNextToken_string (q : Quote) (sps : List Sp) (rest : Bytes) (pos : Nat) (last : Option UInt8)
    (hok : okAll q (q.byte :: rest) sps) :
    getNextToken ⟨q.byte :: (renderAll sps ++ q.byte :: rest), pos, last⟩ =
      .tok ⟨.string, denoteAll sps, pos, pos + (renderAll sps).length + 2⟩
        ⟨rest, pos + (renderAll sps).length + 2, some q.byte⟩ := by
  unfold getNextToken
  rw [loop_cons _ _ _ _ _ _ q.byte_ne_zero, step_start_quote]
  simp only [Bool.false_eq_true, ↓reduceIte]
  rw [loop_string q sps rest [] (pos + 1) (some q.byte) hok]
  simp only [List.nil_append, finalAct_of_spec .stringEnd _ .string rfl]
  have : pos + 1 + (renderAll sps).length + 1 = pos + (renderAll sps).length + 2 := by omega
  rw [this]

/-- a complete literal as the whole source: `[STRING b, EOF]` -/
theorem lex_literal (q : Quote) (sps : List Sp) (b : Bytes) (h : Spells q sps b) :
    lex (literal q sps) =
      .tokens [⟨.string, b, 0, (literal q sps).length⟩,
               ⟨.eof, [], (literal q sps).length, (literal q sps).length⟩] := by
  obtain ⟨hok, hb⟩ := h
  have hlen : (literal q sps).length = (renderAll sps).length + 2 := by simp [literal]
  unfold lex initLexer
  have hlit : literal q sps = q.byte :: (renderAll sps ++ q.byte :: []) := by simp [literal]
  rw [hlen, hlit]
  rw [getTokens_tok _ _ _ (getNextToken_string q sps [] 0 none hok)]
  simp only [reduceCtorEq, ↓reduceIte, Nat.zero_add]
  rw [getTokens_nil, hb]
  rfl

end Vore.Lex
