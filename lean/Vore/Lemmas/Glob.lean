import Vore.Model.Path
import Vore.Spec.Glob
/-!
# Vore.Lemmas.Glob — the fixed segment matcher decides the glob relation

`pathMatches` (split at the stars; prefix, leftmost occurrences, suffix) against the
recursive definition `Spec.Glob.matches`, and that against the relation `Spec.Glob.Matches`.
The one non-trivial step is `matches_star_mid`: taking the text between two stars at its
*leftmost* occurrence loses nothing, because the following star can absorb whatever a later
occurrence would have left to it.
-/
namespace Vore.Lemmas.Glob
open Vore Vore.Path
open Vore.Spec.Glob (anySuffix Matches)

local notation "G" => Vore.Spec.Glob.«matches»

theorem star_eq : Path.star = Spec.Glob.star := rfl
theorem slash_eq : Path.slash = Spec.Glob.slash := rfl

/-! ## the recursive definition -/

theorem G_nil (s : Bytes) : G [] s = s.isEmpty := by
  simp [Spec.Glob.«matches»]

theorem G_star (p s : Bytes) : G (Spec.Glob.star :: p) s = anySuffix (G p) s := by
  simp [Spec.Glob.«matches»]

theorem G_lit_nil (c : UInt8) (p : Bytes) (h : c ≠ Spec.Glob.star) : G (c :: p) [] = false := by
  simp [Spec.Glob.«matches», h]

theorem G_lit_cons (c d : UInt8) (p s : Bytes) (h : c ≠ Spec.Glob.star) :
    G (c :: p) (d :: s) = (c == d && G p s) := by
  simp [Spec.Glob.«matches», h]

theorem anySuffix_iff (k : Bytes → Bool) (s : Bytes) :
    anySuffix k s = true ↔ ∃ i, k (s.drop i) = true := by
  induction s with
  | nil =>
    simp [anySuffix]
  | cons c s ih =>
    simp only [anySuffix, Bool.or_eq_true, ih]
    constructor
    · rintro (h | ⟨i, h⟩)
      · exact ⟨0, by simpa using h⟩
      · exact ⟨i + 1, by simpa using h⟩
    · rintro ⟨i, h⟩
      cases i with
      | zero => left; simpa using h
      | succ i => right; exact ⟨i, by simpa using h⟩

/-- a star can absorb more: if the rest matches a suffix of a suffix, it matches a suffix -/
theorem anySuffix_drop (k : Bytes → Bool) (s : Bytes) (j : Nat) (h : anySuffix k (s.drop j) = true) :
    anySuffix k s = true := by
  rw [anySuffix_iff] at h ⊢
  obtain ⟨i, h⟩ := h
  exact ⟨j + i, by simpa [List.drop_drop] using h⟩

/-- text without a star: it must be a prefix, the rest of the pattern goes on behind it -/
theorem G_lit_append (lit : Bytes) (h : Spec.Glob.star ∉ lit) (p s : Bytes) :
    G (lit ++ p) s = (lit.isPrefixOf s && G p (s.drop lit.length)) := by
  induction lit generalizing s with
  | nil => simp
  | cons c lit ih =>
    have hc : c ≠ Spec.Glob.star := fun e => h (by simp [e])
    have hl : Spec.Glob.star ∉ lit := fun e => h (by simp [e])
    cases s with
    | nil => simp [G_lit_nil _ _ hc]
    | cons d s =>
      simp only [List.cons_append, G_lit_cons _ _ _ _ hc, ih hl, List.isPrefixOf_cons_cons,
        List.length_cons, List.drop_succ_cons, Bool.and_assoc]

/-- text without a star matches exactly itself -/
theorem G_lit (lit : Bytes) (h : Spec.Glob.star ∉ lit) (s : Bytes) : G lit s = (s == lit) := by
  have := G_lit_append lit h [] s
  rw [List.append_nil] at this
  rw [this, G_nil]
  apply Bool.eq_iff_iff.mpr
  simp only [Bool.and_eq_true, List.isPrefixOf_iff_prefix, List.isEmpty_iff, beq_iff_eq]
  constructor
  · rintro ⟨⟨t, rfl⟩, h2⟩
    simp at h2
    simp [h2]
  · rintro rfl
    simp

/-- `*text` at the end of the pattern: the text is a suffix -/
theorem G_star_last (last : Bytes) (h : Spec.Glob.star ∉ last) (s : Bytes) :
    G (Spec.Glob.star :: last) s = last.isSuffixOf s := by
  rw [G_star]
  apply Bool.eq_iff_iff.mpr
  rw [anySuffix_iff, List.isSuffixOf_iff_suffix]
  constructor
  · rintro ⟨i, hi⟩
    rw [G_lit last h] at hi
    have : s.drop i = last := by simpa using hi
    rw [← this]
    exact List.drop_suffix i s
  · intro hs
    refine ⟨s.length - last.length, ?_⟩
    rw [G_lit last h]
    simpa using (List.suffix_iff_eq_drop.mp hs).symm

/-- `*text*q`: take the text at its leftmost occurrence (`strings.Index`) -/
theorem matches_star_mid (part : Bytes) (h : Spec.Glob.star ∉ part) (q s : Bytes) :
    G (Spec.Glob.star :: (part ++ Spec.Glob.star :: q)) s =
      match index part s with
      | none => false
      | some i => G (Spec.Glob.star :: q) (s.drop (i + part.length)) := by
  rw [G_star]
  induction s with
  | nil =>
    simp only [anySuffix, index, G_lit_append part h]
    cases hp : part.isPrefixOf ([] : Bytes) <;> simp
  | cons c s ih =>
    simp only [anySuffix, index, ih, G_lit_append part h]
    cases hp : part.isPrefixOf (c :: s)
    · -- no occurrence here: whatever the tail says
      simp only [Bool.false_and, Bool.false_or, if_false, Bool.false_eq_true]
      cases hi : index part s with
      | none => simp
      | some i =>
        simp only [Option.map_some]
        rw [show i + 1 + part.length = (i + part.length) + 1 by omega, List.drop_succ_cons]
    · -- an occurrence here: a later one cannot do better
      simp only [Bool.true_and, if_true, Nat.zero_add]
      apply Bool.eq_iff_iff.mpr
      simp only [Bool.or_eq_true]
      constructor
      · rintro (h1 | h2)
        · exact h1
        · cases hi : index part s with
          | none => simp [hi] at h2
          | some i =>
            simp only [hi] at h2
            rw [G_star] at h2 ⊢
            -- (c :: s).drop (i + 1 + |part|) is a suffix of (c :: s).drop |part|
            apply anySuffix_drop _ _ (i + 1)
            rw [List.drop_drop, show part.length + (i + 1) = (i + part.length) + 1 by omega,
              List.drop_succ_cons]
            exact h2
      · intro h1
        exact Or.inl h1

/-- the pattern `*part*more₁*more₂…` -/
theorem matchRest_eq (more : List Bytes) : ∀ (part target : Bytes),
    Spec.Glob.star ∉ part → (∀ p ∈ more, Spec.Glob.star ∉ p) →
    matchRest target part more = G (Spec.Glob.star :: (part ++ more.flatMap (Spec.Glob.star :: ·))) target := by
  induction more with
  | nil =>
    intro part target hp _
    simp only [matchRest, List.flatMap_nil, List.append_nil]
    exact (G_star_last part hp target).symm
  | cons next more ih =>
    intro part target hp hm
    have hn : Spec.Glob.star ∉ next := hm next (by simp)
    have hm' : ∀ p ∈ more, Spec.Glob.star ∉ p := fun p hp => hm p (by simp [hp])
    simp only [matchRest, List.flatMap_cons, List.cons_append]
    rw [matches_star_mid part hp]
    cases index part target with
    | none => rfl
    | some i => exact ih next _ hn hm'

/-! ## `strings.Split` -/

theorem splitByte_ne_nil (sep : UInt8) (s : Bytes) : splitByte sep s ≠ [] := by
  induction s with
  | nil => simp [splitByte]
  | cons c s ih =>
    unfold splitByte
    split
    · simp
    · split <;> simp

/-- the parts are free of the separator and joining them with it gives the string back -/
theorem splitByte_spec (sep : UInt8) (s : Bytes) :
    ∃ first rest, splitByte sep s = first :: rest ∧ s = first ++ rest.flatMap (sep :: ·) ∧
      sep ∉ first ∧ ∀ p ∈ rest, sep ∉ p := by
  induction s with
  | nil => exact ⟨[], [], by simp [splitByte]⟩
  | cons c s ih =>
    obtain ⟨first, rest, h1, h2, h3, h4⟩ := ih
    by_cases hc : c = sep
    · subst hc
      refine ⟨[], first :: rest, by simp [splitByte, h1], by simp [← h2], by simp, ?_⟩
      intro p hp
      rcases List.mem_cons.mp hp with rfl | hp
      · exact h3
      · exact h4 p hp
    · refine ⟨c :: first, rest, by simp [splitByte, h1, hc], by simp [← h2], ?_, h4⟩
      intro hm
      rcases List.mem_cons.mp hm with e | hm
      · exact hc e.symm
      · exact h3 hm

/-! ## the segment theorem -/

theorem pathMatches_eq (name pat : Bytes) : Path.pathMatches name pat = G pat name := by
  obtain ⟨first, rest, h1, h2, h3, h4⟩ := splitByte_spec Path.star pat
  rw [star_eq] at h1 h2 h3 h4
  unfold Path.pathMatches
  rw [star_eq, h1]
  cases rest with
  | nil =>
    simp only [List.flatMap_nil, List.append_nil] at h2
    subst h2
    exact (G_lit pat h3 name).symm
  | cons part more =>
    have hp : Spec.Glob.star ∉ part := h4 part (by simp)
    have hm : ∀ p ∈ more, Spec.Glob.star ∉ p := fun p hp => h4 p (by simp [hp])
    simp only []
    rw [h2, G_lit_append first h3, List.flatMap_cons, List.cons_append]
    cases first.isPrefixOf name
    · simp
    · simp only [if_true, Bool.true_and]
      exact matchRest_eq more part _ hp hm

/-! ## the decision procedure decides the relation -/

theorem Matches_of_G : ∀ (pat name : Bytes), G pat name = true → Matches pat name
  | [], name, h => by
    rw [G_nil] at h
    have : name = [] := by simpa using h
    subst this
    exact .nil
  | p :: pat, name, h => by
    by_cases hp : p = Spec.Glob.star
    · subst hp
      rw [G_star, anySuffix_iff] at h
      obtain ⟨i, hi⟩ := h
      have := Matches.star (name.take i) (Matches_of_G pat (name.drop i) hi)
      rwa [List.take_append_drop] at this
    · cases name with
      | nil => simp [G_lit_nil _ _ hp] at h
      | cons c name =>
        rw [G_lit_cons _ _ _ _ hp] at h
        simp only [Bool.and_eq_true, beq_iff_eq] at h
        obtain ⟨rfl, h⟩ := h
        exact .lit hp (Matches_of_G pat name h)

theorem G_of_Matches {pat name : Bytes} (h : Matches pat name) : G pat name = true := by
  induction h with
  | nil => rfl
  | lit hc _ ih => rw [G_lit_cons _ _ _ _ hc]; simp [ih]
  | star run _ ih =>
    rw [G_star, anySuffix_iff]
    exact ⟨run.length, by simpa using ih⟩

theorem matches_iff (pat name : Bytes) : G pat name = true ↔ Matches pat name :=
  ⟨Matches_of_G pat name, G_of_Matches⟩

end Vore.Lemmas.Glob
