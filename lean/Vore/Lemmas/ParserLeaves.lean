import Vore.Lemmas.ParserBasics
/-!
# Vore.Lemmas.ParserLeaves — simulation lemmas for the non-recursive parser functions
(amounts, character classes, strings, `in` lists, `with` atoms, loop suffix, regex literal)
-/
namespace Vore.Parser
open Vore Vore.Grammar

/-- case split on a token-kind test that occurs (syntactically equal) on both sides -/
macro "kcase " h:ident " : " c:term : tactic =>
  `(tactic| (by_cases $h : $c <;> simp only [$h:ident, ↓reduceIte, reduceCtorEq, sig_kind]))

theorem withNumber_sim {β : Type} {ts : List Token} {lo j : Nat} {t : Token}
    {K : Int → Res β} {K' : Int → GR β}
    (hk : ∀ v, t.kind = .number → Sim ts lo (K v) (K' v)) :
    Sim ts lo (withNumber t j K) (gNumber (Token.sig t) K') := by
  unfold withNumber gNumber
  simp only [sig_kind]
  kcase hn : t.kind = .number
  · rw [sig_lex (by simp [carriesLexeme, hn])]
    cases atoi t.lexeme with
    | none => exact sim_err
    | some v => exact hk v hn
  · exact sim_err

theorem parseAmount_sim {ts : List Token} (h : EndsEof ts) {i : Nat} (hi : i < ts.length) :
    Sim ts i (parseAmount ts i) (pAmount (strip (ts.drop i))) := by
  unfold parseAmount pAmount
  apply sim_skipTok h hi; intro n t htk hs hin hn hst
  simp only [sig_kind]
  kcase hk : t.kind = .all
  · have := h.succ_lt htk (by simp [hk])
    exact sim_ok rfl (by omega) this
  kcase hk2 : t.kind = .skip
  · have h1 := h.succ_lt htk (by simp [hk2])
    apply sim_skipTok h h1; intro n1 t1 htk1 hs1 hin1 hn1 hst1
    apply withNumber_sim; intro sv hk1
    have h2 := h.succ_lt htk1 (by simp [hk1])
    apply sim_skipTok h h2; intro n2 t2 htk2 hs2 hin2 hn2 hst2
    simp only [sig_kind]
    kcase hk2 : t2.kind = .take
    · have h3 := h.succ_lt htk2 (by simp [hk2])
      apply sim_skipTok h h3; intro n3 t3 htk3 hs3 hin3 hn3 hst3
      apply withNumber_sim; intro tv hk3
      have h4 := h.succ_lt htk3 (by simp [hk3])
      exact sim_ok rfl (by omega) h4
    · exact sim_ok hst2 (by omega) hn2
  kcase hk3 : (t.kind = .take ∨ t.kind = .top)
  · have h1 := h.succ_lt htk (by rcases hk3 with hk | hk <;> simp [hk])
    apply sim_skipTok h h1; intro n1 t1 htk1 hs1 hin1 hn1 hst1
    apply withNumber_sim; intro tv hk1
    have h2 := h.succ_lt htk1 (by simp [hk1])
    exact sim_ok rfl (by omega) h2
  kcase hk4 : t.kind = .last
  · have h1 := h.succ_lt htk (by simp [hk4])
    apply sim_skipTok h h1; intro n1 t1 htk1 hs1 hin1 hn1 hst1
    apply withNumber_sim; intro tv hk1
    have h2 := h.succ_lt htk1 (by simp [hk1])
    exact sim_ok rfl (by omega) h2
  · exact sim_err

theorem simpleClass_ne_eof {k : Tok} {c : Class} (h : simpleClass k = some c) : k ≠ .eof := by
  intro he; rw [he] at h; simp [simpleClass] at h

theorem compoundClass_ne_eof {k k2 : Tok} {c : Class} (h : compoundClass k k2 = some c) : k2 ≠ .eof := by
  intro he; rw [he] at h; cases k <;> simp [compoundClass] at h

theorem parseCharacterClass_sim {ts : List Token} (h : EndsEof ts) {i : Nat} {t : Token} {neg : Bool}
    (htk : tk ts i = some t) (hs : ignorable t.kind = false) :
    Sim ts (i + 1) (parseCharacterClass ts i neg) (pCharacterClass neg (strip (ts.drop i))) := by
  unfold parseCharacterClass pCharacterClass
  apply sim_tok htk hs
  simp only [sig_kind]
  cases hc : simpleClass t.kind with
  | some c =>
    have := h.succ_lt htk (simpleClass_ne_eof hc)
    exact sim_ok rfl (by omega) this
  | none =>
    simp only
    kcase hk : (t.kind = .line ∨ t.kind = .file ∨ t.kind = .word ∨ t.kind = .whole)
    · have h1 := h.succ_lt htk (by rcases hk with hk | hk | hk | hk <;> simp [hk])
      apply sim_skipTok h h1; intro n t2 htk2 hs2 hin hn hst
      simp only [sig_kind]
      cases hcc : compoundClass t.kind t2.kind with
      | some c =>
        have := h.succ_lt htk2 (compoundClass_ne_eof hcc)
        exact sim_ok rfl (by omega) this
      | none => exact sim_err
    · exact sim_err

theorem parseCaseless_sim {ts : List Token} (h : EndsEof ts) {i : Nat} {t : Token}
    (htk : tk ts i = some t) (hs : ignorable t.kind = false) (hk : t.kind ≠ .eof) :
    Sim ts (i + 1) (parseCaseless ts i) (pCaseless (strip (ts.drop i))) := by
  unfold parseCaseless pCaseless
  rw [strip_drop_cons htk hs]; simp only [next]
  have h1 := h.succ_lt htk hk
  apply sim_skipTok h h1; intro n t2 htk2 hs2 hin hn hst
  kcase hk2 : t2.kind = .string
  · have := h.succ_lt htk2 (by simp [hk2])
    rw [sig_lex (by simp [carriesLexeme, hk2])]
    exact sim_ok rfl (by omega) this
  · exact sim_err

theorem parseListable_sim {ts : List Token} (h : EndsEof ts) {i : Nat} {t : Token}
    (htk : tk ts i = some t) (hs : ignorable t.kind = false) :
    Sim ts (i + 1) (parseListable ts i) (pListable (strip (ts.drop i))) := by
  unfold parseListable pListable
  apply sim_tok htk hs
  kcase hk : t.kind = .string
  · have h1 := h.succ_lt htk (by simp [hk])
    rw [sig_lex (by simp [carriesLexeme, hk])]
    apply sim_skipTok h h1; intro c t2 htk2 hs2 hin hn hst
    kcase hk2 : t2.kind = .to
    · have h2 := h.succ_lt htk2 (by simp [hk2])
      apply sim_skipTok h h2; intro c2 t3 htk3 hs3 hin3 hn3 hst3
      kcase hk3 : t3.kind = .string
      · have := h.succ_lt htk3 (by simp [hk3])
        rw [sig_lex (by simp [carriesLexeme, hk3])]
        exact sim_ok rfl (by omega) this
      · exact sim_err
    · exact sim_ok hst (by omega) hn
  kcase hk2 : t.kind = .caseless
  · apply sim_bind (parseCaseless_sim h htk hs (by simp [hk2])); intro s k hle hlt
    exact sim_ok rfl hle hlt
  kcase hk3 : isListableClass t.kind = true
  · exact parseCharacterClass_sim h htk hs
  · exact sim_err

theorem inRest_sim {ts : List Token} (h : EndsEof ts) : ∀ (n nx : Nat), nx < ts.length → ts.length - nx ≤ n →
    Sim ts nx (inRest ts n nx) (pInRest n (strip (ts.drop nx))) := by
  intro n
  induction n with
  | zero => intro nx h1 h2; omega
  | succ n ih =>
    intro nx h1 h2
    unfold inRest pInRest
    apply sim_skipTok h h1; intro c t htk hs hin hn hst
    kcase hk : t.kind = .comma
    · have h3 := h.succ_lt htk (by simp [hk])
      apply sim_skip h h3; intro c1 t1 htk1 hs1 hin1 hn1 hst1
      rw [hst1]
      apply sim_bind (parseListable_sim h htk1 hs1); intro a nx' hle hlt
      apply sim_bind (ih nx' hlt (by omega)); intro as k hle2 hlt2
      exact sim_ok rfl (by omega) hlt2
    · exact sim_ok hst (by omega) hn

theorem parseIn_sim {ts : List Token} (h : EndsEof ts) {i F : Nat} {t : Token} {neg : Bool}
    (htk : tk ts i = some t) (hs : ignorable t.kind = false) (hk : t.kind ≠ .eof)
    (hF : ts.length - i ≤ F) :
    Sim ts (i + 1) (parseIn ts F i neg) (pIn F neg (strip (ts.drop i))) := by
  unfold parseIn pIn
  rw [strip_drop_cons htk hs]; simp only [next]
  have h1 := h.succ_lt htk hk
  apply sim_skip h h1; intro n t1 htk1 hs1 hin1 hn1 hst1
  rw [hst1]
  apply sim_bind (parseListable_sim h htk1 hs1); intro a nx hle hlt
  apply sim_bind (inRest_sim h F nx hlt (by omega)); intro as k hle2 hlt2
  exact sim_ok rfl (by omega) hlt2

theorem parseNotLiteral_sim {ts : List Token} (h : EndsEof ts) {i : Nat} {t : Token}
    (htk : tk ts i = some t) (hs : ignorable t.kind = false) (hk : t.kind ≠ .eof) :
    Sim ts (i + 1) (parseNotLiteral ts i) (pNotLiteral (strip (ts.drop i))) := by
  unfold parseNotLiteral pNotLiteral
  rw [strip_drop_cons htk hs]; simp only [next]
  have h1 := h.succ_lt htk hk
  apply sim_skipTok h h1; intro n t2 htk2 hs2 hin hn hst
  kcase hk2 : t2.kind = .string
  · have := h.succ_lt htk2 (by simp [hk2])
    rw [sig_lex (by simp [carriesLexeme, hk2])]
    exact sim_ok rfl (by omega) this
  kcase hk3 : isClassStart t2.kind = true
  · rw [hst]
    apply sim_bind (parseCharacterClass_sim h htk2 hs2); intro a k hle hlt
    exact sim_ok rfl (by omega) hlt
  · exact sim_err

theorem parseAtom_sim {ts : List Token} (h : EndsEof ts) {i : Nat} {t : Token}
    (htk : tk ts i = some t) (hs : ignorable t.kind = false) :
    Sim ts (i + 1) (parseAtom ts i) (pAtom (strip (ts.drop i))) := by
  unfold parseAtom pAtom
  apply sim_tok htk hs
  kcase hk : t.kind = .string
  · have := h.succ_lt htk (by simp [hk])
    rw [sig_lex (by simp [carriesLexeme, hk])]
    exact sim_ok rfl (by omega) this
  kcase hk2 : t.kind = .caseless
  · apply sim_bind (parseCaseless_sim h htk hs (by simp [hk2])); intro s k hle hlt
    exact sim_ok rfl hle hlt
  kcase hk3 : t.kind = .identifier
  · have := h.succ_lt htk (by simp [hk3])
    rw [sig_lex (by simp [carriesLexeme, hk3])]
    exact sim_ok rfl (by omega) this
  · exact sim_err

theorem parseRegexp_sim {rx : Bytes → RegexOutcome} (hrx : ∀ b, rx b ≠ .panic) {ts : List Token}
    (h : EndsEof ts) {i : Nat} {t : Token}
    (htk : tk ts i = some t) (hs : ignorable t.kind = false) (hk : t.kind = .regexp) :
    Sim ts (i + 1) (parseRegexp rx ts i) (pRegexp rx (strip (ts.drop i))) := by
  unfold parseRegexp pRegexp
  apply sim_tok htk hs
  rw [sig_lex (by simp [carriesLexeme, hk])]
  have := h.succ_lt htk (by simp [hk])
  cases hr : rx t.lexeme with
  | ok e => exact sim_ok rfl (by omega) this
  | error => exact sim_err
  | panic => exact absurd hr (hrx _)

theorem parseLoopSuffix_sim {ts : List Token} (h : EndsEof ts) {nx : Nat} (hnx : nx < ts.length) :
    Sim ts nx (parseLoopSuffix ts nx) (pLoopSuffix (strip (ts.drop nx))) := by
  unfold parseLoopSuffix pLoopSuffix
  apply sim_skipTok h hnx; intro c t htk hs hin hn hst
  kcase hk : t.kind = .fewest
  · have h1 := h.succ_lt htk (by simp [hk])
    apply sim_skipTok h h1; intro c2 t2 htk2 hs2 hin2 hn2 hst2
    kcase hk2 : t2.kind = .named
    · have h2 := h.succ_lt htk2 (by simp [hk2])
      apply sim_skipTok h h2; intro c3 t3 htk3 hs3 hin3 hn3 hst3
      kcase hk3 : (t3.kind = .identifier ∨ t3.kind = .string)
      · have := h.succ_lt htk3 (by rcases hk3 with hk3 | hk3 <;> simp [hk3])
        rw [sig_lex (by rcases hk3 with hk3 | hk3 <;> simp [carriesLexeme, hk3])]
        exact sim_ok rfl (by omega) this
      · exact sim_err
    · exact sim_ok hst2 (by omega) hn2
  · rw [hst]
    apply sim_skipTok h hn; intro c2 t2 htk2 hs2 hin2 hn2 hst2
    kcase hk2 : t2.kind = .named
    · have h2 := h.succ_lt htk2 (by simp [hk2])
      apply sim_skipTok h h2; intro c3 t3 htk3 hs3 hin3 hn3 hst3
      kcase hk3 : (t3.kind = .identifier ∨ t3.kind = .string)
      · have := h.succ_lt htk3 (by rcases hk3 with hk3 | hk3 <;> simp [hk3])
        rw [sig_lex (by rcases hk3 with hk3 | hk3 <;> simp [carriesLexeme, hk3])]
        exact sim_ok rfl (by omega) this
      · exact sim_err
    · exact sim_ok hst2 (by omega) hn2
end Vore.Parser
