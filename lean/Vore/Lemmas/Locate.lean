import Vore.Spec.Locate
/-! helper lemmas for C03: `advance` computes `lineOf`/`colOf`; substring facts -/
namespace Vore
open Vore.Spec

def lineOf' (pre : Bytes) : Nat := 1 + pre.count nl
def colOf' (pre : Bytes) : Nat := (pre.reverse.takeWhile (· != nl)).length + 1

theorem lineOf_eq (text : Bytes) (off : Nat) : lineOf text off = lineOf' (text.take off) := rfl
theorem colOf_eq (text : Bytes) (off : Nat) : colOf text off = colOf' (text.take off) := rfl

theorem advance_spec (v : Bytes) : ∀ pre : Bytes,
    advance (lineOf' pre) (colOf' pre) v = (lineOf' (pre ++ v), colOf' (pre ++ v)) := by
  induction v with
  | nil => intro pre; simp [advance]
  | cons b bs ih =>
    intro pre
    have happ : pre ++ b :: bs = (pre ++ [b]) ++ bs := by simp
    rw [happ, ← ih (pre ++ [b])]
    simp only [advance]
    by_cases hb : b = nl
    · subst hb
      simp [lineOf', colOf', List.count_append]
      congr 1
    · simp [hb, lineOf', colOf', List.count_append]

theorem readAt_length_le (text : Bytes) (off n : Nat) : (readAt text off n).length ≤ n := by
  unfold readAt; split <;> simp [List.length_take]; omega

theorem readAt_spec (text : Bytes) (off n : Nat) :
    text.take (off + (readAt text off n).length) = text.take off ++ readAt text off n ∧
    (off ≤ text.length → off + (readAt text off n).length ≤ text.length) := by
  unfold readAt
  split
  · simp
  · next h =>
    have hle : off + n ≤ text.length := by omega
    have hlen : ((text.drop off).take n).length = n := by simp [List.length_take]; omega
    refine ⟨?_, fun _ => by omega⟩
    rw [hlen, List.take_add]

theorem infixB_iff (v w : Bytes) : infixB v w = true ↔ v <:+: w := by
  unfold infixB
  simp only [List.any_eq_true, List.mem_range, List.isPrefixOf_iff_prefix]
  constructor
  · rintro ⟨i, _, t, ht⟩
    exact ⟨w.take i, t, by rw [List.append_assoc, ht, List.take_append_drop]⟩
  · rintro ⟨s, t, h⟩
    refine ⟨s.length, ?_, t, ?_⟩
    · rw [← h]; simp; omega
    · rw [← h]; simp

theorem infixB_append {v w : Bytes} (x : Bytes) (h : infixB v w = true) : infixB v (w ++ x) = true := by
  rw [infixB_iff] at *
  obtain ⟨s, t, h⟩ := h
  exact ⟨s, t ++ x, by rw [← h]; simp⟩

theorem infixB_drop (w : Bytes) (n : Nat) : infixB (w.drop n) w = true := by
  rw [infixB_iff]
  exact ⟨w.take n, [], by simp⟩

theorem infixB_nil (w : Bytes) : infixB [] w = true := by
  rw [infixB_iff]; exact ⟨[], w, by simp⟩

mutual
theorem valSubB_append (w x : Bytes) : ∀ v : Val, valSubB w v = true → valSubB (w ++ x) v = true
  | .str s, h => by simp only [valSubB] at *; exact infixB_append x h
  | .map m, h => by simp only [valSubB] at *; exact mapSubB_append w x m h
theorem mapSubB_append (w x : Bytes) : ∀ m : VMap, mapSubB w m = true → mapSubB (w ++ x) m = true
  | .nil, _ => by simp [mapSubB]
  | .cons _ v rest, h => by
    simp only [mapSubB, Bool.and_eq_true] at *
    exact ⟨valSubB_append w x v h.1, mapSubB_append w x rest h.2⟩
end

theorem mapSubB_put (w : Bytes) (x : String) (v : Val) (hv : valSubB w v = true) :
    ∀ m : VMap, mapSubB w m = true → mapSubB w (m.put x v) = true
  | .nil, _ => by simp [VMap.put, mapSubB, hv]
  | .cons k u rest, h => by
    simp only [mapSubB, Bool.and_eq_true] at h
    unfold VMap.put
    split
    · simp [mapSubB, hv, h.2]
    · simp [mapSubB, h.1, mapSubB_put w x v hv rest h.2]

theorem mapSubB_get (w : Bytes) (x : String) : ∀ m : VMap, mapSubB w m = true →
    ∀ v, m.get x = some v → valSubB w v = true
  | .nil, _, v, hg => by simp [VMap.get] at hg
  | .cons k u rest, h, v, hg => by
    simp only [mapSubB, Bool.and_eq_true] at h
    unfold VMap.get at hg
    split at hg
    · simp at hg; subst hg; exact h.1
    · exact mapSubB_get w x rest h.2 v hg

end Vore
